(** Replay entry point of ActorCore: input = (external scripts, events, final query), output = per-event
    observations + observation log + final projection. *)
From Coq Require Import List NArith ZArith Bool.
From Vivid Require Import Base.Tm Actor.Core.
Import ListNotations.
Local Open Scope N_scope.

(* ---------------------------------------------------------------- decoding *)

Definition get_path (t : tm) : option path := get_list get_n t.

Definition get_rexpr (t : tm) : option rexpr :=
  match t with
  | TL [TN 0] => Some XSelf
  | TL [TN 1] => Some XParent
  | TL [TN 2] => Some XSender
  | TL [TN 3; TN n] => Some (XChild n)
  | TL [TN 4; p] => match get_path p with Some p => Some (XPath p) | None => None end
  | TL [TN 5; TN i] => Some (XHeld (N.to_nat i))
  | TL [TN 6] => Some XNil
  | _ => None
  end.

Definition dec_of (n : N) : decision :=
  match n with 1 => DRestart | 2 => DGRestart | 3 => DStop | 4 => DGStop | 5 => DResume | 6 => DEscalate | _ => DInvalid end.

Definition get_hook (t : tm) : option (bool * bool * bool) :=
  match t with
  | TL [a; b; c] => match get_bool a, get_bool b, get_bool c with Some a, Some b, Some c => Some (a, b, c) | _, _, _ => None end
  | _ => None
  end.

(** scripts are finite trees: decode with fuel = size bound supplied by the term's depth (structural on fuel) *)
Fixpoint get_action (fuel : nat) (t : tm) {struct fuel} : option action :=
  match fuel with
  | O => None
  | S f =>
    let acts := fun (t : tm) => get_list (get_action f) t in
    match t with
    | TL [TN 0; r; TN tag; a] => match get_rexpr r, acts a with Some r, Some a => Some (ATell r tag a) | _, _ => None end
    | TL [TN 1; TN tag; a] => match acts a with Some a => Some (ATellSelf tag a) | None => None end
    | TL [TN 2; TL [TN name; l; k; kd; TN strat; ds; pl; hooks; prov]] =>
        match acts l, acts k, acts kd, get_list get_n ds, get_bool pl, get_list get_hook hooks, get_bool prov with
        | Some l, Some k, Some kd, Some ds, Some pl, Some hooks, Some prov =>
            Some (ASpawn (Spec name l k kd strat (map dec_of ds) pl hooks prov))
        | _, _, _, _, _, _, _ => None
        end
    | TL [TN 3; r; p] => match get_rexpr r, get_bool p with Some r, Some p => Some (AKill r p) | _, _ => None end
    | TL [TN 4] => Some AStash
    | TL [TN 5] => Some (AUnstash None)
    | TL [TN 5; z] => match get_z z with Some z => Some (AUnstash (Some z)) | None => None end
    | TL [TN 6] => Some APanic
    | TL [TN 7; r] => match get_rexpr r with Some r => Some (AWatch r) | None => None end
    | TL [TN 8; r] => match get_rexpr r with Some r => Some (AUnwatch r) | None => None end
    | TL [TN 9; TN ty] => Some (ASub ty)
    | TL [TN 10; TN ty] => Some (AUnsub ty)
    | TL [TN 11] => Some AUnsubAll
    | TL [TN 12; TN ty; TN pl] => Some (APub ty pl)
    | TL [TN 13; TN m; d] => match get_bool d with Some d => Some (ABecome m d) | None => None end
    | TL [TN 14; d] => match get_bool d with Some d => Some (AUnbecome d) | None => None end
    | _ => None
    end
  end.

Definition SCRIPT_FUEL : nat := 64.

(** actors are named by (path, generation) on the wire *)
Fixpoint find_actor (l : list actor) (i : nat) (p : path) (g : N) : option aid :=
  match l with
  | [] => None
  | x :: r => if path_eqb (a_path x) p && N.eqb (a_gen x) g then Some i else find_actor r (S i) p g
  end.

Definition get_akey (s : state) (t : tm) : option aid :=
  match t with
  | TL [p; TN g] => match get_path p with Some p => find_actor (actors s) 0 p g | None => None end
  | _ => None
  end.

Definition get_tid (s : state) (t : tm) : option tid :=
  match t with
  | TL [TN 0; k] => match get_akey s k with Some a => Some (TA a) | None => None end
  | TL [TN 1; TN i] => Some (TX (N.to_nat i))
  | _ => None
  end.

(* ---------------------------------------------------------------- encoding *)

Definition t_path (p : path) : tm := tlist TN p.
Definition t_ref (s : state) (r : rref) : tm :=
  match ref_path s r with Some p => TL [t_path p] | None => TL [] end.

Fixpoint t_msg (s : state) (m : msg) : tm :=
  match m with
  | MLaunch => TL [TN 1]
  | MKill k p => TL [TN 2; t_ref s k; tbool p]
  | MKilled w => TL [TN 3; t_ref s w]
  | MSup (SupCtx ch _ _) => TL [TN 4; t_ref s ch]
  | MCmdPause => TL [TN 5]
  | MCmdResume => TL [TN 6]
  | MRestart p => TL [TN 7; tbool p]
  | MWatch => TL [TN 8]
  | MUnwatch => TL [TN 9]
  | MUser tag _ => TL [TN 10; TN tag]
  | MEvent ty pl => TL [TN 11; TN ty; tlist TN pl]
  | MDeadLetter sys inner => TL [TN 12; tbool sys; t_msg s inner]
  end.

Definition t_akey (s : state) (a : aid) : tm :=
  match get s a with Some x => TL [t_path (a_path x); TN (a_gen x)] | None => TL [] end.

Definition t_mbox (s : state) (m : mbox) : tm :=
  match m with
  | MbActor a => t_akey s a
  | MbRoot | MbDead => t_akey s 0
  end.

Definition t_obs (s : state) (o : obs) : tm :=
  match o with
  | OSeen who inst mode m => TL [TN 1; t_akey s who; TN inst; TN mode; t_msg s m]
  | OSpawn by_ name res => TL [TN 2; t_akey s by_; TN name; TN res]
  | OGuardClosed => TL [TN 3]
  | ODeadLetter sys m => TL [TN 4; tbool sys; t_msg s m]
  | ODropped m => TL [TN 5; t_msg s m]
  end.

(* lexicographic sort of paths for canonical output of Go maps *)
Fixpoint path_le (a b : path) : bool :=
  match a, b with
  | [], _ => true
  | _ :: _, [] => false
  | x :: a', y :: b' => if x <? y then true else if y <? x then false else path_le a' b'
  end.
Fixpoint ins_path (p : path) (l : list path) : list path :=
  match l with
  | [] => [p]
  | q :: r => if path_le p q then p :: l else q :: ins_path p r
  end.
Definition sort_paths (l : list path) : list path := fold_right ins_path [] l.

Definition state_code (x : actor) : N := match a_state x with Running => 0 | Killing => 1 | Killed => 2 end.

Definition t_actor (s : state) (a : aid) : tm :=
  match get s a with
  | None => TL []
  | Some x =>
      TL [t_path (a_path x); TN (a_gen x); TN (state_code x); tbool (a_zombie x); tbool (a_paused x);
          TN (N.of_nat (length (a_sq x))); TN (N.of_nat (length (a_uq x))); TN (N.of_nat (length (a_stash x)));
          tlist t_path (sort_paths (map fst (a_children x)));
          tlist t_path (sort_paths (map fst (a_watchers x)));
          TN (N.of_nat (length (a_modes x))); TN (a_inst x);
          tbool (match alookup (reg s) (a_path x) with Some y => Nat.eqb y a | None => false end)]
  end.

Fixpoint find_choice (s : state) (tos : list rref) (i : nat) (target : aid) : option nat :=
  match tos with
  | [] => None
  | to :: r =>
      match fst (resolve s to) with
      | MbActor b => if Nat.eqb b target then Some i else find_choice s r (S i) target
      | MbRoot | MbDead => if Nat.eqb 0 target then Some i else find_choice s r (S i) target
      end
  end.

(** one wire event: returns the model event and what the model predicts for it *)
Definition do_event (s : state) (t : tm) : state * tm :=
  match t with
  | TL [TN 0; k] => match get_akey s k with Some a => (step s (EvSysPop a), TN 0) | None => (set_err s, TN 990) end
  | TL [TN 1; k] => match get_akey s k with Some a => (step s (EvLoadPaused a), TN 0) | None => (set_err s, TN 991) end
  | TL [TN 2; k] => match get_akey s k with Some a => (step s (EvUserPop a), TN 0) | None => (set_err s, TN 992) end
  | TL [TN 3; k] =>
      match get_akey s k with
      | Some a =>
          let d := match get s a with
                   | Some x => match a_cons x with CH e => TL [tbool (e_sys e); t_msg s (e_msg e)] | _ => TL [TN 993] end
                   | None => TL [TN 993]
                   end in
          (step s (EvHandle a), d)
      | None => (set_err s, TN 993)
      end
  | TL [TN 4; th; target] =>
      match get_tid s th, get_akey s target with
      | Some t0, Some b =>
          let choice := match pend_of s t0 with
                        | IEnqAny _ tos _ _ :: _ => match find_choice s tos 0 b with Some c => c | None => 0%nat end
                        | ISupPause _ _ rem _ :: _ => match find_choice s rem 0 b with Some c => c | None => 0%nat end
                        | _ => 0%nat
                        end in
          let d := match pend_of s t0 with
                   | IEnqR sys mb _ m :: _ =>
                       TL [t_mbox s mb; tbool (match mb with MbDead => false | _ => sys end);
                           match mb with MbDead => t_msg s (MDeadLetter sys m) | _ => t_msg s m end]
                   | IEnqMb a e :: _ => TL [t_akey s a; tbool (e_sys e); t_msg s (e_msg e)]
                   | IEnqAny sys tos _ m :: _ =>
                       match nth_error tos choice with
                       | Some to => let mb := fst (resolve s to) in
                                    TL [t_mbox s mb; tbool (match mb with MbDead => false | _ => sys end);
                                        match mb with MbDead => t_msg s (MDeadLetter sys m) | _ => t_msg s m end]
                       | None => TL [TN 994]
                       end
                   | ISupPause _ _ rem _ :: _ =>
                       match nth_error rem choice with
                       | Some to => let mb := fst (resolve s to) in
                                    TL [t_mbox s mb; tbool (match mb with MbDead => false | _ => true end);
                                        match mb with MbDead => t_msg s (MDeadLetter true MCmdPause) | _ => t_msg s MCmdPause end]
                       | None => TL [TN 994]
                       end
                   | _ => TL [TN 995]
                   end in
          (step s (EvPush t0 choice), d)
      | _, _ => (set_err s, TN 996)
      end
  | TL [TN 5; th] => match get_tid s th with Some t0 => (step s (EvEnqDone t0), TN 0) | None => (set_err s, TN 997) end
  | TL [TN 6; th] => match get_tid s th with Some t0 => (step s (EvPauseSt t0), TN 0) | None => (set_err s, TN 997) end
  | TL [TN 7; th] => match get_tid s th with Some t0 => (step s (EvResume1 t0), TN 0) | None => (set_err s, TN 997) end
  | TL [TN 8; th] => match get_tid s th with Some t0 => (step s (EvResume2 t0), TN 0) | None => (set_err s, TN 997) end
  | TL [TN 9; TN i] => (step s (EvStart (N.to_nat i)), TN 0)
  | _ => (set_err s, TN 998)
  end.

Fixpoint replay (s : state) (evs : list tm) : state * list tm :=
  match evs with
  | [] => (s, [])
  | e :: r =>
      let (s1, d) := do_event s e in
      if err s1 then (s1, [d; TN 999])
      else let (s2, ds) := replay s1 r in (s2, d :: ds)
  end.

Fixpoint set_exts (s : state) (i : nat) (scripts : list (list action)) : state :=
  match scripts with
  | [] => s
  | sc :: r => set_exts (set_pend s (TX i) (map IAct sc)) (S i) r
  end.

Fixpoint ins_ty {A} (p : N * A) (l : list (N * A)) : list (N * A) :=
  match l with
  | [] => [p]
  | q :: r => if fst p <=? fst q then p :: l else q :: ins_ty p r
  end.
Definition t_subs (s : state) : tm :=
  tlist (fun p => TL [TN (fst p); tlist t_path (sort_paths (map fst (snd p)))]) (fold_right ins_ty [] (subs s)).

Definition run_actor (t : tm) : tm :=
  match t with
  | TL [scripts; TL evs; TL query] =>
      match get_list (get_list (get_action SCRIPT_FUEL)) scripts with
      | Some scs =>
          let s0 := set_exts (init_state (length scs)) 0 scs in
          let (s1, outs) := replay s0 evs in
          TL [TL outs;
              tlist (t_obs s1) (olog s1);
              tlist (fun k => match get_akey s1 k with Some a => t_actor s1 a | None => TL [] end) query;
              t_subs s1;
              tbool (err s1)]
      | None => tm_err 2
      end
  | _ => tm_err 0
  end.
