(** The supervision tree: every entry of a children map names a context created by that parent under that
    path, and every registered context (other than the root) is entered in its parent's children map. *)
From Coq Require Import List NArith ZArith Bool Lia Arith.
From Vivid Require Import Actor.Core Actor.CoreRun Actor.SpecMail Actor.ProofsMailBase Actor.ProofsMail Actor.ProofsMailInv
  Actor.ProofsMailWf Actor.ProofsMailAcct Actor.ProofsMailReg Actor.ProofsMailMicro Actor.ProofsMailLife Actor.ProofsMailStep
  Actor.ProofsMailTree Actor.ProofsMailMK.
Import ListNotations.

Definition KInv (s : state) : Prop :=
  (forall a x p c, get s a = Some x -> In (p, c) (a_children x) ->
     exists xc, get s c = Some xc /\ a_parent xc = Some a /\ a_path xc = p) /\
  (forall a x, get s a = Some x -> a <> 0 -> regd s a x ->
     exists q xq, a_parent x = Some q /\ get s q = Some xq /\ alookup (a_children xq) (a_path x) = Some a).

Lemma alookup_In {A} (l : list (path * A)) p v : alookup l p = Some v -> exists q, In (q, v) l /\ path_eqb p q = true.
Proof.
  induction l as [|[q w] l IH]; cbn [alookup]; [discriminate|]. destruct (path_eqb p q) eqn:E.
  - intros H. inversion H; subst. exists q. split; [left; reflexivity|exact E].
  - intros H. destruct (IH H) as (q' & Hin & Hq). exists q'. split; [right; exact Hin|exact Hq].
Qed.
Lemma In_aremove {A} (l : list (path * A)) p x : In x (aremove l p) -> In x l.
Proof. induction l as [|[q w] l IH]; cbn [aremove]; [auto|]. destruct (path_eqb p q); [intros H; right; auto|intros [H|H]; [left; exact H|right; auto]]. Qed.
Lemma In_aset {A} (l : list (path * A)) p v x : In x (aset l p v) -> In x l \/ x = (p, v).
Proof. unfold aset. intros H. apply in_app_or in H. destruct H as [H|[H|[]]]; [left; eapply In_aremove; exact H|right; symmetry; exact H]. Qed.

Lemma alookup_aset_same {A} (l : list (path * A)) p v : alookup (aset l p v) p = Some v.
Proof. unfold aset. rewrite (alookup_app_none _ _ _ (alookup_aremove_same l p)). cbn. rewrite path_eqb_refl. reflexivity. Qed.
Lemma alookup_aset_other {A} (l : list (path * A)) p q v : path_eqb q p = false -> alookup (aset l p v) q = alookup l q.
Proof.
  intros Hne. unfold aset. destruct (alookup l q) as [w|] eqn:E.
  - apply alookup_app_some. rewrite alookup_aremove_other by exact Hne. exact E.
  - rewrite alookup_app_none by (rewrite alookup_aremove_other by exact Hne; exact E). cbn. rewrite Hne. reflexivity.
Qed.

(** a step that keeps the registry, the length of the table, and path / parent / children of every record *)
Lemma KInv_transfer s s' :
  reg s' = reg s -> length (actors s') = length (actors s) ->
  (forall b x', get s' b = Some x' -> exists x, get s b = Some x /\ a_path x' = a_path x /\ a_parent x' = a_parent x /\ a_children x' = a_children x) ->
  KInv s -> KInv s'.
Proof.
  intros Hr Hl H [K10 K9].
  assert (Hfw : forall b x, get s b = Some x -> exists x', get s' b = Some x' /\ a_path x' = a_path x /\ a_parent x' = a_parent x /\ a_children x' = a_children x).
  { intros b x Hg. assert (Hlt : b < length (actors s')) by (rewrite Hl; eapply nth_error_lt; exact Hg).
    destruct (get s' b) as [x'|] eqn:E; [|apply nth_error_None in E; lia].
    destruct (H b x' E) as (x0 & Hx0 & P). assert (x0 = x) by congruence; subst. eauto. }
  split.
  - intros a x' p c Hg' Hlk. destruct (H a x' Hg') as (x & Hx & _ & _ & Hc). rewrite Hc in Hlk.
    destruct (K10 a x p c Hx Hlk) as (xc & Hxc & P1 & P2). destruct (Hfw c xc Hxc) as (xc' & Hxc' & Q1 & Q2 & _).
    exists xc'. split; [exact Hxc'|split; congruence].
  - intros a x' Hg' Hne Hreg. destruct (H a x' Hg') as (x & Hx & P1 & P2 & _). unfold regd in Hreg. rewrite Hr, P1 in Hreg.
    destruct (K9 a x Hx Hne Hreg) as (q & xq & Hq & Hxq & Hlk). destruct (Hfw q xq Hxq) as (xq' & Hxq' & _ & _ & Hc).
    exists q, xq'. split; [congruence|split; [exact Hxq'|rewrite Hc, P1; exact Hlk]].
Qed.

Lemma KInv_quiet s s' : quiet s s' -> KInv s -> KInv s'.
Proof.
  intros (Hr & _ & Hl & Hs & _). apply KInv_transfer; [exact Hr|exact Hl|].
  intros b x' Hg'. assert (Hlt : b < length (actors s)) by (rewrite <- Hl; eapply nth_error_lt; exact Hg').
  destruct (get s b) as [x|] eqn:Hg; [|apply nth_error_None in Hg; lia].
  destruct (softT_get _ _ _ _ Hs Hg) as (y & Hy & (_ & _ & C & _ & P1 & P2 & _)). assert (y = x') by congruence; subst. eauto.
Qed.

Lemma KInv_set_pend s t l : KInv s -> KInv (set_pend s t l).
Proof.
  apply KInv_transfer; [apply set_pend_reg|apply len_set_pend|].
  intros b x' Hg'. destruct t as [a|j].
  - cbn [set_pend] in Hg'. unfold with_actor in Hg'. destruct (get s a) as [xa|] eqn:Ha; [|eauto].
    destruct (Nat.eq_dec a b) as [<-|Hne].
    + rewrite (get_set_same' _ _ _ _ Ha) in Hg'. inversion Hg'; subst. exists xa. auto.
    + rewrite get_set_other in Hg' by exact Hne. eauto.
  - unfold get in Hg'. rewrite set_pend_TX_actors in Hg'. eauto.
Qed.

Lemma aremove_length {A} (l : list (path * A)) p : length (aremove l p) <= length l.
Proof. induction l as [|[q v] l IH]; cbn [aremove length]; [lia|]. destruct (path_eqb p q); cbn [length]; lia. Qed.

(** only ActorOf lengthens the table *)
Lemma exec1_len s t h i x :
  get s (self_of t) = Some x -> (forall sp, i <> IAct (ASpawn sp)) -> length (actors (fst (exec1 s t h i))) = length (actors s).
Proof.
  intros Hg Hns.
  destruct (exec1_reg_shape s t h i x Hg) as [(_ & y & Ha & _)|[(q & _ & Ha)|(p & g & sp & y & Hr & _)]]; cbv zeta in *.
  - rewrite Ha. apply upd_length.
  - rewrite Ha. reflexivity.
  - exfalso. rewrite (exec1_reg s t h i x Hg) in Hr. apply (f_equal (@length (path * aid))) in Hr. rewrite app_length in Hr. cbn [length] in Hr.
    destruct i; try lia; [destruct a; try lia; exfalso; eapply Hns; reflexivity|].
    pose proof (aremove_length (reg s) (a_path x)). lia.
Qed.

Lemma KInv_handle s a x e : KInv s -> get s a = Some x -> a_cons x = CH e -> KInv (mstep s (MHandle a)).
Proof.
  intros HK Hg Hc. cbn [mstep]. rewrite Hg, Hc.
  assert (Hl : a < length (actors s)) by (eapply nth_error_lt; exact Hg).
  set (s0 := set_actor s a (busy x)).
  assert (Hg0 : get s0 a = Some (busy x)) by (apply get_set_same; exact Hl).
  destruct (dispatch_effect s0 a (busy x) e Hg0) as (y & Hdf & Ha & _ & _ & _ & Hr & _).
  destruct (dispatch s0 a (busy x) e) as [s1 ins]. cbn [fst snd] in *.
  apply KInv_set_pend. revert HK. apply KInv_transfer; [exact Hr|rewrite Ha; unfold s0; cbn; rewrite !upd_length; reflexivity|].
  intros b xb Hgb. unfold get in Hgb. rewrite Ha in Hgb. unfold s0 in Hgb. cbn [set_actor actors] in Hgb. rewrite upd_upd in Hgb.
  destruct (Nat.eq_dec a b) as [<-|Hne].
  - rewrite nth_upd_eq in Hgb by exact Hl. inversion Hgb; subst xb. exists x. split; [exact Hg|].
    rewrite (df_path _ _ Hdf), (df_parent _ _ Hdf), (df_children _ _ Hdf). auto.
  - rewrite nth_upd_neq in Hgb by exact Hne. eauto.
Qed.

Lemma instr_is_onkilled i : (exists w, i = IOnKilled w) \/ (forall w, i <> IOnKilled w).
Proof. destruct i; try (right; intros w0; discriminate). left; eauto. Qed.

Lemma KInv_astep s t i rest :
  wf s -> LI s -> RInv s -> MK s -> KInv s -> pend_of s t = i :: rest -> KInv (astep s t i rest).
Proof.
  intros W HLI HR HM HK Hp. pose proof HK as [K10 K9].
  destruct (RInv_self s t HR i rest Hp) as (x & Hg).
  assert (Hl : self_of t < length (actors s)) by (eapply nth_error_lt; exact Hg).
  assert (Hext : forall j, t = TX j -> ext_instr i = true).
  { intros j ->. destruct (pend_of_TX_cons _ _ _ _ Hp) as (ex & Hn & Hpx). destruct W as [_ HX].
    pose proof (Forall_nth _ _ _ _ HX Hn) as Hok. cbv beta in Hok. rewrite Hpx in Hok. cbn [forallb] in Hok.
    apply andb_true_iff in Hok. apply Hok. }
  destruct (astep_table s t i rest x Hg Hp) as (Hg0 & y & news & Hy & Hnews & Ha1 & Ha & Hr & Hl0 & Hr0). cbv zeta in *.
  set (s0 := set_pend s t rest) in *. set (x0 := popped t x rest) in *.
  set (front := snd (exec1 s0 t (held_of s0 t) i)) in *.
  assert (Hx0 : a_path x0 = a_path x /\ a_parent x0 = a_parent x /\ a_children x0 = a_children x) by (unfold x0; destruct t; auto).
  destruct Hx0 as (X1 & X2 & X3).
  assert (Hys : a_path (pushed t y (front ++ rest)) = a_path y /\ a_parent (pushed t y (front ++ rest)) = a_parent y /\
                a_children (pushed t y (front ++ rest)) = a_children y) by (destruct t; auto).
  destruct Hys as (Y1 & Y2 & Y3).
  pose proof (exec1_reg s0 t (held_of s0 t) i x0 Hg0) as Hreg1.
  (* generic: no new record, registry and children unchanged *)
  assert (Hplainstep : news = [] -> reg (fst (exec1 s0 t (held_of s0 t) i)) = reg s0 -> a_children y = a_children x0 -> KInv (astep s t i rest)).
  { intros -> Hrg Hch. rewrite app_nil_r in Ha. revert HK.
    apply KInv_transfer; [rewrite Hr, Hrg; exact Hr0|rewrite Ha; apply upd_length|].
    intros b xb Hgb. unfold get in Hgb. rewrite Ha in Hgb. destruct (Nat.eq_dec (self_of t) b) as [<-|Hne].
    - rewrite nth_upd_eq in Hgb by exact Hl. inversion Hgb; subst xb. exists x. split; [exact Hg|].
      rewrite Y1, Y2, Y3, (lu_path _ _ _ Hy), (lu_parent _ _ _ Hy), Hch. auto.
    - rewrite nth_upd_neq in Hgb by exact Hne. eauto. }
  assert (Hnn : (forall sp, i <> IAct (ASpawn sp)) -> news = []).
  { intros Hns. pose proof (exec1_len s0 t (held_of s0 t) i x0 Hg0 Hns) as Hlen. rewrite Ha1, app_length, upd_length in Hlen.
    destruct news; [reflexivity|cbn in Hlen; lia]. }
  destruct (instr_is_spawn i) as [[sp ->]|Hns].
  - (* ActorOf *)
    destruct (exec1_spawn s0 t (held_of s0 t) sp x0 Hg0) as [[Hsa Hsr]|(Hlk & Hst & Hsr & g & Hsa)]; cbv zeta in *.
    + assert (Hn0 : news = []).
      { rewrite Hsa in Ha1. apply (f_equal (@length actor)) in Ha1. rewrite app_length, upd_length in Ha1. destruct news; [reflexivity|cbn in Ha1; lia]. }
      apply Hplainstep; [exact Hn0|exact Hsr|]. subst news. rewrite app_nil_r in Ha1. rewrite Hsa in Ha1.
      apply (f_equal (fun l => nth_error l (self_of t))) in Ha1. rewrite nth_upd_eq in Ha1 by (rewrite Hl0; exact Hl).
      unfold get in Hg0. rewrite Hg0 in Ha1. inversion Ha1. reflexivity.
    + rewrite Hl0, Hr0 in *. set (p := a_path x0 ++ [sp_name sp]) in *. set (c := length (actors s)) in *.
      assert (Hnews' : news = [new_actor p g (Some (self_of t)) sp] /\ y = set_children x0 (aset (a_children x0) p c)).
      { rewrite Hsa in Ha1. symmetry in Ha1. apply upd_app_inj in Ha1; [exact Ha1|rewrite Hl0; exact Hl]. }
      destruct Hnews' as [-> Hyeq].
      assert (Hget : forall b, get (astep s t (IAct (ASpawn sp)) rest) b =
                if Nat.eqb b c then Some (new_actor p g (Some (self_of t)) sp)
                else if Nat.eqb b (self_of t) then Some (pushed t y (front ++ rest)) else get s b).
      { intros b. unfold get. rewrite Ha. destruct (Nat.eqb_spec b c) as [->|Hbc].
        - rewrite nth_error_app2 by (rewrite upd_length; unfold c; lia). rewrite upd_length. unfold c. rewrite Nat.sub_diag. reflexivity.
        - destruct (Nat.lt_ge_cases b c) as [Hlt|Hge].
          + rewrite nth_error_app1 by (rewrite upd_length; exact Hlt). destruct (Nat.eqb_spec b (self_of t)) as [->|Hbs].
            * apply nth_upd_eq. exact Hl.
            * apply nth_upd_neq. congruence.
          + rewrite nth_error_app2 by (rewrite upd_length; exact Hge). rewrite upd_length.
            destruct (b - length (actors s)) as [|k] eqn:E; [unfold c in *; lia|]. cbn. destruct k; cbn.
            * destruct (Nat.eqb_spec b (self_of t)); [lia|]. symmetry. apply nth_error_None. unfold c in *. lia.
            * destruct (Nat.eqb_spec b (self_of t)); [lia|]. symmetry. apply nth_error_None. unfold c in *. lia. }
      assert (Hchy : a_children (pushed t y (front ++ rest)) = aset (a_children x) p c) by (rewrite Y3, Hyeq; cbn; rewrite X3; reflexivity).
      assert (Hold : forall b xb, get s b = Some xb -> exists xb', get (astep s t (IAct (ASpawn sp)) rest) b = Some xb' /\ a_parent xb' = a_parent xb /\ a_path xb' = a_path xb).
      { intros b xb Hb. rewrite Hget. assert (b < c) by (eapply nth_error_lt; exact Hb). destruct (Nat.eqb_spec b c); [lia|].
        destruct (Nat.eqb_spec b (self_of t)) as [->|Hbs]; [|eauto].
        eexists. split; [reflexivity|]. assert (xb = x) by congruence; subst. rewrite Y1, Y2, (lu_path _ _ _ Hy), (lu_parent _ _ _ Hy). auto. }
      split.
      * intros a xa q c0 Hga Hlk0. rewrite Hget in Hga. destruct (Nat.eqb_spec a c) as [->|Hac].
        -- inversion Hga; subst xa. destruct Hlk0.
        -- destruct (Nat.eqb_spec a (self_of t)) as [->|Has].
           ++ inversion Hga; subst xa. rewrite Hchy in Hlk0. apply In_aset in Hlk0. destruct Hlk0 as [Hin|Heq].
              ** destruct (K10 _ _ _ _ Hg Hin) as (xc & Hxc & P1 & P2).
                 destruct (Hold c0 xc Hxc) as (xc' & Hxc' & Q1 & Q2). exists xc'. split; [exact Hxc'|split; congruence].
              ** inversion Heq; subst q c0. eexists. split; [rewrite Hget, Nat.eqb_refl; reflexivity|]. cbn. auto.
           ++ destruct (K10 _ _ _ _ Hga Hlk0) as (xc & Hxc & P1 & P2).
              destruct (Hold c0 xc Hxc) as (xc' & Hxc' & Q1 & Q2). exists xc'. split; [exact Hxc'|split; congruence].
      * intros b xb Hgb Hne Hreg. unfold regd in Hreg. rewrite Hr, Hsr in Hreg. rewrite Hget in Hgb.
        destruct (Nat.eqb_spec b c) as [->|Hbc].
        -- inversion Hgb; subst xb. cbn [a_parent a_path new_actor]. exists (self_of t). eexists. split; [reflexivity|].
           split; [rewrite Hget; assert (self_of t < c) by exact Hl; destruct (Nat.eqb_spec (self_of t) c); [lia|]; rewrite Nat.eqb_refl; reflexivity|].
           rewrite Hchy. apply alookup_aset_same.
        -- assert (Hxo : exists xo, get s b = Some xo /\ a_path xb = a_path xo /\ a_parent xb = a_parent xo).
           { destruct (Nat.eqb_spec b (self_of t)) as [->|Hbs].
             - inversion Hgb; subst xb. exists x. rewrite Y1, Y2, (lu_path _ _ _ Hy), (lu_parent _ _ _ Hy). auto.
             - eauto. }
           destruct Hxo as (xo & Hxo & P1 & P2). rewrite P1 in Hreg. apply alookup_app_one in Hreg.
           destruct Hreg as [Hreg|[_ E]]; [|apply nth_error_lt in Hxo; unfold c in *; lia].
           destruct (K9 b xo Hxo Hne Hreg) as (q & xq & Hq & Hxq & Hlkq).
           exists q. rewrite P1, P2. destruct (Nat.eq_dec q (self_of t)) as [->|Hqs].
           ++ eexists. split; [exact Hq|]. split; [rewrite Hget; assert (self_of t < c) by exact Hl; destruct (Nat.eqb_spec (self_of t) c); [lia|]; rewrite Nat.eqb_refl; reflexivity|].
              rewrite Hchy. assert (xq = x) by congruence; subst xq. rewrite alookup_aset_other; [exact Hlkq|].
              apply path_eqb_neq. intros E. rewrite E in Hreg. unfold p in Hlk. rewrite X1 in Hlk. unfold p in Hreg. rewrite X1 in Hreg. congruence.
           ++ exists xq. split; [exact Hq|]. split; [|exact Hlkq]. rewrite Hget.
              assert (q < c) by (eapply nth_error_lt; exact Hxq). destruct (Nat.eqb_spec q c); [lia|]. destruct (Nat.eqb_spec q (self_of t)); [congruence|exact Hxq].
  - pose proof (Hnn Hns) as Hn0.
    destruct (instr_eq_cleanup i) as [-> |Hnc].
    + (* cleanup: registrations only disappear *)
      destruct t as [a|j]; [|specialize (Hext j eq_refl); discriminate Hext]. cbn [self_of] in *.
      subst news. rewrite app_nil_r in Ha.
      assert (Hch : a_children y = a_children x0) by (destruct (lu_children _ _ _ Hy) as [E|[[sp E]|[w E]]]; [exact E|discriminate E|discriminate E]).
      assert (Hrec : forall b xb', get (astep s (TA a) ICleanup rest) b = Some xb' ->
                exists xb, get s b = Some xb /\ a_path xb' = a_path xb /\ a_parent xb' = a_parent xb /\ a_children xb' = a_children xb).
      { intros b xb' Hgb. unfold get in Hgb. rewrite Ha in Hgb. destruct (Nat.eq_dec a b) as [<-|Hne].
        - rewrite nth_upd_eq in Hgb by exact Hl. inversion Hgb; subst xb'. exists x. split; [exact Hg|].
          cbn [pushed upd_pend a_path a_parent a_children]. rewrite (lu_path _ _ _ Hy), (lu_parent _ _ _ Hy), Hch. auto.
        - rewrite nth_upd_neq in Hgb by exact Hne. eauto. }
      assert (Hfw : forall b xb, get s b = Some xb -> exists xb', get (astep s (TA a) ICleanup rest) b = Some xb' /\
                a_path xb' = a_path xb /\ a_parent xb' = a_parent xb /\ a_children xb' = a_children xb).
      { intros b xb Hb. assert (Hlt : b < length (actors (astep s (TA a) ICleanup rest))) by (rewrite Ha, upd_length; eapply nth_error_lt; exact Hb).
        destruct (get (astep s (TA a) ICleanup rest) b) as [xb'|] eqn:E; [|apply nth_error_None in E; lia].
        destruct (Hrec b xb' E) as (xo & Hxo & P). assert (xo = xb) by congruence; subst. eauto. }
      split.
      * intros b xb' q c0 Hgb Hlk0. destruct (Hrec b xb' Hgb) as (xb & Hxb & _ & _ & C). rewrite C in Hlk0.
        destruct (K10 _ _ _ _ Hxb Hlk0) as (xc & Hxc & P1 & P2). destruct (Hfw c0 xc Hxc) as (xc' & Hxc' & Q1 & Q2 & _).
        exists xc'. split; [exact Hxc'|split; congruence].
      * intros b xb' Hgb Hne Hreg. destruct (Hrec b xb' Hgb) as (xb & Hxb & P1 & P2 & _).
        unfold regd in Hreg. rewrite Hr, Hreg1, Hr0, P1 in Hreg. apply alookup_aremove in Hreg.
        destruct (K9 b xb Hxb Hne Hreg) as (q & xq & Hq & Hxq & Hlkq). destruct (Hfw q xq Hxq) as (xq' & Hxq' & _ & _ & C).
        exists q, xq'. split; [congruence|split; [exact Hxq'|rewrite C, P1; exact Hlkq]].
    + assert (Hrg : reg (fst (exec1 s0 t (held_of s0 t) i)) = reg s0).
      { rewrite Hreg1. destruct i; try reflexivity; [destruct a; try reflexivity; exfalso; eapply Hns; reflexivity|congruence]. }
      destruct (instr_is_onkilled i) as [[who ->]|Hnk].
      * (* a child's termination notice *)
        destruct t as [a|j]; [|specialize (Hext j eq_refl); discriminate Hext]. cbn [self_of] in *.
        destruct (pend_of_TA_cons _ _ _ _ Hp) as (x1 & Hg1 & Hpx). assert (x1 = x) by congruence; subst x1.
        destruct (a_zombie x) eqn:Hz.
        { apply Hplainstep; [exact Hn0|exact Hrg|]. pose proof (astep_onkilled_zombie s a x rest Hg who Hz) as E.
          apply (f_equal (fun st => option_map a_children (get st a))) in E. unfold get in E at 1. rewrite Ha in E. subst news. rewrite app_nil_r in E.
          rewrite nth_upd_eq in E by exact Hl. rewrite (get_set_same' _ _ _ _ Hg) in E. cbn in E. inversion E as [E']. rewrite X3. exact E'. }
        destruct (ref_eq (set_actor s a (upd_pend x rest)) who (RObj a)) eqn:Hre.
        { apply Hplainstep; [exact Hn0|exact Hrg|]. pose proof (astep_onkilled_self s a x rest Hg who Hz Hre) as E.
          apply (f_equal (fun st => option_map a_children (get st a))) in E. unfold get in E at 1. rewrite Ha in E. subst news. rewrite app_nil_r in E.
          rewrite nth_upd_eq in E by exact Hl. rewrite (get_set_same' _ _ _ _ Hg) in E. cbn in E. inversion E as [E']. rewrite X3. exact E'. }
        rewrite (astep_onkilled_other s a x rest Hg who Hz Hre).
        set (xn := upd_pend (set_children x (drop_child s a x rest who)) ([IBeh (MKilled who) (sp_killed (a_spec x)) (RecKilled who); ICheckMark] ++ rest)).
        assert (Hget : forall b, get (set_actor s a xn) b = if Nat.eqb a b then Some xn else get s b).
        { intros b. destruct (Nat.eqb_spec a b) as [<-|Hne]; [apply (get_set_same s a xn Hl)|apply (get_set_other s a b xn Hne)]. }
        assert (Hsub : forall q c0, In (q, c0) (drop_child s a x rest who) -> In (q, c0) (a_children x)).
        { intros q c0. unfold drop_child. destruct who as [c| |]; auto. destruct (ref_path _ _); auto.
          destruct (alookup (a_children x) l) as [c'|]; auto. destruct (Nat.eqb c c'); auto. apply In_aremove. }
        split.
        -- intros b xb q c0 Hgb Hlk0. rewrite Hget in Hgb. destruct (Nat.eqb_spec a b) as [<-|Hne].
           ++ inversion Hgb; subst xb. cbn [xn upd_pend set_children upd_local a_children] in Hlk0. apply Hsub in Hlk0.
              destruct (K10 _ _ _ _ Hg Hlk0) as (xc & Hxc & P1 & P2). rewrite Hget. destruct (Nat.eqb_spec a c0) as [<-|Hne].
              ** exists xn. assert (xc = x) by congruence; subst. cbn. auto.
              ** eauto.
           ++ destruct (K10 _ _ _ _ Hgb Hlk0) as (xc & Hxc & P1 & P2). rewrite Hget. destruct (Nat.eqb_spec a c0) as [<-|Hne0].
              ** exists xn. assert (xc = x) by congruence; subst. cbn. auto.
              ** eauto.
        -- intros b xb Hgb Hne Hreg. unfold regd in Hreg. cbn [set_actor reg] in Hreg. rewrite Hget in Hgb.
           assert (Hxo : exists xo, get s b = Some xo /\ a_path xb = a_path xo /\ a_parent xb = a_parent xo).
           { destruct (Nat.eqb_spec a b) as [<-|Hab]; [inversion Hgb; subst xb; exists x; auto|eauto]. }
           destruct Hxo as (xo & Hxo & P1 & P2). rewrite P1 in Hreg.
           destruct (K9 b xo Hxo Hne Hreg) as (q & xq & Hq & Hxq & Hlkq). exists q. rewrite P1, P2.
           destruct (Nat.eq_dec q a) as [->|Hqa].
           ++ exists xn. split; [exact Hq|]. split; [rewrite Hget, Nat.eqb_refl; reflexivity|]. assert (xq = x) by congruence; subst xq.
              cbn [xn upd_pend set_children upd_local a_children]. unfold drop_child.
              destruct who as [c| |]; try exact Hlkq. destruct (ref_path (set_actor s a (upd_pend x rest)) (RObj c)) as [pc|] eqn:Erp; [|exact Hlkq].
              destruct (alookup (a_children x) pc) as [c'|] eqn:Ec'; [|exact Hlkq]. destruct (Nat.eqb_spec c c') as [<-|Hcc]; [|exact Hlkq].
              destruct (path_eqb (a_path xo) pc) eqn:Epb; [|rewrite alookup_aremove_other by exact Epb; exact Hlkq].
              exfalso. apply path_eqb_eq in Epb. rewrite Epb in Hlkq. assert (c = b) by congruence; subst c.
              (* the notice names b: b has released its path *)
              destruct HM as [M1 _]. destruct (M1 _ _ Hg) as [_ Hpend]. rewrite Hpx in Hpend. inversion Hpend as [|? ? Hik _]. cbn [instr_ok] in Hik.
              unfold msg_ok in Hik. cbn [mk_of] in Hik. destruct Hik as [E|(xb0 & Hxb0 & Hnr)].
              ** inversion E; subst b. unfold ref_eq in Hre. rewrite Erp in Hre. rewrite path_eqb_refl in Hre. discriminate Hre.
              ** apply Hnr. assert (xb0 = xo) by congruence; subst. exact Hreg.
           ++ exists xq. split; [exact Hq|]. split; [|exact Hlkq]. rewrite Hget. destruct (Nat.eqb_spec a q); [congruence|exact Hxq].
      * (* everything else keeps the children maps *)
        apply Hplainstep; [exact Hn0|exact Hrg|].
        destruct (lu_children _ _ _ Hy) as [E|[[sp E]|[w E]]]; [exact E|exfalso; eapply Hns; exact E|exfalso; eapply Hnk; exact E].
Qed.

Theorem KInv_mstep s m : wf s -> LI s -> RInv s -> MK s -> KInv s -> KInv (mstep s m).
Proof.
  intros W HLI HR HM HK.
  destruct (mstep_cases s m) as [Hq|[(t & i & rest & pre & s1 & Hp & Hpl & Hf & Hu & Hq & _ & E)|[(a & x & e & -> & Hg & Hc)|(t & i & rest & -> & Hp & Hy & Hq & E)]]].
  - apply (KInv_quiet s); assumption.
  - rewrite E. apply KInv_set_pend. apply (KInv_quiet s); assumption.
  - apply (KInv_handle s a x e); assumption.
  - rewrite E. apply KInv_astep; assumption.
Qed.

Lemma KInv_init scs : KInv (init_with scs).
Proof.
  unfold init_with.
  assert (Ha : forall scs s i, actors (set_exts s i scs) = actors s).
  { clear. induction scs as [|sc r IH]; intros s i; cbn [set_exts]; [reflexivity|]. rewrite IH. apply set_pend_TX_actors. }
  split.
  - intros a x p c Hg Hlk. unfold get in Hg. rewrite Ha in Hg. destruct a as [|[|a]]; cbn in Hg; try discriminate. inversion Hg; subst. destruct Hlk.
  - intros a x Hg Hne. unfold get in Hg. rewrite Ha in Hg. destruct a as [|[|a]]; cbn in Hg; congruence.
Qed.

Definition Base4 (s : state) : Prop := wf s /\ LI s /\ RInv s /\ MK s.
Lemma Base4_init scs : Base4 (init_with scs).
Proof. split; [apply wf_init|split; [apply LI_init|split; [apply RInv_init|apply MK_init]]]. Qed.
Lemma Base4_mstep s m : Base4 s -> Base4 (mstep s m).
Proof.
  intros (W & I & R & M). split; [apply wf_mstep; exact W|split; [apply LI_mstep; assumption|split; [apply RInv_mstep; assumption|apply MK_mstep; assumption]]].
Qed.

Theorem KInv_reachable s : reachable s -> KInv s.
Proof.
  revert s. apply (micro_invariant_with Base4 KInv); [apply Base4_init|apply Base4_mstep|apply KInv_init|].
  intros s m (W & I & R & M) HK. apply KInv_mstep; assumption.
Qed.

(** ** consequences used by the supervision proofs *)
(** the parent of a registered context has a non-empty children map, hence is not Killed, hence is registered itself *)
Lemma parent_alive s a x :
  LI s -> RInv s -> KInv s -> get s a = Some x -> a <> 0 -> regd s a x ->
  exists q xq, a_parent x = Some q /\ q < a /\ get s q = Some xq /\ alookup (a_children xq) (a_path x) = Some a /\
               a_state xq <> Killed /\ a_zombie xq = false /\ (q <> 0 -> regd s q xq).
Proof.
  intros HLI (Ra & Rb & Rc & R1 & R8) [K10 K9] Hg Hne Hreg.
  destruct (K9 a x Hg Hne Hreg) as (q & xq & Hq & Hxq & Hlk).
  destruct (Rb a x Hg Hne) as [(q' & Hq' & Hlt) _]. assert (q' = q) by congruence; subst q'.
  pose proof (HLI _ _ Hxq) as (L1 & L2 & _).
  assert (Hnk : a_state xq <> Killed) by (intros Hk; rewrite (L2 Hk) in Hlk; discriminate Hlk).
  assert (Hz : a_zombie xq = false) by (destruct (a_zombie xq); [exfalso; apply Hnk; apply L1; reflexivity|reflexivity]).
  exists q, xq. repeat split; auto. intros Hq0. apply (R1 q xq Hxq Hq0). left. exact Hnk.
Qed.

(** ** the statements exported to Properties/C09.v *)
Theorem running_is_registered s a x :
  reachable s -> get s a = Some x -> a <> 0 -> a_state x <> Killed -> alookup (reg s) (a_path x) = Some a.
Proof. intros Hr Hg Hne Hs. destruct (RInv_reachable s Hr) as (_ & _ & _ & R1 & _). apply (R1 a x Hg Hne). left. exact Hs. Qed.

Theorem zombie_registered_until_released s a x :
  reachable s -> get s a = Some x -> a <> 0 -> a_zombie x = true -> ~ In IUnzombie (a_pend x) -> alookup (reg s) (a_path x) = Some a.
Proof.
  intros Hr Hg Hne Hz Hnu. destruct (RInv_reachable s Hr) as (_ & _ & _ & R1 & _). apply (R1 a x Hg Hne). right; right; right. split; [exact Hz|].
  unfold uzc. destruct (filter is_unzombie (a_pend x)) as [|i l] eqn:E; [reflexivity|]. exfalso. apply Hnu.
  assert (Hin : In i (filter is_unzombie (a_pend x))) by (rewrite E; left; reflexivity). apply filter_In in Hin. destruct Hin as [Hin Hi]. destruct i; try discriminate Hi. exact Hin.
Qed.

Theorem zombie_is_terminated s a x :
  reachable s -> get s a = Some x -> a_zombie x = true -> a_state x = Killed /\ a_children x = [].
Proof. intros Hr Hg Hz. destruct (linv_reachable s a x Hr Hg) as (L1 & L2 & _). split; [auto|auto]. Qed.

Theorem killed_has_no_children s a x : reachable s -> get s a = Some x -> a_state x = Killed -> a_children x = [].
Proof. intros Hr Hg Hk. destruct (linv_reachable s a x Hr Hg) as (_ & L2 & _). auto. Qed.

Theorem registered_child_has_live_parent s a x :
  reachable s -> get s a = Some x -> a <> 0 -> alookup (reg s) (a_path x) = Some a ->
  exists q xq, a_parent x = Some q /\ q < a /\ get s q = Some xq /\ alookup (a_children xq) (a_path x) = Some a /\
               a_state xq <> Killed /\ a_zombie xq = false /\ (q <> 0 -> alookup (reg s) (a_path xq) = Some q).
Proof.
  intros Hr Hg Hne Hreg.
  apply (parent_alive s a x (fun b y => linv_reachable s b y Hr) (RInv_reachable s Hr) (KInv_reachable s Hr) Hg Hne Hreg).
Qed.

Theorem children_entries_are_children s a x p c :
  reachable s -> get s a = Some x -> alookup (a_children x) p = Some c ->
  exists xc, get s c = Some xc /\ a_parent xc = Some a /\ a_path xc = p.
Proof.
  intros Hr Hg Hlk. destruct (alookup_In _ _ _ Hlk) as (q & Hin & Hq). apply path_eqb_eq in Hq. subst q.
  apply (proj1 (KInv_reachable s Hr) a x p c Hg Hin).
Qed.

(** a termination notice in an actor's mailbox, from another context, names a context that has released its path *)
Theorem notice_means_released s a x e c :
  reachable s -> get s a = Some x -> In e (a_sq x ++ a_uq x ++ held x) -> e_msg e = MKilled (RObj c) -> c <> a ->
  exists xc, get s c = Some xc /\ alookup (reg s) (a_path xc) <> Some c.
Proof.
  intros Hr Hg Hin Hm Hne. destruct (MK_reachable s Hr) as [M1 _]. destruct (M1 a x Hg) as [He _].
  rewrite Forall_forall in He. specialize (He e). unfold envs in He. rewrite !app_assoc in He.
  assert (Hin' : In e ((((a_sq x ++ a_uq x) ++ held x) ++ a_stash x) ++ match a_cur x with Some e0 => [e0] | None => [] end)).
  { apply in_or_app. left. apply in_or_app. left. rewrite <- app_assoc. exact Hin. }
  specialize (He Hin'). unfold env_ok, msg_ok in He. rewrite Hm in He. cbn [mk_of] in He.
  destruct He as [E|(xc & Hxc & Hn)]; [inversion E; congruence|]. exists xc. split; [exact Hxc|exact Hn].
Qed.
