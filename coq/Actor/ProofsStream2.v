(** C19, history level, part 1: an event published while [x] is not in the table of its type is never addressed to
    [x].  Potential argument per publishing thread: the number of deliveries of type [ty] addressed to [x] that
    thread [t] performs along a run in which [x] has no entry under [ty] at any event boundary is bounded by the
    number of times [x] is named by the ranges pending in [t]'s instruction list at the start ([inflight]).
    Definitions: Actor/SpecStream.v. *)
From Coq Require Import List NArith ZArith Bool Permutation Lia Arith.
From Vivid Require Import Actor.Core Actor.CoreRun Actor.SpecSup Actor.ProofsSup Actor.ProofsStream.
From Vivid Require Import Actor.SpecMail Actor.ProofsMailBase Actor.ProofsMail Actor.ProofsMailInv Actor.ProofsMailWf
  Actor.ProofsMailAcct Actor.ProofsMailMicro Actor.ProofsMailMicro2 Actor.ProofsMailLife Actor.ProofsMailCover2.
From Vivid Require Import Actor.SpecStream.
Import ListNotations.

(* ------------------------------------------------------------------ small facts *)

Lemma tid_eqb_eq t1 t2 : tid_eqb t1 t2 = true <-> t1 = t2.
Proof.
  destruct t1 as [a|i], t2 as [b|j]; cbn [tid_eqb]; try (split; [discriminate|intros H; discriminate H]).
  - rewrite Nat.eqb_eq. split; [intros ->; reflexivity|intros H; inversion H; reflexivity].
  - rewrite Nat.eqb_eq. split; [intros ->; reflexivity|intros H; inversion H; reflexivity].
Qed.
Lemma tid_eqb_refl t : tid_eqb t t = true. Proof. apply tid_eqb_eq. reflexivity. Qed.
Lemma tid_eqb_neq t1 t2 : t1 <> t2 -> tid_eqb t1 t2 = false.
Proof. intros N. destruct (tid_eqb t1 t2) eqn:E; [apply tid_eqb_eq in E; contradiction|reflexivity]. Qed.

(** generic form of [occ_instr] / [occ_list]: the targets satisfying [f] in the pending event ranges of the types
    satisfying [tyf] *)
Definition gocc_instr (tyf : N -> bool) (f : rref -> bool) (i : instr) : nat :=
  match i with
  | IEnqAny _ tos _ (MEvent ty' _) => if tyf ty' then length (filter f tos) else 0
  | _ => 0
  end.
Fixpoint gocc (tyf : N -> bool) (f : rref -> bool) (l : list instr) : nat :=
  match l with [] => 0 | i :: r => gocc_instr tyf f i + gocc tyf f r end.

Lemma occ_list_gocc ty x l : occ_list ty x l = gocc (fun ty' => N.eqb ty' ty) (is_obj x) l.
Proof. induction l as [|i l IH]; cbn [occ_list gocc]; [reflexivity|]. rewrite IH. reflexivity. Qed.

Lemma gocc_app tyf f l1 l2 : gocc tyf f (l1 ++ l2) = gocc tyf f l1 + gocc tyf f l2.
Proof. induction l1 as [|i l1 IH]; cbn [app gocc]; [reflexivity|]. rewrite IH. lia. Qed.

(** instructions that are not a fan-out of an event *)
Definition no_ev (i : instr) : bool := match i with IEnqAny _ _ _ (MEvent _ _) => false | _ => true end.
Lemma no_ev_occ tyf f i : no_ev i = true -> gocc_instr tyf f i = 0.
Proof. destruct i; try reflexivity. destruct m; try reflexivity. discriminate. Qed.
Lemma no_ev_list tyf f l : forallb no_ev l = true -> gocc tyf f l = 0.
Proof.
  induction l as [|i l IH]; cbn [forallb gocc]; [reflexivity|]. intros H. apply andb_true_iff in H. destruct H as [H1 H2].
  rewrite (no_ev_occ _ _ _ H1), (IH H2). reflexivity.
Qed.
Lemma no_ev_app l1 l2 : forallb no_ev (l1 ++ l2) = forallb no_ev l1 && forallb no_ev l2.
Proof. apply forallb_app. Qed.
Lemma no_ev_map_IAct l : forallb no_ev (map IAct l) = true.
Proof. induction l; cbn; auto. Qed.
Lemma no_ev_flat_map {A} (f : A -> list instr) l : (forall a, forallb no_ev (f a) = true) -> forallb no_ev (flat_map f l) = true.
Proof. intros H. induction l; cbn [flat_map]; [reflexivity|]. rewrite no_ev_app, H, IHl. reflexivity. Qed.

Definition is_pub (i : instr) : bool := match i with IPub _ _ => true | _ => false end.

(** only Publish creates a fan-out of an event *)
Lemma exec1_front_no_ev s t h i : is_pub i = false -> forallb no_ev (snd (exec1 s t h i)) = true.
Proof.
  intros Hi. unfold exec1. destruct (get s (self_of t)) as [x|]; [|reflexivity].
  destruct i; try discriminate Hi; cbn [snd]; try reflexivity.
  - destruct remaining; reflexivity.
  - destruct a; cbn [snd]; try reflexivity.
    + destruct (a_state x); cbn [snd]; try reflexivity;
        (destruct (negb (sp_prelaunch sp)); [reflexivity|]);
        (destruct (alookup (reg s) (a_path x ++ [sp_name sp])); reflexivity).
    + destruct (a_cur x); reflexivity.
    + destruct n as [n|].
      * destruct (Nat.eqb (length (a_stash x)) 0); [reflexivity|]. cbn [snd]. apply no_ev_flat_map. reflexivity.
      * destruct (a_stash x); reflexivity.
    + destruct (alookup (subscribers s ty) (a_path x)); reflexivity.
    + destruct (nlookup (subs s) ty); reflexivity.
  - destruct (a_zombie x); [reflexivity|]. destruct (a_parent x).
    + destruct (take_until_panic acts) as [pre pan]. cbn [snd]. rewrite no_ev_app, no_ev_map_IAct.
      destruct pan; [|reflexivity]. destruct r; try reflexivity. destruct (a_state x); try reflexivity.
      destruct (ref_eq s who (RObj (self_of t))); reflexivity.
    + destruct m; try reflexivity. destruct (ref_eq s who (RObj (self_of t))); reflexivity.
  - destruct (a_children x); reflexivity.
  - destruct (a_zombie x); [reflexivity|]. destruct (ref_eq s who (RObj (self_of t))); reflexivity.
  - destruct (a_children x); [|reflexivity]. destruct (a_state x); try reflexivity. destruct (a_restarting x); reflexivity.
  - destruct (a_watchers x), (a_parent x); reflexivity.
  - destruct (a_hooks x) as [|[[h1 h2] h3] hs]; [reflexivity|]. destruct (h2 && h3); reflexivity.
  - destruct d; cbn [snd is_graceful]; rewrite ?no_ev_app;
      repeat match goal with
             | |- context[forallb no_ev (flat_map ?f ?l)] => rewrite (no_ev_flat_map f l) by reflexivity
             end; reflexivity.
Qed.

Lemma dispatch_no_ev s a x e : forallb no_ev (snd (dispatch s a x e)) = true.
Proof.
  unfold dispatch.
  repeat match goal with |- context[match ?e with _ => _ end] => destruct e end; reflexivity.
Qed.

Lemma filter_remove_nth {A} (f : A -> bool) (l : list A) k x :
  nth_error l k = Some x -> length (filter f l) = b2n (f x) + length (filter f (remove_nth k l)).
Proof.
  revert k. induction l as [|y l IH]; intros [|k] H; cbn in H; try discriminate.
  - inversion H; subst. unfold remove_nth. cbn [firstn skipn app filter]. destruct (f x); reflexivity.
  - unfold remove_nth in *. change (skipn (S (S k)) (y :: l)) with (skipn (S k) l). cbn [firstn app filter].
    specialize (IH k H). unfold b2n in *. destruct (f x), (f y); cbn [length] in *; lia.
Qed.

Lemma filter_is_obj_nil x (l : list (path * aid)) :
  ~ In x (map snd l) -> filter (is_obj x) (map (fun p => RObj (snd p)) l) = [].
Proof.
  induction l as [|[p a] l IH]; cbn [map filter is_obj snd]; [reflexivity|]. intros H.
  destruct (Nat.eqb_spec a x) as [->|N]; [exfalso; apply H; left; reflexivity|]. apply IH. intros Hin. apply H. right. exact Hin.
Qed.

(* ------------------------------------------------------------------ the atomic loop *)

Lemma mrun_atomic_yield n : forall s t i rest, pend_of s t = i :: rest -> yielding i = true -> mrun (repeat (MAtomic t) n) s = s.
Proof.
  induction n as [|n IH]; intros s t i rest Hp Hy; [reflexivity|].
  cbn [repeat mrun fold_left]. assert (E : mstep s (MAtomic t) = s).
  { cbn [mstep]. rewrite Hp. destruct i; try discriminate Hy; try reflexivity. destruct remaining; [discriminate Hy|reflexivity]. }
  rewrite E. apply (IH s t i rest Hp Hy).
Qed.

Lemma err_astep_none s t i rest : get s (self_of t) = None -> err (astep s t i rest) = true.
Proof.
  intros Hg. unfold astep.
  assert (Hg0 : get (set_pend s t rest) (self_of t) = None).
  { destruct t as [a|j]; cbn [self_of] in *.
    - rewrite (set_pend_TA_none _ _ _ Hg). exact Hg.
    - unfold get in *. rewrite set_pend_TX_actors. exact Hg. }
  rewrite (exec1_none _ _ _ _ Hg0). apply set_pend_err_mono. reflexivity.
Qed.

Lemma astep_IPub s t ty pl rest x :
  get s (self_of t) = Some x ->
  astep s t (IPub ty pl) rest =
  set_pend (set_pend s t rest) t
    ((match subscribers s ty with
      | [] => []
      | _ :: _ => [IEnqAny false (map (fun p => RObj (snd p)) (subscribers s ty)) root_ref (MEvent ty pl)]
      end) ++ pend_of (set_pend s t rest) t).
Proof.
  intros Hg. unfold astep.
  assert (Hg0 : exists x0, get (set_pend s t rest) (self_of t) = Some x0).
  { destruct t as [a|j]; cbn [self_of] in *.
    - rewrite (set_pend_TA _ _ _ _ Hg). eexists. apply (get_set_same' _ _ _ _ Hg).
    - exists x. unfold get in *. rewrite set_pend_TX_actors. exact Hg. }
  destruct Hg0 as (x0 & Hg0). rewrite (exec1_IPub _ _ _ _ _ _ Hg0).
  replace (subscribers (set_pend s t rest) ty) with (subscribers s ty) by (unfold subscribers; rewrite set_pend_subs; reflexivity).
  reflexivity.
Qed.

Section Bound.
  Variables (tyf : N -> bool) (f : rref -> bool) (G : state -> Prop).
  (** in a state satisfying [G] no snapshot of a counted type contains a counted target *)
  Hypothesis HG : forall s ty', G s -> tyf ty' = true -> filter f (map (fun p => RObj (snd p)) (subscribers s ty')) = [].

  Definition pot (t : tid) (s : state) : nat := gocc tyf f (pend_of s t).

  (** the atomic loop of thread [t]: when it stops in a state satisfying [G], it has not added a counted target *)
  Lemma atomic_pot t n : forall s,
    err (mrun (repeat (MAtomic t) n) s) = false -> G (mrun (repeat (MAtomic t) n) s) ->
    pot t (mrun (repeat (MAtomic t) n) s) <= pot t s.
  Proof.
    induction n as [|n IH]; intros s He Hs; [cbn; lia|].
    cbn [repeat] in *. change (mrun (MAtomic t :: repeat (MAtomic t) n) s) with (mrun (repeat (MAtomic t) n) (mstep s (MAtomic t))) in *.
    assert (He1 : err (mstep s (MAtomic t)) = false).
    { destruct (err (mstep s (MAtomic t))) eqn:E; [rewrite (err_mono_mrun _ _ E) in He; discriminate|reflexivity]. }
    specialize (IH _ He Hs). unfold pot in *.
    destruct (pend_of s t) as [|i rest] eqn:Hp.
    { assert (E : mstep s (MAtomic t) = s) by (cbn [mstep]; rewrite Hp; reflexivity). rewrite E, Hp in *. exact IH. }
    destruct (is_enq i) eqn:Hq.
    { destruct i; try discriminate Hq.
      assert (E : mstep s (MAtomic t) = set_pend (snd (resolve s to)) t (IEnqR sys (fst (resolve s to)) sender m :: rest))
        by (cbn [mstep]; rewrite Hp; reflexivity).
      rewrite E in *. rewrite (pend_of_set_pend_ok _ _ _ He1) in IH. exact IH. }
    destruct (yielding i) eqn:Hy.
    { assert (E : mstep s (MAtomic t) = s).
      { cbn [mstep]. rewrite Hp. destruct i; try discriminate Hy; try reflexivity. destruct remaining; [discriminate Hy|reflexivity]. }
      rewrite E, Hp in *. exact IH. }
    rewrite (mstep_atomic_exec _ _ _ _ Hp Hy Hq) in *.
    destruct (get s (self_of t)) as [xs|] eqn:Hg; [|rewrite (err_astep_none _ _ _ _ Hg) in He1; discriminate].
    pose proof (astep_front s t i rest xs Hg Hp He1) as Hfr.
    assert (Hi0 : gocc_instr tyf f i = 0) by (destruct i; try reflexivity; discriminate Hy).
    cbn [gocc]. rewrite Hi0. cbn [plus].
    destruct (is_pub i) eqn:Hpub.
    - destruct i; try discriminate Hpub. rename ty into ty'.
      rewrite (astep_IPub s t ty' payload rest xs Hg) in *.
      assert (Hp0 : pend_of (set_pend s t rest) t = rest).
      { apply pend_of_set_pend_ok. destruct (err (set_pend s t rest)) eqn:E; [|reflexivity].
        rewrite (set_pend_err_mono _ _ _ E) in He1. discriminate. }
      rewrite Hp0 in *. pose proof (pend_of_set_pend_ok _ _ _ He1) as Hp1.
      destruct (subscribers s ty') as [|p0 l0] eqn:Hsub; cbn [app] in *.
      + rewrite Hp1 in IH. exact IH.
      + rewrite (mrun_atomic_yield n _ t _ _ Hp1 eq_refl) in *. rewrite Hp1. cbn [gocc gocc_instr].
        destruct (tyf ty') eqn:Hty; [|lia].
        pose proof (HG _ ty' Hs Hty) as Hno. unfold subscribers in Hno. rewrite !set_pend_subs in Hno. fold (subscribers s ty') in Hno.
        rewrite Hsub in Hno. rewrite Hno. cbn [length]. lia.
    - rewrite Hfr, gocc_app in IH. rewrite (no_ev_list tyf f _ (exec1_front_no_ev _ _ _ _ Hpub)) in IH. exact IH.
  Qed.

  Lemma run_atomic_pot t fu s :
    err (run_atomic fu s t) = false -> G (run_atomic fu s t) -> pot t (run_atomic fu s t) <= pot t s.
  Proof. intros He Hs. destruct (run_atomic_micro t fu s He) as [n Hn]. rewrite Hn in *. apply atomic_pot; assumption. Qed.

  (** ... started on the list [l] *)
  Lemma run_atomic_pot_after t fu s0 l :
    err (run_atomic fu (set_pend s0 t l) t) = false -> G (run_atomic fu (set_pend s0 t l) t) ->
    pot t (run_atomic fu (set_pend s0 t l) t) <= gocc tyf f l.
  Proof.
    intros He Hs. pose proof (run_atomic_pot _ _ _ He Hs) as H. unfold pot at 2 in H.
    rewrite pend_of_set_pend_ok in H; [exact H|].
    destruct (err (set_pend s0 t l)) eqn:E; [|reflexivity]. rewrite (err_mono_run_atomic _ _ _ E) in He. discriminate.
  Qed.

  (** counted deliveries: queue insertions of thread [t] out of an event range of a counted type to a counted target *)
  Definition gdelivers (t : tid) (s : state) (ev : event) : bool :=
    match stream_push s ev with
    | Some (t', ty', _, to) => tid_eqb t' t && tyf ty' && f to
    | None => false
    end.

  Lemma step_pot t s ev :
    err (step s ev) = false -> G (step s ev) -> b2n (gdelivers t s ev) + pot t (step s ev) <= pot t s.
  Proof.
    intros He Hs.
    destruct (ProofsSup.tid_eq_dec (ev_thread ev) t) as [Et|Nt].
    2:{ unfold pot. rewrite (step_pend_frame _ _ _ Nt).
        assert (E : gdelivers t s ev = false).
        { unfold gdelivers, stream_push. destruct ev; try reflexivity. cbn [ev_thread] in Nt.
          destruct (pend_of s t0) as [|i r]; [reflexivity|]. destruct i; try reflexivity. destruct m; try reflexivity.
          destruct (nth_error tos choice); [|reflexivity]. rewrite (tid_eqb_neq _ _ Nt). reflexivity. }
        rewrite E. cbn. lia. }
    destruct ev as [a|a|a|a|t' k|t'|t'|t'|t'|i]; cbn [ev_thread] in Et; subst t.
    - destruct (consumer_pend_frame s a (TA a)) as (E & _ & _). unfold pot. rewrite E. cbn. lia.
    - destruct (consumer_pend_frame s a (TA a)) as (_ & E & _). unfold pot. rewrite E. cbn. lia.
    - destruct (consumer_pend_frame s a (TA a)) as (_ & _ & E). unfold pot. rewrite E. cbn. lia.
    - (* EvHandle: the handler starts with what dispatch installs, which contains no event range *)
      change (gdelivers (TA a) s (EvHandle a)) with false. cbn [b2n plus].
      cbn [step] in *. destruct (get s a) as [xa|]; [|discriminate He]. destruct (a_cons xa); try discriminate He.
      match goal with |- context[dispatch ?s1 a ?x0 e] => pose proof (dispatch_no_ev s1 a x0 e) as Hd; destruct (dispatch s1 a x0 e) as [s2 ins] end.
      cbn [snd] in Hd. pose proof (run_atomic_pot_after _ _ _ _ He Hs) as H. rewrite (no_ev_list _ _ _ Hd) in H. lia.
    - (* EvPush *)
      unfold pot, gdelivers, stream_push.
      destruct (pend_of s t') as [|i rest] eqn:Hp; [cbn [step] in He; rewrite Hp in He; discriminate He|].
      destruct i; try (cbn [step] in He; rewrite Hp in He; discriminate He).
      + destruct (step_IEnqR s t' k sys to sender m rest Hp He) as (_ & E). rewrite E. cbn. lia.
      + assert (E : pend_of (step s (EvPush t' k)) t' = rest).
        { cbn [step] in *. rewrite Hp in *. apply pend_of_set_pend_ok. exact He. }
        rewrite E. cbn. lia.
      + destruct (step_IEnqAny s t' k sys tos sender m rest Hp He) as (to & Hk & _ & E). rewrite E, Hk.
        assert (Hrem : gocc tyf f (IEnqDone :: match remove_nth k tos with [] => rest | _ :: _ => IEnqAny sys (remove_nth k tos) sender m :: rest end)
                       = gocc_instr tyf f (IEnqAny sys (remove_nth k tos) sender m) + gocc tyf f rest).
        { cbn [gocc]. destruct (remove_nth k tos) eqn:Er; [|reflexivity]. cbn [gocc_instr].
          destruct m; try reflexivity. destruct (tyf ty); reflexivity. }
        rewrite Hrem. cbn [gocc]. destruct m; try (cbn; lia). cbn [gocc_instr]. rewrite tid_eqb_refl. cbn [andb].
        destruct (tyf ty); [|cbn; lia]. cbn [andb]. rewrite (filter_remove_nth f tos k to Hk). lia.
      + destruct (step_ISupPause s t' k c d remaining done rest Hp He) as (to & Hk & _ & E). rewrite E. cbn. lia.
    - change (gdelivers t' s (EvEnqDone t')) with false. cbn [b2n plus]. cbn [step] in *.
      destruct (pend_of s t') as [|i rest] eqn:Hp; [discriminate He|]. destruct i; try discriminate He.
      pose proof (run_atomic_pot_after _ _ _ _ He Hs) as H. unfold pot at 2. rewrite Hp. cbn [gocc gocc_instr]. lia.
    - change (gdelivers t' s (EvPauseSt t')) with false. cbn [b2n plus]. cbn [step] in *.
      destruct (pend_of s t') as [|i rest] eqn:Hp; [discriminate He|]. destruct i; try discriminate He.
      pose proof (run_atomic_pot_after _ _ _ _ He Hs) as H. unfold pot at 2. rewrite Hp. cbn [gocc gocc_instr]. lia.
    - change (gdelivers t' s (EvResume1 t')) with false. cbn [b2n plus]. cbn [step] in *.
      destruct (pend_of s t') as [|i rest] eqn:Hp; [discriminate He|]. destruct i; try discriminate He.
      destruct (get s (self_of t')) as [xs|]; [|discriminate He]. destruct (a_paused xs).
      + unfold pot. rewrite (pend_of_set_pend_ok _ _ _ He), Hp. cbn. lia.
      + pose proof (run_atomic_pot_after _ _ _ _ He Hs) as H. unfold pot at 2. rewrite Hp. cbn [gocc gocc_instr]. lia.
    - change (gdelivers t' s (EvResume2 t')) with false. cbn [b2n plus]. cbn [step] in *.
      destruct (pend_of s t') as [|i rest] eqn:Hp; [discriminate He|]. destruct i; try discriminate He.
      pose proof (run_atomic_pot_after _ _ _ _ He Hs) as H. unfold pot at 2. rewrite Hp. cbn [gocc gocc_instr]. lia.
    - change (gdelivers (TX i) s (EvStart i)) with false. cbn [b2n plus]. cbn [step] in *. apply run_atomic_pot; assumption.
  Qed.

  Fixpoint gdeliveries (t : tid) (evs : list event) (s : state) : nat :=
    match evs with [] => 0 | ev :: r => b2n (gdelivers t s ev) + gdeliveries t r (step s ev) end.
  (** [G] at every event boundary after the first state *)
  Fixpoint G_along (evs : list event) (s : state) : Prop :=
    match evs with [] => True | ev :: r => G (step s ev) /\ G_along r (step s ev) end.

  Lemma run_pot t evs : forall s,
    err (run_events evs s) = false -> G_along evs s -> gdeliveries t evs s + pot t (run_events evs s) <= pot t s.
  Proof.
    induction evs as [|ev r IH]; intros s He HG'; [cbn; lia|].
    change (run_events (ev :: r) s) with (run_events r (step s ev)) in *. cbn [gdeliveries G_along] in *. destruct HG' as [H1 H2].
    pose proof (err_false_run_head r s ev He) as He1.
    specialize (IH _ He H2). pose proof (step_pot t s ev He1 H1). lia.
  Qed.
End Bound.

(* ------------------------------------------------------------------ instance 1: deliveries addressed to an unsubscribed context *)

(** queue insertion of thread [t] out of an event range of type [ty] for the target reference [RObj x] *)
Definition addr_delivers (t : tid) (ty : N) (x : aid) (s : state) (ev : event) : bool :=
  gdelivers (fun ty' => N.eqb ty' ty) (is_obj x) t s ev.
Definition addr_deliveries (t : tid) (ty : N) (x : aid) (evs : list event) (s : state) : nat :=
  gdeliveries (fun ty' => N.eqb ty' ty) (is_obj x) t evs s.

Lemma unsub_along_G ty x evs : forall s, unsub_along ty x evs s -> G_along (fun s0 => ~ sub_at s0 ty x) evs s.
Proof.
  induction evs as [|ev r IH]; intros s H; cbn [G_along unsub_along] in *; [exact I|].
  destruct H as [_ H]. split; [|apply IH; exact H]. destruct r; cbn [unsub_along] in H; apply H.
Qed.

(** while [x] has no entry under [ty], thread [t] addresses to [x] at most the deliveries of type [ty] it had
    pending when [x] left the table *)
Lemma unsub_bound_addr t ty x evs s :
  err (run_events evs s) = false -> unsub_along ty x evs s ->
  addr_deliveries t ty x evs s + inflight t ty x (run_events evs s) <= inflight t ty x s.
Proof.
  intros He Hu. unfold inflight. rewrite !occ_list_gocc.
  apply (run_pot (fun ty' => N.eqb ty' ty) (is_obj x) (fun s0 => ~ sub_at s0 ty x)); [|exact He|apply unsub_along_G; exact Hu].
  intros s0 ty' Hs Hty. apply N.eqb_eq in Hty. subst ty'. apply filter_is_obj_nil. exact Hs.
Qed.

(* ------------------------------------------------------------------ instance 2: the targets of an event range are context references *)

Definition is_objref (r : rref) : bool := match r with RObj _ => true | _ => false end.
Definition bad (t : tid) (s : state) : nat := pot (fun _ => true) (fun r => negb (is_objref r)) t s.

Lemma filter_objref_nil (l : list (path * aid)) : filter (fun r => negb (is_objref r)) (map (fun p => RObj (snd p)) l) = [].
Proof. induction l as [|p l IH]; cbn; auto. Qed.

Lemma bad_run t evs s : err (run_events evs s) = false -> bad t (run_events evs s) <= bad t s.
Proof.
  intros He. unfold bad.
  pose proof (run_pot (fun _ => true) (fun r => negb (is_objref r)) (fun _ => True) (fun s0 ty' _ _ => filter_objref_nil _) t evs s He) as H.
  assert (HG : G_along (fun _ => True) evs s) by (clear; revert s; induction evs; intros; cbn; auto). specialize (H HG). lia.
Qed.

Lemma init_no_ev scs t : forallb no_ev (pend_of (init_with scs) t) = true.
Proof.
  unfold init_with.
  assert (H : forall scs s i, (forall t0, forallb no_ev (pend_of s t0) = true) -> forall t0, forallb no_ev (pend_of (set_exts s i scs) t0) = true).
  { clear. induction scs as [|sc r IH]; intros s i Hs t0; cbn [set_exts]; [apply Hs|].
    apply IH. intros t1. destruct (ProofsSup.tid_eq_dec t1 (TX i)) as [->|N].
    - cbn [set_pend]. destruct (nth_error (exts s) i) as [ex|] eqn:E; [|apply (Hs (TX i))].
      cbn [pend_of set_ext exts]. rewrite nth_upd_eq by (eapply nth_error_lt; exact E). apply no_ev_map_IAct.
    - rewrite pend_of_set_pend_other by exact N. apply Hs. }
  apply H. intros t0. destruct t0 as [a|j]; cbn [pend_of get init_state actors exts].
  - destruct a as [|[|a]]; reflexivity.
  - destruct (nth_error (repeat {| x_pend := []; x_held := [] |} (length scs)) j) as [ex|] eqn:E; [|reflexivity].
    apply nth_error_In, repeat_spec in E. subst ex. reflexivity.
Qed.

Lemma bad_reachable s t : reachable s -> bad t s = 0.
Proof.
  intros (scs & evs & -> & He). pose proof (bad_run t evs (init_with scs) He) as H.
  assert (E : bad t (init_with scs) = 0) by (unfold bad, pot; apply no_ev_list, init_no_ev). lia.
Qed.

(** every target of a fan-out insertion is a context reference *)
Lemma stream_push_obj s ev t ty pl to : reachable s -> stream_push s ev = Some (t, ty, pl, to) -> exists y, to = RObj y.
Proof.
  intros Hr H. unfold stream_push in H. destruct ev; try discriminate H.
  destruct (pend_of s t0) as [|i rest] eqn:Hp; [discriminate H|]. destruct i; try discriminate H. destruct m; try discriminate H.
  destruct (nth_error tos choice) as [to'|] eqn:Hk; [|discriminate H]. inversion H; subst.
  pose proof (bad_reachable s t Hr) as Hb. unfold bad, pot in Hb. rewrite Hp in Hb. cbn [gocc gocc_instr] in Hb.
  assert (Hf : filter (fun r => negb (is_objref r)) tos = []) by (destruct (filter _ tos); [reflexivity|cbn in Hb; lia]).
  apply nth_error_In in Hk. destruct to as [y| |]; [eauto| |].
  - assert (Hin : In (RFresh p) (filter (fun r => negb (is_objref r)) tos)) by (apply filter_In; auto). rewrite Hf in Hin. destruct Hin.
  - assert (Hin : In RNone (filter (fun r => negb (is_objref r)) tos)) by (apply filter_In; auto). rewrite Hf in Hin. destruct Hin.
Qed.
