(** Basic lemmas about the ActorCore model + the one-step (unfolding) theorems of C05 / C06. *)
From Coq Require Import List NArith ZArith Bool Lia.
From Vivid Require Import Base.Tm Actor.Core Actor.CoreRun Actor.SpecLife.
Import ListNotations.
Local Open Scope N_scope.

(* ------------------------------------------------------------------ association lists *)

Lemma path_eqb_refl p : path_eqb p p = true.
Proof. induction p; cbn [path_eqb]; [reflexivity|]. rewrite N.eqb_refl, IHp. reflexivity. Qed.

Lemma path_eqb_eq p q : path_eqb p q = true <-> p = q.
Proof.
  split; [|intros ->; apply path_eqb_refl].
  revert q; induction p as [|x p IH]; intros [|y q]; cbn [path_eqb]; try discriminate; [reflexivity|].
  intros H. apply andb_prop in H as [H1 H2]. apply N.eqb_eq in H1. apply IH in H2. congruence.
Qed.

Lemma path_eqb_sym p q : path_eqb p q = path_eqb q p.
Proof.
  destruct (path_eqb p q) eqn:E.
  - apply path_eqb_eq in E. subst. symmetry. apply path_eqb_refl.
  - destruct (path_eqb q p) eqn:E'; [|reflexivity]. apply path_eqb_eq in E'. subst. rewrite path_eqb_refl in E. discriminate.
Qed.

Lemma alookup_aremove_same {A} (l : list (path * A)) p : alookup (aremove l p) p = None.
Proof.
  induction l as [|[q v] l IH]; cbn [aremove alookup]; [reflexivity|].
  destruct (path_eqb p q) eqn:E; [exact IH|]. cbn [alookup]. rewrite E. exact IH.
Qed.

Lemma alookup_aremove_other {A} (l : list (path * A)) p q : path_eqb q p = false -> alookup (aremove l p) q = alookup l q.
Proof.
  intros Hne. induction l as [|[r v] l IH]; cbn [aremove alookup]; [reflexivity|].
  destruct (path_eqb p r) eqn:E.
  - apply path_eqb_eq in E. subst r. rewrite Hne. exact IH.
  - cbn [alookup]. rewrite IH. reflexivity.
Qed.

Lemma alookup_app {A} (l1 l2 : list (path * A)) p :
  alookup (l1 ++ l2) p = match alookup l1 p with Some v => Some v | None => alookup l2 p end.
Proof.
  induction l1 as [|[q v] l1 IH]; cbn [app alookup]; [reflexivity|].
  destruct (path_eqb p q); [reflexivity|exact IH].
Qed.

Lemma alookup_aset_same {A} (l : list (path * A)) p v : alookup (aset l p v) p = Some v.
Proof. unfold aset. rewrite alookup_app, alookup_aremove_same. cbn [alookup]. rewrite path_eqb_refl. reflexivity. Qed.

Lemma alookup_aset_other {A} (l : list (path * A)) p q v : path_eqb q p = false -> alookup (aset l p v) q = alookup l q.
Proof.
  intros H. unfold aset. rewrite alookup_app, alookup_aremove_other by exact H.
  destruct (alookup l q); [reflexivity|]. cbn [alookup]. rewrite H. reflexivity.
Qed.

Lemma aremove_nil_of_nil {A} p : @aremove A [] p = [].
Proof. reflexivity. Qed.

Lemma aremove_In {A} (l : list (path * A)) p q v : In (q, v) (aremove l p) -> In (q, v) l /\ path_eqb p q = false.
Proof.
  induction l as [|[r w] l IH]; cbn [aremove]; [intros []|].
  destruct (path_eqb p r) eqn:E.
  - intros H. apply IH in H as [H1 H2]. split; [right; exact H1|exact H2].
  - intros [H|H]; [inversion H; subst; split; [left; reflexivity|exact E]|]. apply IH in H as [H1 H2]. split; [right; exact H1|exact H2].
Qed.

(** [unsub_all] removes the path from every subscriber map *)
Lemma unsub_all_spec l p ty m : In (ty, m) (unsub_all l p) -> alookup m p = None.
Proof.
  induction l as [|[ty' m'] l IH]; cbn [unsub_all]; [intros []|].
  destruct (alookup m' p) eqn:E.
  - destruct (aremove m' p) eqn:E2; [exact IH|].
    intros [H|H]; [|exact (IH H)]. inversion H; subst. rewrite <- E2. apply alookup_aremove_same.
  - intros [H|H]; [|exact (IH H)]. inversion H; subst. exact E.
Qed.

Lemma nlookup_In {A} (l : list (N * A)) k v : nlookup l k = Some v -> In (k, v) l.
Proof.
  induction l as [|[q w] l IH]; cbn [nlookup]; [discriminate|].
  destruct (N.eqb k q) eqn:E; [|intros H; right; exact (IH H)].
  intros H; inversion H; subst. apply N.eqb_eq in E. subst. left; reflexivity.
Qed.

(* ------------------------------------------------------------------ get / set *)

Lemma nth_error_upd_same {A} (l : list A) i x y : nth_error l i = Some y -> nth_error (upd l i x) i = Some x.
Proof. revert i; induction l as [|z l IH]; intros [|i]; cbn [nth_error upd]; try discriminate; [reflexivity|apply IH]. Qed.

Lemma nth_error_upd_other {A} (l : list A) i j x : i <> j -> nth_error (upd l i x) j = nth_error l j.
Proof.
  revert i j; induction l as [|z l IH]; intros [|i] [|j] H; cbn [nth_error upd]; try reflexivity; [congruence|].
  apply IH. congruence.
Qed.

Lemma length_upd {A} (l : list A) i x : length (upd l i x) = length l.
Proof. revert i; induction l as [|z l IH]; intros [|i]; cbn [length upd]; try reflexivity. rewrite IH. reflexivity. Qed.

Lemma get_set_actor_same s a x y : get s a = Some y -> get (set_actor s a x) a = Some x.
Proof. unfold get, set_actor; cbn [actors]. apply nth_error_upd_same. Qed.

Lemma get_set_actor_other s a b x : a <> b -> get (set_actor s a x) b = get s b.
Proof. unfold get, set_actor; cbn [actors]. apply nth_error_upd_other. Qed.

Lemma get_lt s a x : get s a = Some x -> (a < length (actors s))%nat.
Proof. unfold get. intros H. apply nth_error_Some. congruence. Qed.

(* ------------------------------------------------------------------ C05-a: ActorOf *)

Lemma exec1_spawn_prelaunch_fail s t held sp x :
  get s (self_of t) = Some x -> a_state x <> Killed -> sp_prelaunch sp = false ->
  exec1 s t held (IAct (ASpawn sp)) = (add_obs s (OSpawn (self_of t) (sp_name sp) 2), []).
Proof.
  intros Hg Hst Hp. unfold exec1. rewrite Hg, Hp. cbn [negb].
  destruct (a_state x); try reflexivity. congruence.
Qed.

Lemma exec1_spawn_parent_dead s t held sp x :
  get s (self_of t) = Some x -> a_state x = Killed ->
  exec1 s t held (IAct (ASpawn sp)) = (add_obs s (OSpawn (self_of t) (sp_name sp) 1), []).
Proof. intros Hg Hst. unfold exec1. rewrite Hg, Hst. reflexivity. Qed.

Lemma exec1_spawn_exists s t held sp x c :
  get s (self_of t) = Some x -> a_state x <> Killed -> sp_prelaunch sp = true ->
  alookup (reg s) (a_path x ++ [sp_name sp]) = Some c ->
  exec1 s t held (IAct (ASpawn sp)) = (add_obs s (OSpawn (self_of t) (sp_name sp) 3), []).
Proof.
  intros Hg Hst Hp Hr. unfold exec1. rewrite Hg, Hp, Hr. cbn [negb].
  destruct (a_state x); try reflexivity. congruence.
Qed.

Lemma exec1_spawn_ok s t held sp x s' front :
  get s (self_of t) = Some x -> a_state x <> Killed -> sp_prelaunch sp = true ->
  alookup (reg s) (a_path x ++ [sp_name sp]) = None ->
  exec1 s t held (IAct (ASpawn sp)) = (s', front) ->
  let self := self_of t in
  let p := a_path x ++ [sp_name sp] in
  let c := length (actors s) in
  let g := match alookup (gens s) p with Some g => g | None => 0 end in
  length (actors s') = S c /\
  get s' c = Some (new_actor p g (Some self) sp) /\
  (forall b, b <> self -> b <> c -> get s' b = get s b) /\
  get s' self = Some (set_children x (aset (a_children x) p c)) /\
  reg s' = reg s ++ [(p, c)] /\ alookup (reg s') p = Some c /\
  gens s' = aset (gens s) p (g + 1) /\
  olog s' = olog s /\ subs s' = subs s /\ err s' = err s /\
  front = [IEnq true (RObj c) (RObj self) MLaunch; IEnqDone; IPub evSpawned (p ++ [g])]
          ++ (if match a_state x with Killing => true | _ => false end
              then [IEnq true (RObj c) (RObj self) (MKill (RObj self) false); IEnqDone] else [])
          ++ [IObs (OSpawn self (sp_name sp) 0)].
Proof.
  intros Hg Hst Hp Hr He. cbv zeta.
  pose proof (get_lt _ _ _ Hg) as Hlt.
  unfold exec1 in He. rewrite Hg, Hp, Hr in He. cbn [negb] in He.
  assert (Hself : forall A (y z : A), match a_state x with Killed => y | _ => z end = z)
    by (intros; destruct (a_state x); try reflexivity; congruence).
  match type of He with (match a_state x with Running => ?r | Killing => ?r2 | Killed => ?k end) = _ =>
    assert (He' : (if match a_state x with Killing => true | _ => false end then r2 else r) = (s', front))
      by (destruct (a_state x); try exact He; congruence) end.
  clear He.
  assert (Hg1 : forall ex, get {| actors := actors s ++ [new_actor (a_path x ++ [sp_name sp]) (match alookup (gens s) (a_path x ++ [sp_name sp]) with Some g => g | None => 0 end) (Some (self_of t)) sp];
                             reg := reg s ++ [(a_path x ++ [sp_name sp], length (actors s))];
                             gens := aset (gens s) (a_path x ++ [sp_name sp]) (match alookup (gens s) (a_path x ++ [sp_name sp]) with Some g => g | None => 0 end + 1);
                             subs := subs s; exts := ex; olog := olog s; ghost := ghost s; err := err s |} (self_of t) = Some x).
  { intros ex. unfold get; cbn [actors]. rewrite nth_error_app1 by exact Hlt. exact Hg. }
  destruct (match a_state x with Killing => true | _ => false end);
  inversion He'; subst s' front; clear He'; unfold with_actor; rewrite Hg1;
  (split; [unfold set_actor; cbn [actors]; rewrite length_upd, app_length; cbn [length]; lia|]);
  (split; [unfold get, set_actor; cbn [actors]; rewrite nth_error_upd_other by lia; rewrite nth_error_app2 by lia; rewrite Nat.sub_diag; reflexivity|]);
  (split; [intros b Hb1 Hb2; unfold get, set_actor; cbn [actors]; rewrite nth_error_upd_other by congruence;
           destruct (Nat.lt_ge_cases b (length (actors s))) as [Hb|Hb];
           [rewrite nth_error_app1 by exact Hb; reflexivity|];
           rewrite (proj2 (nth_error_None (actors s) b)) by exact Hb;
           apply nth_error_None; rewrite app_length; cbn [length]; lia|]);
  (split; [erewrite get_set_actor_same by apply Hg1; reflexivity|]);
  (split; [reflexivity|]);
  (split; [cbn [reg set_actor]; rewrite alookup_app, Hr; cbn [alookup]; rewrite path_eqb_refl; reflexivity|]);
  repeat split; reflexivity.
Qed.

(* ------------------------------------------------------------------ C05-c: restart *)

Definition hooks_ok (x : actor) : bool := match a_hooks x with (_, r_ok, p_ok) :: _ => r_ok && p_ok | [] => true end.

Definition launch_env (x : actor) : envelope := {| e_sys := true; e_sender := rref_parent x; e_msg := MLaunch |}.

Lemma exec1_restart_finish_ok s t held x :
  get s (self_of t) = Some x -> hooks_ok x = true ->
  exists x',
    exec1 s t held IRestartFinish =
      (set_actor s (self_of t) x',
       [IResume1; IPub evRestarted (actor_key x); IPub evResumed (actor_key x);
        IBeh MLaunch (sp_launch (a_spec x)) RecFail; IPub evLaunched (actor_key x)]) /\
    a_state x' = Running /\ a_restarting x' = None /\ a_zombie x' = a_zombie x /\
    a_modes x' = [0] /\ a_inst x' = (if sp_provider (a_spec x) then a_inst x + 1 else a_inst x) /\
    a_hooks x' = tl (a_hooks x) /\ a_cons x' = CBusy 0 /\ a_cur x' = Some (launch_env x) /\
    a_path x' = a_path x /\ a_gen x' = a_gen x /\ a_parent x' = a_parent x /\ a_spec x' = a_spec x /\
    a_children x' = a_children x /\ a_watchers x' = a_watchers x /\ a_stash x' = a_stash x /\
    a_decisions x' = a_decisions x /\ a_sq x' = a_sq x /\ a_uq x' = a_uq x /\ a_paused x' = a_paused x /\ a_pend x' = a_pend x.
Proof.
  intros Hg Hok. unfold exec1. rewrite Hg. unfold hooks_ok in Hok.
  destruct (a_hooks x) as [|[[h1 h2] h3] hs] eqn:Hh.
  - eexists. split; [reflexivity|]. destruct (sp_provider (a_spec x)); cbn; repeat split; reflexivity.
  - rewrite Hok. eexists. split; [reflexivity|]. destruct (sp_provider (a_spec x)); cbn; repeat split; reflexivity.
Qed.

Lemma exec1_restart_finish_fail s t held x :
  get s (self_of t) = Some x -> hooks_ok x = false ->
  exists x',
    exec1 s t held IRestartFinish = (set_actor s (self_of t) x', [IResume1]) /\
    a_zombie x' = true /\ a_state x' = a_state x /\ a_restarting x' = a_restarting x /\
    a_modes x' = [0] /\ a_hooks x' = tl (a_hooks x) /\ a_cons x' = a_cons x /\ a_children x' = a_children x /\
    a_path x' = a_path x /\ a_pend x' = a_pend x.
Proof.
  intros Hg Hok. unfold exec1. rewrite Hg. unfold hooks_ok in Hok.
  destruct (a_hooks x) as [|[[h1 h2] h3] hs] eqn:Hh; [discriminate|].
  rewrite Hok. eexists. split; [reflexivity|]. destruct (sp_provider (a_spec x)); cbn; repeat split; reflexivity.
Qed.

(** running the behaviour: what is logged *)
Lemma exec1_IBeh_logs s t held x m acts r pa :
  get s (self_of t) = Some x -> a_zombie x = false -> a_parent x = Some pa ->
  fst (exec1 s t held (IBeh m acts r)) =
    add_obs s (OSeen (self_of t) (a_inst x) (match a_cons x with CBusy md => md | _ => mode_top x end) m).
Proof.
  intros Hg Hz Hp. unfold exec1. rewrite Hg, Hz, Hp. destruct (take_until_panic acts). reflexivity.
Qed.

Lemma exec1_IBeh_zombie s t held x m acts r :
  get s (self_of t) = Some x -> a_zombie x = true -> exec1 s t held (IBeh m acts r) = (s, []).
Proof. intros Hg Hz. unfold exec1. rewrite Hg, Hz. reflexivity. Qed.

(** publishing an event only sends [MEvent] envelopes, to the current subscribers *)
Lemma exec1_IPub s t held x ty pl :
  get s (self_of t) = Some x ->
  exec1 s t held (IPub ty pl) =
    (s, match subscribers s ty with
        | [] => []
        | l => [IEnqAny false (map (fun p => RObj (snd p)) l) root_ref (MEvent ty pl)]
        end).
Proof. intros Hg. unfold exec1. rewrite Hg. destruct (subscribers s ty); reflexivity. Qed.

(* ------------------------------------------------------------------ C05-d: OnKill before own OnKilled *)

Lemma exec1_IDoKill s t held x poison :
  get s (self_of t) = Some x ->
  exec1 s t held (IDoKill poison) =
    (s, (match a_children x with
         | [] => []
         | l => [IEnqAny (negb poison) (map (fun p => RObj (snd p)) l) (RObj (self_of t)) (MKill (RObj (self_of t)) poison)]
         end)
        ++ [IBeh (match a_cur x with Some e => e_msg e | None => MKill RNone poison end) (sp_kill (a_spec x)) RecLog;
            IOnKilled (RObj (self_of t))]).
Proof. intros Hg. unfold exec1. rewrite Hg. destruct (a_restarting x); reflexivity. Qed.

Lemma ref_eq_self s a x : get s a = Some x -> ref_eq s (RObj a) (RObj a) = true.
Proof. intros Hg. unfold ref_eq, ref_path. rewrite Hg. apply path_eqb_refl. Qed.

Lemma exec1_IOnKilled_self s t held x :
  get s (self_of t) = Some x -> a_zombie x = false ->
  exec1 s t held (IOnKilled (RObj (self_of t))) = (s, [ICheckMark]).
Proof. intros Hg Hz. unfold exec1. rewrite Hg, Hz. rewrite (ref_eq_self _ _ _ Hg). reflexivity. Qed.

Lemma exec1_IOnKilled_zombie s t held x who :
  get s (self_of t) = Some x -> a_zombie x = true ->
  exec1 s t held (IOnKilled who) = (s, [ICleanup; IUnzombie]).
Proof. intros Hg Hz. unfold exec1. rewrite Hg, Hz. reflexivity. Qed.

(** the other branch: the OnKilled of somebody else (reference not equal to the own one) *)
Lemma exec1_IOnKilled_other s t held x who :
  get s (self_of t) = Some x -> a_zombie x = false -> ref_eq s who (RObj (self_of t)) = false ->
  exists x',
    exec1 s t held (IOnKilled who) =
      (set_actor s (self_of t) x', [IBeh (MKilled who) (sp_killed (a_spec x)) (RecKilled who); ICheckMark]) /\
    (a_children x' = a_children x \/
     exists c p, who = RObj c /\ ref_path s who = Some p /\ alookup (a_children x) p = Some c /\
                 a_children x' = aremove (a_children x) p) /\
    a_state x' = a_state x /\ a_zombie x' = false /\ a_restarting x' = a_restarting x /\ a_pend x' = a_pend x /\
    a_cons x' = a_cons x /\ a_path x' = a_path x /\ a_parent x' = a_parent x.
Proof.
  intros Hg Hz Hne. unfold exec1. rewrite Hg, Hz, Hne.
  eexists. split; [reflexivity|].
  destruct who as [c| |]; try (repeat split; try assumption; try reflexivity; left; reflexivity).
  destruct (ref_path s (RObj c)) as [p|] eqn:Hp; [|repeat split; try assumption; try reflexivity; left; reflexivity].
  destruct (alookup (a_children x) p) as [c'|] eqn:Hl; [|repeat split; try assumption; try reflexivity; left; reflexivity].
  destruct (Nat.eqb c c') eqn:Hc; [|repeat split; try assumption; try reflexivity; left; reflexivity].
  apply Nat.eqb_eq in Hc. subst c'.
  cbn. repeat split; try assumption. right. exists c, p. repeat split; assumption.
Qed.

Lemma exec1_ICheckMark_marks s t held x :
  get s (self_of t) = Some x -> a_children x = [] -> a_state x = Killing ->
  exists x',
    exec1 s t held ICheckMark =
      (set_actor s (self_of t) x',
       [IBeh (MKilled (RObj (self_of t))) (sp_killed (a_spec x)) RecLog]
       ++ match a_restarting x with None => [ICleanup] | Some _ => [IRestartFinish] end) /\
    a_state x' = Killed /\ a_children x' = [] /\ a_zombie x' = a_zombie x /\ a_restarting x' = a_restarting x /\
    a_cur x' = Some {| e_sys := true; e_sender := match a_cur x with Some e0 => e_sender e0 | None => RNone end;
                       e_msg := MKilled (RObj (self_of t)) |} /\
    a_pend x' = a_pend x /\ a_cons x' = a_cons x /\ a_path x' = a_path x /\ a_parent x' = a_parent x.
Proof.
  intros Hg Hc Hs. unfold exec1. rewrite Hg, Hc, Hs. eexists. split; [reflexivity|]. cbn. repeat split; assumption.
Qed.

Lemma exec1_ICheckMark_noop s t held x :
  get s (self_of t) = Some x -> (a_children x <> [] \/ a_state x <> Killing) ->
  exec1 s t held ICheckMark = (s, []).
Proof.
  intros Hg H. unfold exec1. rewrite Hg.
  destruct (a_children x); destruct (a_state x); try reflexivity. destruct H; congruence.
Qed.

(* ------------------------------------------------------------------ C06-b: cleanup *)

Lemma exec1_ICleanup s t held x :
  get s (self_of t) = Some x ->
  exec1 s t held ICleanup =
    (set_reg (set_subs s (unsub_all (subs s) (a_path x))) (aremove (reg s) (a_path x)),
     (match a_watchers x with
      | [] => []
      | l => [IEnqAny true (map snd l) (RObj (self_of t)) (MKilled (RObj (self_of t)))]
      end)
     ++ (match a_parent x with
         | Some p => [IEnq true (RObj p) (RObj (self_of t)) (MKilled (RObj (self_of t))); IEnqDone]
         | None => []
         end)
     ++ [IPub evKilled (actor_key x); IResume1]).
Proof. intros Hg. unfold exec1. rewrite Hg. reflexivity. Qed.

Lemma exec1_IUnzombie s t held x :
  get s (self_of t) = Some x ->
  exec1 s t held IUnzombie = (set_actor s (self_of t) (set_zombie x false), []).
Proof. intros Hg. unfold exec1. rewrite Hg. reflexivity. Qed.

Lemma other_killed_not_own s a x who :
  get s a = Some x -> ref_eq s who (RObj a) = false -> who <> RObj a.
Proof. intros Hg Hne ->. rewrite (ref_eq_self _ _ _ Hg) in Hne. discriminate. Qed.
