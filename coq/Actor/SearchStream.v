(** Failing-schedule search for the history-level C19 statements on the ActorCore model, inside Coq (definitions
    only - nothing is evaluated when this file is compiled).

    How to run:  write a scratch file, e.g. /tmp/s.v, containing

        From Coq Require Import List NArith. From Vivid Require Import Actor.Core Actor.SpecMail Actor.SearchMail Actor.SpecStream Actor.SearchStream.
        Import ListNotations.
        Time Eval vm_compute in (filter (fun sd => negb (stream_ok stream_scsA sd)) (seeds 10 60)).
        Time Eval vm_compute in (filter (fun sd => negb (stream_ok stream_scsB sd)) (seeds 10 120)).

    and `cd /verif/coq && timeout 3000 coqc -Q . Vivid /tmp/s.v` (3-4 s per schedule; [] = no failing schedule).
    [stream_ok scs seed] follows the pseudo-random schedule [rrun_evs 400 seed] (Actor/SearchMail.v) and evaluates, at
    EVERY split point of the run, boolean versions of: entries_live (chk1), the in-flight bound of
    C19_not_delivered_while_unsubscribed for every thread, type and context (chk2), C19_range_completes for every
    pending event range (chk3), C19_publisher_order's "first insertion of the publisher into the subscriber's user
    queue" (chk4).  [chk2bad] is the bound WITHOUT the unsubscribed hypothesis: it must fail (it does), which shows
    the checkers can fail.  Result of the runs made when the proofs were written: 180 schedules, no failure. *)
From Coq Require Import List NArith ZArith Bool Arith.
From Vivid Require Import Actor.Core Actor.CoreRun Actor.SpecSup Actor.SpecMail Actor.SearchMail Actor.SpecStream.
Import ListNotations.
Local Open Scope N_scope.

Definition ss_subA : spec := Spec 30 [ASub 100; ASub 101] [] [] 0 [] true [] false.
Definition ss_subB : spec := Spec 31 [ASub 100] [] [] 0 [] true [(true, true, true)] false.
Definition ss_subC : spec := Spec 32 [ASub 100; AUnsub 100; ASub 100] [APub 100 9] [AUnsubAll; ASub 101; APub 101 8] 0 [] true [] false.
Definition ss_par : spec := Spec 20 [ASpawn ss_subA; ASpawn ss_subB; ASpawn ss_subC; APub 100 1; APub 101 2] [] [] 1 [DRestart; DStop] true [] false.
(** subscribers under a restarting parent; racing callers publish, make a subscriber unsubscribe / panic, kill one, kill the parent *)
Definition stream_scsA : list (list action) :=
  [[ASpawn ss_par; APub 100 3; APub 100 4];
   [ATell (XPath [20; 30]) 7 [AUnsub 100; APub 100 5; ASub 100]; ATell (XPath [20; 31]) 8 [APanic]; APub 100 6];
   [AKill (XPath [20; 32]) false; ASub 100; APub 101 7; AKill (XPath [20]) true; APub 100 10]].

Definition ss_subD : spec := Spec 33 [ASub 100; ASub 101] [] [APub 100 11] 0 [] true [(true, false, true)] false.
Definition ss_subE : spec := Spec 34 [ASub 100; AStash] [] [] 0 [] true [(true, true, true); (true, true, false)] true.
Definition ss_par2 : spec := Spec 21 [ASpawn ss_subD; ASpawn ss_subE; ASpawn ss_subA; APub 100 1] [] [] 2 [DRestart; DGRestart; DResume; DStop] true [] false.
(** one-for-all parent, a subscriber whose restart fails (zombie), stash / unstash, the guard subscribing and unsubscribing *)
Definition stream_scsB : list (list action) :=
  [[ASpawn ss_par2; APub 100 3; APub 101 4; APub 100 12];
   [ATell (XPath [21; 33]) 7 [APanic]; ATell (XPath [21; 34]) 8 [AUnsubAll; APanic]; APub 100 6; ATell (XPath [21; 34]) 9 [ASub 100; AUnstash None]];
   [ASub 101; AKill (XPath [21; 30]) true; APub 101 7; AUnsub 101; APub 101 13; AKill (XPath [21; 33]) false; APub 100 14]].

Fixpoint states_of (evs : list event) (s : state) : list state :=
  s :: match evs with [] => [] | ev :: r => states_of r (step s ev) end.
(** every suffix of the run with the state it starts in *)
Fixpoint sufs (evs : list event) (s : state) : list (list event * state) :=
  (evs, s) :: match evs with [] => [] | ev :: r => sufs r (step s ev) end.
Definition aids_of (s : state) : list nat := seq 0 (length (actors s)).

Definition chk1 (evs : list event) (s : state) : bool := forallb entries_liveb (states_of evs s).

Definition chk2 (evs : list event) (s : state) : bool :=
  let fin := run_events evs s in
  forallb (fun p : list event * state => let (r, si) := p in
    forallb (fun ty => forallb (fun x =>
      if unsub_alongb ty x r si then
        forallb (fun t => Nat.leb (deliveries t ty x r si + inflight t ty x (run_events r si)) (inflight t ty x si)) (all_tids fin)
      else true) (aids_of fin)) [100; 101]) (sufs evs s).
Definition chk2bad (evs : list event) (s : state) : bool :=
  let fin := run_events evs s in
  forallb (fun p : list event * state => let (r, si) := p in
    forallb (fun ty => forallb (fun x =>
        forallb (fun t => Nat.leb (deliveries t ty x r si) (inflight t ty x si)) (all_tids fin)) (aids_of fin)) [100; 101]) (sufs evs s).

Definition obj_aid (r : rref) : nat := match r with RObj a => a | _ => 999 end.
Fixpoint count_nat (a : nat) (l : list nat) : nat := match l with [] => 0 | b :: r => (if Nat.eqb a b then 1 else 0) + count_nat a r end.
Definition env_is (e : envelope) (sys : bool) (ty : N) (pl : list N) : bool :=
  Bool.eqb (e_sys e) sys && match e_msg e with MEvent ty' pl' => N.eqb ty ty' && path_eqb pl pl' | _ => false end.

Definition chk3 (evs : list event) (s : state) : bool :=
  let fin := run_events evs s in
  forallb (fun p : list event * state => let (r, si) := p in
    forallb (fun t =>
      match pend_of si t with
      | IEnqAny sys tos _ (MEvent ty pl) :: _ =>
          let n := length tos in
          if Nat.leb n (npush t r) then
            let ps := firstn n (tpushes t r si) in
            Nat.eqb (length ps) n &&
            forallb (fun q : aid * envelope => env_is (snd q) sys ty pl) ps &&
            forallb (fun to => Nat.eqb (count_nat (obj_aid to) (map fst ps)) 1) tos
          else true
      | _ => true
      end) (all_tids fin)) (sufs evs s).

Definition chk4 (evs : list event) (s : state) : bool :=
  let fin := run_events evs s in
  forallb (fun p : list event * state => let (r, si) := p in
    forallb (fun t =>
      match pend_of si t with
      | IEnqAny sys tos _ (MEvent ty pl) :: _ =>
          if Nat.leb (length tos) (npush t r) then
            forallb (fun to =>
              match filter (fun q : tid * envelope => tid_eqb (fst q) t) (upushed (obj_aid to) r si) with
              | q :: _ => env_is (snd q) false ty pl
              | [] => false
              end) tos
          else true
      | _ => true
      end) (all_tids fin)) (sufs evs s).

Definition stream_ok (scs : list (list action)) (seed : N) : bool :=
  let s0 := init_with scs in
  let evs := rrun_evs 400 seed s0 in
  negb (err (run_events evs s0)) && chk1 evs s0 && chk2 evs s0 && chk3 evs s0 && chk4 evs s0.
Definition seeds (from n : nat) : list N := map N.of_nat (seq from n).
