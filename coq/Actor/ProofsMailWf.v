(** Well-formedness of the pending instruction lists ([wf], Actor/SpecMail.v) is an invariant of every run, and
    under it an atomic run never touches an envelope the consumer holds. *)
From Coq Require Import List NArith ZArith Bool Lia Arith.
From Vivid Require Import Actor.Core Actor.CoreRun Actor.SpecMail Actor.ProofsMailBase Actor.ProofsMail Actor.ProofsMailInv.
Import ListNotations.

(** * shapes of instruction lists *)
Definition shape (l : list instr) : Prop := exists l', l = l' ++ [IEndHandler] /\ no_end l'.

Lemma no_end_nil : no_end []. Proof. reflexivity. Qed.
Lemma no_end_cons i l : no_end (i :: l) <-> is_end i = false /\ no_end l.
Proof. unfold no_end. cbn [forallb]. rewrite andb_true_iff, negb_true_iff. tauto. Qed.
Lemma no_end_app l1 l2 : no_end (l1 ++ l2) <-> no_end l1 /\ no_end l2.
Proof. unfold no_end. rewrite forallb_app, andb_true_iff. tauto. Qed.

Lemma shape_tail i rest : shape (i :: rest) -> is_end i = false -> shape rest.
Proof.
  intros (l' & E & Hn) Hi. destruct l' as [|j l'']; cbn [app] in E; inversion E; subst.
  - discriminate Hi.
  - apply no_end_cons in Hn. exists l''. tauto.
Qed.
Lemma shape_end i rest : shape (i :: rest) -> is_end i = true -> rest = [].
Proof.
  intros (l' & E & Hn) Hi. destruct l' as [|j l'']; cbn [app] in E; inversion E; subst; [reflexivity|].
  apply no_end_cons in Hn. destruct Hn as [Hn _]. congruence.
Qed.
Lemma shape_app front rest : no_end front -> shape rest -> shape (front ++ rest).
Proof. intros Hf (l' & -> & Hn). exists (front ++ l'). rewrite app_assoc. split; [reflexivity|]. apply no_end_app; tauto. Qed.
Lemma shape_cons j rest : is_end j = false -> shape rest -> shape (j :: rest).
Proof. intros Hj Hs. apply (shape_app [j] rest); [|exact Hs]. apply no_end_cons. split; [exact Hj|reflexivity]. Qed.
Lemma shape_nonnil l : shape l -> l <> [].
Proof. intros (l' & -> & _) H. destruct l'; discriminate. Qed.

Lemma pend_shape_iff x : pend_shape x <-> a_pend x = [] \/ (exists md, a_cons x = CBusy md) /\ shape (a_pend x).
Proof.
  unfold pend_shape, shape. split.
  - intros [H|(md & l & Hc & Hp & Hn)]; [left; exact H|right]. split; [eauto|]. exists l. auto.
  - intros [H|((md & Hc) & l & Hp & Hn)]; [left; exact H|right]. exists md, l. auto.
Qed.

(** * list helpers *)
Lemma Forall_upd {A} (P : A -> Prop) l i y : Forall P l -> P y -> Forall P (upd l i y).
Proof. intros Hl Hy. revert i. induction Hl; intros [|i]; cbn [upd]; constructor; auto. Qed.

Lemma Forall_nth {A} (P : A -> Prop) l i x : Forall P l -> nth_error l i = Some x -> P x.
Proof. intros Hl Hn. rewrite Forall_forall in Hl. apply Hl. eapply nth_error_In; exact Hn. Qed.

Lemma map_upd {A B} (f : A -> B) l i y : map f (upd l i y) = upd (map f l) i (f y).
Proof. revert i. induction l; intros [|i]; cbn [upd map]; auto. f_equal; auto. Qed.

Lemma forallb_map_IAct l : forallb ext_instr (map IAct l) = true.
Proof. induction l; cbn; auto. Qed.
Lemma no_end_map_IAct l : no_end (map IAct l).
Proof. unfold no_end. induction l; cbn; auto. Qed.
Lemma no_end_flat_map {A} (f : A -> list instr) l : (forall a, no_end (f a)) -> no_end (flat_map f l).
Proof. intros H. induction l; cbn [flat_map]; [reflexivity|]. apply no_end_app. auto. Qed.
Lemma ext_flat_map {A} (f : A -> list instr) l : (forall a, forallb ext_instr (f a) = true) -> forallb ext_instr (flat_map f l) = true.
Proof. intros H. induction l; cbn [flat_map]; [reflexivity|]. rewrite forallb_app, H, IHl. reflexivity. Qed.

(** * what [exec1] puts in front of the pending list *)
Lemma exec1_front_no_end s t h i : no_end (snd (exec1 s t h i)).
Proof.
  unfold exec1. destruct (get s (self_of t)) as [x|]; [|reflexivity].
  destruct i; cbn [snd]; try reflexivity.
  - destruct remaining; reflexivity.
  - destruct a; cbn [snd]; try reflexivity.
    + destruct (a_state x); cbn [snd]; try reflexivity;
        (destruct (negb (sp_prelaunch sp)); [reflexivity|]);
        (destruct (alookup (reg s) (a_path x ++ [sp_name sp])); reflexivity).
    + destruct (a_cur x); reflexivity.
    + destruct n as [n|].
      * destruct (Nat.eqb (length (a_stash x)) 0); [reflexivity|]. cbn [snd]. apply no_end_flat_map. reflexivity.
      * destruct (a_stash x); reflexivity.
    + destruct (alookup (subscribers s ty) (a_path x)); reflexivity.
    + destruct (nlookup (subs s) ty); reflexivity.
  - destruct (a_zombie x); [reflexivity|]. destruct (a_parent x).
    + destruct (take_until_panic acts) as [pre pan]. cbn [snd]. apply no_end_app. split; [apply no_end_map_IAct|].
      destruct pan; [|reflexivity]. destruct r; try reflexivity. destruct (a_state x); try reflexivity.
      destruct (ref_eq s who (RObj (self_of t))); reflexivity.
    + destruct m; try reflexivity. destruct (ref_eq s who (RObj (self_of t))); reflexivity.
  - destruct (subscribers s ty); reflexivity.
  - destruct (a_children x); reflexivity.
  - destruct (a_zombie x); [reflexivity|]. destruct (ref_eq s who (RObj (self_of t))); reflexivity.
  - destruct (a_children x); [|reflexivity]. destruct (a_state x); try reflexivity. destruct (a_restarting x); reflexivity.
  - destruct (a_watchers x), (a_parent x); reflexivity.
  - destruct (a_hooks x) as [|[[h1 h2] h3] rest]; [reflexivity|]. destruct (h2 && h3); reflexivity.
  - destruct d; cbn [snd]; try reflexivity;
      repeat first [apply no_end_app; split | apply no_end_flat_map; intros; reflexivity | reflexivity].
Qed.

Lemma exec1_front_ext s t h i : ext_instr i = true -> forallb ext_instr (snd (exec1 s t h i)) = true.
Proof.
  intros Hi. unfold exec1. destruct (get s (self_of t)) as [x|]; [|reflexivity].
  destruct i; try discriminate Hi; cbn [snd]; try reflexivity.
  - destruct a; cbn [snd]; try reflexivity.
    + destruct (a_state x); cbn [snd]; try reflexivity;
        (destruct (negb (sp_prelaunch sp)); [reflexivity|]);
        (destruct (alookup (reg s) (a_path x ++ [sp_name sp])); reflexivity).
    + destruct (a_cur x); reflexivity.
    + destruct n as [n|].
      * destruct (Nat.eqb (length (a_stash x)) 0); [reflexivity|]. cbn [snd]. apply ext_flat_map. reflexivity.
      * destruct (a_stash x); reflexivity.
    + destruct (alookup (subscribers s ty) (a_path x)); reflexivity.
    + destruct (nlookup (subs s) ty); reflexivity.
  - destruct (subscribers s ty); reflexivity.
Qed.

Lemma exec1_end_front s t h : snd (exec1 s t h IEndHandler) = [].
Proof. unfold exec1. destruct (get s (self_of t)); reflexivity. Qed.

(** the external callers' pending lists are not touched by [exec1] *)
Lemma exec1_exts_pend s t h i : map x_pend (exts (fst (exec1 s t h i))) = map x_pend (exts s).
Proof.
  unfold exec1. destruct (get s (self_of t)) as [x|]; [|reflexivity].
  destruct i; cbn [fst]; try reflexivity.
  - destruct remaining; reflexivity.
  - destruct a; cbn [fst]; try reflexivity.
    + destruct (a_state x); cbn [fst]; try reflexivity.
      all: destruct (negb (sp_prelaunch sp)); [reflexivity|].
      all: destruct (alookup (reg s) (a_path x ++ [sp_name sp])); [reflexivity|].
      all: cbn [fst]; cbv zeta.
      all: match goal with |- context[with_actor ?s1 ?a ?f] => destruct (with_actor_fields s1 a f) as (_ & _ & _ & _ & -> & _) end.
      all: cbn [exts]; destruct t as [a0|j]; [reflexivity|].
      all: destruct (nth_error (exts s) j) as [ex|] eqn:E; [|reflexivity].
      all: rewrite map_upd; cbn [x_pend]; apply upd_same; rewrite nth_error_map, E; reflexivity.
    + destruct (a_cur x); reflexivity.
    + destruct n as [n|]; [destruct (Nat.eqb (length (a_stash x)) 0)|destruct (a_stash x)]; reflexivity.
    + destruct (alookup (subscribers s ty) (a_path x)); reflexivity.
    + destruct (nlookup (subs s) ty); reflexivity.
  - destruct (a_zombie x); [reflexivity|]. destruct (a_parent x).
    + destruct (take_until_panic acts). reflexivity.
    + destruct m; try reflexivity. destruct (ref_eq s who (RObj (self_of t))); reflexivity.
  - destruct (subscribers s ty); reflexivity.
  - destruct (a_zombie x); [reflexivity|]. destruct (ref_eq s who (RObj (self_of t))); reflexivity.
  - destruct (a_children x); [|reflexivity]. destruct (a_state x); reflexivity.
  - destruct (a_hooks x) as [|[[h1 h2] h3] rest]; [reflexivity|]. destruct (h2 && h3); reflexivity.
  - destruct d; reflexivity.
Qed.

(** what [dispatch] installs ends with the one IEndHandler *)
Lemma dispatch_shape s a x e : shape (snd (dispatch s a x e)).
Proof.
  unfold dispatch.
  repeat match goal with
         | |- context[if ?c then _ else _] => destruct c
         | |- context[match ?c with _ => _ end] => destruct c
         end; cbn [snd app];
  match goal with
  | |- shape [?a] => exists []
  | |- shape [?a; ?b] => exists [a]
  | |- shape [?a; ?b; ?c] => exists [a; b]
  | |- shape [?a; ?b; ?c; ?d] => exists [a; b; c]
  end; split; reflexivity.
Qed.

(** * [wf] through the primitives *)
Definition extok (ex : ext) : Prop := forallb ext_instr (x_pend ex) = true.

Lemma wf_set_err s : wf s -> wf (set_err s).
Proof. intros H; exact H. Qed.

Lemma pend_shape_cache x c : pend_shape x -> pend_shape (set_cache x c).
Proof. intros H; exact H. Qed.

Lemma wf_resolve s r : wf s -> wf (snd (resolve s r)).
Proof.
  intros [HA HX]. destruct (resolve_shape s r) as [H|[H|(a & x & y & _ & Hg & _ & _ & H & _)]]; rewrite H; [split; auto|split; auto|].
  split; [|exact HX]. cbn [set_actor actors]. apply Forall_upd; [exact HA|]. apply pend_shape_cache. eapply Forall_nth; eauto.
Qed.

Lemma held_set_cache x c : held (set_cache x c) = held x. Proof. reflexivity. Qed.
Lemma held_upd_pend x p : held (upd_pend x p) = held x. Proof. reflexivity. Qed.

Lemma pend_of_TA_cons s a i rest : pend_of s (TA a) = i :: rest -> exists x, get s a = Some x /\ a_pend x = i :: rest.
Proof. cbn [pend_of]. destruct (get s a) as [x|]; [eauto|discriminate]. Qed.
Lemma pend_of_TX_cons s j i rest : pend_of s (TX j) = i :: rest -> exists ex, nth_error (exts s) j = Some ex /\ x_pend ex = i :: rest.
Proof. cbn [pend_of]. destruct (nth_error (exts s) j) as [ex|]; [eauto|discriminate]. Qed.

Lemma set_pend_TX s j l ex : nth_error (exts s) j = Some ex -> set_pend s (TX j) l = set_ext s j {| x_pend := l; x_held := x_held ex |}.
Proof. intros H. cbn [set_pend]. rewrite H. reflexivity. Qed.

(** replacing the pending list of thread t *)
Lemma wf_set_pend_TA s a x l :
  wf s -> get s a = Some x -> (l = [] \/ (exists md, a_cons x = CBusy md) /\ shape l) -> wf (set_pend s (TA a) l).
Proof.
  intros [HA HX] Hg Hl. rewrite (set_pend_TA _ _ _ _ Hg). split; [|exact HX].
  cbn [set_actor actors]. apply Forall_upd; [exact HA|]. apply pend_shape_iff. exact Hl.
Qed.

Lemma wf_set_pend_TX s j l : wf s -> forallb ext_instr l = true -> wf (set_pend s (TX j) l).
Proof.
  intros [HA HX] Hl. cbn [set_pend]. destruct (nth_error (exts s) j) as [ex|]; [|split; auto].
  split; [exact HA|]. cbn [set_ext exts]. apply Forall_upd; [exact HX|]. exact Hl.
Qed.

Lemma wfX_of_map s s' : map x_pend (exts s') = map x_pend (exts s) ->
  Forall (fun ex => forallb ext_instr (x_pend ex) = true) (exts s) -> Forall (fun ex => forallb ext_instr (x_pend ex) = true) (exts s').
Proof.
  intros Hm H.
  assert (E : forall l, Forall (fun ex => forallb ext_instr (x_pend ex) = true) l <-> Forall (fun p => forallb ext_instr p = true) (map x_pend l)).
  { intros l. rewrite Forall_map. reflexivity. }
  apply E. rewrite Hm. apply E. exact H.
Qed.

Lemma is_new_shape n : is_new n -> pend_shape n /\ held n = [].
Proof. intros (p & g & par & sp & ->). split; [left|]; reflexivity. Qed.

(** one atomic instruction of thread t (already removed from the list) *)

Lemma pend_shape_eq x y : a_pend y = a_pend x -> a_cons y = a_cons x -> pend_shape x -> pend_shape y.
Proof. unfold pend_shape. intros -> ->. auto. Qed.

Lemma held_cons_eq x y : a_cons y = a_cons x -> held y = held x.
Proof. unfold held. intros ->. reflexivity. Qed.

Lemma ext_instr_not_cons_changing i : ext_instr i = true -> i <> IEndHandler /\ i <> IRestartFinish.
Proof. destruct i; try discriminate; split; discriminate. Qed.

Lemma run_atomic_enq f s t sys to sender m rest :
  pend_of s t = IEnq sys to sender m :: rest ->
  run_atomic (S f) s t = set_pend (snd (resolve s to)) t (IEnqR sys (fst (resolve s to)) sender m :: rest).
Proof. intros H. rewrite run_atomic_S, H. destruct (resolve s to). reflexivity. Qed.

(** one iteration of an actor's handler *)
Lemma iter_TA s a x i rest h :
  wf s -> get s a = Some x -> a_pend x = i :: rest ->
  let s0 := set_pend s (TA a) rest in
  let s1 := fst (exec1 s0 (TA a) h i) in
  let front := snd (exec1 s0 (TA a) h i) in
  let s2 := set_pend s1 (TA a) (front ++ pend_of s1 (TA a)) in
  wf s2 /\ keeps held [] s s2.
Proof.
  intros [HA HX] Hg Hp. cbv zeta.
  assert (Hl : a < length (actors s)) by (eapply nth_error_lt; exact Hg).
  pose proof (Forall_nth _ _ _ _ HA Hg) as Hsh. apply pend_shape_iff in Hsh.
  destruct Hsh as [Hsh|[[md Hc] Hsh]]; [congruence|]. rewrite Hp in Hsh.
  rewrite (set_pend_TA _ _ _ _ Hg).
  set (x0 := upd_pend x rest). set (s0 := set_actor s a x0).
  assert (Hg0 : get s0 a = Some x0) by (apply get_set_same; exact Hl).
  destruct (exec1_actors s0 (TA a) h i x0 Hg0) as (y & news & Hy & Hnews & Ha). cbn [self_of] in Ha.
  pose proof (exec1_front_no_end s0 (TA a) h i) as Hfr.
  pose proof (exec1_exts_pend s0 (TA a) h i) as Hex.
  pose proof (exec1_end_front s0 (TA a) h) as Hend.
  set (s1 := fst (exec1 s0 (TA a) h i)) in *. set (front := snd (exec1 s0 (TA a) h i)) in *.
  assert (Ha' : actors s1 = upd (actors s) a y ++ news).
  { rewrite Ha. unfold s0. cbn [set_actor actors]. rewrite upd_upd. reflexivity. }
  assert (Hg1 : get s1 a = Some y).
  { unfold get. rewrite Ha'. rewrite nth_error_app1 by (rewrite upd_length; exact Hl). apply nth_upd_eq. exact Hl. }
  rewrite (pend_of_TA _ _ _ Hg1), (lu_pend _ _ _ Hy). cbn [x0 upd_pend a_pend].
  rewrite (set_pend_TA _ _ _ _ Hg1).
  set (y2 := upd_pend y (front ++ rest)).
  assert (Ha2 : actors (set_actor s1 a y2) = upd (actors s) a y2 ++ news).
  { cbn [set_actor actors]. rewrite Ha'. rewrite upd_app_l by (rewrite upd_length; exact Hl). rewrite upd_upd. reflexivity. }
  assert (Hcons : a_cons y2 = CBusy md \/ a_cons y2 = C1 \/ a_cons y2 = CBusy 0%N).
  { cbn [y2 upd_pend a_cons]. destruct (lu_cons _ _ _ Hy) as [E|[[_ E]|[_ E]]]; [left; rewrite E; exact Hc|auto|auto]. }
  assert (Hnew : Forall (fun n => pend_shape n /\ held n = []) news).
  { rewrite Forall_forall in *. intros n Hn. apply is_new_shape. auto. }
  split; [split|].
  - rewrite Ha2. apply Forall_app. split.
    + apply Forall_upd; [exact HA|]. apply pend_shape_iff. cbn [y2 upd_pend a_pend a_cons].
      destruct (is_end i) eqn:Hie.
      * left. destruct i; try discriminate Hie. rewrite (shape_end _ _ Hsh eq_refl). unfold front. rewrite Hend. reflexivity.
      * right. split.
        -- destruct (lu_cons _ _ _ Hy) as [E|[[E _]|[_ E]]]; [exists md; rewrite E; exact Hc|subst i; discriminate Hie|eauto].
        -- apply shape_app; [exact Hfr|]. eapply shape_tail; eauto.
    + eapply Forall_impl; [|exact Hnew]. intros n Hn; apply Hn.
  - cbn [set_actor exts]. eapply wfX_of_map; [exact Hex|]. exact HX.
  - eapply keeps_upd_app; [exact Hg|exact Ha2| |].
    + assert (Hx : held x = []) by (unfold held; rewrite Hc; reflexivity).
      rewrite Hx. unfold held. destruct Hcons as [E|[E|E]]; rewrite E; reflexivity.
    + eapply Forall_impl; [|exact Hnew]. intros n Hn; apply Hn.
Qed.

(** one iteration of an external caller *)
Lemma iter_TX s j ex i rest h :
  wf s -> nth_error (exts s) j = Some ex -> x_pend ex = i :: rest ->
  let s0 := set_pend s (TX j) rest in
  let s1 := fst (exec1 s0 (TX j) h i) in
  let front := snd (exec1 s0 (TX j) h i) in
  let s2 := set_pend s1 (TX j) (front ++ pend_of s1 (TX j)) in
  wf s2 /\ keeps held [] s s2.
Proof.
  intros [HA HX] Hn Hp. cbv zeta.
  pose proof (Forall_nth _ _ _ _ HX Hn) as Hok. cbv beta in Hok. rewrite Hp in Hok. cbn [forallb] in Hok.
  apply andb_true_iff in Hok. destruct Hok as [Hi Hrest].
  assert (W0 : wf (set_pend s (TX j) rest)) by (apply wf_set_pend_TX; [split; auto|exact Hrest]).
  set (s0 := set_pend s (TX j) rest) in *.
  assert (Hact0 : actors s0 = actors s) by apply set_pend_TX_actors.
  pose proof (exec1_front_ext s0 (TX j) h i Hi) as Hfr.
  pose proof (exec1_exts_pend s0 (TX j) h i) as Hex.
  assert (W1 : wf (fst (exec1 s0 (TX j) h i)) /\ keeps held [] s0 (fst (exec1 s0 (TX j) h i))).
  { destruct (get s0 (self_of (TX j))) as [x0|] eqn:Hg0.
    - destruct (exec1_actors s0 (TX j) h i x0 Hg0) as (y & news & Hy & Hnews & Ha).
      destruct (ext_instr_not_cons_changing i Hi) as [N1 N2].
      assert (Hc : a_cons y = a_cons x0).
      { destruct (lu_cons _ _ _ Hy) as [E|[[E _]|[E _]]]; [exact E|congruence|congruence]. }
      assert (Hnew : Forall (fun n => pend_shape n /\ held n = []) news).
      { rewrite Forall_forall in *. intros n Hin. apply is_new_shape. auto. }
      split; [split|].
      + rewrite Ha. apply Forall_app. split.
        * apply Forall_upd; [apply W0|]. eapply pend_shape_eq; [exact (lu_pend _ _ _ Hy)|exact Hc|].
          eapply Forall_nth; [apply W0|exact Hg0].
        * eapply Forall_impl; [|exact Hnew]. intros n Hn'; apply Hn'.
      + eapply wfX_of_map; [exact Hex|apply W0].
      + eapply keeps_upd_app; [exact Hg0|exact Ha|apply held_cons_eq; exact Hc|].
        eapply Forall_impl; [|exact Hnew]. intros n Hn'; apply Hn'.
    - rewrite (exec1_none _ _ _ _ Hg0). cbn [fst]. split; [exact W0|apply keeps_same_actors; reflexivity]. }
  destruct W1 as [W1 K1]. set (s1 := fst (exec1 s0 (TX j) h i)) in *. set (front := snd (exec1 s0 (TX j) h i)) in *.
  assert (Hpo : forallb ext_instr (pend_of s1 (TX j)) = true).
  { cbn [pend_of]. destruct (nth_error (exts s1) j) as [ex1|] eqn:E; [|reflexivity]. destruct W1 as [_ WX]. exact (Forall_nth _ _ _ _ WX E). }
  split.
  - apply wf_set_pend_TX; [exact W1|]. rewrite forallb_app, Hfr, Hpo. reflexivity.
  - eapply keeps_trans; [apply keeps_same_actors; exact Hact0|]. eapply keeps_trans; [exact K1|].
    apply keeps_same_actors. apply set_pend_TX_actors.
Qed.

Lemma held_of_TA s a : held_of s (TA a) = []. Proof. reflexivity. Qed.

Lemma run_atomic_wf f s t : wf s -> wf (run_atomic f s t) /\ keeps held [] s (run_atomic f s t).
Proof.
  revert s. induction f as [|f IH]; intros s W; [split; [exact W|apply keeps_same_actors; reflexivity]|].
  destruct (pend_of s t) as [|i rest] eqn:Hp; [rewrite (run_atomic_nil _ _ _ Hp); split; [exact W|apply keeps_refl]|].
  destruct (yielding i) eqn:Hy; [rewrite (run_atomic_yield _ _ _ _ _ Hp Hy); split; [exact W|apply keeps_refl]|].
  destruct (is_enq i) eqn:He.
  - destruct i; try discriminate He. rewrite (run_atomic_enq _ _ _ _ _ _ _ _ Hp).
    pose proof (wf_resolve s to W) as W1.
    assert (K1 : keeps held [] s (snd (resolve s to))) by (apply keeps_resolve; intros; reflexivity).
    split; [|eapply keeps_trans; [exact K1|apply keeps_set_pend; intros; reflexivity]].
    destruct t as [a|j].
    + destruct (pend_of_TA_cons _ _ _ _ Hp) as (x & Hg & Hpx).
      destruct W as [HA HX]. pose proof (Forall_nth _ _ _ _ HA Hg) as Hsh. apply pend_shape_iff in Hsh.
      destruct Hsh as [Hsh|[[md Hc] Hsh]]; [congruence|]. rewrite Hpx in Hsh.
      assert (Hg1 : exists x1, get (snd (resolve s to)) a = Some x1 /\ a_cons x1 = a_cons x).
      { destruct (resolve_shape s to) as [H|[H|(a' & x' & y & _ & Hg' & _ & _ & H & _)]]; rewrite H; [eauto|eauto|].
        destruct (Nat.eq_dec a' a) as [->|Hne].
        - rewrite (get_set_same' _ _ _ _ Hg'). eexists. split; [reflexivity|]. rewrite Hg in Hg'. inversion Hg'. reflexivity.
        - rewrite get_set_other by exact Hne. eauto. }
      destruct Hg1 as (x1 & Hg1 & Hc1).
      eapply wf_set_pend_TA; [exact W1|exact Hg1|]. right. split; [exists md; congruence|].
      apply shape_cons; [reflexivity|]. eapply shape_tail; [exact Hsh|reflexivity].
    + destruct (pend_of_TX_cons _ _ _ _ Hp) as (ex & Hn & Hpx).
      destruct W as [HA HX]. pose proof (Forall_nth _ _ _ _ HX Hn) as Hok. cbv beta in Hok. rewrite Hpx in Hok.
      apply wf_set_pend_TX; [exact W1|]. exact Hok.
  - rewrite (run_atomic_exec _ _ _ _ _ Hp Hy He). cbv zeta.
    destruct t as [a|j].
    + destruct (pend_of_TA_cons _ _ _ _ Hp) as (x & Hg & Hpx).
      destruct (iter_TA s a x i rest (held_of (set_pend s (TA a) rest) (TA a)) W Hg Hpx) as [W2 K2]. cbv zeta in W2, K2.
      destruct (exec1 (set_pend s (TA a) rest) (TA a) (held_of (set_pend s (TA a) rest) (TA a)) i) as [s1 front]. cbn [fst snd] in *.
      destruct (IH _ W2) as [W3 K3]. split; [exact W3|eapply keeps_trans; eauto].
    + destruct (pend_of_TX_cons _ _ _ _ Hp) as (ex & Hn & Hpx).
      destruct (iter_TX s j ex i rest (held_of (set_pend s (TX j) rest) (TX j)) W Hn Hpx) as [W2 K2]. cbv zeta in W2, K2.
      destruct (exec1 (set_pend s (TX j) rest) (TX j) (held_of (set_pend s (TX j) rest) (TX j)) i) as [s1 front]. cbn [fst snd] in *.
      destruct (IH _ W2) as [W3 K3]. split; [exact W3|eapply keeps_trans; eauto].
Qed.

(** * [wf] and the held envelope across one event *)
(** a change of the actor table that leaves every pending list and consumer position alone *)
Definition same_pc (s s' : state) : Prop :=
  exts s' = exts s /\ length (actors s') = length (actors s) /\
  forall b x, get s b = Some x -> exists x', get s' b = Some x' /\ a_pend x' = a_pend x /\ a_cons x' = a_cons x.

Lemma same_pc_refl s : same_pc s s.
Proof. split; [reflexivity|split; [reflexivity|eauto]]. Qed.
Lemma same_pc_trans a b c : same_pc a b -> same_pc b c -> same_pc a c.
Proof.
  intros (E1 & L1 & H1) (E2 & L2 & H2). split; [congruence|split; [congruence|]].
  intros i x Hg. destruct (H1 i x Hg) as (x' & Hg' & P1 & C1). destruct (H2 i x' Hg') as (x'' & Hg'' & P2 & C2).
  exists x''. split; [exact Hg''|split; congruence].
Qed.

Lemma same_pc_set_actor s a x y : get s a = Some x -> a_pend y = a_pend x -> a_cons y = a_cons x -> same_pc s (set_actor s a y).
Proof.
  intros Hg Hp Hc. split; [reflexivity|split; [cbn; apply upd_length|]].
  intros b xb Hb. destruct (Nat.eq_dec a b) as [<-|Hne].
  - rewrite (get_set_same' _ _ _ _ Hg). exists y. rewrite Hg in Hb. inversion Hb; subst. auto.
  - rewrite get_set_other by exact Hne. eauto.
Qed.

Lemma same_pc_set_err s : same_pc s (set_err s).
Proof. split; [reflexivity|split; [reflexivity|eauto]]. Qed.

Lemma same_pc_with_actor s a f : (forall x, a_pend (f x) = a_pend x /\ a_cons (f x) = a_cons x) -> same_pc s (with_actor s a f).
Proof.
  intros H. unfold with_actor. destruct (get s a) as [x|] eqn:E; [|apply same_pc_set_err].
  eapply same_pc_set_actor; [exact E|apply H|apply H].
Qed.

Lemma same_pc_push_mb s a e : same_pc s (push_mb s a e).
Proof. unfold push_mb. apply same_pc_with_actor. intros x. split; reflexivity. Qed.

Lemma same_pc_resolve s r : same_pc s (snd (resolve s r)).
Proof.
  destruct (resolve_shape s r) as [H|[H|(a & x & y & _ & Hg & _ & _ & H & _)]]; rewrite H;
    [apply same_pc_refl|apply same_pc_set_err|]. eapply same_pc_set_actor; [exact Hg|reflexivity|reflexivity].
Qed.

Lemma Forall_pointwise {A} (P : A -> Prop) (l l' : list A) :
  length l' = length l -> (forall i x', nth_error l' i = Some x' -> exists x, nth_error l i = Some x /\ (P x -> P x')) ->
  Forall P l -> Forall P l'.
Proof.
  intros _ H HP. rewrite Forall_forall in *. intros x' Hin. apply In_nth_error in Hin. destruct Hin as [i Hi].
  destruct (H i x' Hi) as (x & Hx & Himp). apply Himp, HP. eapply nth_error_In; exact Hx.
Qed.

Lemma wf_same_pc s s' : same_pc s s' -> wf s -> wf s'.
Proof.
  intros (E & L & H) [HA HX]. split; [|rewrite E; exact HX].
  eapply Forall_pointwise; [exact L| |exact HA].
  intros i x' Hi. assert (Hlt : i < length (actors s)) by (rewrite <- L; eapply nth_error_lt; exact Hi).
  destruct (nth_error (actors s) i) as [x|] eqn:Ex; [|apply nth_error_None in Ex; lia].
  exists x. split; [reflexivity|]. destruct (H i x Ex) as (x'' & Hg & Hp & Hc).
  unfold get in Hg. rewrite Hi in Hg. inversion Hg; subst. apply pend_shape_eq; assumption.
Qed.

Lemma keeps_held_same_pc s s' : same_pc s s' -> keeps held [] s s'.
Proof.
  intros (_ & L & H) b. unfold proj_at. destruct (get s b) as [x|] eqn:E.
  - destruct (H b x E) as (x' & -> & _ & Hc). apply held_cons_eq. exact Hc.
  - destruct (get s' b) as [x'|] eqn:E'; [|reflexivity]. apply nth_error_lt in E'. apply nth_error_None in E. lia.
Qed.

(** the thread's own record after a [same_pc] change *)
Lemma same_pc_thread_TA s s' a x l :
  same_pc s s' -> wf s -> get s a = Some x -> a_pend x <> [] ->
  (l = [] \/ shape l) -> wf (set_pend s' (TA a) l).
Proof.
  intros Hs W Hg Hne Hl. pose proof (wf_same_pc _ _ Hs W) as W'.
  destruct Hs as (_ & _ & H). destruct (H a x Hg) as (x' & Hg' & Hp & Hc).
  destruct W as [HA _]. pose proof (Forall_nth _ _ _ _ HA Hg) as Hsh. apply pend_shape_iff in Hsh.
  destruct Hsh as [Hsh|[[md Hcb] _]]; [congruence|].
  eapply wf_set_pend_TA; [exact W'|exact Hg'|]. destruct Hl as [->|Hl]; [left; reflexivity|right]. split; [exists md; congruence|exact Hl].
Qed.

Lemma held_at_proj s b : held_at s b = proj_at held [] s b. Proof. reflexivity. Qed.

Lemma wf_run_after s t l f : wf (set_pend s t l) -> wf (run_atomic f (set_pend s t l) t) /\ keeps held [] (set_pend s t l) (run_atomic f (set_pend s t l) t).
Proof. apply run_atomic_wf. Qed.

Lemma pend_shape_idle x : pend_shape x -> (forall md, a_cons x <> CBusy md) -> a_pend x = [].
Proof. intros [H|(md & l & Hc & _)] Hn; [exact H|exfalso; exact (Hn md Hc)]. Qed.

Lemma wf_set_mb_idle s a x sq uq pa co cu :
  wf s -> get s a = Some x -> (forall md, a_cons x <> CBusy md) -> wf (set_actor s a (set_mb x sq uq pa co cu)).
Proof.
  intros [HA HX] Hg Hn. split; [|exact HX]. cbn [set_actor actors]. apply Forall_upd; [exact HA|].
  left. cbn. apply pend_shape_idle; [eapply Forall_nth; eauto|exact Hn].
Qed.

(** replacing the head of thread t's list after a mail-only change *)
Lemma push_finish s s2 t head rest pre :
  wf s -> same_pc s s2 -> pend_of s t = head :: rest -> is_end head = false -> no_end pre ->
  (ext_instr head = true -> forallb ext_instr pre = true) ->
  wf (set_pend s2 t (pre ++ rest)) /\ keeps held [] s (set_pend s2 t (pre ++ rest)).
Proof.
  intros W Hs Hp Hh Hpre Hext. split.
  - destruct t as [a|j].
    + destruct (pend_of_TA_cons _ _ _ _ Hp) as (x & Hg & Hpx).
      eapply same_pc_thread_TA; [exact Hs|exact W|exact Hg|congruence|].
      destruct W as [HA _]. pose proof (Forall_nth _ _ _ _ HA Hg) as Hsh. apply pend_shape_iff in Hsh.
      destruct Hsh as [Hsh|[_ Hsh]]; [congruence|]. rewrite Hpx in Hsh.
      right. apply shape_app; [exact Hpre|]. eapply shape_tail; eauto.
    + destruct (pend_of_TX_cons _ _ _ _ Hp) as (ex & Hn & Hpx).
      apply wf_set_pend_TX; [eapply wf_same_pc; eauto|].
      destruct W as [_ HX]. pose proof (Forall_nth _ _ _ _ HX Hn) as Hok. cbv beta in Hok. rewrite Hpx in Hok.
      cbn [forallb] in Hok. apply andb_true_iff in Hok. destruct Hok as [H1 H2]. rewrite forallb_app, (Hext H1), H2. reflexivity.
  - eapply keeps_trans; [apply keeps_held_same_pc; exact Hs|]. apply keeps_set_pend. intros; reflexivity.
Qed.

Lemma held_eq_of_keeps s s' ev b :
  keeps held [] s s' -> handled_at s ev b = [] -> popped_from s ev b true = [] -> popped_from s ev b false = [] ->
  held_at s' b ++ handled_at s ev b = held_at s b ++ popped_from s ev b true ++ popped_from s ev b false.
Proof. intros K -> -> ->. rewrite !app_nil_r. apply K. Qed.

Ltac wf_err := match goal with H : err (set_err _) = false |- _ => discriminate H end.

Lemma step_wf_held s ev :
  wf s -> err (step s ev) = false ->
  wf (step s ev) /\
  forall b, held_at (step s ev) b ++ handled_at s ev b = held_at s b ++ popped_from s ev b true ++ popped_from s ev b false.
Proof.
  intros W He. destruct ev.
  - (* EvSysPop *)
    cbn [step] in *. destruct (get s a) as [x|] eqn:Hg; [|wf_err].
    assert (Hidle : forall c sq', a_cons x = C0 \/ a_cons x = C1 ->
              wf (set_actor s a (set_mb x sq' (a_uq x) (a_paused x) c (a_cur x)))).
    { intros c sq' Hc. apply wf_set_mb_idle; [exact W|exact Hg|]. intros md E. destruct Hc; congruence. }
    destruct (a_cons x) eqn:Hc; try wf_err; destruct (a_sq x) eqn:Hs; (split; [apply Hidle; auto|]);
      intros b; unfold held_at, handled_at, popped_from; (destruct (Nat.eqb_spec a b) as [<-|Hne];
        [rewrite (get_set_same' _ _ _ _ Hg), Hg; unfold held; cbn [set_mb a_cons]; rewrite Hc, ?Hs; reflexivity
        |rewrite get_set_other by exact Hne; rewrite !app_nil_r; reflexivity]).
  - (* EvLoadPaused *)
    cbn [step] in *. destruct (get s a) as [x|] eqn:Hg; [|wf_err].
    destruct (a_cons x) eqn:Hc; try wf_err. split.
    + apply wf_set_mb_idle; [exact W|exact Hg|]. intros md E. congruence.
    + intros b; unfold held_at, handled_at, popped_from. rewrite !app_nil_r. destruct (Nat.eqb_spec a b) as [<-|Hne].
      * rewrite (get_set_same' _ _ _ _ Hg), Hg; unfold held; cbn [set_mb a_cons]; rewrite Hc. destruct (a_paused x); reflexivity.
      * rewrite get_set_other by exact Hne. reflexivity.
  - (* EvUserPop *)
    cbn [step] in *. destruct (get s a) as [x|] eqn:Hg; [|wf_err].
    assert (Hidle : forall c uq', a_cons x = C3 ->
              wf (set_actor s a (set_mb x (a_sq x) uq' (a_paused x) c (a_cur x)))).
    { intros c uq' Hc. apply wf_set_mb_idle; [exact W|exact Hg|]. intros md E. congruence. }
    destruct (a_cons x) eqn:Hc; try wf_err; destruct (a_uq x) eqn:Hs; (split; [apply Hidle; auto|]);
      intros b; unfold held_at, handled_at, popped_from; (destruct (Nat.eqb_spec a b) as [<-|Hne];
        [rewrite (get_set_same' _ _ _ _ Hg), Hg; unfold held; cbn [set_mb a_cons]; rewrite Hc, ?Hs; reflexivity
        |rewrite get_set_other by exact Hne; rewrite !app_nil_r; reflexivity]).
  - (* EvHandle *)
    cbn [step] in *. destruct (get s a) as [x|] eqn:Hg; [|wf_err].
    destruct (a_cons x) eqn:Hc; try wf_err.
    assert (Hl : a < length (actors s)) by (eapply nth_error_lt; exact Hg).
    assert (Hpx : a_pend x = []).
    { destruct W as [HA _]. apply pend_shape_idle; [eapply Forall_nth; eauto|]. intros md E; congruence. }
    cbv zeta in *.
    match goal with |- context[dispatch ?s00 a ?x00 e] => set (s0 := s00) in *; set (x0 := x00) in * end.
    assert (Hg0 : get s0 a = Some x0) by (apply get_set_same; exact Hl).
    destruct (dispatch_effect s0 a x0 e Hg0) as (y & Hy & Ha & _ & _ & Hex & _).
    pose proof (dispatch_shape s0 a x0 e) as Hsh.
    destruct (dispatch s0 a x0 e) as [s1 ins]. cbn [fst snd] in *.
    assert (Ha' : actors s1 = upd (actors s) a y) by (rewrite Ha; unfold s0; cbn [set_actor actors]; apply upd_upd).
    assert (Hg1 : get s1 a = Some y) by (unfold get; rewrite Ha'; apply nth_upd_eq; exact Hl).
    assert (W1 : wf s1).
    { destruct W as [HA HX]. split; [|rewrite Hex; exact HX]. rewrite Ha'. apply Forall_upd; [exact HA|].
      left. rewrite (df_pend _ _ Hy). exact Hpx. }
    assert (W2 : wf (set_pend s1 (TA a) ins)).
    { eapply wf_set_pend_TA; [exact W1|exact Hg1|]. right. split; [|exact Hsh].
      exists (mode_top x). rewrite (df_cons _ _ Hy). reflexivity. }
    destruct (run_atomic_wf FUEL _ (TA a) W2) as [W3 K3]. split; [exact W3|].
    intros b. rewrite held_at_proj, K3. unfold proj_at. rewrite (set_pend_TA _ _ _ _ Hg1).
    unfold held_at, handled_at, handle_of, popped_from. rewrite !app_nil_r.
    destruct (Nat.eqb_spec a b) as [<-|Hne].
    + rewrite (get_set_same' _ _ _ _ Hg1), Hg, Hc. unfold held. cbn [upd_pend a_cons]. rewrite (df_cons _ _ Hy), Hc. reflexivity.
    + rewrite get_set_other by exact Hne. unfold get. rewrite Ha'. rewrite nth_upd_neq by exact Hne. rewrite app_nil_r. reflexivity.
  - (* EvPush *)
    assert (Hnil : forall b, handled_at s (EvPush t choice) b = [] /\ popped_from s (EvPush t choice) b true = [] /\
                             popped_from s (EvPush t choice) b false = []) by (intros; repeat split; reflexivity).
    enough (H : wf (step s (EvPush t choice)) /\ keeps held [] s (step s (EvPush t choice))).
    { destruct H as [H1 H2]. split; [exact H1|]. intros b. destruct (Hnil b) as (E1 & E2 & E3). apply held_eq_of_keeps; auto. }
    cbn [step] in *. destruct (pend_of s t) as [|i rest] eqn:Hp; [wf_err|]. destruct i; try wf_err.
    + rewrite deliver_eq. apply (push_finish s _ t _ rest [] W (same_pc_push_mb s _ _) Hp); auto; try reflexivity.
    + apply (push_finish s _ t _ rest [] W (same_pc_push_mb s _ _) Hp); auto; try reflexivity.
    + destruct (nth_error tos choice) as [r|]; [|wf_err].
      pose proof (same_pc_resolve s r) as Hr. destruct (resolve s r) as [mb s1]. cbn [snd] in Hr. rewrite deliver_eq.
      match goal with |- context[set_pend ?s2 t (IEnqDone :: ?tl)] =>
        assert (Hs2 : same_pc s s2) by (eapply same_pc_trans; [exact Hr|apply same_pc_push_mb]) end.
      destruct (firstn choice tos ++ skipn (S choice) tos) as [|r0 tl0].
      * apply (push_finish s _ t _ rest [IEnqDone] W Hs2 Hp); auto; try reflexivity.
      * apply (push_finish s _ t _ rest [IEnqDone; IEnqAny sys (r0 :: tl0) sender m] W Hs2 Hp); auto; try reflexivity.
    + destruct (nth_error remaining choice) as [r|]; [|wf_err].
      pose proof (same_pc_resolve s r) as Hr. destruct (resolve s r) as [mb s1]. cbn [snd] in Hr. rewrite deliver_eq.
      match goal with |- context[set_pend ?s2 t (IEnqDone :: ?i2 :: rest)] =>
        assert (Hs2 : same_pc s s2) by (eapply same_pc_trans; [exact Hr|apply same_pc_push_mb]);
        apply (push_finish s _ t _ rest [IEnqDone; i2] W Hs2 Hp); auto; try reflexivity; try discriminate
      end.
  - (* EvEnqDone *)
    enough (H : wf (step s (EvEnqDone t)) /\ keeps held [] s (step s (EvEnqDone t))).
    { destruct H as [H1 H2]. split; [exact H1|]. intros b. apply held_eq_of_keeps; auto. }
    cbn [step] in *. destruct (pend_of s t) as [|i rest] eqn:Hp; [wf_err|]. destruct i; try wf_err.
    destruct (push_finish s s t _ rest [] W (same_pc_refl s) Hp eq_refl eq_refl (fun _ => eq_refl)) as [W1 K1]. cbn [app] in *.
    destruct (run_atomic_wf FUEL _ t W1) as [W2 K2]. split; [exact W2|eapply keeps_trans; eauto].
  - (* EvPauseSt *)
    enough (H : wf (step s (EvPauseSt t)) /\ keeps held [] s (step s (EvPauseSt t))).
    { destruct H as [H1 H2]. split; [exact H1|]. intros b. apply held_eq_of_keeps; auto. }
    cbn [step] in *. destruct (pend_of s t) as [|i rest] eqn:Hp; [wf_err|]. destruct i; try wf_err.
    match goal with |- context[set_pend ?s1 t rest] =>
      assert (Hs1 : same_pc s s1) by (apply same_pc_with_actor; intros; split; reflexivity);
      destruct (push_finish s s1 t _ rest [] W Hs1 Hp eq_refl eq_refl (fun _ => eq_refl)) as [W1 K1] end. cbn [app] in *.
    destruct (run_atomic_wf FUEL _ t W1) as [W2 K2]. split; [exact W2|eapply keeps_trans; eauto].
  - (* EvResume1 *)
    enough (H : wf (step s (EvResume1 t)) /\ keeps held [] s (step s (EvResume1 t))).
    { destruct H as [H1 H2]. split; [exact H1|]. intros b. apply held_eq_of_keeps; auto. }
    cbn [step] in *. destruct (pend_of s t) as [|i rest] eqn:Hp; [wf_err|]. destruct i; try wf_err.
    destruct (get s (self_of t)) as [x|] eqn:Hg; [|wf_err]. destruct (a_paused x).
    + match goal with |- context[set_pend ?s1 t (IResume2 :: rest)] =>
        assert (Hs1 : same_pc s s1) by (eapply same_pc_set_actor; [exact Hg|reflexivity|reflexivity]);
        apply (push_finish s s1 t _ rest [IResume2] W Hs1 Hp); auto; try reflexivity; try discriminate end.
    + destruct (push_finish s s t _ rest [] W (same_pc_refl s) Hp eq_refl eq_refl (fun _ => eq_refl)) as [W1 K1]. cbn [app] in *.
      destruct (run_atomic_wf FUEL _ t W1) as [W2 K2]. split; [exact W2|eapply keeps_trans; eauto].
  - (* EvResume2 *)
    enough (H : wf (step s (EvResume2 t)) /\ keeps held [] s (step s (EvResume2 t))).
    { destruct H as [H1 H2]. split; [exact H1|]. intros b. apply held_eq_of_keeps; auto. }
    cbn [step] in *. destruct (pend_of s t) as [|i rest] eqn:Hp; [wf_err|]. destruct i; try wf_err.
    destruct (push_finish s s t _ rest [] W (same_pc_refl s) Hp eq_refl eq_refl (fun _ => eq_refl)) as [W1 K1]. cbn [app] in *.
    destruct (run_atomic_wf FUEL _ t W1) as [W2 K2]. split; [exact W2|eapply keeps_trans; eauto].
  - (* EvStart *)
    destruct (run_atomic_wf FUEL s (TX i) W) as [W2 K2]. split; [exact W2|]. intros b. apply held_eq_of_keeps; auto.
Qed.
