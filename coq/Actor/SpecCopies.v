(** Derived notions for C03 between the API call and the queue insertion, over whole histories of the ActorCore
    model: every copy of a user message that a thread ISSUES - by Tell / TellSelf, or by an Unstash that takes it out of
    the thread's own stash - against the insertions that thread performs and what is still pending in its instruction
    list.  Definitions only; proofs in Actor/ProofsCopies.v.

    Together with [C03_conservation] (insertion -> handled exactly once or still queued), the four outcomes of a
    handler call on a user message, and [C03_stash_history] (parked -> taken out again in order, or still parked) this
    closes the chain: no copy is lost or duplicated between any two of these places. *)
From Coq Require Import List NArith ZArith Bool.
From Vivid Require Import Actor.Core Actor.CoreRun Actor.SpecMail Actor.SpecStash.
Import ListNotations.

(** a class of USER messages (e.g. [user_tag 7]) *)
Definition user_class (P : msg -> bool) : Prop := forall m, P m = true -> is_user m = true.

Definition tid_eqb (t u : tid) : bool :=
  match t, u with TA a, TA b => Nat.eqb a b | TX i, TX j => Nat.eqb i j | _, _ => false end.

(** insertions of class P still pending in an instruction list (a fan-out counts once per remaining target) *)
Definition pend1 (P : msg -> bool) (i : instr) : nat :=
  match i with
  | IEnq _ _ _ m | IEnqR _ _ _ m => b2n (P m)
  | IEnqMb _ e => b2n (P (e_msg e))
  | IEnqAny _ tos _ m => length tos * b2n (P m)
  | ISupPause _ _ rem _ => length rem * b2n (P MCmdPause)
  | _ => 0
  end.
Fixpoint pend_list (P : msg -> bool) (l : list instr) : nat :=
  match l with [] => 0 | i :: r => pend1 P i + pend_list P r end.

(** copies of class P that instruction [i] of thread [t] issues when executed in state [s]: a Tell / TellSelf of a
    P-message, or an Unstash (the P-envelopes among those it takes out of the own stash) *)
Definition issued1 (P : msg -> bool) (s : state) (t : tid) (i : instr) : nat :=
  match get s (self_of t) with
  | None => 0
  | Some x =>
      match i with
      | IAct (ATell _ tag acts) | IAct (ATellSelf tag acts) => b2n (P (MUser tag acts))
      | IAct (AUnstash n) => cnt_env P (firstn (unstash_k n (length (a_stash x))) (a_stash x))
      | _ => 0
      end
  end.
(** the sends alone *)
Definition sent1 (P : msg -> bool) (s : state) (t : tid) (i : instr) : nat :=
  match get s (self_of t) with
  | None => 0
  | Some _ =>
      match i with
      | IAct (ATell _ tag acts) | IAct (ATellSelf tag acts) => b2n (P (MUser tag acts))
      | _ => 0
      end
  end.
(** the P-envelopes an Unstash takes out of the own stash *)
Definition untaken1 (P : msg -> bool) (s : state) (t : tid) (i : instr) : nat :=
  match get s (self_of t) with
  | None => 0
  | Some x =>
      match i with
      | IAct (AUnstash n) => cnt_env P (firstn (unstash_k n (length (a_stash x))) (a_stash x))
      | _ => 0
      end
  end.

(** summing a per-instruction quantity over one atomic phase: the recursion of [run_atomic] *)
Fixpoint atomic_sum (f : state -> tid -> instr -> nat) (fuel : nat) (s : state) (t : tid) : nat :=
  match fuel with
  | O => 0
  | S n =>
      match pend_of s t with
      | [] => 0
      | IEnq _ _ _ _ :: _ => 0
      | i :: rest =>
          if yielding i then 0
          else
            let s0 := set_pend s t rest in
            let (s1, front) := exec1 s0 t (held_of s0 t) i in
            f s0 t i + atomic_sum f n (set_pend s1 t (front ++ pend_of s1 t)) t
      end
  end.

(** ... over the atomic phase of one event (only if it is thread [t]'s), and over a run *)
Definition step_sum (f : state -> tid -> instr -> nat) (s : state) (ev : event) (t : tid) : nat :=
  match pre_atomic s ev with
  | Some (s', t') => if tid_eqb t' t then atomic_sum f FUEL s' t else 0
  | None => 0
  end.
Fixpoint run_sum (f : state -> tid -> instr -> nat) (evs : list event) (s : state) (t : tid) : nat :=
  match evs with [] => 0 | ev :: r => step_sum f s ev t + run_sum f r (step s ev) t end.

Definition issued (P : msg -> bool) := run_sum (issued1 P).
Definition sent (P : msg -> bool) := run_sum (sent1 P).
Definition untaken (P : msg -> bool) := run_sum (untaken1 P).

(** what the queue insertion [EvPush t c] of thread [t] inserts as a P-envelope (0 or 1), and whether it instead turns a
    P-message addressed to an unknown local target into its dead-letter report (0 or 1) *)
Definition pushed1 (P : msg -> bool) (s : state) (ev : event) (t : tid) : nat :=
  match ev with EvPush t' _ => if tid_eqb t' t then pushes1 P s ev else 0 | _ => 0 end.
Definition dead_at_push1 (P : msg -> bool) (s : state) (ev : event) (t : tid) : nat :=
  match ev with
  | EvPush t' c =>
      if tid_eqb t' t then
        match pend_of s t with
        | IEnqR _ MbDead _ m :: _ => b2n (P m)
        | IEnqAny _ tos _ m :: _ =>
            match nth_error tos c with
            | Some to => match fst (resolve s to) with MbDead => b2n (P m) | _ => 0 end
            | None => 0
            end
        | ISupPause _ _ rem _ :: _ =>
            match nth_error rem c with
            | Some to => match fst (resolve s to) with MbDead => b2n (P MCmdPause) | _ => 0 end
            | None => 0
            end
        | _ => 0
        end
      else 0
  | _ => 0
  end.
Fixpoint pushed (P : msg -> bool) (evs : list event) (s : state) (t : tid) : nat :=
  match evs with [] => 0 | ev :: r => pushed1 P s ev t + pushed P r (step s ev) t end.
Fixpoint dead_at_push (P : msg -> bool) (evs : list event) (s : state) (t : tid) : nat :=
  match evs with [] => 0 | ev :: r => dead_at_push1 P s ev t + dead_at_push P r (step s ev) t end.
