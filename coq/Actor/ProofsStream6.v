(** C19, history level: the exception in [entries_live] is real.  A Subscribe issued through a context whose cleanup
    has already run leaves an entry that nothing removes.  In ActorCore user code runs only inside its own context's
    handlers, so this is only expressible for the guard: external API callers act as the guard (context 0), also after
    the system has stopped.  Witness: caller 0 stops the system (kills the guard), caller 1 then subscribes. *)
From Coq Require Import List NArith ZArith Bool.
From Vivid Require Import Actor.Core Actor.CoreRun Actor.SpecSup Actor.SpecMail Actor.SpecStream.
Import ListNotations.
Local Open Scope N_scope.

Definition guard_wit_scs : list (list action) := [[AKill XSelf false]; [ASub 100]].
Definition guard_wit_evs : list event :=
  [EvStart 0; EvPush (TX 0) 0; EvEnqDone (TX 0); EvSysPop 0; EvHandle 0; EvResume1 (TA 0); EvSysPop 0; EvLoadPaused 0; EvUserPop 0; EvStart 1].

Lemma guard_entry_after_stop :
  exists s, reachable s /\
    exists ty m p x, In (ty, m) (subs s) /\ In (p, 0%nat) m /\ get s 0 = Some x /\
                     a_state x = Killed /\ a_zombie x = false /\ a_pend x = [] /\ In OGuardClosed (ghost s).
Proof.
  exists (run_events guard_wit_evs (init_with guard_wit_scs)).
  split; [exists guard_wit_scs, guard_wit_evs; split; [reflexivity|vm_compute; reflexivity]|].
  eexists 100, _, [], _. vm_compute. repeat split; try (left; reflexivity).
Qed.
