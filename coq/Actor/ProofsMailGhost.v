(** The ghost log along a run: apart from the guard's own [OGuardClosed] marks it consists exactly of what the
    handler calls record - one [ODeadLetter] per dead-letter report handled by the running guard, one [ODropped]
    per envelope handled by the stopped guard. *)
From Coq Require Import List NArith ZArith Bool Lia Arith.
From Vivid Require Import Actor.Core Actor.CoreRun Actor.SpecMail Actor.ProofsMailBase Actor.ProofsMail Actor.ProofsMailInv.
Import ListNotations.

Definition closes (l : list obs) : Prop := filter not_guard_closed l = [].

Definition ghost_rel (s s' : state) : Prop := exists l, ghost s' = ghost s ++ l /\ closes l.
Lemma ghost_rel_refl s : ghost_rel s s.
Proof. exists []. rewrite app_nil_r. split; reflexivity. Qed.
Lemma ghost_rel_trans a b c : ghost_rel a b -> ghost_rel b c -> ghost_rel a c.
Proof.
  intros (l1 & H1 & C1) (l2 & H2 & C2). exists (l1 ++ l2). rewrite H2, H1, app_assoc. split; [reflexivity|].
  unfold closes in *. rewrite filter_app, C1, C2. reflexivity.
Qed.
Lemma ghost_rel_eq s s' : ghost s' = ghost s -> ghost_rel s s'.
Proof. intros H. exists []. rewrite app_nil_r. split; [exact H|reflexivity]. Qed.

Lemma ghost_rel_run_atomic f s t : ghost_rel s (run_atomic f s t).
Proof.
  apply run_atomic_rel.
  - apply ghost_rel_refl.
  - apply ghost_rel_trans.
  - intros; apply ghost_rel_eq; reflexivity.
  - intros; apply ghost_rel_eq, set_pend_ghost.
  - intros; apply ghost_rel_eq, resolve_ghost.
  - intros s0 h i. destruct (exec1_state s0 t h i) as (_ & [H|[H _]] & _); [apply ghost_rel_eq; exact H|].
    exists [OGuardClosed]. split; [exact H|reflexivity].
Qed.

Lemma dispatch_ghost_spec s a x e : ghost (fst (dispatch s a x e)) = ghost s ++ dispatch_ghost x e.
Proof.
  unfold dispatch, dispatch_ghost. rewrite is_dead_dispatch.
  destruct (is_dead x e && negb (a_zombie x)).
  - destruct (a_parent x); cbn; rewrite ?app_nil_r; reflexivity.
  - repeat match goal with
           | |- context[if ?c then _ else _] => destruct c
           | |- context[match ?c with _ => _ end] => destruct c
           end; cbn; rewrite ?app_nil_r; reflexivity.
Qed.

Lemma ghost_step s ev : exists l, ghost (step s ev) = ghost s ++ event_ghost s ev ++ l /\ closes l.
Proof.
  assert (Hrel : event_ghost s ev = [] -> ghost_rel s (step s ev) -> exists l, ghost (step s ev) = ghost s ++ event_ghost s ev ++ l /\ closes l).
  { intros -> (l & H & C). exists l. auto. }
  destruct ev; cbn [step].
  - apply Hrel; [reflexivity|]. cbn [step]. destruct (get s a) as [x|]; [|apply ghost_rel_eq; reflexivity].
    destruct (a_cons x), (a_sq x); apply ghost_rel_eq; reflexivity.
  - apply Hrel; [reflexivity|]. cbn [step]. destruct (get s a) as [x|]; [|apply ghost_rel_eq; reflexivity].
    destruct (a_cons x); apply ghost_rel_eq; reflexivity.
  - apply Hrel; [reflexivity|]. cbn [step]. destruct (get s a) as [x|]; [|apply ghost_rel_eq; reflexivity].
    destruct (a_cons x), (a_uq x); apply ghost_rel_eq; reflexivity.
  - cbn [event_ghost]. destruct (get s a) as [x|] eqn:Hg; [|exists []; rewrite !app_nil_r; split; reflexivity].
    destruct (a_cons x) eqn:Hc; try (exists []; rewrite !app_nil_r; split; reflexivity).
    match goal with |- context[dispatch ?s0 a ?x0 e] =>
      pose proof (dispatch_ghost_spec s0 a x0 e) as Hd; destruct (dispatch s0 a x0 e) as [s1 ins] end.
    cbn [fst] in Hd.
    destruct (ghost_rel_run_atomic FUEL (set_pend s1 (TA a) ins) (TA a)) as (l & Hl & Cl).
    exists l. split; [|exact Cl]. rewrite Hl, set_pend_ghost, Hd. cbn [set_actor ghost].
    rewrite <- app_assoc. reflexivity.
  - apply Hrel; [reflexivity|]. cbn [step]. destruct (pend_of s t) as [|i rest]; [apply ghost_rel_eq; reflexivity|].
    destruct i; try (apply ghost_rel_eq; reflexivity).
    + rewrite deliver_eq. apply ghost_rel_eq. rewrite set_pend_ghost. apply push_mb_fields.
    + apply ghost_rel_eq. rewrite set_pend_ghost. apply push_mb_fields.
    + destruct (nth_error tos choice) as [r|]; [|apply ghost_rel_eq; reflexivity].
      pose proof (resolve_ghost s r) as Hr. destruct (resolve s r) as [mb s1]. cbn [snd] in Hr. rewrite deliver_eq.
      apply ghost_rel_eq. rewrite set_pend_ghost. destruct (push_mb_fields s1 (fst (landing mb {| e_sys := sys; e_sender := sender; e_msg := m |})) (snd (landing mb {| e_sys := sys; e_sender := sender; e_msg := m |}))) as (_ & -> & _). exact Hr.
    + destruct (nth_error remaining choice) as [r|]; [|apply ghost_rel_eq; reflexivity].
      pose proof (resolve_ghost s r) as Hr. destruct (resolve s r) as [mb s1]. cbn [snd] in Hr. rewrite deliver_eq.
      apply ghost_rel_eq. rewrite set_pend_ghost.
      match goal with |- ghost (push_mb ?s2 ?a2 ?e2) = _ => destruct (push_mb_fields s2 a2 e2) as (_ & -> & _) end. exact Hr.
  - apply Hrel; [reflexivity|]. cbn [step]. destruct (pend_of s t) as [|i rest]; [apply ghost_rel_eq; reflexivity|].
    destruct i; try (apply ghost_rel_eq; reflexivity).
    eapply ghost_rel_trans; [apply ghost_rel_eq, set_pend_ghost|apply ghost_rel_run_atomic].
  - apply Hrel; [reflexivity|]. cbn [step]. destruct (pend_of s t) as [|i rest]; [apply ghost_rel_eq; reflexivity|].
    destruct i; try (apply ghost_rel_eq; reflexivity).
    eapply ghost_rel_trans; [|apply ghost_rel_run_atomic]. apply ghost_rel_eq. rewrite set_pend_ghost. apply with_actor_fields.
  - apply Hrel; [reflexivity|]. cbn [step]. destruct (pend_of s t) as [|i rest]; [apply ghost_rel_eq; reflexivity|].
    destruct i; try (apply ghost_rel_eq; reflexivity).
    destruct (get s (self_of t)) as [x|]; [|apply ghost_rel_eq; reflexivity]. destruct (a_paused x).
    + apply ghost_rel_eq. rewrite set_pend_ghost. reflexivity.
    + eapply ghost_rel_trans; [apply ghost_rel_eq, set_pend_ghost|apply ghost_rel_run_atomic].
  - apply Hrel; [reflexivity|]. cbn [step]. destruct (pend_of s t) as [|i rest]; [apply ghost_rel_eq; reflexivity|].
    destruct i; try (apply ghost_rel_eq; reflexivity).
    eapply ghost_rel_trans; [apply ghost_rel_eq, set_pend_ghost|apply ghost_rel_run_atomic].
  - apply Hrel; [reflexivity|]. apply ghost_rel_run_atomic.
Qed.

Lemma filter_closes l : closes l -> filter not_guard_closed l = []. Proof. auto. Qed.

(** the ghost log of a run, without the guard-closed marks, is the concatenation of what the handler calls recorded *)
Theorem ghost_run evs : forall s,
  filter not_guard_closed (ghost (run_events evs s)) =
  filter not_guard_closed (ghost s) ++ filter not_guard_closed (run_ghost evs s).
Proof.
  induction evs as [|ev r IH]; intros s; [cbn; rewrite app_nil_r; reflexivity|].
  change (run_events (ev :: r) s) with (run_events r (step s ev)). cbn [run_ghost].
  rewrite IH. destruct (ghost_step s ev) as (l & Hl & Cl). rewrite Hl, !filter_app, Cl, app_nil_r, <- app_assoc. reflexivity.
Qed.

Lemma ghost_init scs : ghost (init_with scs) = [].
Proof.
  unfold init_with.
  assert (H : forall scs s i, ghost (set_exts s i scs) = ghost s).
  { clear. induction scs as [|sc r IH]; intros s i; cbn [set_exts]; [reflexivity|]. rewrite IH. apply set_pend_ghost. }
  rewrite H. reflexivity.
Qed.

Theorem ghost_run_init scs evs :
  filter not_guard_closed (ghost (run_events evs (init_with scs))) = filter not_guard_closed (run_ghost evs (init_with scs)).
Proof. rewrite ghost_run, ghost_init. reflexivity. Qed.

(** HandleEnvelop itself never touches a stash *)
Lemma dispatch_stash_frame s a x e : get s a = Some x -> keeps a_stash [] s (fst (dispatch s a x e)).
Proof.
  intros Hg. destruct (dispatch_effect s a x e Hg) as (y & Hy & Ha & _).
  eapply keeps_upd; [exact Hg|exact Ha|exact (df_stash _ _ Hy)].
Qed.
