(** C09-d: in every reachable state, a paused actor that is (or will again be) running has a "cover" in flight - a
    resume / restart / kill directive for it or for an ancestor, or a supervision report / decision concerning it -
    positioned after its last pause.  Hence in a quiescent state no running, non-zombie actor is paused. *)
From Coq Require Import List NArith ZArith Bool Lia Arith.
From Vivid Require Import Actor.Core Actor.CoreRun Actor.SpecMail Actor.ProofsMailBase Actor.ProofsMail Actor.ProofsMailInv
  Actor.ProofsMailWf Actor.ProofsMailAcct Actor.ProofsMailReg Actor.ProofsMailMicro Actor.ProofsMailLife Actor.ProofsMailStep
  Actor.ProofsMailTree Actor.ProofsMailMK Actor.ProofsMailKids Actor.ProofsMailCtx Actor.ProofsMailMicro2 Actor.ProofsMailCache
  Actor.ProofsMailHyg Actor.ProofsMailView.
Import ListNotations.

(** * a pending IRestartFinish belongs to a restart in progress *)
Definition irf_ok (x : actor) : Prop := In IRestartFinish (lf (a_pend x)) -> a_restarting x <> None.
Definition IRF (s : state) : Prop := forall a x, get s a = Some x -> irf_ok x.

Lemma IRF_mstep s m : wf s -> LI s -> IRF s -> IRF (mstep s m).
Proof.
  intros W HLI HI b x' Hg'.
  destruct (get s b) as [x|] eqn:Hg.
  2:{ destruct (mstep_new s m b x' Hg Hg') as (p & g & par & sp & ->). intros []. }
  assert (Hsoft : forall y, soft x y -> irf_ok y).
  { intros y (_ & _ & _ & Hp & _ & _ & Hr & _). unfold irf_ok. rewrite Hp, Hr. apply (HI _ _ Hg). }
  destruct (mstep_cases s m) as [Hq|[(t & i & rest & pre & s1 & Hp & Hpl & Hf & Hu & Hq & _ & E)|[(a & xa & e & -> & Hga & Hc)|(t & i & rest & -> & Hp & Hyl & Hq & E)]]].
  - destruct Hq as (_ & _ & _ & Hs & _). destruct (softT_get _ _ _ _ Hs Hg) as (y & Hy & Hsy). assert (y = x') by congruence; subst. auto.
  - rewrite E in Hg'. destruct Hq as (_ & _ & _ & Hs & _). destruct (softT_get _ _ _ _ Hs Hg) as (y & Hy & Hsy).
    destruct t as [a|j].
    + destruct (Nat.eq_dec a b) as [->|Hne].
      * rewrite (set_pend_TA _ _ _ _ Hy), (get_set_same' _ _ _ _ Hy) in Hg'. inversion Hg'; subst x'.
        destruct (pend_of_TA_cons _ _ _ _ Hp) as (x0 & Hg0 & Hpx). assert (x0 = x) by congruence; subst x0.
        unfold irf_ok. cbn [upd_pend a_pend a_restarting]. rewrite lf_app, Hf. cbn [app]. intros Hin.
        destruct Hsy as (_ & _ & _ & _ & _ & _ & Hr & _). rewrite Hr. apply (HI _ _ Hg). rewrite Hpx.
        apply andb_true_iff in Hpl. destruct Hpl as [Hl _]. apply negb_true_iff in Hl. rewrite (lf_cons_plain _ _ Hl). exact Hin.
      * assert (E2 : get (set_pend s1 (TA a) (pre ++ rest)) b = get s1 b).
        { cbn [set_pend]. unfold with_actor. destruct (get s1 a); [apply get_set_other; exact Hne|reflexivity]. }
        rewrite E2 in Hg'. assert (y = x') by congruence; subst. auto.
    + assert (E2 : get (set_pend s1 (TX j) (pre ++ rest)) b = get s1 b) by (unfold get; rewrite set_pend_TX_actors; reflexivity).
      rewrite E2 in Hg'. assert (y = x') by congruence; subst. auto.
  - cbn [mstep] in Hg'. rewrite Hga, Hc in Hg'.
    assert (Hl : a < length (actors s)) by (eapply nth_error_lt; exact Hga).
    set (s0 := set_actor s a (busy xa)) in *.
    assert (Hg0 : get s0 a = Some (busy xa)) by (apply get_set_same; exact Hl).
    pose proof (HLI _ _ Hga) as (L1 & _).
    destruct (dispatch_life s0 a (busy xa) e Hg0 L1) as (y & Hy & _ & _ & _ & _ & _ & Hlf).
    destruct (dispatch_effect s0 a (busy xa) e Hg0) as (y2 & _ & Ha & _).
    destruct (dispatch s0 a (busy xa) e) as [s1 ins]. cbn [fst snd] in *.
    rewrite (set_pend_TA _ _ _ _ Hy) in Hg'. destruct (Nat.eq_dec a b) as [->|Hne].
    + rewrite (get_set_same' _ _ _ _ Hy) in Hg'. inversion Hg'; subst x'. unfold irf_ok. cbn [upd_pend a_pend]. intros Hin.
      destruct Hlf as [E|[[p E]|[w E]]]; rewrite E in Hin; cbn in Hin; intuition discriminate.
    + rewrite get_set_other in Hg' by exact Hne. unfold get in Hg'. rewrite Ha in Hg'. unfold s0 in Hg'. cbn [set_actor actors] in Hg'.
      rewrite upd_upd, nth_upd_neq in Hg' by exact Hne. assert (x' = x) by (unfold get in Hg; congruence). subst. apply (HI _ _ Hg).
  - rewrite E in Hg'. destruct (Nat.eq_dec b (self_of t)) as [->|Hne].
    + destruct t as [a|j]; cbn [self_of] in *.
      * destruct (pend_of_TA_cons _ _ _ _ Hp) as (x0 & Hg0 & Hpx). assert (x0 = x) by congruence; subst x0.
        pose proof (HLI _ _ Hg) as Hlinv. pose proof (HI _ _ Hg) as Hirf. unfold irf_ok in Hirf. rewrite Hpx in Hirf.
        destruct (life_plain_cases i) as [Hpl|[Hli| ->]].
        -- destruct (astep_table s (TA a) i rest x Hg Hp) as (Hgs0 & y & news & Hy & _ & _ & Ha & _). cbv zeta in *. cbn [self_of] in *.
           unfold get in Hg'. rewrite Ha in Hg'. rewrite nth_error_app1 in Hg' by (rewrite upd_length; eapply nth_error_lt; exact Hg).
           rewrite nth_upd_eq in Hg' by (eapply nth_error_lt; exact Hg). inversion Hg'; subst x'.
           unfold irf_ok. cbn [pushed upd_pend a_pend a_restarting].
           match goal with |- context[exec1 ?s0 ?t0 ?h0 i] => destruct (exec1_front_plain s0 t0 h0 i Hpl) as [Hf _] end.
           rewrite lf_app, Hf. cbn [app]. intros Hin.
           assert (Hin0 : In IRestartFinish (lf (i :: rest))).
           { apply andb_true_iff in Hpl. destruct Hpl as [Hl _]. apply negb_true_iff in Hl. rewrite (lf_cons_plain _ _ Hl). exact Hin. }
           destruct (lu_restarting _ _ _ Hy) as [Er|Er]; [rewrite Er; cbn [popped upd_pend a_restarting]; apply Hirf; exact Hin0|subst i; discriminate Hpl].
        -- (* lifecycle instructions: after them no IRestartFinish is pending unless ICheckMark has just installed it *)
           destruct Hlinv as (L1 & L2 & L3 & L4 & L5). unfold life_ok in L5. rewrite Hpx in L5. rewrite (lf_cons_life _ _ Hli) in L5.
           assert (Hlr : lf rest = []) by (destruct (lf rest); [reflexivity|destruct i; try discriminate Hli; contradiction]).
           destruct i; try discriminate Hli.
           ++ rewrite (astep_dokill s a x rest Hg) in Hg'. rewrite (get_set_same' _ _ _ _ Hg) in Hg'. inversion Hg'; subst x'.
              unfold irf_ok. cbn [upd_pend a_pend]. rewrite <- app_assoc, !lf_app, Hlr. intros Hin.
              destruct (a_children x); cbn in Hin; intuition discriminate.
           ++ destruct (a_zombie x) eqn:Hz.
              ** rewrite (astep_onkilled_zombie s a x rest Hg who Hz) in Hg'. rewrite (get_set_same' _ _ _ _ Hg) in Hg'. inversion Hg'; subst x'.
                 unfold irf_ok. cbn [upd_pend a_pend app lf filter life]. fold (lf rest). rewrite Hlr. intros Hin. cbn in Hin. intuition discriminate.
              ** destruct (ref_eq (set_actor s a (upd_pend x rest)) who (RObj a)) eqn:Hre.
                 --- rewrite (astep_onkilled_self s a x rest Hg who Hz Hre) in Hg'. rewrite (get_set_same' _ _ _ _ Hg) in Hg'. inversion Hg'; subst x'.
                     unfold irf_ok. cbn [upd_pend a_pend app lf filter life]. fold (lf rest). rewrite Hlr. intros Hin. cbn in Hin. intuition discriminate.
                 --- rewrite (astep_onkilled_other s a x rest Hg who Hz Hre) in Hg'. rewrite (get_set_same' _ _ _ _ Hg) in Hg'. inversion Hg'; subst x'.
                     unfold irf_ok. cbn [upd_pend a_pend app lf filter life]. fold (lf rest). rewrite Hlr. intros Hin. cbn in Hin. intuition discriminate.
           ++ destruct (a_children x) eqn:Hch; [destruct (a_state x) eqn:Hst|].
              ** rewrite (astep_checkmark_idle s a x rest Hg) in Hg' by (right; congruence). rewrite (get_set_same' _ _ _ _ Hg) in Hg'. inversion Hg'; subst x'.
                 unfold irf_ok. cbn [upd_pend a_pend]. rewrite Hlr. intros [].
              ** rewrite (astep_checkmark_kill s a x rest Hg Hch Hst) in Hg'. rewrite (get_set_same' _ _ _ _ Hg) in Hg'. inversion Hg'; subst x'.
                 unfold irf_ok. cbn [upd_pend a_pend a_restarting marked set_mb set_state upd_local app lf filter life].
                 destruct (a_restarting x) eqn:Hrs; cbn [lf filter life]; fold (lf rest); rewrite Hlr; intros Hin; [discriminate|cbn in Hin; intuition discriminate].
              ** rewrite (astep_checkmark_idle s a x rest Hg) in Hg' by (right; congruence). rewrite (get_set_same' _ _ _ _ Hg) in Hg'. inversion Hg'; subst x'.
                 unfold irf_ok. cbn [upd_pend a_pend]. rewrite Hlr. intros [].
              ** rewrite (astep_checkmark_idle s a x rest Hg) in Hg' by (left; congruence). rewrite (get_set_same' _ _ _ _ Hg) in Hg'. inversion Hg'; subst x'.
                 unfold irf_ok. cbn [upd_pend a_pend]. rewrite Hlr. intros [].
           ++ rewrite (astep_cleanup s a x rest Hg) in Hg'.
              assert (E2 : forall sr y, get (set_actor (set_reg (set_subs s sr) (aremove (reg s) (a_path x))) a y) a = Some y)
                by (intros; apply (get_set_same _ a _ (nth_error_lt _ _ _ Hg))).
              rewrite E2 in Hg'. inversion Hg'; subst x'. destruct (lf_cleanup_sends a x) as [Hcf _].
              unfold irf_ok. cbn [upd_pend a_pend]. rewrite lf_app, Hcf, Hlr. intros [].
           ++ destruct (restart_ok x) eqn:Hok.
              ** rewrite (astep_restart_ok s a x rest Hg Hok) in Hg'. rewrite (get_set_same' _ _ _ _ Hg) in Hg'. inversion Hg'; subst x'.
                 unfold irf_ok. cbn [upd_pend a_pend app lf filter life]. fold (lf rest). rewrite Hlr. intros [].
              ** rewrite (astep_restart_fail s a x rest Hg Hok) in Hg'. rewrite (get_set_same' _ _ _ _ Hg) in Hg'. inversion Hg'; subst x'.
                 unfold irf_ok. cbn [upd_pend a_pend app lf filter life]. fold (lf rest). rewrite Hlr. intros [].
        -- rewrite (astep_unzombie s a x rest Hg) in Hg'. rewrite (get_set_same' _ _ _ _ Hg) in Hg'. inversion Hg'; subst x'.
           unfold irf_ok. cbn [upd_pend set_zombie upd_local a_pend a_restarting]. intros Hin. apply Hirf. rewrite (lf_cons_plain IUnzombie rest eq_refl). exact Hin.
      * (* external caller: the root's pending list and restart flag are untouched *)
        destruct (pend_of_TX_cons _ _ _ _ Hp) as (ex & Hn & Hpx). destruct W as [_ HX].
        pose proof (Forall_nth _ _ _ _ HX Hn) as Hok. cbv beta in Hok. rewrite Hpx in Hok. cbn [forallb] in Hok.
        apply andb_true_iff in Hok. destruct Hok as [Hi _].
        destruct (astep_table s (TX j) i rest x Hg Hp) as (_ & y & news & Hy & _ & _ & Ha & _). cbv zeta in *. cbn [self_of] in *.
        unfold get in Hg'. rewrite Ha in Hg'. rewrite nth_error_app1 in Hg' by (rewrite upd_length; eapply nth_error_lt; exact Hg).
        rewrite nth_upd_eq in Hg' by (eapply nth_error_lt; exact Hg). inversion Hg'; subst x'.
        unfold irf_ok. cbn [pushed]. rewrite (lu_pend _ _ _ Hy). cbn [popped].
        destruct (lu_restarting _ _ _ Hy) as [Er|Er]; [rewrite Er; apply (HI _ _ Hg)|subst i; discriminate Hi].
    + destruct (foreign_astep s t i rest b x Hg Hne) as (y & Hy & Hls). assert (y = x') by congruence; subst. apply Hsoft. apply soft_lsame. exact Hls.
Qed.

Lemma IRF_init scs : IRF (init_with scs).
Proof.
  intros a x Hg. unfold init_with, get in Hg.
  assert (Ha : forall scs s i, actors (set_exts s i scs) = actors s).
  { clear. induction scs as [|sc r IH]; intros s i; cbn [set_exts]; [reflexivity|]. rewrite IH. apply set_pend_TX_actors. }
  rewrite Ha in Hg. destruct a as [|[|a]]; cbn in Hg; try discriminate. inversion Hg; subst. intros [].
Qed.

(** * definitions *)
Inductive kind := KPause | KCover | KOther.

Definition kenv (e : envelope) : kind :=
  if e_sys e then
    match e_msg e with
    | MCmdPause => KPause
    | MCmdResume => KCover
    | MKill _ false => KCover
    | MRestart false => KCover
    | _ => KOther
    end
  else KOther.
Definition kinstr (i : instr) : kind := match i with IPauseSt => KPause | IResume1 => KCover | _ => KOther end.

(** the actor's own pipeline, in processing order: its handler's pending list, the envelope in hand, the system queue *)
Definition pipeline (x : actor) : list kind := map kinstr (a_pend x) ++ map kenv (held x) ++ map kenv (a_sq x).
Definition knext (n : bool) (k : kind) : bool := match k with KPause => true | KCover => false | KOther => n end.
Definition need_after (l : list kind) (flag : bool) : bool := fold_left knext l flag.
Definition is_running (st : astate) : bool := match st with Running => true | _ => false end.
Definition eflag (x : actor) : bool := a_paused x && is_running (a_state x).

Definition inscope (x : actor) : Prop :=
  a_zombie x = false /\
  (a_state x = Running \/ (a_restarting x <> None /\ (a_state x = Killing \/ In IRestartFinish (lf (a_pend x))))).

(** ancestor-or-self, along the (immutable) parent pointers *)
Inductive anc (s : state) (q : aid) : aid -> Prop :=
| anc_refl : anc s q q
| anc_step a x p : get s a = Some x -> a_parent x = Some p -> anc s q p -> anc s q a.

Definition sub_targets (c : supctx) : list rref :=
  match c with SupCtx _ _ sub => match sub with Some c1 => chain_targets c1 | None => [] end end.
Definition covers_ctx (a : aid) (c : supctx) : Prop :=
  match c with SupCtx ch ts _ => ch = RObj a \/ In (RObj a) (chain_targets c) end.

(** message [m], addressed to actor [tgt], will lead to a resume of [a] or to its termination *)
Definition cmsg (s : state) (a tgt : aid) (m : msg) : Prop :=
  match m with
  | MCmdResume => tgt = a
  | MKill _ false | MRestart false => anc s tgt a
  | MSup c => covers_ctx a c
  | _ => False
  end.
Definition ref_target (r : rref) : option aid := match r with RObj b => Some b | RNone => Some 0 | RFresh _ => None end.
Definition mb_target (mb : mbox) : option aid := match mb with MbActor b => Some b | MbRoot => Some 0 | MbDead => None end.

Definition cinstr (s : state) (a self : aid) (i : instr) : Prop :=
  match i with
  | IEnq true r _ m => exists b, ref_target r = Some b /\ cmsg s a b m
  | IEnqR true mb _ m => exists b, mb_target mb = Some b /\ cmsg s a b m
  | IEnqAny true tos _ m => exists b, In (RObj b) tos /\ cmsg s a b m
  | ISupPause c d rem done => In (RObj a) (rem ++ done) \/ In (RObj a) (sub_targets c)
  | ISupApply c d targets => In (RObj a) targets \/ In (RObj a) (sub_targets c)
  | IDoKill false => anc s self a /\ self <> a
  | _ => False
  end.

Definition cov (s : state) (a : aid) : Prop :=
  (exists t i, In i (pend_of s t) /\ cinstr s a (self_of t) i) \/
  (exists q xq e, q <> a /\ get s q = Some xq /\ In e (held xq ++ a_sq xq) /\ e_sys e = true /\ cmsg s a q (e_msg e)).

Definition CInv (s : state) : Prop :=
  forall a x, get s a = Some x -> a <> 0 -> inscope x -> need_after (pipeline x) (eflag x) = true -> cov s a.

(** * ancestors *)
Lemma anc_le s q a : RInv s -> anc s q a -> q <= a.
Proof.
  intros (Ra & Rb & _) H. induction H as [|a x p Hg Hp _ IH]; [lia|].
  destruct (Nat.eq_dec a 0) as [->|Hne].
  - exfalso. destruct Ra as (x0 & Hg0 & Hp0 & _). assert (x = x0) by congruence; subst. congruence.
  - destruct (Rb a x Hg Hne) as [(p' & Hp' & Hlt) _]. assert (p' = p) by congruence; subst. lia.
Qed.

Lemma anc_mstep s m q a : anc s q a -> anc (mstep s m) q a.
Proof.
  intros H. induction H as [|a x p Hg Hp _ IH]; [apply anc_refl|].
  destruct (idT_mstep s m a x Hg ltac:(tauto)) as (x' & Hg' & _ & Hp'). eapply anc_step; [exact Hg'|rewrite Hp'; exact Hp|exact IH].
Qed.

Lemma anc_trans s q p a : anc s q p -> anc s p a -> anc s q a.
Proof. intros H1 H2. induction H2 as [|a x p' Hg Hp _ IH]; [exact H1|]. eapply anc_step; eauto. Qed.

(** a context whose parent is [q] is below [q] *)
Lemma anc_child s q a x : get s a = Some x -> a_parent x = Some q -> anc s q a.
Proof. intros Hg Hp. eapply anc_step; [exact Hg|exact Hp|apply anc_refl]. Qed.

(** every proper ancestor of a registered context is alive, registered, and lists the next context on the path
    among its children *)
Lemma anc_alive s q a x :
  LI s -> RInv s -> KInv s -> get s a = Some x -> a <> 0 -> regd s a x -> anc s q a -> q <> a ->
  exists xq c xc, get s q = Some xq /\ a_state xq <> Killed /\ a_zombie xq = false /\ (q <> 0 -> regd s q xq) /\
                  get s c = Some xc /\ a_parent xc = Some q /\ alookup (a_children xq) (a_path xc) = Some c /\ c <> 0 /\ regd s c xc /\ anc s c a.
Proof.
  intros HLI HR HK Hg Hne Hreg Hanc. revert x Hg Hne Hreg.
  induction Hanc as [|a x0 p Hg0 Hp0 Hanc IH]; intros x Hg Hne Hreg Hqa; [congruence|].
  assert (x0 = x) by congruence; subst x0.
  destruct (parent_alive s a x HLI HR HK Hg Hne Hreg) as (p' & xp & Hp' & Hlt & Hxp & Hlk & Hst & Hz & Hrp).
  assert (p' = p) by congruence; subst p'.
  destruct (Nat.eq_dec q p) as [->|Hqp].
  - exists xp, a, x. repeat split; auto. apply anc_refl.
  - assert (Hp0' : p <> 0).
    { intros ->. apply Hqp. pose proof (anc_le s q 0 HR Hanc). lia. }
    destruct (IH xp Hxp Hp0' (Hrp Hp0') Hqp) as (xq & c & xc & H1 & H2 & H3 & H4 & H5 & H6 & H7 & H8 & H9 & H10).
    exists xq, c, xc. repeat split; auto. eapply anc_step; [exact Hg|exact Hp0|exact H10].
Qed.

(** * routing to a registered context through its own ref object *)
Lemma resolve_registered s b xb :
  RInv s -> get s b = Some xb -> b <> 0 -> regd s b xb -> fst (resolve s (RObj b)) = MbActor b.
Proof.
  intros (_ & _ & _ & _ & R8) Hg Hne Hreg. unfold resolve. rewrite Hg. destruct (a_cache xb) as [y|] eqn:Hc.
  - destruct (R8 b xb y Hg Hc) as [->|Hn]; [reflexivity|contradiction].
  - unfold regd in Hreg. rewrite Hreg. reflexivity.
Qed.
Lemma resolve_root s : RInv s -> RootC s -> fst (resolve s (RObj 0)) = MbRoot /\ fst (resolve s RNone) = MbRoot.
Proof.
  intros (Ra & _ & Rc & _) HC. destruct Ra as (x0 & Hg0 & _ & Hp0). split; [|reflexivity].
  unfold resolve. rewrite Hg0, (HC _ Hg0), Hp0, Rc. reflexivity.
Qed.

(** * the need flag *)
Lemma need_app l1 l2 f : need_after (l1 ++ l2) f = need_after l2 (need_after l1 f).
Proof. apply fold_left_app. Qed.
Lemma need_mono l : forall f g, (f = true -> g = true) -> need_after l f = true -> need_after l g = true.
Proof.
  induction l as [|k l IH]; intros f g H; cbn [need_after fold_left]; [exact H|].
  apply IH. destruct k; cbn [knext]; auto.
Qed.
Lemma need_others l f : Forall (fun k => k = KOther) l -> need_after l f = f.
Proof. intros H. revert f. induction H as [|k l -> _ IH]; intros f; cbn [need_after fold_left knext]; [reflexivity|apply IH]. Qed.
Lemma need_false_true l : need_after l false = true -> forall f, need_after l f = true.
Proof. intros H f. apply (need_mono l false f); [discriminate|exact H]. Qed.

(** * monotonicity of covers *)
Lemma cmsg_mono s s' a b m : (forall q c, anc s q c -> anc s' q c) -> cmsg s a b m -> cmsg s' a b m.
Proof. intros H. destruct m; cbn [cmsg]; auto. destruct poison; auto. destruct poison; auto. Qed.
Lemma cinstr_mono s s' a self i : (forall q c, anc s q c -> anc s' q c) -> cinstr s a self i -> cinstr s' a self i.
Proof.
  intros H. destruct i; cbn [cinstr]; auto.
  - destruct sys; [|auto]. intros (b & H1 & H2). exists b. split; [exact H1|eapply cmsg_mono; eauto].
  - destruct sys; [|auto]. intros (b & H1 & H2). exists b. split; [exact H1|eapply cmsg_mono; eauto].
  - destruct sys; [|auto]. intros (b & H1 & H2). exists b. split; [exact H1|eapply cmsg_mono; eauto].
  - destruct poison; [auto|]. intros [H1 H2]. split; [apply H; exact H1|exact H2].
Qed.

(** * contexts in scope are registered; ancestors exist *)
Lemma inscope_regd s a x : RInv s -> get s a = Some x -> a <> 0 -> inscope x -> regd s a x.
Proof.
  intros (_ & _ & _ & R1 & _) Hg Hne [_ Hs]. apply (R1 a x Hg Hne). unfold must_reg.
  destruct Hs as [E|[_ [E|E]]]; [left; congruence|left; congruence|right; right; left; exact E].
Qed.

Lemma anc_get s q a x : RInv s -> get s a = Some x -> anc s q a -> exists xq, get s q = Some xq.
Proof.
  intros HR Hg Hanc. revert x Hg. induction Hanc as [|a x0 p Hg0 Hp0 Hanc IH]; intros x Hg; [eauto|].
  destruct HR as (Ra & Rb & HR'). destruct (Nat.eq_dec a 0) as [->|Hne].
  - destruct Ra as (xr & Hgr & Hpr & _). assert (x0 = xr) by congruence; subst. congruence.
  - destruct (Rb a x0 Hg0 Hne) as [(p' & Hp' & Hlt) _]. assert (p' = p) by congruence; subst p'.
    assert (Hl : p < length (actors s)) by (pose proof (nth_error_lt _ _ _ Hg0); lia).
    destruct (get s p) as [xp|] eqn:Hgp; [|apply nth_error_None in Hgp; lia].
    apply (IH xp eq_refl).
Qed.

(** the targets of the lower levels of a context chain are proper descendants of the reporting child *)
Lemma chain_anc s a xa :
  LI s -> RInv s -> KInv s -> get s a = Some xa -> a <> 0 -> regd s a xa ->
  forall c1 b, lvl_ok s b c1 -> ctx_sub_ok s c1 -> In (RObj a) (chain_targets c1) -> anc s b a /\ b <> a.
Proof.
  intros HLI HR HK Hga Hne Hreg. fix IH 1. intros [ch1 ts1 [c2|]] b; cbn [lvl_ok ctx_sub_ok chain_targets].
  - intros [Hts Hch] [(b1 & -> & Hl2) Hs2] Hin. apply in_app_or in Hin.
    assert (Hdirect : In (RObj a) ts1 -> anc s b a /\ b <> a).
    { intros Hi. destruct (Hts _ Hi) as (d & xd & E & Hd0 & Hgd & Hpd). inversion E; subst d. assert (xd = xa) by congruence; subst xd.
      destruct Hpd as [Hp|(xc & Hxc & Hn)]; [|exfalso; assert (xc = xa) by congruence; subst; exact (Hn Hreg)].
      split; [eapply anc_child; eauto|]. destruct HR as (_ & Rb & _). destruct (Rb a xa Hga Hne) as [(q & Hq & Hlt) _]. assert (q = b) by congruence. lia. }
    destruct Hin as [Hi|Hi]; [exact (Hdirect Hi)|].
    destruct (IH c2 b1 Hl2 Hs2 Hi) as [Ha1 Hn1].
    (* b1 is a proper ancestor of a registered context, hence registered, hence still a child of b *)
    destruct (anc_alive s b1 a xa HLI HR HK Hga Hne Hreg Ha1 Hn1) as (xb1 & c & xc & Hgb1 & _ & _ & Hrb1 & _).
    assert (Hb1 : anc s b b1 /\ b1 <> 0).
    { destruct Hch as [Hi1|(d & E & Hd0 & (xd & Hxd & Hn))].
      - destruct (Hts _ Hi1) as (d & xd & E & Hd0 & Hgd & Hpd). inversion E; subst d. assert (xd = xb1) by congruence; subst xd.
        split; [|exact Hd0]. destruct Hpd as [Hp|(xc' & Hxc' & Hn)]; [eapply anc_child; eauto|].
        exfalso. assert (xc' = xb1) by congruence; subst. exact (Hn (Hrb1 Hd0)).
      - inversion E; subst d. exfalso. assert (xd = xb1) by congruence; subst. exact (Hn (Hrb1 Hd0)). }
    destruct Hb1 as [Hbb1 _]. split; [eapply anc_trans; eauto|].
    pose proof (anc_le s b b1 HR Hbb1). pose proof (anc_le s b1 a HR Ha1). lia.
  - intros [Hts Hch] _ Hin. rewrite app_nil_r in Hin.
    destruct (Hts _ Hin) as (d & xd & E & Hd0 & Hgd & Hpd). inversion E; subst d. assert (xd = xa) by congruence; subst xd.
    destruct Hpd as [Hp|(xc & Hxc & Hn)]; [|exfalso; assert (xc = xa) by congruence; subst; exact (Hn Hreg)].
    split; [eapply anc_child; eauto|]. destruct HR as (_ & Rb & _). destruct (Rb a xa Hga Hne) as [(q & Hq & Hlt) _]. assert (q = b) by congruence. lia.
Qed.
