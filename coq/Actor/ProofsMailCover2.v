(** C09-d, second part: the cover invariant is preserved by every micro-step. *)
From Coq Require Import List NArith ZArith Bool Lia Arith.
From Vivid Require Import Actor.Core Actor.CoreRun Actor.SpecMail Actor.ProofsMailBase Actor.ProofsMail Actor.ProofsMailInv
  Actor.ProofsMailWf Actor.ProofsMailAcct Actor.ProofsMailReg Actor.ProofsMailMicro Actor.ProofsMailLife Actor.ProofsMailStep
  Actor.ProofsMailTree Actor.ProofsMailMK Actor.ProofsMailKids Actor.ProofsMailCtx Actor.ProofsMailMicro2 Actor.ProofsMailCache
  Actor.ProofsMailHyg Actor.ProofsMailView Actor.ProofsMailCover Actor.ProofsMailQuiet.
Import ListNotations.

Lemma sysq_cases e : sysq e = [] \/ (sysq e = [e] /\ e_sys e = true).
Proof. unfold sysq. destruct (e_sys e); auto. Qed.

Lemma held_cons x y : a_cons y = a_cons x -> held y = held x.
Proof. unfold held. intros ->. reflexivity. Qed.

Lemma In_lf_tail i i0 rest : In i (lf rest) -> In i (lf (i0 :: rest)).
Proof. unfold lf. cbn [filter]. destruct (life i0); [right; assumption|auto]. Qed.

Lemma tid_dec (t1 t2 : tid) : {t1 = t2} + {t1 <> t2}.
Proof. decide equality; apply Nat.eq_dec. Qed.

Section TStep.
  Variables (s s' : state) (t : tid) (i0 : instr) (rest pre : list instr) (tgt : aid) (env : list envelope) (pa : bool -> bool).
  Hypothesis T : tstep s s' t i0 rest pre tgt env pa.
  Hypothesis Henv : env = [] \/ exists e, env = [e] /\ e_sys e = true.
  Hypothesis Hanc : forall q c, anc s q c -> anc s' q c.
  Hypothesis Hlfpre : lf pre = [].
  Hypothesis Oown : forall b xb, t = TA b -> get s b = Some xb ->
    need_after (map kinstr pre) (pa (a_paused xb) && is_running (a_state xb)) = true -> need_after [kinstr i0] (eflag xb) = true.
  Hypothesis Opause : forall e, env = [e] -> kenv e = KPause -> tgt <> 0 -> cov s' tgt.
  Hypothesis Ocons : forall a xa, get s a = Some xa -> a <> 0 -> inscope xa -> cinstr s a (self_of t) i0 ->
    cov s' a \/ (a = tgt /\ exists e, env = [e] /\ kenv e = KCover).

  Theorem CInv_tstep : CInv s -> CInv s'.
  Proof.
    intros HC a y Hgy Hne Hsc Hneed.
    destruct (get s a) as [x|] eqn:Hgx.
    2:{ exfalso. assert (E : get s' a = None) by (apply nth_error_None; rewrite (ts_len _ _ _ _ _ _ _ _ _ T); apply nth_error_None; exact Hgx). congruence. }
    destruct (ts_rec _ _ _ _ _ _ _ _ _ T a x Hgx) as (y' & Hy' & Hpend & (R1 & R2 & R3 & R4 & R5 & R6 & R7 & R8)).
    assert (y' = y) by congruence; subst y'.
    pose proof (ts_p _ _ _ _ _ _ _ _ _ T) as Hp.
    (* the own pending list *)
    assert (Hown : is_ta t a = true -> t = TA a /\ a_pend x = i0 :: rest /\ self_of t = a).
    { destruct t as [b|j]; cbn [is_ta]; [|discriminate]. intros E. apply Nat.eqb_eq in E. subst b.
      split; [reflexivity|split; [|reflexivity]]. rewrite (pend_of_TA _ _ _ Hgx) in Hp. exact Hp. }
    assert (Hnself : is_ta t a = false -> Nat.eqb a (self_of t) = false).
    { destruct t as [b|j]; cbn [is_ta self_of]; intros E; apply Nat.eqb_neq; [apply Nat.eqb_neq in E; congruence|exact Hne]. }
    (* scope *)
    assert (Hscx : inscope x).
    { destruct Hsc as [Hz Hs]. split; [congruence|]. rewrite R1, R3 in Hs. destruct Hs as [E|[Hr [E|E]]]; [left; exact E|right; split; [exact Hr|left; exact E]|].
      right. split; [exact Hr|right]. rewrite Hpend in E. destruct (is_ta t a) eqn:Eta; [|exact E].
      destruct (Hown eq_refl) as (_ & Hpx & _). rewrite Hpx. rewrite lf_app, Hlfpre in E. cbn [app] in E. apply In_lf_tail. exact E. }
    set (E := if Nat.eqb a tgt then env else []) in *.
    set (M := map kenv (held x) ++ map kenv (a_sq x)).
    assert (Hpipe : need_after (pipeline y) (eflag y) = need_after (map kenv E) (need_after M (need_after (map kinstr (a_pend y)) (eflag y)))).
    { unfold pipeline. rewrite (held_cons _ _ R5), R7, map_app, !need_app. unfold M. rewrite need_app. reflexivity. }
    rewrite Hpipe in Hneed.
    assert (Hnocover : ~ (a = tgt /\ exists e, env = [e] /\ kenv e = KCover)).
    { intros [-> (e & -> & Hk)]. unfold E in Hneed. rewrite Nat.eqb_refl in Hneed. cbn [map need_after fold_left] in Hneed. rewrite Hk in Hneed. discriminate Hneed. }
    assert (Hmain : need_after M (need_after (map kinstr (a_pend y)) (eflag y)) = true -> cov s' a).
    { intros HN.
      assert (Hnx : need_after (pipeline x) (eflag x) = true).
      { unfold pipeline. rewrite !need_app. fold M. rewrite <- need_app. fold M.
        destruct (is_ta t a) eqn:Eta.
        - destruct (Hown eq_refl) as (Et & Hpx & Hself).
          assert (Efy : eflag y = pa (a_paused x) && is_running (a_state x)).
          { unfold eflag. rewrite R8, R1, Hself, Nat.eqb_refl. reflexivity. }
          rewrite Hpend, Efy, map_app, need_app in HN. rewrite Hpx. cbn [map].
          change (need_after (kinstr i0 :: map kinstr rest) (eflag x)) with (need_after (map kinstr rest) (need_after [kinstr i0] (eflag x))).
          rewrite <- need_app. rewrite <- need_app in HN.
          eapply need_mono; [|exact HN]. apply (Oown a x Et Hgx).
        - assert (Efy : eflag y = eflag x).
          { unfold eflag. rewrite R8, R1, (Hnself eq_refl). reflexivity. }
          rewrite Hpend, Efy in HN. exact HN. }
      pose proof (HC a x Hgx Hne Hscx Hnx) as [(t1 & i & Hin & Hci)|(q & xq & e & Hqa & Hgq & Hine & Hes & Hcm)].
      - destruct (tid_dec t1 t) as [->|Hnt].
        + rewrite Hp in Hin. destruct Hin as [<-|Hin].
          * destruct (Ocons a x Hgx Hne Hscx Hci) as [H|H]; [exact H|exfalso; exact (Hnocover H)].
          * left. exists t, i. split; [rewrite (ts_pt _ _ _ _ _ _ _ _ _ T); apply in_or_app; right; exact Hin|eapply cinstr_mono; eauto].
        + left. exists t1, i. split; [rewrite (ts_po _ _ _ _ _ _ _ _ _ T t1 Hnt); exact Hin|eapply cinstr_mono; eauto].
      - right. destruct (ts_rec _ _ _ _ _ _ _ _ _ T q xq Hgq) as (yq & Hyq & _ & (Q1 & Q2 & Q3 & Q4 & Q5 & Q6 & Q7 & Q8)).
        exists q, yq, e. split; [exact Hqa|split; [exact Hyq|split; [|split; [exact Hes|eapply cmsg_mono; eauto]]]].
        rewrite (held_cons _ _ Q5), Q7. apply in_app_or in Hine. apply in_or_app. destruct Hine as [H|H]; [left; exact H|right; apply in_or_app; left; exact H]. }
    destruct (Nat.eqb a tgt) eqn:Eat; [|apply Hmain; exact Hneed].
    apply Nat.eqb_eq in Eat. subst tgt. unfold E in Hneed. destruct Henv as [->|(e & -> & Hes)]; [apply Hmain; exact Hneed|].
    cbn [map need_after fold_left] in Hneed. destruct (kenv e) eqn:Hk; cbn [knext] in Hneed.
    - apply (Opause e eq_refl Hk Hne).
    - discriminate Hneed.
    - apply Hmain. exact Hneed.
  Qed.
End TStep.

(** * list and routing helpers *)
Lemma In_remove_nth {A} (l : list A) c x y : nth_error l c = Some y -> In x l -> x = y \/ In x (firstn c l ++ skipn (S c) l).
Proof.
  revert c. induction l as [|z l IH]; intros [|c] Hn Hin; cbn in *; try discriminate.
  - inversion Hn; subst. destruct Hin as [->|Hin]; [left; reflexivity|right; exact Hin].
  - destruct Hin as [->|Hin]; [right; left; reflexivity|]. destruct (IH c Hn Hin) as [->|H]; [left; reflexivity|right; right; exact H].
Qed.

Lemma landing_target mb b e : mb_target mb = Some b -> landing mb e = (b, e).
Proof. destruct mb; cbn; intros H; inversion H; reflexivity. Qed.

Lemma resolve_target s r b :
  CacheW s -> RInv s -> RootC s -> ref_target r = Some b -> (exists xb, get s b = Some xb) -> mb_target (fst (resolve s r)) = Some b.
Proof.
  intros HW HR HC Hr [xb Hg]. destruct r as [d|p|]; cbn [ref_target] in Hr; inversion Hr; subst.
  - destruct (Nat.eq_dec b 0) as [->|Hne].
    + rewrite (proj1 (resolve_root s HR HC)). reflexivity.
    + rewrite (resolve_obj s b xb HW Hg Hne). reflexivity.
  - reflexivity.
Qed.

Lemma cmsg_target_exists s a xa b m :
  RInv s -> get s a = Some xa -> cmsg s a b m -> (forall c, m <> MSup c) -> exists xb, get s b = Some xb.
Proof.
  intros HR Hg Hc Hn. destruct m; cbn [cmsg] in Hc; try contradiction.
  - destruct poison; [contradiction|]. eapply anc_get; eauto.
  - exfalso. eapply Hn. reflexivity.
  - subst. eauto.
  - destruct poison; [contradiction|]. eapply anc_get; eauto.
Qed.

Lemma kenv_cover sender m : (m = MCmdResume \/ (exists k, m = MKill k false) \/ m = MRestart false) ->
  kenv {| e_sys := true; e_sender := sender; e_msg := m |} = KCover.
Proof. intros [->|[[k ->]| ->]]; reflexivity. Qed.

(** a cover message is a resume, an immediate kill or restart, or a supervision report *)
Lemma cmsg_cases s a b m : cmsg s a b m -> m = MCmdResume \/ (exists k, m = MKill k false) \/ m = MRestart false \/ exists c, m = MSup c.
Proof.
  destruct m; cbn [cmsg]; try contradiction; eauto.
  - destruct poison; [contradiction|]. eauto.
  - destruct poison; [contradiction|]. eauto.
Qed.

Lemma kenv_pause_msg e : kenv e = KPause -> e_msg e = MCmdPause.
Proof. unfold kenv. destruct (e_sys e); [|discriminate]. destruct (e_msg e); try discriminate; try reflexivity; destruct poison; discriminate. Qed.

(** a supervision report never travels to a context it concerns *)
Lemma msup_lands_elsewhere s self q c a xa :
  LI s -> RInv s -> KInv s -> own_report s self c -> is_child_ref s q (RObj self) ->
  get s a = Some xa -> a <> 0 -> regd s a xa -> covers_ctx a c -> q <> a /\ exists xq, get s q = Some xq.
Proof.
  intros HLI HR HK (Hs0 & Hc & Hsub) (d & xd & E & _ & Hgd & Hpd) Hga Hne Hreg Hcov. inversion E; subst d.
  destruct c as [ch ts sub]. destruct Hc as [-> ->]. cbn [covers_ctx chain_targets app] in Hcov.
  assert (Hsa : anc s self a).
  { destruct Hcov as [E1|Hin]; [inversion E1; apply anc_refl|]. destruct sub as [c1|]; [|destruct Hin].
    cbn [ctx_sub_ok] in Hsub. destruct Hsub as [(b & E2 & Hl) Hs1]. inversion E2; subst b.
    apply (chain_anc s a xa HLI HR HK Hga Hne Hreg c1 self Hl Hs1 Hin). }
  assert (Hsreg : regd s self xd).
  { destruct (Nat.eq_dec self a) as [->|Hsn]; [assert (xd = xa) by congruence; subst; exact Hreg|].
    destruct (anc_alive s self a xa HLI HR HK Hga Hne Hreg Hsa Hsn) as (xs & _ & _ & Hgs & _ & _ & Hr & _).
    assert (xs = xd) by congruence; subst. apply Hr. exact Hs0. }
  destruct Hpd as [Hp|(xc & Hxc & Hn)]; [|exfalso; assert (xc = xd) by congruence; subst; exact (Hn Hsreg)].
  destruct HR as (Ra & Rb & HR'). destruct (Rb self xd Hgd Hs0) as [(p & Hp' & Hlt) _]. assert (p = q) by congruence; subst p.
  pose proof (anc_le s self a (conj Ra (conj Rb HR')) Hsa). split; [lia|].
  assert (Hl : q < length (actors s)) by (pose proof (nth_error_lt _ _ _ Hgd); lia).
  destruct (get s q) as [xq|] eqn:Eq; [eauto|apply nth_error_None in Eq; lia].
Qed.

Definition Jall (s : state) : Prop := Base6 s /\ XI s /\ IRF s /\ CacheW s /\ MH s.

Lemma anc_mono_mstep s m : forall q c, anc s q c -> anc (mstep s m) q c.
Proof. intros q c. apply anc_mstep. Qed.

(** * the plain thread steps *)
Lemma mh_head s t i rest : MH s -> pend_of s t = i :: rest -> np_instr i.
Proof.
  intros [M1 M2] Hp. destruct t as [a|j].
  - destruct (pend_of_TA_cons _ _ _ _ Hp) as (x & Hg & Hpx). destruct (M1 _ _ Hg) as (_ & _ & (C1 & _) & _). rewrite Hpx in C1. inversion C1; auto.
  - destruct (pend_of_TX_cons _ _ _ _ Hp) as (ex & Hn & Hpx). pose proof (M2 _ _ Hn) as C1. rewrite Hpx in C1. inversion C1; auto.
Qed.

Lemma CInv_enqdone s t : err (mstep s (MEnqDone t)) = false -> CInv s -> CInv (mstep s (MEnqDone t)).
Proof.
  intros He. destruct (pend_of s t) as [|i rest] eqn:Hp; [cbn [mstep] in He; rewrite Hp in He; discriminate He|].
  destruct i; try (cbn [mstep] in He; rewrite Hp in He; discriminate He).
  apply (CInv_tstep s _ t IEnqDone rest [] 0 [] (fun p => p) (view_enqdone s t rest Hp));
    [left; reflexivity|apply anc_mono_mstep|reflexivity|intros b xb _ _ H; exact H|intros e H; discriminate H|intros a xa _ _ _ []].
Qed.

Lemma CInv_resume2 s t : err (mstep s (MResume2 t)) = false -> CInv s -> CInv (mstep s (MResume2 t)).
Proof.
  intros He. destruct (pend_of s t) as [|i rest] eqn:Hp; [cbn [mstep] in He; rewrite Hp in He; discriminate He|].
  destruct i; try (cbn [mstep] in He; rewrite Hp in He; discriminate He).
  apply (CInv_tstep s _ t IResume2 rest [] 0 [] (fun p => p) (view_resume2 s t rest Hp));
    [left; reflexivity|apply anc_mono_mstep|reflexivity|intros b xb _ _ H; exact H|intros e H; discriminate H|intros a xa _ _ _ []].
Qed.

Lemma CInv_pausest s t : err (mstep s (MPauseSt t)) = false -> CInv s -> CInv (mstep s (MPauseSt t)).
Proof.
  intros He. destruct (pend_of s t) as [|i rest] eqn:Hp; [cbn [mstep] in He; rewrite Hp in He; discriminate He|].
  destruct i; try (cbn [mstep] in He; rewrite Hp in He; discriminate He).
  apply (CInv_tstep s _ t IPauseSt rest [] 0 [] (fun _ => true) (view_pausest s t rest Hp));
    [left; reflexivity|apply anc_mono_mstep|reflexivity|intros b xb _ _ _; reflexivity|intros e H; discriminate H|intros a xa _ _ _ []].
Qed.

Lemma CInv_resume1 s t : err (mstep s (MResume1 t)) = false -> CInv s -> CInv (mstep s (MResume1 t)).
Proof.
  intros He. destruct (pend_of s t) as [|i rest] eqn:Hp; [cbn [mstep] in He; rewrite Hp in He; discriminate He|].
  destruct i; try (cbn [mstep] in He; rewrite Hp in He; discriminate He).
  destruct (get s (self_of t)) as [x|] eqn:Hg; [|cbn [mstep] in He; rewrite Hp, Hg in He; discriminate He].
  pose proof (view_resume1 s t rest x Hp Hg) as V. destruct (a_paused x) eqn:Hpa.
  - apply (CInv_tstep s _ t IResume1 rest [IResume2] 0 [] (fun _ => false) V);
      [left; reflexivity|apply anc_mono_mstep|reflexivity|intros b xb _ _ H; cbn in H; discriminate H|intros e H; discriminate H|intros a xa _ _ _ []].
  - apply (CInv_tstep s _ t IResume1 rest [] 0 [] (fun p => p) V);
      [left; reflexivity|apply anc_mono_mstep|reflexivity| |intros e H; discriminate H|intros a xa _ _ _ []].
    intros b xb -> Hgb H. cbn [self_of] in Hg. assert (xb = x) by congruence; subst. cbn in H. rewrite Hpa in H. discriminate H.
Qed.

Lemma parent_exists s a x : RInv s -> get s a = Some x -> forall b, ref_target (rref_parent x) = Some b -> exists xb, get s b = Some xb.
Proof.
  intros (Ra & Rb & _) Hg b Hb. unfold rref_parent in Hb. destruct (a_parent x) as [p|] eqn:Hp; cbn in Hb; inversion Hb; subst b.
  - assert (Hne : a <> 0). { intros ->. destruct Ra as (x0 & Hg0 & Hp0 & _). assert (x = x0) by congruence; subst. congruence. }
    destruct (Rb a x Hg Hne) as [(q & Hq & Hlt) _]. assert (q = p) by congruence; subst q.
    assert (Hl : p < length (actors s)) by (pose proof (nth_error_lt _ _ _ Hg); lia).
    destruct (get s p) as [xp|] eqn:E; [eauto|apply nth_error_None in E; lia].
  - destruct Ra as (x0 & Hg0 & _). eauto.
Qed.

Lemma CInv_resolve s t sys to sender m rest :
  Jall s -> pend_of s t = IEnq sys to sender m :: rest -> CInv s -> CInv (mstep s (MAtomic t)).
Proof.
  intros (((W & HLI & HR & HMK) & HK & HRC & HRS) & HX & HIRF & HW & HM) Hp.
  apply (CInv_tstep s _ t _ rest [IEnqR sys (fst (resolve s to)) sender m] 0 [] (fun p => p) (view_resolve s t sys to sender m rest Hp));
    [left; reflexivity|apply anc_mono_mstep|reflexivity|intros b xb _ _ H; exact H|intros e H; discriminate H|].
  intros a xa Hga Hne Hsc Hci. left. cbn [cinstr] in Hci. destruct sys; [|contradiction]. destruct Hci as (b & Hrt & Hcm).
  assert (Hex : exists xb, get s b = Some xb).
  { destruct (cmsg_cases _ _ _ _ Hcm) as [E|[[k E]|[E|[c E]]]]; try (apply (cmsg_target_exists s a xa b m HR Hga Hcm); intros c0; subst; discriminate).
    pose proof (xi_pend s t _ rest HX Hp) as Hxi. cbn [xi_ok] in Hxi. destruct (Hxi c E) as [(x & Hgx & ->) _].
    apply (parent_exists s _ x HR Hgx b Hrt). }
  pose proof (resolve_target s to b HW HR HRC Hrt Hex) as Hmb.
  pose proof (view_resolve s t true to sender m rest Hp) as V.
  left. exists t, (IEnqR true (fst (resolve s to)) sender m). split; [rewrite (ts_pt _ _ _ _ _ _ _ _ _ V); left; reflexivity|].
  cbn [cinstr]. exists b. split; [exact Hmb|eapply cmsg_mono; [apply anc_mono_mstep|exact Hcm]].
Qed.

(** an envelope carrying a cover that has just been put into [b]'s system queue *)
Lemma land_cover s s' t i0 rest pre b e0 pa a :
  tstep s s' t i0 rest pre b [e0] pa -> (forall q c, anc s q c -> anc s' q c) ->
  e_sys e0 = true -> (exists xb, get s b = Some xb) -> cmsg s a b (e_msg e0) -> (b = a -> kenv e0 = KCover) ->
  cov s' a \/ (a = b /\ exists e, [e0] = [e] /\ kenv e = KCover).
Proof.
  intros T Hanc Hes [xb Hgb] Hcm Hk. destruct (Nat.eq_dec b a) as [->|Hne].
  - right. split; [reflexivity|]. exists e0. split; [reflexivity|apply Hk; reflexivity].
  - left. right. destruct (ts_rec _ _ _ _ _ _ _ _ _ T b xb Hgb) as (yb & Hyb & _ & (_ & _ & _ & _ & Q5 & _ & Q7 & _)).
    rewrite Nat.eqb_refl in Q7. exists b, yb, e0. split; [exact Hne|split; [exact Hyb|split; [|split; [exact Hes|eapply cmsg_mono; eauto]]]].
    rewrite Q7. apply in_or_app. right. apply in_or_app. right. left. reflexivity.
Qed.

Lemma land_ok_target s self mb b : land_ok s self mb -> mb_target mb = Some b -> is_child_ref s b (RObj self).
Proof. destruct mb; cbn; intros H E; inversion E; subst; exact H. Qed.

Lemma CInv_push_enqr s t c sys mb sender m rest :
  Jall s -> pend_of s t = IEnqR sys mb sender m :: rest -> CInv s -> CInv (mstep s (MPush t c)).
Proof.
  intros (((W & HLI & HR & HMK) & HK & HRC & HRS) & HX & HIRF & HW & HM) Hp.
  pose proof (view_push_enqr s t c sys mb sender m rest Hp) as V. cbv zeta in V.
  set (e0 := {| e_sys := sys; e_sender := sender; e_msg := m |}) in *.
  pose proof (mh_head s t _ rest HM Hp) as Hnp. cbn [np_instr] in Hnp.
  apply (CInv_tstep s _ t _ rest [] _ _ (fun p => p) V);
    [|apply anc_mono_mstep|reflexivity|intros b xb _ _ H; exact H| |].
  - destruct (sysq_cases (snd (landing mb e0))) as [->|[-> H]]; [left; reflexivity|right; eexists; split; [reflexivity|exact H]].
  - intros e He Hk _. exfalso. apply kenv_pause_msg in Hk. unfold sysq in He. destruct mb; cbn [landing snd] in He.
    + destruct sys; cbn in He; inversion He; subst e. exact (Hnp Hk).
    + destruct sys; cbn in He; inversion He; subst e. exact (Hnp Hk).
    + cbn in He. discriminate He.
  - intros a xa Hga Hne Hsc Hci. cbn [cinstr] in Hci. destruct sys; [|contradiction]. destruct Hci as (b & Hmt & Hcm).
    rewrite (landing_target mb b e0 Hmt) in *. cbn [fst snd] in *. change (sysq e0) with [e0] in *.
    pose proof (inscope_regd s a xa HR Hga Hne Hsc) as Hreg.
    assert (Hsupx : forall c0, m = MSup c0 -> b <> a /\ exists xb, get s b = Some xb).
    { intros c0 ->. pose proof (xi_pend s t _ rest HX Hp) as Hxi. cbn [xi_ok] in Hxi. destruct (Hxi c0 eq_refl) as [Hown Hland].
      apply (msup_lands_elsewhere s (self_of t) b c0 a xa HLI HR HK Hown (land_ok_target _ _ _ _ Hland Hmt) Hga Hne Hreg Hcm). }
    apply (land_cover s _ t _ rest [] b e0 (fun p => p) a V (anc_mono_mstep s _) eq_refl).
    + destruct (cmsg_cases _ _ _ _ Hcm) as [E|[[k E]|[E|[c0 E]]]]; try (apply (cmsg_target_exists s a xa b m HR Hga Hcm); intros c1; subst; discriminate).
      apply (Hsupx c0 E).
    + exact Hcm.
    + intros Hba. destruct (cmsg_cases _ _ _ _ Hcm) as [E|[[k E]|[E|[c0 E]]]]; try (apply kenv_cover; eauto; fail).
      exfalso. apply (proj1 (Hsupx c0 E) Hba).
Qed.

Lemma CInv_push_mb s t c b e rest :
  Jall s -> pend_of s t = IEnqMb b e :: rest -> CInv s -> CInv (mstep s (MPush t c)).
Proof.
  intros (_ & _ & _ & _ & HM) Hp.
  pose proof (mh_head s t _ rest HM Hp) as Hnp. cbn [np_instr] in Hnp.
  apply (CInv_tstep s _ t _ rest [] _ _ (fun p => p) (view_push_mb s t c b e rest Hp));
    [|apply anc_mono_mstep|reflexivity|intros b0 xb _ _ H; exact H| |intros a xa _ _ _ []].
  - destruct (sysq_cases e) as [->|[-> H]]; [left; reflexivity|right; eexists; split; [reflexivity|exact H]].
  - intros e1 He Hk _. exfalso. apply kenv_pause_msg in Hk. unfold sysq in He. destruct (e_sys e); inversion He; subst. exact (Hnp Hk).
Qed.

Lemma CInv_push_any s t c sys tos sender m rest to :
  Jall s -> pend_of s t = IEnqAny sys tos sender m :: rest -> nth_error tos c = Some to -> CInv s -> CInv (mstep s (MPush t c)).
Proof.
  intros (((W & HLI & HR & HMK) & HK & HRC & HRS) & HX & HIRF & HW & HM) Hp Hn.
  pose proof (view_push_any s t c sys tos sender m rest to Hp Hn) as V. cbv zeta in V.
  set (e0 := {| e_sys := sys; e_sender := sender; e_msg := m |}) in *.
  set (tos' := firstn c tos ++ skipn (S c) tos) in *.
  pose proof (mh_head s t _ rest HM Hp) as Hnp. cbn [np_instr] in Hnp.
  pose proof (xi_pend s t _ rest HX Hp) as Hxi. cbn [xi_ok] in Hxi.
  apply (CInv_tstep s _ t _ rest _ _ _ (fun p => p) V);
    [|apply anc_mono_mstep|destruct tos'; reflexivity|intros b xb _ _ H; destruct tos'; exact H| |].
  - destruct (sysq_cases (snd (landing (fst (resolve s to)) e0))) as [->|[-> H]]; [left; reflexivity|right; eexists; split; [reflexivity|exact H]].
  - intros e He Hk _. exfalso. apply kenv_pause_msg in Hk. unfold sysq in He. destruct (fst (resolve s to)); cbn [landing snd] in He.
    + destruct sys; cbn in He; inversion He; subst e. exact (Hnp Hk).
    + destruct sys; cbn in He; inversion He; subst e. exact (Hnp Hk).
    + cbn in He. discriminate He.
  - intros a xa Hga Hne Hsc Hci. cbn [cinstr] in Hci. destruct sys; [|contradiction]. destruct Hci as (b & Hin & Hcm).
    assert (Hex : exists xb, get s b = Some xb) by (apply (cmsg_target_exists s a xa b m HR Hga Hcm); exact Hxi).
    destruct (In_remove_nth tos c (RObj b) to Hn Hin) as [<-|Hin'].
    + (* the chosen target is the covering one *)
      pose proof (resolve_target s (RObj b) b HW HR HRC eq_refl Hex) as Hmt.
      rewrite (landing_target _ b e0 Hmt) in *. cbn [fst snd] in *. change (sysq e0) with [e0] in *.
      apply (land_cover s _ t _ rest _ b e0 (fun p => p) a V (anc_mono_mstep s _) eq_refl Hex Hcm).
      intros _. destruct (cmsg_cases _ _ _ _ Hcm) as [E|[[k E]|[E|[c0 E]]]]; try (apply kenv_cover; eauto; fail).
      exfalso. exact (Hxi c0 E).
    + (* the covering target is still to be told *)
      left. left. exists t, (IEnqAny true tos' sender m). split.
      * rewrite (ts_pt _ _ _ _ _ _ _ _ _ V). fold tos' in Hin'. destruct tos' as [|r0 tl0]; [destruct Hin'|]. right. left. reflexivity.
      * cbn [cinstr]. exists b. split; [exact Hin'|eapply cmsg_mono; [apply anc_mono_mstep|exact Hcm]].
Qed.

Lemma In_move_done {A} (rem done : list A) ch to x :
  nth_error rem ch = Some to -> In x (rem ++ done) -> In x ((firstn ch rem ++ skipn (S ch) rem) ++ done ++ [to]).
Proof.
  intros Hn Hin. apply in_app_or in Hin. destruct Hin as [Hin|Hin].
  - destruct (In_remove_nth rem ch x to Hn Hin) as [->|H]; [apply in_or_app; right; apply in_or_app; right; left; reflexivity|apply in_or_app; left; exact H].
  - apply in_or_app. right. apply in_or_app. left. exact Hin.
Qed.

Lemma CInv_push_sup s t ch c d rem done rest to :
  Jall s -> pend_of s t = ISupPause c d rem done :: rest -> nth_error rem ch = Some to -> CInv s -> CInv (mstep s (MPush t ch)).
Proof.
  intros (((W & HLI & HR & HMK) & HK & HRC & HRS) & HX & HIRF & HW & HM) Hp Hn.
  pose proof (view_push_sup s t ch c d rem done rest to Hp Hn) as V. cbv zeta in V.
  set (e0 := {| e_sys := true; e_sender := RObj (self_of t); e_msg := MCmdPause |}) in *.
  pose proof (xi_pend s t _ rest HX Hp) as Hxi. cbn [xi_ok] in Hxi. destruct Hxi as [Hsup _].
  assert (Hcr : is_child_ref s (self_of t) to).
  { unfold sup_ok in Hsup. destruct c as [ch0 ts sub]. destruct Hsup as [(_ & Hts & _) _]. apply Hts. apply in_or_app. left. eapply nth_error_In; exact Hn. }
  destruct Hcr as (d0 & xd & -> & Hd0 & Hgd & _).
  pose proof (resolve_obj s d0 xd HW Hgd Hd0) as Hmb. rewrite Hmb in V. cbn [landing fst snd] in V. change (sysq e0) with [e0] in V.
  apply (CInv_tstep s _ t _ rest _ _ _ (fun p => p) V);
    [right; exists e0; split; reflexivity|apply anc_mono_mstep|reflexivity|intros b xb _ _ H; exact H| |].
  - intros e _ _ _. left. exists t, (ISupPause c d (firstn ch rem ++ skipn (S ch) rem) (done ++ [RObj d0])).
    split; [rewrite (ts_pt _ _ _ _ _ _ _ _ _ V); right; left; reflexivity|].
    cbn [cinstr]. left. apply in_or_app. right. apply in_or_app. right. left. reflexivity.
  - intros a xa Hga Hne Hsc Hci. left. left. exists t, (ISupPause c d (firstn ch rem ++ skipn (S ch) rem) (done ++ [RObj d0])).
    split; [rewrite (ts_pt _ _ _ _ _ _ _ _ _ V); right; left; reflexivity|].
    cbn [cinstr] in *. destruct Hci as [Hin|Hin]; [left; eapply In_move_done; eauto|right; exact Hin].
Qed.

Theorem CInv_push s t c : Jall s -> err (mstep s (MPush t c)) = false -> CInv s -> CInv (mstep s (MPush t c)).
Proof.
  intros HJ He. destruct (pend_of s t) as [|i rest] eqn:Hp; [cbn [mstep step] in He; rewrite Hp in He; discriminate He|].
  destruct i; try (cbn [mstep step] in He; rewrite Hp in He; discriminate He).
  - eapply CInv_push_enqr; eauto.
  - eapply CInv_push_mb; eauto.
  - destruct (nth_error tos c) as [to|] eqn:Hn; [eapply CInv_push_any; eauto|cbn [mstep step] in He; rewrite Hp, Hn in He; discriminate He].
  - destruct (nth_error remaining c) as [to|] eqn:Hn; [eapply CInv_push_sup; eauto|cbn [mstep step] in He; rewrite Hp, Hn in He; discriminate He].
Qed.

(** * the consumer's pops *)
Lemma pend_of_set_actor_same s a x y t : get s a = Some x -> a_pend y = a_pend x -> pend_of (set_actor s a y) t = pend_of s t.
Proof.
  intros Hg Hp. destruct t as [b|j]; cbn [pend_of]; [|reflexivity].
  destruct (Nat.eq_dec a b) as [<-|Hne]; [rewrite (get_set_same' _ _ _ _ Hg), Hg; exact Hp|rewrite get_set_other by exact Hne; reflexivity].
Qed.

Lemma CInv_set_mail s a0 x y :
  get s a0 = Some x -> a_pend y = a_pend x -> a_state y = a_state x -> a_zombie y = a_zombie x -> a_restarting y = a_restarting x ->
  a_paused y = a_paused x ->
  (forall f, need_after (map kenv (held y) ++ map kenv (a_sq y)) f = need_after (map kenv (held x) ++ map kenv (a_sq x)) f) ->
  (forall e, In e (held x ++ a_sq x) -> In e (held y ++ a_sq y)) ->
  (forall q c, anc s q c -> anc (set_actor s a0 y) q c) ->
  CInv s -> CInv (set_actor s a0 y).
Proof.
  intros Hg0 Hp Hst Hz Hr Hpa Hneed Hin Hanc HC a ya Hga Hne Hsc Hn.
  assert (Hx : exists xa, get s a = Some xa /\ inscope xa /\ need_after (pipeline xa) (eflag xa) = true).
  { destruct (Nat.eq_dec a0 a) as [<-|Hna].
    - rewrite (get_set_same' _ _ _ _ Hg0) in Hga. inversion Hga; subst ya. exists x. split; [exact Hg0|split].
      + destruct Hsc as [H1 H2]. split; [congruence|]. rewrite Hst, Hr, Hp in H2. exact H2.
      + unfold pipeline, eflag in *. rewrite Hp, Hpa, Hst in Hn. rewrite need_app in *. rewrite Hneed in Hn. exact Hn.
    - rewrite get_set_other in Hga by exact Hna. exists ya. auto. }
  destruct Hx as (xa & Hgx & Hscx & Hnx).
  destruct (HC a xa Hgx Hne Hscx Hnx) as [(t1 & i & Hi & Hci)|(q & xq & e & Hqa & Hgq & Hine & Hes & Hcm)].
  - left. exists t1, i. split; [rewrite (pend_of_set_actor_same s a0 x y t1 Hg0 Hp); exact Hi|eapply cinstr_mono; eauto].
  - right. destruct (Nat.eq_dec a0 q) as [<-|Hnq].
    + assert (xq = x) by congruence; subst xq. exists a0, y, e. split; [exact Hqa|split; [apply (get_set_same' _ _ _ _ Hg0)|split; [apply Hin; exact Hine|split; [exact Hes|eapply cmsg_mono; eauto]]]].
    + exists q, xq, e. split; [exact Hqa|split; [rewrite get_set_other by exact Hnq; exact Hgq|split; [exact Hine|split; [exact Hes|eapply cmsg_mono; eauto]]]].
Qed.

Lemma kenv_user e : e_sys e = false -> kenv e = KOther.
Proof. unfold kenv. intros ->. reflexivity. Qed.

Theorem CInv_pop s m a : Jall s -> is_pop m a -> err s = false -> err (mstep s m) = false -> CInv s -> CInv (mstep s m).
Proof.
  intros (_ & _ & _ & _ & HM) Hpop He0 He HC.
  destruct (view_pop s m a Hpop He0 He) as (x & sq' & uq' & co' & Hg & E & _ & Hrel). cbv zeta in Hrel.
  pose proof (anc_mono_mstep s m) as Hanc. rewrite E in *.
  apply (CInv_set_mail s a x _ Hg); try reflexivity; try assumption.
  - intros f. unfold held at 1. cbn [set_mb a_cons a_sq]. destruct Hrel as [Hr|(e & Hine & Hh & Hh' & ->)].
    + rewrite <- !map_app, Hr. reflexivity.
    + rewrite Hh', Hh. cbn [map app need_after fold_left].
      destruct HM as [M1 _]. destruct (M1 _ _ Hg) as (A & _). rewrite Forall_forall in A. destruct (A e Hine) as [Hes _].
      rewrite (kenv_user e Hes). reflexivity.
  - intros e Hin. unfold held at 1. cbn [set_mb a_cons a_sq]. destruct Hrel as [Hr|(e1 & Hine & Hh & Hh' & ->)].
    + rewrite Hr. exact Hin.
    + rewrite Hh', Hh in *. right. exact Hin.
Qed.

(** * HandleEnvelop *)
Definition scope0 (x : actor) : Prop := a_state x = Running \/ (a_restarting x <> None /\ a_state x = Killing).

Lemma dispatch_own s a x e :
  get s a = Some x -> a_zombie x = false -> (e_sys e = false -> e_msg e <> MCmdPause) ->
  forall y, get (fst (dispatch s a x e)) a = Some y ->
  scope0 y ->
  scope0 x /\ (need_after (map kinstr (snd (dispatch s a x e))) (eflag y) = true -> knext (eflag x) (kenv e) = true).
Proof.
  intros Hg Hz Hnp y Hy Hsc.
  assert (Hl : a < length (actors s)) by (eapply nth_error_lt; exact Hg).
  assert (Hget : forall y0, get (set_actor s a y0) a = Some y -> y = y0).
  { intros y0 H. rewrite (get_set_same _ _ _ Hl) in H. congruence. }
  assert (Hget2 : forall o y0, get (add_ghost (set_actor s a y0) o) a = Some y -> y = y0) by (intros o y0 H; apply (Hget y0); exact H).
  assert (Hget0 : get s a = Some y -> y = x) by (intros; congruence).
  assert (Hget1 : forall o, get (add_ghost s o) a = Some y -> y = x) by (intros o H; apply Hget0; exact H).
  unfold kenv. unfold dispatch in *. rewrite Hz in *. cbn [negb andb] in *. rewrite ?andb_true_r in *.
  destruct (e_msg e) eqn:Em; destruct (e_sys e) eqn:Es; try (exfalso; apply (Hnp eq_refl); reflexivity);
    destruct (a_state x) eqn:Est; cbn [negb andb] in *.
  all: repeat match goal with
              | H : context[match ?c with _ => _ end] |- _ => destruct c eqn:?
              | |- context[match ?c with _ => _ end] => destruct c eqn:?
              end.
  all: cbn [fst snd] in *.
  all: try (first [apply Hget in Hy|apply Hget2 in Hy|apply Hget0 in Hy|apply Hget1 in Hy]; subst y).
  all: unfold scope0, eflag in *; cbn in *; rewrite ?Est in *; cbn in *.
  all: try (destruct Hsc as [Hsc|[_ Hsc]]; discriminate Hsc).
  all: (split; [first [left; reflexivity|right; split; [assumption|reflexivity]|assumption|idtac]|intros Hn]).
  all: try discriminate Hn.
  all: try (rewrite andb_false_r in Hn; discriminate Hn).
  all: try first [reflexivity|assumption].
  all: exfalso; destruct Hsc as [Hsc|[Hsc _]]; [discriminate Hsc|apply Hsc; reflexivity].
Qed.

Lemma dispatch_kill_cover s s' q x e a :
  ((exists k, e_msg e = MKill k false) \/ e_msg e = MRestart false) -> e_sys e = true -> a_zombie x = false -> a_state x <> Killed ->
  anc s' q a -> q <> a -> (exists c, In (RObj c) (map (fun p => RObj (snd p)) (a_children x)) /\ anc s' c a) ->
  exists i, In i (snd (dispatch s q x e)) /\ cinstr s' a q i.
Proof.
  intros Hm Hs Hz Hst Hanc Hne (c & Hin & Hca).
  assert (Hch : a_children x <> []) by (intros E; rewrite E in Hin; destruct Hin).
  unfold dispatch. rewrite Hz, Hs. cbn [negb andb]. rewrite ?andb_false_r.
  destruct Hm as [[k Em]|Em]; rewrite Em; destruct (a_state x) eqn:Est; try congruence; cbn [fst snd].
  - exists (IDoKill false). split; [left; reflexivity|]. cbn [cinstr]. auto.
  - destruct (a_children x) as [|p l] eqn:Ec; [congruence|]. cbn [app].
    eexists. split; [left; reflexivity|]. cbn [cinstr]. exists c. split; [exact Hin|exact Hca].
  - exists (IDoKill false). split; [right; left; reflexivity|]. cbn [cinstr]. auto.
  - destruct (a_children x) as [|p l] eqn:Ec; [congruence|]. cbn [app].
    eexists. split; [right; left; reflexivity|]. cbn [cinstr]. exists c. split; [exact Hin|exact Hca].
Qed.

Lemma dispatch_sup_ins s q x e c :
  e_msg e = MSup c -> e_sys e = true -> (a_state x = Killed -> a_zombie x = true) ->
  exists d, snd (dispatch s q x e) =
    [ISupPause c d (match sp_strategy (a_spec x) with 2%N => map (fun p => RObj (snd p)) (a_children x) | _ => match c with SupCtx ch _ _ => [ch] end end) [];
     IEndHandler].
Proof.
  intros Em Hs Hk. unfold dispatch. rewrite Hs, Em. cbn [negb andb].
  assert (Hd : (match a_state x with Killed => true | Running => false | Killing => false end && negb (a_zombie x)) = false).
  { destruct (a_state x); try reflexivity. rewrite (Hk eq_refl). reflexivity. }
  rewrite Hd.
  destruct (sp_strategy (a_spec x)) as [|[p|p|]] eqn:Est; cbn [fst snd].
  all: try (destruct (a_decisions x); eexists; reflexivity).
  all: try (eexists; reflexivity).
  all: destruct p; try (destruct (a_decisions x); eexists; reflexivity).
Qed.

Lemma child_on_path s q a xa :
  LI s -> RInv s -> KInv s -> get s a = Some xa -> a <> 0 -> regd s a xa -> anc s q a -> q <> a ->
  exists xq, get s q = Some xq /\ a_state xq <> Killed /\ a_zombie xq = false /\
             exists c, In (RObj c) (map (fun p => RObj (snd p)) (a_children xq)) /\ anc s c a.
Proof.
  intros HLI HR HK Hg Hne Hreg Hanc Hqa.
  destruct (anc_alive s q a xa HLI HR HK Hg Hne Hreg Hanc Hqa) as (xq & c & xc & Hgq & Hst & Hz & _ & Hgc & Hpc & Hlk & _ & _ & Hca).
  exists xq. split; [exact Hgq|split; [exact Hst|split; [exact Hz|]]]. exists c. split; [|exact Hca].
  destruct (alookup_In _ _ _ Hlk) as (p & Hin & _). apply in_map_iff. exists (p, c). split; [reflexivity|exact Hin].
Qed.

(** held envelopes: what is not a system envelope is not a pause command *)
Definition NS (s : state) : Prop :=
  forall a x, get s a = Some x -> Forall (fun e => e_sys e = false -> e_msg e <> MCmdPause) (held x).

Theorem CInv_handle s a0 : Jall s -> NS s -> err (mstep s (MHandle a0)) = false -> CInv s -> CInv (mstep s (MHandle a0)).
Proof.
  intros (((W & HLI & HR & HMK) & HK & HRC & HRS) & HX & HIRF & HW & HM) HNS He HC.
  destruct (view_handle s a0 W He) as (x & e & y & Hg & Hc & Hpx & V). cbv zeta in V. destruct V as (Hdf & Hy & Ha & Hex & _).
  set (s' := mstep s (MHandle a0)) in *.
  set (s0 := set_actor s a0 (busy x)) in *.
  set (ins := snd (dispatch s0 a0 (busy x) e)) in *.
  assert (Hl : a0 < length (actors s)) by (eapply nth_error_lt; exact Hg).
  assert (Hg0 : get s0 a0 = Some (busy x)) by (apply get_set_same; exact Hl).
  assert (Hg' : get s' a0 = Some (upd_pend y ins)) by (unfold get; rewrite Ha; apply nth_upd_eq; exact Hl).
  assert (Hgo : forall b, b <> a0 -> get s' b = get s b) by (intros b Hb; unfold get; rewrite Ha; apply nth_upd_neq; congruence).
  assert (Hpo : forall t, t <> TA a0 -> pend_of s' t = pend_of s t).
  { intros [b|j] Hne; cbn [pend_of]; [rewrite Hgo by congruence; reflexivity|rewrite Hex; reflexivity]. }
  assert (Hpa0 : pend_of s (TA a0) = []) by (rewrite (pend_of_TA _ _ _ Hg); exact Hpx).
  assert (Hpa0' : pend_of s' (TA a0) = ins) by (rewrite (pend_of_TA _ _ _ Hg'); reflexivity).
  pose proof (anc_mono_mstep s (MHandle a0)) as Hanc. fold s' in Hanc.
  assert (Hheld : held x = [e]) by (unfold held; rewrite Hc; reflexivity).
  assert (Hheldy : held y = []) by (unfold held; rewrite (df_cons _ _ Hdf); reflexivity).
  (* covers survive unless they are the handled envelope *)
  assert (Hpersist : forall a, a <> a0 -> cov s a ->
            (e_sys e = true -> cmsg s a a0 (e_msg e) -> cov s' a) -> cov s' a).
  { intros a Hna [(t1 & i & Hi & Hci)|(q & xq & e1 & Hqa & Hgq & Hine & Hes & Hcm)] Hcons.
    - destruct (tid_dec t1 (TA a0)) as [->|Hnt]; [rewrite Hpa0 in Hi; destruct Hi|].
      left. exists t1, i. split; [rewrite (Hpo t1 Hnt); exact Hi|eapply cinstr_mono; eauto].
    - destruct (Nat.eq_dec q a0) as [->|Hnq].
      + assert (xq = x) by congruence; subst xq. rewrite Hheld in Hine. destruct Hine as [<-|Hine].
        * apply (Hcons Hes Hcm).
        * right. exists a0, (upd_pend y ins), e1. split; [exact Hqa|split; [exact Hg'|split; [|split; [exact Hes|eapply cmsg_mono; eauto]]]].
          change (held (upd_pend y ins)) with (held y). rewrite Hheldy. cbn [app upd_pend a_sq]. rewrite (df_sq _ _ Hdf). exact Hine.
      + right. exists q, xq, e1. split; [exact Hqa|split; [rewrite Hgo by exact Hnq; exact Hgq|split; [exact Hine|split; [exact Hes|eapply cmsg_mono; eauto]]]]. }
  intros a ya Hga Hne Hsc Hn.
  destruct (Nat.eq_dec a a0) as [->|Hna].
  - (* the handling context itself *)
    assert (ya = upd_pend y ins) by congruence; subst ya.
    destruct Hsc as [Hz Hs]. cbn [upd_pend a_zombie a_state a_restarting a_pend] in Hz, Hs.
    assert (Hzx : a_zombie x = false) by (rewrite (df_zombie _ _ Hdf) in Hz; exact Hz).
    pose proof (HLI _ _ Hg) as (L1 & _).
    destruct (dispatch_life s0 a0 (busy x) e Hg0 L1) as (y2 & Hy2 & _ & _ & _ & _ & _ & Hlf). fold ins in Hlf.
    assert (Hsc0 : scope0 y).
    { destruct Hs as [E|[Hr [E|E]]]; [left; exact E|right; split; assumption|].
      exfalso. destruct Hlf as [E1|[[p E1]|[w E1]]]; rewrite E1 in E; cbn in E; intuition discriminate. }
    assert (Hnsp : e_sys e = false -> e_msg e <> MCmdPause).
    { pose proof (HNS _ _ Hg) as Hh. rewrite Hheld in Hh. inversion Hh; assumption. }
    destruct (dispatch_own s0 a0 (busy x) e Hg0 Hzx Hnsp y Hy Hsc0) as [Hscx Hneedrel]. fold ins in Hneedrel.
    assert (Hscx' : inscope x).
    { split; [exact Hzx|]. destruct Hscx as [E|[Hr E]]; [left; exact E|right; split; [exact Hr|left; exact E]]. }
    assert (Hnx : need_after (pipeline x) (eflag x) = true).
    { unfold pipeline in *. cbn [upd_pend a_pend a_sq] in Hn. change (held (upd_pend y ins)) with (held y) in Hn.
      rewrite Hheldy, (df_sq _ _ Hdf) in Hn. cbn [map app] in Hn. rewrite need_app in Hn.
      rewrite Hpx, Hheld. cbn [map app]. change (need_after (kenv e :: map kenv (a_sq x)) (eflag x)) with (need_after (map kenv (a_sq x)) (knext (eflag x) (kenv e))).
      eapply need_mono; [|exact Hn]. exact Hneedrel. }
    pose proof (HC a0 x Hg Hne Hscx' Hnx) as Hcov.
    (* a cover of a0 is never in a0's own hands *)
    destruct Hcov as [(t1 & i & Hi & Hci)|(q & xq & e1 & Hqa & Hgq & Hine & Hes & Hcm)].
    + destruct (tid_dec t1 (TA a0)) as [->|Hnt]; [rewrite Hpa0 in Hi; destruct Hi|].
      left. exists t1, i. split; [rewrite (Hpo t1 Hnt); exact Hi|eapply cinstr_mono; eauto].
    + right. exists q, xq, e1. split; [exact Hqa|split; [rewrite Hgo by exact Hqa; exact Hgq|split; [exact Hine|split; [exact Hes|eapply cmsg_mono; eauto]]]].
  - (* another context *)
    rewrite Hgo in Hga by exact Hna.
    pose proof (HC a ya Hga Hne Hsc Hn) as Hcov.
    apply (Hpersist a Hna Hcov).
    intros Hes Hcm.
    pose proof (inscope_regd s a ya HR Hga Hne Hsc) as Hreg.
    left. exists (TA a0). rewrite Hpa0'. cbn [self_of].
    destruct (cmsg_cases _ _ _ _ Hcm) as [E|[[k E]|[E|[c0 E]]]].
    + exfalso. rewrite E in Hcm. cbn in Hcm. congruence.
    + rewrite E in Hcm. cbn [cmsg] in Hcm.
      destruct (child_on_path s a0 a ya HLI HR HK Hga Hne Hreg Hcm ltac:(congruence)) as (xq & Hgq & Hst & Hz & c & Hin & Hca).
      assert (xq = x) by congruence; subst xq.
      refine (dispatch_kill_cover s0 s' a0 (busy x) e a (or_introl (ex_intro _ k E)) Hes Hz Hst (Hanc _ _ Hcm) _ _); [congruence|exists c; split; [exact Hin|apply Hanc; exact Hca]].
    + rewrite E in Hcm. cbn [cmsg] in Hcm.
      destruct (child_on_path s a0 a ya HLI HR HK Hga Hne Hreg Hcm ltac:(congruence)) as (xq & Hgq & Hst & Hz & c & Hin & Hca).
      assert (xq = x) by congruence; subst xq.
      refine (dispatch_kill_cover s0 s' a0 (busy x) e a (or_intror E) Hes Hz Hst (Hanc _ _ Hcm) _ _); [congruence|exists c; split; [exact Hin|apply Hanc; exact Hca]].
    + rewrite E in Hcm. cbn [cmsg] in Hcm.
      assert (Hxe : xe_ok s a0 e).
      { destruct HX as [X1 _]. destruct (X1 _ _ Hg) as [Hen _]. rewrite Forall_forall in Hen. apply Hen.
        unfold envs. rewrite Hheld. apply in_or_app. right. apply in_or_app. right. left. reflexivity. }
      destruct (Hxe c0 E) as [Hat Hsub]. destruct c0 as [ch ts sub]. destruct Hat as [-> Hch]. cbn [covers_ctx chain_targets app] in Hcm.
      (* the reporting child is registered, so its parent a0 is alive *)
      assert (Halive : a_state x <> Killed /\ (In (RObj a) [ch] -> In (RObj a) (map (fun p => RObj (snd p)) (a_children x)))).
      { assert (Hb : exists b xb, ch = RObj b /\ get s b = Some xb /\ b <> 0 /\ regd s b xb /\ a_parent xb = Some a0).
        { destruct Hch as (b & xb & -> & Hb0 & Hgb & Hpb). exists b, xb.
          assert (Hrb : regd s b xb).
          { destruct Hcm as [E1|Hin]; [inversion E1; subst b; assert (xb = ya) by congruence; subst; exact Hreg|].
            destruct sub as [c1|]; [|destruct Hin]. cbn [ctx_sub_ok] in Hsub. destruct Hsub as [(b' & E2 & Hl1) Hs1]. inversion E2; subst b'.
            destruct (chain_anc s a ya HLI HR HK Hga Hne Hreg c1 b Hl1 Hs1 Hin) as [Hba Hbn].
            destruct (anc_alive s b a ya HLI HR HK Hga Hne Hreg Hba Hbn) as (xb' & _ & _ & Hgb' & _ & _ & Hr & _).
            assert (xb' = xb) by congruence; subst. apply Hr. exact Hb0. }
          split; [reflexivity|split; [exact Hgb|split; [exact Hb0|split; [exact Hrb|]]]].
          destruct Hpb as [Hp|(xc & Hxc & Hnr)]; [exact Hp|exfalso; assert (xc = xb) by congruence; subst; exact (Hnr Hrb)]. }
        destruct Hb as (b & xb & -> & Hgb & Hb0 & Hrb & Hpb).
        destruct (parent_alive s b xb HLI HR HK Hgb Hb0 Hrb) as (q & xq & Hq & _ & Hgq & Hlk & Hstq & _).
        assert (q = a0) by congruence; subst q. assert (xq = x) by congruence; subst xq. split; [exact Hstq|].
        intros [E1|[]]. inversion E1; subst b. assert (xb = ya) by congruence; subst xb.
        destruct (alookup_In _ _ _ Hlk) as (p & Hin & _). apply in_map_iff. exists (p, a). split; [reflexivity|exact Hin]. }
      destruct Halive as [Hstx Hkid].
      destruct (dispatch_sup_ins s0 a0 (busy x) e (SupCtx ch [] sub) E Hes ltac:(intros Hk; exfalso; exact (Hstx Hk))) as [d Hins].
      fold ins in Hins. rewrite Hins. eexists. split; [left; reflexivity|]. cbn [cinstr sub_targets]. rewrite app_nil_r.
      destruct Hcm as [E1|Hin]; [left|right; exact Hin].
      cbn [busy set_mb a_spec a_children]. destruct (sp_strategy (a_spec x)) as [|[p|p|]]; cbv beta iota; try (left; exact E1).
      destruct p; cbv beta iota; try (left; exact E1). apply Hkid. left. exact E1.
Qed.

(** * one atomic instruction *)
Lemma need_new p g par sp : need_after (pipeline (new_actor p g par sp)) (eflag (new_actor p g par sp)) = false.
Proof. reflexivity. Qed.

Lemma self_of_TA t a : a = self_of t -> a <> 0 -> t = TA a.
Proof. destruct t; cbn; intros; subst; congruence. Qed.

Section AStep.
  Variables (s : state) (t : tid) (i : instr) (rest : list instr) (x : actor).
  Hypothesis W : wf s.
  Hypothesis Hg : get s (self_of t) = Some x.
  Hypothesis Hp : pend_of s t = i :: rest.
  Let s' := astep s t i rest.
  Hypothesis He : err s' = false.
  Hypothesis Hanc : forall q c, anc s q c -> anc s' q c.
  Hypothesis Oown : forall a ya, t = TA a -> a <> 0 -> get s' a = Some ya -> inscope ya -> need_after (pipeline ya) (eflag ya) = true ->
    (inscope x /\ need_after (pipeline x) (eflag x) = true) \/ cov s' a.
  Hypothesis Ocons : forall a xa, get s a = Some xa -> a <> 0 -> inscope xa -> cinstr s a (self_of t) i -> cov s' a.

  Lemma astep_pend_self : exists front, pend_of s' t = front ++ rest.
  Proof.
    unfold s', astep in *. destruct (exec1 (set_pend s t rest) t (held_of (set_pend s t rest) t) i) as [s1 front] eqn:E.
    rewrite (pend_of_set_pend_ok _ _ _ He). exists front.
    (* the instruction does not touch the pending list of its own thread *)
    assert (Hs1 : pend_of s1 t = rest).
    { destruct t as [a|j]; cbn [self_of] in *.
      - assert (Hg0 : get (set_pend s (TA a) rest) a = Some (upd_pend x rest)).
        { rewrite (set_pend_TA _ _ _ _ Hg). apply (get_set_same' _ _ _ _ Hg). }
        destruct (exec1_actors (set_pend s (TA a) rest) (TA a) (held_of (set_pend s (TA a) rest) (TA a)) i _ Hg0) as (y & news & Hy & _ & Ha).
        rewrite E in Ha. cbn [fst self_of] in Ha. cbn [pend_of]. unfold get. rewrite Ha.
        assert (Hl : a < length (actors (set_pend s (TA a) rest))) by (eapply nth_error_lt; exact Hg0).
        rewrite nth_error_app1 by (rewrite upd_length; exact Hl). rewrite nth_upd_eq by exact Hl. rewrite (lu_pend _ _ _ Hy). reflexivity.
      - pose proof (exec1_exts_pend (set_pend s (TX j) rest) (TX j) (held_of (set_pend s (TX j) rest) (TX j)) i) as Hm. rewrite E in Hm. cbn [fst] in Hm.
        destruct (pend_of_TX_cons _ _ _ _ Hp) as (ex & Hn & Hpx).
        apply (f_equal (fun l => nth_error l j)) in Hm. rewrite !nth_error_map in Hm.
        cbn [set_pend] in Hm. rewrite Hn in Hm. cbn [set_ext exts] in Hm. rewrite nth_upd_eq in Hm by (eapply nth_error_lt; exact Hn). cbn in Hm.
        cbn [pend_of]. destruct (nth_error (exts s1) j) as [e1|]; [|discriminate Hm]. cbn in Hm. inversion Hm. reflexivity. }
    rewrite Hs1. reflexivity.
  Qed.

  Lemma astep_pend_other t' : t' <> t -> pend_of s' t' = pend_of s t'.
  Proof.
    intros Hne. destruct t' as [b|k]; cbn [pend_of].
    - destruct (Nat.eq_dec b (self_of t)) as [->|Hb].
      + (* the root, when an external caller runs *)
        destruct t as [a|j]; cbn [self_of] in *; [congruence|].
        destruct (astep_table s (TX j) i rest x Hg Hp) as (_ & y & news & Hy & _ & _ & Ha & _). cbv zeta in Ha. cbn [self_of pushed] in Ha.
        fold s' in Ha. unfold get at 1. rewrite Ha. rewrite nth_error_app1 by (rewrite upd_length; eapply nth_error_lt; exact Hg).
        rewrite nth_upd_eq by (eapply nth_error_lt; exact Hg). rewrite Hg. rewrite (lu_pend _ _ _ Hy). reflexivity.
      + destruct (Nat.lt_ge_cases b (length (actors s))) as [Hlt|Hge].
        * unfold s'. rewrite (astep_other s t i rest x b Hg Hp Hb Hlt). reflexivity.
        * assert (E0 : get s b = None) by (apply nth_error_None; exact Hge). rewrite E0.
          destruct (get s' b) as [yb|] eqn:E1; [|reflexivity].
          destruct (astep_table s t i rest x Hg Hp) as (_ & y & news & _ & Hnews & _ & Ha & _). cbv zeta in Ha. fold s' in Ha.
          unfold get in E1. rewrite Ha in E1. rewrite nth_error_app2 in E1 by (rewrite upd_length; exact Hge). apply nth_error_In in E1.
          rewrite Forall_forall in Hnews. destruct (Hnews _ E1) as (p & g & par & sp & ->). reflexivity.
    - destruct (nth_error (exts s') k) as [exk|] eqn:Ek.
      + destruct (astep_exts s t i rest k exk Ek) as [[-> _]|(exo & Ho & E)]; [congruence|]. rewrite Ho. exact E.
      + (* the table of external callers keeps its length *)
        destruct (nth_error (exts s) k) as [exo|] eqn:Eo; [|reflexivity]. exfalso.
        pose proof (exec1_exts_pend (set_pend s t rest) t (held_of (set_pend s t rest) t) i) as Hm.
        unfold s', astep in Ek. destruct (exec1 (set_pend s t rest) t (held_of (set_pend s t rest) t) i) as [s1 front]. cbn [fst] in Hm.
        assert (L1 : length (exts s1) = length (exts (set_pend s t rest))) by (apply (f_equal (@length _)) in Hm; rewrite !map_length in Hm; exact Hm).
        assert (L0 : length (exts (set_pend s t rest)) = length (exts s)).
        { destruct t as [a|j]; cbn [set_pend].
          - destruct (with_actor_fields s a (fun x0 => upd_pend x0 rest)) as (_ & _ & _ & _ & E & _). rewrite E. reflexivity.
          - destruct (nth_error (exts s) j); [cbn; apply upd_length|reflexivity]. }
        assert (L2 : length (exts (set_pend s1 t (front ++ pend_of s1 t))) = length (exts s1)).
        { destruct t as [a|j]; cbn [set_pend].
          - destruct (with_actor_fields s1 a (fun x0 => upd_pend x0 (front ++ pend_of s1 (TA a)))) as (_ & _ & _ & _ & E & _). rewrite E. reflexivity.
          - destruct (nth_error (exts s1) j); [cbn; apply upd_length|reflexivity]. }
        apply nth_error_None in Ek. assert (k < length (exts s)) by (eapply nth_error_lt; exact Eo). lia.
  Qed.

  Lemma astep_self_mail : exists ys, get s' (self_of t) = Some ys /\ (forall e, In e (held x ++ a_sq x) -> In e (held ys ++ a_sq ys)).
  Proof.
    destruct (astep_table s t i rest x Hg Hp) as (_ & y & news & Hy & _ & _ & Ha & _). cbv zeta in Ha. fold s' in Ha.
    assert (Hl : self_of t < length (actors s)) by (eapply nth_error_lt; exact Hg).
    exists (pushed t y (snd (exec1 (set_pend s t rest) t (held_of (set_pend s t rest) t) i) ++ rest)).
    split; [unfold get; rewrite Ha; rewrite nth_error_app1 by (rewrite upd_length; exact Hl); apply nth_upd_eq; exact Hl|].
    intros e Hin. apply in_app_or in Hin. apply in_or_app.
    assert (Hsq : a_sq (pushed t y (snd (exec1 (set_pend s t rest) t (held_of (set_pend s t rest) t) i) ++ rest)) = a_sq x).
    { destruct t; cbn [pushed popped upd_pend a_sq] in *; rewrite (lu_sq _ _ _ Hy); reflexivity. }
    rewrite Hsq. destruct Hin as [Hin|Hin]; [|right; exact Hin]. left.
    destruct t as [a|j]; cbn [self_of pushed popped] in *.
    - (* an actor's handler runs with nothing in hand *)
      exfalso. destruct (pend_of_TA_cons _ _ _ _ Hp) as (x1 & Hg1 & Hpx). assert (x1 = x) by congruence; subst x1.
      destruct W as [HA _]. pose proof (Forall_nth _ _ _ _ HA Hg) as [E|(md & l & Hc & _)]; [congruence|].
      unfold held in Hin. rewrite Hc in Hin. destruct Hin.
    - destruct (pend_of_TX_cons _ _ _ _ Hp) as (ex & Hn & Hpx). destruct W as [_ HXw].
      pose proof (Forall_nth _ _ _ _ HXw Hn) as Hok. cbv beta in Hok. rewrite Hpx in Hok. cbn [forallb] in Hok. apply andb_true_iff in Hok. destruct Hok as [Hi _].
      unfold held in *. destruct (lu_cons _ _ _ Hy) as [E|[[E _]|[E _]]]; [rewrite E; exact Hin|subst i; discriminate Hi|subst i; discriminate Hi].
  Qed.

  Lemma astep_persist a xa : get s a = Some xa -> a <> 0 -> inscope xa -> cov s a -> cov s' a.
  Proof.
    intros Hga Hne Hsc [(t1 & i1 & Hi & Hci)|(q & xq & e & Hqa & Hgq & Hine & Hes & Hcm)].
    - destruct (tid_dec t1 t) as [->|Hnt].
      + rewrite Hp in Hi. destruct Hi as [<-|Hi]; [apply (Ocons a xa Hga Hne Hsc Hci)|].
        destruct astep_pend_self as [front Hf]. left. exists t, i1. split; [rewrite Hf; apply in_or_app; right; exact Hi|eapply cinstr_mono; eauto].
      + left. exists t1, i1. split; [rewrite (astep_pend_other t1 Hnt); exact Hi|eapply cinstr_mono; eauto].
    - right. destruct (Nat.eq_dec q (self_of t)) as [->|Hnq].
      + destruct astep_self_mail as (ys & Hys & Hin). assert (xq = x) by congruence; subst xq.
        exists (self_of t), ys, e. split; [exact Hqa|split; [exact Hys|split; [apply Hin; exact Hine|split; [exact Hes|eapply cmsg_mono; eauto]]]].
      + exists q, xq, e. split; [exact Hqa|split; [|split; [exact Hine|split; [exact Hes|eapply cmsg_mono; eauto]]]].
        unfold s'. rewrite (astep_other s t i rest x q Hg Hp Hnq (nth_error_lt _ _ _ Hgq)). exact Hgq.
  Qed.

  Theorem CInv_astep_gen : CInv s -> CInv s'.
  Proof.
    intros HC a ya Hga Hne Hsc Hn.
    destruct (Nat.lt_ge_cases a (length (actors s))) as [Hlt|Hge].
    - destruct (Nat.eq_dec a (self_of t)) as [Eas|Hns].
      + pose proof (self_of_TA t a Eas Hne) as Et.
        destruct (Oown a ya Et Hne Hga Hsc Hn) as [[Hscx Hnx]|Hc]; [|exact Hc].
        pose proof Hg as Hg2. rewrite <- Eas in Hg2. apply (astep_persist a x Hg2 Hne Hscx). apply (HC a x Hg2 Hne Hscx Hnx).
      + unfold s' in Hga. rewrite (astep_other s t i rest x a Hg Hp Hns Hlt) in Hga.
        apply (astep_persist a ya Hga Hne Hsc). apply (HC a ya Hga Hne Hsc Hn).
    - exfalso. destruct (astep_table s t i rest x Hg Hp) as (_ & y & news & _ & Hnews & _ & Ha & _). cbv zeta in Ha. fold s' in Ha.
      unfold get in Hga. rewrite Ha in Hga. rewrite nth_error_app2 in Hga by (rewrite upd_length; exact Hge). apply nth_error_In in Hga.
      rewrite Forall_forall in Hnews. destruct (Hnews _ Hga) as (p & g & par & sp & ->). rewrite need_new in Hn. discriminate Hn.
  Qed.
End AStep.

Lemma astep_front s t i rest x :
  get s (self_of t) = Some x -> pend_of s t = i :: rest -> err (astep s t i rest) = false ->
  pend_of (astep s t i rest) t = snd (exec1 (set_pend s t rest) t (held_of (set_pend s t rest) t) i) ++ rest.
Proof.
  intros Hg Hp He.
  unfold astep in *. destruct (exec1 (set_pend s t rest) t (held_of (set_pend s t rest) t) i) as [s1 front] eqn:E.
  rewrite (pend_of_set_pend_ok _ _ _ He). cbn [snd]. f_equal.
  destruct t as [a|j]; cbn [self_of] in *.
  - assert (Hg0 : get (set_pend s (TA a) rest) a = Some (upd_pend x rest)).
    { rewrite (set_pend_TA _ _ _ _ Hg). apply (get_set_same' _ _ _ _ Hg). }
    destruct (exec1_actors (set_pend s (TA a) rest) (TA a) (held_of (set_pend s (TA a) rest) (TA a)) i _ Hg0) as (y & news & Hy & _ & Ha).
    rewrite E in Ha. cbn [fst self_of] in Ha. cbn [pend_of]. unfold get. rewrite Ha.
    assert (Hl : a < length (actors (set_pend s (TA a) rest))) by (eapply nth_error_lt; exact Hg0).
    rewrite nth_error_app1 by (rewrite upd_length; exact Hl). rewrite nth_upd_eq by exact Hl. rewrite (lu_pend _ _ _ Hy). reflexivity.
  - pose proof (exec1_exts_pend (set_pend s (TX j) rest) (TX j) (held_of (set_pend s (TX j) rest) (TX j)) i) as Hm. rewrite E in Hm. cbn [fst] in Hm.
    destruct (pend_of_TX_cons _ _ _ _ Hp) as (ex & Hn & Hpx).
    apply (f_equal (fun l => nth_error l j)) in Hm. rewrite !nth_error_map in Hm.
    cbn [set_pend] in Hm. rewrite Hn in Hm. cbn [set_ext exts] in Hm. rewrite nth_upd_eq in Hm by (eapply nth_error_lt; exact Hn). cbn in Hm.
    cbn [pend_of]. destruct (nth_error (exts s1) j) as [e1|]; [|discriminate Hm]. cbn in Hm. inversion Hm. reflexivity.
Qed.

Lemma astep_self_get s t i rest x : get s (self_of t) = Some x -> pend_of s t = i :: rest -> get (set_pend s t rest) (self_of t) = Some (popped t x rest).
Proof. intros Hg Hp. apply (astep_table s t i rest x Hg Hp). Qed.

Lemma ref_target_parent x : exists p, ref_target (rref_parent x) = Some p.
Proof. unfold rref_parent. destruct (a_parent x); cbn; eauto. Qed.

Lemma astep_cons s t i rest x :
  Jall s -> get s (self_of t) = Some x -> pend_of s t = i :: rest -> yielding i = false -> is_enq i = false ->
  err (astep s t i rest) = false ->
  forall a xa, get s a = Some xa -> a <> 0 -> inscope xa -> cinstr s a (self_of t) i -> cov (astep s t i rest) a.
Proof.
  intros (((W & HLI & HR & HMK) & HK & HRC & HRS) & HX & HIRF & HW & HM) Hg Hp Hy Hq He a xa Hga Hne Hsc Hci.
  pose proof (astep_front s t i rest x Hg Hp He) as Hf. pose proof (astep_self_get s t i rest x Hg Hp) as Hg0.
  pose proof (anc_mstep s (MAtomic t)) as Hanc. rewrite (mstep_atomic_exec s t i rest Hp Hy Hq) in Hanc.
  set (s' := astep s t i rest) in *. set (s0 := set_pend s t rest) in *.
  pose proof (inscope_regd s a xa HR Hga Hne Hsc) as Hreg.
  assert (Hwit : forall i1, In i1 (snd (exec1 s0 t (held_of s0 t) i)) -> cinstr s' a (self_of t) i1 -> cov s' a).
  { intros i1 Hin Hc. left. exists t, i1. split; [rewrite Hf; apply in_or_app; left; exact Hin|exact Hc]. }
  pose proof (xi_pend s t i rest HX Hp) as Hxi.
  destruct i; cbn [cinstr] in Hci; try contradiction; try discriminate Hy; try discriminate Hq.
  - (* the pause loop has finished *)
    destruct remaining; [|discriminate Hy].
    apply (Hwit (ISupApply c d done)); [unfold exec1; rewrite Hg0; left; reflexivity|]. cbn [cinstr]. exact Hci.
  - (* stop / restart of an ancestor: its children are told next *)
    destruct poison; [contradiction|]. destruct Hci as [Hsa Hsn].
    destruct (child_on_path s (self_of t) a xa HLI HR HK Hga Hne Hreg Hsa Hsn) as (xq & Hgq & _ & _ & c & Hin & Hca).
    assert (xq = x) by congruence; subst xq.
    assert (Hch : a_children (popped t x rest) = a_children x) by (destruct t; reflexivity).
    destruct (a_children x) as [|p l] eqn:Ec; [destruct Hin|].
    apply (Hwit (IEnqAny true (map (fun p0 => RObj (snd p0)) (p :: l)) (RObj (self_of t)) (MKill (RObj (self_of t)) false))).
    + unfold exec1. rewrite Hg0, Hch. left. reflexivity.
    + cbn [cinstr]. exists c. split; [exact Hin|cbn [cmsg]; apply Hanc; exact Hca].
  - (* the decision is applied *)
    cbn [xi_ok] in Hxi. destruct Hxi as [Hsup Hroot]. destruct c as [ch ts sub]. destruct Hsup as [(Hch & Hts & Hchin) Hsub]. cbn [sub_targets] in Hci.
    set (c1 := SupCtx ch targets sub).
    assert (Htop : (exists b, In (RObj b) targets /\ anc s b a) /\ In (RObj a) (chain_targets c1)).
    { destruct Hci as [Hin|Hin].
      - split; [exists a; split; [exact Hin|apply anc_refl]|cbn [c1 chain_targets]; apply in_or_app; left; exact Hin].
      - destruct sub as [c2|]; [|destruct Hin]. cbn [ctx_sub_ok] in Hsub. destruct Hsub as [(b & -> & Hl2) Hs2].
        destruct (chain_anc s a xa HLI HR HK Hga Hne Hreg c2 b Hl2 Hs2 Hin) as [Hba Hbn].
        split; [|cbn [c1 chain_targets]; apply in_or_app; right; exact Hin].
        exists b. split; [|exact Hba]. destruct Hchin as [H|(d0 & E & Hd0 & (xd & Hxd & Hnr))]; [exact H|]. inversion E; subst d0.
        exfalso. destruct (anc_alive s b a xa HLI HR HK Hga Hne Hreg Hba Hbn) as (xb & _ & _ & Hgb & _ & _ & Hr & _).
        assert (xd = xb) by congruence; subst. exact (Hnr (Hr Hd0)). }
    destruct Htop as [(b & Hbin & Hba) Hchain].
    assert (Hflat : forall (f : rref -> list instr) l r i1, In r l -> In i1 (f r) -> In i1 (flat_map f l)).
    { intros f l r i1 H1 H2. apply in_flat_map. exists r. auto. }
    destruct d.
    + apply (Hwit (IEnq true (RObj b) (RObj (self_of t)) (MRestart false))).
      * unfold exec1. rewrite Hg0. cbn [snd is_graceful negb]. apply in_or_app. left. eapply Hflat; [exact Hbin|left; reflexivity].
      * cbn [cinstr]. exists b. split; [reflexivity|cbn [cmsg]; apply Hanc; exact Hba].
    + apply (Hwit (IEnq true (RObj a) (RObj (self_of t)) MCmdResume)).
      * unfold exec1. rewrite Hg0. cbn [snd is_graceful negb]. apply in_or_app. right. eapply Hflat; [exact Hchain|left; reflexivity].
      * cbn [cinstr]. exists a. split; reflexivity.
    + apply (Hwit (IEnq true (RObj b) (RObj (self_of t)) (MKill (RObj (self_of t)) false))).
      * unfold exec1. rewrite Hg0. cbn [snd is_graceful negb]. apply in_or_app. left. eapply Hflat; [exact Hbin|left; reflexivity].
      * cbn [cinstr]. exists b. split; [reflexivity|cbn [cmsg]; apply Hanc; exact Hba].
    + apply (Hwit (IEnq true (RObj a) (RObj (self_of t)) MCmdResume)).
      * unfold exec1. rewrite Hg0. cbn [snd is_graceful negb]. apply in_or_app. right. eapply Hflat; [exact Hchain|left; reflexivity].
      * cbn [cinstr]. exists a. split; reflexivity.
    + apply (Hwit (IEnq true (RObj a) (RObj (self_of t)) MCmdResume)).
      * unfold exec1. rewrite Hg0. cbn [snd]. eapply Hflat; [exact Hchain|left; reflexivity].
      * cbn [cinstr]. exists a. split; reflexivity.
    + destruct (ref_target_parent (popped t x rest)) as [p Hp0].
      apply (Hwit (IEnq true (rref_parent (popped t x rest)) (RObj (self_of t)) (MSup (SupCtx (RObj (self_of t)) [] (Some c1))))).
      * unfold exec1. rewrite Hg0. cbn [snd]. right. left. reflexivity.
      * cbn [cinstr]. exists p. split; [exact Hp0|]. cbn [cmsg covers_ctx chain_targets app]. right. exact Hchain.
    + destruct (ref_target_parent (popped t x rest)) as [p Hp0].
      apply (Hwit (IEnq true (rref_parent (popped t x rest)) (RObj (self_of t)) (MSup (SupCtx (RObj (self_of t)) [] (Some c1))))).
      * unfold exec1. rewrite Hg0. cbn [snd]. right. left. reflexivity.
      * cbn [cinstr]. exists p. split; [exact Hp0|]. cbn [cmsg covers_ctx chain_targets app]. right. exact Hchain.
Qed.

Lemma kinds_flat_map {A} (f : A -> list instr) l : (forall a, Forall (fun i1 => kinstr i1 = KOther) (f a)) -> Forall (fun i1 => kinstr i1 = KOther) (flat_map f l).
Proof. intros H. induction l as [|a l IH]; cbn [flat_map]; [constructor|apply Forall_app; split; [apply H|exact IH]]. Qed.

Lemma exec1_kinds s t h i x :
  get s (self_of t) = Some x -> plain i = true ->
  Forall (fun i1 => kinstr i1 = KOther) (snd (exec1 s t h i)) \/ i = IFailed \/
  (exists c d tg, i = ISupApply c d tg /\ (d = DEscalate \/ d = DInvalid)).
Proof.
  intros Hg Hpl. unfold exec1. rewrite Hg.
  destruct i; try discriminate Hpl; cbn [fst snd].
  all: try (left; constructor; fail).
  - destruct remaining; left; repeat constructor.
  - destruct a; cbn [fst snd]; try (left; repeat constructor; fail).
    + destruct (a_state x); cbn [fst snd]; try (left; constructor).
      all: destruct (negb (sp_prelaunch sp)); cbn [fst snd]; [left; constructor|].
      all: destruct (alookup (reg s) (a_path x ++ [sp_name sp])); cbn [fst snd]; [left; constructor|].
      all: left; repeat constructor.
    + destruct (a_cur x); left; constructor.
    + destruct n as [n|].
      * destruct (Nat.eqb (length (a_stash x)) 0); cbn [fst snd]; left; [constructor|apply kinds_flat_map; intros; repeat constructor].
      * destruct (a_stash x); left; repeat constructor.
    + destruct (alookup (subscribers s ty) (a_path x)); left; constructor.
    + destruct (nlookup (subs s) ty); left; constructor.
  - destruct (a_zombie x); cbn [fst snd]; [left; constructor|]. destruct (a_parent x).
    + destruct (take_until_panic acts) as [pre panics]. cbn [fst snd]. left. apply Forall_app. split.
      * apply Forall_forall. intros i0 Hi0. apply in_map_iff in Hi0. destruct Hi0 as (a0 & <- & _). reflexivity.
      * destruct panics; [|constructor]. destruct r; [repeat constructor|constructor|].
        destruct (a_state x); [|constructor|constructor]. destruct (ref_eq s who (RObj (self_of t))); repeat constructor.
    + destruct m; cbn [fst snd]; try (left; constructor). destruct (ref_eq s who (RObj (self_of t))); left; constructor.
  - right. left. reflexivity.
  - destruct (subscribers s ty); left; repeat constructor.
  - destruct d; cbn [fst snd is_graceful negb].
    all: try (right; right; eexists; eexists; eexists; split; [reflexivity|auto]; fail).
    all: left; try apply Forall_app; try split; try (apply kinds_flat_map; intros; repeat constructor); try constructor.
Qed.

(** the executing handler's own record: nothing changes for the cover invariant when the instructions put in front
    are neither a pause nor a resume and the lifecycle fields stay *)
Lemma own_left x x' F rest i :
  a_pend x = i :: rest -> kinstr i = KOther -> held x = [] -> held x' = [] ->
  a_zombie x' = a_zombie x -> a_state x' = a_state x -> a_restarting x' = a_restarting x -> a_paused x' = a_paused x -> a_sq x' = a_sq x ->
  Forall (fun i1 => kinstr i1 = KOther) F -> ~ In IRestartFinish (lf F) ->
  inscope (upd_pend x' (F ++ rest)) -> need_after (pipeline (upd_pend x' (F ++ rest))) (eflag (upd_pend x' (F ++ rest))) = true ->
  inscope x /\ need_after (pipeline x) (eflag x) = true.
Proof.
  intros Hpx Hki Hh Hh' Hz Hst Hr Hpa Hsq HF Hirf [Sz Ss] Hn.
  cbn [upd_pend a_zombie a_state a_restarting a_pend] in Sz, Ss. split.
  - split; [congruence|]. rewrite Hst, Hr in Ss. destruct Ss as [E|[E1 [E|E]]]; [left; exact E|right; split; [exact E1|left; exact E]|].
    right. split; [exact E1|right]. rewrite lf_app in E. apply in_app_or in E. destruct E as [E|E]; [contradiction|]. rewrite Hpx. apply In_lf_tail. exact E.
  - unfold pipeline, eflag in *. cbn [upd_pend a_pend a_sq a_paused a_state] in Hn. change (held (upd_pend x' (F ++ rest))) with (held x') in Hn.
    rewrite Hh', Hsq, Hpa, Hst, map_app, <- app_assoc, need_app in Hn. rewrite Hpx, Hh. cbn [map]. rewrite Hki.
    rewrite (need_others (map kinstr F)) in Hn by (apply Forall_forall; intros k Hk; apply in_map_iff in Hk; destruct Hk as (i1 & <- & Hi1); rewrite Forall_forall in HF; apply HF; exact Hi1).
    exact Hn.
Qed.

Lemma own_cover x x' F rest i :
  a_pend x = i :: rest -> kinstr i = KOther -> held x = [] -> held x' = [] -> a_sq x' = a_sq x -> eflag x = false ->
  Forall (fun i1 => kinstr i1 = KOther) F ->
  need_after (pipeline (upd_pend x' ((IResume1 :: F) ++ rest))) (eflag (upd_pend x' ((IResume1 :: F) ++ rest))) = true ->
  need_after (pipeline x) (eflag x) = true.
Proof.
  intros Hpx Hki Hh Hh' Hsq Hef HF Hn. unfold pipeline in *. cbn [upd_pend a_pend a_sq] in Hn.
  change (held (upd_pend x' ((IResume1 :: F) ++ rest))) with (held x') in Hn. rewrite Hh', Hsq in Hn.
  rewrite Hpx, Hh, Hef. cbn [app map kinstr] in *. rewrite Hki. rewrite map_app, <- app_assoc in Hn.
  change (need_after (KCover :: map kinstr F ++ map kinstr rest ++ map kenv (a_sq x)) (eflag (upd_pend x' (IResume1 :: F ++ rest))))
    with (need_after (map kinstr F ++ map kinstr rest ++ map kenv (a_sq x)) false) in Hn.
  rewrite need_app, (need_others (map kinstr F)) in Hn
    by (apply Forall_forall; intros k Hk; apply in_map_iff in Hk; destruct Hk as (i1 & <- & Hi1); rewrite Forall_forall in HF; apply HF; exact Hi1).
  exact Hn.
Qed.

Lemma kinstr_atomic i : yielding i = false -> kinstr i = KOther.
Proof. destruct i; cbn; intros H; try reflexivity; discriminate H. Qed.

Lemma astep_own_plain s a i rest x :
  Jall s -> get s a = Some x -> pend_of s (TA a) = i :: rest -> yielding i = false -> is_enq i = false ->
  err (astep s (TA a) i rest) = false -> a <> 0 -> plain i = true ->
  forall ya, get (astep s (TA a) i rest) a = Some ya -> inscope ya -> need_after (pipeline ya) (eflag ya) = true ->
  (inscope x /\ need_after (pipeline x) (eflag x) = true) \/ cov (astep s (TA a) i rest) a.
Proof.
  intros (((W & HLI & HR & HMK) & HK & HRC & HRS) & HX & HIRF & HW & HM) Hg Hp Hy Hq He Hne Hpl ya Hgy Hsc Hn.
  assert (Hpx : a_pend x = i :: rest) by (rewrite (pend_of_TA _ _ _ Hg) in Hp; exact Hp).
  assert (Hki : kinstr i = KOther) by (apply kinstr_atomic; exact Hy).
  assert (Hhx : held x = []).
  { destruct W as [HA _]. pose proof (Forall_nth _ _ _ _ HA Hg) as [E|(md & l & Hc & _)]; [congruence|]. unfold held. rewrite Hc. reflexivity. }
  pose proof (HLI _ _ Hg) as Hlinv. pose proof (HIRF _ _ Hg) as Hirf. unfold irf_ok in Hirf. rewrite Hpx in Hirf.
  pose proof (astep_front s (TA a) i rest x Hg Hp He) as Hf. cbn [self_of] in Hf.
  assert (Hl : a < length (actors s)) by (eapply nth_error_lt; exact Hg).
  (* plain instructions *)
    destruct (astep_table s (TA a) i rest x Hg Hp) as (Hg0 & y & news & Hyl & _ & Ha1 & Ha & _). cbv zeta in *. cbn [self_of popped pushed] in *.
    set (s0 := set_pend s (TA a) rest) in *. set (front := snd (exec1 s0 (TA a) (held_of s0 (TA a)) i)) in *.
    assert (Hya : ya = upd_pend y (front ++ rest)).
    { unfold get in Hgy. rewrite Ha in Hgy. rewrite nth_error_app1 in Hgy by (rewrite upd_length; exact Hl). rewrite nth_upd_eq in Hgy by exact Hl. congruence. }
    subst ya.
    destruct (exec1_plain_lc s0 (TA a) (held_of s0 (TA a)) i _ Hg0 Hpl) as (y' & Hy' & Hst & Hzz & _).
    assert (y' = y).
    { unfold get in Hy'. rewrite Ha1 in Hy'. assert (Hl0 : a < length (actors s0)) by (eapply nth_error_lt; exact Hg0).
      rewrite nth_error_app1 in Hy' by (rewrite upd_length; exact Hl0). rewrite nth_upd_eq in Hy' by exact Hl0. congruence. }
    subst y'. cbn [upd_pend a_state a_zombie] in Hst, Hzz.
    destruct (exec1_front_plain s0 (TA a) (held_of s0 (TA a)) i Hpl) as [Hlf _]. fold front in Hlf.
    assert (Hrs : a_restarting y = a_restarting x).
    { destruct (lu_restarting _ _ _ Hyl) as [E|E]; [exact E|subst i; discriminate Hpl]. }
    assert (Hhy : held y = []).
    { unfold held in *. destruct (lu_cons _ _ _ Hyl) as [E|[[_ E]|[_ E]]]; rewrite E; try reflexivity. cbn [upd_pend a_cons]. exact Hhx. }
    destruct (exec1_kinds s0 (TA a) (held_of s0 (TA a)) i _ Hg0 Hpl) as [Hoth|Hps]; [fold front in Hoth|].
    + left. apply (own_left x y front rest i Hpx Hki Hhx Hhy Hzz Hst Hrs (lu_paused _ _ _ Hyl) (lu_sq _ _ _ Hyl) Hoth); [rewrite Hlf; intros []|exact Hsc|exact Hn].
    + (* the handler has failed, or escalates: its report to the parent is the cover *)
      right. left. exists (TA a). rewrite Hf. fold s0. fold front.
      assert (Hfr : exists c0 fr, front = IPauseSt :: IEnq true (rref_parent (upd_pend x rest)) (RObj a) (MSup c0) :: fr /\ covers_ctx a c0).
      { unfold front, exec1. cbn [self_of]. rewrite Hg0. destruct Hps as [->|(c & d & tg & -> & [->| ->])].
        - eexists. eexists. split; [reflexivity|]. left. reflexivity.
        - destruct c. eexists. eexists. split; [reflexivity|]. left. reflexivity.
        - destruct c. eexists. eexists. split; [reflexivity|]. left. reflexivity. }
      destruct Hfr as (c0 & fr & -> & Hcv). eexists. split; [right; left; reflexivity|].
      cbn [cinstr self_of]. destruct (ref_target_parent (upd_pend x rest)) as [p Hp0]. exists p. split; [exact Hp0|exact Hcv].
Qed.

Lemma astep_own_life s a i rest x :
  Jall s -> get s a = Some x -> pend_of s (TA a) = i :: rest -> yielding i = false -> is_enq i = false ->
  err (astep s (TA a) i rest) = false -> a <> 0 -> life i = true ->
  forall ya, get (astep s (TA a) i rest) a = Some ya -> inscope ya -> need_after (pipeline ya) (eflag ya) = true ->
  (inscope x /\ need_after (pipeline x) (eflag x) = true) \/ cov (astep s (TA a) i rest) a.
Proof.
  intros (((W & HLI & HR & HMK) & HK & HRC & HRS) & HX & HIRF & HW & HM) Hg Hp Hy Hq He Hne Hli ya Hgy Hsc Hn.
  assert (Hpx : a_pend x = i :: rest) by (rewrite (pend_of_TA _ _ _ Hg) in Hp; exact Hp).
  assert (Hki : kinstr i = KOther) by (apply kinstr_atomic; exact Hy).
  assert (Hhx : held x = []).
  { destruct W as [HA _]. pose proof (Forall_nth _ _ _ _ HA Hg) as [E|(md & l & Hc & _)]; [congruence|]. unfold held. rewrite Hc. reflexivity. }
  pose proof (HLI _ _ Hg) as Hlinv. pose proof (HIRF _ _ Hg) as Hirf. unfold irf_ok in Hirf. rewrite Hpx in Hirf.
  pose proof (astep_front s (TA a) i rest x Hg Hp He) as Hf. cbn [self_of] in Hf.
  assert (Hl : a < length (actors s)) by (eapply nth_error_lt; exact Hg).
  (* lifecycle instructions *)
    destruct Hlinv as (L1 & L2 & L3 & L4 & L5). unfold life_ok in L5. rewrite Hpx in L5. rewrite (lf_cons_life _ _ Hli) in L5.
    assert (Hlr : lf rest = []) by (destruct (lf rest); [reflexivity|destruct i; try discriminate Hli; contradiction]).
    assert (Hnirf : forall F, lf F = [] \/ (exists i1, lf F = [i1] /\ i1 <> IRestartFinish) -> ~ In IRestartFinish (lf F)).
    { intros F [E|(i1 & E & Hi1)]; rewrite E; [intros []|intros [H|[]]; congruence]. }
    rewrite Hlr in L5.
    destruct i; try discriminate Hli; cbv beta iota in L5.
    + (* IDoKill *)
      rewrite (astep_dokill s a x rest Hg) in Hgy. rewrite (get_set_same' _ _ _ _ Hg) in Hgy. inversion Hgy; subst ya.
      left. match type of Hsc with inscope (upd_pend ?x1 (?F ++ rest)) => pose (XX := x1); pose (FF := F) end.
      apply (own_left x XX FF rest _ Hpx Hki Hhx Hhx eq_refl eq_refl eq_refl eq_refl eq_refl); [| |exact Hsc|exact Hn]; unfold FF.
      * destruct (a_children x); repeat constructor.
      * destruct (a_children x); cbn; intuition discriminate.
    + (* IOnKilled *)
      destruct (a_zombie x) eqn:Hz.
      * rewrite (astep_onkilled_zombie s a x rest Hg who Hz) in Hgy. rewrite (get_set_same' _ _ _ _ Hg) in Hgy. inversion Hgy; subst ya.
        exfalso. destruct Hsc as [Hz' _]. cbn [upd_pend a_zombie] in Hz'. congruence.
      * destruct (ref_eq (set_actor s a (upd_pend x rest)) who (RObj a)) eqn:Hre.
        -- rewrite (astep_onkilled_self s a x rest Hg who Hz Hre) in Hgy. rewrite (get_set_same' _ _ _ _ Hg) in Hgy. inversion Hgy; subst ya.
           left. refine (own_left x x [ICheckMark] rest _ Hpx Hki Hhx Hhx eq_refl eq_refl eq_refl eq_refl eq_refl _ _ Hsc Hn); [repeat constructor|cbn; intuition discriminate].
        -- rewrite (astep_onkilled_other s a x rest Hg who Hz Hre) in Hgy. rewrite (get_set_same' _ _ _ _ Hg) in Hgy. inversion Hgy; subst ya.
           left. refine (own_left x _ [IBeh (MKilled who) (sp_killed (a_spec x)) (RecKilled who); ICheckMark] rest _ Hpx Hki Hhx _ _ _ _ _ _ _ _ Hsc Hn);
             try reflexivity; [exact Hhx|repeat constructor|cbn; intuition discriminate].
    + (* ICheckMark *)
      destruct (a_children x) eqn:Hch; [destruct (a_state x) eqn:Hst|].
      * rewrite (astep_checkmark_idle s a x rest Hg) in Hgy by (right; congruence). rewrite (get_set_same' _ _ _ _ Hg) in Hgy. inversion Hgy; subst ya.
        left. apply (own_left x x [] rest _ Hpx Hki Hhx Hhx eq_refl eq_refl eq_refl eq_refl eq_refl); [constructor|intros []|exact Hsc|exact Hn].
      * rewrite (astep_checkmark_kill s a x rest Hg Hch Hst) in Hgy. rewrite (get_set_same' _ _ _ _ Hg) in Hgy. inversion Hgy; subst ya.
        left. destruct Hsc as [Sz Ss]. cbn [upd_pend marked set_mb set_state upd_local a_zombie a_state a_restarting a_pend] in Sz, Ss.
        destruct Ss as [E|[Hr _]]; [discriminate E|]. split; [split; [exact Sz|right; split; [exact Hr|left; exact Hst]]|].
        unfold pipeline, eflag in *. rewrite Hpx, Hhx, Hst. cbn [map]. rewrite Hki.
        cbn [upd_pend marked set_mb set_state upd_local a_pend a_sq a_paused a_state is_running] in Hn.
        match type of Hn with context[held ?r] => change (held r) with (held x) in Hn end. rewrite Hhx in Hn.
        rewrite andb_false_r in *. destruct (a_restarting x); cbn [app map need_after fold_left knext kinstr] in *; exact Hn.
      * rewrite (astep_checkmark_idle s a x rest Hg) in Hgy by (right; congruence). rewrite (get_set_same' _ _ _ _ Hg) in Hgy. inversion Hgy; subst ya.
        left. apply (own_left x x [] rest _ Hpx Hki Hhx Hhx eq_refl eq_refl eq_refl eq_refl eq_refl); [constructor|intros []|exact Hsc|exact Hn].
      * rewrite (astep_checkmark_idle s a x rest Hg) in Hgy by (left; congruence). rewrite (get_set_same' _ _ _ _ Hg) in Hgy. inversion Hgy; subst ya.
        left. apply (own_left x x [] rest _ Hpx Hki Hhx Hhx eq_refl eq_refl eq_refl eq_refl eq_refl); [constructor|intros []|exact Hsc|exact Hn].
    + (* ICleanup: the context is terminated *)
      exfalso. destruct L5 as [Hk _]. rewrite (astep_cleanup s a x rest Hg) in Hgy.
      assert (E2 : forall sr y0, get (set_actor (set_reg (set_subs s sr) (aremove (reg s) (a_path x))) a y0) a = Some y0)
        by (intros; apply (get_set_same _ a _ Hl)).
      rewrite E2 in Hgy. inversion Hgy; subst ya. destruct Hsc as [_ Ss]. cbn [upd_pend a_state a_restarting a_pend] in Ss.
      destruct Ss as [E|[_ [E|E]]]; try congruence. destruct (lf_cleanup_sends a x) as [Hcf _]. rewrite lf_app, Hcf, Hlr in E. destruct E.
    + (* IRestartFinish *)
      destruct L5 as (Hk & Hzf & _). destruct (restart_ok x) eqn:Hok.
      * rewrite (astep_restart_ok s a x rest Hg Hok) in Hgy. rewrite (get_set_same' _ _ _ _ Hg) in Hgy. inversion Hgy; subst ya.
        left. split.
        -- split; [exact Hzf|right]. split; [apply Hirf; rewrite (lf_cons_life IRestartFinish rest eq_refl); left; reflexivity|right; rewrite Hpx, (lf_cons_life IRestartFinish rest eq_refl); left; reflexivity].
        -- assert (Esq : a_sq (restarted x) = a_sq x) by (unfold restarted; destruct (sp_provider (a_spec x)); reflexivity).
           assert (Ehd : held (restarted x) = []) by (unfold restarted; destruct (sp_provider (a_spec x)); reflexivity).
           assert (Eef : eflag x = false) by (unfold eflag; rewrite Hk; apply andb_false_r).
           refine (own_cover x (restarted x) [IPub evRestarted (actor_key x); IPub evResumed (actor_key x); IBeh MLaunch (sp_launch (a_spec x)) RecFail; IPub evLaunched (actor_key x)] rest _ Hpx Hki Hhx Ehd Esq Eef _ Hn). repeat constructor.
      * rewrite (astep_restart_fail s a x rest Hg Hok) in Hgy. rewrite (get_set_same' _ _ _ _ Hg) in Hgy. inversion Hgy; subst ya.
        exfalso. destruct Hsc as [Sz _]. unfold zombied in Sz. cbn [upd_pend set_zombie upd_local a_zombie] in Sz. discriminate Sz.
Qed.

Lemma astep_own_unz s a i rest x :
  Jall s -> get s a = Some x -> pend_of s (TA a) = i :: rest -> yielding i = false -> is_enq i = false ->
  err (astep s (TA a) i rest) = false -> a <> 0 -> i = IUnzombie ->
  forall ya, get (astep s (TA a) i rest) a = Some ya -> inscope ya -> need_after (pipeline ya) (eflag ya) = true ->
  (inscope x /\ need_after (pipeline x) (eflag x) = true) \/ cov (astep s (TA a) i rest) a.
Proof.
  intros (((W & HLI & HR & HMK) & HK & HRC & HRS) & HX & HIRF & HW & HM) Hg Hp Hy Hq He Hne Ei ya Hgy Hsc Hn.
  assert (Hpx : a_pend x = i :: rest) by (rewrite (pend_of_TA _ _ _ Hg) in Hp; exact Hp).
  assert (Hki : kinstr i = KOther) by (apply kinstr_atomic; exact Hy).
  assert (Hhx : held x = []).
  { destruct W as [HA _]. pose proof (Forall_nth _ _ _ _ HA Hg) as [E|(md & l & Hc & _)]; [congruence|]. unfold held. rewrite Hc. reflexivity. }
  pose proof (HLI _ _ Hg) as Hlinv. pose proof (HIRF _ _ Hg) as Hirf. unfold irf_ok in Hirf. rewrite Hpx in Hirf.
  pose proof (astep_front s (TA a) i rest x Hg Hp He) as Hf. cbn [self_of] in Hf.
  assert (Hl : a < length (actors s)) by (eapply nth_error_lt; exact Hg).
  (* IUnzombie: the context is terminated *)
    subst i. exfalso. rewrite (astep_unzombie s a x rest Hg) in Hgy. rewrite (get_set_same' _ _ _ _ Hg) in Hgy. inversion Hgy; subst ya.
    destruct Hlinv as (L1 & L2 & L3 & L4 & L5). rewrite Hpx in L3, L4, L5.
    assert (Hu1 : uzc (IUnzombie :: rest) = 1) by (unfold uzc in *; cbn [filter is_unzombie length] in *; lia).
    pose proof (L1 (L4 Hu1)) as Hk.
    destruct Hsc as [_ Ss]. cbn [upd_pend set_zombie upd_local a_state a_restarting a_pend] in Ss.
    destruct Ss as [E|[_ [E|E]]]; try congruence.
    unfold life_ok in L5. rewrite (lf_cons_plain IUnzombie rest eq_refl) in L5.
    destruct (lf rest) as [|i1 [|i2 l]] eqn:El; [destruct E| |destruct i1; contradiction].
    destruct E as [->|[]]. destruct L5 as (_ & _ & Hu0). rewrite Hu1 in Hu0. discriminate Hu0.
Qed.

Lemma astep_own s a i rest x :
  Jall s -> get s a = Some x -> pend_of s (TA a) = i :: rest -> yielding i = false -> is_enq i = false ->
  err (astep s (TA a) i rest) = false -> a <> 0 ->
  forall ya, get (astep s (TA a) i rest) a = Some ya -> inscope ya -> need_after (pipeline ya) (eflag ya) = true ->
  (inscope x /\ need_after (pipeline x) (eflag x) = true) \/ cov (astep s (TA a) i rest) a.
Proof.
  intros J Hg Hp Hy Hq He Hne. destruct (life_plain_cases i) as [Hpl|[Hli|Ei]].
  - apply astep_own_plain; assumption.
  - apply astep_own_life; assumption.
  - apply astep_own_unz; assumption.
Qed.

Theorem CInv_atomic s t : Jall s -> err (mstep s (MAtomic t)) = false -> CInv s -> CInv (mstep s (MAtomic t)).
Proof.
  intros HJ He HC. destruct (pend_of s t) as [|i rest] eqn:Hp; [cbn [mstep]; rewrite Hp; exact HC|].
  destruct (is_enq i) eqn:Hq.
  - destruct i; try discriminate Hq. eapply CInv_resolve; eauto.
  - destruct (yielding i) eqn:Hy.
    + assert (E : mstep s (MAtomic t) = s).
      { cbn [mstep]. rewrite Hp. destruct i; try discriminate Hy; try reflexivity; try discriminate Hq. destruct remaining; [discriminate Hy|reflexivity]. }
      rewrite E. exact HC.
    + pose proof (anc_mstep s (MAtomic t)) as Hanc. rewrite (mstep_atomic_exec s t i rest Hp Hy Hq) in *.
      pose proof HJ as (((W & HLI & HR & HMK) & _) & _).
      destruct (RInv_self s t HR i rest Hp) as (x & Hg).
      apply (CInv_astep_gen s t i rest x W Hg Hp He Hanc); [|apply (astep_cons s t i rest x HJ Hg Hp Hy Hq He)|exact HC].
      intros a ya -> Hne Hgy Hsc Hn. cbn [self_of] in Hg. apply (astep_own s a i rest x HJ Hg Hp Hy Hq He Hne ya Hgy Hsc Hn).
Qed.

Theorem CInv_mstep s m : Jall s -> NS s -> err s = false -> err (mstep s m) = false -> CInv s -> CInv (mstep s m).
Proof.
  intros HJ HN He0 He HC. destruct m.
  - apply (CInv_pop s _ a HJ); auto. left; reflexivity.
  - apply (CInv_pop s _ a HJ); auto. right; left; reflexivity.
  - apply (CInv_pop s _ a HJ); auto. right; right; reflexivity.
  - apply CInv_handle; assumption.
  - apply CInv_push; assumption.
  - apply CInv_enqdone; assumption.
  - apply CInv_pausest; assumption.
  - apply CInv_resume1; assumption.
  - apply CInv_resume2; assumption.
  - apply CInv_atomic; assumption.
Qed.

(** * envelopes in hand and in the system queue: what is not a system envelope is not a pause command *)
Definition nsp (e : envelope) : Prop := e_sys e = false -> e_msg e <> MCmdPause.
Definition NS2 (s : state) : Prop := forall a x, get s a = Some x -> Forall nsp (held x) /\ Forall nsp (a_sq x).

Lemma NS2_NS s : NS2 s -> NS s.
Proof. intros H a x Hg. apply (H a x Hg). Qed.

Lemma tstep_any s m :
  err (mstep s m) = false ->
  match m with
  | MPush _ _ | MEnqDone _ | MPauseSt _ | MResume1 _ | MResume2 _ => True
  | MAtomic t => match pend_of s t with IEnq _ _ _ _ :: _ => True | _ => False end
  | _ => False
  end ->
  exists t i0 rest pre tgt env pa, tstep s (mstep s m) t i0 rest pre tgt env pa /\ (env = [] \/ exists e, env = [e] /\ e_sys e = true).
Proof.
  intros He Hm.
  assert (Hsq : forall e, sysq e = [] \/ exists e', sysq e = [e'] /\ e_sys e' = true).
  { intros e. destruct (sysq_cases e) as [H|[H1 H2]]; [left; exact H|right; exists e; split; assumption]. }
  destruct m; try contradiction.
  - destruct (pend_of s t) as [|i rest] eqn:Hp; [cbn [mstep step] in He; rewrite Hp in He; discriminate He|].
    destruct i; try (cbn [mstep step] in He; rewrite Hp in He; discriminate He).
    + do 7 eexists. split; [apply (view_push_enqr s t c _ _ _ _ rest Hp)|apply Hsq].
    + do 7 eexists. split; [apply (view_push_mb s t c _ _ rest Hp)|apply Hsq].
    + destruct (nth_error tos c) as [to|] eqn:Hn; [|cbn [mstep step] in He; rewrite Hp, Hn in He; discriminate He].
      do 7 eexists. split; [apply (view_push_any s t c _ _ _ _ rest to Hp Hn)|apply Hsq].
    + destruct (nth_error remaining c) as [to|] eqn:Hn; [|cbn [mstep step] in He; rewrite Hp, Hn in He; discriminate He].
      do 7 eexists. split; [apply (view_push_sup s t c _ _ _ _ rest to Hp Hn)|apply Hsq].
  - destruct (pend_of s t) as [|i rest] eqn:Hp; [cbn [mstep] in He; rewrite Hp in He; discriminate He|].
    destruct i; try (cbn [mstep] in He; rewrite Hp in He; discriminate He).
    do 7 eexists. split; [apply (view_enqdone s t rest Hp)|left; reflexivity].
  - destruct (pend_of s t) as [|i rest] eqn:Hp; [cbn [mstep] in He; rewrite Hp in He; discriminate He|].
    destruct i; try (cbn [mstep] in He; rewrite Hp in He; discriminate He).
    do 7 eexists. split; [apply (view_pausest s t rest Hp)|left; reflexivity].
  - destruct (pend_of s t) as [|i rest] eqn:Hp; [cbn [mstep] in He; rewrite Hp in He; discriminate He|].
    destruct i; try (cbn [mstep] in He; rewrite Hp in He; discriminate He).
    destruct (get s (self_of t)) as [x|] eqn:Hg; [|cbn [mstep] in He; rewrite Hp, Hg in He; discriminate He].
    pose proof (view_resume1 s t rest x Hp Hg) as V. destruct (a_paused x); do 7 eexists; (split; [exact V|left; reflexivity]).
  - destruct (pend_of s t) as [|i rest] eqn:Hp; [cbn [mstep] in He; rewrite Hp in He; discriminate He|].
    destruct i; try (cbn [mstep] in He; rewrite Hp in He; discriminate He).
    do 7 eexists. split; [apply (view_resume2 s t rest Hp)|left; reflexivity].
  - destruct (pend_of s t) as [|i rest] eqn:Hp; [contradiction|]. destruct i; try contradiction.
    do 7 eexists. split; [apply (view_resolve s t _ _ _ _ rest Hp)|left; reflexivity].
Qed.

Lemma NS2_tstep s s' t i0 rest pre tgt env pa :
  tstep s s' t i0 rest pre tgt env pa -> (env = [] \/ exists e, env = [e] /\ e_sys e = true) -> NS2 s -> NS2 s'.
Proof.
  intros T Henv HN a y Hgy.
  destruct (get s a) as [x|] eqn:Hgx.
  2:{ exfalso. assert (E : get s' a = None) by (apply nth_error_None; rewrite (ts_len _ _ _ _ _ _ _ _ _ T); apply nth_error_None; exact Hgx). congruence. }
  destruct (ts_rec _ _ _ _ _ _ _ _ _ T a x Hgx) as (y' & Hy' & _ & (_ & _ & _ & _ & R5 & _ & R7 & _)). assert (y' = y) by congruence; subst y'.
  destruct (HN a x Hgx) as [H1 H2]. split; [rewrite (held_cons _ _ R5); exact H1|].
  rewrite R7. apply Forall_app. split; [exact H2|]. destruct (Nat.eqb a tgt); [|constructor].
  destruct Henv as [->|(e & -> & Hes)]; [constructor|]. constructor; [intros H; congruence|constructor].
Qed.

Theorem NS2_mstep s m : wf s -> RInv s -> MH s -> err s = false -> err (mstep s m) = false -> NS2 s -> NS2 (mstep s m).
Proof.
  intros W HR HM He0 He HN.
  assert (Hplain : (exists t i0 rest pre tgt env pa, tstep s (mstep s m) t i0 rest pre tgt env pa /\ (env = [] \/ exists e, env = [e] /\ e_sys e = true)) -> NS2 (mstep s m)).
  { intros (t & i0 & rest & pre & tgt & env & pa & T & Henv). eapply NS2_tstep; eauto. }
  assert (Hpop : forall a, is_pop m a -> NS2 (mstep s m)).
  { intros a Hpop. destruct (view_pop s m a Hpop He0 He) as (x & sq' & uq' & co' & Hg & E & _ & Hrel). cbv zeta in Hrel. rewrite E.
    intros b y Hgy. destruct (Nat.eq_dec a b) as [<-|Hne]; [|rewrite get_set_other in Hgy by exact Hne; apply (HN b y Hgy)].
    rewrite (get_set_same' _ _ _ _ Hg) in Hgy. inversion Hgy; subst y. unfold held at 1. cbn [set_mb a_cons a_sq].
    destruct (HN a x Hg) as [H1 H2]. destruct Hrel as [Hr|(e & Hine & Hh & Hh' & ->)].
    - apply Forall_app. rewrite Hr. apply Forall_app. split; assumption.
    - rewrite Hh'. split; [|exact H2]. constructor; [|constructor]. intros _.
      destruct HM as [M1 _]. destruct (M1 _ _ Hg) as (A & _). rewrite Forall_forall in A. apply (A e Hine). }
  destruct m.
  - apply (Hpop a). left; reflexivity.
  - apply (Hpop a). right; left; reflexivity.
  - apply (Hpop a). right; right; reflexivity.
  - destruct (view_handle s a W He) as (x & e & y & Hg & Hc & Hpx & V). cbv zeta in V. destruct V as (Hdf & Hy & Ha & Hex & _).
    assert (Hl : a < length (actors s)) by (eapply nth_error_lt; exact Hg).
    intros b yb Hgb. unfold get in Hgb. rewrite Ha in Hgb. destruct (Nat.eq_dec a b) as [<-|Hne].
    + rewrite nth_upd_eq in Hgb by exact Hl. inversion Hgb; subst yb. change (held (upd_pend y _)) with (held y). cbn [upd_pend a_sq].
      unfold held. rewrite (df_cons _ _ Hdf), (df_sq _ _ Hdf). cbn [busy set_mb a_cons a_sq]. split; [constructor|apply (HN a x Hg)].
    + rewrite nth_upd_neq in Hgb by exact Hne. apply (HN b yb Hgb).
  - apply Hplain. apply tstep_any; [exact He|exact I].
  - apply Hplain. apply tstep_any; [exact He|exact I].
  - apply Hplain. apply tstep_any; [exact He|exact I].
  - apply Hplain. apply tstep_any; [exact He|exact I].
  - apply Hplain. apply tstep_any; [exact He|exact I].
  - destruct (pend_of s t) as [|i rest] eqn:Hp; [cbn [mstep]; rewrite Hp; exact HN|].
    destruct (is_enq i) eqn:Hq.
    + destruct i; try discriminate Hq. apply Hplain. apply tstep_any; [exact He|rewrite Hp; exact I].
    + destruct (yielding i) eqn:Hy.
      * assert (E : mstep s (MAtomic t) = s).
        { cbn [mstep]. rewrite Hp. destruct i; try discriminate Hy; try reflexivity; try discriminate Hq. destruct remaining; [discriminate Hy|reflexivity]. }
        rewrite E. exact HN.
      * rewrite (mstep_atomic_exec s t i rest Hp Hy Hq) in *.
        destruct (RInv_self s t HR i rest Hp) as (x & Hg).
        destruct (astep_table s t i rest x Hg Hp) as (_ & y & news & Hyl & Hnews & _ & Ha & _). cbv zeta in Ha.
        assert (Hl : self_of t < length (actors s)) by (eapply nth_error_lt; exact Hg).
        intros b yb Hgb. unfold get in Hgb. rewrite Ha in Hgb.
        destruct (Nat.lt_ge_cases b (length (actors s))) as [Hlt|Hge].
        -- rewrite nth_error_app1 in Hgb by (rewrite upd_length; exact Hlt). destruct (Nat.eq_dec (self_of t) b) as [<-|Hne].
           ++ rewrite nth_upd_eq in Hgb by exact Hl. inversion Hgb; subst yb. destruct (HN _ x Hg) as [H1 H2].
              assert (Hsq : a_sq (pushed t y (snd (exec1 (set_pend s t rest) t (held_of (set_pend s t rest) t) i) ++ rest)) = a_sq x)
                by (destruct t; cbn [pushed popped upd_pend a_sq] in *; rewrite (lu_sq _ _ _ Hyl); reflexivity).
              rewrite Hsq. split; [|exact H2].
              assert (Hc : a_cons (pushed t y (snd (exec1 (set_pend s t rest) t (held_of (set_pend s t rest) t) i) ++ rest)) = a_cons y) by (destruct t; reflexivity).
              unfold held in *. rewrite Hc. destruct (lu_cons _ _ _ Hyl) as [E|[[_ E]|[_ E]]]; rewrite E; try constructor.
              destruct t; exact H1.
           ++ rewrite nth_upd_neq in Hgb by exact Hne. apply (HN b yb Hgb).
        -- rewrite nth_error_app2 in Hgb by (rewrite upd_length; exact Hge). apply nth_error_In in Hgb.
           rewrite Forall_forall in Hnews. destruct (Hnews _ Hgb) as (p & g & par & sp & ->). split; constructor.
Qed.

(** * all micro-steps; reachable states *)
Definition Jm (s : state) : Prop := Base6 s /\ XI s /\ IRF s.
Definition I2 (s : state) : Prop := CacheI s /\ MH s /\ NS2 s /\ CInv s.

Lemma Jm_init scs : Jm (init_with scs).
Proof. split; [apply Base6_init|split; [apply XI_init|apply IRF_init]]. Qed.
Lemma Jm_mstep s m : Jm s -> Jm (mstep s m).
Proof.
  intros (B & X & F). pose proof B as ((W & I & R & M) & K & C & S).
  split; [apply Base6_mstep; exact B|split; [apply XI_mstep; assumption|apply IRF_mstep; assumption]].
Qed.

Lemma single_step s m :
  Jm s -> CacheW s -> MH s -> NS2 s -> CInv s -> err (mstep s m) = false ->
  MH (mstep s m) /\ NS2 (mstep s m) /\ CInv (mstep s m).
Proof.
  intros (B & X & F) HW HM HN HC He. pose proof B as ((W & I & R & M) & K & C & S).
  pose proof (err_false_mstep s m He) as He0.
  split; [apply MH_mstep; assumption|split; [apply NS2_mstep; assumption|]].
  apply CInv_mstep; try assumption; [|apply NS2_NS; exact HN]. split; [exact B|split; [exact X|split; [exact F|split; assumption]]].
Qed.

Lemma I2_mstep2 s m : Jm s -> I2 s -> err (mstep2 s m) = false -> I2 (mstep2 s m).
Proof.
  intros HJ (HCI & HM & HN & HC) He.
  pose proof HJ as (((W & I & R & M) & K & C & S) & X & F).
  split; [apply CacheI_mstep2; assumption|].
  assert (Hone : forall m0, mstep2 s m = mstep s m0 -> MH (mstep2 s m) /\ NS2 (mstep2 s m) /\ CInv (mstep2 s m)).
  { intros m0 E. rewrite E in *. apply single_step; try assumption. apply CacheI_W. exact HCI. }
  destruct m; try (apply (Hone _ eq_refl)).
  cbn [mstep2] in *. cbv zeta in *. set (s1 := mstep s (MAtomic t)) in *.
  destruct (head_is_enq s1 t) eqn:Hh; [|apply (Hone (MAtomic t)); reflexivity].
  assert (He1 : err s1 = false) by (apply (err_false_mstep s1 (MAtomic t)); exact He).
  destruct (single_step s (MAtomic t) HJ (CacheI_W s HCI) HM HN HC He1) as (HM1 & HN1 & HC1). fold s1 in HM1, HN1, HC1.
  pose proof (Jm_mstep s (MAtomic t) HJ) as HJ1. fold s1 in HJ1.
  assert (HW1 : CacheW s1).
  { apply CacheW_mstep; [|exact HCI]. destruct HJ1 as (((_ & _ & R1 & _) & _) & _). exact R1. }
  apply single_step; assumption.
Qed.

Lemma get_init scs a x : get (init_with scs) a = Some x -> a = 0 /\ x = new_actor [] 0%N None root_spec.
Proof.
  intros Hg. unfold init_with, get in Hg.
  assert (Ha : forall scs s i, actors (set_exts s i scs) = actors s).
  { clear. induction scs as [|sc r IH]; intros s i; cbn [set_exts]; [reflexivity|]. rewrite IH. apply set_pend_TX_actors. }
  rewrite Ha in Hg. destruct a as [|[|a]]; cbn in Hg; try discriminate. inversion Hg; auto.
Qed.

Lemma I2_init scs : I2 (init_with scs).
Proof.
  split; [apply CacheI_init|split; [apply MH_init|split]].
  - intros a x Hg. destruct (get_init scs a x Hg) as [-> ->]. split; constructor.
  - intros a x Hg Hne. destruct (get_init scs a x Hg) as [-> _]. congruence.
Qed.

Theorem cover_reachable s : reachable s -> Jm s /\ I2 s.
Proof.
  revert s. apply (micro2_invariant_err Jm I2); [apply Jm_init|apply Jm_mstep|apply I2_init|apply I2_mstep2].
Qed.

(** * C09-d *)
Theorem quiescent_unpaused s a x :
  reachable s -> quiescent s = true -> get s a = Some x -> a_state x = Running -> a_zombie x = false -> a_paused x = false.
Proof.
  intros Hr Hq Hg Hst Hz. destruct (cover_reachable s Hr) as [_ (_ & HM & _ & HC)].
  destruct (Nat.eq_dec a 0) as [->|Hne].
  - destruct HM as [M1 _]. destruct (M1 _ _ Hg) as (_ & _ & _ & D). apply (D eq_refl).
  - destruct (a_paused x) eqn:Hp; [exfalso|reflexivity].
    destruct (quiescent_actor _ _ _ Hq Hg) as (Hpx & _ & Hsq & Hh & _).
    assert (Hn : need_after (pipeline x) (eflag x) = true).
    { unfold pipeline, eflag. rewrite Hpx, Hh, Hsq, Hp, Hst. reflexivity. }
    destruct (HC a x Hg Hne (conj Hz (or_introl Hst)) Hn) as [(t & i & Hi & _)|(q & xq & e & _ & Hgq & Hine & _)].
    + destruct t as [b|j]; cbn [pend_of] in Hi.
      * destruct (get s b) as [xb|] eqn:Hgb; [|destruct Hi]. destruct (quiescent_actor _ _ _ Hq Hgb) as (Hpb & _). rewrite Hpb in Hi. destruct Hi.
      * destruct (nth_error (exts s) j) as [ex|] eqn:Hn2; [|destruct Hi].
        unfold quiescent in Hq. apply andb_true_iff in Hq. destruct Hq as [_ Hq]. rewrite forallb_forall in Hq.
        specialize (Hq ex (nth_error_In _ _ Hn2)). destruct (x_pend ex); [destruct Hi|discriminate Hq].
    + destruct (quiescent_actor _ _ _ Hq Hgq) as (_ & _ & Hsq' & Hh' & _). rewrite Hh', Hsq' in Hine. destruct Hine.
Qed.

(** consequences *)
Theorem quiescent_survivor_inbox_empty s a x :
  reachable s -> quiescent s = true -> get s a = Some x -> a_state x = Running -> a_zombie x = false -> inbox x = [].
Proof.
  intros Hr Hq Hg Hst Hz. pose proof (quiescent_unpaused s a x Hr Hq Hg Hst Hz) as Hp.
  destruct (quiescent_actor _ _ _ Hq Hg) as (_ & _ & Hsq & Hh & Hu). unfold inbox. rewrite Hsq, Hh, (Hu Hp). reflexivity.
Qed.

Theorem root_never_paused s x : reachable s -> get s 0 = Some x -> a_paused x = false.
Proof. intros Hr Hg. destruct (cover_reachable s Hr) as [_ (_ & [M1 _] & _)]. destruct (M1 _ _ Hg) as (_ & _ & _ & D). apply (D eq_refl). Qed.

Theorem ref_cache_reachable s c xc : reachable s -> get s c = Some xc -> c <> 0 -> a_cache xc = Some c.
Proof. intros Hr Hg Hne. destruct (cover_reachable s Hr) as [_ (HC & _)]. apply (HC c xc Hg Hne). Qed.

(** a pause command is never stashed, and never found in a user queue *)
Theorem no_pause_command_in_user_mail s a x e :
  reachable s -> get s a = Some x -> In e (a_uq x ++ a_stash x) -> e_msg e <> MCmdPause.
Proof.
  intros Hr Hg Hin. destruct (cover_reachable s Hr) as [_ (_ & [M1 _] & _)]. destruct (M1 _ _ Hg) as (A & B & _).
  apply in_app_or in Hin. destruct Hin as [Hin|Hin]; [rewrite Forall_forall in A; apply (A e Hin)|rewrite Forall_forall in B; apply (B e Hin)].
Qed.
