(** Supervision contexts in flight are well formed: a report names a child of the supervisor it is addressed to (or a
    context that has released its path), the targets of a pause loop / decision are children of the deciding
    supervisor, and every level of an escalation chain lists children of the context that escalated it. *)
From Coq Require Import List NArith ZArith Bool Lia Arith.
From Vivid Require Import Actor.Core Actor.CoreRun Actor.SpecMail Actor.ProofsMailBase Actor.ProofsMail Actor.ProofsMailInv
  Actor.ProofsMailWf Actor.ProofsMailAcct Actor.ProofsMailReg Actor.ProofsMailMicro Actor.ProofsMailLife Actor.ProofsMailStep
  Actor.ProofsMailTree Actor.ProofsMailMK Actor.ProofsMailKids.
Import ListNotations.

(** * the root's reference cache is never filled (its path is not in the registry) *)
Definition RootC (s : state) : Prop := forall x0, get s 0 = Some x0 -> a_cache x0 = None.

Lemma RootC_mstep s m : RInv s -> RootC s -> RootC (mstep s m).
Proof.
  intros (Ra & _ & Rc & _) HC x0' Hg'. destruct Ra as (x0 & Hg0 & _ & Hp0). specialize (HC x0 Hg0).
  assert (Hcr : forall s1 x1, quiet s s1 -> get s1 0 = Some x1 -> a_cache x1 = None).
  { intros s1 x1 (_ & _ & _ & _ & Hc) H1. destruct (Hc 0 x0 x1 Hg0 H1) as [E|(_ & z & _ & Hl)]; [congruence|]. rewrite Hp0, Rc in Hl. discriminate. }
  destruct (mstep_cases s m) as [Hq|[(t & i & rest & pre & s1 & Hp & Hpl & Hf & Hu & Hq & _ & E)|[(a & x & e & -> & Hg & Hc)|(t & i & rest & -> & Hp & Hyl & Hq & E)]]].
  - apply (Hcr _ _ Hq Hg').
  - rewrite E in Hg'. destruct t as [a|j].
    + cbn [set_pend] in Hg'. unfold with_actor in Hg'. destruct (get s1 a) as [xa|] eqn:Ea; [|apply (Hcr _ _ Hq Hg')].
      destruct (Nat.eq_dec a 0) as [->|Hne].
      * rewrite (get_set_same' _ _ _ _ Ea) in Hg'. inversion Hg'; subst. cbn. apply (Hcr _ _ Hq Ea).
      * rewrite get_set_other in Hg' by exact Hne. apply (Hcr _ _ Hq Hg').
    + unfold get in Hg'. rewrite set_pend_TX_actors in Hg'. apply (Hcr _ _ Hq Hg').
  - cbn [mstep] in Hg'. rewrite Hg, Hc in Hg'.
    assert (Hgb : get (set_actor s a (busy x)) a = Some (busy x)) by (apply (get_set_same' s a _ x Hg)).
    destruct (dispatch_effect _ a (busy x) e Hgb) as (y & Hdf & Ha & _).
    destruct (dispatch (set_actor s a (busy x)) a (busy x) e) as [s1 ins]. cbn [fst] in Ha.
    assert (Hy : get s1 a = Some y) by (unfold get; rewrite Ha; apply nth_upd_eq; cbn; rewrite upd_length; eapply nth_error_lt; exact Hg).
    rewrite (set_pend_TA _ _ _ _ Hy) in Hg'. destruct (Nat.eq_dec a 0) as [->|Hne].
    + rewrite (get_set_same' _ _ _ _ Hy) in Hg'. inversion Hg'; subst. cbn. rewrite (df_cache _ _ Hdf). cbn. assert (x = x0) by congruence; subst. exact HC.
    + rewrite get_set_other in Hg' by exact Hne. unfold get in Hg'. rewrite Ha in Hg'. cbn [set_actor actors] in Hg'. rewrite upd_upd, nth_upd_neq in Hg' by exact Hne.
      assert (x0' = x0) by (unfold get in Hg0; congruence). subst. exact HC.
  - rewrite E in Hg'. destruct (get s (self_of t)) as [x|] eqn:Hg.
    + destruct (astep_table s t i rest x Hg Hp) as (_ & y & news & Hy & _ & _ & Ha & _). cbv zeta in *.
      unfold get in Hg'. rewrite Ha in Hg'. rewrite nth_error_app1 in Hg' by (rewrite upd_length; eapply nth_error_lt; exact Hg0).
      destruct (Nat.eq_dec (self_of t) 0) as [E0|Hne].
      * rewrite E0 in *. rewrite nth_upd_eq in Hg' by (eapply nth_error_lt; exact Hg0). inversion Hg'; subst x0'.
        assert (x = x0) by congruence; subst x. destruct t; cbn [pushed upd_pend a_cache]; rewrite (lu_cache _ _ _ Hy); cbn [popped upd_pend a_cache]; exact HC.
      * rewrite nth_upd_neq in Hg' by exact Hne. assert (x0' = x0) by (unfold get in Hg0; congruence). subst. exact HC.
    + exfalso. destruct t as [a|j]; cbn [self_of] in *.
      * destruct (pend_of_TA_cons _ _ _ _ Hp) as (x & Hgx & _). congruence.
      * congruence.
Qed.

Lemma RootC_init scs : RootC (init_with scs).
Proof.
  intros x0 Hg. unfold init_with, get in Hg.
  assert (Ha : forall scs s i, actors (set_exts s i scs) = actors s).
  { clear. induction scs as [|sc r IH]; intros s i; cbn [set_exts]; [reflexivity|]. rewrite IH. apply set_pend_TX_actors. }
  rewrite Ha in Hg. cbn in Hg. inversion Hg. reflexivity.
Qed.

(** * the root keeps the system default strategy (specs never change) *)
Definition RootS (s : state) : Prop := forall x0, get s 0 = Some x0 -> sp_strategy (a_spec x0) = 0%N.

Lemma RootS_mstep s m : RInv s -> RootS s -> RootS (mstep s m).
Proof.
  intros (Ra & _) HS x0' Hg'. destruct Ra as (x0 & Hg0 & _). specialize (HS x0 Hg0).
  assert (Hsp : forall s1 x1, softT s s1 -> get s1 0 = Some x1 -> a_spec x1 = a_spec x0).
  { intros s1 x1 Hs H1. destruct (softT_get _ _ _ _ Hs Hg0) as (y & Hy & (_ & _ & _ & _ & _ & _ & _ & E)). congruence. }
  destruct (mstep_cases s m) as [Hq|[(t & i & rest & pre & s1 & Hp & Hpl & Hf & Hu & Hq & _ & E)|[(a & x & e & -> & Hg & Hc)|(t & i & rest & -> & Hp & Hyl & Hq & E)]]].
  - rewrite (Hsp _ _ (proj1 (proj2 (proj2 (proj2 Hq)))) Hg'). exact HS.
  - rewrite E in Hg'. pose proof (proj1 (proj2 (proj2 (proj2 Hq)))) as Hs. destruct t as [a|j].
    + cbn [set_pend] in Hg'. unfold with_actor in Hg'. destruct (get s1 a) as [xa|] eqn:Ea; [|rewrite (Hsp _ _ Hs Hg'); exact HS].
      destruct (Nat.eq_dec a 0) as [->|Hne].
      * rewrite (get_set_same' _ _ _ _ Ea) in Hg'. inversion Hg'; subst. cbn. rewrite (Hsp _ _ Hs Ea). exact HS.
      * rewrite get_set_other in Hg' by exact Hne. rewrite (Hsp _ _ Hs Hg'). exact HS.
    + unfold get in Hg'. rewrite set_pend_TX_actors in Hg'. rewrite (Hsp _ _ Hs Hg'). exact HS.
  - cbn [mstep] in Hg'. rewrite Hg, Hc in Hg'.
    assert (Hgb : get (set_actor s a (busy x)) a = Some (busy x)) by (apply (get_set_same' s a _ x Hg)).
    destruct (dispatch_effect _ a (busy x) e Hgb) as (y & Hdf & Ha & _).
    destruct (dispatch (set_actor s a (busy x)) a (busy x) e) as [s1 ins]. cbn [fst] in Ha.
    assert (Hy : get s1 a = Some y) by (unfold get; rewrite Ha; apply nth_upd_eq; cbn; rewrite upd_length; eapply nth_error_lt; exact Hg).
    rewrite (set_pend_TA _ _ _ _ Hy) in Hg'. destruct (Nat.eq_dec a 0) as [->|Hne].
    + rewrite (get_set_same' _ _ _ _ Hy) in Hg'. inversion Hg'; subst. cbn. rewrite (df_spec _ _ Hdf). cbn. assert (x = x0) by congruence; subst. exact HS.
    + rewrite get_set_other in Hg' by exact Hne. unfold get in Hg'. rewrite Ha in Hg'. cbn [set_actor actors] in Hg'. rewrite upd_upd, nth_upd_neq in Hg' by exact Hne.
      assert (x0' = x0) by (unfold get in Hg0; congruence). subst. exact HS.
  - rewrite E in Hg'. destruct (get s (self_of t)) as [x|] eqn:Hg.
    + destruct (astep_table s t i rest x Hg Hp) as (_ & y & news & Hy & _ & _ & Ha & _). cbv zeta in *.
      unfold get in Hg'. rewrite Ha in Hg'. rewrite nth_error_app1 in Hg' by (rewrite upd_length; eapply nth_error_lt; exact Hg0).
      destruct (Nat.eq_dec (self_of t) 0) as [E0|Hne].
      * rewrite E0 in *. rewrite nth_upd_eq in Hg' by (eapply nth_error_lt; exact Hg0). inversion Hg'; subst x0'.
        assert (x = x0) by congruence; subst x. destruct t; cbn [pushed upd_pend a_spec]; rewrite (lu_spec _ _ _ Hy); cbn [popped upd_pend a_spec]; exact HS.
      * rewrite nth_upd_neq in Hg' by exact Hne. assert (x0' = x0) by (unfold get in Hg0; congruence). subst. exact HS.
    + exfalso. destruct t as [a|j]; cbn [self_of] in *.
      * destruct (pend_of_TA_cons _ _ _ _ Hp) as (x & Hgx & _). congruence.
      * congruence.
Qed.

Lemma RootS_init scs : RootS (init_with scs).
Proof.
  intros x0 Hg. unfold init_with, get in Hg.
  assert (Ha : forall scs s i, actors (set_exts s i scs) = actors s).
  { clear. induction scs as [|sc r IH]; intros s i; cbn [set_exts]; [reflexivity|]. rewrite IH. apply set_pend_TX_actors. }
  rewrite Ha in Hg. cbn in Hg. inversion Hg. reflexivity.
Qed.

(** * well-formed contexts *)
Definition is_child_ref (s : state) (q : aid) (r : rref) : Prop :=
  exists d xd, r = RObj d /\ d <> 0 /\ get s d = Some xd /\ (a_parent xd = Some q \/ unreg s d).
Definition lvl_ok (s : state) (b : aid) (c1 : supctx) : Prop :=
  match c1 with SupCtx ch1 ts1 _ =>
    (forall r, In r ts1 -> is_child_ref s b r) /\ (In ch1 ts1 \/ exists d, ch1 = RObj d /\ d <> 0 /\ unreg s d)
  end.
Fixpoint ctx_sub_ok (s : state) (c : supctx) : Prop :=
  match c with SupCtx ch ts sub =>
    match sub with
    | None => True
    | Some c1 => (exists b, ch = RObj b /\ lvl_ok s b c1) /\ ctx_sub_ok s c1
    end
  end.
Definition own_report (s : state) (self : aid) (c : supctx) : Prop :=
  self <> 0 /\ match c with SupCtx ch ts _ => ch = RObj self /\ ts = [] end /\ ctx_sub_ok s c.
Definition msup_at (s : state) (q : aid) (c : supctx) : Prop :=
  match c with SupCtx ch ts _ => ts = [] /\ is_child_ref s q ch end /\ ctx_sub_ok s c.
Definition sup_ok (s : state) (q : aid) (c : supctx) (targets : list rref) : Prop :=
  match c with SupCtx ch _ _ =>
    is_child_ref s q ch /\ (forall r, In r targets -> is_child_ref s q r) /\ (In ch targets \/ exists d, ch = RObj d /\ d <> 0 /\ unreg s d)
  end /\ ctx_sub_ok s c.
Definition land_ok (s : state) (self : aid) (mb : mbox) : Prop :=
  match mb with
  | MbActor q => is_child_ref s q (RObj self)
  | MbRoot => is_child_ref s 0 (RObj self)
  | MbDead => True
  end.

Definition xe_ok (s : state) (q : aid) (e : envelope) : Prop := forall c, e_msg e = MSup c -> msup_at s q c.
Definition xi_ok (s : state) (self : aid) (i : instr) : Prop :=
  match i with
  | IEnq sys r snd m => forall c, m = MSup c -> (exists x, get s self = Some x /\ r = rref_parent x) /\ own_report s self c
  | IEnqR sys mb snd m => forall c, m = MSup c -> own_report s self c /\ land_ok s self mb
  | IEnqAny _ _ _ m => forall c, m <> MSup c
  | IEnqMb b e => xe_ok s b e
  | ISupPause c d rem done => sup_ok s self c (rem ++ done) /\ (self = 0 -> d = DStop)
  | ISupApply c d targets => sup_ok s self c targets /\ (self = 0 -> d = DStop)
  | IFailed => self <> 0
  | _ => True
  end.
Definition xrec_ok (s : state) (a : aid) (x : actor) : Prop :=
  Forall (xe_ok s a) (envs x) /\ Forall (xi_ok s a) (a_pend x).
Definition XI (s : state) : Prop :=
  (forall a x, get s a = Some x -> xrec_ok s a x) /\
  (forall j ex, nth_error (exts s) j = Some ex -> Forall (xi_ok s 0) (x_pend ex)).

(** ** monotonicity *)
Lemma is_child_ref_mono s m q r : is_child_ref s q r -> is_child_ref (mstep s m) q r.
Proof.
  intros (d & xd & -> & Hd0 & Hg & H). destruct (idT_mstep s m d xd Hg ltac:(tauto)) as (xd' & Hg' & _ & Hp).
  exists d, xd'. split; [reflexivity|split; [exact Hd0|split; [exact Hg'|]]]. destruct H as [H|H]; [left; congruence|right; apply unreg_mono; exact H].
Qed.
Lemma lvl_ok_mono s m b c1 : lvl_ok s b c1 -> lvl_ok (mstep s m) b c1.
Proof.
  destruct c1 as [ch ts sub]. intros [H1 H2]. split.
  - intros r Hr. apply is_child_ref_mono. auto.
  - destruct H2 as [H|(d & -> & Hd & H)]; [left; exact H|right; exists d; split; [reflexivity|split; [exact Hd|apply unreg_mono; exact H]]].
Qed.
Lemma ctx_sub_ok_mono s m c : ctx_sub_ok s c -> ctx_sub_ok (mstep s m) c.
Proof.
  revert c. fix IH 1. intros [ch ts [c1|]]; cbn [ctx_sub_ok]; [|auto].
  intros [(b & -> & Hl) Hs]. split; [exists b; split; [reflexivity|apply lvl_ok_mono; exact Hl]|apply IH; exact Hs].
Qed.
Lemma own_report_mono s m self c : own_report s self c -> own_report (mstep s m) self c.
Proof. intros (H0 & H1 & H2). split; [exact H0|split; [exact H1|apply ctx_sub_ok_mono; exact H2]]. Qed.
Lemma msup_at_mono s m q c : msup_at s q c -> msup_at (mstep s m) q c.
Proof. destruct c as [ch ts sub]. intros [[H1 H2] H3]. split; [split; [exact H1|apply is_child_ref_mono; exact H2]|apply ctx_sub_ok_mono; exact H3]. Qed.
Lemma sup_ok_mono s m q c ts : sup_ok s q c ts -> sup_ok (mstep s m) q c ts.
Proof.
  destruct c as [ch ts0 sub]. intros [(H1 & H2 & H3) H4]. split; [split; [apply is_child_ref_mono; exact H1|split]|apply ctx_sub_ok_mono; exact H4].
  - intros r Hr. apply is_child_ref_mono. auto.
  - destruct H3 as [H|(d & -> & Hd & H)]; [left; exact H|right; exists d; split; [reflexivity|split; [exact Hd|apply unreg_mono; exact H]]].
Qed.
Lemma land_ok_mono s m self mb : land_ok s self mb -> land_ok (mstep s m) self mb.
Proof. destruct mb; cbn [land_ok]; auto; apply is_child_ref_mono. Qed.
Lemma xe_ok_mono s m a e : xe_ok s a e -> xe_ok (mstep s m) a e.
Proof. intros H c Hc. apply msup_at_mono. auto. Qed.
Lemma xi_ok_mono s m a i : xi_ok s a i -> xi_ok (mstep s m) a i.
Proof.
  destruct i; cbn [xi_ok]; auto.
  - intros H c Hc. destruct (H c Hc) as [(x & Hg & Hr) Ho]. split; [|apply own_report_mono; exact Ho].
    destruct (idT_mstep s m a x Hg ltac:(tauto)) as (x' & Hg' & _ & Hp). exists x'. split; [exact Hg'|]. unfold rref_parent. rewrite Hp. exact Hr.
  - intros H c Hc. destruct (H c Hc) as [Ho Hl]. split; [apply own_report_mono; exact Ho|apply land_ok_mono; exact Hl].
  - apply xe_ok_mono.
  - intros [H1 H2]. split; [apply sup_ok_mono; exact H1|exact H2].
  - intros [H1 H2]. split; [apply sup_ok_mono; exact H1|exact H2].
Qed.

(** ** the envelopes a record holds across one atomic instruction *)
Lemma xexec1_envs S s t h i x :
  get s (self_of t) = Some x -> Forall (xe_ok S (self_of t)) (envs x) ->
  exists y, get (fst (exec1 s t h i)) (self_of t) = Some y /\ Forall (xe_ok S (self_of t)) (envs y).
Proof.
  intros Hg Hok.
  assert (Hl : self_of t < length (actors s)) by (eapply nth_error_lt; exact Hg).
  assert (Hsame : forall s', actors s' = actors s -> exists y, get s' (self_of t) = Some y /\ Forall (xe_ok S (self_of t)) (envs y)).
  { intros s' Ha. exists x. unfold get in *. rewrite Ha. auto. }
  assert (Hset : forall y, Forall (xe_ok S (self_of t)) (envs y) ->
            exists y0, get (set_actor s (self_of t) y) (self_of t) = Some y0 /\ Forall (xe_ok S (self_of t)) (envs y0)).
  { intros y H. exists y. split; [apply get_set_same; exact Hl|exact H]. }
  pose proof (proj1 (envs_ok_iff _ x) Hok) as (Osq & Ouq & Oh & Ost & Ocur).
  unfold exec1. rewrite Hg.
  destruct i; cbn [fst]; try (apply Hsame; reflexivity).
  - destruct remaining; apply Hsame; reflexivity.
  - destruct a; cbn [fst]; try (apply Hsame; reflexivity).
    + destruct (a_state x) eqn:Est; cbn [fst]; try (apply Hsame; reflexivity).
      all: destruct (negb (sp_prelaunch sp)); [apply Hsame; reflexivity|].
      all: destruct (alookup (reg s) (a_path x ++ [sp_name sp])); [apply Hsame; reflexivity|].
      all: cbn [fst]; cbv zeta.
      all: match goal with |- context[with_actor ?s1 _ _] =>
             assert (Hg1 : get s1 (self_of t) = Some x)
               by (unfold get; cbn [actors]; rewrite nth_error_app1 by exact Hl; exact Hg);
             rewrite (with_actor_some _ _ _ _ Hg1) end.
      all: eexists; split; [apply get_set_same; cbn [actors]; rewrite app_length; lia|exact Hok].
    + destruct (a_cur x) as [e|] eqn:Ec; [|apply Hsame; reflexivity]. apply Hset. apply envs_ok_iff.
      cbn [set_stash upd_local a_sq a_uq a_stash a_cur held a_cons]. (split; [|split; [|split; [|split]]]); auto.
      * apply Forall_app. split; [exact Ost|constructor; [apply Ocur; reflexivity|constructor]].
      * intros e' H'. apply Ocur. congruence.
    + destruct n as [n|].
      * destruct (Nat.eqb (length (a_stash x)) 0); [apply Hsame; reflexivity|]. cbn [fst]. apply Hset. apply envs_ok_iff.
        cbn [set_stash upd_local a_sq a_uq a_stash a_cur held a_cons]. (split; [|split; [|split; [|split]]]); auto. apply Forall_skipn. exact Ost.
      * destruct (a_stash x) as [|e0 r] eqn:Es; [apply Hsame; reflexivity|]. apply Hset. apply envs_ok_iff.
        cbn [set_stash upd_local a_sq a_uq a_stash a_cur held a_cons]. (split; [|split; [|split; [|split]]]); auto. inversion Ost; assumption.
    + destruct (alookup (subscribers s ty) (a_path x)); apply Hsame; reflexivity.
    + destruct (nlookup (subs s) ty); apply Hsame; reflexivity.
    + apply Hset. exact Hok.
    + apply Hset. exact Hok.
  - destruct (a_zombie x); [apply Hsame; reflexivity|]. destruct (a_parent x).
    + destruct (take_until_panic acts). apply Hsame; reflexivity.
    + destruct m; try (apply Hsame; reflexivity). destruct (ref_eq s who (RObj (self_of t))); apply Hsame; reflexivity.
  - destruct (subscribers s ty); apply Hsame; reflexivity.
  - destruct (a_zombie x); [apply Hsame; reflexivity|]. destruct (ref_eq s who (RObj (self_of t))); [apply Hsame; reflexivity|].
    cbn [fst]. apply Hset.
    repeat match goal with |- context[match ?e with _ => _ end] => destruct e end; exact Hok.
  - destruct (a_children x); [|apply Hsame; reflexivity]. destruct (a_state x); try (apply Hsame; reflexivity).
    cbn [fst]. apply Hset. apply envs_ok_iff. cbn [set_mb set_state upd_local a_sq a_uq a_stash a_cur held a_cons]. (split; [|split; [|split; [|split]]]); auto.
    intros e He. inversion He; subst. intros c0 Hc0. discriminate Hc0.
  - destruct (a_hooks x) as [|[[h1 h2] h3] rest].
    + cbn [fst]. apply Hset. apply envs_ok_iff. destruct (sp_provider (a_spec x));
        cbn [set_mb set_state set_restarting set_hooks set_modes set_inst upd_local a_sq a_uq a_stash a_cur held a_cons];
        (split; [|split; [|split; [|split]]]); auto; intros e He; inversion He; subst; intros c0 Hc0; discriminate Hc0.
    + destruct (h2 && h3); cbn [fst]; apply Hset; apply envs_ok_iff; destruct (sp_provider (a_spec x));
        cbn [set_mb set_state set_restarting set_hooks set_modes set_inst set_zombie upd_local a_sq a_uq a_stash a_cur held a_cons];
        (split; [|split; [|split; [|split]]]); auto; try (intros e He; inversion He; subst; intros c0 Hc0; discriminate Hc0).
  - apply Hset. exact Hok.
  - destruct d; apply Hsame; reflexivity.
  - apply Hset. apply envs_ok_iff. cbn [set_mb a_sq a_uq a_stash a_cur held a_cons]. (split; [|split; [|split; [|split]]]); auto; try constructor.
Qed.



Lemma in_map_snd_alookup (l : list (path * aid)) p c : alookup l p = Some c -> In (RObj c) (map (fun q => RObj (snd q)) l).
Proof.
  induction l as [|[q v] l IH]; cbn [alookup map]; [discriminate|]. destruct (path_eqb p q).
  - intros H. inversion H. left. reflexivity.
  - intros H. right. apply IH. exact H.
Qed.

(** the fronts: only [IFailed] and an escalating [ISupApply] create a report, the pause loop hands its context on *)
Lemma xexec1_front S s t h i x :
  RInv S -> get s (self_of t) = Some x -> (exists xS, get S (self_of t) = Some xS /\ a_parent xS = a_parent x) ->
  Forall (xe_ok S (self_of t)) (envs x) -> xi_ok S (self_of t) i ->
  Forall (xi_ok S (self_of t)) (snd (exec1 s t h i)).
Proof.
  intros HRS Hg (xS & HgS & HpS) Hok Hi.
  pose proof (proj1 (envs_ok_iff _ x) Hok) as (Osq & Ouq & Oh & Ost & Ocur).
  assert (Hnonroot : forall p, a_parent x = Some p -> self_of t <> 0).
  { intros p Hp E0. destruct HRS as ((x0 & Hg0 & Hp0 & _) & _). rewrite E0 in HgS. assert (xS = x0) by congruence; subst. congruence. }
  unfold exec1. rewrite Hg.
  destruct i; cbn [snd]; try (repeat constructor; fail).
  - (* ISupPause *) destruct remaining; [|repeat constructor]. cbn [snd]. constructor; [|constructor]. cbn [xi_ok app] in *. exact Hi.
  - destruct a; cbn [snd]; try (repeat constructor; fail).
    + constructor; [|repeat constructor]. cbn [xi_ok]. intros c Hc. discriminate Hc.
    + constructor; [|repeat constructor]. cbn [xi_ok]. intros c Hc. discriminate Hc.
    + destruct (a_state x); cbn [snd]; try (repeat constructor; fail);
        (destruct (negb (sp_prelaunch sp)); [repeat constructor|]);
        (destruct (alookup (reg s) (a_path x ++ [sp_name sp])); [repeat constructor|]); cbn [snd app];
        repeat (apply Forall_cons; [cbn [xi_ok]; try exact I; try (intros c0 Hc0; discriminate Hc0)|]); apply Forall_nil.
    + constructor; [|repeat constructor]. cbn [xi_ok]. intros c Hc. discriminate Hc.
    + destruct (a_cur x); repeat constructor.
    + destruct n as [n|].
      * destruct (Nat.eqb (length (a_stash x)) 0); [constructor|]. cbn [snd]. apply Forall_flat_map. intros e He.
        constructor; [|repeat constructor]. cbn [xi_ok].
        assert (Hin : In e (a_stash x)).
        { revert He. generalize (Z.to_nat (Z.max (Z.min n (Z.of_nat (length (a_stash x)))) 0)). generalize (a_stash x).
          induction l as [|e0 l IH]; intros [|k] H; cbn [firstn] in H; try contradiction. destruct H as [->|H]; [left; reflexivity|right; eapply IH; exact H]. }
        rewrite Forall_forall in Ost. apply (Ost e Hin).
      * destruct (a_stash x) as [|e0 r]; [constructor|]. cbn [snd]. constructor; [|repeat constructor]. inversion Ost; assumption.
    + constructor; [|repeat constructor]. cbn [xi_ok]. intros c Hc. discriminate Hc.
    + constructor; [|repeat constructor]. cbn [xi_ok]. intros c Hc. discriminate Hc.
    + destruct (alookup (subscribers s ty) (a_path x)); constructor.
    + destruct (nlookup (subs s) ty); constructor.
  - (* IBeh *)
    destruct (a_zombie x); [constructor|]. destruct (a_parent x) as [p|] eqn:Hpx.
    + destruct (take_until_panic acts) as [pre pan]. cbn [snd]. apply Forall_app. split; [apply Forall_map_IAct; intros; exact I|].
      assert (Hf : Forall (xi_ok S (self_of t)) [IFailed]) by (constructor; [cbn [xi_ok]; apply (Hnonroot p eq_refl)|constructor]).
      destruct pan; [|constructor]. destruct r; try exact Hf; try constructor. destruct (a_state x); try constructor.
      destruct (ref_eq s who (RObj (self_of t))); [constructor|exact Hf].
    + destruct m; try constructor. destruct (ref_eq s who (RObj (self_of t))); constructor.
  - (* IFailed *)
    cbn [xi_ok] in Hi.
    repeat (apply Forall_cons; [cbn [xi_ok]; try exact I|]); try apply Forall_nil.
    intros c Hc. inversion Hc; subst c. split; [exists xS; split; [exact HgS|unfold rref_parent; rewrite HpS; reflexivity]|].
    split; [exact Hi|split; [split; reflexivity|exact I]].
  - destruct (subscribers s ty); [constructor|]. constructor; [|constructor]. cbn [xi_ok]. intros c Hc. discriminate.
  - destruct (a_children x); cbn [app]; repeat (apply Forall_cons; [cbn [xi_ok]; try exact I; try (intros c0 Hc0; discriminate)|]); apply Forall_nil.
  - destruct (a_zombie x); [repeat constructor|]. destruct (ref_eq s who (RObj (self_of t))); repeat constructor.
  - destruct (a_children x); [|constructor]. destruct (a_state x); [constructor| |constructor]. destruct (a_restarting x); repeat constructor.
  - (* ICleanup *)
    destruct (a_watchers x), (a_parent x); cbn [app]; repeat (apply Forall_cons; [cbn [xi_ok]; try exact I; try (intros c0 Hc0; discriminate)|]); apply Forall_nil.
  - destruct (a_hooks x) as [|[[h1 h2] h3] rest]; [repeat constructor|]. destruct (h2 && h3); repeat constructor.
  - (* ISupApply *)
    cbn [xi_ok] in Hi. destruct Hi as [Hi Hroot]. destruct c as [ch ts0 sub]. destruct Hi as [(Hc1 & Hc2 & Hc3) Hc4].
    assert (Hplain : forall (f : rref -> list instr) l, (forall r, Forall (xi_ok S (self_of t)) (f r)) -> Forall (xi_ok S (self_of t)) (flat_map f l))
      by (intros f l H; apply Forall_flat_map; intros; apply H).
    assert (Hesc : self_of t <> 0 ->
      Forall (xi_ok S (self_of t)) [IPauseSt; IEnq true (rref_parent x) (RObj (self_of t)) (MSup (SupCtx (RObj (self_of t)) [] (Some (SupCtx ch targets sub)))); IEnqDone]).
    { intros Hn0. repeat (apply Forall_cons; [cbn [xi_ok]; try exact I|]); try apply Forall_nil.
      intros c Hc. inversion Hc; subst c. split; [exists xS; split; [exact HgS|unfold rref_parent; rewrite HpS; reflexivity]|].
      split; [exact Hn0|]. split; [split; reflexivity|]. cbn [ctx_sub_ok]. split; [|exact Hc4]. exists (self_of t). split; [reflexivity|]. cbn [lvl_ok]. split; assumption. }
    destruct d; cbn [snd is_graceful negb];
      try (repeat first [apply Forall_app; split | apply Hplain; intros r; repeat (apply Forall_cons; [cbn [xi_ok]; try exact I; try (intros c0 Hc0; discriminate)|]); apply Forall_nil | apply Forall_nil]; fail).
    + apply Hesc. intros E0. specialize (Hroot E0). discriminate Hroot.
    + apply Hesc. intros E0. specialize (Hroot E0). discriminate Hroot.
Qed.

(** ** onSupervise: the targets are children of the supervisor and contain the failed child (unless released) *)
Lemma regd_dec s b xb : {regd s b xb} + {~ regd s b xb}.
Proof. unfold regd. destruct (alookup (reg s) (a_path xb)) as [y|]; [destruct (Nat.eq_dec y b); [left; congruence|right; congruence]|right; discriminate]. Qed.

Lemma sup_ok_single S a c : msup_at S a c -> sup_ok S a c ((match c with SupCtx ch _ _ => [ch] end) ++ []).
Proof.
  destruct c as [ch ts sub]. intros [[Hts Hch] Hsub]. split; [|exact Hsub]. rewrite app_nil_r.
  split; [exact Hch|split; [intros r [<-|[]]; exact Hch|left; left; reflexivity]].
Qed.

Lemma sup_ok_children S a xS x c :
  RInv S -> KInv S -> get S a = Some xS -> a_children xS = a_children x -> msup_at S a c ->
  sup_ok S a c (map (fun p => RObj (snd p)) (a_children x) ++ []).
Proof.
  intros (Ra & Rb & _) [K10 K9] Hg Hch Hm. destruct c as [ch ts sub]. destruct Hm as [[Hts Hcr] Hsub]. split; [|exact Hsub]. rewrite app_nil_r.
  split; [exact Hcr|split].
  - intros r Hr. apply in_map_iff in Hr. destruct Hr as ([p c0] & <- & Hin). cbn [snd]. rewrite <- Hch in Hin.
    destruct (K10 a xS p c0 Hg Hin) as (xc & Hxc & Hp & _). exists c0, xc. split; [reflexivity|]. split; [|split; [exact Hxc|left; exact Hp]].
    intros ->. destruct Ra as (x0 & Hg0 & Hp0 & _). assert (xc = x0) by congruence; subst. congruence.
  - destruct Hcr as (d & xd & -> & Hne & Hgd & [Hp|Hu]); [|right; exists d; split; [reflexivity|split; [exact Hne|exact Hu]]].
    destruct (regd_dec S d xd) as [Hr|Hn]; [|right; exists d; split; [reflexivity|split; [exact Hne|exists xd; split; assumption]]].
    left. destruct (K9 d xd Hgd Hne Hr) as (q & xq & Hq & Hxq & Hlk). assert (q = a) by congruence; subst q. assert (xq = xS) by congruence; subst xq.
    rewrite Hch in Hlk. apply (in_map_snd_alookup _ _ _ Hlk).
Qed.

Lemma xdispatch S s a x e xS :
  RInv S -> KInv S -> get s a = Some x -> get S a = Some xS -> a_children xS = a_children x ->
  (a = 0 -> sp_strategy (a_spec x) = 0%N) ->
  Forall (xe_ok S a) (envs x) -> xe_ok S a e ->
  (exists y, get (fst (dispatch s a x e)) a = Some y /\ Forall (xe_ok S a) (envs y)) /\
  Forall (xi_ok S a) (snd (dispatch s a x e)).
Proof.
  intros HR HK Hg HgS Hch Hstrat Hok He.
  assert (Hl : a < length (actors s)) by (eapply nth_error_lt; exact Hg).
  pose proof (proj1 (envs_ok_iff _ x) Hok) as (Osq & Ouq & Oh & Ost & Ocur).
  assert (Hkill : forall k p, xe_ok S a {| e_sys := true; e_sender := e_sender e; e_msg := MKill k p |}) by (intros k p c0 Hc0; discriminate Hc0).
  assert (Hdl : forall b, xe_ok S b {| e_sys := false; e_sender := root_ref; e_msg := MDeadLetter (e_sys e) (e_msg e) |}) by (intros b c0 Hc0; discriminate Hc0).
  unfold dispatch.
  repeat match goal with
         | |- context[if ?c then _ else _] => destruct c eqn:?
         | |- context[match ?c with _ => _ end] => tryif constr_eq c e then fail else destruct c eqn:?
         end; cbn [fst snd]; (split;
  [ first [ exists x; split; [exact Hg|exact Hok]
          | eexists; split; [first [apply get_set_same; exact Hl | exact (get_set_same s a _ Hl)]|];
            apply envs_ok_iff;
            cbn [set_mb set_state set_restarting set_decisions set_watchers upd_local a_sq a_uq a_stash a_cur held a_cons];
            (split; [|split; [|split; [|split]]]); auto; try apply Forall_nil; intros e0 He0; injection He0 as <-; first [exact He | apply Hkill] ]
  | repeat (apply Forall_cons; [cbn [xi_ok]; first [exact I | apply Hdl | (intros c0 Hc0; discriminate Hc0) | idtac]|]); try apply Forall_nil ]).
  all: try (split; [|intros E0; first [reflexivity | (specialize (Hstrat E0); congruence)]]).
  all: try (match goal with
            | H : e_msg ?e0 = MSup ?c, He' : xe_ok _ _ ?e0 |- sup_ok _ _ _ (map _ _ ++ []) => eapply sup_ok_children; eauto
            | H : e_msg ?e0 = MSup ?c, He' : xe_ok _ _ ?e0 |- sup_ok _ _ _ _ => apply (sup_ok_single S a c (He' c H))
            end).
Qed.

(** ** an enqueue lands where the context is well located *)
Lemma xland_R S self sys mb sdr m :
  xi_ok S self (IEnqR sys mb sdr m) ->
  xe_ok S (fst (landing mb {| e_sys := sys; e_sender := sdr; e_msg := m |})) (snd (landing mb {| e_sys := sys; e_sender := sdr; e_msg := m |})).
Proof.
  intros H. destruct mb; cbn [landing fst snd xi_ok land_ok] in *.
  - intros c Hc. cbn in Hc. destruct (H c Hc) as [(Hn0 & Ho & Hs) Hl]. destruct c as [ch ts sub]. destruct Ho as [-> ->]. split; [split; [reflexivity|exact Hl]|exact Hs].
  - intros c Hc. cbn in Hc. destruct (H c Hc) as [(Hn0 & Ho & Hs) Hl]. destruct c as [ch ts sub]. destruct Ho as [-> ->]. split; [split; [reflexivity|exact Hl]|exact Hs].
  - intros c Hc. discriminate Hc.
Qed.

Lemma xland_plain S mb sys sdr m : (forall c, m <> MSup c) ->
  xe_ok S (fst (landing mb {| e_sys := sys; e_sender := sdr; e_msg := m |})) (snd (landing mb {| e_sys := sys; e_sender := sdr; e_msg := m |})).
Proof. intros H. destruct mb; cbn [landing fst snd]; intros c Hc; cbn in Hc; try (exfalso; exact (H c Hc)); discriminate Hc. Qed.

(** ** findMailbox on the parent's reference: the report is addressed to the real parent (or its sender has released its path) *)
Lemma xresolve s self sys r sdr m x :
  LI s -> RInv s -> KInv s -> RootC s -> get s self = Some x ->
  xi_ok s self (IEnq sys r sdr m) -> xi_ok s self (IEnqR sys (fst (resolve s r)) sdr m).
Proof.
  intros HLI HR HK HC Hg H c Hc. destruct (H c Hc) as [(x' & Hg' & Hr) Ho]. split; [exact Ho|].
  assert (x' = x) by congruence; subst x'. pose proof HR as (Ra & Rb & Rc & R1 & R8).
  assert (Hunreg : ~ regd s self x -> unreg s self) by (intros Hn; exists x; split; assumption).
  assert (Hself0 : self <> 0) by (apply Ho).
  assert (Hchild : forall y, (a_parent x = Some y \/ unreg s self) -> is_child_ref s y (RObj self)) by (intros y Hy; exists self, x; auto).
  subst r. unfold rref_parent. destruct (a_parent x) as [q|] eqn:Hpar.
  - (* a proper parent *)
    destruct (Rb self x Hg Hself0) as [(q' & Hq' & Hlt) _]. assert (q' = q) by congruence; subst q'.
    assert (Hex : exists xq, get s q = Some xq).
    { destruct (get s q) as [xq|] eqn:E; [eauto|]. apply nth_error_None in E. apply nth_error_lt in Hg. lia. }
    destruct Hex as (xq & Hgq).
    (* when self is registered, its parent is alive and (if not the root) registered *)
    assert (Hpreg : regd s self x -> q <> 0 -> regd s q xq).
    { intros Hrs Hq0. destruct (parent_alive s self x HLI HR HK Hg Hself0 Hrs) as (q2 & xq2 & Hq2 & _ & Hxq2 & _ & _ & _ & Hrq).
      assert (q2 = q) by congruence; subst q2. assert (xq2 = xq) by congruence; subst xq2. apply Hrq. exact Hq0. }
    unfold resolve. rewrite Hgq. destruct (a_cache xq) as [y|] eqn:Hcq; cbn [fst land_ok].
    + destruct (Nat.eq_dec q 0) as [->|Hq0]; [rewrite (HC _ Hgq) in Hcq; discriminate|].
      destruct (R8 q xq y Hgq Hcq) as [->|Hnq]; [apply Hchild; left; reflexivity|].
      apply Hchild. right. apply Hunreg. intros Hrs. apply Hnq. apply Hpreg; assumption.
    + destruct (alookup (reg s) (a_path xq)) as [y|] eqn:Hlk; cbn [fst land_ok].
      * destruct (regd_dec s self x) as [Hrs|Hn]; [|apply Hchild; right; apply Hunreg; exact Hn].
        destruct (Nat.eq_dec q 0) as [->|Hq0].
        -- destruct Ra as (x0 & Hg0 & _ & Hp0). assert (xq = x0) by congruence; subst. rewrite Hp0, Rc in Hlk. discriminate.
        -- pose proof (Hpreg Hrs Hq0) as Hrq. unfold regd in Hrq. assert (y = q) by congruence; subst. apply Hchild. left. reflexivity.
      * destruct (path_eqb (a_path xq) []) eqn:Ep; cbn [fst land_ok]; [|exact I].
        apply path_eqb_eq in Ep. apply Hchild. left. f_equal.
        destruct (Nat.eq_dec q 0) as [->|Hq0]; [reflexivity|]. destruct (Rb q xq Hgq Hq0) as [_ Hpn]. congruence.
  - (* no parent: only the root, which never reports *)
    exfalso. destruct (Rb self x Hg Hself0) as [(q & Hq & _) _]. congruence.
Qed.

(** * the generic frame (as in Actor/ProofsMailMK.v) *)
Lemma xrec_ok_mono s m a x : xrec_ok s a x -> xrec_ok (mstep s m) a x.
Proof.
  intros [H1 H2]. split; eapply Forall_impl; try eassumption; intros; [apply xe_ok_mono|apply xi_ok_mono]; assumption.
Qed.

Lemma xrec_ok_new s a x : is_new x -> xrec_ok s a x.
Proof. intros (p & g & par & sp & ->). split; constructor. Qed.

Lemma xrec_ok_lsame s a x y : lsame x y -> a_sq y = a_sq x -> a_uq y = a_uq x -> xrec_ok s a x -> xrec_ok s a y.
Proof.
  intros Hl Hs Hu [H1 H2]. rewrite Hl. split.
  - apply envs_ok_iff. apply envs_ok_iff in H1. destruct H1 as (A & B & C & D & E). cbn [fw a_sq a_uq a_stash a_cur held a_cons].
    rewrite Hs, Hu. (split; [|split; [|split; [|split]]]); auto.
  - exact H2.
Qed.

(** pushing an acceptable envelope *)
Lemma xrec_ok_push s a x e :
  xe_ok s a e -> xrec_ok s a x ->
  xrec_ok s a (set_mb x (if e_sys e then a_sq x ++ [e] else a_sq x) (if e_sys e then a_uq x else a_uq x ++ [e]) (a_paused x) (a_cons x) (a_cur x)).
Proof.
  intros He [H1 H2]. split; [|exact H2]. apply envs_ok_iff. apply envs_ok_iff in H1. destruct H1 as (A & B & C & D & E).
  cbn [set_mb a_sq a_uq a_stash a_cur held a_cons]. destruct (e_sys e); (split; [|split; [|split; [|split]]]); auto; apply Forall_app; split; auto.
Qed.

(** all records acceptable w.r.t. a fixed state [s] *)
Definition XAll (s : state) (s' : state) : Prop :=
  (forall a x, get s' a = Some x -> xrec_ok s a x) /\
  (forall j ex, nth_error (exts s') j = Some ex -> Forall (xi_ok s 0) (x_pend ex)).

Lemma XAll_same s s' : actors s' = actors s -> exts s' = exts s -> XI s -> XAll s s'.
Proof. intros Ha He [H1 H2]. split; [intros a x Hg; apply H1; unfold get in *; rewrite <- Ha; exact Hg|intros j ex Hn; apply (H2 j); rewrite <- He; exact Hn]. Qed.

Lemma XAll_set_actor s s1 a y : XAll s s1 -> xrec_ok s a y -> XAll s (set_actor s1 a y).
Proof.
  intros [H1 H2] Hy. split; [|exact H2]. intros b x Hg.
  destruct (Nat.eq_dec a b) as [<-|Hne].
  - destruct (Nat.lt_ge_cases a (length (actors s1))) as [Hl|Hl].
    + rewrite get_set_same in Hg by exact Hl. inversion Hg; subst. exact Hy.
    + unfold get in Hg. cbn [set_actor actors] in Hg. assert (E : nth_error (upd (actors s1) a y) a = None) by (apply nth_error_None; rewrite upd_length; exact Hl). congruence.
  - rewrite get_set_other in Hg by exact Hne. apply H1. exact Hg.
Qed.

Lemma XAll_push_mb s s1 a e : XAll s s1 -> xe_ok s a e -> XAll s (push_mb s1 a e).
Proof.
  intros H He. destruct (get s1 a) as [x|] eqn:Hg.
  - rewrite (push_mb_get _ _ _ _ Hg). apply XAll_set_actor; [exact H|]. apply xrec_ok_push; [exact He|]. apply (proj1 H _ _ Hg).
  - rewrite (push_mb_none _ _ _ Hg). exact H.
Qed.

Lemma XAll_resolve s s1 r : XAll s s1 -> XAll s (snd (resolve s1 r)).
Proof.
  intros H. destruct (resolve_shape s1 r) as [E|[E|(a & x & y & _ & Hg & _ & _ & E & _)]]; rewrite E; [exact H|exact H|].
  apply XAll_set_actor; [exact H|]. eapply xrec_ok_lsame; [| | |apply (proj1 H _ _ Hg)]; reflexivity.
Qed.

(** replacing thread t's pending list by acceptable instructions *)
Lemma XAll_set_pend s s1 t l :
  XAll s s1 -> Forall (xi_ok s (self_of t)) l -> XAll s (set_pend s1 t l).
Proof.
  intros [H1 H2] Hl. destruct t as [a|j]; cbn [set_pend self_of] in *.
  - unfold with_actor. destruct (get s1 a) as [x|] eqn:Hg; [|split; assumption].
    apply XAll_set_actor; [split; assumption|]. destruct (H1 _ _ Hg) as [E _]. split; [exact E|exact Hl].
  - destruct (nth_error (exts s1) j) as [ex|] eqn:Hn; [|split; assumption].
    split; [exact H1|]. intros k exk Hk. cbn [set_ext exts] in Hk. destruct (Nat.eq_dec j k) as [<-|Hne].
    + rewrite nth_upd_eq in Hk by (eapply nth_error_lt; exact Hn). inversion Hk; subst. exact Hl.
    + rewrite nth_upd_neq in Hk by exact Hne. apply (H2 k). exact Hk.
Qed.

(** the pending list of a thread is acceptable for the thread's own context *)
Lemma XAll_pend s s1 t i rest : XAll s s1 -> pend_of s1 t = i :: rest -> xi_ok s (self_of t) i /\ Forall (xi_ok s (self_of t)) rest.
Proof.
  intros [H1 H2] Hp. destruct t as [a|j]; cbn [self_of].
  - destruct (pend_of_TA_cons _ _ _ _ Hp) as (x & Hg & Hpx). destruct (H1 _ _ Hg) as [_ E]. rewrite Hpx in E. inversion E; auto.
  - destruct (pend_of_TX_cons _ _ _ _ Hp) as (ex & Hn & Hpx). pose proof (H2 _ _ Hn) as E. rewrite Hpx in E. inversion E; auto.
Qed.



Lemma XI_of_XAll s m : XAll s (mstep s m) -> XI (mstep s m).
Proof.
  intros [H1 H2]. split.
  - intros a x Hg. apply xrec_ok_mono. apply H1. exact Hg.
  - intros j ex Hn. eapply Forall_impl; [|apply (H2 j ex Hn)]. intros i Hi. apply xi_ok_mono. exact Hi.
Qed.

Lemma xrec_ok_set_mb_perm s a x sq uq co cu pa :
  xrec_ok s a x -> Forall (xe_ok s a) sq -> Forall (xe_ok s a) uq ->
  (forall e, co = CH e -> xe_ok s a e) -> (forall e, cu = Some e -> xe_ok s a e) ->
  xrec_ok s a (set_mb x sq uq pa co cu).
Proof.
  intros [H1 H2] Hs Hu Hc Hcu. split; [|exact H2]. apply envs_ok_iff. apply envs_ok_iff in H1. destruct H1 as (A & B & C & D & E).
  cbn [set_mb a_sq a_uq a_stash a_cur held a_cons]. (split; [|split; [|split; [|split]]]); auto.
  unfold held. cbn [a_cons set_mb]. destruct co; try constructor; [apply Hc; reflexivity|constructor].
Qed.

(** pending lists of the external callers after one atomic step *)


(** one atomic step other than the cleanup *)
Lemma XAll_astep s t i rest :
  RInv s -> XI s -> pend_of s t = i :: rest -> XAll s (astep s t i rest).
Proof.
  intros HR HM Hp. pose proof HM as [M1 M2].
  destruct (RInv_self s t HR i rest Hp) as (x & Hg).
  assert (Hl : self_of t < length (actors s)) by (eapply nth_error_lt; exact Hg).
  destruct (astep_table s t i rest x Hg Hp) as (Hg0 & y & news & Hy & Hnews & Ha1 & Ha & _ & Hl0 & _). cbv zeta in *.
  set (s0 := set_pend s t rest) in *.
  destruct (XAll_pend s s t i rest (XAll_same s s eq_refl eq_refl HM) Hp) as [Hi Hrest].
  assert (Hx0 : Forall (xe_ok s (self_of t)) (envs (popped t x rest))) by (rewrite envs_popped; apply (M1 _ _ Hg)).
  destruct (xexec1_envs s s0 t (held_of s0 t) i _ Hg0 Hx0) as (y' & Hy' & Hyok).
  assert (Hpar : exists xS, get s (self_of t) = Some xS /\ a_parent xS = a_parent (popped t x rest)) by (exists x; split; [exact Hg|destruct t; reflexivity]).
  pose proof (xexec1_front s s0 t (held_of s0 t) i _ HR Hg0 Hpar Hx0 Hi) as Hfr.
  assert (Hyy : y' = y).
  { unfold get in Hy'. rewrite Ha1 in Hy'. rewrite nth_error_app1 in Hy' by (rewrite upd_length, Hl0; exact Hl).
    rewrite nth_upd_eq in Hy' by (rewrite Hl0; exact Hl). congruence. }
  subst y'.
  set (front := snd (exec1 s0 t (held_of s0 t) i)) in *.
  split.
  - intros b xb Hgb. unfold get in Hgb. rewrite Ha in Hgb.
    destruct (Nat.lt_ge_cases b (length (actors s))) as [Hlt|Hge].
    + rewrite nth_error_app1 in Hgb by (rewrite upd_length; exact Hlt).
      destruct (Nat.eq_dec (self_of t) b) as [<-|Hne].
      * rewrite nth_upd_eq in Hgb by exact Hl. inversion Hgb; subst xb.
        destruct t as [a|j]; cbn [pushed self_of] in *.
        -- split; [rewrite envs_upd_pend; exact Hyok|]. cbn [upd_pend a_pend]. apply Forall_app. split; [exact Hfr|exact Hrest].
        -- split; [exact Hyok|]. rewrite (lu_pend _ _ _ Hy). cbn [popped]. apply (M1 _ _ Hg).
      * rewrite nth_upd_neq in Hgb by exact Hne. apply M1. exact Hgb.
    + rewrite nth_error_app2 in Hgb by (rewrite upd_length; exact Hge). apply nth_error_In in Hgb.
      rewrite Forall_forall in Hnews. apply xrec_ok_new. auto.
  - intros k exk Hk. destruct (astep_exts s t i rest k exk Hk) as [[-> E]|(exo & Ho & E)].
    + rewrite E. fold s0. fold front. apply Forall_app. split; [exact Hfr|].
      unfold s0. cbn [set_pend]. destruct (pend_of_TX_cons _ _ _ _ Hp) as (ex & Hn & Hpx). rewrite Hn. cbn [set_ext exts].
      rewrite nth_upd_eq by (eapply nth_error_lt; exact Hn). cbn [x_pend]. exact Hrest.
    + rewrite E. apply (M2 k). exact Ho.
Qed.



Lemma nth_error_split_In {A} (l : list A) k x : nth_error l k = Some x ->
  forall y, In y l <-> In y (firstn k l ++ skipn (S k) l) \/ y = x.
Proof.
  revert k. induction l as [|h t IH]; intros [|k] H y; cbn [nth_error firstn skipn app] in *; try discriminate.
  - inversion H; subst. cbn. intuition (subst; auto).
  - specialize (IH k H y). change (In y (h :: t) <-> In y (h :: (firstn k t ++ skipn (S k) t)) \/ y = x). cbn [In]. tauto.
Qed.

Lemma sup_ok_same_members s q c l1 l2 : (forall r, In r l1 <-> In r l2) -> sup_ok s q c l1 -> sup_ok s q c l2.
Proof.
  intros Heq. destruct c as [ch ts sub]. intros [(H1 & H2 & H3) H4]. split; [|exact H4]. split; [exact H1|split].
  - intros r Hr. apply H2. apply Heq. exact Hr.
  - destruct H3 as [H|H]; [left; apply Heq; exact H|right; exact H].
Qed.

Theorem XI_mstep s m : wf s -> LI s -> RInv s -> KInv s -> RootC s -> RootS s -> XI s -> XI (mstep s m).
Proof.
  intros W HLI HR HK HC HS HM. pose proof HM as [M1 M2].
  assert (Hsame : forall s', actors s' = actors s -> exts s' = exts s -> mstep s m = s' -> XI (mstep s m)).
  { intros s' Ha He E. apply XI_of_XAll. rewrite E. apply XAll_same; assumption. }
  destruct m.
  - (* MSysPop *)
    apply XI_of_XAll. cbn [mstep step]. destruct (get s a) as [x|] eqn:Hg; [|apply XAll_same; auto].
    pose proof (M1 _ _ Hg) as Hx. pose proof (proj1 (envs_ok_iff _ x) (proj1 Hx)) as (A & B & C & D & E).
    destruct (a_cons x), (a_sq x) eqn:Hs; try (apply XAll_same; auto; fail);
      (apply XAll_set_actor; [apply XAll_same; auto|]; apply xrec_ok_set_mb_perm; auto; try (inversion A; assumption);
       try (intros e0 He0; inversion He0; subst; inversion A; assumption); try (intros e0 He0; discriminate He0); try apply Forall_nil).
  - (* MLoadPaused *)
    apply XI_of_XAll. cbn [mstep step]. destruct (get s a) as [x|] eqn:Hg; [|apply XAll_same; auto].
    pose proof (M1 _ _ Hg) as Hx. pose proof (proj1 (envs_ok_iff _ x) (proj1 Hx)) as (A & B & C & D & E).
    destruct (a_cons x); try (apply XAll_same; auto; fail).
    apply XAll_set_actor; [apply XAll_same; auto|]. apply xrec_ok_set_mb_perm; auto. intros e0 He0. destruct (a_paused x); discriminate He0.
  - (* MUserPop *)
    apply XI_of_XAll. cbn [mstep step]. destruct (get s a) as [x|] eqn:Hg; [|apply XAll_same; auto].
    pose proof (M1 _ _ Hg) as Hx. pose proof (proj1 (envs_ok_iff _ x) (proj1 Hx)) as (A & B & C & D & E).
    destruct (a_cons x), (a_uq x) eqn:Hs; try (apply XAll_same; auto; fail);
      (apply XAll_set_actor; [apply XAll_same; auto|]; apply xrec_ok_set_mb_perm; auto; try (inversion B; assumption);
       try (intros e0 He0; inversion He0; subst; inversion B; assumption); try (intros e0 He0; discriminate He0); try apply Forall_nil).
  - (* MHandle *)
    apply XI_of_XAll. cbn [mstep]. destruct (get s a) as [x|] eqn:Hg; [|apply XAll_same; auto].
    destruct (a_cons x) eqn:Hc; try (apply XAll_same; auto; fail).
    assert (Hl : a < length (actors s)) by (eapply nth_error_lt; exact Hg).
    pose proof (M1 _ _ Hg) as Hx. pose proof (proj1 (envs_ok_iff _ x) (proj1 Hx)) as (A & B & C & D & E).
    assert (He : xe_ok s a e) by (unfold held in C; rewrite Hc in C; inversion C; assumption).
    set (s0 := set_actor s a (busy x)).
    assert (Hg0 : get s0 a = Some (busy x)) by (apply get_set_same; exact Hl).
    assert (Hb : Forall (xe_ok s a) (envs (busy x))).
    { apply envs_ok_iff. cbn [busy set_mb a_sq a_uq a_stash a_cur held a_cons]. (split; [|split; [|split; [|split]]]); auto; try apply Forall_nil. }
    assert (Hst : a = 0 -> sp_strategy (a_spec (busy x)) = 0%N) by (intros ->; apply (HS _ Hg)).
    destruct (xdispatch s s0 a (busy x) e x HR HK Hg0 Hg eq_refl Hst Hb He) as [(y & Hy & Hyok) Hins].
    destruct (dispatch_effect s0 a (busy x) e Hg0) as (y2 & _ & Ha & _ & _ & Hex & _).
    destruct (dispatch s0 a (busy x) e) as [s1 ins]. cbn [fst snd] in *.
    rewrite (set_pend_TA _ _ _ _ Hy). split.
    + intros b xb Hgb. destruct (Nat.eq_dec a b) as [<-|Hne].
      * rewrite (get_set_same' _ _ _ _ Hy) in Hgb. inversion Hgb; subst xb. split; [rewrite envs_upd_pend; exact Hyok|exact Hins].
      * rewrite get_set_other in Hgb by exact Hne. apply M1. unfold get in *. rewrite Ha in Hgb. unfold s0 in Hgb. cbn [set_actor actors] in Hgb.
        rewrite upd_upd, nth_upd_neq in Hgb by exact Hne. exact Hgb.
    + intros j ex Hn. cbn [set_actor exts] in Hn. rewrite Hex in Hn. apply (M2 j). exact Hn.
  - (* MPush *)
    apply XI_of_XAll. cbn [mstep step]. destruct (pend_of s t) as [|i rest] eqn:Hp; [apply XAll_same; auto|].
    destruct (XAll_pend s s t i rest (XAll_same s s eq_refl eq_refl HM) Hp) as [Hi Hrest].
    destruct i; try (apply XAll_same; auto; fail).
    + rewrite deliver_eq. apply XAll_set_pend; [|exact Hrest]. apply XAll_push_mb; [apply XAll_same; auto|]. apply (xland_R s (self_of t)). exact Hi.
    + apply XAll_set_pend; [|exact Hrest]. apply XAll_push_mb; [apply XAll_same; auto|]. exact Hi.
    + destruct (nth_error tos c) as [r|]; [|apply XAll_same; auto].
      pose proof (XAll_resolve s s r (XAll_same s s eq_refl eq_refl HM)) as Hr. destruct (resolve s r) as [mb s1]. cbn [snd] in Hr.
      rewrite deliver_eq. apply XAll_set_pend.
      * apply XAll_push_mb; [exact Hr|]. apply xland_plain. exact Hi.
      * constructor; [exact I|]. destruct (firstn c tos ++ skipn (S c) tos); [exact Hrest|constructor; [exact Hi|exact Hrest]].
    + destruct (nth_error remaining c) as [r|] eqn:Hnth; [|apply XAll_same; auto].
      pose proof (XAll_resolve s s r (XAll_same s s eq_refl eq_refl HM)) as Hr. destruct (resolve s r) as [mb s1]. cbn [snd] in Hr.
      rewrite deliver_eq. apply XAll_set_pend.
      * apply XAll_push_mb; [exact Hr|]. apply xland_plain. intros c1 Hc1. discriminate Hc1.
      * constructor; [exact I|]. constructor; [|exact Hrest]. cbn [xi_ok] in *. destruct Hi as [Hi Hroot]. split; [|exact Hroot].
        eapply sup_ok_same_members; [|exact Hi]. intros r0. pose proof (nth_error_split_In _ _ _ Hnth r0) as E.
        rewrite !in_app_iff in *. cbn [In]. intuition (subst; auto).
  - (* MEnqDone *)
    apply XI_of_XAll. cbn [mstep]. destruct (pend_of s t) as [|i rest] eqn:Hp; [apply XAll_same; auto|].
    destruct (XAll_pend s s t i rest (XAll_same s s eq_refl eq_refl HM) Hp) as [Hi Hrest].
    destruct i; try (apply XAll_same; auto; fail). apply XAll_set_pend; [apply XAll_same; auto|exact Hrest].
  - (* MPauseSt *)
    apply XI_of_XAll. cbn [mstep]. destruct (pend_of s t) as [|i rest] eqn:Hp; [apply XAll_same; auto|].
    destruct (XAll_pend s s t i rest (XAll_same s s eq_refl eq_refl HM) Hp) as [Hi Hrest].
    destruct i; try (apply XAll_same; auto; fail). apply XAll_set_pend; [|exact Hrest].
    unfold with_actor. destruct (get s (self_of t)) as [x|] eqn:Hg; [|apply XAll_same; auto].
    apply XAll_set_actor; [apply XAll_same; auto|]. destruct (M1 _ _ Hg) as [E1 E2]. split; [exact E1|exact E2].
  - (* MResume1 *)
    apply XI_of_XAll. cbn [mstep]. destruct (pend_of s t) as [|i rest] eqn:Hp; [apply XAll_same; auto|].
    destruct (XAll_pend s s t i rest (XAll_same s s eq_refl eq_refl HM) Hp) as [Hi Hrest].
    destruct i; try (apply XAll_same; auto; fail).
    destruct (get s (self_of t)) as [x|] eqn:Hg; [|apply XAll_same; auto]. destruct (a_paused x).
    + apply XAll_set_pend; [|constructor; [exact I|exact Hrest]].
      apply XAll_set_actor; [apply XAll_same; auto|]. destruct (M1 _ _ Hg) as [E1 E2]. split; [exact E1|exact E2].
    + apply XAll_set_pend; [apply XAll_same; auto|exact Hrest].
  - (* MResume2 *)
    apply XI_of_XAll. cbn [mstep]. destruct (pend_of s t) as [|i rest] eqn:Hp; [apply XAll_same; auto|].
    destruct (XAll_pend s s t i rest (XAll_same s s eq_refl eq_refl HM) Hp) as [Hi Hrest].
    destruct i; try (apply XAll_same; auto; fail). apply XAll_set_pend; [apply XAll_same; auto|exact Hrest].
  - (* MAtomic *)
    destruct (pend_of s t) as [|i rest] eqn:Hp; [apply (Hsame s); auto; cbn [mstep]; rewrite Hp; reflexivity|].
    destruct (XAll_pend s s t i rest (XAll_same s s eq_refl eq_refl HM) Hp) as [Hi Hrest].
    destruct (is_enq i) eqn:Hq.
    + destruct i; try discriminate Hq. apply XI_of_XAll. cbn [mstep]. rewrite Hp.
      apply XAll_set_pend; [apply XAll_resolve; apply XAll_same; auto|]. constructor; [|exact Hrest].
      destruct (RInv_self s t HR _ _ Hp) as (x & Hg). apply (xresolve s (self_of t) sys to sender m x); assumption.
    + destruct (yielding i) eqn:Hy.
      * apply (Hsame s); auto. cbn [mstep]. rewrite Hp. destruct i; try discriminate Hy; try reflexivity; try discriminate Hq.
        destruct remaining; [discriminate Hy|reflexivity].
      * pose proof (mstep_atomic_exec s t i rest Hp Hy Hq) as E. apply XI_of_XAll. rewrite E. apply XAll_astep; assumption.
Qed.

Lemma XI_init scs : XI (init_with scs).
Proof.
  unfold init_with.
  assert (Ha : forall scs s i, actors (set_exts s i scs) = actors s).
  { clear. induction scs as [|sc r IH]; intros s i; cbn [set_exts]; [reflexivity|]. rewrite IH. apply set_pend_TX_actors. }
  split.
  - intros a x Hg. unfold get in Hg. rewrite Ha in Hg. destruct a as [|[|a]]; cbn in Hg; try discriminate. inversion Hg; subst. split; constructor.
  - assert (H : forall scs s i, (forall j ex, nth_error (exts s) j = Some ex -> forall ins, In ins (x_pend ex) -> exists a, ins = IAct a) ->
                 forall j ex, nth_error (exts (set_exts s i scs)) j = Some ex -> forall ins, In ins (x_pend ex) -> exists a, ins = IAct a).
    { clear. induction scs as [|sc r IH]; intros s i Hs; cbn [set_exts]; [exact Hs|]. apply IH. intros j ex Hn ins Hin.
      cbn [set_pend] in Hn. destruct (nth_error (exts s) i) as [exi|] eqn:Ei; [|eapply Hs; eauto].
      cbn [set_ext exts] in Hn. destruct (Nat.eq_dec i j) as [<-|Hne].
      - rewrite nth_upd_eq in Hn by (eapply nth_error_lt; exact Ei). inversion Hn; subst. cbn [x_pend] in Hin. apply in_map_iff in Hin. destruct Hin as (a & <- & _). eauto.
      - rewrite nth_upd_neq in Hn by exact Hne. eapply Hs; eauto. }
    intros j ex Hn. apply Forall_forall. intros ins Hin.
    destruct (H scs (init_state (length scs)) 0) with (j := j) (ex := ex) (ins := ins) as (a & ->); auto.
    + intros k exk Hk ins0 Hin0. cbn [init_state exts] in Hk. apply nth_error_In in Hk. apply repeat_spec in Hk. subst. destruct Hin0.
    + exact I.
Qed.

Definition Base6 (s : state) : Prop := Base4 s /\ KInv s /\ RootC s /\ RootS s.
Lemma Base6_init scs : Base6 (init_with scs).
Proof. split; [apply Base4_init|split; [apply KInv_init|split; [apply RootC_init|apply RootS_init]]]. Qed.
Lemma Base6_mstep s m : Base6 s -> Base6 (mstep s m).
Proof.
  intros (B & K & C & S). pose proof B as (W & I & R & M).
  split; [apply Base4_mstep; exact B|split; [apply KInv_mstep; assumption|split; [apply RootC_mstep; assumption|apply RootS_mstep; assumption]]].
Qed.

Theorem XI_reachable s : reachable s -> XI s.
Proof.
  revert s. apply (micro_invariant_with Base6 XI); [apply Base6_init|apply Base6_mstep|apply XI_init|].
  intros s m ((W & I & R & M) & K & C & S) HX. apply XI_mstep; assumption.
Qed.
