(** Supervision contexts in flight are well formed: a report names a child of the supervisor it is addressed to (or a
    context that has released its path), the targets of a pause loop / decision are children of the deciding
    supervisor, and every level of an escalation chain lists children of the context that escalated it. *)
From Coq Require Import List NArith ZArith Bool Lia Arith.
From Vivid Require Import Actor.Core Actor.CoreRun Actor.SpecMail Actor.ProofsMailBase Actor.ProofsMail Actor.ProofsMailInv
  Actor.ProofsMailWf Actor.ProofsMailAcct Actor.ProofsMailReg Actor.ProofsMailMicro Actor.ProofsMailLife Actor.ProofsMailStep
  Actor.ProofsMailTree Actor.ProofsMailMK Actor.ProofsMailKids.
Import ListNotations.

(** * the root's reference cache is never filled (its path is not in the registry) *)
Definition RootC (s : state) : Prop := forall x0, get s 0 = Some x0 -> a_cache x0 = None.

Lemma RootC_mstep s m : RInv s -> RootC s -> RootC (mstep s m).
Proof.
  intros (Ra & _ & Rc & _) HC x0' Hg'. destruct Ra as (x0 & Hg0 & _ & Hp0). specialize (HC x0 Hg0).
  assert (Hcr : forall s1 x1, quiet s s1 -> get s1 0 = Some x1 -> a_cache x1 = None).
  { intros s1 x1 (_ & _ & _ & _ & Hc) H1. destruct (Hc 0 x0 x1 Hg0 H1) as [E|(_ & z & _ & Hl)]; [congruence|]. rewrite Hp0, Rc in Hl. discriminate. }
  destruct (mstep_cases s m) as [Hq|[(t & i & rest & pre & s1 & Hp & Hpl & Hf & Hu & Hq & _ & E)|[(a & x & e & -> & Hg & Hc)|(t & i & rest & -> & Hp & Hyl & Hq & E)]]].
  - apply (Hcr _ _ Hq Hg').
  - rewrite E in Hg'. destruct t as [a|j].
    + cbn [set_pend] in Hg'. unfold with_actor in Hg'. destruct (get s1 a) as [xa|] eqn:Ea; [|apply (Hcr _ _ Hq Hg')].
      destruct (Nat.eq_dec a 0) as [->|Hne].
      * rewrite (get_set_same' _ _ _ _ Ea) in Hg'. inversion Hg'; subst. cbn. apply (Hcr _ _ Hq Ea).
      * rewrite get_set_other in Hg' by exact Hne. apply (Hcr _ _ Hq Hg').
    + unfold get in Hg'. rewrite set_pend_TX_actors in Hg'. apply (Hcr _ _ Hq Hg').
  - cbn [mstep] in Hg'. rewrite Hg, Hc in Hg'.
    assert (Hgb : get (set_actor s a (busy x)) a = Some (busy x)) by (apply (get_set_same' s a _ x Hg)).
    destruct (dispatch_effect _ a (busy x) e Hgb) as (y & Hdf & Ha & _).
    destruct (dispatch (set_actor s a (busy x)) a (busy x) e) as [s1 ins]. cbn [fst] in Ha.
    assert (Hy : get s1 a = Some y) by (unfold get; rewrite Ha; apply nth_upd_eq; cbn; rewrite upd_length; eapply nth_error_lt; exact Hg).
    rewrite (set_pend_TA _ _ _ _ Hy) in Hg'. destruct (Nat.eq_dec a 0) as [->|Hne].
    + rewrite (get_set_same' _ _ _ _ Hy) in Hg'. inversion Hg'; subst. cbn. rewrite (df_cache _ _ Hdf). cbn. assert (x = x0) by congruence; subst. exact HC.
    + rewrite get_set_other in Hg' by exact Hne. unfold get in Hg'. rewrite Ha in Hg'. cbn [set_actor actors] in Hg'. rewrite upd_upd, nth_upd_neq in Hg' by exact Hne.
      assert (x0' = x0) by (unfold get in Hg0; congruence). subst. exact HC.
  - rewrite E in Hg'. destruct (get s (self_of t)) as [x|] eqn:Hg.
    + destruct (astep_table s t i rest x Hg Hp) as (_ & y & news & Hy & _ & _ & Ha & _). cbv zeta in *.
      unfold get in Hg'. rewrite Ha in Hg'. rewrite nth_error_app1 in Hg' by (rewrite upd_length; eapply nth_error_lt; exact Hg0).
      destruct (Nat.eq_dec (self_of t) 0) as [E0|Hne].
      * rewrite E0 in *. rewrite nth_upd_eq in Hg' by (eapply nth_error_lt; exact Hg0). inversion Hg'; subst x0'.
        assert (x = x0) by congruence; subst x. destruct t; cbn [pushed upd_pend a_cache]; rewrite (lu_cache _ _ _ Hy); cbn [popped upd_pend a_cache]; exact HC.
      * rewrite nth_upd_neq in Hg' by exact Hne. assert (x0' = x0) by (unfold get in Hg0; congruence). subst. exact HC.
    + exfalso. destruct t as [a|j]; cbn [self_of] in *.
      * destruct (pend_of_TA_cons _ _ _ _ Hp) as (x & Hgx & _). congruence.
      * congruence.
Qed.

Lemma RootC_init scs : RootC (init_with scs).
Proof.
  intros x0 Hg. unfold init_with, get in Hg.
  assert (Ha : forall scs s i, actors (set_exts s i scs) = actors s).
  { clear. induction scs as [|sc r IH]; intros s i; cbn [set_exts]; [reflexivity|]. rewrite IH. apply set_pend_TX_actors. }
  rewrite Ha in Hg. cbn in Hg. inversion Hg. reflexivity.
Qed.

(** * well-formed contexts *)
Definition is_child_ref (s : state) (q : aid) (r : rref) : Prop :=
  exists d xd, r = RObj d /\ get s d = Some xd /\ (a_parent xd = Some q \/ unreg s d).
Definition lvl_ok (s : state) (b : aid) (c1 : supctx) : Prop :=
  match c1 with SupCtx ch1 ts1 _ =>
    (forall r, In r ts1 -> is_child_ref s b r) /\ (In ch1 ts1 \/ exists d, ch1 = RObj d /\ unreg s d)
  end.
Fixpoint ctx_sub_ok (s : state) (c : supctx) : Prop :=
  match c with SupCtx ch ts sub =>
    match sub with
    | None => True
    | Some c1 => (exists b, ch = RObj b /\ lvl_ok s b c1) /\ ctx_sub_ok s c1
    end
  end.
Definition own_report (s : state) (self : aid) (c : supctx) : Prop :=
  match c with SupCtx ch ts _ => ch = RObj self /\ ts = [] end /\ ctx_sub_ok s c.
Definition msup_at (s : state) (q : aid) (c : supctx) : Prop :=
  match c with SupCtx ch ts _ => ts = [] /\ is_child_ref s q ch end /\ ctx_sub_ok s c.
Definition sup_ok (s : state) (q : aid) (c : supctx) (targets : list rref) : Prop :=
  match c with SupCtx ch _ _ =>
    is_child_ref s q ch /\ (forall r, In r targets -> is_child_ref s q r) /\ (In ch targets \/ exists d, ch = RObj d /\ unreg s d)
  end /\ ctx_sub_ok s c.
Definition land_ok (s : state) (self : aid) (mb : mbox) : Prop :=
  match mb with
  | MbActor q => is_child_ref s q (RObj self)
  | MbRoot => is_child_ref s 0 (RObj self)
  | MbDead => True
  end.

Definition xe_ok (s : state) (q : aid) (e : envelope) : Prop := forall c, e_msg e = MSup c -> msup_at s q c.
Definition xi_ok (s : state) (self : aid) (i : instr) : Prop :=
  match i with
  | IEnq sys r snd m => forall c, m = MSup c -> (exists x, get s self = Some x /\ r = rref_parent x) /\ own_report s self c
  | IEnqR sys mb snd m => forall c, m = MSup c -> own_report s self c /\ land_ok s self mb
  | IEnqAny _ _ _ m => forall c, m <> MSup c
  | IEnqMb b e => xe_ok s b e
  | ISupPause c d rem done => sup_ok s self c (rem ++ done)
  | ISupApply c d targets => sup_ok s self c targets
  | _ => True
  end.
Definition xrec_ok (s : state) (a : aid) (x : actor) : Prop :=
  Forall (xe_ok s a) (envs x) /\ Forall (xi_ok s a) (a_pend x).
Definition XI (s : state) : Prop :=
  (forall a x, get s a = Some x -> xrec_ok s a x) /\
  (forall j ex, nth_error (exts s) j = Some ex -> Forall (xi_ok s 0) (x_pend ex)).

(** ** monotonicity *)
Lemma is_child_ref_mono s m q r : is_child_ref s q r -> is_child_ref (mstep s m) q r.
Proof.
  intros (d & xd & -> & Hg & H). destruct (idT_mstep s m d xd Hg ltac:(tauto)) as (xd' & Hg' & _ & Hp).
  exists d, xd'. split; [reflexivity|split; [exact Hg'|]]. destruct H as [H|H]; [left; congruence|right; apply unreg_mono; exact H].
Qed.
Lemma lvl_ok_mono s m b c1 : lvl_ok s b c1 -> lvl_ok (mstep s m) b c1.
Proof.
  destruct c1 as [ch ts sub]. intros [H1 H2]. split.
  - intros r Hr. apply is_child_ref_mono. auto.
  - destruct H2 as [H|(d & -> & H)]; [left; exact H|right; exists d; split; [reflexivity|apply unreg_mono; exact H]].
Qed.
Lemma ctx_sub_ok_mono s m c : ctx_sub_ok s c -> ctx_sub_ok (mstep s m) c.
Proof.
  revert c. fix IH 1. intros [ch ts [c1|]]; cbn [ctx_sub_ok]; [|auto].
  intros [(b & -> & Hl) Hs]. split; [exists b; split; [reflexivity|apply lvl_ok_mono; exact Hl]|apply IH; exact Hs].
Qed.
Lemma own_report_mono s m self c : own_report s self c -> own_report (mstep s m) self c.
Proof. intros [H1 H2]. split; [exact H1|apply ctx_sub_ok_mono; exact H2]. Qed.
Lemma msup_at_mono s m q c : msup_at s q c -> msup_at (mstep s m) q c.
Proof. destruct c as [ch ts sub]. intros [[H1 H2] H3]. split; [split; [exact H1|apply is_child_ref_mono; exact H2]|apply ctx_sub_ok_mono; exact H3]. Qed.
Lemma sup_ok_mono s m q c ts : sup_ok s q c ts -> sup_ok (mstep s m) q c ts.
Proof.
  destruct c as [ch ts0 sub]. intros [(H1 & H2 & H3) H4]. split; [split; [apply is_child_ref_mono; exact H1|split]|apply ctx_sub_ok_mono; exact H4].
  - intros r Hr. apply is_child_ref_mono. auto.
  - destruct H3 as [H|(d & -> & H)]; [left; exact H|right; exists d; split; [reflexivity|apply unreg_mono; exact H]].
Qed.
Lemma land_ok_mono s m self mb : land_ok s self mb -> land_ok (mstep s m) self mb.
Proof. destruct mb; cbn [land_ok]; auto; apply is_child_ref_mono. Qed.
Lemma xe_ok_mono s m a e : xe_ok s a e -> xe_ok (mstep s m) a e.
Proof. intros H c Hc. apply msup_at_mono. auto. Qed.
Lemma xi_ok_mono s m a i : xi_ok s a i -> xi_ok (mstep s m) a i.
Proof.
  destruct i; cbn [xi_ok]; auto.
  - intros H c Hc. destruct (H c Hc) as [(x & Hg & Hr) Ho]. split; [|apply own_report_mono; exact Ho].
    destruct (idT_mstep s m a x Hg ltac:(tauto)) as (x' & Hg' & _ & Hp). exists x'. split; [exact Hg'|]. unfold rref_parent. rewrite Hp. exact Hr.
  - intros H c Hc. destruct (H c Hc) as [Ho Hl]. split; [apply own_report_mono; exact Ho|apply land_ok_mono; exact Hl].
  - apply xe_ok_mono.
  - apply sup_ok_mono.
  - apply sup_ok_mono.
Qed.

(** ** the envelopes a record holds across one atomic instruction *)
Lemma xexec1_envs S s t h i x :
  get s (self_of t) = Some x -> Forall (xe_ok S (self_of t)) (envs x) ->
  exists y, get (fst (exec1 s t h i)) (self_of t) = Some y /\ Forall (xe_ok S (self_of t)) (envs y).
Proof.
  intros Hg Hok.
  assert (Hl : self_of t < length (actors s)) by (eapply nth_error_lt; exact Hg).
  assert (Hsame : forall s', actors s' = actors s -> exists y, get s' (self_of t) = Some y /\ Forall (xe_ok S (self_of t)) (envs y)).
  { intros s' Ha. exists x. unfold get in *. rewrite Ha. auto. }
  assert (Hset : forall y, Forall (xe_ok S (self_of t)) (envs y) ->
            exists y0, get (set_actor s (self_of t) y) (self_of t) = Some y0 /\ Forall (xe_ok S (self_of t)) (envs y0)).
  { intros y H. exists y. split; [apply get_set_same; exact Hl|exact H]. }
  pose proof (proj1 (envs_ok_iff _ x) Hok) as (Osq & Ouq & Oh & Ost & Ocur).
  unfold exec1. rewrite Hg.
  destruct i; cbn [fst]; try (apply Hsame; reflexivity).
  - destruct remaining; apply Hsame; reflexivity.
  - destruct a; cbn [fst]; try (apply Hsame; reflexivity).
    + destruct (a_state x) eqn:Est; cbn [fst]; try (apply Hsame; reflexivity).
      all: destruct (negb (sp_prelaunch sp)); [apply Hsame; reflexivity|].
      all: destruct (alookup (reg s) (a_path x ++ [sp_name sp])); [apply Hsame; reflexivity|].
      all: cbn [fst]; cbv zeta.
      all: match goal with |- context[with_actor ?s1 _ _] =>
             assert (Hg1 : get s1 (self_of t) = Some x)
               by (unfold get; cbn [actors]; rewrite nth_error_app1 by exact Hl; exact Hg);
             rewrite (with_actor_some _ _ _ _ Hg1) end.
      all: eexists; split; [apply get_set_same; cbn [actors]; rewrite app_length; lia|exact Hok].
    + destruct (a_cur x) as [e|] eqn:Ec; [|apply Hsame; reflexivity]. apply Hset. apply envs_ok_iff.
      cbn [set_stash upd_local a_sq a_uq a_stash a_cur held a_cons]. (split; [|split; [|split; [|split]]]); auto.
      * apply Forall_app. split; [exact Ost|constructor; [apply Ocur; reflexivity|constructor]].
      * intros e' H'. apply Ocur. congruence.
    + destruct n as [n|].
      * destruct (Nat.eqb (length (a_stash x)) 0); [apply Hsame; reflexivity|]. cbn [fst]. apply Hset. apply envs_ok_iff.
        cbn [set_stash upd_local a_sq a_uq a_stash a_cur held a_cons]. (split; [|split; [|split; [|split]]]); auto. apply Forall_skipn. exact Ost.
      * destruct (a_stash x) as [|e0 r] eqn:Es; [apply Hsame; reflexivity|]. apply Hset. apply envs_ok_iff.
        cbn [set_stash upd_local a_sq a_uq a_stash a_cur held a_cons]. (split; [|split; [|split; [|split]]]); auto. inversion Ost; assumption.
    + destruct (alookup (subscribers s ty) (a_path x)); apply Hsame; reflexivity.
    + destruct (nlookup (subs s) ty); apply Hsame; reflexivity.
    + apply Hset. exact Hok.
    + apply Hset. exact Hok.
  - destruct (a_zombie x); [apply Hsame; reflexivity|]. destruct (a_parent x).
    + destruct (take_until_panic acts). apply Hsame; reflexivity.
    + destruct m; try (apply Hsame; reflexivity). destruct (ref_eq s who (RObj (self_of t))); apply Hsame; reflexivity.
  - destruct (subscribers s ty); apply Hsame; reflexivity.
  - destruct (a_zombie x); [apply Hsame; reflexivity|]. destruct (ref_eq s who (RObj (self_of t))); [apply Hsame; reflexivity|].
    cbn [fst]. apply Hset.
    repeat match goal with |- context[match ?e with _ => _ end] => destruct e end; exact Hok.
  - destruct (a_children x); [|apply Hsame; reflexivity]. destruct (a_state x); try (apply Hsame; reflexivity).
    cbn [fst]. apply Hset. apply envs_ok_iff. cbn [set_mb set_state upd_local a_sq a_uq a_stash a_cur held a_cons]. (split; [|split; [|split; [|split]]]); auto.
    intros e He. inversion He; subst. intros c0 Hc0. discriminate Hc0.
  - destruct (a_hooks x) as [|[[h1 h2] h3] rest].
    + cbn [fst]. apply Hset. apply envs_ok_iff. destruct (sp_provider (a_spec x));
        cbn [set_mb set_state set_restarting set_hooks set_modes set_inst upd_local a_sq a_uq a_stash a_cur held a_cons];
        (split; [|split; [|split; [|split]]]); auto; intros e He; inversion He; subst; intros c0 Hc0; discriminate Hc0.
    + destruct (h2 && h3); cbn [fst]; apply Hset; apply envs_ok_iff; destruct (sp_provider (a_spec x));
        cbn [set_mb set_state set_restarting set_hooks set_modes set_inst set_zombie upd_local a_sq a_uq a_stash a_cur held a_cons];
        (split; [|split; [|split; [|split]]]); auto; try (intros e He; inversion He; subst; intros c0 Hc0; discriminate Hc0).
  - apply Hset. exact Hok.
  - destruct d; apply Hsame; reflexivity.
  - apply Hset. apply envs_ok_iff. cbn [set_mb a_sq a_uq a_stash a_cur held a_cons]. (split; [|split; [|split; [|split]]]); auto; try constructor.
Qed.



Lemma in_map_snd_alookup (l : list (path * aid)) p c : alookup l p = Some c -> In (RObj c) (map (fun q => RObj (snd q)) l).
Proof.
  induction l as [|[q v] l IH]; cbn [alookup map]; [discriminate|]. destruct (path_eqb p q).
  - intros H. inversion H. left. reflexivity.
  - intros H. right. apply IH. exact H.
Qed.

(** the fronts: only [IFailed] and an escalating [ISupApply] create a report, the pause loop hands its context on *)
Lemma xexec1_front S s t h i x :
  get s (self_of t) = Some x -> (exists xS, get S (self_of t) = Some xS /\ a_parent xS = a_parent x) ->
  Forall (xe_ok S (self_of t)) (envs x) -> xi_ok S (self_of t) i ->
  Forall (xi_ok S (self_of t)) (snd (exec1 s t h i)).
Proof.
  intros Hg (xS & HgS & HpS) Hok Hi.
  pose proof (proj1 (envs_ok_iff _ x) Hok) as (Osq & Ouq & Oh & Ost & Ocur).
  assert (Hnm : forall (P : supctx -> Prop) m, (forall c, m <> MSup c) -> forall c, m = MSup c -> P c) by (intros P m H c E; exfalso; exact (H c E)).
  unfold exec1. rewrite Hg.
  destruct i; cbn [snd]; try (repeat constructor; fail).
  - (* ISupPause *) destruct remaining; [|repeat constructor]. cbn [snd]. constructor; [|constructor]. cbn [xi_ok app] in *. exact Hi.
  - destruct a; cbn [snd]; try (repeat constructor; fail).
    + constructor; [|repeat constructor]. cbn [xi_ok]. intros c Hc. discriminate Hc.
    + constructor; [|repeat constructor]. cbn [xi_ok]. intros c Hc. discriminate Hc.
    + destruct (a_state x); cbn [snd]; try (repeat constructor; fail);
        (destruct (negb (sp_prelaunch sp)); [repeat constructor|]);
        (destruct (alookup (reg s) (a_path x ++ [sp_name sp])); [repeat constructor|]); cbn [snd app];
        repeat (apply Forall_cons; [cbn [xi_ok]; try exact I; try (intros c0 Hc0; discriminate Hc0)|]); apply Forall_nil.
    + constructor; [|repeat constructor]. cbn [xi_ok]. intros c Hc. discriminate Hc.
    + destruct (a_cur x); repeat constructor.
    + destruct n as [n|].
      * destruct (Nat.eqb (length (a_stash x)) 0); [constructor|]. cbn [snd]. apply Forall_flat_map. intros e He.
        constructor; [|repeat constructor]. cbn [xi_ok].
        assert (Hin : In e (a_stash x)).
        { revert He. generalize (Z.to_nat (Z.max (Z.min n (Z.of_nat (length (a_stash x)))) 0)). generalize (a_stash x).
          induction l as [|e0 l IH]; intros [|k] H; cbn [firstn] in H; try contradiction. destruct H as [->|H]; [left; reflexivity|right; eapply IH; exact H]. }
        rewrite Forall_forall in Ost. apply (Ost e Hin).
      * destruct (a_stash x) as [|e0 r]; [constructor|]. cbn [snd]. constructor; [|repeat constructor]. inversion Ost; assumption.
    + constructor; [|repeat constructor]. cbn [xi_ok]. intros c Hc. discriminate Hc.
    + constructor; [|repeat constructor]. cbn [xi_ok]. intros c Hc. discriminate Hc.
    + destruct (alookup (subscribers s ty) (a_path x)); constructor.
    + destruct (nlookup (subs s) ty); constructor.
  - destruct (a_zombie x); [constructor|]. destruct (a_parent x).
    + destruct (take_until_panic acts) as [pre pan]. cbn [snd]. apply Forall_app. split; [apply Forall_map_IAct; intros; exact I|].
      destruct pan; [|constructor]. destruct r; try (repeat constructor; fail). destruct (a_state x); try constructor.
      destruct (ref_eq s who (RObj (self_of t))); repeat constructor.
    + destruct m; try constructor. destruct (ref_eq s who (RObj (self_of t))); constructor.
  - (* IFailed *)
    repeat (apply Forall_cons; [cbn [xi_ok]; try exact I|]); try apply Forall_nil.
    intros c Hc. inversion Hc; subst c. split; [exists xS; split; [exact HgS|unfold rref_parent; rewrite HpS; reflexivity]|].
    split; [split; reflexivity|exact I].
  - destruct (subscribers s ty); [constructor|]. constructor; [|constructor]. cbn [xi_ok]. intros c Hc. discriminate.
  - destruct (a_children x); cbn [app]; repeat (apply Forall_cons; [cbn [xi_ok]; try exact I; try (intros c0 Hc0; discriminate)|]); apply Forall_nil.
  - destruct (a_zombie x); [repeat constructor|]. destruct (ref_eq s who (RObj (self_of t))); repeat constructor.
  - destruct (a_children x); [|constructor]. destruct (a_state x); [constructor| |constructor]. destruct (a_restarting x); repeat constructor.
  - (* ICleanup *)
    destruct (a_watchers x), (a_parent x); cbn [app]; repeat (apply Forall_cons; [cbn [xi_ok]; try exact I; try (intros c0 Hc0; discriminate)|]); apply Forall_nil.
  - destruct (a_hooks x) as [|[[h1 h2] h3] rest]; [repeat constructor|]. destruct (h2 && h3); repeat constructor.
  - (* ISupApply *)
    cbn [xi_ok] in Hi. destruct c as [ch ts0 sub]. destruct Hi as [(Hc1 & Hc2 & Hc3) Hc4].
    assert (Hplain : forall (f : rref -> list instr) l, (forall r, Forall (xi_ok S (self_of t)) (f r)) -> Forall (xi_ok S (self_of t)) (flat_map f l))
      by (intros f l H; apply Forall_flat_map; intros; apply H).
    destruct d; cbn [snd is_graceful negb];
      try (repeat first [apply Forall_app; split | apply Hplain; intros r; repeat (apply Forall_cons; [cbn [xi_ok]; try exact I; try (intros c0 Hc0; discriminate)|]); apply Forall_nil | apply Forall_nil]; fail).
    + (* DEscalate *)
      repeat (apply Forall_cons; [cbn [xi_ok]; try exact I|]); try apply Forall_nil.
      intros c Hc. inversion Hc; subst c. split; [exists xS; split; [exact HgS|unfold rref_parent; rewrite HpS; reflexivity]|].
      split; [split; reflexivity|]. cbn [ctx_sub_ok]. split; [|exact Hc4]. exists (self_of t). split; [reflexivity|]. cbn [lvl_ok]. split; assumption.
    + (* DInvalid *)
      repeat (apply Forall_cons; [cbn [xi_ok]; try exact I|]); try apply Forall_nil.
      intros c Hc. inversion Hc; subst c. split; [exists xS; split; [exact HgS|unfold rref_parent; rewrite HpS; reflexivity]|].
      split; [split; reflexivity|]. cbn [ctx_sub_ok]. split; [|exact Hc4]. exists (self_of t). split; [reflexivity|]. cbn [lvl_ok]. split; assumption.
Qed.

(** ** onSupervise: the targets are children of the supervisor and contain the failed child (unless released) *)
Lemma regd_dec s b xb : {regd s b xb} + {~ regd s b xb}.
Proof. unfold regd. destruct (alookup (reg s) (a_path xb)) as [y|]; [destruct (Nat.eq_dec y b); [left; congruence|right; congruence]|right; discriminate]. Qed.

Lemma sup_ok_single S a c : msup_at S a c -> sup_ok S a c ((match c with SupCtx ch _ _ => [ch] end) ++ []).
Proof.
  destruct c as [ch ts sub]. intros [[Hts Hch] Hsub]. split; [|exact Hsub]. rewrite app_nil_r.
  split; [exact Hch|split; [intros r [<-|[]]; exact Hch|left; left; reflexivity]].
Qed.

Lemma sup_ok_children S a xS x c :
  RInv S -> KInv S -> get S a = Some xS -> a_children xS = a_children x -> msup_at S a c ->
  sup_ok S a c (map (fun p => RObj (snd p)) (a_children x) ++ []).
Proof.
  intros (Ra & Rb & _) [K10 K9] Hg Hch Hm. destruct c as [ch ts sub]. destruct Hm as [[Hts Hcr] Hsub]. split; [|exact Hsub]. rewrite app_nil_r.
  split; [exact Hcr|split].
  - intros r Hr. apply in_map_iff in Hr. destruct Hr as ([p c0] & <- & Hin). cbn [snd]. rewrite <- Hch in Hin.
    destruct (K10 a xS p c0 Hg Hin) as (xc & Hxc & Hp & _). exists c0, xc. auto.
  - destruct Hcr as (d & xd & -> & Hgd & [Hp|Hu]); [|right; exists d; split; [reflexivity|exact Hu]].
    destruct (regd_dec S d xd) as [Hr|Hn]; [|right; exists d; split; [reflexivity|exists xd; split; assumption]].
    left. assert (Hne : d <> 0). { intros ->. destruct Ra as (x0 & Hg0 & Hp0 & _). assert (xd = x0) by congruence; subst. congruence. }
    destruct (K9 d xd Hgd Hne Hr) as (q & xq & Hq & Hxq & Hlk). assert (q = a) by congruence; subst q. assert (xq = xS) by congruence; subst xq.
    rewrite Hch in Hlk. apply (in_map_snd_alookup _ _ _ Hlk).
Qed.

Lemma xdispatch S s a x e xS :
  RInv S -> KInv S -> get s a = Some x -> get S a = Some xS -> a_children xS = a_children x ->
  Forall (xe_ok S a) (envs x) -> xe_ok S a e ->
  (exists y, get (fst (dispatch s a x e)) a = Some y /\ Forall (xe_ok S a) (envs y)) /\
  Forall (xi_ok S a) (snd (dispatch s a x e)).
Proof.
  intros HR HK Hg HgS Hch Hok He.
  assert (Hl : a < length (actors s)) by (eapply nth_error_lt; exact Hg).
  pose proof (proj1 (envs_ok_iff _ x) Hok) as (Osq & Ouq & Oh & Ost & Ocur).
  assert (Hkill : forall k p, xe_ok S a {| e_sys := true; e_sender := e_sender e; e_msg := MKill k p |}) by (intros k p c0 Hc0; discriminate Hc0).
  assert (Hdl : forall b, xe_ok S b {| e_sys := false; e_sender := root_ref; e_msg := MDeadLetter (e_sys e) (e_msg e) |}) by (intros b c0 Hc0; discriminate Hc0).
  unfold dispatch.
  repeat match goal with
         | |- context[if ?c then _ else _] => destruct c eqn:?
         | |- context[match ?c with _ => _ end] => tryif constr_eq c e then fail else destruct c eqn:?
         end; cbn [fst snd]; (split;
  [ first [ exists x; split; [exact Hg|exact Hok]
          | eexists; split; [first [apply get_set_same; exact Hl | exact (get_set_same s a _ Hl)]|];
            apply envs_ok_iff;
            cbn [set_mb set_state set_restarting set_decisions set_watchers upd_local a_sq a_uq a_stash a_cur held a_cons];
            (split; [|split; [|split; [|split]]]); auto; try apply Forall_nil; intros e0 He0; injection He0 as <-; first [exact He | apply Hkill] ]
  | repeat (apply Forall_cons; [cbn [xi_ok]; first [exact I | apply Hdl | (intros c0 Hc0; discriminate Hc0) | idtac]|]); try apply Forall_nil ]).
  all: try (match goal with
            | H : e_msg ?e0 = MSup ?c, He' : xe_ok _ _ ?e0 |- sup_ok _ _ _ (map _ _ ++ []) => eapply sup_ok_children; eauto
            | H : e_msg ?e0 = MSup ?c, He' : xe_ok _ _ ?e0 |- sup_ok _ _ _ _ => apply (sup_ok_single S a c (He' c H))
            end).
Qed.

(** ** an enqueue lands where the context is well located *)
Lemma xland_R S self sys mb snd m :
  xi_ok S self (IEnqR sys mb snd m) ->
  xe_ok S (fst (landing mb {| e_sys := sys; e_sender := snd; e_msg := m |})) (Core.snd (landing mb {| e_sys := sys; e_sender := snd; e_msg := m |})).
Proof.
  intros H. destruct mb; cbn [landing fst Core.snd xi_ok land_ok] in *.
  - intros c Hc. cbn in Hc. destruct (H c Hc) as [[Ho Hs] Hl]. destruct c as [ch ts sub]. destruct Ho as [-> ->]. split; [split; [reflexivity|exact Hl]|exact Hs].
  - intros c Hc. cbn in Hc. destruct (H c Hc) as [[Ho Hs] Hl]. destruct c as [ch ts sub]. destruct Ho as [-> ->]. split; [split; [reflexivity|exact Hl]|exact Hs].
  - intros c Hc. discriminate Hc.
Qed.

Lemma xland_plain S mb sys snd m : (forall c, m <> MSup c) ->
  xe_ok S (fst (landing mb {| e_sys := sys; e_sender := snd; e_msg := m |})) (Core.snd (landing mb {| e_sys := sys; e_sender := snd; e_msg := m |})).
Proof. intros H. destruct mb; cbn [landing fst Core.snd]; intros c Hc; cbn in Hc; try (exfalso; exact (H c Hc)); discriminate Hc. Qed.
