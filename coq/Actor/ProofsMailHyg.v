(** Mail hygiene: user queues hold only non-system envelopes; a pause command is never stashed, replayed or told by
    anything but a supervisor's pause loop; the root is never paused. *)
From Coq Require Import List NArith ZArith Bool Lia Arith.
From Vivid Require Import Actor.Core Actor.CoreRun Actor.SpecMail Actor.ProofsMailBase Actor.ProofsMail Actor.ProofsMailInv
  Actor.ProofsMailWf Actor.ProofsMailAcct Actor.ProofsMailReg Actor.ProofsMailMicro Actor.ProofsMailLife Actor.ProofsMailStep
  Actor.ProofsMailTree Actor.ProofsMailMK Actor.ProofsMailKids Actor.ProofsMailCtx Actor.ProofsMailMicro2 Actor.ProofsMailCache.
Import ListNotations.

Definition np_env (e : envelope) : Prop := e_msg e <> MCmdPause.
Definition np_instr (i : instr) : Prop :=
  match i with
  | IEnq _ _ _ m | IEnqR _ _ _ m | IEnqAny _ _ _ m => m <> MCmdPause
  | IEnqMb _ e => np_env e
  | _ => True
  end.
Definition ucode (i : instr) : bool :=
  match i with IAct _ | IBeh _ _ _ | IDoKill _ | IOnKilled _ | ICheckMark | IRestartFinish => true | _ => false end.
Definition cur_np (x : actor) : Prop := forall e, a_cur x = Some e -> np_env e.

Lemma np_flat_map {A} (f : A -> list instr) l : (forall a, In a l -> Forall np_instr (f a)) -> Forall np_instr (flat_map f l).
Proof. induction l as [|a l IH]; intros H; cbn [flat_map]; [constructor|]. apply Forall_app. split; [apply H; left; reflexivity|apply IH; intros b Hb; apply H; right; exact Hb]. Qed.
Lemma ucode_flat_map {A} (f : A -> list instr) l : (forall a, existsb ucode (f a) = false) -> existsb ucode (flat_map f l) = false.
Proof. intros H. induction l as [|a l IH]; cbn [flat_map]; [reflexivity|]. rewrite existsb_app, H, IH. reflexivity. Qed.
Lemma pause_flat_map {A} (f : A -> list instr) l : (forall a, ~ In IPauseSt (f a)) -> ~ In IPauseSt (flat_map f l).
Proof. intros H Hin. apply in_flat_map in Hin. destruct Hin as (a & _ & Ha). apply (H a Ha). Qed.

Lemma exec1_hyg s t h i x :
  get s (self_of t) = Some x -> Forall np_env (a_stash x) -> (ucode i = true -> cur_np x) ->
  let r := exec1 s t h i in
  (forall y, get (fst r) (self_of t) = Some y -> Forall np_env (a_stash y) /\ (cur_np x -> cur_np y)) /\
  Forall np_instr (snd r) /\ (existsb ucode (snd r) = true -> ucode i = true) /\
  (In IPauseSt (snd r) -> i = IFailed \/ exists c d tg, i = ISupApply c d tg /\ d <> DStop).
Proof.
  intros Hg Hst Hcur. cbv zeta.
  assert (Hl : self_of t < length (actors s)) by (eapply nth_error_lt; exact Hg).
  assert (Hsame : forall s', actors s' = actors s -> forall y, get s' (self_of t) = Some y -> Forall np_env (a_stash y) /\ (cur_np x -> cur_np y)).
  { intros s' Ha y Hy. unfold get in *. rewrite Ha in Hy. assert (y = x) by congruence; subst. auto. }
  assert (Hset : forall y0, Forall np_env (a_stash y0) -> (cur_np x -> cur_np y0) ->
                 forall y, get (set_actor s (self_of t) y0) (self_of t) = Some y -> Forall np_env (a_stash y) /\ (cur_np x -> cur_np y)).
  { intros y0 H1 H2 y Hy. rewrite (get_set_same _ _ _ Hl) in Hy. inversion Hy; subst. auto. }
  unfold exec1. rewrite Hg.
  destruct i; cbn [fst snd].
  all: try solve [split; [apply Hsame; reflexivity|split; [constructor|split; [cbn; intros; discriminate|intros []]]]].
  - (* ISupPause *) destruct remaining; cbn [fst snd];
      (split; [apply Hsame; reflexivity|split; [repeat constructor|split; [cbn; intros; discriminate|cbn; intuition discriminate]]]).
  - (* IAct *)
    assert (Hu : ucode (IAct a) = true) by reflexivity.
    destruct a; cbn [fst snd].
    all: try solve [split; [apply Hsame; reflexivity|split; [repeat constructor; discriminate|split; [intros; reflexivity|cbn; intuition discriminate]]]].
    + (* ASpawn *)
      destruct (a_state x) eqn:Est; cbn [fst snd];
        try solve [split; [apply Hsame; reflexivity|split; [constructor|split; [intros; reflexivity|intros []]]]].
      all: destruct (negb (sp_prelaunch sp)); cbn [fst snd];
        [split; [apply Hsame; reflexivity|split; [constructor|split; [intros; reflexivity|intros []]]]|].
      all: destruct (alookup (reg s) (a_path x ++ [sp_name sp])) eqn:Hlk; cbn [fst snd];
        [split; [apply Hsame; reflexivity|split; [constructor|split; [intros; reflexivity|intros []]]]|].
      all: cbv zeta.
      all: match goal with |- context[with_actor ?s1 _ _] =>
        assert (Hg1 : get s1 (self_of t) = Some x)
          by (unfold get; cbn [actors]; rewrite nth_error_app1 by exact Hl; exact Hg);
        rewrite (with_actor_some _ _ _ _ Hg1);
        assert (Hl1 : self_of t < length (actors s1)) by (eapply nth_error_lt; exact Hg1)
      end.
      all: (split; [intros y Hy; rewrite (get_set_same _ _ _ Hl1) in Hy; inversion Hy; subst; split; [exact Hst|auto]|
                    split; [repeat constructor; discriminate|split; [intros; reflexivity|cbn; intuition discriminate]]]).
    + (* AStash *)
      destruct (a_cur x) as [e|] eqn:Ec; cbn [fst snd].
      * split; [|split; [constructor|split; [intros; reflexivity|intros []]]].
        apply Hset; [cbn; apply Forall_app; split; [exact Hst|constructor; [apply (Hcur Hu e Ec)|constructor]]|intros H e0 H0; apply H; exact H0].
      * split; [apply Hsame; reflexivity|split; [constructor|split; [intros; reflexivity|intros []]]].
    + (* AUnstash *)
      destruct n as [n|].
      * destruct (Nat.eqb (length (a_stash x)) 0); cbn [fst snd].
        -- split; [apply Hsame; reflexivity|split; [constructor|split; [intros; reflexivity|intros []]]].
        -- split; [apply Hset; [cbn; apply Forall_skipn; exact Hst|intros H e0 H0; apply H; exact H0]|].
           split; [|split; [intros; reflexivity|intros Hin; exfalso; revert Hin; apply pause_flat_map; intros e0; cbn; intuition discriminate]].
           apply np_flat_map. intros e0 He0. repeat constructor. cbn.
           eapply Forall_forall; [apply Forall_firstn; exact Hst|exact He0].
      * destruct (a_stash x) as [|e0 r0] eqn:Es; cbn [fst snd].
        -- split; [apply Hsame; reflexivity|split; [constructor|split; [intros; reflexivity|intros []]]].
        -- inversion Hst as [|? ? Hn1 Hn2]; subst. split; [apply Hset; [cbn; exact Hn2|intros Hq e1 Hq1; apply Hq; exact Hq1]|].
           split; [repeat constructor; exact Hn1|split; [intros; reflexivity|cbn; intuition discriminate]].
    + (* ASub *) destruct (alookup (subscribers s ty) (a_path x)); cbn [fst snd];
        (split; [apply Hsame; reflexivity|split; [constructor|split; [intros; reflexivity|intros []]]]).
    + (* AUnsub *) destruct (nlookup (subs s) ty); cbn [fst snd];
        (split; [apply Hsame; reflexivity|split; [constructor|split; [intros; reflexivity|intros []]]]).
    + (* ABecome *) split; [apply Hset; [exact Hst|intros H e0 H0; apply H; exact H0]|split; [constructor|split; [intros; reflexivity|intros []]]].
    + (* AUnbecome *) split; [apply Hset; [exact Hst|intros H e0 H0; apply H; exact H0]|split; [constructor|split; [intros; reflexivity|intros []]]].
  - (* IBeh *)
    destruct (a_zombie x); cbn [fst snd]; [split; [apply Hsame; reflexivity|split; [constructor|split; [intros; reflexivity|intros []]]]|].
    destruct (a_parent x).
    + destruct (take_until_panic acts) as [pre panics]. cbn [fst snd].
      split; [apply Hsame; reflexivity|]. split; [|split; [intros; reflexivity|]].
      * apply Forall_app. split; [apply Forall_forall; intros i0 Hi0; apply in_map_iff in Hi0; destruct Hi0 as (a0 & <- & _); exact I|].
        destruct panics; [|constructor]. destruct r; [repeat constructor|constructor|].
        destruct (a_state x); [|constructor|constructor]. destruct (ref_eq s who (RObj (self_of t))); repeat constructor.
      * intros Hin. apply in_app_or in Hin. destruct Hin as [Hin|Hin].
        -- apply in_map_iff in Hin. destruct Hin as (a0 & E0 & _). discriminate E0.
        -- destruct panics; [|destruct Hin]. destruct r; [cbn in Hin; intuition discriminate|destruct Hin|].
           destruct (a_state x); [|destruct Hin|destruct Hin]. destruct (ref_eq s who (RObj (self_of t))); cbn in Hin; intuition discriminate.
    + destruct m; cbn [fst snd]; try solve [split; [apply Hsame; reflexivity|split; [constructor|split; [intros; reflexivity|intros []]]]].
      destruct (ref_eq s who (RObj (self_of t))); cbn [fst snd]; (split; [apply Hsame; reflexivity|split; [constructor|split; [intros; reflexivity|intros []]]]).
  - (* IFailed *)
    split; [apply Hsame; reflexivity|split; [repeat constructor; discriminate|split; [cbn; intros; discriminate|intros _; left; reflexivity]]].
  - (* IPub *)
    destruct (subscribers s ty); cbn [fst snd];
      (split; [apply Hsame; reflexivity|split; [repeat constructor; discriminate|split; [cbn; intros; discriminate|cbn; intuition discriminate]]]).
  - (* IDoKill *)
    split; [apply Hsame; reflexivity|split; [|split; [intros; reflexivity|]]].
    + destruct (a_children x); repeat constructor; discriminate.
    + destruct (a_children x); cbn; intuition discriminate.
  - (* IOnKilled *)
    destruct (a_zombie x); cbn [fst snd]; [split; [apply Hsame; reflexivity|split; [repeat constructor|split; [intros; reflexivity|cbn; intuition discriminate]]]|].
    destruct (ref_eq s who (RObj (self_of t))); cbn [fst snd]; [split; [apply Hsame; reflexivity|split; [repeat constructor|split; [intros; reflexivity|cbn; intuition discriminate]]]|].
    split; [|split; [repeat constructor|split; [intros; reflexivity|cbn; intuition discriminate]]].
    apply Hset; repeat match goal with |- context[match ?e with _ => _ end] => destruct e end; cbn; auto.
  - (* ICheckMark *)
    destruct (a_children x); [|cbn [fst snd]; split; [apply Hsame; reflexivity|split; [constructor|split; [intros; reflexivity|intros []]]]].
    destruct (a_state x) eqn:Est; cbn [fst snd]; try solve [split; [apply Hsame; reflexivity|split; [constructor|split; [intros; reflexivity|intros []]]]].
    split; [apply Hset; [exact Hst|intros _ e0 H0; cbn in H0; inversion H0; subst; discriminate]|].
    split; [destruct (a_restarting x); repeat constructor|split; [intros; reflexivity|destruct (a_restarting x); cbn; intuition discriminate]].
  - (* ICleanup *)
    split; [apply Hsame; reflexivity|]. split; [|split].
    + destruct (a_watchers x), (a_parent x); repeat constructor; discriminate.
    + destruct (a_watchers x), (a_parent x); cbn; intros; discriminate.
    + destruct (a_watchers x), (a_parent x); cbn; intuition discriminate.
  - (* IRestartFinish *)
    destruct (a_hooks x) as [|[[h1 h2] h3] rest]; [|destruct (h2 && h3)]; cbn [fst snd].
    all: split; [apply Hset; [destruct (sp_provider (a_spec x)); exact Hst|
                             try (intros _ e0 H0; cbn in H0; inversion H0; subst; discriminate);
                             try (intros H e0 H0; apply H; destruct (sp_provider (a_spec x)); exact H0)]|
                 split; [repeat constructor|split; [intros; reflexivity|cbn; intuition discriminate]]].
  - (* IUnzombie *)
    split; [apply Hset; [exact Hst|intros H e0 H0; apply H; exact H0]|split; [constructor|split; [cbn; intros; discriminate|intros []]]].
  - (* ISupApply *)
    assert (Hnp : forall (f : rref -> list instr) l, (forall r, Forall np_instr (f r)) -> Forall np_instr (flat_map f l))
      by (intros f l H; apply np_flat_map; intros; apply H).
    destruct d; cbn [fst snd is_graceful negb].
    all: split; [apply Hsame; reflexivity|].
    all: try solve [split; [repeat constructor; discriminate|split; [cbn; intros; discriminate|intros _; right; eexists; eexists; eexists; split; [reflexivity|discriminate]]]].
    all: rewrite ?app_nil_r.
    all: split; [try apply Forall_app; try split; apply Hnp; intros; repeat constructor; discriminate|].
    all: split; [rewrite ?existsb_app, !ucode_flat_map by (intros; reflexivity); cbn; intros; discriminate|].
    all: intros Hin; exfalso; try (apply in_app_or in Hin; destruct Hin as [Hin|Hin]);
         revert Hin; apply pause_flat_map; intros r0; cbn; intuition discriminate.
  - (* IEndHandler *)
    split; [apply Hset; [exact Hst|intros H e0 H0; apply H; exact H0]|split; [constructor|split; [cbn; intros; discriminate|intros []]]].
Qed.


Lemma dispatch_hyg s a x e :
  get s a = Some x ->
  let r := dispatch s a x e in
  (forall y, get (fst r) a = Some y ->
     a_stash y = a_stash x /\ (np_env e -> cur_np x -> cur_np y) /\ (existsb ucode (snd r) = true -> cur_np y)) /\
  Forall np_instr (snd r) /\ (In IPauseSt (snd r) -> e_msg e = MCmdPause).
Proof.
  intros Hg. cbv zeta.
  assert (Hl : a < length (actors s)) by (eapply nth_error_lt; exact Hg).
  assert (Hget : forall y0 y, get (set_actor s a y0) a = Some y -> y = y0).
  { intros y0 y Hy. rewrite (get_set_same _ _ _ Hl) in Hy. congruence. }
  assert (Hget2 : forall o y0 y, get (add_ghost (set_actor s a y0) o) a = Some y -> y = y0).
  { intros o y0 y Hy. apply (Hget y0 y). exact Hy. }
  assert (Hget0 : forall y, get s a = Some y -> y = x) by (intros; congruence).
  assert (Hget1 : forall o y, get (add_ghost s o) a = Some y -> y = x) by (intros o y Hy; apply Hget0; exact Hy).
  unfold dispatch.
  destruct (_ && negb (a_zombie x)).
  - destruct (a_parent x); cbn [fst snd].
    + split; [intros y Hy; apply Hget0 in Hy; subst; split; [reflexivity|split; [auto|cbn; intros; discriminate]]|].
      split; [repeat constructor; unfold np_env; cbn; discriminate|cbn; intuition discriminate].
    + split; [intros y Hy; apply Hget1 in Hy; subst; split; [reflexivity|split; [auto|cbn; intros; discriminate]]|].
      split; [repeat constructor|cbn; intuition discriminate].
  - destruct (e_msg e) eqn:Em.
    all: repeat match goal with |- context[match ?c with _ => _ end] => destruct c eqn:? end.
    all: cbn [fst snd].
    all: (split; [intros y Hy; first [apply Hget in Hy|apply Hget2 in Hy]; subst y; cbn;
                  split; [reflexivity|split; [try (intros Hn _ e0 H0; inversion H0; subst; exact Hn);
                                              try (intros _ Hc e0 H0; apply Hc; exact H0);
                                              try (intros _ _ e0 H0; inversion H0; subst; unfold np_env; cbn; discriminate)
                                             |try (cbn; intros; discriminate);
                                              try (intros _ e0 H0; inversion H0; subst; unfold np_env; cbn; try rewrite Em; discriminate)]]|]).
    all: cbn [app]; (split; [repeat constructor; try discriminate|cbn; try (intuition discriminate)]).
    all: try (intros _; reflexivity).
Qed.

(** * the invariant *)
Definition uq_ok (e : envelope) : Prop := e_sys e = false /\ np_env e.
Definition pend_okx (a : aid) (x : actor) (l : list instr) : Prop :=
  Forall np_instr l /\ (existsb ucode l = true -> cur_np x) /\ (a = 0 -> ~ In IPauseSt l).
Definition root_okx (x : actor) : Prop :=
  Forall np_env (held x) /\ Forall np_env (a_sq x) /\ cur_np x /\ a_paused x = false.
Definition mh_rec (a : aid) (x : actor) : Prop :=
  Forall uq_ok (a_uq x) /\ Forall np_env (a_stash x) /\ pend_okx a x (a_pend x) /\ (a = 0 -> root_okx x).
Definition MH (s : state) : Prop :=
  (forall a x, get s a = Some x -> mh_rec a x) /\
  (forall j ex, nth_error (exts s) j = Some ex -> Forall np_instr (x_pend ex)).

Lemma MH_same s s' : actors s' = actors s -> exts s' = exts s -> MH s -> MH s'.
Proof. intros Ha He [H1 H2]. split; [intros a x Hg; apply H1; unfold get in *; rewrite <- Ha; exact Hg|intros j ex Hn; apply (H2 j); rewrite <- He; exact Hn]. Qed.

Lemma MH_set_actor s a y : MH s -> mh_rec a y -> MH (set_actor s a y).
Proof.
  intros [H1 H2] Hy. split; [|exact H2]. intros b x Hg.
  destruct (Nat.eq_dec a b) as [<-|Hne].
  - destruct (Nat.lt_ge_cases a (length (actors s))) as [Hl|Hl].
    + rewrite get_set_same in Hg by exact Hl. inversion Hg; subst. exact Hy.
    + unfold get in Hg. cbn [set_actor actors] in Hg. assert (E : nth_error (upd (actors s) a y) a = None) by (apply nth_error_None; rewrite upd_length; exact Hl). congruence.
  - rewrite get_set_other in Hg by exact Hne. apply H1. exact Hg.
Qed.

Lemma MH_push_mb s b e : MH s -> (e_sys e = false -> np_env e) -> (e_sys e = true -> b = 0 -> np_env e) -> MH (push_mb s b e).
Proof.
  intros H Hu Hs. destruct (get s b) as [x|] eqn:Hg.
  - rewrite (push_mb_get _ _ _ _ Hg). apply MH_set_actor; [exact H|].
    destruct (proj1 H _ _ Hg) as (A & B & (C1 & C2 & C3) & D).
    unfold mh_rec, pend_okx, root_okx, cur_np, held. cbn [set_mb a_uq a_stash a_pend a_cur a_sq a_cons a_paused].
    destruct (e_sys e) eqn:Es.
    + split; [exact A|split; [exact B|split; [split; [exact C1|split; [exact C2|exact C3]]|]]].
      intros Hb. destruct (D Hb) as (D1 & D2 & D3 & D4). split; [exact D1|split; [|split; [exact D3|exact D4]]].
      apply Forall_app. split; [exact D2|constructor; [apply Hs; [reflexivity|exact Hb]|constructor]].
    + split; [apply Forall_app; split; [exact A|constructor; [split; [exact Es|apply Hu; reflexivity]|constructor]]|].
      split; [exact B|split; [split; [exact C1|split; [exact C2|exact C3]]|exact D]].
  - rewrite (push_mb_none _ _ _ Hg). apply (MH_same s); auto.
Qed.

Lemma mh_rec_cache a x c : mh_rec a x -> mh_rec a (set_cache x c).
Proof. intros H. exact H. Qed.

Lemma MH_resolve s r : MH s -> MH (snd (resolve s r)).
Proof.
  intros H. destruct (resolve_shape s r) as [E|[E|(a & x & y & _ & Hg & _ & _ & E & _)]]; rewrite E; [exact H|apply (MH_same s); auto|].
  apply MH_set_actor; [exact H|]. apply mh_rec_cache. apply (proj1 H _ _ Hg).
Qed.

Definition pend_ok (s : state) (t : tid) (l : list instr) : Prop :=
  match t with
  | TA a => forall x, get s a = Some x -> pend_okx a x l
  | TX _ => Forall np_instr l
  end.

Lemma MH_set_pend s t l : MH s -> pend_ok s t l -> MH (set_pend s t l).
Proof.
  intros [H1 H2] Hl. destruct t as [a|j]; cbn [set_pend pend_ok] in *.
  - unfold with_actor. destruct (get s a) as [x|] eqn:Hg; [|apply (MH_same s); auto; split; assumption].
    apply MH_set_actor; [split; assumption|]. destruct (H1 _ _ Hg) as (A & B & _ & D).
    split; [exact A|split; [exact B|split; [exact (Hl x eq_refl)|exact D]]].
  - destruct (nth_error (exts s) j) as [ex|] eqn:Hn; [|apply (MH_same s); auto; split; assumption].
    split; [exact H1|]. intros k exk Hk. cbn [set_ext exts] in Hk. destruct (Nat.eq_dec j k) as [<-|Hne].
    + rewrite nth_upd_eq in Hk by (eapply nth_error_lt; exact Hn). inversion Hk; subst. exact Hl.
    + rewrite nth_upd_neq in Hk by exact Hne. apply (H2 k). exact Hk.
Qed.

(** the rest of a thread's pending list stays acceptable for any record with the same current envelope *)
Lemma pend_ok_tail s t i rest pre :
  MH s -> pend_of s t = i :: rest -> Forall np_instr pre -> existsb ucode pre = false -> ~ In IPauseSt pre ->
  forall s1, (forall x1, get s1 (self_of t) = Some x1 -> exists x, get s (self_of t) = Some x /\ a_cur x1 = a_cur x) ->
  pend_ok s1 t (pre ++ rest).
Proof.
  intros [H1 H2] Hp Hnp Hu Hps s1 Hs1. destruct t as [a|j]; cbn [pend_ok self_of] in *.
  - destruct (pend_of_TA_cons _ _ _ _ Hp) as (x & Hg & Hpx). intros x1 Hg1. destruct (Hs1 x1 Hg1) as (x' & Hx' & Ec).
    assert (x' = x) by congruence; subst x'. destruct (H1 _ _ Hg) as (_ & _ & (C1 & C2 & C3) & _). rewrite Hpx in *.
    inversion C1 as [|? ? Ci Cr]; subst. split; [apply Forall_app; split; assumption|]. split.
    + rewrite existsb_app, Hu. cbn [orb]. intros Hr. unfold cur_np. rewrite Ec. apply C2. cbn [existsb]. rewrite Hr. apply orb_true_r.
    + intros Ha Hin. apply in_app_or in Hin. destruct Hin as [Hin|Hin]; [exact (Hps Hin)|]. apply (C3 Ha). right. exact Hin.
  - destruct (pend_of_TX_cons _ _ _ _ Hp) as (ex & Hn & Hpx). pose proof (H2 _ _ Hn) as C1. rewrite Hpx in C1.
    inversion C1; subst. apply Forall_app. split; assumption.
Qed.

Definition curT (s s1 : state) : Prop := forall c x1, get s1 c = Some x1 -> exists x, get s c = Some x /\ a_cur x1 = a_cur x.
Lemma curT_refl s : curT s s. Proof. intros c x1 H. eauto. Qed.
Lemma curT_trans a b c : curT a b -> curT b c -> curT a c.
Proof. intros H1 H2 k x2 Hk. destruct (H2 k x2 Hk) as (x1 & Hx1 & E1). destruct (H1 k x1 Hx1) as (x & Hx & E). exists x. split; [exact Hx|congruence]. Qed.
Lemma curT_same s s1 : actors s1 = actors s -> curT s s1.
Proof. intros Ha c x1 H. exists x1. unfold get in *. rewrite <- Ha. auto. Qed.
Lemma curT_set_actor s a x y : get s a = Some x -> a_cur y = a_cur x -> curT s (set_actor s a y).
Proof.
  intros Hg Hc c x1 H. destruct (Nat.eq_dec a c) as [<-|Hne].
  - rewrite (get_set_same' _ _ _ _ Hg) in H. inversion H; subst. eauto.
  - rewrite get_set_other in H by exact Hne. eauto.
Qed.
Lemma curT_with_actor s a f : (forall x, a_cur (f x) = a_cur x) -> curT s (with_actor s a f).
Proof.
  intros Hf. destruct (get s a) as [x|] eqn:Hg.
  - rewrite (with_actor_some _ _ _ _ Hg). eapply curT_set_actor; [exact Hg|apply Hf].
  - rewrite (with_actor_none _ _ _ Hg). apply curT_same. reflexivity.
Qed.
Lemma curT_push_mb s b e : curT s (push_mb s b e).
Proof. unfold push_mb. apply curT_with_actor. reflexivity. Qed.
Lemma curT_resolve s r : curT s (snd (resolve s r)).
Proof.
  destruct (resolve_shape s r) as [E|[E|(a & x & y & _ & Hg & _ & _ & E & _)]]; rewrite E; [apply curT_refl|apply curT_same; reflexivity|].
  eapply curT_set_actor; [exact Hg|reflexivity].
Qed.

Lemma mh_rec_set_mb a x sq uq pa co :
  mh_rec a x -> Forall uq_ok uq ->
  (a = 0 -> Forall np_env (match co with CH e => [e] | _ => [] end) /\ Forall np_env sq /\ pa = false) ->
  mh_rec a (set_mb x sq uq pa co (a_cur x)).
Proof.
  intros (A & B & C & D) Hu Hr. split; [exact Hu|split; [exact B|split; [exact C|]]].
  intros Ha. destruct (Hr Ha) as (R1 & R2 & R3). destruct (D Ha) as (_ & _ & D3 & _).
  split; [exact R1|split; [exact R2|split; [exact D3|exact R3]]].
Qed.

Lemma mh_rec_new a p g par sp : mh_rec a (new_actor p g par sp).
Proof.
  split; [constructor|split; [constructor|split; [split; [constructor|split; [cbn; intros; discriminate|intros _ []]]|]]].
  intros _. split; [constructor|split; [constructor|split; [intros e H; discriminate H|reflexivity]]].
Qed.

Lemma xi_pend s t i rest : XI s -> pend_of s t = i :: rest -> xi_ok s (self_of t) i.
Proof.
  intros [X1 X2] Hp. destruct t as [a|j]; cbn [self_of].
  - destruct (pend_of_TA_cons _ _ _ _ Hp) as (x & Hg & Hpx). destruct (X1 _ _ Hg) as [_ E]. rewrite Hpx in E. inversion E; assumption.
  - destruct (pend_of_TX_cons _ _ _ _ Hp) as (ex & Hn & Hpx). pose proof (X2 _ _ Hn) as E. rewrite Hpx in E. inversion E; assumption.
Qed.

Theorem MH_mstep s m : wf s -> RInv s -> XI s -> CacheW s -> MH s -> MH (mstep s m).
Proof.
  intros W HR HX HW HM. pose proof HM as [M1 M2].
  assert (Hhead : forall t i rest, pend_of s t = i :: rest -> np_instr i /\ Forall np_instr rest).
  { intros t i rest Hp. destruct t as [a|j].
    - destruct (pend_of_TA_cons _ _ _ _ Hp) as (x & Hg & Hpx). destruct (M1 _ _ Hg) as (_ & _ & (C1 & _) & _). rewrite Hpx in C1. inversion C1; auto.
    - destruct (pend_of_TX_cons _ _ _ _ Hp) as (ex & Hn & Hpx). pose proof (M2 _ _ Hn) as C1. rewrite Hpx in C1. inversion C1; auto. }
  assert (Hcur_same : forall s1 t, (forall b, get s1 b = get s b) -> forall x1, get s1 (self_of t) = Some x1 -> exists x, get s (self_of t) = Some x /\ a_cur x1 = a_cur x).
  { intros s1 t H x1 H1. rewrite H in H1. eauto. }
  destruct m.
  - (* MSysPop *)
    cbn [mstep step]. destruct (get s a) as [x|] eqn:Hg; [|apply (MH_same s); auto].
    pose proof (M1 _ _ Hg) as Hx. pose proof Hx as (A & B & C & D).
    destruct (a_cons x), (a_sq x) eqn:Hs; try (apply (MH_same s); auto; fail);
      (apply MH_set_actor; [exact HM|]; apply mh_rec_set_mb; [exact Hx|exact A|]; intros Ha; destruct (D Ha) as (D1 & D2 & D3 & D4);
       rewrite Hs in D2; split; [try constructor; try (inversion D2; assumption); try constructor|split; [try constructor; try (inversion D2; assumption)|exact D4]]).
  - (* MLoadPaused *)
    cbn [mstep step]. destruct (get s a) as [x|] eqn:Hg; [|apply (MH_same s); auto].
    pose proof (M1 _ _ Hg) as Hx. pose proof Hx as (A & B & C & D).
    destruct (a_cons x); try (apply (MH_same s); auto; fail).
    apply MH_set_actor; [exact HM|]. apply mh_rec_set_mb; [exact Hx|exact A|]. intros Ha. destruct (D Ha) as (D1 & D2 & D3 & D4).
    split; [destruct (a_paused x); constructor|split; [exact D2|exact D4]].
  - (* MUserPop *)
    cbn [mstep step]. destruct (get s a) as [x|] eqn:Hg; [|apply (MH_same s); auto].
    pose proof (M1 _ _ Hg) as Hx. pose proof Hx as (A & B & C & D).
    destruct (a_cons x), (a_uq x) eqn:Hs; try (apply (MH_same s); auto; fail);
      (apply MH_set_actor; [exact HM|]; apply mh_rec_set_mb; [exact Hx|try constructor; try (inversion A; assumption)|]; intros Ha; destruct (D Ha) as (D1 & D2 & D3 & D4);
       split; [try constructor; try (inversion A as [|? ? [_ Hn] ?]; exact Hn); try constructor|split; [exact D2|exact D4]]).
  - (* MHandle *)
    cbn [mstep]. destruct (get s a) as [x|] eqn:Hg; [|apply (MH_same s); auto].
    destruct (a_cons x) eqn:Hc; try (apply (MH_same s); auto; fail).
    assert (Hl : a < length (actors s)) by (eapply nth_error_lt; exact Hg).
    pose proof (M1 _ _ Hg) as (A & B & C & D).
    set (s0 := set_actor s a (busy x)).
    assert (Hg0 : get s0 a = Some (busy x)) by (apply get_set_same; exact Hl).
    destruct (dispatch_hyg s0 a (busy x) e Hg0) as (Hd1 & Hd2 & Hd3). cbv zeta in *.
    destruct (dispatch_effect s0 a (busy x) e Hg0) as (y & Hdf & Ha & _ & _ & Hex & _).
    destruct (dispatch s0 a (busy x) e) as [s1 ins]. cbn [fst snd] in *.
    assert (Hy : get s1 a = Some y).
    { unfold get. rewrite Ha. apply nth_upd_eq. unfold s0. cbn [set_actor actors]. rewrite upd_length. exact Hl. }
    destruct (Hd1 y Hy) as (E1 & E2 & E3).
    rewrite (set_pend_TA _ _ _ _ Hy). split.
    + intros b xb Hgb. destruct (Nat.eq_dec a b) as [<-|Hne].
      * rewrite (get_set_same' _ _ _ _ Hy) in Hgb. inversion Hgb; subst xb.
        assert (Hhe : a = 0 -> np_env e).
        { intros Ha0. destruct (D Ha0) as (D1 & _). unfold held in D1. rewrite Hc in D1. inversion D1; assumption. }
        split; [cbn [upd_pend a_uq]; rewrite (df_uq _ _ Hdf); exact A|].
        split; [cbn [upd_pend a_stash]; rewrite E1; exact B|]. split.
        -- split; [exact Hd2|split; [intros Hu e0 He0; apply (E3 Hu e0); exact He0|]].
           intros Ha0 Hin. apply (Hhe Ha0). apply Hd3. exact Hin.
        -- intros Ha0. destruct (D Ha0) as (D1 & D2 & D3 & D4).
           unfold root_okx, held, cur_np. cbn [upd_pend a_cons a_sq a_cur a_paused].
           rewrite (df_cons _ _ Hdf), (df_sq _ _ Hdf), (df_paused _ _ Hdf). cbn [busy set_mb a_cons a_sq a_paused].
           split; [constructor|split; [exact D2|split; [|exact D4]]].
           apply E2; [apply Hhe; exact Ha0|exact D3].
      * rewrite get_set_other in Hgb by exact Hne. apply M1. unfold get in *. rewrite Ha in Hgb. unfold s0 in Hgb. cbn [set_actor actors] in Hgb.
        rewrite upd_upd, nth_upd_neq in Hgb by exact Hne. exact Hgb.
    + intros j ex Hn. cbn [set_actor exts] in Hn. rewrite Hex in Hn. apply (M2 j). exact Hn.
  - (* MPush *)
    cbn [mstep step]. destruct (pend_of s t) as [|i rest] eqn:Hp; [apply (MH_same s); auto|].
    destruct (Hhead t i rest Hp) as [Hi Hrest].
    destruct i; try (apply (MH_same s); auto; fail).
    + rewrite deliver_eq. apply MH_set_pend.
      * apply MH_push_mb; [exact HM| |]; intros; destruct to; cbn; try exact Hi; discriminate.
      * apply (pend_ok_tail s t _ rest [] HM Hp); [constructor|reflexivity|intros []|].
        intros x1 H1. apply (curT_push_mb s _ _ _ x1 H1).
    + apply MH_set_pend.
      * apply MH_push_mb; [exact HM|intros _; exact Hi|intros _ _; exact Hi].
      * apply (pend_ok_tail s t _ rest [] HM Hp); [constructor|reflexivity|intros []|].
        intros x1 H1. apply (curT_push_mb s _ _ _ x1 H1).
    + destruct (nth_error tos c) as [r|]; [|apply (MH_same s); auto].
      pose proof (MH_resolve s r HM) as Hr. pose proof (curT_resolve s r) as Hc. destruct (resolve s r) as [mb s1]. cbn [snd] in Hr, Hc.
      rewrite deliver_eq. apply MH_set_pend.
      * apply MH_push_mb; [exact Hr| |]; intros; destruct mb; cbn; try exact Hi; discriminate.
      * assert (HcT : forall x1, get (push_mb s1 (fst (landing mb {| e_sys := sys; e_sender := sender; e_msg := m |}))
                                         (snd (landing mb {| e_sys := sys; e_sender := sender; e_msg := m |}))) (self_of t) = Some x1 ->
                                 exists x, get s (self_of t) = Some x /\ a_cur x1 = a_cur x).
        { intros x1 H1. apply (curT_trans s s1 _ Hc (curT_push_mb s1 _ _) _ x1 H1). }
        destruct (firstn c tos ++ skipn (S c) tos) as [|r0 tl0].
        -- apply (pend_ok_tail s t _ rest [IEnqDone] HM Hp); [repeat constructor|reflexivity|cbn; intuition discriminate|exact HcT].
        -- apply (pend_ok_tail s t _ rest [IEnqDone; IEnqAny sys (r0 :: tl0) sender m] HM Hp);
             [repeat constructor; exact Hi|reflexivity|cbn; intuition discriminate|exact HcT].
    + destruct (nth_error remaining c) as [r|] eqn:Hnth; [|apply (MH_same s); auto].
      pose proof (xi_pend s t _ rest HX Hp) as Hxi. cbn [xi_ok] in Hxi. destruct Hxi as [Hsup _].
      assert (Hcr : is_child_ref s (self_of t) r).
      { unfold sup_ok in Hsup. destruct c0 as [ch ts sub]. destruct Hsup as [(_ & Hts & _) _]. apply Hts. apply in_or_app. left. eapply nth_error_In; exact Hnth. }
      destruct Hcr as (d0 & xd & -> & Hd0 & Hgd & _).
      pose proof (resolve_obj s d0 xd HW Hgd Hd0) as Hmb.
      pose proof (MH_resolve s (RObj d0) HM) as Hr. pose proof (curT_resolve s (RObj d0)) as Hc.
      destruct (resolve s (RObj d0)) as [mb s1]. cbn [fst snd] in Hr, Hc, Hmb. subst mb.
      rewrite deliver_eq. cbn [landing fst snd]. apply MH_set_pend.
      * apply MH_push_mb; [exact Hr|intros H; discriminate H|intros _ H; contradiction].
      * match goal with |- pend_ok ?s2 t (IEnqDone :: ?i2 :: rest) =>
          apply (pend_ok_tail s t _ rest [IEnqDone; i2] HM Hp); [repeat constructor|reflexivity|cbn; intuition discriminate|] end.
        intros x1 H1. apply (curT_trans s s1 _ Hc (curT_push_mb s1 _ _) _ x1 H1).
  - (* MEnqDone *)
    cbn [mstep]. destruct (pend_of s t) as [|i rest] eqn:Hp; [apply (MH_same s); auto|].
    destruct i; try (apply (MH_same s); auto; fail). apply MH_set_pend; [exact HM|].
    apply (pend_ok_tail s t _ rest [] HM Hp); [constructor|reflexivity|intros []|]. intros x1 H1. eauto.
  - (* MPauseSt *)
    cbn [mstep]. destruct (pend_of s t) as [|i rest] eqn:Hp; [apply (MH_same s); auto|].
    destruct i; try (apply (MH_same s); auto; fail).
    assert (Hself : self_of t <> 0).
    { destruct t as [a|j]; cbn [self_of].
      - intros ->. destruct (pend_of_TA_cons _ _ _ _ Hp) as (x & Hg & Hpx). destruct (M1 _ _ Hg) as (_ & _ & (_ & _ & C3) & _).
        apply (C3 eq_refl). rewrite Hpx. left. reflexivity.
      - exfalso. destruct (pend_of_TX_cons _ _ _ _ Hp) as (ex & Hn & Hpx). destruct W as [_ HXw].
        pose proof (Forall_nth _ _ _ _ HXw Hn) as Hok. cbv beta in Hok. rewrite Hpx in Hok. discriminate Hok. }
    apply MH_set_pend.
    + unfold with_actor. destruct (get s (self_of t)) as [x|] eqn:Hg; [|apply (MH_same s); auto].
      apply MH_set_actor; [exact HM|]. pose proof (M1 _ _ Hg) as Hx. apply mh_rec_set_mb; [exact Hx|apply Hx|]. intros H0. contradiction.
    + apply (pend_ok_tail s t _ rest [] HM Hp); [constructor|reflexivity|intros []|].
      intros x1 H1. refine (curT_with_actor s (self_of t) (fun x => set_mb x (a_sq x) (a_uq x) true (a_cons x) (a_cur x)) _ _ x1 H1). reflexivity.
  - (* MResume1 *)
    cbn [mstep]. destruct (pend_of s t) as [|i rest] eqn:Hp; [apply (MH_same s); auto|].
    destruct i; try (apply (MH_same s); auto; fail).
    destruct (get s (self_of t)) as [x|] eqn:Hg; [|apply (MH_same s); auto]. destruct (a_paused x).
    + apply MH_set_pend.
      * apply MH_set_actor; [exact HM|]. pose proof (M1 _ _ Hg) as Hx. apply mh_rec_set_mb; [exact Hx|apply Hx|].
        intros H0. destruct Hx as (_ & _ & _ & D). destruct (D H0) as (D1 & D2 & _). split; [exact D1|split; [exact D2|reflexivity]].
      * apply (pend_ok_tail s t _ rest [IResume2] HM Hp); [repeat constructor|reflexivity|cbn; intuition discriminate|].
        intros x1 H1. refine (curT_set_actor s (self_of t) x (set_mb x (a_sq x) (a_uq x) false (a_cons x) (a_cur x)) Hg _ _ x1 H1). reflexivity.
    + apply MH_set_pend; [exact HM|].
      apply (pend_ok_tail s t _ rest [] HM Hp); [constructor|reflexivity|intros []|]. intros x1 H1. eauto.
  - (* MResume2 *)
    cbn [mstep]. destruct (pend_of s t) as [|i rest] eqn:Hp; [apply (MH_same s); auto|].
    destruct i; try (apply (MH_same s); auto; fail). apply MH_set_pend; [exact HM|].
    apply (pend_ok_tail s t _ rest [] HM Hp); [constructor|reflexivity|intros []|]. intros x1 H1. eauto.
  - (* MAtomic *)
    destruct (pend_of s t) as [|i rest] eqn:Hp; [cbn [mstep]; rewrite Hp; exact HM|].
    destruct (Hhead t i rest Hp) as [Hi Hrest].
    destruct (is_enq i) eqn:Hq.
    + destruct i; try discriminate Hq. cbn [mstep]. rewrite Hp.
      apply MH_set_pend; [apply MH_resolve; exact HM|].
      apply (pend_ok_tail s t _ rest [IEnqR sys (fst (resolve s to)) sender m] HM Hp); [repeat constructor; exact Hi|reflexivity|cbn; intuition discriminate|].
      intros x1 H1. apply (curT_resolve s to _ x1 H1).
    + destruct (yielding i) eqn:Hy.
      * assert (E : mstep s (MAtomic t) = s).
        { cbn [mstep]. rewrite Hp. destruct i; try discriminate Hy; try reflexivity; try discriminate Hq.
          destruct remaining; [discriminate Hy|reflexivity]. }
        rewrite E. exact HM.
      * rewrite (mstep_atomic_exec s t i rest Hp Hy Hq).
        destruct (RInv_self s t HR i rest Hp) as (x & Hg).
        assert (Hl : self_of t < length (actors s)) by (eapply nth_error_lt; exact Hg).
        destruct (astep_table s t i rest x Hg Hp) as (Hg0 & y & news & Hy0 & Hnews & Ha1 & Ha & _ & Hl0 & _). cbv zeta in *.
        set (s0 := set_pend s t rest) in *.
        pose proof (M1 _ _ Hg) as (A & B & (C1 & C2 & C3) & D).
        pose proof (xi_pend s t i rest HX Hp) as Hxi.
        assert (Hst0 : Forall np_env (a_stash (popped t x rest))) by (destruct t; exact B).
        assert (Hcurx : ucode i = true -> cur_np x).
        { intros Hu. destruct t as [a|j]; cbn [self_of] in *.
          - destruct (pend_of_TA_cons _ _ _ _ Hp) as (x1 & Hg1 & Hpx). assert (x1 = x) by congruence; subst x1.
            apply C2. rewrite Hpx. cbn [existsb]. rewrite Hu. reflexivity.
          - apply (D eq_refl). }
        assert (Hcur0 : ucode i = true -> cur_np (popped t x rest)) by (intros Hu; destruct t; apply Hcurx; exact Hu).
        destruct (exec1_hyg s0 t (held_of s0 t) i _ Hg0 Hst0 Hcur0) as (Hrec & Hfnp & Hfuc & Hfps). cbv zeta in *.
        assert (Hy' : get (fst (exec1 s0 t (held_of s0 t) i)) (self_of t) = Some y).
        { unfold get. rewrite Ha1. rewrite nth_error_app1 by (rewrite upd_length, Hl0; exact Hl). apply nth_upd_eq. rewrite Hl0. exact Hl. }
        destruct (Hrec y Hy') as [Hsty Hcury].
        set (front := snd (exec1 s0 t (held_of s0 t) i)) in *.
        assert (Hcxy : cur_np x -> cur_np y) by (intros H; apply Hcury; destruct t; exact H).
        assert (Hnops : self_of t = 0 -> ~ In IPauseSt front).
        { intros H0 Hin. destruct (Hfps Hin) as [->|(c0 & d0 & tg & -> & Hd)].
          - cbn [xi_ok] in Hxi. contradiction.
          - cbn [xi_ok] in Hxi. destruct Hxi as [_ Hroot]. apply Hd. apply Hroot. exact H0. }
        assert (Hrooty : self_of t = 0 -> root_okx y).
        { intros H0. destruct (D H0) as (D1 & D2 & D3 & D4). unfold root_okx.
          rewrite (lu_sq _ _ _ Hy0), (lu_paused _ _ _ Hy0).
          split; [|split; [destruct t; exact D2|split; [apply Hcxy; exact D3|destruct t; exact D4]]].
          unfold held in *. destruct (lu_cons _ _ _ Hy0) as [E|[[_ E]|[_ E]]]; rewrite E; try constructor.
          destruct t; exact D1. }
        split.
        -- intros b xb Hgb. unfold get in Hgb. rewrite Ha in Hgb.
           destruct (Nat.lt_ge_cases b (length (actors s))) as [Hlt|Hge].
           ++ rewrite nth_error_app1 in Hgb by (rewrite upd_length; exact Hlt).
              destruct (Nat.eq_dec (self_of t) b) as [<-|Hne].
              ** rewrite nth_upd_eq in Hgb by exact Hl. inversion Hgb; subst xb.
                 destruct t as [a|j]; cbn [pushed self_of popped] in *.
                 --- destruct (pend_of_TA_cons _ _ _ _ Hp) as (x1 & Hg1 & Hpx). assert (x1 = x) by congruence; subst x1. rewrite Hpx in *.
                     inversion C1 as [|? ? Ci Cr]; subst.
                     split; [cbn [upd_pend a_uq]; rewrite (lu_uq _ _ _ Hy0); exact A|]. split; [exact Hsty|]. split.
                     +++ unfold pend_okx. cbn [upd_pend a_pend]. split; [apply Forall_app; split; assumption|]. split.
                         *** rewrite existsb_app. intros Hu. change (cur_np y). apply Hcxy. apply C2. cbn [existsb].
                             apply orb_true_iff in Hu. destruct Hu as [Hu|Hu]; [rewrite (Hfuc Hu); reflexivity|rewrite Hu; apply orb_true_r].
                         *** intros Ha0 Hin. apply in_app_or in Hin. destruct Hin as [Hin|Hin]; [exact (Hnops Ha0 Hin)|]. apply (C3 Ha0). right. exact Hin.
                     +++ exact Hrooty.
                 --- split; [rewrite (lu_uq _ _ _ Hy0); exact A|]. split; [exact Hsty|]. split.
                     +++ rewrite (lu_pend _ _ _ Hy0). split; [exact C1|split; [intros _; apply Hcxy; apply (D eq_refl)|exact C3]].
                     +++ intros _. apply Hrooty. reflexivity.
              ** rewrite nth_upd_neq in Hgb by exact Hne. apply M1. exact Hgb.
           ++ rewrite nth_error_app2 in Hgb by (rewrite upd_length; exact Hge). apply nth_error_In in Hgb.
              rewrite Forall_forall in Hnews. destruct (Hnews _ Hgb) as (p & g & par & sp & ->). apply mh_rec_new.
        -- intros k exk Hk. destruct (astep_exts s t i rest k exk Hk) as [[-> E]|(exo & Ho & E)].
           ++ rewrite E. fold s0. fold front. apply Forall_app. split; [exact Hfnp|].
              unfold s0. cbn [set_pend]. destruct (pend_of_TX_cons _ _ _ _ Hp) as (ex & Hn & Hpx). rewrite Hn. cbn [set_ext exts].
              rewrite nth_upd_eq by (eapply nth_error_lt; exact Hn). cbn [x_pend]. exact Hrest.
           ++ rewrite E. apply (M2 k). exact Ho.
Qed.

Lemma MH_init scs : MH (init_with scs).
Proof.
  unfold init_with.
  assert (Ha : forall scs s i, actors (set_exts s i scs) = actors s).
  { clear. induction scs as [|sc r IH]; intros s i; cbn [set_exts]; [reflexivity|]. rewrite IH. apply set_pend_TX_actors. }
  split.
  - intros a x Hg. unfold get in Hg. rewrite Ha in Hg. destruct a as [|[|a]]; cbn in Hg; try discriminate. inversion Hg; subst. apply mh_rec_new.
  - assert (Hgen : forall scs s i, (forall j ex, nth_error (exts s) j = Some ex -> Forall np_instr (x_pend ex)) ->
                     forall j ex, nth_error (exts (set_exts s i scs)) j = Some ex -> Forall np_instr (x_pend ex)).
    { clear. induction scs as [|sc r IH]; intros s i H; cbn [set_exts]; [exact H|]. apply IH.
      intros j ex Hn. cbn [set_pend] in Hn. destruct (nth_error (exts s) i) as [exi|] eqn:Ei; [|apply (H j); exact Hn].
      cbn [set_ext exts] in Hn. destruct (Nat.eq_dec i j) as [<-|Hne].
      - rewrite nth_upd_eq in Hn by (eapply nth_error_lt; exact Ei). inversion Hn; subst. cbn [x_pend].
        apply Forall_forall. intros i0 Hi0. apply in_map_iff in Hi0. destruct Hi0 as (a0 & <- & _). exact I.
      - rewrite nth_upd_neq in Hn by exact Hne. apply (H j). exact Hn. }
    apply Hgen. intros j ex Hn. cbn [init_state exts] in Hn. apply nth_error_In in Hn. apply repeat_spec in Hn. subst. constructor.
Qed.

