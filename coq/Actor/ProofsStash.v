(** Proofs for the stash clauses over whole histories (statements: Properties/C03_stash.v; notions: Actor/SpecStash.v).

    Main result [run_balance]: along ANY event list from ANY state, for every actor [b],
        stash before ++ parked along the run  =  taken along the run ++ stash after
    i.e. the stash is a FIFO that only the owner's own Stash / Unstash calls ever touch: no restart, failed
    restart (zombie), stop, kill, supervision directive, Pause / Resume, queue operation or action of any other
    actor adds, removes, duplicates or reorders a parked envelope. *)
From Coq Require Import List NArith ZArith Bool Lia Arith.
From Vivid Require Import Actor.Core Actor.CoreRun Actor.SpecMail Actor.SpecStash
  Actor.ProofsMailBase Actor.ProofsMail Actor.ProofsMailInv Actor.ProofsMailGhost.
Import ListNotations.

(** * lists of operations *)
Lemma parked_app b l1 l2 : parked_of b (l1 ++ l2) = parked_of b l1 ++ parked_of b l2.
Proof. unfold parked_of. apply flat_map_app. Qed.
Lemma taken_app b l1 l2 : taken_of b (l1 ++ l2) = taken_of b l1 ++ taken_of b l2.
Proof. unfold taken_of. apply flat_map_app. Qed.

(** two balanced segments compose *)
Lemma balance_trans {A} (l0 l1 l2 a1 a2 d1 d2 : list A) :
  l0 ++ a1 = d1 ++ l1 -> l1 ++ a2 = d2 ++ l2 -> l0 ++ (a1 ++ a2) = (d1 ++ d2) ++ l2.
Proof. intros H1 H2. rewrite app_assoc, H1, <- app_assoc, H2, app_assoc. reflexivity. Qed.

Lemma stash_at_keeps s s' : keeps a_stash [] s s' -> forall b, stash_at s' b = stash_at s b.
Proof. intros K b. exact (K b). Qed.

Lemma balance_keeps s s' b : keeps a_stash [] s s' -> stash_at s b ++ parked_of b [] = taken_of b [] ++ stash_at s' b.
Proof. intros K. cbn. rewrite app_nil_r, (stash_at_keeps _ _ K). reflexivity. Qed.

Lemma unstash_k_count n len : unstash_k n len = unstash_count n len.
Proof. reflexivity. Qed.

(** * one instruction *)
Lemma instr_sops_other s t i :
  i <> IAct AStash -> (forall n, i <> IAct (AUnstash n)) -> instr_sops s t i = [].
Proof.
  intros H1 H2. unfold instr_sops. destruct (get s (self_of t)) as [x|]; [|reflexivity].
  destruct i; try reflexivity. destruct a; try reflexivity; [congruence|exfalso; exact (H2 n eq_refl)].
Qed.

Lemma keeps_stash_set_actor_other s a y b : b <> a -> stash_at (set_actor s a y) b = stash_at s b.
Proof. intros H. unfold stash_at. rewrite get_set_other by congruence. reflexivity. Qed.

Lemma instr_balance s t h i b :
  stash_at s b ++ parked_of b (instr_sops s t i) = taken_of b (instr_sops s t i) ++ stash_at (fst (exec1 s t h i)) b.
Proof.
  destruct (get s (self_of t)) as [x|] eqn:Hg.
  2:{ unfold instr_sops. rewrite Hg, (exec1_none _ _ _ _ Hg). cbn. rewrite app_nil_r. reflexivity. }
  assert (Hother : i <> IAct AStash -> (forall n, i <> IAct (AUnstash n)) ->
                   stash_at s b ++ parked_of b (instr_sops s t i) = taken_of b (instr_sops s t i) ++ stash_at (fst (exec1 s t h i)) b).
  { intros H1 H2. rewrite (instr_sops_other s t i H1 H2). apply balance_keeps. apply exec1_stash_frame; assumption. }
  destruct i; try (apply Hother; [discriminate|intros; discriminate]).
  destruct a; try (apply Hother; [discriminate|intros; discriminate]).
  - (* AStash *)
    unfold instr_sops. rewrite Hg. destruct (a_cur x) as [e|] eqn:Hc.
    + rewrite (exec1_stash s t h x e Hg Hc). cbn [fst parked_of taken_of flat_map app].
      destruct (Nat.eqb_spec (self_of t) b) as [<-|Hne].
      * unfold stash_at. rewrite (get_set_same' _ _ _ _ Hg), Hg. cbn [a_stash set_stash upd_local]. rewrite app_nil_r. reflexivity.
      * rewrite keeps_stash_set_actor_other by congruence. rewrite app_nil_r. reflexivity.
    + unfold exec1. rewrite Hg, Hc. cbn. rewrite app_nil_r. reflexivity.
  - (* AUnstash *)
    unfold instr_sops. rewrite Hg. destruct (a_stash x) as [|e0 r] eqn:Hs.
    + rewrite (exec1_unstash_empty s t h x n Hg Hs). cbn. rewrite app_nil_r. reflexivity.
    + assert (Hne : a_stash x <> []) by (rewrite Hs; discriminate).
      pose proof (exec1_unstash s t h x n Hg Hne) as E. cbv zeta in E. rewrite E. clear E.
      rewrite <- Hs. rewrite unstash_k_count. cbn [fst parked_of taken_of flat_map app]. rewrite !app_nil_r.
      destruct (Nat.eqb_spec (self_of t) b) as [<-|Hnb].
      * unfold stash_at. rewrite (get_set_same' _ _ _ _ Hg), Hg. cbn [a_stash set_stash upd_local].
        symmetry. apply firstn_skipn.
      * rewrite keeps_stash_set_actor_other by congruence. reflexivity.
Qed.

(** * one atomic phase *)
Lemma atomic_sops_S f s t :
  atomic_sops (S f) s t =
  match pend_of s t with
  | [] => []
  | IEnq _ _ _ _ :: _ => []
  | i :: rest =>
      if yielding i then []
      else let s0 := set_pend s t rest in
           let (s1, front) := exec1 s0 t (held_of s0 t) i in
           instr_sops s0 t i ++ atomic_sops f (set_pend s1 t (front ++ pend_of s1 t)) t
  end.
Proof. reflexivity. Qed.

Lemma keeps_stash_set_pend s t l : keeps a_stash [] s (set_pend s t l).
Proof. apply keeps_set_pend. reflexivity. Qed.

Lemma atomic_balance f : forall s t b,
  stash_at s b ++ parked_of b (atomic_sops f s t) = taken_of b (atomic_sops f s t) ++ stash_at (run_atomic f s t) b.
Proof.
  induction f as [|f IH]; intros s t b.
  - cbn [atomic_sops run_atomic]. apply balance_keeps. apply keeps_same_actors. reflexivity.
  - rewrite run_atomic_S, atomic_sops_S. destruct (pend_of s t) as [|i rest] eqn:Hp.
    + apply balance_keeps, keeps_refl.
    + assert (Hgen : stash_at s b ++ parked_of b (if yielding i then [] else
                 let s0 := set_pend s t rest in let (s1, front) := exec1 s0 t (held_of s0 t) i in
                 instr_sops s0 t i ++ atomic_sops f (set_pend s1 t (front ++ pend_of s1 t)) t)
               = taken_of b (if yielding i then [] else
                 let s0 := set_pend s t rest in let (s1, front) := exec1 s0 t (held_of s0 t) i in
                 instr_sops s0 t i ++ atomic_sops f (set_pend s1 t (front ++ pend_of s1 t)) t)
                 ++ stash_at (if yielding i then s else
                 let s0 := set_pend s t rest in let (s1, front) := exec1 s0 t (held_of s0 t) i in
                 run_atomic f (set_pend s1 t (front ++ pend_of s1 t)) t) b).
      { destruct (yielding i); [apply balance_keeps, keeps_refl|]. cbv zeta.
        pose proof (instr_balance (set_pend s t rest) t (held_of (set_pend s t rest) t) i b) as B1.
        destruct (exec1 (set_pend s t rest) t (held_of (set_pend s t rest) t) i) as [s1 front] eqn:E.
        cbn [fst] in B1.
        rewrite (stash_at_keeps _ _ (keeps_stash_set_pend s t rest)) in B1.
        pose proof (IH (set_pend s1 t (front ++ pend_of s1 t)) t b) as B2.
        rewrite (stash_at_keeps _ _ (keeps_stash_set_pend s1 t (front ++ pend_of s1 t))) in B2.
        rewrite parked_app, taken_app. exact (balance_trans _ _ _ _ _ _ _ B1 B2). }
      destruct i; try exact Hgen.
      (* IEnq: findMailbox, then the thread waits for its queue insertion *)
      destruct (resolve s to) as [mb s1] eqn:E. apply balance_keeps.
      eapply keeps_trans; [|apply keeps_stash_set_pend].
      replace s1 with (snd (resolve s to)) by (rewrite E; reflexivity). apply keeps_resolve. reflexivity.
Qed.

(** * one event *)
Lemma step_pre s ev :
  step s ev = match pre_atomic s ev with Some (s', t) => run_atomic FUEL s' t | None => step s ev end.
Proof.
  destruct ev; cbn [step pre_atomic]; try reflexivity.
  - destruct (get s a) as [x|]; [|reflexivity]. destruct (a_cons x); try reflexivity.
    destruct (dispatch _ a _ e). reflexivity.
  - destruct (pend_of s t) as [|i rest]; [reflexivity|]. destruct i; reflexivity.
  - destruct (pend_of s t) as [|i rest]; [reflexivity|]. destruct i; reflexivity.
  - destruct (pend_of s t) as [|i rest]; [reflexivity|]. destruct i; try reflexivity.
    destruct (get s (self_of t)) as [x|]; [|reflexivity]. destruct (a_paused x); reflexivity.
  - destruct (pend_of s t) as [|i rest]; [reflexivity|]. destruct i; reflexivity.
Qed.

Lemma keeps_stash_with_actor_mb s a f :
  (forall x, a_stash (f x) = a_stash x) -> keeps a_stash [] s (with_actor s a f).
Proof. apply keeps_with_actor. Qed.

Lemma keeps_stash_push_mb s a e : keeps a_stash [] s (push_mb s a e).
Proof. unfold push_mb. apply keeps_with_actor. reflexivity. Qed.

Lemma keeps_stash_deliver s mb e : keeps a_stash [] s (fst (deliver s mb e)).
Proof. rewrite deliver_eq. cbn [fst]. apply keeps_stash_push_mb. Qed.

Lemma keeps_stash_resolve s r : keeps a_stash [] s (snd (resolve s r)).
Proof. apply keeps_resolve. reflexivity. Qed.

(** the part of [step] before its atomic phase never touches a stash *)
Lemma pre_atomic_keeps s ev s' t : pre_atomic s ev = Some (s', t) -> keeps a_stash [] s s'.
Proof.
  destruct ev; cbn [pre_atomic]; try discriminate.
  - destruct (get s a) as [x|] eqn:Hg; [|discriminate]. destruct (a_cons x); try discriminate.
    match goal with |- context[dispatch ?s0 a ?x0 e] =>
      assert (K0 : keeps a_stash [] s s0) by (eapply keeps_set_actor; [exact Hg|reflexivity]);
      pose proof (dispatch_stash_frame s0 a x0 e (get_set_same' s a x0 x Hg)) as K1;
      destruct (dispatch s0 a x0 e) as [s1 ins] end.
    cbn [fst] in K1. intros H. injection H as <- <-.
    eapply keeps_trans; [exact K0|]. eapply keeps_trans; [exact K1|]. exact (keeps_stash_set_pend s1 (TA a) ins).
  - destruct (pend_of s t0) as [|i rest]; [discriminate|]. destruct i; try discriminate.
    intros H. injection H as <- <-. apply keeps_stash_set_pend.
  - destruct (pend_of s t0) as [|i rest]; [discriminate|]. destruct i; try discriminate.
    intros H. injection H as <- <-. eapply keeps_trans; [|apply keeps_stash_set_pend].
    apply keeps_with_actor. reflexivity.
  - destruct (pend_of s t0) as [|i rest]; [discriminate|]. destruct i; try discriminate.
    destruct (get s (self_of t0)) as [x|]; [|discriminate]. destruct (a_paused x); [discriminate|].
    intros H. injection H as <- <-. apply keeps_stash_set_pend.
  - destruct (pend_of s t0) as [|i rest]; [discriminate|]. destruct i; try discriminate.
    intros H. injection H as <- <-. apply keeps_stash_set_pend.
  - intros H. injection H as <- <-. apply keeps_refl.
Qed.

(** an event without an atomic phase never touches a stash *)
Lemma no_atomic_keeps s ev : pre_atomic s ev = None -> keeps a_stash [] s (step s ev).
Proof.
  destruct ev; cbn [pre_atomic step].
  - intros _. destruct (get s a) as [x|] eqn:Hg; [|apply keeps_same_actors; reflexivity].
    destruct (a_cons x), (a_sq x); try (apply keeps_same_actors; reflexivity);
      (eapply keeps_set_actor; [exact Hg|reflexivity]).
  - intros _. destruct (get s a) as [x|] eqn:Hg; [|apply keeps_same_actors; reflexivity].
    destruct (a_cons x); try (apply keeps_same_actors; reflexivity).
    eapply keeps_set_actor; [exact Hg|reflexivity].
  - intros _. destruct (get s a) as [x|] eqn:Hg; [|apply keeps_same_actors; reflexivity].
    destruct (a_cons x), (a_uq x); try (apply keeps_same_actors; reflexivity);
      (eapply keeps_set_actor; [exact Hg|reflexivity]).
  - destruct (get s a) as [x|] eqn:Hg; [|intros _; apply keeps_same_actors; reflexivity].
    destruct (a_cons x); try (intros _; apply keeps_same_actors; reflexivity).
    destruct (dispatch _ a _ e). discriminate.
  - intros _. destruct (pend_of s t) as [|i rest]; [apply keeps_same_actors; reflexivity|].
    destruct i; try (apply keeps_same_actors; reflexivity).
    + pose proof (keeps_stash_deliver s to {| e_sys := sys; e_sender := sender; e_msg := m |}) as K.
      destruct (deliver s to _) as [s2 a0]. cbn [fst] in K.
      eapply keeps_trans; [exact K|apply keeps_stash_set_pend].
    + eapply keeps_trans; [apply keeps_stash_push_mb|apply keeps_stash_set_pend].
    + destruct (nth_error tos choice) as [to|]; [|apply keeps_same_actors; reflexivity].
      pose proof (keeps_stash_resolve s to) as K1. destruct (resolve s to) as [mb s1]. cbn [snd] in K1.
      pose proof (keeps_stash_deliver s1 mb {| e_sys := sys; e_sender := sender; e_msg := m |}) as K2.
      destruct (deliver s1 mb _) as [s2 a0]. cbn [fst] in K2.
      eapply keeps_trans; [exact K1|]. eapply keeps_trans; [exact K2|apply keeps_stash_set_pend].
    + destruct (nth_error remaining choice) as [to|]; [|apply keeps_same_actors; reflexivity].
      pose proof (keeps_stash_resolve s to) as K1. destruct (resolve s to) as [mb s1]. cbn [snd] in K1.
      pose proof (keeps_stash_deliver s1 mb {| e_sys := true; e_sender := RObj (self_of t); e_msg := MCmdPause |}) as K2.
      destruct (deliver s1 mb _) as [s2 a0]. cbn [fst] in K2.
      eapply keeps_trans; [exact K1|]. eapply keeps_trans; [exact K2|apply keeps_stash_set_pend].
  - destruct (pend_of s t) as [|i rest]; [intros _; apply keeps_same_actors; reflexivity|].
    destruct i; try (intros _; apply keeps_same_actors; reflexivity). discriminate.
  - destruct (pend_of s t) as [|i rest]; [intros _; apply keeps_same_actors; reflexivity|].
    destruct i; try (intros _; apply keeps_same_actors; reflexivity). discriminate.
  - destruct (pend_of s t) as [|i rest]; [intros _; apply keeps_same_actors; reflexivity|].
    destruct i; try (intros _; apply keeps_same_actors; reflexivity).
    destruct (get s (self_of t)) as [x|] eqn:Hg; [|intros _; apply keeps_same_actors; reflexivity].
    destruct (a_paused x); [|discriminate]. intros _.
    eapply keeps_trans; [|apply keeps_stash_set_pend]. eapply keeps_set_actor; [exact Hg|reflexivity].
  - destruct (pend_of s t) as [|i rest]; [intros _; apply keeps_same_actors; reflexivity|].
    destruct i; try (intros _; apply keeps_same_actors; reflexivity). discriminate.
  - discriminate.
Qed.

Theorem step_balance s ev b :
  stash_at s b ++ parked_of b (step_sops s ev) = taken_of b (step_sops s ev) ++ stash_at (step s ev) b.
Proof.
  unfold step_sops. rewrite (step_pre s ev). destruct (pre_atomic s ev) as [[s' t]|] eqn:E.
  - rewrite <- (stash_at_keeps _ _ (pre_atomic_keeps _ _ _ _ E)). apply atomic_balance.
  - apply balance_keeps. apply no_atomic_keeps. exact E.
Qed.

(** * a run *)
Theorem run_balance evs : forall s b,
  stash_at s b ++ parked_of b (run_sops evs s) = taken_of b (run_sops evs s) ++ stash_at (run_events evs s) b.
Proof.
  induction evs as [|ev r IH]; intros s b.
  - cbn. rewrite app_nil_r. reflexivity.
  - change (run_events (ev :: r) s) with (run_events r (step s ev)). cbn [run_sops].
    rewrite parked_app, taken_app. exact (balance_trans _ _ _ _ _ _ _ (step_balance s ev b) (IH (step s ev) b)).
Qed.

Lemma stash_at_init scs b : stash_at (init_with scs) b = [].
Proof.
  unfold init_with.
  assert (H : forall scs s i, keeps a_stash [] s (set_exts s i scs)).
  { clear. induction scs as [|sc r IH]; intros s i; cbn [set_exts]; [apply keeps_refl|].
    eapply keeps_trans; [apply keeps_stash_set_pend|apply IH]. }
  rewrite (stash_at_keeps _ _ (H scs _ 0)). unfold stash_at, get, init_state. cbn [actors].
  destruct b as [|b]; [reflexivity|]. cbn [nth_error]. destruct b; reflexivity.
Qed.

(** every history: what was parked = what was taken out again, in the same order, followed by what is still parked *)
Theorem history_balance scs evs b :
  parked_of b (run_sops evs (init_with scs)) =
  taken_of b (run_sops evs (init_with scs)) ++ stash_at (run_events evs (init_with scs)) b.
Proof. pose proof (run_balance evs (init_with scs) b) as H. rewrite stash_at_init in H. exact H. Qed.

(** whatever happens in between: if the owner itself makes no Stash / Unstash call along a run, its stash at the
    end is its stash at the beginning *)
Theorem stash_frame_run evs s b :
  parked_of b (run_sops evs s) = [] -> taken_of b (run_sops evs s) = [] ->
  stash_at (run_events evs s) b = stash_at s b.
Proof. intros H1 H2. pose proof (run_balance evs s b) as H. rewrite H1, H2, app_nil_r in H. symmetry. exact H. Qed.

(** * who: the stash operations of an event are calls of the context whose thread takes the step *)
Lemma instr_sops_actor s t i : Forall (fun o => sop_actor o = self_of t) (instr_sops s t i).
Proof.
  unfold instr_sops. destruct (get s (self_of t)) as [x|]; [|constructor].
  destruct i; try constructor. destruct a; try constructor.
  - destruct (a_cur x); repeat constructor.
  - destruct (a_stash x); repeat constructor.
Qed.

Lemma atomic_sops_actor f : forall s t, Forall (fun o => sop_actor o = self_of t) (atomic_sops f s t).
Proof.
  induction f as [|f IH]; intros s t; [constructor|].
  rewrite atomic_sops_S. destruct (pend_of s t) as [|i rest]; [constructor|].
  assert (Hgen : Forall (fun o => sop_actor o = self_of t) (if yielding i then [] else
                 let s0 := set_pend s t rest in let (s1, front) := exec1 s0 t (held_of s0 t) i in
                 instr_sops s0 t i ++ atomic_sops f (set_pend s1 t (front ++ pend_of s1 t)) t)).
  { destruct (yielding i); [constructor|]. cbv zeta.
    destruct (exec1 (set_pend s t rest) t (held_of (set_pend s t rest) t) i) as [s1 front].
    apply Forall_app. split; [apply instr_sops_actor|apply IH]. }
  destruct i; try exact Hgen. constructor.
Qed.

Lemma pre_atomic_thread s ev s' t : pre_atomic s ev = Some (s', t) -> self_of t = event_actor ev.
Proof.
  destruct ev; cbn [pre_atomic event_actor]; try discriminate.
  - destruct (get s a) as [x|]; [|discriminate]. destruct (a_cons x); try discriminate.
    destruct (dispatch _ a _ e). intros H. injection H as _ <-. reflexivity.
  - destruct (pend_of s t0) as [|i rest]; [discriminate|]. destruct i; try discriminate. intros H. injection H as _ <-. reflexivity.
  - destruct (pend_of s t0) as [|i rest]; [discriminate|]. destruct i; try discriminate. intros H. injection H as _ <-. reflexivity.
  - destruct (pend_of s t0) as [|i rest]; [discriminate|]. destruct i; try discriminate.
    destruct (get s (self_of t0)) as [x|]; [|discriminate]. destruct (a_paused x); [discriminate|].
    intros H. injection H as _ <-. reflexivity.
  - destruct (pend_of s t0) as [|i rest]; [discriminate|]. destruct i; try discriminate. intros H. injection H as _ <-. reflexivity.
  - intros H. injection H as _ <-. reflexivity.
Qed.

Theorem step_sops_own s ev : Forall (fun o => sop_actor o = event_actor ev) (step_sops s ev).
Proof.
  unfold step_sops. destruct (pre_atomic s ev) as [[s' t]|] eqn:E; [|constructor].
  rewrite <- (pre_atomic_thread _ _ _ _ E). apply atomic_sops_actor.
Qed.

Lemma parked_of_foreign b ops : Forall (fun o => sop_actor o <> b) ops -> parked_of b ops = [] /\ taken_of b ops = [].
Proof.
  induction 1 as [|o l Ho _ IH]; [split; reflexivity|]. destruct IH as [I1 I2].
  unfold parked_of, taken_of in *. cbn [flat_map]. rewrite I1, I2.
  destruct o as [a e|a es]; cbn [sop_actor] in Ho; destruct (Nat.eqb_spec a b); try congruence; split; reflexivity.
Qed.

(** no step of another thread - another actor's handler, an external API caller (unless it acts as [b] = the root),
    a supervisor applying a directive, a queue operation - changes [b]'s stash *)
Theorem stash_foreign_step s ev b : event_actor ev <> b -> stash_at (step s ev) b = stash_at s b.
Proof.
  intros Hne. pose proof (step_balance s ev b) as H.
  assert (F : Forall (fun o => sop_actor o <> b) (step_sops s ev)).
  { eapply Forall_impl; [|apply step_sops_own]. cbn. intros o Ho. congruence. }
  destruct (parked_of_foreign b _ F) as [E1 E2]. rewrite E1, E2, app_nil_r in H. symmetry. exact H.
Qed.

(** queue operations of anybody (insertion, pops, the paused load) carry no stash operation *)
Theorem queue_events_no_sops s ev :
  match ev with EvSysPop _ | EvLoadPaused _ | EvUserPop _ | EvPush _ _ => True | _ => False end -> step_sops s ev = [].
Proof. destruct ev; cbn; tauto. Qed.

(** * what a take is: the envelopes an Unstash removes are re-enqueued, in order, into the own mailbox
    (the instructions it leaves at the head of the handler's list) *)
Theorem unstash_reenqueues s t h x n :
  get s (self_of t) = Some x -> a_stash x <> [] ->
  instr_sops s t (IAct (AUnstash n)) = [STake (self_of t) (firstn (unstash_k n (length (a_stash x))) (a_stash x))] /\
  snd (exec1 s t h (IAct (AUnstash n))) =
    flat_map (fun e => [IEnqMb (self_of t) e; IEnqDone]) (firstn (unstash_k n (length (a_stash x))) (a_stash x)).
Proof.
  intros Hg Hne. split.
  - unfold instr_sops. rewrite Hg. destruct (a_stash x); [congruence|reflexivity].
  - pose proof (exec1_unstash s t h x n Hg Hne) as E. cbv zeta in E. rewrite E. reflexivity.
Qed.

(** what a park is: the envelope HandleEnvelop is working on *)
Theorem stash_parks_current s t x e :
  get s (self_of t) = Some x -> a_cur x = Some e -> instr_sops s t (IAct AStash) = [SPark (self_of t) e].
Proof. intros Hg Hc. unfold instr_sops. rewrite Hg, Hc. reflexivity. Qed.
