(** Termination notices are only ever in flight for contexts that have released their path: every
    [MKilled (RObj c)] anywhere in the state (queues, hands, stash, current envelope, pending sends, pending
    IOnKilled) names a context c that is no longer registered - except a context's own notice kept locally. *)
From Coq Require Import List NArith ZArith Bool Lia Arith.
From Vivid Require Import Actor.Core Actor.CoreRun Actor.SpecMail Actor.ProofsMailBase Actor.ProofsMail Actor.ProofsMailInv
  Actor.ProofsMailWf Actor.ProofsMailAcct Actor.ProofsMailReg Actor.ProofsMailMicro Actor.ProofsMailLife Actor.ProofsMailStep
  Actor.ProofsMailTree.
Import ListNotations.

(** * every micro-step keeps the identity fields of existing records *)
Definition idrel (x y : actor) : Prop := a_path y = a_path x /\ a_parent y = a_parent x.
Definition idT (s s' : state) : Prop := table_rel idrel (fun _ => False) s s'.

Lemma idT_of_softT s s' : softT s s' -> idT s s'.
Proof. intros H b x Hg Hs. destruct (H b x Hg Hs) as (y & Hy & (_ & _ & _ & _ & P1 & P2 & _)). exists y. split; [exact Hy|split; assumption]. Qed.

Lemma idT_set_pend s t l : idT s (set_pend s t l).
Proof.
  destruct t as [a|j]; [|apply table_rel_same_actors; [intros; split; reflexivity|apply set_pend_TX_actors]].
  unfold set_pend. apply table_rel_with_actor; [intros; split; reflexivity|right; intros; split; reflexivity].
Qed.
Lemma idT_trans a b c : idT a b -> idT b c -> idT a c.
Proof. apply table_rel_trans. intros x y z [A B] [C D]. split; congruence. Qed.

Lemma idT_astep s t i rest : idT s (astep s t i rest).
Proof.
  intros b x Hg _.
  destruct (pend_of s t) as [|i0 rest0] eqn:Hp0.
  - (* nothing pending: astep is still defined; go through the generic structure *)
    unfold astep. 
    assert (H1 : idT s (set_pend s t rest)) by apply idT_set_pend.
    destruct (H1 b x Hg ltac:(tauto)) as (x1 & Hx1 & I1).
    destruct (exec1 (set_pend s t rest) t (held_of (set_pend s t rest) t) i) as [s1 front] eqn:E.
    assert (H2 : exists x2, get s1 b = Some x2 /\ idrel x1 x2).
    { replace s1 with (fst (exec1 (set_pend s t rest) t (held_of (set_pend s t rest) t) i)) by (rewrite E; reflexivity).
      destruct (get (set_pend s t rest) (self_of t)) as [xs|] eqn:Hgs.
      - destruct (exec1_actors _ t (held_of (set_pend s t rest) t) i xs Hgs) as (y & news & Hy & _ & Ha).
        assert (Hlt : b < length (actors (set_pend s t rest))) by (eapply nth_error_lt; exact Hx1).
        unfold get. rewrite Ha. rewrite nth_error_app1 by (rewrite upd_length; exact Hlt).
        destruct (Nat.eq_dec (self_of t) b) as [<-|Hne].
        + rewrite nth_upd_eq by (eapply nth_error_lt; exact Hgs). exists y. split; [reflexivity|].
          assert (xs = x1) by congruence; subst. split; [apply (lu_path _ _ _ Hy)|apply (lu_parent _ _ _ Hy)].
        + rewrite nth_upd_neq by exact Hne. exists x1. split; [exact Hx1|split; reflexivity].
      - rewrite (exec1_none _ _ _ _ Hgs). exists x1. split; [exact Hx1|split; reflexivity]. }
    destruct H2 as (x2 & Hx2 & I2).
    destruct (idT_set_pend s1 t (front ++ pend_of s1 t) b x2 Hx2 ltac:(tauto)) as (x3 & Hx3 & I3).
    exists x3. split; [exact Hx3|]. destruct I1, I2, I3. split; congruence.
  - (* same proof *)
    unfold astep.
    assert (H1 : idT s (set_pend s t rest)) by apply idT_set_pend.
    destruct (H1 b x Hg ltac:(tauto)) as (x1 & Hx1 & I1).
    destruct (exec1 (set_pend s t rest) t (held_of (set_pend s t rest) t) i) as [s1 front] eqn:E.
    assert (H2 : exists x2, get s1 b = Some x2 /\ idrel x1 x2).
    { replace s1 with (fst (exec1 (set_pend s t rest) t (held_of (set_pend s t rest) t) i)) by (rewrite E; reflexivity).
      destruct (get (set_pend s t rest) (self_of t)) as [xs|] eqn:Hgs.
      - destruct (exec1_actors _ t (held_of (set_pend s t rest) t) i xs Hgs) as (y & news & Hy & _ & Ha).
        assert (Hlt : b < length (actors (set_pend s t rest))) by (eapply nth_error_lt; exact Hx1).
        unfold get. rewrite Ha. rewrite nth_error_app1 by (rewrite upd_length; exact Hlt).
        destruct (Nat.eq_dec (self_of t) b) as [<-|Hne].
        + rewrite nth_upd_eq by (eapply nth_error_lt; exact Hgs). exists y. split; [reflexivity|].
          assert (xs = x1) by congruence; subst. split; [apply (lu_path _ _ _ Hy)|apply (lu_parent _ _ _ Hy)].
        + rewrite nth_upd_neq by exact Hne. exists x1. split; [exact Hx1|split; reflexivity].
      - rewrite (exec1_none _ _ _ _ Hgs). exists x1. split; [exact Hx1|split; reflexivity]. }
    destruct H2 as (x2 & Hx2 & I2).
    destruct (idT_set_pend s1 t (front ++ pend_of s1 t) b x2 Hx2 ltac:(tauto)) as (x3 & Hx3 & I3).
    exists x3. split; [exact Hx3|]. destruct I1, I2, I3. split; congruence.
Qed.

Lemma idT_mstep s m : idT s (mstep s m).
Proof.
  destruct (mstep_cases s m) as [Hq|[(t & i & rest & pre & s1 & Hp & Hpl & Hf & Hu & Hq & _ & E)|[(a & x & e & -> & Hg & Hc)|(t & i & rest & -> & Hp & Hy & Hq & E)]]].
  - apply idT_of_softT. apply Hq.
  - rewrite E. eapply idT_trans; [apply idT_of_softT; apply Hq|apply idT_set_pend].
  - cbn [mstep]. rewrite Hg, Hc.
    assert (Hg0 : get (set_actor s a (busy x)) a = Some (busy x)) by (apply (get_set_same' s a _ x Hg)).
    destruct (dispatch_effect _ a (busy x) e Hg0) as (y & Hdf & Ha & _).
    destruct (dispatch (set_actor s a (busy x)) a (busy x) e) as [s1 ins]. cbn [fst] in Ha.
    eapply idT_trans; [|apply idT_set_pend].
    intros b xb Hb _. unfold get. rewrite Ha. cbn [set_actor actors]. rewrite upd_upd.
    destruct (Nat.eq_dec a b) as [<-|Hne].
    + rewrite nth_upd_eq by (eapply nth_error_lt; exact Hg). exists y. split; [reflexivity|].
      assert (xb = x) by congruence; subst. split; [rewrite (df_path _ _ Hdf)|rewrite (df_parent _ _ Hdf)]; reflexivity.
    + rewrite nth_upd_neq by exact Hne. exists xb. split; [exact Hb|split; reflexivity].
  - rewrite E. apply idT_astep.
Qed.

(** * the registry changes only by one cleanup or one fresh registration per micro-step *)
Lemma reg_mstep s m :
  reg (mstep s m) = reg s \/ (exists p, reg (mstep s m) = aremove (reg s) p) \/
  (exists p, reg (mstep s m) = reg s ++ [(p, length (actors s))]).
Proof.
  destruct (mstep_cases s m) as [Hq|[(t & i & rest & pre & s1 & Hp & Hpl & Hf & Hu & Hq & _ & E)|[(a & x & e & -> & Hg & Hc)|(t & i & rest & -> & Hp & Hy & Hq & E)]]].
  - left. apply Hq.
  - left. rewrite E, set_pend_reg. apply Hq.
  - left. cbn [mstep]. rewrite Hg, Hc.
    assert (Hg0 : get (set_actor s a (busy x)) a = Some (busy x)) by (apply (get_set_same' s a _ x Hg)).
    destruct (dispatch_effect _ a (busy x) e Hg0) as (y & _ & _ & _ & _ & _ & Hr & _).
    destruct (dispatch (set_actor s a (busy x)) a (busy x) e) as [s1 ins]. cbn [fst] in Hr. rewrite set_pend_reg. exact Hr.
  - rewrite E. destruct (get s (self_of t)) as [x|] eqn:Hg.
    + destruct (astep_table s t i rest x Hg Hp) as (Hg0 & y & news & _ & _ & _ & _ & Hr & Hl0 & Hr0). cbv zeta in *.
      rewrite Hr. rewrite (exec1_reg _ t _ i _ Hg0), Hr0, Hl0.
      destruct i; auto. 
      * destruct a; auto. destruct (a_state (popped t x rest)); auto;
          (destruct (negb (sp_prelaunch sp)); auto); (destruct (alookup (reg s) (a_path (popped t x rest) ++ [sp_name sp])); auto);
          right; right; eexists; reflexivity.
      * right; left. eexists. reflexivity.
    + left. unfold astep.
      assert (Hg0 : get (set_pend s t rest) (self_of t) = None).
      { unfold get in *. apply nth_error_None. rewrite len_set_pend. apply nth_error_None. exact Hg. }
      rewrite (exec1_none _ _ _ _ Hg0). rewrite set_pend_reg. cbn [set_err reg]. apply set_pend_reg.
Qed.

Definition unreg (s : state) (c : aid) : Prop := exists xc, get s c = Some xc /\ ~ regd s c xc.

Lemma unreg_mono s m c : unreg s c -> unreg (mstep s m) c.
Proof.
  intros (xc & Hg & Hn). destruct (idT_mstep s m c xc Hg ltac:(tauto)) as (xc' & Hg' & Hp & _).
  exists xc'. split; [exact Hg'|]. intros Hreg. apply Hn. unfold regd in *. rewrite Hp in Hreg.
  destruct (reg_mstep s m) as [E|[(p & E)|(p & E)]]; rewrite E in Hreg.
  - exact Hreg.
  - apply alookup_aremove in Hreg. exact Hreg.
  - apply alookup_app_one in Hreg. destruct Hreg as [H|[_ H]]; [exact H|]. apply nth_error_lt in Hg. lia.
Qed.

(** * the invariant *)
Definition mk_of (m : msg) : option aid := match m with MKilled (RObj c) => Some c | _ => None end.
Definition msg_ok (s : state) (own : option aid) (m : msg) : Prop :=
  match mk_of m with Some c => own = Some c \/ unreg s c | None => True end.
Definition env_ok (s : state) (a : aid) (e : envelope) : Prop := msg_ok s (Some a) (e_msg e).
Definition instr_ok (s : state) (a : aid) (i : instr) : Prop :=
  match i with
  | IEnq _ _ _ m | IEnqR _ _ _ m | IEnqAny _ _ _ m => msg_ok s None m
  | IEnqMb b e => msg_ok s (Some b) (e_msg e)
  | IOnKilled w => msg_ok s (Some a) (MKilled w)
  | _ => True
  end.
Definition envs (x : actor) : list envelope :=
  a_sq x ++ a_uq x ++ held x ++ a_stash x ++ match a_cur x with Some e => [e] | None => [] end.
Definition rec_ok (s : state) (a : aid) (x : actor) : Prop :=
  Forall (env_ok s a) (envs x) /\ Forall (instr_ok s a) (a_pend x).
Definition MK (s : state) : Prop :=
  (forall a x, get s a = Some x -> rec_ok s a x) /\
  (forall j ex, nth_error (exts s) j = Some ex -> Forall (instr_ok s 0) (x_pend ex)).

Lemma msg_ok_mono s m own msg : msg_ok s own msg -> msg_ok (mstep s m) own msg.
Proof. unfold msg_ok. destruct (mk_of msg); [|auto]. intros [H|H]; [left; exact H|right; apply unreg_mono; exact H]. Qed.
Lemma env_ok_mono s m a e : env_ok s a e -> env_ok (mstep s m) a e.
Proof. apply msg_ok_mono. Qed.
Lemma instr_ok_mono s m a i : instr_ok s a i -> instr_ok (mstep s m) a i.
Proof. destruct i; cbn [instr_ok]; auto; apply msg_ok_mono. Qed.
Lemma msg_ok_weaken s own m : msg_ok s None m -> msg_ok s own m.
Proof. unfold msg_ok. destruct (mk_of m); [|auto]. intros [H|H]; [discriminate|right; exact H]. Qed.

Lemma Forall_flat_map {A B} (P : B -> Prop) (f : A -> list B) l : (forall a, In a l -> Forall P (f a)) -> Forall P (flat_map f l).
Proof. intros H. induction l; cbn [flat_map]; [constructor|]. apply Forall_app. split; [apply H; left; reflexivity|apply IHl; intros; apply H; right; assumption]. Qed.
Lemma Forall_map_IAct (P : instr -> Prop) l : (forall a, P (IAct a)) -> Forall P (map IAct l).
Proof. intros H. induction l; cbn; constructor; auto. Qed.
Lemma Forall_firstn {A} (P : A -> Prop) n l : Forall P l -> Forall P (firstn n l).
Proof. intros H. revert n. induction H; intros [|n]; cbn [firstn]; constructor; auto. Qed.
Lemma Forall_skipn {A} (P : A -> Prop) n l : Forall P l -> Forall P (skipn n l).
Proof. intros H. revert n. induction H; intros [|n]; cbn [skipn]; auto; constructor; auto. Qed.

(** the envelopes a record holds, by component *)
Lemma envs_ok_iff (P : envelope -> Prop) x :
  Forall P (envs x) <-> Forall P (a_sq x) /\ Forall P (a_uq x) /\ Forall P (held x) /\ Forall P (a_stash x) /\
                        (forall e, a_cur x = Some e -> P e).
Proof.
  unfold envs. rewrite !Forall_app. split.
  - intros (A & B & C & D & E). repeat split; auto. intros e He. rewrite He in E. inversion E; auto.
  - intros (A & B & C & D & E). repeat split; auto. destruct (a_cur x); [constructor; [auto|constructor]|constructor].
Qed.

(** what one atomic instruction does to the envelopes its own record holds *)
Lemma exec1_envs S s t h i x :
  get s (self_of t) = Some x -> Forall (env_ok S (self_of t)) (envs x) ->
  exists y, get (fst (exec1 s t h i)) (self_of t) = Some y /\ Forall (env_ok S (self_of t)) (envs y).
Proof.
  intros Hg Hok.
  assert (Hl : self_of t < length (actors s)) by (eapply nth_error_lt; exact Hg).
  assert (Hsame : forall s', actors s' = actors s -> exists y, get s' (self_of t) = Some y /\ Forall (env_ok S (self_of t)) (envs y)).
  { intros s' Ha. exists x. unfold get in *. rewrite Ha. auto. }
  assert (Hset : forall y, Forall (env_ok S (self_of t)) (envs y) ->
            exists y0, get (set_actor s (self_of t) y) (self_of t) = Some y0 /\ Forall (env_ok S (self_of t)) (envs y0)).
  { intros y H. exists y. split; [apply get_set_same; exact Hl|exact H]. }
  pose proof (proj1 (envs_ok_iff _ x) Hok) as (Osq & Ouq & Oh & Ost & Ocur).
  unfold exec1. rewrite Hg.
  destruct i; cbn [fst]; try (apply Hsame; reflexivity).
  - destruct remaining; apply Hsame; reflexivity.
  - destruct a; cbn [fst]; try (apply Hsame; reflexivity).
    + destruct (a_state x) eqn:Est; cbn [fst]; try (apply Hsame; reflexivity).
      all: destruct (negb (sp_prelaunch sp)); [apply Hsame; reflexivity|].
      all: destruct (alookup (reg s) (a_path x ++ [sp_name sp])); [apply Hsame; reflexivity|].
      all: cbn [fst]; cbv zeta.
      all: match goal with |- context[with_actor ?s1 _ _] =>
             assert (Hg1 : get s1 (self_of t) = Some x)
               by (unfold get; cbn [actors]; rewrite nth_error_app1 by exact Hl; exact Hg);
             rewrite (with_actor_some _ _ _ _ Hg1) end.
      all: eexists; split; [apply get_set_same; cbn [actors]; rewrite app_length; lia|exact Hok].
    + destruct (a_cur x) as [e|] eqn:Ec; [|apply Hsame; reflexivity]. apply Hset. apply envs_ok_iff.
      cbn [set_stash upd_local a_sq a_uq a_stash a_cur held a_cons]. repeat split; auto.
      * apply Forall_app. split; [exact Ost|constructor; [apply Ocur; reflexivity|constructor]].
      * intros e0 H0. apply Ocur. congruence.
    + destruct n as [n|].
      * destruct (Nat.eqb (length (a_stash x)) 0); [apply Hsame; reflexivity|]. cbn [fst]. apply Hset. apply envs_ok_iff.
        cbn [set_stash upd_local a_sq a_uq a_stash a_cur held a_cons]. repeat split; auto. apply Forall_skipn. exact Ost.
      * destruct (a_stash x) as [|e0 r] eqn:Es; [apply Hsame; reflexivity|]. apply Hset. apply envs_ok_iff.
        cbn [set_stash upd_local a_sq a_uq a_stash a_cur held a_cons]. repeat split; auto. inversion Ost; assumption.
    + destruct (alookup (subscribers s ty) (a_path x)); apply Hsame; reflexivity.
    + destruct (nlookup (subs s) ty); apply Hsame; reflexivity.
    + apply Hset. exact Hok.
    + apply Hset. exact Hok.
  - destruct (a_zombie x); [apply Hsame; reflexivity|]. destruct (a_parent x).
    + destruct (take_until_panic acts). apply Hsame; reflexivity.
    + destruct m; try (apply Hsame; reflexivity). destruct (ref_eq s who (RObj (self_of t))); apply Hsame; reflexivity.
  - destruct (subscribers s ty); apply Hsame; reflexivity.
  - destruct (a_zombie x); [apply Hsame; reflexivity|]. destruct (ref_eq s who (RObj (self_of t))); [apply Hsame; reflexivity|].
    cbn [fst]. apply Hset.
    repeat match goal with |- context[match ?e with _ => _ end] => destruct e end; exact Hok.
  - destruct (a_children x); [|apply Hsame; reflexivity]. destruct (a_state x); try (apply Hsame; reflexivity).
    cbn [fst]. apply Hset. apply envs_ok_iff. cbn [set_mb set_state upd_local a_sq a_uq a_stash a_cur held a_cons]. repeat split; auto.
    intros e He. inversion He; subst. unfold env_ok, msg_ok. cbn. left. reflexivity.
  - destruct (a_hooks x) as [|[[h1 h2] h3] rest].
    + cbn [fst]. apply Hset. apply envs_ok_iff. destruct (sp_provider (a_spec x));
        cbn [set_mb set_state set_restarting set_hooks set_modes set_inst upd_local a_sq a_uq a_stash a_cur held a_cons];
        repeat split; auto; intros e He; inversion He; subst; exact I.
    + destruct (h2 && h3); cbn [fst]; apply Hset; apply envs_ok_iff; destruct (sp_provider (a_spec x));
        cbn [set_mb set_state set_restarting set_hooks set_modes set_inst set_zombie upd_local a_sq a_uq a_stash a_cur held a_cons];
        repeat split; auto; try (intros e He; inversion He; subst; exact I).
  - apply Hset. exact Hok.
  - destruct d; apply Hsame; reflexivity.
  - apply Hset. apply envs_ok_iff. cbn [set_mb a_sq a_uq a_stash a_cur held a_cons]. repeat split; auto; try constructor.
Qed.

(** the instructions an atomic instruction puts in front: termination notices are only produced by the cleanup *)
Lemma exec1_front_mk S s t h i x :
  get s (self_of t) = Some x -> Forall (env_ok S (self_of t)) (envs x) -> i <> ICleanup ->
  Forall (instr_ok S (self_of t)) (snd (exec1 s t h i)).
Proof.
  intros Hg Hok Hnc.
  pose proof (proj1 (envs_ok_iff _ x) Hok) as (Osq & Ouq & Oh & Ost & Ocur).
  assert (Hown : msg_ok S (Some (self_of t)) (MKilled (RObj (self_of t)))) by (unfold msg_ok; cbn; left; reflexivity).
  unfold exec1. rewrite Hg.
  destruct i; cbn [snd]; try (repeat constructor; fail); try congruence.
  - destruct remaining; repeat constructor.
  - destruct a; cbn [snd]; try (repeat constructor; fail).
    + destruct (a_state x); cbn [snd]; try (repeat constructor; fail);
        (destruct (negb (sp_prelaunch sp)); [repeat constructor|]);
        (destruct (alookup (reg s) (a_path x ++ [sp_name sp])); repeat constructor).
    + destruct (a_cur x); repeat constructor.
    + destruct n as [n|].
      * destruct (Nat.eqb (length (a_stash x)) 0); [constructor|]. cbn [snd]. apply Forall_flat_map. intros e He.
        constructor; [|repeat constructor]. cbn [instr_ok].
        assert (Hin : In e (a_stash x)).
        { revert He. generalize (Z.to_nat (Z.max (Z.min n (Z.of_nat (length (a_stash x)))) 0)). generalize (a_stash x).
          induction l as [|e0 l IH]; intros [|k] H; cbn [firstn] in H; try contradiction. destruct H as [->|H]; [left; reflexivity|right; eapply IH; exact H]. }
        rewrite Forall_forall in Ost. apply (Ost e Hin).
      * destruct (a_stash x) as [|e0 r]; [constructor|]. cbn [snd]. constructor; [|repeat constructor]. inversion Ost; assumption.
    + destruct (alookup (subscribers s ty) (a_path x)); constructor.
    + destruct (nlookup (subs s) ty); constructor.
  - destruct (a_zombie x); [constructor|]. destruct (a_parent x).
    + destruct (take_until_panic acts) as [pre pan]. cbn [snd]. apply Forall_app. split; [apply Forall_map_IAct; intros; exact I|].
      destruct pan; [|constructor]. destruct r; try (repeat constructor; fail). destruct (a_state x); try constructor.
      destruct (ref_eq s who (RObj (self_of t))); repeat constructor.
    + destruct m; try constructor. destruct (ref_eq s who (RObj (self_of t))); constructor.
  - destruct (subscribers s ty); repeat constructor.
  - destruct (a_children x); cbn [app]; repeat constructor; exact Hown.
  - destruct (a_zombie x); [repeat constructor|]. destruct (ref_eq s who (RObj (self_of t))); repeat constructor.
  - destruct (a_children x); [|constructor]. destruct (a_state x); [constructor| |constructor]. destruct (a_restarting x); repeat constructor.
  - destruct (a_hooks x) as [|[[h1 h2] h3] rest]; [repeat constructor|]. destruct (h2 && h3); repeat constructor.
  - destruct d; cbn [snd]; repeat first [apply Forall_app; split | apply Forall_flat_map; intros; repeat constructor | repeat constructor].
Qed.

Lemma exec1_front_mk_cleanup s t h x S :
  get s (self_of t) = Some x -> unreg S (self_of t) -> Forall (instr_ok S (self_of t)) (snd (exec1 s t h ICleanup)).
Proof.
  intros Hg Hun. rewrite (exec1_cleanup s t h x Hg). cbn [snd]. unfold cleanup_sends.
  assert (Hm : msg_ok S None (MKilled (RObj (self_of t)))) by (unfold msg_ok; cbn; right; exact Hun).
  destruct (a_watchers x), (a_parent x); cbn [app]; repeat (apply Forall_cons; [first [exact Hm | exact I]|]); apply Forall_nil.
Qed.

(** HandleEnvelop: the handled envelope becomes the current one; the only notice-related instruction it installs
    is the IOnKilled of the envelope it was given *)
Lemma dispatch_mk S s a x e :
  get s a = Some x -> Forall (env_ok S a) (envs x) -> env_ok S a e ->
  (exists y, get (fst (dispatch s a x e)) a = Some y /\ Forall (env_ok S a) (envs y)) /\
  Forall (instr_ok S a) (snd (dispatch s a x e)).
Proof.
  intros Hg Hok He.
  assert (Hl : a < length (actors s)) by (eapply nth_error_lt; exact Hg).
  pose proof (proj1 (envs_ok_iff _ x) Hok) as (Osq & Ouq & Oh & Ost & Ocur).
  assert (Hkill : forall k p, env_ok S a {| e_sys := true; e_sender := e_sender e; e_msg := MKill k p |}) by (intros; exact I).
  unfold dispatch.
  repeat match goal with
         | |- context[if ?c then _ else _] => destruct c eqn:?
         | |- context[match ?c with _ => _ end] => tryif constr_eq c e then fail else destruct c eqn:?
         end; cbn [fst snd]; (split;
  [ first [ exists x; split; [exact Hg|exact Hok]
          | eexists; split; [first [apply get_set_same; exact Hl | exact (get_set_same s a _ Hl)]|];
            apply envs_ok_iff;
            cbn [set_mb set_state set_restarting set_decisions set_watchers upd_local a_sq a_uq a_stash a_cur held a_cons];
            repeat split; auto; intros e0 He0; injection He0 as <-; first [exact He | apply Hkill] ]
  | repeat (apply Forall_cons; [first [exact I | idtac]|]); try apply Forall_nil ]).
  all: try (match goal with H : e_msg ?e0 = _, He' : env_ok _ _ ?e0 |- _ => unfold env_ok in He'; cbn [instr_ok]; rewrite H in He'; exact He' end).
Qed.

Lemma rec_ok_mono s m a x : rec_ok s a x -> rec_ok (mstep s m) a x.
Proof.
  intros [H1 H2]. split; eapply Forall_impl; try eassumption; intros; [apply env_ok_mono|apply instr_ok_mono]; assumption.
Qed.

Lemma rec_ok_new s a x : is_new x -> rec_ok s a x.
Proof. intros (p & g & par & sp & ->). split; constructor. Qed.

Lemma rec_ok_lsame s a x y : lsame x y -> a_sq y = a_sq x -> a_uq y = a_uq x -> rec_ok s a x -> rec_ok s a y.
Proof.
  intros Hl Hs Hu [H1 H2]. rewrite Hl. split.
  - apply envs_ok_iff. apply envs_ok_iff in H1. destruct H1 as (A & B & C & D & E). cbn [fw a_sq a_uq a_stash a_cur held a_cons].
    rewrite Hs, Hu. repeat split; auto.
  - exact H2.
Qed.

(** pushing an acceptable envelope *)
Lemma rec_ok_push s a x e :
  env_ok s a e -> rec_ok s a x ->
  rec_ok s a (set_mb x (if e_sys e then a_sq x ++ [e] else a_sq x) (if e_sys e then a_uq x else a_uq x ++ [e]) (a_paused x) (a_cons x) (a_cur x)).
Proof.
  intros He [H1 H2]. split; [|exact H2]. apply envs_ok_iff. apply envs_ok_iff in H1. destruct H1 as (A & B & C & D & E).
  cbn [set_mb a_sq a_uq a_stash a_cur held a_cons]. destruct (e_sys e); repeat split; auto; apply Forall_app; split; auto.
Qed.

Lemma push_mb_get s a x e : get s a = Some x ->
  push_mb s a e = set_actor s a (set_mb x (if e_sys e then a_sq x ++ [e] else a_sq x) (if e_sys e then a_uq x else a_uq x ++ [e]) (a_paused x) (a_cons x) (a_cur x)).
Proof. intros Hg. unfold push_mb. rewrite (with_actor_some _ _ _ _ Hg). reflexivity. Qed.

(** all records acceptable w.r.t. a fixed state [s] *)
Definition AllOk (s : state) (s' : state) : Prop :=
  (forall a x, get s' a = Some x -> rec_ok s a x) /\
  (forall j ex, nth_error (exts s') j = Some ex -> Forall (instr_ok s 0) (x_pend ex)).

Lemma AllOk_same s s' : actors s' = actors s -> exts s' = exts s -> MK s -> AllOk s s'.
Proof. intros Ha He [H1 H2]. split; [intros a x Hg; apply H1; unfold get in *; rewrite <- Ha; exact Hg|intros j ex Hn; apply (H2 j); rewrite <- He; exact Hn]. Qed.

Lemma AllOk_set_actor s s1 a y : AllOk s s1 -> rec_ok s a y -> AllOk s (set_actor s1 a y).
Proof.
  intros [H1 H2] Hy. split; [|exact H2]. intros b x Hg.
  destruct (Nat.eq_dec a b) as [<-|Hne].
  - destruct (Nat.lt_ge_cases a (length (actors s1))) as [Hl|Hl].
    + rewrite get_set_same in Hg by exact Hl. inversion Hg; subst. exact Hy.
    + unfold get in Hg. cbn [set_actor actors] in Hg. assert (E : nth_error (upd (actors s1) a y) a = None) by (apply nth_error_None; rewrite upd_length; exact Hl). congruence.
  - rewrite get_set_other in Hg by exact Hne. apply H1. exact Hg.
Qed.

Lemma AllOk_push_mb s s1 a e : AllOk s s1 -> env_ok s a e -> AllOk s (push_mb s1 a e).
Proof.
  intros H He. destruct (get s1 a) as [x|] eqn:Hg.
  - rewrite (push_mb_get _ _ _ _ Hg). apply AllOk_set_actor; [exact H|]. apply rec_ok_push; [exact He|]. apply (proj1 H _ _ Hg).
  - rewrite (push_mb_none _ _ _ Hg). exact H.
Qed.

Lemma AllOk_resolve s s1 r : AllOk s s1 -> AllOk s (snd (resolve s1 r)).
Proof.
  intros H. destruct (resolve_shape s1 r) as [E|[E|(a & x & y & _ & Hg & _ & _ & E & _)]]; rewrite E; [exact H|exact H|].
  apply AllOk_set_actor; [exact H|]. eapply rec_ok_lsame; [| | |apply (proj1 H _ _ Hg)]; reflexivity.
Qed.

(** replacing thread t's pending list by acceptable instructions *)
Lemma AllOk_set_pend s s1 t l :
  AllOk s s1 -> Forall (instr_ok s (self_of t)) l -> AllOk s (set_pend s1 t l).
Proof.
  intros [H1 H2] Hl. destruct t as [a|j]; cbn [set_pend self_of] in *.
  - unfold with_actor. destruct (get s1 a) as [x|] eqn:Hg; [|split; assumption].
    apply AllOk_set_actor; [split; assumption|]. destruct (H1 _ _ Hg) as [E _]. split; [exact E|exact Hl].
  - destruct (nth_error (exts s1) j) as [ex|] eqn:Hn; [|split; assumption].
    split; [exact H1|]. intros k exk Hk. cbn [set_ext exts] in Hk. destruct (Nat.eq_dec j k) as [<-|Hne].
    + rewrite nth_upd_eq in Hk by (eapply nth_error_lt; exact Hn). inversion Hk; subst. exact Hl.
    + rewrite nth_upd_neq in Hk by exact Hne. apply (H2 k). exact Hk.
Qed.

(** the pending list of a thread is acceptable for the thread's own context *)
Lemma AllOk_pend s s1 t i rest : AllOk s s1 -> pend_of s1 t = i :: rest -> instr_ok s (self_of t) i /\ Forall (instr_ok s (self_of t)) rest.
Proof.
  intros [H1 H2] Hp. destruct t as [a|j]; cbn [self_of].
  - destruct (pend_of_TA_cons _ _ _ _ Hp) as (x & Hg & Hpx). destruct (H1 _ _ Hg) as [_ E]. rewrite Hpx in E. inversion E; auto.
  - destruct (pend_of_TX_cons _ _ _ _ Hp) as (ex & Hn & Hpx). pose proof (H2 _ _ Hn) as E. rewrite Hpx in E. inversion E; auto.
Qed.

Lemma landing_ok s mb e : msg_ok s None (e_msg e) -> env_ok s (fst (landing mb e)) (snd (landing mb e)).
Proof. intros H. destruct mb; cbn [landing fst snd]; try (apply msg_ok_weaken; exact H). exact I. Qed.

Lemma MK_of_AllOk s m : AllOk s (mstep s m) -> MK (mstep s m).
Proof.
  intros [H1 H2]. split.
  - intros a x Hg. apply rec_ok_mono. apply H1. exact Hg.
  - intros j ex Hn. eapply Forall_impl; [|apply (H2 j ex Hn)]. intros i Hi. apply instr_ok_mono. exact Hi.
Qed.

Lemma rec_ok_set_mb_perm s a x sq uq co cu pa :
  rec_ok s a x -> Forall (env_ok s a) sq -> Forall (env_ok s a) uq ->
  (forall e, co = CH e -> env_ok s a e) -> (forall e, cu = Some e -> env_ok s a e) ->
  rec_ok s a (set_mb x sq uq pa co cu).
Proof.
  intros [H1 H2] Hs Hu Hc Hcu. split; [|exact H2]. apply envs_ok_iff. apply envs_ok_iff in H1. destruct H1 as (A & B & C & D & E).
  cbn [set_mb a_sq a_uq a_stash a_cur held a_cons]. repeat split; auto.
  unfold held. cbn [a_cons set_mb]. destruct co; try constructor; [apply Hc; reflexivity|constructor].
Qed.

(** pending lists of the external callers after one atomic step *)
Lemma astep_exts s t i rest k exk :
  nth_error (exts (astep s t i rest)) k = Some exk ->
  (t = TX k /\ x_pend exk = snd (exec1 (set_pend s t rest) t (held_of (set_pend s t rest) t) i) ++ match nth_error (exts (set_pend s t rest)) k with Some e0 => x_pend e0 | None => [] end) \/
  (exists exo, nth_error (exts s) k = Some exo /\ x_pend exk = x_pend exo).
Proof.
  unfold astep. set (s0 := set_pend s t rest).
  pose proof (exec1_exts_pend s0 t (held_of s0 t) i) as Hm.
  destruct (exec1 s0 t (held_of s0 t) i) as [s1 front]. cbn [fst snd] in *.
  intros Hn.
  assert (Hk1 : forall ex1, nth_error (exts s1) k = Some ex1 -> exists ex0, nth_error (exts s0) k = Some ex0 /\ x_pend ex1 = x_pend ex0).
  { intros ex1 H1. apply (f_equal (fun l => nth_error l k)) in Hm. rewrite !nth_error_map, H1 in Hm.
    destruct (nth_error (exts s0) k) as [ex0|]; [|discriminate Hm]. cbn in Hm. inversion Hm. eauto. }
  assert (Hk0 : forall ex0, nth_error (exts s0) k = Some ex0 -> t <> TX k -> exists exo, nth_error (exts s) k = Some exo /\ x_pend ex0 = x_pend exo).
  { intros ex0 H0 Hne. unfold s0 in H0. destruct t as [a|j]; cbn [set_pend] in H0.
    - destruct (with_actor_fields s a (fun x => upd_pend x rest)) as (_ & _ & _ & _ & E & _). rewrite E in H0. eauto.
    - destruct (nth_error (exts s) j) as [exj|] eqn:Ej; [|eauto]. cbn [set_ext exts] in H0.
      rewrite nth_upd_neq in H0 by congruence. eauto. }
  destruct t as [a|j].
  - right. cbn [set_pend] in Hn. destruct (with_actor_fields s1 a (fun x => upd_pend x (front ++ pend_of s1 (TA a)))) as (_ & _ & _ & _ & E & _).
    rewrite E in Hn. destruct (Hk1 _ Hn) as (ex0 & H0 & P0). destruct (Hk0 _ H0 ltac:(discriminate)) as (exo & Ho & Po). exists exo. split; [exact Ho|congruence].
  - destruct (Nat.eq_dec j k) as [<-|Hne].
    + left. split; [reflexivity|]. cbn [set_pend pend_of] in Hn. destruct (nth_error (exts s1) j) as [ex1|] eqn:E1.
      * cbn [set_ext exts] in Hn. rewrite nth_upd_eq in Hn by (eapply nth_error_lt; exact E1). inversion Hn; subst exk. cbn [x_pend].
        destruct (Hk1 _ eq_refl) as (ex0 & H0 & P0). fold s0. rewrite H0, P0. reflexivity.
      * cbn [set_err exts] in Hn. congruence.
    + right. cbn [set_pend] in Hn. destruct (nth_error (exts s1) j) as [ex1|] eqn:E1.
      * cbn [set_ext exts] in Hn. rewrite nth_upd_neq in Hn by exact Hne.
        destruct (Hk1 _ Hn) as (ex0 & H0 & P0). destruct (Hk0 _ H0 ltac:(congruence)) as (exo & Ho & Po). exists exo. split; [exact Ho|congruence].
      * cbn [set_err exts] in Hn. destruct (Hk1 _ Hn) as (ex0 & H0 & P0). destruct (Hk0 _ H0 ltac:(congruence)) as (exo & Ho & Po). exists exo. split; [exact Ho|congruence].
Qed.

Lemma envs_upd_pend x l : envs (upd_pend x l) = envs x. Proof. reflexivity. Qed.
Lemma envs_popped t x rest : envs (popped t x rest) = envs x. Proof. destruct t; reflexivity. Qed.


(** one atomic step other than the cleanup *)
Lemma AllOk_astep s t i rest :
  RInv s -> MK s -> pend_of s t = i :: rest -> i <> ICleanup -> AllOk s (astep s t i rest).
Proof.
  intros HR HM Hp Hnc. pose proof HM as [M1 M2].
  destruct (RInv_self s t HR i rest Hp) as (x & Hg).
  assert (Hl : self_of t < length (actors s)) by (eapply nth_error_lt; exact Hg).
  destruct (astep_table s t i rest x Hg Hp) as (Hg0 & y & news & Hy & Hnews & Ha1 & Ha & _ & Hl0 & _). cbv zeta in *.
  set (s0 := set_pend s t rest) in *.
  destruct (AllOk_pend s s t i rest (AllOk_same s s eq_refl eq_refl HM) Hp) as [Hi Hrest].
  assert (Hx0 : Forall (env_ok s (self_of t)) (envs (popped t x rest))) by (rewrite envs_popped; apply (M1 _ _ Hg)).
  destruct (exec1_envs s s0 t (held_of s0 t) i _ Hg0 Hx0) as (y' & Hy' & Hyok).
  pose proof (exec1_front_mk s s0 t (held_of s0 t) i _ Hg0 Hx0 Hnc) as Hfr.
  assert (Hyy : y' = y).
  { unfold get in Hy'. rewrite Ha1 in Hy'. rewrite nth_error_app1 in Hy' by (rewrite upd_length, Hl0; exact Hl).
    rewrite nth_upd_eq in Hy' by (rewrite Hl0; exact Hl). congruence. }
  subst y'.
  set (front := snd (exec1 s0 t (held_of s0 t) i)) in *.
  split.
  - intros b xb Hgb. unfold get in Hgb. rewrite Ha in Hgb.
    destruct (Nat.lt_ge_cases b (length (actors s))) as [Hlt|Hge].
    + rewrite nth_error_app1 in Hgb by (rewrite upd_length; exact Hlt).
      destruct (Nat.eq_dec (self_of t) b) as [<-|Hne].
      * rewrite nth_upd_eq in Hgb by exact Hl. inversion Hgb; subst xb.
        destruct t as [a|j]; cbn [pushed self_of] in *.
        -- split; [rewrite envs_upd_pend; exact Hyok|]. cbn [upd_pend a_pend]. apply Forall_app. split; [exact Hfr|exact Hrest].
        -- split; [exact Hyok|]. rewrite (lu_pend _ _ _ Hy). cbn [popped]. apply (M1 _ _ Hg).
      * rewrite nth_upd_neq in Hgb by exact Hne. apply M1. exact Hgb.
    + rewrite nth_error_app2 in Hgb by (rewrite upd_length; exact Hge). apply nth_error_In in Hgb.
      rewrite Forall_forall in Hnews. apply rec_ok_new. auto.
  - intros k exk Hk. destruct (astep_exts s t i rest k exk Hk) as [[-> E]|(exo & Ho & E)].
    + rewrite E. fold s0. fold front. apply Forall_app. split; [exact Hfr|].
      unfold s0. cbn [set_pend]. destruct (pend_of_TX_cons _ _ _ _ Hp) as (ex & Hn & Hpx). rewrite Hn. cbn [set_ext exts].
      rewrite nth_upd_eq by (eapply nth_error_lt; exact Hn). cbn [x_pend]. exact Hrest.
    + rewrite E. apply (M2 k). exact Ho.
Qed.

Lemma unreg_after_cleanup s a x y :
  get s a = Some x ->
  unreg (set_actor (set_reg (set_subs s (unsub_all (subs s) (a_path x))) (aremove (reg s) (a_path x))) a y) a \/ a_path y <> a_path x.
Proof.
  intros Hg. destruct (path_eqb (a_path y) (a_path x)) eqn:E; [left|right; intros H; rewrite H, path_eqb_refl in E; discriminate].
  apply path_eqb_eq in E. assert (Hl : a < length (actors s)) by (eapply nth_error_lt; exact Hg).
  exists y. split; [apply (get_set_same _ a y Hl)|]. unfold regd. cbn [set_actor reg set_reg]. rewrite E, alookup_aremove_same. discriminate.
Qed.

Theorem MK_mstep s m : wf s -> LI s -> RInv s -> MK s -> MK (mstep s m).
Proof.
  intros W HLI HR HM. pose proof HM as [M1 M2].
  assert (Hsame : forall s', actors s' = actors s -> exts s' = exts s -> mstep s m = s' -> MK (mstep s m)).
  { intros s' Ha He E. apply MK_of_AllOk. rewrite E. apply AllOk_same; assumption. }
  destruct m.
  - (* MSysPop *)
    apply MK_of_AllOk. cbn [mstep step]. destruct (get s a) as [x|] eqn:Hg; [|apply AllOk_same; auto].
    pose proof (M1 _ _ Hg) as Hx. pose proof (proj1 (envs_ok_iff _ x) (proj1 Hx)) as (A & B & C & D & E).
    destruct (a_cons x), (a_sq x) eqn:Hs; try (apply AllOk_same; auto; fail);
      (apply AllOk_set_actor; [apply AllOk_same; auto|]; apply rec_ok_set_mb_perm; auto; try (inversion A; assumption);
       try (intros e0 He0; inversion He0; subst; inversion A; assumption); try (intros e0 He0; discriminate He0); try constructor).
  - (* MLoadPaused *)
    apply MK_of_AllOk. cbn [mstep step]. destruct (get s a) as [x|] eqn:Hg; [|apply AllOk_same; auto].
    pose proof (M1 _ _ Hg) as Hx. pose proof (proj1 (envs_ok_iff _ x) (proj1 Hx)) as (A & B & C & D & E).
    destruct (a_cons x); try (apply AllOk_same; auto; fail).
    apply AllOk_set_actor; [apply AllOk_same; auto|]. apply rec_ok_set_mb_perm; auto. intros e0 He0. destruct (a_paused x); discriminate He0.
  - (* MUserPop *)
    apply MK_of_AllOk. cbn [mstep step]. destruct (get s a) as [x|] eqn:Hg; [|apply AllOk_same; auto].
    pose proof (M1 _ _ Hg) as Hx. pose proof (proj1 (envs_ok_iff _ x) (proj1 Hx)) as (A & B & C & D & E).
    destruct (a_cons x), (a_uq x) eqn:Hs; try (apply AllOk_same; auto; fail);
      (apply AllOk_set_actor; [apply AllOk_same; auto|]; apply rec_ok_set_mb_perm; auto; try (inversion B; assumption);
       try (intros e0 He0; inversion He0; subst; inversion B; assumption); try (intros e0 He0; discriminate He0); try constructor).
  - (* MHandle *)
    apply MK_of_AllOk. cbn [mstep]. destruct (get s a) as [x|] eqn:Hg; [|apply AllOk_same; auto].
    destruct (a_cons x) eqn:Hc; try (apply AllOk_same; auto; fail).
    assert (Hl : a < length (actors s)) by (eapply nth_error_lt; exact Hg).
    pose proof (M1 _ _ Hg) as Hx. pose proof (proj1 (envs_ok_iff _ x) (proj1 Hx)) as (A & B & C & D & E).
    assert (He : env_ok s a e) by (unfold held in C; rewrite Hc in C; inversion C; assumption).
    set (s0 := set_actor s a (busy x)).
    assert (Hg0 : get s0 a = Some (busy x)) by (apply get_set_same; exact Hl).
    assert (Hb : Forall (env_ok s a) (envs (busy x))).
    { apply envs_ok_iff. cbn [busy set_mb a_sq a_uq a_stash a_cur held a_cons]. repeat split; auto; try constructor. }
    destruct (dispatch_mk s s0 a (busy x) e Hg0 Hb He) as [(y & Hy & Hyok) Hins].
    destruct (dispatch_effect s0 a (busy x) e Hg0) as (y2 & _ & Ha & _ & _ & Hex & _).
    destruct (dispatch s0 a (busy x) e) as [s1 ins]. cbn [fst snd] in *.
    rewrite (set_pend_TA _ _ _ _ Hy). split.
    + intros b xb Hgb. destruct (Nat.eq_dec a b) as [<-|Hne].
      * rewrite (get_set_same' _ _ _ _ Hy) in Hgb. inversion Hgb; subst xb. split; [rewrite envs_upd_pend; exact Hyok|exact Hins].
      * rewrite get_set_other in Hgb by exact Hne. apply M1. unfold get in *. rewrite Ha in Hgb. unfold s0 in Hgb. cbn [set_actor actors] in Hgb.
        rewrite upd_upd, nth_upd_neq in Hgb by exact Hne. exact Hgb.
    + intros j ex Hn. cbn [set_actor exts] in Hn. rewrite Hex in Hn. apply (M2 j). exact Hn.
  - (* MPush *)
    apply MK_of_AllOk. cbn [mstep step]. destruct (pend_of s t) as [|i rest] eqn:Hp; [apply AllOk_same; auto|].
    destruct (AllOk_pend s s t i rest (AllOk_same s s eq_refl eq_refl HM) Hp) as [Hi Hrest].
    destruct i; try (apply AllOk_same; auto; fail).
    + rewrite deliver_eq. apply AllOk_set_pend; [|exact Hrest]. apply AllOk_push_mb; [apply AllOk_same; auto|]. apply landing_ok. exact Hi.
    + apply AllOk_set_pend; [|exact Hrest]. apply AllOk_push_mb; [apply AllOk_same; auto|]. exact Hi.
    + destruct (nth_error tos c) as [r|]; [|apply AllOk_same; auto].
      pose proof (AllOk_resolve s s r (AllOk_same s s eq_refl eq_refl HM)) as Hr. destruct (resolve s r) as [mb s1]. cbn [snd] in Hr.
      rewrite deliver_eq. apply AllOk_set_pend.
      * apply AllOk_push_mb; [exact Hr|]. apply landing_ok. exact Hi.
      * constructor; [exact I|]. destruct (firstn c tos ++ skipn (S c) tos); [exact Hrest|constructor; [exact Hi|exact Hrest]].
    + destruct (nth_error remaining c) as [r|]; [|apply AllOk_same; auto].
      pose proof (AllOk_resolve s s r (AllOk_same s s eq_refl eq_refl HM)) as Hr. destruct (resolve s r) as [mb s1]. cbn [snd] in Hr.
      rewrite deliver_eq. apply AllOk_set_pend.
      * apply AllOk_push_mb; [exact Hr|]. apply landing_ok. exact I.
      * constructor; [exact I|]. constructor; [exact I|exact Hrest].
  - (* MEnqDone *)
    apply MK_of_AllOk. cbn [mstep]. destruct (pend_of s t) as [|i rest] eqn:Hp; [apply AllOk_same; auto|].
    destruct (AllOk_pend s s t i rest (AllOk_same s s eq_refl eq_refl HM) Hp) as [Hi Hrest].
    destruct i; try (apply AllOk_same; auto; fail). apply AllOk_set_pend; [apply AllOk_same; auto|exact Hrest].
  - (* MPauseSt *)
    apply MK_of_AllOk. cbn [mstep]. destruct (pend_of s t) as [|i rest] eqn:Hp; [apply AllOk_same; auto|].
    destruct (AllOk_pend s s t i rest (AllOk_same s s eq_refl eq_refl HM) Hp) as [Hi Hrest].
    destruct i; try (apply AllOk_same; auto; fail). apply AllOk_set_pend; [|exact Hrest].
    unfold with_actor. destruct (get s (self_of t)) as [x|] eqn:Hg; [|apply AllOk_same; auto].
    apply AllOk_set_actor; [apply AllOk_same; auto|]. destruct (M1 _ _ Hg) as [E1 E2]. split; [exact E1|exact E2].
  - (* MResume1 *)
    apply MK_of_AllOk. cbn [mstep]. destruct (pend_of s t) as [|i rest] eqn:Hp; [apply AllOk_same; auto|].
    destruct (AllOk_pend s s t i rest (AllOk_same s s eq_refl eq_refl HM) Hp) as [Hi Hrest].
    destruct i; try (apply AllOk_same; auto; fail).
    destruct (get s (self_of t)) as [x|] eqn:Hg; [|apply AllOk_same; auto]. destruct (a_paused x).
    + apply AllOk_set_pend; [|constructor; [exact I|exact Hrest]].
      apply AllOk_set_actor; [apply AllOk_same; auto|]. destruct (M1 _ _ Hg) as [E1 E2]. split; [exact E1|exact E2].
    + apply AllOk_set_pend; [apply AllOk_same; auto|exact Hrest].
  - (* MResume2 *)
    apply MK_of_AllOk. cbn [mstep]. destruct (pend_of s t) as [|i rest] eqn:Hp; [apply AllOk_same; auto|].
    destruct (AllOk_pend s s t i rest (AllOk_same s s eq_refl eq_refl HM) Hp) as [Hi Hrest].
    destruct i; try (apply AllOk_same; auto; fail). apply AllOk_set_pend; [apply AllOk_same; auto|exact Hrest].
  - (* MAtomic *)
    destruct (pend_of s t) as [|i rest] eqn:Hp; [apply (Hsame s); auto; cbn [mstep]; rewrite Hp; reflexivity|].
    destruct (AllOk_pend s s t i rest (AllOk_same s s eq_refl eq_refl HM) Hp) as [Hi Hrest].
    destruct (is_enq i) eqn:Hq.
    + destruct i; try discriminate Hq. apply MK_of_AllOk. cbn [mstep]. rewrite Hp.
      apply AllOk_set_pend; [apply AllOk_resolve; apply AllOk_same; auto|]. constructor; [exact Hi|exact Hrest].
    + destruct (yielding i) eqn:Hy.
      * apply (Hsame s); auto. cbn [mstep]. rewrite Hp. destruct i; try discriminate Hy; try reflexivity; try discriminate Hq.
        destruct remaining; [discriminate Hy|reflexivity].
      * pose proof (mstep_atomic_exec s t i rest Hp Hy Hq) as E.
        destruct (instr_eq_cleanup i) as [-> |Hnc].
        -- (* the cleanup: its notices name the context that has just released its path *)
           destruct t as [a|j].
           2:{ exfalso. destruct (pend_of_TX_cons _ _ _ _ Hp) as (ex & Hn & Hpx). destruct W as [_ HX].
               pose proof (Forall_nth _ _ _ _ HX Hn) as Hok. cbv beta in Hok. rewrite Hpx in Hok. discriminate Hok. }
           destruct (pend_of_TA_cons _ _ _ _ Hp) as (x & Hg & Hpx).
           assert (Hl : a < length (actors s)) by (eapply nth_error_lt; exact Hg).
           pose proof (astep_cleanup s a x rest Hg) as Ec. rewrite <- E in Ec.
           assert (Hun : unreg (mstep s (MAtomic (TA a))) a).
           { rewrite Ec. destruct (unreg_after_cleanup s a x (upd_pend x ((cleanup_sends a x ++ [IPub evKilled (actor_key x); IResume1]) ++ rest)) Hg) as [H|H]; [exact H|].
             exfalso. apply H. reflexivity. }
           split.
           ++ intros b xb Hgb. rewrite Ec in Hgb. unfold get in Hgb. cbn [set_actor actors set_reg set_subs] in Hgb.
              destruct (Nat.eq_dec a b) as [<-|Hne].
              ** rewrite nth_upd_eq in Hgb by exact Hl. inversion Hgb; subst xb. split.
                 --- rewrite envs_upd_pend. eapply Forall_impl; [|apply (proj1 (M1 _ _ Hg))]. intros e0 He0. apply env_ok_mono. exact He0.
                 --- cbn [upd_pend a_pend]. apply Forall_app. split.
                     +++ pose proof (exec1_front_mk_cleanup s (TA a) [] x (mstep s (MAtomic (TA a))) Hg Hun) as Hf.
                         rewrite (exec1_cleanup s (TA a) [] x Hg) in Hf. exact Hf.
                     +++ eapply Forall_impl; [|exact Hrest]. intros i0 Hi0. apply instr_ok_mono. exact Hi0.
              ** rewrite nth_upd_neq in Hgb by exact Hne. apply rec_ok_mono. apply M1. exact Hgb.
           ++ intros j ex Hn. rewrite Ec in Hn. eapply Forall_impl; [|apply (M2 j ex Hn)]. intros i0 Hi0. apply instr_ok_mono. exact Hi0.
        -- apply MK_of_AllOk. rewrite E. apply AllOk_astep; assumption.
Qed.

Lemma MK_init scs : MK (init_with scs).
Proof.
  unfold init_with.
  assert (Ha : forall scs s i, actors (set_exts s i scs) = actors s).
  { clear. induction scs as [|sc r IH]; intros s i; cbn [set_exts]; [reflexivity|]. rewrite IH. apply set_pend_TX_actors. }
  split.
  - intros a x Hg. unfold get in Hg. rewrite Ha in Hg. destruct a as [|[|a]]; cbn in Hg; try discriminate. inversion Hg; subst. split; constructor.
  - assert (H : forall scs s i, (forall j ex, nth_error (exts s) j = Some ex -> forall ins, In ins (x_pend ex) -> exists a, ins = IAct a) ->
                 forall j ex, nth_error (exts (set_exts s i scs)) j = Some ex -> forall ins, In ins (x_pend ex) -> exists a, ins = IAct a).
    { clear. induction scs as [|sc r IH]; intros s i Hs; cbn [set_exts]; [exact Hs|]. apply IH. intros j ex Hn ins Hin.
      cbn [set_pend] in Hn. destruct (nth_error (exts s) i) as [exi|] eqn:Ei; [|eapply Hs; eauto].
      cbn [set_ext exts] in Hn. destruct (Nat.eq_dec i j) as [<-|Hne].
      - rewrite nth_upd_eq in Hn by (eapply nth_error_lt; exact Ei). inversion Hn; subst. cbn [x_pend] in Hin. apply in_map_iff in Hin. destruct Hin as (a & <- & _). eauto.
      - rewrite nth_upd_neq in Hn by exact Hne. eapply Hs; eauto. }
    intros j ex Hn. apply Forall_forall. intros ins Hin.
    destruct (H scs (init_state (length scs)) 0) with (j := j) (ex := ex) (ins := ins) as (a & ->); auto.
    + intros k exk Hk ins0 Hin0. cbn [init_state exts] in Hk. apply nth_error_In in Hk. apply repeat_spec in Hk. subst. destruct Hin0.
    + exact I.
Qed.

Theorem MK_reachable s : reachable s -> MK s.
Proof.
  revert s. apply (micro_invariant_with (fun s => wf s /\ LI s /\ RInv s) MK).
  - intros scs. split; [apply wf_init|split; [apply LI_init|apply RInv_init]].
  - intros s m (W & I & HR). split; [apply wf_mstep; exact W|split; [apply LI_mstep; assumption|apply RInv_mstep; assumption]].
  - apply MK_init.
  - intros s m (W & I & HR) HM. apply MK_mstep; assumption.
Qed.
