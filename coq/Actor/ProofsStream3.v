(** C19, history level, part 2: where a fan-out insertion lands (always the addressed context's own mailbox), the
    completed fan-out of one publish under any interleaving (each snapshot entry exactly one insertion, nobody
    else), and the order of one publisher's events in a subscriber's user queue.
    Definitions: Actor/SpecStream.v. *)
From Coq Require Import List NArith ZArith Bool Permutation Lia Arith.
From Vivid Require Import Actor.Core Actor.CoreRun Actor.SpecSup Actor.ProofsSup Actor.ProofsStream.
From Vivid Require Import Actor.SpecMail Actor.ProofsMailBase Actor.ProofsMail Actor.ProofsMailInv Actor.ProofsMailWf
  Actor.ProofsMailAcct Actor.ProofsMailReg Actor.ProofsMailMicro Actor.ProofsMailMicro2 Actor.ProofsMailLife Actor.ProofsMailTree
  Actor.ProofsMailCover2.
From Vivid Require Import Actor.SpecStream Actor.ProofsStream2.
Import ListNotations.

(* ------------------------------------------------------------------ landing *)

(** a reference to a context object always resolves to that context's own mailbox: non-root contexts have their
    cache filled by ActorOf's first tell (ref_cache_reachable); the guard is never registered and is the only
    context with the empty path *)
Lemma resolve_obj s y xy :
  reachable s -> get s y = Some xy ->
  fst (resolve s (RObj y)) = MbActor y \/ (y = 0 /\ fst (resolve s (RObj y)) = MbRoot).
Proof.
  intros Hr Hg. cbn [resolve]. rewrite Hg.
  destruct (Nat.eq_dec y 0) as [->|Hne].
  - destruct (RInv_reachable s Hr) as ((x0 & Hg0 & _ & Hp0) & Rb & Rc & _). rewrite Hg in Hg0. inversion Hg0; subst x0.
    destruct (a_cache xy) as [z|] eqn:Hc.
    + left. cbn [fst]. destruct (reachable_route_ok s Hr) as [_ HC]. destruct (HC 0 xy z Hg Hc) as (xz & Hgz & Hpz).
      destruct (Nat.eq_dec z 0) as [->|Hz]; [reflexivity|]. exfalso. destruct (Rb z xz Hgz Hz) as [_ Hn]. apply Hn. congruence.
    + right. split; [reflexivity|]. rewrite Hp0, Rc. reflexivity.
  - left. rewrite (ref_cache_reachable s y xy Hr Hg Hne). reflexivity.
Qed.

Lemma lands_obj s y xy : reachable s -> get s y = Some xy -> lands s (RObj y) = Some y.
Proof. intros Hr Hg. unfold lands. destruct (resolve_obj s y xy Hr Hg) as [->|[-> ->]]; reflexivity. Qed.

Lemma lands_obj_inv s y x : reachable s -> lands s (RObj y) = Some x -> y = x.
Proof.
  intros Hr H. destruct (get s y) as [xy|] eqn:Hg.
  - rewrite (lands_obj s y xy Hr Hg) in H. congruence.
  - unfold lands in H. cbn [resolve] in H. rewrite Hg in H. discriminate H.
Qed.

Lemma landing_obj s y xy e : reachable s -> get s y = Some xy -> landing (fst (resolve s (RObj y))) e = (y, e).
Proof. intros Hr Hg. destruct (resolve_obj s y xy Hr Hg) as [->|[-> ->]]; reflexivity. Qed.

(** an error-free queue insertion through a context reference: the context exists *)
Lemma resolve_obj_err s y : get s y = None -> err (snd (resolve s (RObj y))) = true.
Proof. intros Hg. cbn [resolve]. rewrite Hg. reflexivity. Qed.

Lemma push_any_get s t k sys tos sender m rest y :
  pend_of s t = IEnqAny sys tos sender m :: rest -> nth_error tos k = Some (RObj y) -> err (step s (EvPush t k)) = false ->
  exists xy, get s y = Some xy.
Proof.
  intros Hp Hk He. destruct (get s y) as [xy|] eqn:Hg; [eauto|]. exfalso.
  cbn [step] in He. rewrite Hp, Hk in He. pose proof (resolve_obj_err s y Hg) as Hr.
  destruct (resolve s (RObj y)) as [mb s1]. cbn [snd] in Hr. rewrite deliver_eq in He.
  rewrite set_pend_err_mono in He; [discriminate|]. apply push_mb_fields. exact Hr.
Qed.

(** deliveries by landing are deliveries by address *)
Lemma delivers_addr t ty x s ev : reachable s -> delivers t ty x s ev = true -> addr_delivers t ty x s ev = true.
Proof.
  intros Hr H. unfold delivers in H. unfold addr_delivers, gdelivers.
  destruct (stream_push s ev) as [[[[t' ty'] pl] to]|] eqn:Hs; [|discriminate H].
  apply andb_true_iff in H. destruct H as [H1 H2]. rewrite H1. cbn [andb].
  destruct (stream_push_obj s ev t' ty' pl to Hr Hs) as [y ->].
  destruct (lands s (RObj y)) as [z|] eqn:Hl; [|discriminate H2]. apply Nat.eqb_eq in H2. subst z.
  rewrite (lands_obj_inv s y x Hr Hl). cbn [is_obj]. apply Nat.eqb_refl.
Qed.

Lemma deliveries_addr t ty x evs : forall s,
  reachable s -> err (run_events evs s) = false -> deliveries t ty x evs s <= addr_deliveries t ty x evs s.
Proof.
  induction evs as [|ev r IH]; intros s Hr He; [cbn; lia|].
  change (run_events (ev :: r) s) with (run_events r (step s ev)) in He.
  pose proof (err_false_run_head r s ev He) as He1.
  unfold addr_deliveries in *. cbn [deliveries gdeliveries]. fold (addr_delivers t ty x s ev).
  specialize (IH (step s ev) (ProofsSup.reachable_step s ev Hr He1) He).
  destruct (delivers t ty x s ev) eqn:E; [rewrite (delivers_addr _ _ _ _ _ Hr E)|]; cbn [b2n]; lia.
Qed.

(** (2), by landing: while [x] has no entry under [ty], what thread [t] puts into [x]'s mailbox as events of type
    [ty] is bounded by the snapshots naming [x] that [t] had already taken *)
Lemma unsub_bound t ty x evs s :
  reachable s -> err (run_events evs s) = false -> unsub_along ty x evs s ->
  deliveries t ty x evs s + inflight t ty x (run_events evs s) <= inflight t ty x s.
Proof.
  intros Hr He Hu. pose proof (deliveries_addr t ty x evs s Hr He). pose proof (unsub_bound_addr t ty x evs s He Hu). lia.
Qed.

(* ------------------------------------------------------------------ the phases of a range *)

Lemma handle_busy s a : wf s -> pend_of s (TA a) <> [] -> err (step s (EvHandle a)) = true.
Proof.
  intros [W _] Hp. cbn [step]. cbn [pend_of] in Hp. destruct (get s a) as [x|] eqn:Hg; [|reflexivity].
  pose proof (Forall_nth _ _ _ _ W Hg) as [E|(md & l & Hc & _)]; [contradiction|]. rewrite Hc. reflexivity.
Qed.

Lemma enq_done_phase_step s t i rest ev :
  yielding i = true -> wf s -> err (step s ev) = false -> pend_of s t = IEnqDone :: i :: rest ->
  (pend_of (step s ev) t = IEnqDone :: i :: rest /\ is_push_of t ev = false) \/
  (ev = EvEnqDone t /\ pend_of (step s ev) t = i :: rest).
Proof.
  intros Hy W He Hp. destruct FUEL_S as [fu Hfu].
  destruct (ProofsSup.tid_eq_dec (ev_thread ev) t) as [Et|Nt].
  2:{ left. rewrite (step_pend_frame _ _ _ Nt). split; [exact Hp|]. destruct ev; try reflexivity. cbn [ev_thread] in Nt. cbn [is_push_of]. apply tid_eqb_neq. exact Nt. }
  destruct ev as [a|a|a|a|t' k|t'|t'|t'|t'|j]; cbn [ev_thread] in Et; subst t.
  - destruct (consumer_pend_frame s a (TA a)) as (E & _ & _). rewrite E. auto.
  - destruct (consumer_pend_frame s a (TA a)) as (_ & E & _). rewrite E. auto.
  - destruct (consumer_pend_frame s a (TA a)) as (_ & _ & E). rewrite E. auto.
  - exfalso. rewrite (handle_busy s a W) in He; [discriminate|]. rewrite Hp. discriminate.
  - exfalso. cbn [step] in He. rewrite Hp in He. discriminate.
  - right. split; [reflexivity|]. cbn [step] in *. rewrite Hp in *.
    destruct (err (set_pend s t' (i :: rest))) eqn:E1; [rewrite (run_atomic_err _ _ _ E1) in He; discriminate|].
    pose proof (ProofsSup.pend_of_set_pend _ _ _ E1) as E2. rewrite Hfu. rewrite (ProofsSup.run_atomic_yield _ _ _ _ _ E2 Hy). exact E2.
  - exfalso; cbn [step] in He; rewrite Hp in He; discriminate.
  - exfalso; cbn [step] in He; rewrite Hp in He; discriminate.
  - exfalso; cbn [step] in He; rewrite Hp in He; discriminate.
  - left. cbn [step]. rewrite Hfu. rewrite (ProofsSup.run_atomic_yield _ _ _ _ _ Hp eq_refl). auto.
Qed.

Lemma enq_any_phase_step' s t sys tos sender m rest ev :
  wf s -> err (step s ev) = false -> pend_of s t = IEnqAny sys tos sender m :: rest ->
  (pend_of (step s ev) t = IEnqAny sys tos sender m :: rest /\ is_push_of t ev = false) \/
  exists k to, ev = EvPush t k /\ nth_error tos k = Some to /\
    pend_of (step s ev) t = IEnqDone :: match remove_nth k tos with [] => rest | _ :: _ => IEnqAny sys (remove_nth k tos) sender m :: rest end.
Proof.
  intros W He Hp.
  assert (Hh : forall a, t = TA a -> ev <> EvHandle a).
  { intros a -> ->. rewrite (handle_busy s a W) in He; [discriminate|]. rewrite Hp. discriminate. }
  destruct (enq_any_phase_step s t sys tos sender m rest ev Hh He Hp) as [E|H]; [|right; exact H].
  left. split; [exact E|]. destruct ev; try reflexivity. cbn [is_push_of]. destruct (tid_eqb t0 t) eqn:Et; [|reflexivity].
  apply tid_eqb_eq in Et. subst t0. destruct (step_IEnqAny s t choice sys tos sender m rest Hp He) as (to & _ & _ & E'). congruence.
Qed.

Lemma remove_nth_length {A} (l : list A) k x : nth_error l k = Some x -> length l = S (length (remove_nth k l)).
Proof.
  revert k. induction l as [|y l IH]; intros [|k] H; cbn in H; try discriminate.
  - reflexivity.
  - unfold remove_nth in *. change (skipn (S (S k)) (y :: l)) with (skipn (S k) l). cbn [firstn app length]. rewrite (IH k H). reflexivity.
Qed.

Lemma In_remove_nth {A} (l : list A) k y : In y (remove_nth k l) -> In y l.
Proof.
  unfold remove_nth. intros H. apply in_app_or in H. destruct H as [H|H]; [eapply firstn_in; exact H|].
  rewrite <- (firstn_skipn (S k) l). apply in_or_app. right. exact H.
Qed.

Lemma tpushes_app t evs1 : forall evs2 s, tpushes t (evs1 ++ evs2) s = tpushes t evs1 s ++ tpushes t evs2 (run_events evs1 s).
Proof.
  induction evs1 as [|ev r IH]; intros evs2 s; [reflexivity|].
  change (run_events (ev :: r) s) with (run_events r (step s ev)). cbn [app tpushes]. rewrite IH, app_assoc. reflexivity.
Qed.

Lemma npush_cons t ev r : npush t (ev :: r) = b2n (is_push_of t ev) + npush t r.
Proof. unfold npush. cbn [filter]. destruct (is_push_of t ev); reflexivity. Qed.

Definition ref_aid (r : rref) : aid := match r with RObj a => a | _ => 0 end.

(* ------------------------------------------------------------------ (3) the completed range *)

Section Fan.
  Variables (t : tid) (sys : bool) (sender : rref) (m : msg) (rest : list instr).
  Let env : envelope := {| e_sys := sys; e_sender := sender; e_msg := m |}.

  (** the range over [rem] is pending: about to insert, or between an insertion and the end of its Enqueue *)
  Definition in_range (s : state) (rem : list rref) : Prop :=
    rem <> [] /\ (pend_of s t = IEnqAny sys rem sender m :: rest \/ pend_of s t = IEnqDone :: IEnqAny sys rem sender m :: rest).

  Lemma fan_run evs : forall s rem,
    reachable s -> in_range s rem -> (forall to, In to rem -> exists y, to = RObj y) ->
    err (run_events evs s) = false -> length rem <= npush t evs ->
    exists evs1 evs2 order,
      evs = evs1 ++ evs2 /\ pick_order rem order /\ npush t evs1 = length rem /\
      tpushes t evs1 s = map (fun to => (ref_aid to, env)) order /\
      pend_of (run_events evs1 s) t = IEnqDone :: rest.
  Proof.
    induction evs as [|ev r IH]; intros s rem Hr (Hne & Hph) Hobj He Hlen.
    { exfalso. destruct rem; [congruence|cbn in Hlen; lia]. }
    change (run_events (ev :: r) s) with (run_events r (step s ev)) in He.
    pose proof (err_false_run_head r s ev He) as He1.
    pose proof (ProofsSup.reachable_step s ev Hr He1) as Hr'. pose proof (reachable_wf s Hr) as W.
    rewrite npush_cons in Hlen.
    assert (Hstay : forall (Hph' : in_range (step s ev) rem) (Hnp : is_push_of t ev = false),
      exists evs1 evs2 order, ev :: r = evs1 ++ evs2 /\ pick_order rem order /\ npush t evs1 = length rem /\
        tpushes t evs1 s = map (fun to => (ref_aid to, env)) order /\ pend_of (run_events evs1 s) t = IEnqDone :: rest).
    { intros Hph' Hnp. rewrite Hnp in Hlen. cbn [b2n plus] in Hlen.
      destruct (IH (step s ev) rem Hr' Hph' Hobj He Hlen) as (evs1 & evs2 & order & E & Hpo & Hn & Htp & Hpd).
      exists (ev :: evs1), evs2, order. split; [rewrite E; reflexivity|]. split; [exact Hpo|]. split; [rewrite npush_cons, Hnp; exact Hn|].
      split; [|exact Hpd]. cbn [tpushes]. rewrite <- Htp.
      destruct ev; try reflexivity. cbn [is_push_of] in Hnp. rewrite Hnp. reflexivity. }
    destruct Hph as [Hp|Hp].
    - destruct (enq_any_phase_step' s t sys rem sender m rest ev W He1 Hp) as [[E Hnp]|(k & to & -> & Hk & E)].
      + apply Hstay; [split; [exact Hne|left; exact E]|exact Hnp].
      + destruct (Hobj to (nth_error_In _ _ Hk)) as [y ->].
        destruct (push_any_get s t k sys rem sender m rest y Hp Hk He1) as [xy Hgy].
        assert (Hpush : push_of s t k = Some (y, env)).
        { unfold push_of. rewrite Hp, Hk. rewrite (landing_obj s y xy _ Hr Hgy). reflexivity. }
        pose proof (remove_nth_length rem k _ Hk) as Hl.
        destruct (remove_nth k rem) as [|r0 rem'] eqn:Er.
        * exists [EvPush t k], r, [RObj y]. split; [reflexivity|]. split; [eapply pick_cons; [exact Hk|rewrite Er; constructor]|].
          split; [rewrite npush_cons; cbn [is_push_of]; rewrite tid_eqb_refl, Hl; reflexivity|].
          split; [cbn [tpushes]; rewrite tid_eqb_refl, Hpush; reflexivity|exact E].
        * cbn [is_push_of] in Hlen. rewrite tid_eqb_refl in Hlen. cbn [b2n] in Hlen.
          assert (Hobj' : forall to, In to (r0 :: rem') -> exists y0, to = RObj y0).
          { intros to Hin. apply Hobj. apply (In_remove_nth rem k). rewrite Er. exact Hin. }
          assert (Hlen' : length (r0 :: rem') <= npush t r) by lia.
          destruct (IH (step s (EvPush t k)) (r0 :: rem') Hr' (conj ltac:(discriminate) (or_intror E)) Hobj' He Hlen')
            as (evs1 & evs2 & order & E' & Hpo & Hn & Htp & Hpd).
          exists (EvPush t k :: evs1), evs2, (RObj y :: order). split; [rewrite E'; reflexivity|].
          split; [eapply pick_cons; [exact Hk|rewrite Er; exact Hpo]|].
          split; [rewrite npush_cons; cbn [is_push_of]; rewrite tid_eqb_refl, Hn, Hl; reflexivity|].
          split; [|exact Hpd]. cbn [tpushes]. rewrite tid_eqb_refl, Hpush, Htp. reflexivity.
    - destruct (enq_done_phase_step s t (IEnqAny sys rem sender m) rest ev) as [[E Hnp]|[-> E]]; try assumption.
      { destruct rem; [congruence|reflexivity]. }
      + apply Hstay; [split; [exact Hne|right; exact E]|exact Hnp].
      + apply Hstay; [split; [exact Hne|left; exact E]|reflexivity].
  Qed.
End Fan.

(** (3): thread [t] holds the range over the contexts [l] (what Publish leaves for the snapshot [l]); over any
    continuation in which [t] performs at least [length l] queue insertions, its next [length l] insertions are
    exactly one copy of the envelope into the own mailbox of each context of [l], in some order, and then the range
    is exhausted (only the end of the last Enqueue remains) *)
Lemma fanout_completes t sys sender m rest l evs s :
  reachable s -> pend_of s t = IEnqAny sys (map RObj l) sender m :: rest -> l <> [] ->
  err (run_events evs s) = false -> length l <= npush t evs ->
  exists evs1 evs2 order,
    evs = evs1 ++ evs2 /\ Permutation l order /\ npush t evs1 = length l /\
    tpushes t evs1 s = map (fun a => (a, {| e_sys := sys; e_sender := sender; e_msg := m |})) order /\
    firstn (length l) (tpushes t evs s) = map (fun a => (a, {| e_sys := sys; e_sender := sender; e_msg := m |})) order /\
    pend_of (run_events evs1 s) t = IEnqDone :: rest.
Proof.
  intros Hr Hp Hne He Hlen.
  destruct (fan_run t sys sender m rest evs s (map RObj l) Hr) as (evs1 & evs2 & order & E & Hpo & Hn & Htp & Hpd).
  - split; [destruct l; [congruence|discriminate]|left; exact Hp].
  - intros to Hin. apply in_map_iff in Hin. destruct Hin as (y & <- & _). eauto.
  - exact He.
  - rewrite map_length. exact Hlen.
  - rewrite map_length in Hn. pose proof (pick_order_perm _ _ Hpo) as Hperm.
    destruct (Permutation_map_inv _ _ (Permutation_sym Hperm)) as (order' & Eo & Hp').
    exists evs1, evs2, order'. split; [exact E|]. split; [apply Permutation_sym; exact Hp'|]. split; [exact Hn|].
    assert (Htp' : tpushes t evs1 s = map (fun a => (a, {| e_sys := sys; e_sender := sender; e_msg := m |})) order').
    { rewrite Htp, Eo, map_map. reflexivity. }
    split; [exact Htp'|]. split; [|exact Hpd].
    rewrite E, tpushes_app, Htp'. rewrite firstn_app.
    assert (Hl : length (map (fun a => (a, {| e_sys := sys; e_sender := sender; e_msg := m |})) order') = length l).
    { rewrite map_length. symmetry. apply Permutation_length. apply Permutation_sym. exact Hp'. }
    rewrite <- Hl at 1. rewrite firstn_all, Hl, Nat.sub_diag. cbn [firstn]. apply app_nil_r.
Qed.
