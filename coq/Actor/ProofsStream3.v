(** C19, history level, part 2: where a fan-out insertion lands (always the addressed context's own mailbox), the
    completed fan-out of one publish under any interleaving (each snapshot entry exactly one insertion, nobody
    else), and the order of one publisher's events in a subscriber's user queue.
    Definitions: Actor/SpecStream.v. *)
From Coq Require Import List NArith ZArith Bool Permutation Lia Arith.
From Vivid Require Import Actor.Core Actor.CoreRun Actor.SpecSup Actor.ProofsSup Actor.ProofsStream.
From Vivid Require Import Actor.SpecMail Actor.ProofsMailBase Actor.ProofsMail Actor.ProofsMailInv Actor.ProofsMailWf
  Actor.ProofsMailAcct Actor.ProofsMailReg Actor.ProofsMailMicro Actor.ProofsMailMicro2 Actor.ProofsMailLife Actor.ProofsMailTree
  Actor.ProofsMailCover2.
From Vivid Require Import Actor.SpecStream Actor.ProofsStream2.
Import ListNotations.

(* ------------------------------------------------------------------ landing *)

(** a reference to a context object always resolves to that context's own mailbox: non-root contexts have their
    cache filled by ActorOf's first tell (ref_cache_reachable); the guard is never registered and is the only
    context with the empty path *)
Lemma resolve_obj s y xy :
  reachable s -> get s y = Some xy ->
  fst (resolve s (RObj y)) = MbActor y \/ (y = 0 /\ fst (resolve s (RObj y)) = MbRoot).
Proof.
  intros Hr Hg. cbn [resolve]. rewrite Hg.
  destruct (Nat.eq_dec y 0) as [->|Hne].
  - destruct (RInv_reachable s Hr) as ((x0 & Hg0 & _ & Hp0) & Rb & Rc & _). rewrite Hg in Hg0. inversion Hg0; subst x0.
    destruct (a_cache xy) as [z|] eqn:Hc.
    + left. cbn [fst]. destruct (reachable_route_ok s Hr) as [_ HC]. destruct (HC 0 xy z Hg Hc) as (xz & Hgz & Hpz).
      destruct (Nat.eq_dec z 0) as [->|Hz]; [reflexivity|]. exfalso. destruct (Rb z xz Hgz Hz) as [_ Hn]. apply Hn. congruence.
    + right. split; [reflexivity|]. rewrite Hp0, Rc. reflexivity.
  - left. rewrite (ref_cache_reachable s y xy Hr Hg Hne). reflexivity.
Qed.

Lemma lands_obj s y xy : reachable s -> get s y = Some xy -> lands s (RObj y) = Some y.
Proof. intros Hr Hg. unfold lands. destruct (resolve_obj s y xy Hr Hg) as [->|[-> ->]]; reflexivity. Qed.

Lemma lands_obj_inv s y x : reachable s -> lands s (RObj y) = Some x -> y = x.
Proof.
  intros Hr H. destruct (get s y) as [xy|] eqn:Hg.
  - rewrite (lands_obj s y xy Hr Hg) in H. congruence.
  - unfold lands in H. cbn [resolve] in H. rewrite Hg in H. discriminate H.
Qed.

Lemma landing_obj s y xy e : reachable s -> get s y = Some xy -> landing (fst (resolve s (RObj y))) e = (y, e).
Proof. intros Hr Hg. destruct (resolve_obj s y xy Hr Hg) as [->|[-> ->]]; reflexivity. Qed.

(** an error-free queue insertion through a context reference: the context exists *)
Lemma resolve_obj_err s y : get s y = None -> err (snd (resolve s (RObj y))) = true.
Proof. intros Hg. cbn [resolve]. rewrite Hg. reflexivity. Qed.

Lemma push_any_get s t k sys tos sender m rest y :
  pend_of s t = IEnqAny sys tos sender m :: rest -> nth_error tos k = Some (RObj y) -> err (step s (EvPush t k)) = false ->
  exists xy, get s y = Some xy.
Proof.
  intros Hp Hk He. destruct (get s y) as [xy|] eqn:Hg; [eauto|]. exfalso.
  cbn [step] in He. rewrite Hp, Hk in He. pose proof (resolve_obj_err s y Hg) as Hr.
  destruct (resolve s (RObj y)) as [mb s1]. cbn [snd] in Hr. rewrite deliver_eq in He.
  rewrite set_pend_err_mono in He; [discriminate|]. apply push_mb_fields. exact Hr.
Qed.

(** deliveries by landing are deliveries by address *)
Lemma delivers_addr t ty x s ev : reachable s -> delivers t ty x s ev = true -> addr_delivers t ty x s ev = true.
Proof.
  intros Hr H. unfold delivers in H. unfold addr_delivers, gdelivers.
  destruct (stream_push s ev) as [[[[t' ty'] pl] to]|] eqn:Hs; [|discriminate H].
  apply andb_true_iff in H. destruct H as [H1 H2]. rewrite H1. cbn [andb].
  destruct (stream_push_obj s ev t' ty' pl to Hr Hs) as [y ->].
  destruct (lands s (RObj y)) as [z|] eqn:Hl; [|discriminate H2]. apply Nat.eqb_eq in H2. subst z.
  rewrite (lands_obj_inv s y x Hr Hl). cbn [is_obj]. apply Nat.eqb_refl.
Qed.

Lemma deliveries_addr t ty x evs : forall s,
  reachable s -> err (run_events evs s) = false -> deliveries t ty x evs s <= addr_deliveries t ty x evs s.
Proof.
  induction evs as [|ev r IH]; intros s Hr He; [cbn; lia|].
  change (run_events (ev :: r) s) with (run_events r (step s ev)) in He.
  pose proof (err_false_run_head r s ev He) as He1.
  unfold addr_deliveries in *. cbn [deliveries gdeliveries]. fold (addr_delivers t ty x s ev).
  specialize (IH (step s ev) (ProofsSup.reachable_step s ev Hr He1) He).
  destruct (delivers t ty x s ev) eqn:E; [rewrite (delivers_addr _ _ _ _ _ Hr E)|]; cbn [b2n]; lia.
Qed.

(** (2), by landing: while [x] has no entry under [ty], what thread [t] puts into [x]'s mailbox as events of type
    [ty] is bounded by the snapshots naming [x] that [t] had already taken *)
Lemma unsub_bound t ty x evs s :
  reachable s -> err (run_events evs s) = false -> unsub_along ty x evs s ->
  deliveries t ty x evs s + inflight t ty x (run_events evs s) <= inflight t ty x s.
Proof.
  intros Hr He Hu. pose proof (deliveries_addr t ty x evs s Hr He). pose proof (unsub_bound_addr t ty x evs s He Hu). lia.
Qed.

(* ------------------------------------------------------------------ the phases of a range *)

Lemma handle_busy s a : wf s -> pend_of s (TA a) <> [] -> err (step s (EvHandle a)) = true.
Proof.
  intros [W _] Hp. cbn [step]. cbn [pend_of] in Hp. destruct (get s a) as [x|] eqn:Hg; [|reflexivity].
  pose proof (Forall_nth _ _ _ _ W Hg) as [E|(md & l & Hc & _)]; [contradiction|]. rewrite Hc. reflexivity.
Qed.

Lemma enq_done_phase_step s t i rest ev :
  yielding i = true -> wf s -> err (step s ev) = false -> pend_of s t = IEnqDone :: i :: rest ->
  (pend_of (step s ev) t = IEnqDone :: i :: rest /\ is_push_of t ev = false) \/
  (ev = EvEnqDone t /\ pend_of (step s ev) t = i :: rest).
Proof.
  intros Hy W He Hp. destruct FUEL_S as [fu Hfu].
  destruct (ProofsSup.tid_eq_dec (ev_thread ev) t) as [Et|Nt].
  2:{ left. rewrite (step_pend_frame _ _ _ Nt). split; [exact Hp|]. destruct ev; try reflexivity. cbn [ev_thread] in Nt. cbn [is_push_of]. apply tid_eqb_neq. exact Nt. }
  destruct ev as [a|a|a|a|t' k|t'|t'|t'|t'|j]; cbn [ev_thread] in Et; subst t.
  - destruct (consumer_pend_frame s a (TA a)) as (E & _ & _). rewrite E. auto.
  - destruct (consumer_pend_frame s a (TA a)) as (_ & E & _). rewrite E. auto.
  - destruct (consumer_pend_frame s a (TA a)) as (_ & _ & E). rewrite E. auto.
  - exfalso. rewrite (handle_busy s a W) in He; [discriminate|]. rewrite Hp. discriminate.
  - exfalso. cbn [step] in He. rewrite Hp in He. discriminate.
  - right. split; [reflexivity|]. cbn [step] in *. rewrite Hp in *.
    destruct (err (set_pend s t' (i :: rest))) eqn:E1; [rewrite (run_atomic_err _ _ _ E1) in He; discriminate|].
    pose proof (ProofsSup.pend_of_set_pend _ _ _ E1) as E2. rewrite Hfu. rewrite (ProofsSup.run_atomic_yield _ _ _ _ _ E2 Hy). exact E2.
  - exfalso; cbn [step] in He; rewrite Hp in He; discriminate.
  - exfalso; cbn [step] in He; rewrite Hp in He; discriminate.
  - exfalso; cbn [step] in He; rewrite Hp in He; discriminate.
  - left. cbn [step]. rewrite Hfu. rewrite (ProofsSup.run_atomic_yield _ _ _ _ _ Hp eq_refl). auto.
Qed.

Lemma enq_any_phase_step' s t sys tos sender m rest ev :
  wf s -> err (step s ev) = false -> pend_of s t = IEnqAny sys tos sender m :: rest ->
  (pend_of (step s ev) t = IEnqAny sys tos sender m :: rest /\ is_push_of t ev = false) \/
  exists k to, ev = EvPush t k /\ nth_error tos k = Some to /\
    pend_of (step s ev) t = IEnqDone :: match remove_nth k tos with [] => rest | _ :: _ => IEnqAny sys (remove_nth k tos) sender m :: rest end.
Proof.
  intros W He Hp.
  assert (Hh : forall a, t = TA a -> ev <> EvHandle a).
  { intros a -> ->. rewrite (handle_busy s a W) in He; [discriminate|]. rewrite Hp. discriminate. }
  destruct (enq_any_phase_step s t sys tos sender m rest ev Hh He Hp) as [E|H]; [|right; exact H].
  left. split; [exact E|]. destruct ev; try reflexivity. cbn [is_push_of]. destruct (tid_eqb t0 t) eqn:Et; [|reflexivity].
  apply tid_eqb_eq in Et. subst t0. destruct (step_IEnqAny s t choice sys tos sender m rest Hp He) as (to & _ & _ & E'). congruence.
Qed.

Lemma remove_nth_length {A} (l : list A) k x : nth_error l k = Some x -> length l = S (length (remove_nth k l)).
Proof.
  revert k. induction l as [|y l IH]; intros [|k] H; cbn in H; try discriminate.
  - reflexivity.
  - unfold remove_nth in *. change (skipn (S (S k)) (y :: l)) with (skipn (S k) l). cbn [firstn app length]. rewrite (IH k H). reflexivity.
Qed.

Lemma In_remove_nth {A} (l : list A) k y : In y (remove_nth k l) -> In y l.
Proof.
  unfold remove_nth. intros H. apply in_app_or in H. destruct H as [H|H]; [eapply firstn_in; exact H|].
  rewrite <- (firstn_skipn (S k) l). apply in_or_app. right. exact H.
Qed.

Lemma tpushes_app t evs1 : forall evs2 s, tpushes t (evs1 ++ evs2) s = tpushes t evs1 s ++ tpushes t evs2 (run_events evs1 s).
Proof.
  induction evs1 as [|ev r IH]; intros evs2 s; [reflexivity|].
  change (run_events (ev :: r) s) with (run_events r (step s ev)). cbn [app tpushes]. rewrite IH, app_assoc. reflexivity.
Qed.

Lemma npush_cons t ev r : npush t (ev :: r) = b2n (is_push_of t ev) + npush t r.
Proof. unfold npush. cbn [filter]. destruct (is_push_of t ev); reflexivity. Qed.

Definition ref_aid (r : rref) : aid := match r with RObj a => a | _ => 0 end.

(* ------------------------------------------------------------------ (3) the completed range *)

Section Fan.
  Variables (t : tid) (sys : bool) (sender : rref) (m : msg) (rest : list instr).
  Let env : envelope := {| e_sys := sys; e_sender := sender; e_msg := m |}.

  (** the range over [rem] is pending: about to insert, or between an insertion and the end of its Enqueue *)
  Definition in_range (s : state) (rem : list rref) : Prop :=
    rem <> [] /\ (pend_of s t = IEnqAny sys rem sender m :: rest \/ pend_of s t = IEnqDone :: IEnqAny sys rem sender m :: rest).

  Lemma fan_run evs : forall s rem,
    reachable s -> in_range s rem -> (forall to, In to rem -> exists y, to = RObj y) ->
    err (run_events evs s) = false -> length rem <= npush t evs ->
    exists evs1 evs2 order,
      evs = evs1 ++ evs2 /\ pick_order rem order /\ npush t evs1 = length rem /\
      tpushes t evs1 s = map (fun to => (ref_aid to, env)) order /\
      pend_of (run_events evs1 s) t = IEnqDone :: rest.
  Proof.
    induction evs as [|ev r IH]; intros s rem Hr (Hne & Hph) Hobj He Hlen.
    { exfalso. destruct rem; [congruence|cbn in Hlen; lia]. }
    change (run_events (ev :: r) s) with (run_events r (step s ev)) in He.
    pose proof (err_false_run_head r s ev He) as He1.
    pose proof (ProofsSup.reachable_step s ev Hr He1) as Hr'. pose proof (reachable_wf s Hr) as W.
    rewrite npush_cons in Hlen.
    assert (Hstay : forall (Hph' : in_range (step s ev) rem) (Hnp : is_push_of t ev = false),
      exists evs1 evs2 order, ev :: r = evs1 ++ evs2 /\ pick_order rem order /\ npush t evs1 = length rem /\
        tpushes t evs1 s = map (fun to => (ref_aid to, env)) order /\ pend_of (run_events evs1 s) t = IEnqDone :: rest).
    { intros Hph' Hnp. rewrite Hnp in Hlen. cbn [b2n plus] in Hlen.
      destruct (IH (step s ev) rem Hr' Hph' Hobj He Hlen) as (evs1 & evs2 & order & E & Hpo & Hn & Htp & Hpd).
      exists (ev :: evs1), evs2, order. split; [rewrite E; reflexivity|]. split; [exact Hpo|]. split; [rewrite npush_cons, Hnp; exact Hn|].
      split; [|exact Hpd]. cbn [tpushes]. rewrite <- Htp.
      destruct ev; try reflexivity. cbn [is_push_of] in Hnp. rewrite Hnp. reflexivity. }
    destruct Hph as [Hp|Hp].
    - destruct (enq_any_phase_step' s t sys rem sender m rest ev W He1 Hp) as [[E Hnp]|(k & to & -> & Hk & E)].
      + apply Hstay; [split; [exact Hne|left; exact E]|exact Hnp].
      + destruct (Hobj to (nth_error_In _ _ Hk)) as [y ->].
        destruct (push_any_get s t k sys rem sender m rest y Hp Hk He1) as [xy Hgy].
        assert (Hpush : push_of s t k = Some (y, env)).
        { unfold push_of. rewrite Hp, Hk. rewrite (landing_obj s y xy _ Hr Hgy). reflexivity. }
        pose proof (remove_nth_length rem k _ Hk) as Hl.
        destruct (remove_nth k rem) as [|r0 rem'] eqn:Er.
        * exists [EvPush t k], r, [RObj y]. split; [reflexivity|]. split; [eapply pick_cons; [exact Hk|rewrite Er; constructor]|].
          split; [rewrite npush_cons; cbn [is_push_of]; rewrite tid_eqb_refl, Hl; reflexivity|].
          split; [cbn [tpushes]; rewrite tid_eqb_refl, Hpush; reflexivity|exact E].
        * cbn [is_push_of] in Hlen. rewrite tid_eqb_refl in Hlen. cbn [b2n] in Hlen.
          assert (Hobj' : forall to, In to (r0 :: rem') -> exists y0, to = RObj y0).
          { intros to Hin. apply Hobj. apply (In_remove_nth rem k). rewrite Er. exact Hin. }
          assert (Hlen' : length (r0 :: rem') <= npush t r) by lia.
          assert (Hph' : in_range (step s (EvPush t k)) (r0 :: rem')) by (split; [discriminate|right; exact E]).
          destruct (IH (step s (EvPush t k)) (r0 :: rem') Hr' Hph' Hobj' He Hlen')
            as (evs1 & evs2 & order & E' & Hpo & Hn & Htp & Hpd).
          exists (EvPush t k :: evs1), evs2, (RObj y :: order). split; [rewrite E'; reflexivity|].
          split; [eapply pick_cons; [exact Hk|rewrite Er; exact Hpo]|].
          split; [rewrite npush_cons; cbn [is_push_of]; rewrite tid_eqb_refl, Hn, Hl; reflexivity|].
          split; [|exact Hpd]. cbn [tpushes]. rewrite tid_eqb_refl, Hpush, Htp. reflexivity.
    - destruct (enq_done_phase_step s t (IEnqAny sys rem sender m) rest ev) as [[E Hnp]|[-> E]]; try assumption.
      { destruct rem; [congruence|reflexivity]. }
      + apply Hstay; [split; [exact Hne|right; exact E]|exact Hnp].
      + apply Hstay; [split; [exact Hne|left; exact E]|reflexivity].
  Qed.
End Fan.

(** (3): thread [t] holds the range over the contexts [l] (what Publish leaves for the snapshot [l]); over any
    continuation in which [t] performs at least [length l] queue insertions, its next [length l] insertions are
    exactly one copy of the envelope into the own mailbox of each context of [l], in some order, and then the range
    is exhausted (only the end of the last Enqueue remains) *)
Lemma fanout_completes t sys sender m rest l evs s :
  reachable s -> pend_of s t = IEnqAny sys (map RObj l) sender m :: rest -> l <> [] ->
  err (run_events evs s) = false -> length l <= npush t evs ->
  exists evs1 evs2 order,
    evs = evs1 ++ evs2 /\ Permutation l order /\ npush t evs1 = length l /\
    tpushes t evs1 s = map (fun a => (a, {| e_sys := sys; e_sender := sender; e_msg := m |})) order /\
    firstn (length l) (tpushes t evs s) = map (fun a => (a, {| e_sys := sys; e_sender := sender; e_msg := m |})) order /\
    pend_of (run_events evs1 s) t = IEnqDone :: rest.
Proof.
  intros Hr Hp Hne He Hlen.
  destruct (fan_run t sys sender m rest evs s (map RObj l) Hr) as (evs1 & evs2 & order & E & Hpo & Hn & Htp & Hpd).
  - split; [destruct l; [congruence|discriminate]|left; exact Hp].
  - intros to Hin. apply in_map_iff in Hin. destruct Hin as (y & <- & _). eauto.
  - exact He.
  - rewrite map_length. exact Hlen.
  - rewrite map_length in Hn. pose proof (pick_order_perm _ _ Hpo) as Hperm.
    destruct (Permutation_map_inv _ _ (Permutation_sym Hperm)) as (order' & Eo & Hp').
    exists evs1, evs2, order'. split; [exact E|]. split; [exact Hp'|]. split; [exact Hn|].
    assert (Htp' : tpushes t evs1 s = map (fun a => (a, {| e_sys := sys; e_sender := sender; e_msg := m |})) order').
    { rewrite Htp, Eo, map_map. reflexivity. }
    split; [exact Htp'|]. split; [|exact Hpd].
    rewrite E, tpushes_app, Htp'. rewrite firstn_app.
    assert (Hl : length (map (fun a => (a, {| e_sys := sys; e_sender := sender; e_msg := m |})) order') = length l).
    { rewrite map_length. symmetry. apply Permutation_length. exact Hp'. }
    rewrite <- Hl at 1. rewrite firstn_all, Hl, Nat.sub_diag. cbn [firstn]. apply app_nil_r.
Qed.

(* ------------------------------------------------------------------ (4) one publisher's events in a subscriber's user queue *)

Lemma upushed_pushed_run a evs : forall s, map snd (upushed a evs s) = pushed_run a false evs s.
Proof.
  induction evs as [|ev r IH]; intros s; [reflexivity|]. cbn [upushed pushed_run]. rewrite map_app, IH. f_equal.
  unfold upushed1, pushed_to. destruct ev; try reflexivity. destruct (push_of s t choice) as [[tgt e]|]; [|reflexivity].
  destruct (Nat.eqb tgt a), (e_sys e); reflexivity.
Qed.

(** the user queue is FIFO: what the consumer has taken out, followed by what is still queued, is what was queued
    followed by what was inserted, in insertion order (ProofsMailInv.queue_run) *)
Lemma user_fifo a evs s :
  err (run_events evs s) = false ->
  popped_run a false evs s ++ uq_at (run_events evs s) a = uq_at s a ++ map snd (upushed a evs s).
Proof. intros He. rewrite upushed_pushed_run. exact (queue_run false a evs s He). Qed.

Lemma upushed_thread_filter t a evs : forall s,
  map snd (filter (fun q : tid * envelope => tid_eqb (fst q) t) (upushed a evs s)) =
  map snd (filter (fun p : aid * envelope => Nat.eqb (fst p) a && negb (e_sys (snd p))) (tpushes t evs s)).
Proof.
  induction evs as [|ev r IH]; intros s; [reflexivity|]. cbn [upushed tpushes]. rewrite !filter_app, !map_app, IH. f_equal.
  unfold upushed1. destruct ev; try reflexivity.
  destruct (tid_eqb t0 t) eqn:Et.
  - apply tid_eqb_eq in Et. subst t0. destruct (push_of s t choice) as [[tgt e]|]; [|reflexivity].
    cbn [filter fst snd]. destruct (Nat.eqb tgt a && negb (e_sys e)); [|reflexivity]. cbn [filter fst]. rewrite tid_eqb_refl. reflexivity.
  - destruct (push_of s t0 choice) as [[tgt e]|]; [|reflexivity].
    destruct (Nat.eqb tgt a && negb (e_sys e)); [|reflexivity]. cbn [filter fst]. rewrite Et. reflexivity.
Qed.

Lemma filter_map_none (env : envelope) a (l : list aid) :
  ~ In a l -> filter (fun p : aid * envelope => Nat.eqb (fst p) a && negb (e_sys (snd p))) (map (fun y => (y, env)) l) = [].
Proof.
  induction l as [|z l IH]; intros Hn; [reflexivity|]. cbn [map filter fst snd].
  destruct (Nat.eqb_spec z a) as [->|Nz]; [exfalso; apply Hn; left; reflexivity|]. cbn [andb]. apply IH. intros Hin. apply Hn. right. exact Hin.
Qed.

Lemma filter_map_once (env : envelope) a (l : list aid) :
  NoDup l -> In a l -> e_sys env = false ->
  filter (fun p : aid * envelope => Nat.eqb (fst p) a && negb (e_sys (snd p))) (map (fun y => (y, env)) l) = [(a, env)].
Proof.
  intros Hn Hin Hs. induction l as [|y l IH]; [destruct Hin|]. inversion Hn as [|y' l' Hy Hl]; subst. cbn [map filter fst snd]. rewrite Hs. cbn [negb].
  destruct (Nat.eqb_spec y a) as [->|Ne]; cbn [andb].
  - rewrite (filter_map_none env a l Hy). reflexivity.
  - destruct Hin as [E|Hin]; [congruence|]. apply IH; assumption.
Qed.

Lemma filter_hd_split {A} (P : A -> bool) (l : list A) x r :
  filter P l = x :: r -> exists l1 l2, l = l1 ++ x :: l2 /\ (forall y, In y l1 -> P y = false).
Proof.
  induction l as [|y l IH]; cbn [filter]; [discriminate|]. destruct (P y) eqn:E.
  - intros H. inversion H; subst. exists [], l. split; [reflexivity|intros z []].
  - intros H. destruct (IH H) as (l1 & l2 & -> & Hl). exists (y :: l1), l2. split; [reflexivity|].
    intros z [<-|Hz]; [exact E|apply Hl; exact Hz].
Qed.

(** (4), insertion order: a subscriber [a] of the snapshot gets this event as the FIRST thing the publishing thread
    puts into its user queue from now on - whatever the thread publishes (or tells) later is behind it *)
Lemma publisher_first t sender m rest l a evs s :
  reachable s -> pend_of s t = IEnqAny false (map RObj l) sender m :: rest -> NoDup l -> In a l ->
  err (run_events evs s) = false -> length l <= npush t evs ->
  exists l1 l2, upushed a evs s = l1 ++ (t, {| e_sys := false; e_sender := sender; e_msg := m |}) :: l2 /\
                (forall e, ~ In (t, e) l1).
Proof.
  intros Hr Hp Hn Hin He Hlen.
  assert (Hne : l <> []) by (intros ->; destruct Hin).
  destruct (fanout_completes t false sender m rest l evs s Hr Hp Hne He Hlen) as (evs1 & evs2 & order & E & Hperm & _ & Htp & _ & _).
  set (env := {| e_sys := false; e_sender := sender; e_msg := m |}) in *.
  pose proof (upushed_thread_filter t a evs s) as Hf. rewrite E in Hf at 2. rewrite tpushes_app, Htp, filter_app in Hf.
  rewrite (filter_map_once env a order (Permutation_NoDup Hperm Hn) (Permutation_in a Hperm Hin) eq_refl) in Hf.
  cbn [app map snd] in Hf.
  destruct (filter (fun q : tid * envelope => tid_eqb (fst q) t) (upushed a evs s)) as [|[t' e'] fr] eqn:Ef; [discriminate Hf|].
  cbn [map snd] in Hf. inversion Hf; subst e'.
  assert (Ht : t' = t).
  { assert (Hi : In (t', env) (filter (fun q : tid * envelope => tid_eqb (fst q) t) (upushed a evs s))) by (rewrite Ef; left; reflexivity).
    apply filter_In in Hi. destruct Hi as [_ Hi]. apply tid_eqb_eq in Hi. exact Hi. }
  subst t'. destruct (filter_hd_split _ _ _ _ Ef) as (l1 & l2 & El & Hl1). exists l1, l2. split; [exact El|].
  intros e Hi. specialize (Hl1 _ Hi). cbn [fst] in Hl1. rewrite tid_eqb_refl in Hl1. discriminate.
Qed.

(* ------------------------------------------------------------------ the snapshot *)

(** Publish, inside the atomic loop: arriving at [IPub ty pl] with a non-empty table of [ty], the loop leaves the
    table as it is, puts the range over the current subscribers at the head of the thread's list and stops there
    (the queue insertion is a scheduling point): the state it stops in is "just published" *)
Lemma publish_snapshot f s t ty pl rest x :
  pend_of s t = IPub ty pl :: rest -> get s (self_of t) = Some x -> subscribers s ty <> [] ->
  err (run_atomic (S (S f)) s t) = false ->
  subs (run_atomic (S (S f)) s t) = subs s /\
  pend_of (run_atomic (S (S f)) s t) t = IEnqAny false (map (fun p => RObj (snd p)) (subscribers s ty)) root_ref (MEvent ty pl) :: rest /\
  just_published (run_atomic (S (S f)) s t) t ty pl rest.
Proof.
  intros Hp Hg Hne He.
  rewrite (run_atomic_exec _ _ _ _ _ Hp eq_refl eq_refl) in *. cbv zeta in *.
  assert (E : forall fu, (let (s1, front) := exec1 (set_pend s t rest) t (held_of (set_pend s t rest) t) (IPub ty pl) in
               run_atomic fu (set_pend s1 t (front ++ pend_of s1 t)) t) = run_atomic fu (astep s t (IPub ty pl) rest) t).
  { intros fu. unfold astep. destruct (exec1 _ _ _ _). reflexivity. }
  rewrite E in *. rewrite (astep_IPub s t ty pl rest x Hg) in *.
  destruct (subscribers s ty) as [|p0 l0] eqn:Hsub; [congruence|]. cbn [app] in *.
  assert (He0 : err (set_pend s t rest) = false).
  { destruct (err (set_pend s t rest)) eqn:E0; [|reflexivity]. exfalso.
    rewrite err_mono_run_atomic in He; [discriminate|]. apply set_pend_err_mono. exact E0. }
  rewrite (pend_of_set_pend_ok _ _ _ He0) in *.
  match type of He with err (run_atomic _ ?s2 _) = false => set (s2' := s2) in * end.
  assert (He2 : err s2' = false) by (destruct (err s2') eqn:E2; [rewrite (err_mono_run_atomic _ _ _ E2) in He; discriminate|reflexivity]).
  pose proof (pend_of_set_pend_ok _ _ _ He2) as Hp2. fold s2' in Hp2.
  rewrite (ProofsMailBase.run_atomic_yield f s2' t _ _ Hp2 eq_refl).
  assert (Hs2 : subs s2' = subs s) by (unfold s2'; rewrite !set_pend_subs; reflexivity).
  split; [exact Hs2|]. split; [exact Hp2|].
  unfold just_published, subscribers. rewrite Hs2. fold (subscribers s ty). rewrite Hsub. split; [discriminate|exact Hp2].
Qed.
