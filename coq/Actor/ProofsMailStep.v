(** Closed forms of one atomic step ([astep], Actor/ProofsMailMicro.v) of an actor's handler for the lifecycle
    instructions and for ActorOf, and of the generic shape of a plain step. *)
From Coq Require Import List NArith ZArith Bool Lia Arith.
From Vivid Require Import Actor.Core Actor.CoreRun Actor.SpecMail Actor.ProofsMailBase Actor.ProofsMail Actor.ProofsMailInv
  Actor.ProofsMailWf Actor.ProofsMailAcct Actor.ProofsMailMicro Actor.ProofsMailLife.
Import ListNotations.

Section AstepTA.
  Variables (s : state) (a : aid) (x : actor) (rest : list instr).
  Hypothesis Hg : get s a = Some x.

  Let Hl : a < length (actors s). Proof. eapply nth_error_lt; exact Hg. Qed.

  (** generic: run exec1 on the state whose pending list has been popped *)
  Lemma astep_TA_unfold i :
    astep s (TA a) i rest =
    (let s0 := set_actor s a (upd_pend x rest) in
     let r := exec1 s0 (TA a) [] i in
     set_pend (fst r) (TA a) (snd r ++ pend_of (fst r) (TA a))).
  Proof. unfold astep. rewrite (set_pend_TA _ _ _ _ Hg). cbv zeta. change (held_of _ (TA a)) with (@nil aid). destruct (exec1 _ _ _ _). reflexivity. Qed.

  Let s0 := set_actor s a (upd_pend x rest).
  Let Hg0 : get s0 a = Some (upd_pend x rest). Proof. apply get_set_same; exact Hl. Qed.

  Lemma astep_dokill p :
    astep s (TA a) (IDoKill p) rest =
    set_actor s a (upd_pend x (((match a_children x with
                                 | [] => []
                                 | l => [IEnqAny (negb p) (map (fun q => RObj (snd q)) l) (RObj a) (MKill (RObj a) p)]
                                 end)
                                ++ [IBeh (match a_cur x with Some e => e_msg e | None => MKill RNone p end) (sp_kill (a_spec x)) RecLog;
                                    IOnKilled (RObj a)]) ++ rest)).
  Proof.
    rewrite astep_TA_unfold. cbv zeta. fold s0. rewrite (exec1_dokill s0 (TA a) [] _ p Hg0). cbn [fst snd self_of].
    rewrite (pend_of_TA _ _ _ Hg0), (set_pend_TA _ _ _ _ Hg0). unfold s0. rewrite set_actor_twice. reflexivity.
  Qed.

  Lemma astep_onkilled_zombie who :
    a_zombie x = true ->
    astep s (TA a) (IOnKilled who) rest = set_actor s a (upd_pend x ([ICleanup; IUnzombie] ++ rest)).
  Proof.
    intros Hz. rewrite astep_TA_unfold. cbv zeta. fold s0.
    rewrite (exec1_onkilled_zombie s0 (TA a) [] _ who Hg0 Hz). cbn [fst snd].
    rewrite (pend_of_TA _ _ _ Hg0), (set_pend_TA _ _ _ _ Hg0). unfold s0. rewrite set_actor_twice. reflexivity.
  Qed.

  Lemma astep_onkilled_self who :
    a_zombie x = false -> ref_eq s0 who (RObj a) = true ->
    astep s (TA a) (IOnKilled who) rest = set_actor s a (upd_pend x ([ICheckMark] ++ rest)).
  Proof.
    intros Hz Hr. rewrite astep_TA_unfold. cbv zeta. fold s0.
    unfold exec1. cbn [self_of]. rewrite Hg0. cbn [a_zombie upd_pend]. rewrite Hz, Hr. cbn [fst snd].
    rewrite (pend_of_TA _ _ _ Hg0), (set_pend_TA _ _ _ _ Hg0). unfold s0. rewrite set_actor_twice. reflexivity.
  Qed.

  (** the children entry removed by a child's OnKilled: only the entry of that very context *)
  Definition drop_child (who : rref) : list (path * aid) :=
    match who with
    | RObj c => match ref_path s0 who with
                | Some p => match alookup (a_children x) p with
                            | Some c' => if Nat.eqb c c' then aremove (a_children x) p else a_children x
                            | None => a_children x
                            end
                | None => a_children x
                end
    | _ => a_children x
    end.

  Lemma astep_onkilled_other who :
    a_zombie x = false -> ref_eq s0 who (RObj a) = false ->
    astep s (TA a) (IOnKilled who) rest =
    set_actor s a (upd_pend (set_children x (drop_child who))
                            ([IBeh (MKilled who) (sp_killed (a_spec x)) (RecKilled who); ICheckMark] ++ rest)).
  Proof.
    intros Hz Hr. rewrite astep_TA_unfold. cbv zeta. fold s0.
    unfold exec1. cbn [self_of]. rewrite Hg0. cbn [a_zombie upd_pend]. rewrite Hz, Hr. cbn [fst snd].
    assert (Hl0 : a < length (actors s0)) by (unfold s0; cbn; rewrite upd_length; exact Hl).
    rewrite (pend_of_TA _ _ _ (get_set_same _ _ _ Hl0)), (set_pend_TA _ _ _ _ (get_set_same _ _ _ Hl0)).
    unfold s0 at 1 2. rewrite !set_actor_twice. f_equal. unfold drop_child.
    destruct who as [c| |]; try reflexivity. destruct (ref_path s0 (RObj c)); [|reflexivity].
    cbn [a_children upd_pend]. destruct (alookup (a_children x) l) as [c'|]; [|reflexivity]. destruct (Nat.eqb c c'); reflexivity.
  Qed.

  Lemma astep_checkmark_idle :
    (a_children x <> [] \/ a_state x <> Killing) ->
    astep s (TA a) ICheckMark rest = set_actor s a (upd_pend x rest).
  Proof.
    intros H. rewrite astep_TA_unfold. cbv zeta. fold s0.
    unfold exec1. cbn [self_of]. rewrite Hg0. cbn [a_children a_state upd_pend].
    assert (E : (match a_children x, a_state x with
                 | [], Killing => true | _, _ => false end) = false).
    { destruct (a_children x), (a_state x); try reflexivity; destruct H; congruence. }
    destruct (a_children x); [destruct (a_state x); try discriminate E|]; cbn [fst snd app];
      rewrite (pend_of_TA _ _ _ Hg0), (set_pend_TA _ _ _ _ Hg0); unfold s0; rewrite set_actor_twice; reflexivity.
  Qed.

  Definition marked : actor :=
    let x1 := set_state x Killed in
    set_mb x1 (a_sq x1) (a_uq x1) (a_paused x1) (a_cons x1)
      (Some {| e_sys := true; e_sender := match a_cur x with Some e0 => e_sender e0 | None => RNone end; e_msg := MKilled (RObj a) |}).

  Lemma astep_checkmark_kill :
    a_children x = [] -> a_state x = Killing ->
    astep s (TA a) ICheckMark rest =
    set_actor s a (upd_pend marked ([IBeh (MKilled (RObj a)) (sp_killed (a_spec x)) RecLog;
                                     match a_restarting x with None => ICleanup | Some _ => IRestartFinish end] ++ rest)).
  Proof.
    intros Hc Hs. rewrite astep_TA_unfold. cbv zeta. fold s0.
    unfold exec1. cbn [self_of]. rewrite Hg0. cbn [a_children a_state upd_pend]. rewrite Hc, Hs. cbn [fst snd].
    assert (Hl0 : a < length (actors s0)) by (unfold s0; cbn; rewrite upd_length; exact Hl).
    rewrite (pend_of_TA _ _ _ (get_set_same _ _ _ Hl0)), (set_pend_TA _ _ _ _ (get_set_same _ _ _ Hl0)).
    unfold s0. rewrite !set_actor_twice. unfold marked. cbn [a_restarting upd_pend a_spec a_cur].
    destruct (a_restarting x); reflexivity.
  Qed.

  Lemma astep_cleanup :
    astep s (TA a) ICleanup rest =
    set_actor (set_reg (set_subs s (unsub_all (subs s) (a_path x))) (aremove (reg s) (a_path x))) a
              (upd_pend x ((cleanup_sends a x ++ [IPub evKilled (actor_key x); IResume1]) ++ rest)).
  Proof.
    rewrite astep_TA_unfold. cbv zeta. fold s0.
    rewrite (exec1_cleanup s0 (TA a) [] _ Hg0). cbn [fst snd self_of].
    match goal with |- set_pend ?s1 _ _ = _ => assert (Hg1 : get s1 a = Some (upd_pend x rest)) by exact Hg0 end.
    rewrite (pend_of_TA _ _ _ Hg1), (set_pend_TA _ _ _ _ Hg1).
    unfold set_actor, set_reg, set_subs, s0. cbn. rewrite upd_upd. reflexivity.
  Qed.

  Lemma astep_unzombie :
    astep s (TA a) IUnzombie rest = set_actor s a (upd_pend (set_zombie x false) rest).
  Proof.
    rewrite astep_TA_unfold. cbv zeta. fold s0.
    rewrite (exec1_unzombie s0 (TA a) [] _ Hg0). cbn [fst snd self_of].
    assert (Hl0 : a < length (actors s0)) by (unfold s0; cbn; rewrite upd_length; exact Hl).
    rewrite (pend_of_TA _ _ _ (get_set_same _ _ _ Hl0)), (set_pend_TA _ _ _ _ (get_set_same _ _ _ Hl0)).
    unfold s0. rewrite !set_actor_twice. reflexivity.
  Qed.

  (** the record after a completed restart *)
  Definition restarted : actor :=
    let x1 := if sp_provider (a_spec x) then set_inst x (a_inst x + 1)%N else x in
    let x3 := set_hooks (set_modes x1 [0%N]) (match a_hooks x with _ :: r => r | [] => [] end) in
    let x4 := set_state (set_restarting x3 None) Running in
    set_mb x4 (a_sq x4) (a_uq x4) (a_paused x4) (CBusy 0%N) (Some {| e_sys := true; e_sender := rref_parent x; e_msg := MLaunch |}).
  Definition zombied : actor :=
    let x1 := if sp_provider (a_spec x) then set_inst x (a_inst x + 1)%N else x in
    set_zombie (set_hooks (set_modes x1 [0%N]) (match a_hooks x with _ :: r => r | [] => [] end)) true.

  Lemma astep_restart_ok :
    restart_ok x = true ->
    astep s (TA a) IRestartFinish rest =
    set_actor s a (upd_pend restarted
      ([IResume1; IPub evRestarted (actor_key x); IPub evResumed (actor_key x);
        IBeh MLaunch (sp_launch (a_spec x)) RecFail; IPub evLaunched (actor_key x)] ++ rest)).
  Proof.
    intros Hok. rewrite astep_TA_unfold. cbv zeta. fold s0.
    unfold exec1. cbn [self_of]. rewrite Hg0. unfold restart_ok in Hok. cbn [a_hooks a_spec upd_pend].
    assert (Hl0 : a < length (actors s0)) by (unfold s0; cbn; rewrite upd_length; exact Hl).
    destruct (a_hooks x) as [|[[h1 h2] h3] hs] eqn:Hh; [|rewrite Hok]; cbn [fst snd];
      rewrite (pend_of_TA _ _ _ (get_set_same _ _ _ Hl0)), (set_pend_TA _ _ _ _ (get_set_same _ _ _ Hl0));
      unfold s0; rewrite !set_actor_twice; unfold restarted; rewrite Hh;
      destruct (sp_provider (a_spec x)); reflexivity.
  Qed.

  Lemma astep_restart_fail :
    restart_ok x = false ->
    astep s (TA a) IRestartFinish rest = set_actor s a (upd_pend zombied ([IResume1] ++ rest)).
  Proof.
    intros Hok. rewrite astep_TA_unfold. cbv zeta. fold s0.
    unfold exec1. cbn [self_of]. rewrite Hg0. unfold restart_ok in Hok. cbn [a_hooks a_spec upd_pend].
    assert (Hl0 : a < length (actors s0)) by (unfold s0; cbn; rewrite upd_length; exact Hl).
    destruct (a_hooks x) as [|[[h1 h2] h3] hs] eqn:Hh; [discriminate Hok|]. rewrite Hok. cbn [fst snd].
    rewrite (pend_of_TA _ _ _ (get_set_same _ _ _ Hl0)), (set_pend_TA _ _ _ _ (get_set_same _ _ _ Hl0)).
    unfold s0. rewrite !set_actor_twice. unfold zombied. rewrite Hh.
    destruct (sp_provider (a_spec x)); reflexivity.
  Qed.
End AstepTA.

(** reference paths and reference equality only depend on the (immutable) paths of the records *)
Lemma ref_path_set_actor s a x y r : get s a = Some x -> a_path y = a_path x -> ref_path (set_actor s a y) r = ref_path s r.
Proof.
  intros Hg Hp. destruct r as [b|p|]; try reflexivity. cbn [ref_path].
  destruct (Nat.eq_dec a b) as [<-|Hne]; [rewrite (get_set_same' _ _ _ _ Hg), Hg, Hp; reflexivity|rewrite get_set_other by exact Hne; reflexivity].
Qed.
Lemma ref_eq_set_actor s a x y r1 r2 : get s a = Some x -> a_path y = a_path x -> ref_eq (set_actor s a y) r1 r2 = ref_eq s r1 r2.
Proof. intros Hg Hp. unfold ref_eq. rewrite !(ref_path_set_actor s a x y _ Hg Hp). reflexivity. Qed.

(** ActorOf by an actor's handler: the three refusals leave the tables alone; success appends the new record,
    registers it and enters it in the parent's children map *)
Section SpawnTA.
  Variables (s : state) (a : aid) (x : actor) (rest : list instr) (sp : spec).
  Hypothesis Hg : get s a = Some x.
  Let p := a_path x ++ [sp_name sp].
  Let c := length (actors s).
  Let g := match alookup (gens s) p with Some g => g | None => 0%N end.

  Definition spawn_ok : bool :=
    match a_state x with Killed => false | _ => sp_prelaunch sp && match alookup (reg s) p with Some _ => false | None => true end end.

  Lemma astep_spawn_refused :
    spawn_ok = false ->
    exists o, astep s (TA a) (IAct (ASpawn sp)) rest = add_obs (set_actor s a (upd_pend x rest)) o.
  Proof.
    intros Hno. rewrite (astep_TA_unfold s a x rest Hg). cbv zeta.
    assert (Hl : a < length (actors s)) by (eapply nth_error_lt; exact Hg).
    set (s0 := set_actor s a (upd_pend x rest)).
    assert (Hg0 : get s0 a = Some (upd_pend x rest)) by (apply get_set_same; exact Hl).
    unfold exec1. cbn [self_of]. rewrite Hg0. cbn [a_state a_path upd_pend]. unfold spawn_ok in Hno. fold p.
    replace (reg s0) with (reg s) by reflexivity.
    assert (Hfin : forall o, set_pend (add_obs s0 o) (TA a) ([] ++ pend_of (add_obs s0 o) (TA a)) = add_obs (set_actor s a (upd_pend x rest)) o).
    { intros o. assert (Hgo : get (add_obs s0 o) a = Some (upd_pend x rest)) by exact Hg0.
      rewrite (pend_of_TA _ _ _ Hgo), (set_pend_TA _ _ _ _ Hgo). unfold s0, add_obs, set_actor. cbn. rewrite upd_upd. reflexivity. }
    destruct (a_state x); try (eexists; apply Hfin);
      (destruct (sp_prelaunch sp); cbn [negb andb] in *; [|eexists; apply Hfin]);
      (destruct (alookup (reg s) p); [eexists; apply Hfin|discriminate Hno]).
  Qed.

  Definition spawn_front : list instr :=
    [IEnq true (RObj c) (RObj a) MLaunch; IEnqDone; IPub evSpawned (p ++ [g])]
    ++ (match a_state x with Killing => [IEnq true (RObj c) (RObj a) (MKill (RObj a) false); IEnqDone] | _ => [] end)
    ++ [IObs (OSpawn a (sp_name sp) 0)].

  Lemma astep_spawn_ok :
    spawn_ok = true ->
    let s' := astep s (TA a) (IAct (ASpawn sp)) rest in
    actors s' = upd (actors s) a (upd_pend (set_children x (aset (a_children x) p c)) (spawn_front ++ rest)) ++ [new_actor p g (Some a) sp] /\
    reg s' = reg s ++ [(p, c)] /\ exts s' = exts s /\ alookup (reg s) p = None /\ a_state x <> Killed.
  Proof.
    intros Hok. cbv zeta. rewrite (astep_TA_unfold s a x rest Hg). cbv zeta.
    assert (Hl : a < length (actors s)) by (eapply nth_error_lt; exact Hg).
    set (s0 := set_actor s a (upd_pend x rest)).
    assert (Hg0 : get s0 a = Some (upd_pend x rest)) by (apply get_set_same; exact Hl).
    assert (Hlen : length (actors s0) = c) by (unfold s0; cbn; apply upd_length).
    unfold exec1. cbn [self_of]. rewrite Hg0. cbn [a_state a_path upd_pend]. unfold spawn_ok in Hok. fold p.
    replace (reg s0) with (reg s) in * by reflexivity. replace (gens s0) with (gens s) by reflexivity.
    assert (Hst : a_state x <> Killed) by (destruct (a_state x); [discriminate|discriminate|discriminate Hok]).
    assert (Hpl : sp_prelaunch sp = true) by (destruct (a_state x), (sp_prelaunch sp); try reflexivity; discriminate Hok).
    assert (Hrg : alookup (reg s) p = None).
    { destruct (a_state x), (alookup (reg s) p); try reflexivity; try discriminate Hok; try (rewrite Hpl in Hok; discriminate Hok). }
    rewrite Hpl, Hrg. cbn [negb]. fold g. rewrite Hlen.
    assert (Hcore : forall stx, stx = a_state x -> stx <> Killed ->
      let s1 := with_actor
           {| actors := actors s0 ++ [new_actor p g (Some a) sp]; reg := reg s ++ [(p, c)]; gens := aset (gens s) p (g + 1)%N;
              subs := subs s0; exts := exts s0; olog := olog s0; ghost := ghost s0; err := err s0 |} a
           (fun x1 => set_children x1 (aset (a_children x1) p c)) in
      forall front, let s' := set_pend s1 (TA a) (front ++ pend_of s1 (TA a)) in
      actors s' = upd (actors s) a (upd_pend (set_children x (aset (a_children x) p c)) (front ++ rest)) ++ [new_actor p g (Some a) sp] /\
      reg s' = reg s ++ [(p, c)] /\ exts s' = exts s).
    { intros stx _ _. cbv zeta. intros front.
      match goal with |- context[with_actor ?sa _ _] =>
        assert (Hga : get sa a = Some (upd_pend x rest))
          by (unfold get; cbn [actors]; rewrite nth_error_app1 by (rewrite Hlen; exact Hl); exact Hg0);
        rewrite (with_actor_some _ _ _ _ Hga) end.
      match goal with |- context[set_pend ?sb _ _] =>
        assert (Hgb : get sb a = Some (set_children (upd_pend x rest) (aset (a_children (upd_pend x rest)) p c)))
          by (apply get_set_same; cbn [actors]; rewrite app_length, Hlen; lia) end.
      rewrite (pend_of_TA _ _ _ Hgb), (set_pend_TA _ _ _ _ Hgb). cbn [set_actor actors reg exts upd_pend set_children upd_local a_pend a_children].
      split; [|split; reflexivity].
      rewrite upd_upd. rewrite upd_app_l by (rewrite Hlen; exact Hl). unfold s0. cbn [set_actor actors]. rewrite upd_upd. reflexivity. }
    destruct (a_state x) eqn:Est; [| |congruence];
      (destruct (Hcore _ eq_refl ltac:(discriminate) (spawn_front)) as (A & B & C); unfold spawn_front in *; rewrite Est in *;
       cbn [fst snd] in *; repeat split; auto; try discriminate).
  Qed.
End SpawnTA.

(** * the actor table after one atomic step of any thread *)
Definition popped (t : tid) (x : actor) (rest : list instr) : actor := match t with TA _ => upd_pend x rest | TX _ => x end.
Definition pushed (t : tid) (y : actor) (l : list instr) : actor := match t with TA _ => upd_pend y l | TX _ => y end.

Lemma astep_table s t i rest x :
  get s (self_of t) = Some x -> pend_of s t = i :: rest ->
  let s0 := set_pend s t rest in
  let r := exec1 s0 t (held_of s0 t) i in
  get s0 (self_of t) = Some (popped t x rest) /\
  exists y news, local_upd i (popped t x rest) y /\ Forall is_new news /\
    actors (fst r) = upd (actors s0) (self_of t) y ++ news /\
    actors (astep s t i rest) = upd (actors s) (self_of t) (pushed t y (snd r ++ rest)) ++ news /\
    reg (astep s t i rest) = reg (fst r) /\ length (actors s0) = length (actors s) /\ reg s0 = reg s.
Proof.
  intros Hg Hp. cbv zeta.
  assert (Hl : self_of t < length (actors s)) by (eapply nth_error_lt; exact Hg).
  assert (Hg0 : get (set_pend s t rest) (self_of t) = Some (popped t x rest)).
  { destruct t as [a|j]; cbn [self_of popped] in *.
    - destruct (pend_of_TA_cons _ _ _ _ Hp) as (x0 & Hg0 & _). rewrite (set_pend_TA _ _ _ _ Hg). apply get_set_same. exact Hl.
    - unfold get. rewrite set_pend_TX_actors. exact Hg. }
  split; [exact Hg0|].
  set (s0 := set_pend s t rest) in *.
  assert (Hl0 : length (actors s0) = length (actors s)) by apply len_set_pend.
  assert (Ha0 : forall y, upd (actors s0) (self_of t) y = upd (actors s) (self_of t) y).
  { intros y. unfold s0. destruct t as [a|j]; cbn [self_of] in *.
    - rewrite (set_pend_TA _ _ _ _ Hg). cbn [set_actor actors]. apply upd_upd.
    - rewrite set_pend_TX_actors. reflexivity. }
  destruct (exec1_actors s0 t (held_of s0 t) i _ Hg0) as (y & news & Hy & Hnews & Ha).
  exists y, news. split; [exact Hy|]. split; [exact Hnews|]. split; [exact Ha|].
  unfold astep. fold s0. destruct (exec1 s0 t (held_of s0 t) i) as [s1 front] eqn:E. cbn [fst snd] in *.
  assert (Hg1 : get s1 (self_of t) = Some y).
  { unfold get. rewrite Ha. rewrite nth_error_app1 by (rewrite upd_length, Hl0; exact Hl). apply nth_upd_eq. rewrite Hl0. exact Hl. }
  split; [|split; [apply set_pend_reg|split; [exact Hl0|apply set_pend_reg]]].
  destruct t as [a|j]; cbn [self_of pushed] in *.
  - rewrite (pend_of_TA _ _ _ Hg1), (lu_pend _ _ _ Hy). cbn [popped upd_pend a_pend].
    rewrite (set_pend_TA _ _ _ _ Hg1). cbn [set_actor actors]. rewrite Ha, Ha0.
    rewrite upd_app_l by (rewrite upd_length; exact Hl). rewrite upd_upd. reflexivity.
  - rewrite set_pend_TX_actors, Ha, Ha0. reflexivity.
Qed.

(** records of other contexts are not touched at all by an atomic step *)
Lemma astep_other s t i rest x b :
  get s (self_of t) = Some x -> pend_of s t = i :: rest -> b <> self_of t -> b < length (actors s) ->
  get (astep s t i rest) b = get s b.
Proof.
  intros Hg Hp Hne Hlt. destruct (astep_table s t i rest x Hg Hp) as (_ & y & news & _ & _ & _ & Ha & _).
  unfold get. rewrite Ha. rewrite nth_error_app1 by (rewrite upd_length; exact Hlt). apply nth_upd_neq. congruence.
Qed.
