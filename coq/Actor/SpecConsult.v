(** Derived notions for the "consulted exactly once" clause of C08 over whole histories of the ActorCore model:
    the number of failure reports a supervisor has really handled along a run (its consultations), against the
    position of its decision maker.  Definitions only; proofs in Actor/ProofsConsult.v.

    In the model the decision maker of a supervisor is the list [sp_decisions] of its spec (what the scripted
    decision maker of the harness returns, call by call; an exhausted list answers Stop), and [a_decisions] is
    what is left of it. *)
From Coq Require Import List NArith ZArith Bool.
From Vivid Require Import Actor.Core Actor.CoreRun Actor.SpecMail Actor.SpecSup.
Import ListNotations.

Definition is_sup_msg (m : msg) : bool := match m with MSup _ => true | _ => false end.

(** does HandleEnvelop of record [x] on envelope [e] consult a configured strategy: [e] is a failure report, the
    context is not terminated ([dead_for]: HandleEnvelop's dead-letter test - a supervisor that is stopping or in the
    middle of its own restart still handles system messages, so it still supervises; so does a zombie), and a
    strategy is configured (without one the system default applies and no decision maker of this actor is asked) *)
Definition consulting (x : actor) (e : envelope) : bool :=
  is_sup_msg (e_msg e) && negb (dead_for x e) && negb (N.eqb (sp_strategy (a_spec x)) 0).

(** is event [ev] in state [s] a consultation of supervisor [a]'s strategy (1) or not (0) *)
Definition consult1 (s : state) (ev : event) (a : aid) : nat :=
  match ev with
  | EvHandle b =>
      if Nat.eqb b a then
        match get s a with
        | Some x => match a_cons x with CH e => if consulting x e then 1 else 0 | _ => 0 end
        | None => 0
        end
      else 0
  | _ => 0
  end.

(** consultations of [a] along a run *)
Fixpoint consults (a : aid) (evs : list event) (s : state) : nat :=
  match evs with [] => 0 | ev :: r => consult1 s ev a + consults a r (step s ev) end.

(** the k-th answer of a decision maker (an exhausted one answers Stop) *)
Definition kth_decision (x : actor) (k : nat) : decision := nth k (sp_decisions (a_spec x)) DStop.
