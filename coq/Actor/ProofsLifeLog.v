(** C05-b: in the observation log, the own OnKilled of an actor is followed (for that actor) by nothing
    but the OnLaunch of a restart. *)
From Coq Require Import List NArith ZArith Bool Lia.
From Vivid Require Import Base.Tm Actor.Core Actor.CoreRun Actor.SpecLife Actor.ProofsLife Actor.ProofsLifeInv Actor.ProofsLifeSum
  Actor.ProofsLifePhase Actor.ProofsLifeGen Actor.ProofsLifeTree.
Import ListNotations.
Local Open Scope N_scope.
#[local] Strategy 100 [run_atomic FUEL].

(* ------------------------------------------------------------------ the root has no parent, everybody else has one *)

Definition par (a : aid) (x : actor) : Prop := (a = 0%nat -> a_parent x = None) /\ (a <> 0%nat -> a_parent x <> None).

Lemma par_vsame a x y : vsame x y -> par a x -> par a y.
Proof. intros Hv HP. unfold par. destruct Hv as (_ & _ & -> & _). exact HP. Qed.
Lemma par_new a p n g pa sp : a <> 0%nat -> par a (new_actor (p ++ [n]) g (Some pa) sp).
Proof. intros Ha. split; [congruence|discriminate]. Qed.
Lemma par_root : par 0%nat (new_actor [] 0 None root_spec).
Proof. split; [reflexivity|congruence]. Qed.
Lemma par_exec_TA s a x i rest h s1 front x1 :
  INV a x -> a_pend x = i :: rest -> yielding i = false -> par a x ->
  get s a = Some (upd_pend x rest) -> exec1 s (TA a) h i = (s1, front) -> get s1 a = Some x1 -> par a x1.
Proof.
  intros _ _ _ HP Hg He Hg1.
  destruct (exec1_self _ _ _ _ _ _ _ He Hg) as (x' & Hg' & Hc & _). cbn [self_of] in Hg'. rewrite Hg1 in Hg'. inversion Hg'; subst x'.
  unfold par. destruct Hc as (_ & _ & -> & _). exact HP.
Qed.
Lemma par_exec_TX s k x i h s1 front x1 :
  sig i = false -> par 0%nat x -> get s 0%nat = Some x -> exec1 s (TX k) h i = (s1, front) -> get s1 0%nat = Some x1 -> par 0%nat x1.
Proof.
  intros _ HP Hg He Hg1.
  destruct (exec1_self _ _ _ _ _ _ _ He Hg) as (x' & Hg' & Hc & _). cbn [self_of] in Hg'. rewrite Hg1 in Hg'. inversion Hg'; subst x'.
  unfold par. destruct Hc as (_ & _ & -> & _). exact HP.
Qed.
Lemma par_dispatch s a x e s1 ins y :
  (a_zombie x = true -> a_state x = Killed) ->
  par a x -> get s a = Some x -> dispatch s a x e = (s1, ins) -> get s1 a = Some y -> par a y.
Proof.
  intros _ HP Hg Hd Hy.
  destruct (dispatch_frame _ _ _ _ _ _ Hg Hd) as (y' & Hact & _ & _ & _ & _ & _ & _ & _ & _ & Hpar & _).
  assert (Hy' : get s1 a = Some y') by (unfold get; rewrite Hact; apply (nth_error_upd_same _ _ _ _ Hg)).
  rewrite Hy in Hy'. inversion Hy'; subst y'. unfold par. rewrite Hpar. exact HP.
Qed.

Theorem parent_inv s a x : reachable s -> get s a = Some x -> par a x.
Proof.
  intros Hr. revert a x.
  apply (LQ_reachable par par_vsame par_new par_root par_exec_TA par_exec_TX par_dispatch s Hr).
Qed.

(* ------------------------------------------------------------------ what exec1 appends to the log *)

Lemma exec1_olog s t h i s' front x :
  exec1 s t h i = (s', front) -> get s (self_of t) = Some x ->
  olog s' = olog s \/
  (exists n r, is_spawn i = true /\ olog s' = olog s ++ [OSpawn (self_of t) n r]) \/
  (exists o, i = IObs o /\ olog s' = olog s ++ [o]) \/
  (exists m ac r pa md, i = IBeh m ac r /\ a_zombie x = false /\ a_parent x = Some pa /\
                        olog s' = olog s ++ [OSeen (self_of t) (a_inst x) md m]).
Proof.
  intros He Hg. destruct (is_spawn i) eqn:Hsp.
  - destruct i as [| | | | | | | | |ac| | | | | | | | | | | |]; try discriminate Hsp. destruct ac; try discriminate Hsp.
    destruct (a_state x) eqn:Hst.
    3:{ rewrite (exec1_spawn_parent_dead s t h sp x Hg Hst) in He. inversion He; subst. right. left. eexists _, _. split; reflexivity. }
    all: assert (Hnk : a_state x <> Killed) by congruence.
    all: destruct (sp_prelaunch sp) eqn:Hpl;
      [|rewrite (exec1_spawn_prelaunch_fail s t h sp x Hg Hnk Hpl) in He; inversion He; subst; right; left; eexists _, _; split; reflexivity].
    all: destruct (alookup (reg s) (a_path x ++ [sp_name sp])) as [c|] eqn:Hr;
      [rewrite (exec1_spawn_exists s t h sp x c Hg Hnk Hpl Hr) in He; inversion He; subst; right; left; eexists _, _; split; reflexivity|].
    all: destruct (exec1_spawn_ok s t h sp x s' front Hg Hnk Hpl Hr He) as (_ & _ & _ & _ & _ & _ & _ & Hol & _).
    all: left; exact Hol.
  - destruct (exec1_summary s t h i s' front x Hsp He Hg) as (x' & _ & _ & _ & _ & _ & _ & _ & _ & _ & _ & _ & _ & _ & Hol).
    destruct (chg_olog i) eqn:Hc; [|left; apply Hol; reflexivity].
    destruct i; try discriminate Hc.
    + (* IBeh *)
      destruct (a_zombie x) eqn:Hz.
      { rewrite (exec1_IBeh_zombie _ _ _ _ m acts r Hg Hz) in He. inversion He; subst. left; reflexivity. }
      destruct (a_parent x) as [pa|] eqn:Hpa.
      * right. right. right. exists m, acts, r, pa. eexists. split; [reflexivity|]. split; [reflexivity|]. split; [reflexivity|].
        pose proof (exec1_IBeh_logs _ _ h _ m acts r pa Hg Hz Hpa) as Hl. rewrite He in Hl. cbn [fst] in Hl. rewrite Hl. reflexivity.
      * unfold exec1 in He. rewrite Hg, Hz, Hpa in He. destruct m; try (inversion He; subst; left; reflexivity).
        destruct (ref_eq s who (RObj (self_of t))); inversion He; subst; left; reflexivity.
    + (* IObs *)
      right. right. left. exists o. split; [reflexivity|]. unfold exec1 in He. rewrite Hg in He. inversion He; subst. reflexivity.
Qed.

Lemma seen_of_app a l1 l2 : seen_of a (l1 ++ l2) = seen_of a l1 ++ seen_of a l2.
Proof.
  induction l1 as [|o l1 IH]; [reflexivity|]. cbn [app seen_of].
  destruct o; try exact IH. destruct (Nat.eqb who a); [cbn [app]; rewrite IH; reflexivity|exact IH].
Qed.

(* ------------------------------------------------------------------ the invariant *)

Definition ok_log (a : aid) (l : list obs) : Prop :=
  forall pre m post, seen_of a l = pre ++ MKilled (RObj a) :: m :: post -> m = MLaunch.

Definition last_is_own (a : aid) (l : list obs) : Prop := exists pre, seen_of a l = pre ++ [MKilled (RObj a)].

Definition no_beh (l : list instr) : bool := forallb (fun i => negb (is_beh i)) l.

(** where the actor is after its own OnKilled was shown to the behaviour: Killed and (zombie, or no behaviour
    call pending), or - after a successful restart - the next significant instruction is the OnLaunch call *)
Definition after_own (x : actor) : Prop :=
  (a_state x = Killed /\ (a_zombie x = true \/ no_beh (a_pend x) = true)) \/
  (a_zombie x = false /\ exists ac r, filter sig (a_pend x) = [IBeh MLaunch ac r; IEndHandler]).

Definition KQ (a : aid) (s : state) : Prop :=
  ok_log a (olog s) /\ (last_is_own a (olog s) -> exists x, get s a = Some x /\ after_own x).

Lemma after_own_lsame x y : lsame x y -> after_own x -> after_own y.
Proof.
  intros Hl. destruct Hl as (_ & _ & _ & _ & Hs & Hz & _ & _ & _ & _ & _ & _ & _ & _ & _ & _ & Hp).
  unfold after_own. rewrite Hs, Hz, Hp. auto.
Qed.

Lemma nonsig_beh i : sig i = false -> is_beh i = false.
Proof. unfold sig. intros H. repeat (apply orb_false_elim in H as [H ?]). auto. Qed.

Lemma no_beh_app l1 l2 : no_beh (l1 ++ l2) = no_beh l1 && no_beh l2.
Proof. apply forallb_app. Qed.

Lemma no_beh_nonsig l : (forall j, In j l -> sig j = false) -> no_beh l = true.
Proof. intros H. apply forallb_forall. intros j Hj. rewrite (nonsig_beh _ (H j Hj)). reflexivity. Qed.

(** popping a plain head, prepending plain instructions *)
Lemma after_own_pop x i rest front y :
  after_own x -> a_pend x = i :: rest -> sig i = false -> (forall j, In j front -> sig j = false) ->
  a_state y = a_state x -> a_zombie y = a_zombie x -> a_pend y = front ++ rest -> after_own y.
Proof.
  intros HA Hp Hs Hf E1 E2 E3. unfold after_own in *. rewrite E1, E2, E3. rewrite Hp in HA.
  destruct HA as [(H1 & H2)|(H1 & ac & r & H2)].
  - left. split; [exact H1|]. destruct H2 as [H2|H2]; [left; exact H2|right].
    rewrite no_beh_app, (no_beh_nonsig front Hf). cbn [no_beh forallb] in H2. apply andb_prop in H2 as [_ H2]. exact H2.
  - right. split; [exact H1|]. exists ac, r. rewrite (filter_app_none sig front rest Hf).
    cbn [filter] in H2. rewrite Hs in H2. exact H2.
Qed.

Lemma KQ_mb a s s' : mb_equiv s s' -> KQ a s -> KQ a s'.
Proof.
  intros (Hm & _ & _ & _ & _ & Hol) (H1 & H2). unfold KQ. rewrite Hol. split; [exact H1|].
  intros Hl. destruct (H2 Hl) as (x & Hg & Hx). specialize (Hm a). rewrite Hg in Hm.
  destruct (get s' a) as [y|]; [|contradiction]. exists y. split; [reflexivity|apply (after_own_lsame x y Hm Hx)].
Qed.

Lemma olog_set_pend s t p : olog (set_pend s t p) = olog s.
Proof.
  destruct t as [a|k]; cbn [set_pend]; [unfold with_actor; destruct (get s a); reflexivity|destruct (nth_error (exts s) k); reflexivity].
Qed.

Lemma KQ_pop a s t i rest front :
  SInv s -> KQ a s -> pend_of s t = i :: rest -> sig i = false -> (forall j, In j front -> sig j = false) ->
  KQ a (set_pend s t (front ++ rest)).
Proof.
  intros _ (H1 & H2) Hp Hs Hf. unfold KQ. rewrite olog_set_pend. split; [exact H1|].
  intros Hl. destruct (H2 Hl) as (x & Hg & Hx). destruct t as [b|k].
  - destruct (Nat.eq_dec b a) as [->|Hba].
    + exists (upd_pend x (front ++ rest)). split; [apply (get_set_pend_TA_same _ _ _ _ Hg)|].
      cbn [pend_of] in Hp. rewrite Hg in Hp. apply (after_own_pop x i rest front _ Hx Hp Hs Hf); reflexivity.
    + exists x. split; [rewrite get_set_pend_TA_other by exact Hba; exact Hg|exact Hx].
  - exists x. split; [rewrite get_set_pend_TX; exact Hg|exact Hx].
Qed.

Lemma KQ_cons a s b x sq uq pa co cu :
  SInv s -> KQ a s -> get s b = Some x -> is_busy (a_cons x) = false -> a_pend x = [] -> is_busy co = false ->
  cu = a_cur x -> KQ a (set_actor s b (set_mb x sq uq pa co cu)).
Proof.
  intros _ (H1 & H2) Hgb _ _ _ _. split; [exact H1|]. intros Hl. destruct (H2 Hl) as (y & Hg & Hy).
  destruct (Nat.eq_dec b a) as [->|Hba].
  - rewrite Hg in Hgb. inversion Hgb; subst y. eexists. split; [apply (get_set_actor_same _ _ _ _ Hg)|]. exact Hy.
  - exists y. split; [rewrite get_set_actor_other by exact Hba; exact Hg|exact Hy].
Qed.

Lemma no_beh_of_filter rest L : filter sig rest = L -> no_beh L = true -> no_beh rest = true.
Proof.
  intros <- H. apply forallb_forall. intros j Hj. destruct (is_beh j) eqn:Hb; [|reflexivity].
  unfold no_beh in H. rewrite forallb_forall in H. specialize (H j). rewrite Hb in H. apply H.
  apply filter_In. split; [exact Hj|]. unfold sig. rewrite Hb. destruct (life_src j), (is_unzombie j); reflexivity.
Qed.

Lemma KQ_handle a s b x e s1 ins :
  SInv s -> KQ a s -> err s = false -> get s b = Some x -> a_cons x = CH e -> a_pend x = [] ->
  let x0 := set_mb x (a_sq x) (a_uq x) (a_paused x) (CBusy (mode_top x)) (a_cur x) in
  dispatch (set_actor s b x0) b x0 e = (s1, ins) ->
  KQ a (set_pend s1 (TA b) ins).
Proof.
  intros _ (H1 & H2) _ Hg Hc Hpx x0 Hd.
  assert (Hg0 : get (set_actor s b x0) b = Some x0) by apply (get_set_actor_same _ _ _ _ Hg).
  destruct (dispatch_frame _ _ _ _ _ _ Hg0 Hd) as (y & Hact & _ & _ & _ & Hol & _).
  assert (Hg1 : get s1 b = Some y) by (unfold get; rewrite Hact; apply (nth_error_upd_same _ _ _ _ Hg0)).
  unfold KQ. rewrite olog_set_pend, Hol. change (olog (set_actor s b x0)) with (olog s). split; [exact H1|].
  intros Hl. destruct (H2 Hl) as (xa & Hga & Hxa).
  destruct (Nat.eq_dec b a) as [->|Hba].
  - rewrite Hga in Hg. inversion Hg; subst xa. exists (upd_pend y ins). split; [apply (get_set_pend_TA_same _ _ _ _ Hg1)|].
    destruct Hxa as [(K1 & K2)|(_ & ac & r & K2)]; [|rewrite Hpx in K2; discriminate K2].
    destruct (a_zombie x) eqn:Hz.
    + destruct (dispatch_state_children _ _ _ _ _ _ _ Hg0 Hd Hg1) as (_ & Hzy & Hsy).
      left. cbn [upd_pend a_state a_zombie]. split; [|left; rewrite Hzy; exact Hz].
      destruct Hsy as [->|[Hr _]]; [exact K1|]. cbn in Hr. congruence.
    + rewrite (dispatch_dead _ a x0 e K1 Hz) in Hd.
      destruct (a_parent x0); inversion Hd; subst s1 ins; clear Hd.
      * rewrite Hg0 in Hg1. inversion Hg1; subst y. left. split; [exact K1|]. right. reflexivity.
      * unfold get in Hg1, Hg0. cbn [actors add_ghost] in Hg1. rewrite Hg0 in Hg1. inversion Hg1; subst y.
        left. split; [exact K1|]. right. reflexivity.
  - exists xa. split; [|exact Hxa]. rewrite get_set_pend_TA_other by exact Hba.
    unfold get. rewrite Hact. rewrite nth_error_upd_other by exact Hba.
    fold (get (set_actor s b x0) a). rewrite get_set_actor_other by exact Hba. exact Hga.
Qed.

Lemma seen_of_snoc_other a l o :
  (forall i md m, o <> OSeen a i md m) -> seen_of a (l ++ [o]) = seen_of a l.
Proof.
  intros H. rewrite seen_of_app. cbn [seen_of]. destruct o; try apply app_nil_r.
  destruct (Nat.eqb who a) eqn:E; [|apply app_nil_r]. apply Nat.eqb_eq in E. subst who. exfalso. apply (H inst mode m). reflexivity.
Qed.

Lemma KQ_same_seen a s s' :
  seen_of a (olog s') = seen_of a (olog s) -> (forall x, get s a = Some x -> after_own x -> exists y, get s' a = Some y /\ after_own y) ->
  KQ a s -> KQ a s'.
Proof.
  intros Hs Hx (H1 & H2). unfold KQ, ok_log, last_is_own. rewrite Hs. split; [exact H1|].
  intros Hl. destruct (H2 Hl) as (x & Hg & Ha). apply (Hx x Hg Ha).
Qed.

Lemma snoc_cases {A} (l : list A) : l = [] \/ exists l' z, l = l' ++ [z].
Proof. destruct l using rev_ind; [left; reflexivity|right; eauto]. Qed.

(** the own thread *)
Lemma KQ_exec_self a s x i rest :
  a <> 0%nat -> SInv s -> KQ a s -> get s a = Some x -> a_pend x = i :: rest -> a_parent x <> None ->
  yielding i = false -> (forall sys to sender m, i <> IEnq sys to sender m) ->
  KQ a (astep s (TA a) i rest).
Proof.
  intros Ha0 [HA HX] HK Hg Hpx Hpar Hy Hne.
  pose proof (HA a x Hg) as HI.
  destruct (astep_TA s a i rest x Hg) as (s1 & front & x1 & He & Hg1 & Hp1 & ->). clear Hp1.
  assert (Hg0 : get (set_actor s a (upd_pend x rest)) (self_of (TA a)) = Some (upd_pend x rest)) by apply (get_set_actor_same _ _ _ _ Hg).
  destruct (INV_head _ _ _ _ HI Hpx) as (Hz & Hb & Hel & Hph).
  destruct (exec1_self _ _ _ _ _ _ _ He Hg0) as (x1' & Hg1' & Hc & _ & F1 & F2 & _).
  cbn [self_of] in Hg1'. rewrite Hg1 in Hg1'. inversion Hg1'; subst x1'. clear Hg1'.
  cbn [upd_pend a_state a_zombie] in F1, F2.
  assert (Hgr : get (set_actor s1 a (upd_pend x1 (front ++ rest))) a = Some (upd_pend x1 (front ++ rest)))
    by apply (get_set_actor_same _ _ _ _ Hg1).
  (* the log *)
  destruct (exec1_olog _ _ _ _ _ _ _ He Hg0) as [Hol|[(n & r & Hspw & Hol)|[(o & -> & Hol)|(m & ac & r & pa & md & -> & Hzf & Hpa & Hol)]]].
  4:{ (* the behaviour call is logged *)
    cbn [upd_pend a_zombie a_parent a_inst self_of] in Hzf, Hpa, Hol.
    specialize (F1 eq_refl). specialize (F2 eq_refl).
    pose proof (exec1_front_plain _ _ _ _ _ _ (eq_refl : gen_sig (IBeh m ac r) = false) He) as Hf.
    destruct HK as (K1 & K2).
    assert (Hseen : seen_of a (olog (set_actor s1 a (upd_pend x1 (front ++ rest)))) = seen_of a (olog s) ++ [m]).
    { change (olog (set_actor s1 a (upd_pend x1 (front ++ rest)))) with (olog s1). rewrite Hol.
      change (olog (set_actor s a (upd_pend x rest))) with (olog s). rewrite seen_of_app. cbn [seen_of]. rewrite Nat.eqb_refl. reflexivity. }
    unfold KQ, ok_log, last_is_own. rewrite Hseen. split.
    - intros pre m' post Heq. destruct (snoc_cases post) as [->|(post' & z & ->)].
      + change (pre ++ [MKilled (RObj a); m']) with (pre ++ [MKilled (RObj a)] ++ [m']) in Heq. rewrite app_assoc in Heq.
        apply app_inj_tail in Heq as [Hpre <-].
        destruct (K2 (ex_intro _ pre Hpre)) as (x' & Hg' & Hx'). rewrite Hg in Hg'. inversion Hg'; subst x'.
        destruct Hx' as [(_ & [Hzt|Hnb])|(_ & ac' & r' & Hfs)].
        * congruence.
        * rewrite Hpx in Hnb. discriminate Hnb.
        * rewrite Hpx in Hfs. cbn in Hfs. inversion Hfs. reflexivity.
      + change (pre ++ MKilled (RObj a) :: m' :: post' ++ [z]) with (pre ++ (MKilled (RObj a) :: m' :: post') ++ [z]) in Heq.
        rewrite app_assoc in Heq. apply app_inj_tail in Heq as [Hpre _]. apply (K1 pre m' post'). exact Hpre.
    - intros (pre & Heq). apply app_inj_tail in Heq as [_ ->]. rewrite Hgr. eexists. split; [reflexivity|].
      cbn [sig life_src is_unzombie is_beh orb] in Hph.
      left. cbn [upd_pend a_state a_zombie a_pend]. rewrite F1, F2.
      inversion Hph; subst; try (match goal with H : msg_own a (MKilled (RObj a)) = false |- _ => cbn in H; rewrite Nat.eqb_refl in H; discriminate H end).
      + split; [assumption|]. right. rewrite no_beh_app, (no_beh_nonsig front Hf). apply (no_beh_of_filter rest [ICleanup; IEndHandler]); [symmetry; assumption|reflexivity].
      + split; [assumption|]. right. rewrite no_beh_app, (no_beh_nonsig front Hf). apply (no_beh_of_filter rest [IRestartFinish; IEndHandler]); [symmetry; assumption|reflexivity]. }
  (* nothing is logged for [a] *)
  all: assert (Hseen : seen_of a (olog (set_actor s1 a (upd_pend x1 (front ++ rest)))) = seen_of a (olog s)).
  1:{ change (olog (set_actor s1 a (upd_pend x1 (front ++ rest)))) with (olog s1). rewrite Hol. reflexivity. }
  2:{ change (olog (set_actor s1 a (upd_pend x1 (front ++ rest)))) with (olog s1). rewrite Hol. apply seen_of_snoc_other. intros; discriminate. }
  3:{ change (olog (set_actor s1 a (upd_pend x1 (front ++ rest)))) with (olog s1). rewrite Hol. apply seen_of_snoc_other.
      intros i0 md m ->. cbn in Hph. inversion Hph. }
  all: apply (KQ_same_seen a s _ Hseen); [|exact HK]; clear Hseen.
  all: intros x' Hg' Hao; rewrite Hg in Hg'; inversion Hg'; subst x'; rewrite Hgr; eexists; split; [reflexivity|].
  2:{ (* ActorOf that logged: a plain instruction *)
      assert (Hs : sig i = false) by (destruct i; try discriminate Hspw; reflexivity).
      destruct (nonsig_chg _ Hs) as (Hgs & C1 & C2 & _).
      apply (after_own_pop x i rest front _ Hao Hpx Hs (exec1_front_plain _ _ _ _ _ _ Hgs He)); cbn; [rewrite (F1 C1)|rewrite (F2 C2)|]; reflexivity. }
  2:{ (* IObs *)
      cbn in Hph. destruct o; try (inversion Hph; fail).
      all: match type of He with exec1 _ _ _ ?ii = _ =>
        apply (after_own_pop x ii rest front _ Hao Hpx eq_refl (exec1_front_plain _ _ _ ii _ _ eq_refl He)); cbn; [rewrite (F1 eq_refl)|rewrite (F2 eq_refl)|]; reflexivity end. }
  (* no log at all *)
  destruct (sig i) eqn:Hs.
  2:{ destruct (nonsig_chg _ Hs) as (Hgs & C1 & C2 & _).
      apply (after_own_pop x i rest front _ Hao Hpx Hs (exec1_front_plain _ _ _ _ _ _ Hgs He)); cbn; [rewrite (F1 C1)|rewrite (F2 C2)|]; reflexivity. }
  unfold after_own in Hao. rewrite Hpx in Hao. unfold after_own. cbn [upd_pend a_state a_zombie a_pend].
  destruct Hao as [(K1 & [K2|K2])|(K1 & ac & r & K2)].
  - (* Killed zombie *)
    rewrite K1, K2 in Hph.
    destruct i; try discriminate Hs; try discriminate Hy; cbn in Hph;
      try (left; rewrite (F1 eq_refl), (F2 eq_refl); split; [exact K1|left; exact K2]; fail);
      try (inversion Hph; subst; discriminate; fail).
    + (* IUnzombie *)
      inversion Hph; subst.
      rewrite (exec1_IUnzombie _ _ _ _ Hg0) in He. inversion He; subst s1 front; clear He.
      rewrite (get_set_actor_same _ _ _ _ Hg0) in Hg1. inversion Hg1; subst x1; clear Hg1.
      left. split; [exact K1|]. right. cbn [app]. apply (no_beh_of_filter rest [IEndHandler]); [symmetry; assumption|reflexivity].
  - (* Killed, not a zombie, no behaviour call pending *)
    destruct (a_zombie x) eqn:Hzx.
    { (* zombie after all: as above *)
      rewrite K1 in Hph.
      destruct i; try discriminate Hs; try discriminate Hy; cbn in Hph; try discriminate K2;
        try (left; rewrite (F1 eq_refl), (F2 eq_refl); split; [exact K1|left; reflexivity]; fail);
        try (inversion Hph; subst; discriminate; fail).
      + inversion Hph; subst.
        rewrite (exec1_IUnzombie _ _ _ _ Hg0) in He. inversion He; subst s1 front; clear He.
        rewrite (get_set_actor_same _ _ _ _ Hg0) in Hg1. inversion Hg1; subst x1; clear Hg1.
        left. split; [exact K1|]. right. cbn [app]. apply (no_beh_of_filter rest [IEndHandler]); [symmetry; assumption|reflexivity]. }
    rewrite K1 in Hph. cbn [no_beh forallb] in K2. apply andb_prop in K2 as [K2 K2'].
    destruct i; try discriminate Hs; try discriminate Hy; try discriminate K2; cbn in Hph;
      try (inversion Hph; subst; discriminate; fail).
    + (* ICleanup *)
      left. rewrite (F1 eq_refl), (F2 eq_refl). split; [exact K1|]. right.
      rewrite no_beh_app, (no_beh_nonsig front (exec1_front_plain _ _ _ ICleanup _ _ eq_refl He)). exact K2'.
    + (* IRestartFinish *)
      inversion Hph; subst.
      destruct (hooks_ok (upd_pend x rest)) eqn:Hok.
      * destruct (exec1_restart_finish_ok _ _ [] _ Hg0 Hok) as (x' & He' & _ & _ & Hzz & _).
        rewrite He' in He. inversion He; subst s1 front; clear He.
        rewrite (get_set_actor_same _ _ _ _ Hg0) in Hg1. inversion Hg1; subst x1; clear Hg1.
        right. split; [rewrite Hzz; exact Hzx|]. eexists _, _. cbn [app filter sig life_src is_unzombie is_beh is_end is_obs_seen orb].
        match goal with H : [IEndHandler] = filter sig rest |- _ => rewrite <- H end. reflexivity.
      * destruct (exec1_restart_finish_fail _ _ [] _ Hg0 Hok) as (x' & He' & Hzz & Hst' & _).
        rewrite He' in He. inversion He; subst s1 front; clear He.
        rewrite (get_set_actor_same _ _ _ _ Hg0) in Hg1. inversion Hg1; subst x1; clear Hg1.
        left. split; [rewrite Hst'; exact K1|left; exact Hzz].
    + (* IEndHandler *)
      left. rewrite (F1 eq_refl). split; [exact K1|]. right.
      rewrite no_beh_app, (no_beh_nonsig front (exec1_front_plain _ _ _ IEndHandler _ _ eq_refl He)). exact K2'.
  - (* the OnLaunch call of the restart is next, but nothing was logged: impossible *)
    exfalso. cbn [filter] in K2. rewrite Hs in K2. inversion K2; subst i.
    destruct (a_parent x) as [pa|] eqn:Hpa; [|congruence].
    pose proof (exec1_IBeh_logs _ _ [] _ MLaunch ac r pa Hg0 K1 Hpa) as Hl. rewrite He in Hl. cbn [fst] in Hl.
    rewrite Hl in Hol. cbn [olog add_obs] in Hol.
    apply (f_equal (@length obs)) in Hol. rewrite app_length in Hol. cbn [length] in Hol. lia.
Qed.

(* ------------------------------------------------------------------ all threads, all steps *)

Definition KP (a : aid) (s : state) : Prop := LQ par s /\ KQ a s.

Lemma KQ_astep a s t i rest :
  a <> 0%nat -> SInv s -> KP a s -> err s = false -> pend_of s t = i :: rest -> yielding i = false ->
  (forall sys to sender m, i <> IEnq sys to sender m) -> err (astep s t i rest) = false -> KQ a (astep s t i rest).
Proof.
  intros Ha0 HI [HP HK] He0 Hp Hy Hne He1. pose proof HI as [HA HX].
  assert (Hother : forall s1 (x0 : actor) self,
            self <> a ->
            (olog s1 = olog s \/ (exists n r, is_spawn i = true /\ olog s1 = olog s ++ [OSpawn self n r]) \/
             (exists o, i = IObs o /\ olog s1 = olog s ++ [o]) \/
             (exists m ac r pa md, i = IBeh m ac r /\ a_zombie x0 = false /\ a_parent x0 = Some pa /\
                                   olog s1 = olog s ++ [OSeen self (a_inst x0) md m])) ->
            (forall o, i = IObs o -> forall i0 md m, o <> OSeen a i0 md m) ->
            seen_of a (olog s1) = seen_of a (olog s)).
  { intros s1 x0 self Hself [Hol|[(n & r & _ & Hol)|[(o & Hi & Hol)|(m & ac & r & pa & md & _ & _ & _ & Hol)]]] Hobs; rewrite Hol.
    - reflexivity.
    - apply seen_of_snoc_other. intros; discriminate.
    - apply seen_of_snoc_other. apply (Hobs o Hi).
    - apply seen_of_snoc_other. intros i0 md0 m0 E. inversion E. congruence. }
  destruct t as [b|k].
  - destruct (pend_of_TA_cons _ _ _ _ Hp) as (x & Hg & Hpx).
    destruct (Nat.eq_dec b a) as [->|Hba].
    + apply (KQ_exec_self a s x i rest Ha0 HI HK Hg Hpx); try assumption. apply (proj2 (HP a x Hg) Ha0).
    + destruct (astep_TA s b i rest x Hg) as (s1 & front & x1 & He & Hg1 & _ & Heq). rewrite Heq in *. clear Heq.
      assert (Hg0 : get (set_actor s b (upd_pend x rest)) (self_of (TA b)) = Some (upd_pend x rest)) by apply (get_set_actor_same _ _ _ _ Hg).
      destruct (INV_head _ _ _ _ (HA b x Hg) Hpx) as (_ & _ & _ & Hph).
      apply (KQ_same_seen a s); [| |exact HK].
      * change (olog (set_actor s1 b (upd_pend x1 (front ++ rest)))) with (olog s1).
        apply (Hother s1 (upd_pend x rest) b Hba).
        -- apply (exec1_olog _ _ _ _ _ _ _ He Hg0).
        -- intros o -> i0 md m ->. cbn in Hph. inversion Hph.
      * intros xa Hga Hao. exists xa. split; [|exact Hao]. rewrite get_set_actor_other by exact Hba.
        apply (exec1_keeps _ _ _ _ _ _ a xa He); [cbn; congruence|]. rewrite get_set_actor_other by exact Hba. exact Hga.
  - destruct (pend_of_TX_cons _ _ _ _ Hp) as (ex & Hn & Hpx).
    assert (Hs : sig i = false) by (apply (HX k ex Hn); rewrite Hpx; left; reflexivity).
    destruct (astep_TX s k i rest ex Hn) as (s1 & front & ex1 & He & Hn1 & _ & _ & Heq). rewrite Heq in *. clear Heq.
    destruct (get s 0) as [x0|] eqn:Hg00.
    2:{ unfold exec1 in He. cbn [self_of] in He.
        change (get (set_ext s k {| x_pend := rest; x_held := x_held ex |}) 0%nat) with (get s 0%nat) in He.
        rewrite Hg00 in He. inversion He; subst s1. discriminate He1. }
    assert (Hg0 : get (set_ext s k {| x_pend := rest; x_held := x_held ex |}) (self_of (TX k)) = Some x0) by exact Hg00.
    apply (KQ_same_seen a s); [| |exact HK].
    + change (olog (set_ext s1 k {| x_pend := front ++ rest; x_held := x_held ex1 |})) with (olog s1).
      apply (Hother s1 x0 0%nat (fun E => Ha0 (eq_sym E))).
      * apply (exec1_olog _ _ _ _ _ _ _ He Hg0).
      * intros o -> i0 md m ->. discriminate Hs.
    + intros xa Hga Hao. exists xa. split; [|exact Hao].
      change (get (set_ext s1 k {| x_pend := front ++ rest; x_held := x_held ex1 |}) a) with (get s1 a).
      apply (exec1_keeps _ _ _ _ _ _ a xa He); [cbn; exact Ha0|exact Hga].
Qed.

Section KPsec.
  Variable a : aid.
  Hypothesis Ha0 : a <> 0%nat.

  Lemma KP_mb s s' : mb_equiv s s' -> KP a s -> KP a s'.
  Proof. intros Hm [H1 H2]. split; [apply (LQ_mb par par_vsame _ _ Hm H1)|apply (KQ_mb a _ _ Hm H2)]. Qed.

  Lemma KP_pop s t i rest front :
    SInv s -> KP a s -> pend_of s t = i :: rest -> sig i = false -> (forall j, In j front -> sig j = false) ->
    KP a (set_pend s t (front ++ rest)).
  Proof. intros HI [H1 H2] Hp Hs Hf. split; [apply (LQ_pop par par_vsame s t i rest front HI H1 Hp Hs Hf)|apply (KQ_pop a s t i rest front HI H2 Hp Hs Hf)]. Qed.

  Lemma KP_astep s t i rest :
    SInv s -> KP a s -> err s = false -> pend_of s t = i :: rest -> yielding i = false ->
    (forall sys to sender m, i <> IEnq sys to sender m) -> err (astep s t i rest) = false -> KP a (astep s t i rest).
  Proof.
    intros HI HK He0 Hp Hy Hne He1. split.
    - apply (LQ_astep par par_vsame par_new par_exec_TA par_exec_TX s t i rest HI (proj1 HK) He0 Hp Hy Hne He1).
    - apply (KQ_astep a s t i rest Ha0 HI HK He0 Hp Hy Hne He1).
  Qed.

  Lemma KP_cons s b x sq uq pa co cu :
    SInv s -> KP a s -> get s b = Some x -> is_busy (a_cons x) = false -> a_pend x = [] -> is_busy co = false ->
    cu = a_cur x -> KP a (set_actor s b (set_mb x sq uq pa co cu)).
  Proof.
    intros HI [H1 H2] Hg Hb Hp Hco Hcu. split.
    - apply (LQ_cons par par_vsame s b x sq uq pa co cu HI H1 Hg Hb Hp Hco Hcu).
    - apply (KQ_cons a s b x sq uq pa co cu HI H2 Hg Hb Hp Hco Hcu).
  Qed.

  Lemma KP_handle s b x e s1 ins :
    SInv s -> KP a s -> err s = false -> get s b = Some x -> a_cons x = CH e -> a_pend x = [] ->
    let x0 := set_mb x (a_sq x) (a_uq x) (a_paused x) (CBusy (mode_top x)) (a_cur x) in
    dispatch (set_actor s b x0) b x0 e = (s1, ins) ->
    KP a (set_pend s1 (TA b) ins).
  Proof.
    intros HI [H1 H2] He0 Hg Hc Hp x0 Hd. split.
    - apply (LQ_handle par par_vsame par_dispatch s b x e s1 ins HI H1 He0 Hg Hc Hp Hd).
    - apply (KQ_handle a s b x e s1 ins HI H2 He0 Hg Hc Hp Hd).
  Qed.

  Theorem KP_reachable s : reachable s -> KP a s.
  Proof.
    apply (Q_reachable (KP a) KP_mb KP_pop KP_astep KP_cons KP_handle).
    intros scs. split; [apply (LQ_init par par_root)|].
    assert (Hol : olog (init_with scs) = []).
    { unfold init_with.
      assert (H : forall scs0 i s1, olog (set_exts s1 i scs0) = olog s1).
      { induction scs0 as [|sc scs0 IH]; intros i s1; [reflexivity|]. cbn [set_exts]. rewrite IH. apply olog_set_pend. }
      rewrite H. reflexivity. }
    unfold KQ, ok_log, last_is_own. rewrite Hol. cbn [seen_of]. split.
    - intros pre m post H. destruct pre; discriminate H.
    - intros (pre & H). destruct pre; discriminate H.
  Qed.
End KPsec.

(** C05-b *)
Theorem nothing_after_own_killed s a pre m post :
  reachable s -> a <> 0%nat -> seen_of a (olog s) = pre ++ MKilled (RObj a) :: m :: post -> m = MLaunch.
Proof. intros Hr Ha. apply (proj1 (proj2 (KP_reachable a Ha s Hr))). Qed.

(** ... and while the actor is Killed and not restarting nothing follows at all: if the own OnKilled is the last
    thing the behaviour saw, the actor is Killed (zombie, or no behaviour call pending) or about to see the OnLaunch
    of its restart *)
Theorem after_own_killed_state s a pre :
  reachable s -> a <> 0%nat -> seen_of a (olog s) = pre ++ [MKilled (RObj a)] ->
  exists x, get s a = Some x /\ after_own x.
Proof. intros Hr Ha H. apply (proj2 (proj2 (KP_reachable a Ha s Hr))). exists pre. exact H. Qed.
