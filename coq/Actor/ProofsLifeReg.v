(** C06-d: generation bookkeeping - a released name can be used again by the parent, and the new context
    gets the next generation of that path. *)
From Coq Require Import List NArith ZArith Bool Lia.
From Vivid Require Import Base.Tm Actor.Core Actor.CoreRun Actor.SpecLife Actor.ProofsLife Actor.ProofsLifeInv Actor.ProofsLifeSum
  Actor.ProofsLifePhase Actor.ProofsLifeGen Actor.ProofsLifeTree.
Import ListNotations.
Local Open Scope N_scope.
#[local] Strategy 100 [run_atomic FUEL].

(** [gens] counts the contexts ever registered under a path: every non-root context's generation is below the
    counter of its path, and the counter of a path is (the generation of some context with that path) + 1 *)
Definition GI (s : state) : Prop :=
  (forall b xb, get s b = Some xb -> b <> 0%nat -> exists g, alookup (gens s) (a_path xb) = Some g /\ a_gen xb < g) /\
  (forall p g, alookup (gens s) p = Some g ->
     exists b xb, get s b = Some xb /\ b <> 0%nat /\ a_path xb = p /\ a_gen xb + 1 = g).

Definition key (x : actor) : path * N := (a_path x, a_gen x).

(** same identities (path, generation) at the same indices, same counters *)
Definition idsame (s s' : state) : Prop :=
  gens s' = gens s /\ forall b, option_map key (get s' b) = option_map key (get s b).

Lemma GI_idsame s s' : idsame s s' -> GI s -> GI s'.
Proof.
  intros (Hg & Hk) (G1 & G2). split.
  - intros b y Hy Hb. specialize (Hk b). rewrite Hy in Hk. destruct (get s b) as [x|] eqn:Hx; [|discriminate Hk].
    cbn [option_map] in Hk. unfold key in Hk. inversion Hk as [[Hp Hgn]]. rewrite Hg, Hp, Hgn. apply (G1 b x Hx Hb).
  - intros p g Hl. rewrite Hg in Hl. destruct (G2 p g Hl) as (b & x & Hx & Hb & Hp & Hgn).
    specialize (Hk b). rewrite Hx in Hk. destruct (get s' b) as [y|] eqn:Hy; [|discriminate Hk].
    cbn [option_map] in Hk. unfold key in Hk. inversion Hk as [[Hp' Hgn']]. exists b, y. split; [exact Hy|]. split; [exact Hb|]. split; [rewrite Hp'; exact Hp|rewrite Hgn'; exact Hgn].
Qed.

Lemma idsame_refl s : idsame s s. Proof. split; reflexivity. Qed.
Lemma idsame_trans s1 s2 s3 : idsame s1 s2 -> idsame s2 s3 -> idsame s1 s3.
Proof. intros (G1 & K1) (G2 & K2). split; [congruence|]. intros b. rewrite K2. apply K1. Qed.

Lemma idsame_set_actor s a x y : get s a = Some x -> key y = key x -> idsame s (set_actor s a y).
Proof.
  intros Hg Hk. split; [reflexivity|]. intros b. destruct (Nat.eq_dec a b) as [<-|Hab].
  - rewrite (get_set_actor_same _ _ _ _ Hg), Hg. cbn [option_map]. rewrite Hk. reflexivity.
  - rewrite get_set_actor_other by exact Hab. reflexivity.
Qed.

Lemma idsame_mb s s' : mb_equiv s s' -> idsame s s'.
Proof.
  intros (Hm & _ & _ & Hg & _). split; [exact Hg|]. intros b. specialize (Hm b).
  destruct (get s b) as [x|], (get s' b) as [y|]; try contradiction; [|reflexivity].
  cbn [option_map]. unfold key. destruct Hm as (-> & -> & _). reflexivity.
Qed.

Lemma idsame_set_pend s t p : idsame s (set_pend s t p).
Proof.
  destruct t as [a|k]; cbn [set_pend].
  - unfold with_actor. destruct (get s a) as [x|] eqn:Hg; [|split; [reflexivity|intros b; reflexivity]].
    apply (idsame_set_actor _ _ x); [exact Hg|reflexivity].
  - destruct (nth_error (exts s) k); split; try reflexivity; intros b; reflexivity.
Qed.

Lemma exec1_spawn_cases s t h sp s' front x :
  exec1 s t h (IAct (ASpawn sp)) = (s', front) -> get s (self_of t) = Some x ->
  (exists o, s' = add_obs s o) \/
  (a_state x <> Killed /\ sp_prelaunch sp = true /\ alookup (reg s) (a_path x ++ [sp_name sp]) = None).
Proof.
  intros He Hg. destruct (a_state x) eqn:Hst.
  3:{ rewrite (exec1_spawn_parent_dead s t h sp x Hg Hst) in He. inversion He; subst. left. eexists. reflexivity. }
  all: assert (Hnk : a_state x <> Killed) by congruence.
  all: destruct (sp_prelaunch sp) eqn:Hpl;
    [|rewrite (exec1_spawn_prelaunch_fail s t h sp x Hg Hnk Hpl) in He; inversion He; subst; left; eexists; reflexivity].
  all: destruct (alookup (reg s) (a_path x ++ [sp_name sp])) as [c|] eqn:Hr;
    [rewrite (exec1_spawn_exists s t h sp x c Hg Hnk Hpl Hr) in He; inversion He; subst; left; eexists; reflexivity|].
  all: right; repeat split; congruence.
Qed.

Lemma path_eqb_false_ne p q : path_eqb p q = false -> p <> q.
Proof. intros H ->. rewrite path_eqb_refl in H. discriminate. Qed.

(** the one place where the bookkeeping changes: a successful ActorOf *)
Lemma GI_spawn_ok s t h sp x s' front :
  GI s -> get s (self_of t) = Some x -> a_state x <> Killed -> sp_prelaunch sp = true ->
  alookup (reg s) (a_path x ++ [sp_name sp]) = None ->
  exec1 s t h (IAct (ASpawn sp)) = (s', front) -> GI s'.
Proof.
  intros (G1 & G2) Hg Hnk Hpl Hr He.
  destruct (exec1_spawn_ok s t h sp x s' front Hg Hnk Hpl Hr He) as (Hlen & Hnew & Hoth & Hself & _ & _ & Hgens & _).
  set (p := a_path x ++ [sp_name sp]) in *. set (c := length (actors s)) in *.
  set (g := match alookup (gens s) p with Some g => g | None => 0 end) in *.
  assert (Hc0 : c <> 0%nat) by (pose proof (get_lt _ _ _ Hg); unfold c; lia).
  assert (Hold : forall b y, get s' b = Some y -> b <> c -> exists x0, get s b = Some x0 /\ key y = key x0).
  { intros b y Hy Hbc. destruct (Nat.eq_dec b (self_of t)) as [->|Hbs].
    - rewrite Hself in Hy. inversion Hy; subst y. exists x. split; [exact Hg|reflexivity].
    - rewrite (Hoth b Hbs Hbc) in Hy. exists y. split; [exact Hy|reflexivity]. }
  split.
  - intros b y Hy Hb0. rewrite Hgens. destruct (Nat.eq_dec b c) as [->|Hbc].
    + rewrite Hnew in Hy. inversion Hy; subst y. cbn [new_actor a_path a_gen]. exists (g + 1).
      split; [apply alookup_aset_same|lia].
    + destruct (Hold b y Hy Hbc) as (x0 & Hx0 & Hk). unfold key in Hk. inversion Hk as [[Hp Hgn]]. rewrite Hp, Hgn.
      destruct (G1 b x0 Hx0 Hb0) as (g0 & Hl & Hlt).
      destruct (path_eqb (a_path x0) p) eqn:Hpe.
      * apply path_eqb_eq in Hpe. rewrite Hpe in *. exists (g + 1). split; [apply alookup_aset_same|].
        unfold g. rewrite Hl. lia.
      * exists g0. split; [rewrite alookup_aset_other by exact Hpe; exact Hl|exact Hlt].
  - intros q gq Hl. rewrite Hgens in Hl. destruct (path_eqb q p) eqn:Hpe.
    + apply path_eqb_eq in Hpe. subst q. rewrite alookup_aset_same in Hl. inversion Hl; subst gq.
      exists c. eexists. split; [exact Hnew|]. split; [exact Hc0|]. split; reflexivity.
    + rewrite alookup_aset_other in Hl by exact Hpe.
      destruct (G2 q gq Hl) as (b & x0 & Hx0 & Hb0 & Hp & Hgn).
      assert (Hbc : b <> c) by (pose proof (get_lt _ _ _ Hx0); unfold c; lia).
      destruct (Nat.eq_dec b (self_of t)) as [->|Hbs].
      * exists (self_of t). eexists. split; [exact Hself|]. rewrite Hg in Hx0. inversion Hx0; subst x0. repeat split; assumption.
      * exists b, x0. split; [rewrite (Hoth b Hbs Hbc); exact Hx0|]. repeat split; assumption.
Qed.

Lemma idsame_exec1_nospawn s t h i s' front x :
  is_spawn i = false -> exec1 s t h i = (s', front) -> get s (self_of t) = Some x -> idsame s s'.
Proof.
  intros Hsp He Hg. destruct (exec1_summary s t h i s' front x Hsp He Hg) as (x' & Ha & Hc & _ & Hgn & _).
  split; [exact Hgn|]. intros b. unfold get. rewrite Ha. destruct (Nat.eq_dec (self_of t) b) as [<-|Hne].
  - rewrite (nth_error_upd_same _ _ _ _ Hg). unfold get in Hg. rewrite Hg. cbn [option_map]. unfold key.
    destruct Hc as (-> & -> & _). reflexivity.
  - rewrite nth_error_upd_other by exact Hne. reflexivity.
Qed.

Lemma GI_astep s t i rest :
  SInv s -> GI s -> err s = false -> pend_of s t = i :: rest -> yielding i = false ->
  (forall sys to sender m, i <> IEnq sys to sender m) -> err (astep s t i rest) = false -> GI (astep s t i rest).
Proof.
  intros _ HG _ _ _ _ He1. unfold astep in *.
  pose proof (GI_idsame _ _ (idsame_set_pend s t rest) HG) as HG0.
  destruct (exec1 (set_pend s t rest) t (held_of (set_pend s t rest) t) i) as [s1 front] eqn:He.
  apply (GI_idsame s1); [apply idsame_set_pend|].
  destruct (get (set_pend s t rest) (self_of t)) as [x|] eqn:Hg.
  2:{ unfold exec1 in He. rewrite Hg in He. inversion He; subst s1.
      rewrite err_set_pend in He1 by reflexivity. discriminate He1. }
  destruct (is_spawn i) eqn:Hsp.
  - destruct i as [| | | | | | | | |ac| | | | | | | | | | | |]; try discriminate Hsp. destruct ac; try discriminate Hsp.
    destruct (exec1_spawn_cases _ _ _ _ _ _ _ He Hg) as [(o & ->)|(Hnk & Hpl & Hr)].
    + apply (GI_idsame (set_pend s t rest)); [split; [reflexivity|intros b; reflexivity]|exact HG0].
    + apply (GI_spawn_ok _ _ _ _ _ _ _ HG0 Hg Hnk Hpl Hr He).
  - apply (GI_idsame _ _ (idsame_exec1_nospawn _ _ _ _ _ _ _ Hsp He Hg) HG0).
Qed.

Theorem GI_reachable s : reachable s -> GI s.
Proof.
  apply (Q_reachable GI).
  - intros s0 s' Hm. apply GI_idsame, idsame_mb, Hm.
  - intros s0 t i rest front _ HG _ _ _. apply (GI_idsame s0); [apply idsame_set_pend|exact HG].
  - apply GI_astep.
  - intros s0 a x sq uq pa co cu _ HG Hg _ _ _ _. apply (GI_idsame s0); [|exact HG].
    apply (idsame_set_actor _ _ x); [exact Hg|reflexivity].
  - intros s0 a x e s1 ins _ HG _ Hg _ _ x0 Hd. apply (GI_idsame s1); [apply idsame_set_pend|].
    assert (Hg0 : get (set_actor s0 a x0) a = Some x0) by apply (get_set_actor_same _ _ _ _ Hg).
    destruct (dispatch_frame _ _ _ _ _ _ Hg0 Hd) as (y & Hact & _ & _ & _ & _ & Hgn & _ & Hp & Hgen & _).
    apply (GI_idsame s0); [|exact HG]. split; [rewrite Hgn; reflexivity|].
    intros b. unfold get. rewrite Hact. destruct (Nat.eq_dec a b) as [<-|Hab].
    + rewrite (nth_error_upd_same _ _ _ _ Hg0). fold (get s0 a). rewrite Hg. cbn [option_map]. unfold key. rewrite Hp, Hgen. reflexivity.
    + rewrite nth_error_upd_other by exact Hab. fold (get (set_actor s0 a x0) b). rewrite get_set_actor_other by exact Hab. reflexivity.
  - intros scs. unfold init_with. split.
    + intros b xb Hb Hb0. unfold get in Hb. rewrite set_exts_actors in Hb. cbn [actors init_state] in Hb.
      destruct b as [|[|b]]; cbn [nth_error] in Hb; try discriminate. congruence.
    + intros p g Hl. assert (Hg : forall scs0 i s1, gens (set_exts s1 i scs0) = gens s1).
      { induction scs0 as [|sc scs0 IH]; intros i s1; [reflexivity|]. cbn [set_exts]. rewrite IH.
        cbn [set_pend]. destruct (nth_error (exts s1) i); reflexivity. }
      rewrite Hg in Hl. discriminate Hl.
Qed.

(** C06-d: after the cleanup of [a] ([alookup (reg s) path = None], see C06_cleanup_releases_path) the parent can
    create a child with the same name again: ActorOf succeeds and the new context's generation is above the
    generation of every earlier context of that path and equals (generation of the latest one) + 1 *)
Theorem released_name_reusable s t h sp xp s' front :
  reachable s -> get s (self_of t) = Some xp -> a_state xp <> Killed -> sp_prelaunch sp = true ->
  alookup (reg s) (a_path xp ++ [sp_name sp]) = None ->
  exec1 s t h (IAct (ASpawn sp)) = (s', front) ->
  let p := a_path xp ++ [sp_name sp] in
  exists g, get s' (length (actors s)) = Some (new_actor p g (Some (self_of t)) sp) /\
            alookup (reg s') p = Some (length (actors s)) /\
            (forall b xb, get s b = Some xb -> b <> 0%nat -> a_path xb = p -> a_gen xb < g) /\
            ((exists b xb, get s b = Some xb /\ b <> 0%nat /\ a_path xb = p) ->
             exists b xb, get s b = Some xb /\ a_path xb = p /\ g = a_gen xb + 1).
Proof.
  intros Hr Hg Hnk Hpl Hreg He p.
  destruct (exec1_spawn_ok s t h sp xp s' front Hg Hnk Hpl Hreg He) as (_ & Hnew & _ & _ & _ & Hrl & _).
  destruct (GI_reachable s Hr) as (G1 & G2). fold p in Hnew, Hrl.
  eexists. split; [exact Hnew|]. split; [exact Hrl|]. split.
  - intros b xb Hb Hb0 Hp. destruct (G1 b xb Hb Hb0) as (g0 & Hl & Hlt). rewrite Hp in Hl. rewrite Hl. exact Hlt.
  - intros (b & xb & Hb & Hb0 & Hp). destruct (G1 b xb Hb Hb0) as (g0 & Hl & _). rewrite Hp in Hl. rewrite Hl.
    destruct (G2 p g0 Hl) as (b' & xb' & Hb' & _ & Hp' & Hgn). exists b', xb'. repeat split; auto.
Qed.
