(** Failing-schedule search for C03 / C09 on the ActorCore model, inside Coq (definitions only - nothing is
    evaluated when this file is compiled).

    How to run a search:  write a scratch file, e.g. /tmp/s.v, containing

        From Coq Require Import List NArith. From Vivid Require Import Actor.Core Actor.SpecMail Actor.SearchMail.
        Import ListNotations.
        Time Eval vm_compute in (summary (search_kill_race 8)).      (* 8 random schedules per scenario *)
        Time Eval vm_compute in (summary (search_double_failure 6)).
        Time Eval vm_compute in (summary (search_launch_killed 6)).
        Time Eval vm_compute in (summary (search_zombie 8)).

    and `cd /verif/coq && coqc -Q . Vivid /tmp/s.v` (each family takes 2-5 minutes).  A hit is a tuple of scenario
    parameters + the seed; `replay_hit scs seed` gives the event list and the final state for the report.

    [enabled] lists every non-idle event of every thread (all choices of a fan-out); [rrun] follows a pseudo-random
    schedule (LCG) until nothing is enabled or the fuel ends; [bad] = the run ended quiescent without [err] and
    some actor is paused (any state) or still Killing.  After the fixes nobody should be paused at quiescence: a
    terminated actor's cleanup resumes its mailbox. *)
From Coq Require Import List NArith ZArith Bool.
From Vivid Require Import Actor.Core Actor.CoreRun Actor.SpecMail.
Import ListNotations.
Local Open Scope N_scope.

Definition events_of_instr (t : tid) (i : instr) : list event :=
  match i with
  | IEnqR _ _ _ _ | IEnqMb _ _ => [EvPush t 0]
  | IEnqAny _ tos _ _ => map (fun c => EvPush t c) (seq 0 (length tos))
  | ISupPause _ _ rem _ => map (fun c => EvPush t c) (seq 0 (length rem))
  | IEnqDone => [EvEnqDone t]
  | IPauseSt => [EvPauseSt t]
  | IResume1 => [EvResume1 t]
  | IResume2 => [EvResume2 t]
  | _ => []
  end.
Definition enabled_of (s : state) (t : tid) : list event :=
  match t with
  | TX i => match pend_of s t with
            | [] => []
            | ins :: _ => match events_of_instr t ins with [] => [EvStart i] | l => l end
            end
  | TA a => match get s a with
            | None => []
            | Some x => match a_pend x with
                        | ins :: _ => events_of_instr t ins
                        | [] => match next_event s t with Some ev => [ev] | None => [] end
                        end
            end
  end.
Definition enabled (s : state) : list event := flat_map (enabled_of s) (all_tids s).

Definition lcg (x : N) : N := (x * 1103515245 + 12345) mod 2147483648.
Fixpoint rrun (fuel : nat) (seed : N) (s : state) : state :=
  match fuel with
  | O => s
  | S f => match enabled s with
           | [] => s
           | l => let seed' := lcg seed in
                  let k := N.to_nat ((seed' / 65536) mod (N.of_nat (length l))) in
                  match nth_error l k with Some ev => rrun f seed' (step s ev) | None => s end
           end
  end.
Fixpoint rrun_evs (fuel : nat) (seed : N) (s : state) : list event :=
  match fuel with
  | O => []
  | S f => match enabled s with
           | [] => []
           | l => let seed' := lcg seed in
                  let k := N.to_nat ((seed' / 65536) mod (N.of_nat (length l))) in
                  match nth_error l k with Some ev => ev :: rrun_evs f seed' (step s ev) | None => [] end
           end
  end.

Definition is_killing (x : actor) : bool := match a_state x with Killing => true | _ => false end.
Definition bad (s : state) : bool :=
  negb (err s) && quiescent s && existsb (fun x => a_paused x || is_killing x) (actors s).
(** a run that did not become quiescent within the fuel, or left the model's domain *)
Definition unfinished (s : state) : bool := err s || negb (quiescent s).

Definition all_dec := [DRestart; DGRestart; DStop; DGStop; DResume; DEscalate; DInvalid].
Definition dcode (d : decision) : N :=
  match d with DRestart => 1 | DGRestart => 2 | DStop => 3 | DGStop => 4 | DResume => 5 | DEscalate => 6 | DInvalid => 7 end.
Definition seeds (n : nat) : list N := map N.of_nat (seq 1 n).
Definition summary {A} (l : list A) : nat * list A := (length l, firstn 40 l).

(** run the set-up script (external caller 0) deterministically, then everything under the random schedule *)
Definition try_after_setup (scs : list (list action)) (fuel : nat) (seed : N) : state :=
  let s0 := init_with scs in
  let e1 := drive 300 (TX 0 :: map TA (seq 0 8)) s0 in
  rrun fuel seed (run_events e1 s0).
Definition replay_hit (scs : list (list action)) (fuel : nat) (seed : N) :=
  let s0 := init_with scs in
  let e1 := drive 300 (TX 0 :: map TA (seq 0 8)) s0 in
  let s1 := run_events e1 s0 in
  let evs := e1 ++ rrun_evs fuel seed s1 in
  let s := run_events evs s0 in
  (evs, map a_state (actors s), map a_zombie (actors s), map a_paused (actors s), map (fun x => length (a_uq x)) (actors s), ghost s).

(** ---- family 1: root -> G -> P -> {C, D}; C fails with one message queued behind; a kill (poison or not) of
    G / P / C / D races the failure; restart hooks of P / C may fail *)
Definition k_specC (hk : list (bool*bool*bool)) := Spec 3 [] [] [] 0 [] true hk true.
Definition k_specD := Spec 4 [] [] [] 0 [] true [] false.
Definition k_specP sp dp hk hkc := Spec 2 [ASpawn (k_specC hkc); ASpawn k_specD] [] [] sp dp true hk false.
Definition k_specG sg dg sp dp hk hkc := Spec 1 [ASpawn (k_specP sp dp hk hkc)] [] [] sg dg true [] false.
Definition k_kills : list (list (list action)) :=
  [ []; [[AKill (XPath [1;2]) true]]; [[AKill (XPath [1;2]) false]]; [[AKill (XPath [1;2;3]) true]]; [[AKill (XPath [1]) true]];
    [[AKill (XPath [1;2;4]) true]]; [[AKill (XPath [1]) false]]; [[AKill (XPath [1;2;3]) false]] ].
Definition k_scen sg dg sp dp hk hkc (k : list (list action)) : list (list action) :=
  [[ASpawn (k_specG sg dg sp dp hk hkc)];
   [ATell (XPath [1;2;3]) 10 [APanic]; ATell (XPath [1;2;3]) 11 []]] ++ k.
Definition hooks_opts : list (list (bool*bool*bool)) := [[]; [(true,false,true)]].
Definition search_kill_race (nseeds : nat) :=
  flat_map (fun dg => flat_map (fun dp => flat_map (fun sp => flat_map (fun sg => flat_map (fun hk => flat_map (fun hkc => flat_map (fun ki =>
    flat_map (fun seed =>
      if bad (try_after_setup (k_scen sg [dg; DResume] sp [dp; DResume] hk hkc (nth ki k_kills [])) 900 seed)
      then [(dcode dg, dcode dp, sp, sg, (hk, hkc), N.of_nat ki, seed)] else [])
      (seeds nseeds)) (seq 0 8)) hooks_opts) hooks_opts) [1;2]) [1;2]) all_dec) all_dec.

(** ---- family 2: C fails twice and its sibling D once; three decisions *)
Definition f_specC := Spec 3 [] [] [] 0 [] true [] true.
Definition f_specP sp dp := Spec 2 [ASpawn f_specC; ASpawn k_specD] [] [] sp dp true [] false.
Definition f_specG sg dg sp dp := Spec 1 [ASpawn (f_specP sp dp)] [] [] sg dg true [] false.
Definition f_scen sg dg sp dp : list (list action) :=
  [[ASpawn (f_specG sg dg sp dp)];
   [ATell (XPath [1;2;3]) 10 [APanic]; ATell (XPath [1;2;3]) 11 [APanic]; ATell (XPath [1;2;3]) 13 []];
   [ATell (XPath [1;2;4]) 12 [APanic]]].
Definition search_double_failure (nseeds : nat) :=
  flat_map (fun d3 => flat_map (fun d1 => flat_map (fun d2 => flat_map (fun sp => flat_map (fun sg =>
    flat_map (fun seed =>
      if bad (try_after_setup (f_scen sg [d3; DStop] sp [d1; d2; DResume]) 900 seed)
      then [(dcode d3, dcode d1, dcode d2, sp, sg, seed)] else [])
      (seeds nseeds)) [1;2]) [1;2]) all_dec) all_dec) all_dec.

(** ---- family 3: C panics in every OnLaunch (also the inline one after a restart), P panics in every OnKilled of a
    child; D is killed from outside *)
Definition l_specC := Spec 3 [APanic] [] [] 0 [] true [] true.
Definition l_specP sp dp := Spec 2 [ASpawn l_specC; ASpawn k_specD] [] [APanic] sp dp true [] false.
Definition l_specG sg dg sp dp := Spec 1 [ASpawn (l_specP sp dp)] [] [] sg dg true [] false.
Definition l_scen sg dg sp dp : list (list action) :=
  [[ASpawn (l_specG sg dg sp dp)];
   [AKill (XPath [1;2;4]) false];
   [ATell (XPath [1;2;3]) 13 []; ATell (XPath [1;2]) 14 []]].
Definition search_launch_killed (nseeds : nat) :=
  flat_map (fun d3 => flat_map (fun d1 => flat_map (fun d2 => flat_map (fun sp => flat_map (fun sg =>
    flat_map (fun seed =>
      if bad (rrun 1500 seed (init_with (l_scen sg [d3; DResume; DResume] sp [d1; d2])))
      then [(dcode d3, dcode d1, dcode d2, sp, sg, seed)] else [])
      (seeds nseeds)) [1;2]) [1;2]) all_dec) all_dec) all_dec.

(** ---- family 4: zombies: C's restart hooks fail; C and D fail one after the other under P; probes afterwards *)
Definition z_specC := Spec 3 [] [] [] 0 [] true [(true, false, true)] false.
Definition z_specP sp dp := Spec 2 [ASpawn z_specC; ASpawn k_specD] [] [] sp dp true [] false.
Definition z_scen sp dp (k : list (list action)) : list (list action) :=
  [ [ASpawn (z_specP sp dp)]; [ATell (XPath [2;3]) 10 [APanic]; ATell (XPath [2;3]) 12 []];
    [ATell (XPath [2;4]) 11 [APanic]]; [ATell (XPath [2;3]) 13 []] ] ++ k.
Definition z_kills : list (list (list action)) :=
  [ []; [[AKill (XPath [2;3]) true]]; [[AKill (XPath [2;3]) false]]; [[AKill (XPath [2]) true]]; [[AKill (XPath [2]) false]] ].
Definition search_zombie (nseeds : nat) :=
  flat_map (fun d1 => flat_map (fun d2 => flat_map (fun d3 => flat_map (fun sp => flat_map (fun ki =>
    flat_map (fun seed =>
      if bad (try_after_setup (z_scen sp [d1; d2; d3] (nth ki z_kills [])) 900 seed)
      then [(dcode d1, dcode d2, dcode d3, sp, N.of_nat ki, seed)] else [])
      (seeds nseeds)) (seq 0 5)) [1;2]) all_dec) all_dec) all_dec.
