(** Proofs for C08 (supervision) over Actor/Core.v: the decomposition of every machine step into primitive
    updates (used for all reachable-state invariants here and in ProofsStream.v), characterising lemmas of
    [dispatch] / [exec1] for the supervision messages and instructions. *)
From Coq Require Import List NArith ZArith Bool Permutation Lia Arith.
From Vivid Require Import Actor.Core Actor.CoreRun Actor.SpecSup.
Import ListNotations.

(* ------------------------------------------------------------------ lists *)

Lemma nth_error_upd_same {A} (l : list A) i x y : nth_error l i = Some y -> nth_error (upd l i x) i = Some x.
Proof. revert i; induction l as [|h t IH]; intros [|i] H; cbn in *; try discriminate; auto. Qed.

Lemma nth_error_upd_other {A} (l : list A) i j x : i <> j -> nth_error (upd l i x) j = nth_error l j.
Proof. revert i j; induction l as [|h t IH]; intros [|i] [|j] H; cbn; auto; try congruence. Qed.

Lemma upd_length {A} (l : list A) i x : length (upd l i x) = length l.
Proof. revert i; induction l as [|h t IH]; intros [|i]; cbn; auto. Qed.

Lemma map_upd_same {A B} (f : A -> B) (l : list A) i x y :
  nth_error l i = Some y -> f x = f y -> map f (upd l i x) = map f l.
Proof. revert i; induction l as [|h t IH]; intros [|i] H E; cbn in *; try discriminate; [inversion H; subst; congruence|f_equal; eauto]. Qed.

Lemma path_eqb_eq p q : path_eqb p q = true <-> p = q.
Proof.
  revert q; induction p as [|x p IH]; intros [|y q]; cbn; split; intros H; try discriminate; auto.
  - apply andb_prop in H as [H1 H2]. apply N.eqb_eq in H1. apply IH in H2. congruence.
  - inversion H; subst. rewrite N.eqb_refl. cbn. apply IH. reflexivity.
Qed.

Lemma path_eqb_refl p : path_eqb p p = true.
Proof. apply path_eqb_eq. reflexivity. Qed.

Lemma path_eqb_neq p q : path_eqb p q = false <-> p <> q.
Proof. split; intros H. - intros E. apply path_eqb_eq in E. congruence. - destruct (path_eqb p q) eqn:E; auto. apply path_eqb_eq in E. contradiction. Qed.

(* ------------------------------------------------------------------ prims *)

Lemma prims_trans t s1 s2 s3 : prims t s1 s2 -> prims t s2 s3 -> prims t s1 s3.
Proof. intros H1 H2. induction H2; eauto using prims. Qed.

Lemma prims_one t s s' : prim t s s' -> prims t s s'.
Proof. intros H. eapply ps_step; [apply ps_refl|exact H]. Qed.

Lemma stable_refl x : stable x x.
Proof. repeat split. Qed.

Lemma get_set_actor_same s a x y : get s a = Some y -> get (set_actor s a x) a = Some x.
Proof. unfold get, set_actor; cbn. apply nth_error_upd_same. Qed.

Lemma get_set_actor_other s a b x : a <> b -> get (set_actor s a x) b = get s b.
Proof. unfold get, set_actor; cbn. apply nth_error_upd_other. Qed.

Lemma with_actor_prims t s a f : (forall x, stable x (f x)) -> prims t s (with_actor s a f).
Proof.
  intros Hf. unfold with_actor. destruct (get s a) eqn:E.
  - apply prims_one. eapply p_actor; eauto.
  - apply prims_one, p_err.
Qed.

Lemma push_mb_prims t s a e : prims t s (push_mb s a e).
Proof. unfold push_mb. apply with_actor_prims. intros x. repeat split. Qed.

Lemma deliver_prims t s m e : prims t s (fst (deliver s m e)).
Proof. destruct m; cbn; apply push_mb_prims. Qed.

Lemma resolve_prims t s r : prims t s (snd (resolve s r)).
Proof.
  unfold resolve. destruct r as [a|p|]; cbn.
  - destruct (get s a) as [x|] eqn:E; cbn; [|apply prims_one, p_err].
    destruct (a_cache x); cbn; [apply ps_refl|].
    destruct (alookup (reg s) (a_path x)); cbn.
    + apply prims_one. eapply p_actor; [exact E|repeat split].
    + destruct (path_eqb (a_path x) []); apply ps_refl.
  - destruct (alookup (reg s) p); cbn; [apply ps_refl|]. destruct (path_eqb p []); apply ps_refl.
  - apply ps_refl.
Qed.

Ltac prim_solve :=
  first
    [ apply ps_refl
    | apply prims_one; first
        [ apply p_err | apply p_obs | apply p_ghost | apply p_sub_all
        | eapply p_actor; [eassumption|repeat split]
        | eapply p_sub_rm; eassumption
        | eapply p_sub_add; eassumption ] ].

Lemma exec1_prims s t held i : prims t s (fst (exec1 s t held i)).
Proof.
  unfold exec1. destruct (get s (self_of t)) as [x|] eqn:Hx; [|cbn; prim_solve].
  destruct i as [sys to sender m|sys to sender m|to e| |sys tos sender m|c d rem done| | | |a|m acts r| |ty payload|poison|who| | | | |c d targets|o| ];
    cbn [fst]; try prim_solve.
  - (* ISupPause *) destruct rem; cbn [fst]; prim_solve.
  - (* IAct *)
    destruct a as [r tag acts|tag acts|sp|r poison| |n| |r|r|ty|ty| |ty payload|mode discard|discard]; cbn [fst]; try prim_solve.
    + (* ASpawn *)
      assert (Hsp : forall st : astate,
        prims t s (fst (
                if negb (sp_prelaunch sp) then (add_obs s (OSpawn (self_of t) (sp_name sp) 2), [])
                else match alookup (reg s) (a_path x ++ [sp_name sp]) with
                     | Some _ => (add_obs s (OSpawn (self_of t) (sp_name sp) 3), @nil instr)
                     | None =>
                         (with_actor
                            {| actors := actors s ++ [new_actor (a_path x ++ [sp_name sp]) match alookup (gens s) (a_path x ++ [sp_name sp]) with Some g => g | None => 0%N end (Some (self_of t)) sp];
                               reg := reg s ++ [(a_path x ++ [sp_name sp], length (actors s))];
                               gens := aset (gens s) (a_path x ++ [sp_name sp]) (match alookup (gens s) (a_path x ++ [sp_name sp]) with Some g => g | None => 0%N end + 1)%N;
                               subs := subs s;
                               exts := match t with
                                       | TX i => match nth_error (exts s) i with
                                                 | Some ex => upd (exts s) i {| x_pend := x_pend ex; x_held := x_held ex ++ [length (actors s)] |}
                                                 | None => exts s
                                                 end
                                       | TA _ => exts s
                                       end;
                               olog := olog s; ghost := ghost s; err := err s |}
                            (self_of t) (fun x1 => set_children x1 (aset (a_children x1) (a_path x ++ [sp_name sp]) (length (actors s)))),
                          [IEnq true (RObj (length (actors s))) (RObj (self_of t)) MLaunch; IEnqDone;
                           IPub evSpawned ((a_path x ++ [sp_name sp]) ++ [match alookup (gens s) (a_path x ++ [sp_name sp]) with Some g => g | None => 0%N end])]
                          ++ match st with Killing => [IEnq true (RObj (length (actors s))) (RObj (self_of t)) (MKill (RObj (self_of t)) false); IEnqDone] | _ => [] end
                          ++ [IObs (OSpawn (self_of t) (sp_name sp) 0)])
                     end))).
      { intros st. destruct (negb (sp_prelaunch sp)); cbn [fst]; [prim_solve|].
        destruct (alookup (reg s) (a_path x ++ [sp_name sp])); cbn [fst]; [prim_solve|].
        eapply prims_trans; [|apply with_actor_prims; intros y; repeat split].
        apply prims_one. apply p_spawn.
        destruct t as [a|i]; [reflexivity|]. destruct (nth_error (exts s) i) eqn:E; [|reflexivity].
        eapply map_upd_same; [exact E|reflexivity]. }
      destruct (a_state x); [apply Hsp|apply Hsp|cbn [fst]; prim_solve].
    + (* AStash *) destruct (a_cur x); cbn [fst]; prim_solve.
    + (* AUnstash *)
      destruct n; [|destruct (a_stash x); cbn [fst]; prim_solve].
      destruct (Nat.eqb (length (a_stash x)) 0); cbn [fst]; prim_solve.
    + (* ASub *) destruct (alookup (subscribers s ty) (a_path x)) eqn:E; cbn [fst]; prim_solve.
    + (* AUnsub *) destruct (nlookup (subs s) ty) eqn:E; cbn [fst]; prim_solve.
  - (* IBeh *)
    destruct (a_zombie x); cbn [fst]; [prim_solve|].
    destruct (a_parent x).
    + destruct (take_until_panic acts). cbn [fst]. prim_solve.
    + destruct m; cbn [fst]; try prim_solve. destruct (ref_eq s who (RObj (self_of t))); cbn [fst]; prim_solve.
  - (* IPub *) destruct (subscribers s ty); cbn [fst]; prim_solve.
  - (* IOnKilled *)
    destruct (a_zombie x); cbn [fst]; [prim_solve|].
    destruct (ref_eq s who (RObj (self_of t))); cbn [fst]; [prim_solve|].
    destruct (ref_path s who); prim_solve.
  - (* ICheckMark *)
    destruct (a_children x); [|cbn [fst]; prim_solve]. destruct (a_state x); cbn [fst]; prim_solve.
  - (* ICleanup *)
    eapply ps_step; [apply prims_one, (p_sub_all t s (a_path x))|]. apply p_reg.
  - (* IRestartFinish *)
    destruct (a_hooks x) as [|[[h1 h2] h3] rest]; [cbn [fst]; prim_solve|].
    destruct (h2 && h3); cbn [fst]; prim_solve.
  - (* ISupApply *) destruct d; cbn [fst]; prim_solve.
Qed.
