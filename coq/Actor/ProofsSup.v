(** Proofs for C08 (supervision) over Actor/Core.v: the decomposition of every machine step into primitive
    updates (used for all reachable-state invariants here and in ProofsStream.v), characterising lemmas of
    [dispatch] / [exec1] for the supervision messages and instructions. *)
From Coq Require Import List NArith ZArith Bool Permutation Lia Arith.
From Vivid Require Import Actor.Core Actor.CoreRun Actor.SpecSup.
Import ListNotations.

(* ------------------------------------------------------------------ lists *)

Lemma nth_error_upd_same {A} (l : list A) i x y : nth_error l i = Some y -> nth_error (upd l i x) i = Some x.
Proof. revert i; induction l as [|h t IH]; intros [|i] H; cbn in *; try discriminate; auto. Qed.

Lemma nth_error_upd_other {A} (l : list A) i j x : i <> j -> nth_error (upd l i x) j = nth_error l j.
Proof. revert i j; induction l as [|h t IH]; intros [|i] [|j] H; cbn; auto; try congruence. Qed.

Lemma upd_length {A} (l : list A) i x : length (upd l i x) = length l.
Proof. revert i; induction l as [|h t IH]; intros [|i]; cbn; auto. Qed.

Lemma map_upd_same {A B} (f : A -> B) (l : list A) i x y :
  nth_error l i = Some y -> f x = f y -> map f (upd l i x) = map f l.
Proof. revert i; induction l as [|h t IH]; intros [|i] H E; cbn in *; try discriminate; [inversion H; subst; congruence|f_equal; eauto]. Qed.

Lemma path_eqb_eq p q : path_eqb p q = true <-> p = q.
Proof.
  revert q; induction p as [|x p IH]; intros [|y q]; cbn; split; intros H; try discriminate; auto.
  - apply andb_prop in H as [H1 H2]. apply N.eqb_eq in H1. apply IH in H2. congruence.
  - inversion H; subst. rewrite N.eqb_refl. cbn. apply IH. reflexivity.
Qed.

Lemma path_eqb_refl p : path_eqb p p = true.
Proof. apply path_eqb_eq. reflexivity. Qed.

Lemma path_eqb_neq p q : path_eqb p q = false <-> p <> q.
Proof. split; intros H. - intros E. apply path_eqb_eq in E. congruence. - destruct (path_eqb p q) eqn:E; auto. apply path_eqb_eq in E. contradiction. Qed.

(* ------------------------------------------------------------------ prims *)

Lemma prims_trans t s1 s2 s3 : prims t s1 s2 -> prims t s2 s3 -> prims t s1 s3.
Proof. intros H1 H2. induction H2; eauto using prims. Qed.

Lemma prims_one t s s' : prim t s s' -> prims t s s'.
Proof. intros H. eapply ps_step; [apply ps_refl|exact H]. Qed.

Lemma stable_refl x : stable x x.
Proof. repeat split. Qed.

Lemma get_set_actor_same s a x y : get s a = Some y -> get (set_actor s a x) a = Some x.
Proof. unfold get, set_actor; cbn. apply nth_error_upd_same. Qed.

Lemma get_set_actor_other s a b x : a <> b -> get (set_actor s a x) b = get s b.
Proof. unfold get, set_actor; cbn. apply nth_error_upd_other. Qed.

Lemma with_actor_prims t s a f : (forall x, stable x (f x)) -> prims t s (with_actor s a f).
Proof.
  intros Hf. unfold with_actor. destruct (get s a) eqn:E.
  - apply prims_one. eapply p_actor; eauto.
  - apply prims_one, p_err.
Qed.

Lemma push_mb_prims t s a e : prims t s (push_mb s a e).
Proof. unfold push_mb. apply with_actor_prims. intros x. repeat split. Qed.

Lemma deliver_prims t s m e : prims t s (fst (deliver s m e)).
Proof. destruct m; cbn; apply push_mb_prims. Qed.

Lemma resolve_prims t s r : prims t s (snd (resolve s r)).
Proof.
  unfold resolve. destruct r as [a|p|]; cbn.
  - destruct (get s a) as [x|] eqn:E; cbn; [|apply prims_one, p_err].
    destruct (a_cache x); cbn; [apply ps_refl|].
    destruct (alookup (reg s) (a_path x)); cbn.
    + apply prims_one. eapply p_actor; [exact E|repeat split].
    + destruct (path_eqb (a_path x) []); apply ps_refl.
  - destruct (alookup (reg s) p); cbn; [apply ps_refl|]. destruct (path_eqb p []); apply ps_refl.
  - apply ps_refl.
Qed.

Ltac prim_solve :=
  first
    [ apply ps_refl
    | apply prims_one; first
        [ apply p_err | apply p_obs | apply p_ghost | apply p_sub_all
        | eapply p_actor; [eassumption|]; repeat match goal with |- context[match ?e with _ => _ end] => destruct e end; solve [repeat split]
        | eapply p_sub_rm; eassumption
        | eapply p_sub_add; eassumption ] ].

Ltac set_actor_cases :=
  match goal with
  | |- prims _ _ (set_actor _ _ ?b) =>
      apply prims_one; eapply p_actor; [eassumption|];
      repeat match goal with |- context[match ?e with _ => _ end] => destruct e end; solve [repeat split]
  end.

Lemma exec1_prims s t held i : prims t s (fst (exec1 s t held i)).
Proof.
  unfold exec1. destruct (get s (self_of t)) as [x|] eqn:Hx; [|cbn; prim_solve].
  destruct i as [sys to sender m|sys to sender m|to e| |sys tos sender m|c d rem done| | | |a|m acts r| |ty payload|poison|who| | | | |c d targets|o| ];
    cbn [fst]; try prim_solve.
  - (* ISupPause *) destruct rem; cbn [fst]; prim_solve.
  - (* IAct *)
    destruct a as [r tag acts|tag acts|sp|r poison| |n| |r|r|ty|ty| |ty payload|mode discard|discard]; cbn [fst]; try prim_solve.
    + (* ASpawn *)
      assert (Hsp : forall st : astate,
        prims t s (fst (
                if negb (sp_prelaunch sp) then (add_obs s (OSpawn (self_of t) (sp_name sp) 2), [])
                else match alookup (reg s) (a_path x ++ [sp_name sp]) with
                     | Some _ => (add_obs s (OSpawn (self_of t) (sp_name sp) 3), @nil instr)
                     | None =>
                         (with_actor
                            {| actors := actors s ++ [new_actor (a_path x ++ [sp_name sp]) match alookup (gens s) (a_path x ++ [sp_name sp]) with Some g => g | None => 0%N end (Some (self_of t)) sp];
                               reg := reg s ++ [(a_path x ++ [sp_name sp], length (actors s))];
                               gens := aset (gens s) (a_path x ++ [sp_name sp]) (match alookup (gens s) (a_path x ++ [sp_name sp]) with Some g => g | None => 0%N end + 1)%N;
                               subs := subs s;
                               exts := match t with
                                       | TX i => match nth_error (exts s) i with
                                                 | Some ex => upd (exts s) i {| x_pend := x_pend ex; x_held := x_held ex ++ [length (actors s)] |}
                                                 | None => exts s
                                                 end
                                       | TA _ => exts s
                                       end;
                               olog := olog s; ghost := ghost s; err := err s |}
                            (self_of t) (fun x1 => set_children x1 (aset (a_children x1) (a_path x ++ [sp_name sp]) (length (actors s)))),
                          [IEnq true (RObj (length (actors s))) (RObj (self_of t)) MLaunch; IEnqDone;
                           IPub evSpawned ((a_path x ++ [sp_name sp]) ++ [match alookup (gens s) (a_path x ++ [sp_name sp]) with Some g => g | None => 0%N end])]
                          ++ match st with Killing => [IEnq true (RObj (length (actors s))) (RObj (self_of t)) (MKill (RObj (self_of t)) false); IEnqDone] | _ => [] end
                          ++ [IObs (OSpawn (self_of t) (sp_name sp) 0)])
                     end))).
      { intros st. destruct (negb (sp_prelaunch sp)); cbn [fst]; [prim_solve|].
        destruct (alookup (reg s) (a_path x ++ [sp_name sp])); cbn [fst]; [prim_solve|].
        eapply prims_trans; [|apply with_actor_prims; intros y; repeat split].
        apply prims_one. apply p_spawn.
        destruct t as [a|i]; [reflexivity|]. destruct (nth_error (exts s) i) eqn:E; [|reflexivity].
        eapply map_upd_same; [exact E|reflexivity]. }
      destruct (a_state x); [exact (Hsp Running)|exact (Hsp Killing)|cbn [fst]; prim_solve].
    + (* AStash *) destruct (a_cur x); cbn [fst]; prim_solve.
    + (* AUnstash *)
      destruct n; [|destruct (a_stash x); cbn [fst]; prim_solve].
      destruct (Nat.eqb (length (a_stash x)) 0); cbn [fst]; prim_solve.
    + (* ASub *) destruct (alookup (subscribers s ty) (a_path x)) eqn:E; cbn [fst]; prim_solve.
    + (* AUnsub *) destruct (nlookup (subs s) ty) eqn:E; cbn [fst]; prim_solve.
  - (* IBeh *)
    destruct (a_zombie x); cbn [fst]; [prim_solve|].
    destruct (a_parent x).
    + destruct (take_until_panic acts). cbn [fst]. prim_solve.
    + destruct m; cbn [fst]; try prim_solve. destruct (ref_eq s who (RObj (self_of t))); cbn [fst]; prim_solve.
  - (* IPub *) destruct (subscribers s ty); cbn [fst]; prim_solve.
  - (* IOnKilled *)
    destruct (a_zombie x); cbn [fst]; [prim_solve|].
    destruct (ref_eq s who (RObj (self_of t))); cbn [fst]; [prim_solve|].
    set_actor_cases.
  - (* ICheckMark *)
    destruct (a_children x); [|cbn [fst]; prim_solve]. destruct (a_state x); cbn [fst]; prim_solve.
  - (* ICleanup *)
    eapply ps_step; [apply prims_one, (p_sub_all t s (a_path x))|]. apply p_reg.
  - (* IRestartFinish *)
    destruct (a_hooks x) as [|[[h1 h2] h3] rest]; [cbn [fst]; prim_solve|].
    destruct (h2 && h3); cbn [fst]; prim_solve.
  - (* ISupApply *) destruct d; cbn [fst]; prim_solve.
Qed.

Lemma exec1_prims' s t held i s' fr : exec1 s t held i = (s', fr) -> prims t s s'.
Proof. intros E. change s' with (fst (s', fr)). rewrite <- E. apply exec1_prims. Qed.

Lemma resolve_prims' s t r m s' : resolve s r = (m, s') -> prims t s s'.
Proof. intros E. change s' with (snd (m, s')). rewrite <- E. apply resolve_prims. Qed.

Lemma deliver_prims' s t m e s' b : deliver s m e = (s', b) -> prims t s s'.
Proof. intros E. change s' with (fst (s', b)). rewrite <- E. apply deliver_prims. Qed.

Lemma run_atomic_prims fuel : forall s t, prims t s (run_atomic fuel s t).
Proof.
  induction fuel as [|f IH]; intros s t; cbn [run_atomic]; [prim_solve|].
  destruct (pend_of s t) as [|i rest] eqn:Hp; [prim_solve|].
  assert (Hgen : prims t s (let s0 := set_pend s t rest in
                            let (s1, front) := exec1 s0 t (held_of s0 t) i in
                            run_atomic f (set_pend s1 t (front ++ pend_of s1 t)) t)).
  { cbv zeta. destruct (exec1 (set_pend s t rest) t (held_of (set_pend s t rest) t) i) as [s1 front] eqn:E.
    eapply prims_trans; [|apply IH]. eapply ps_step; [|apply p_pend].
    eapply prims_trans; [apply prims_one, p_pend|]. eapply exec1_prims'; exact E. }
  destruct i as [sys to sender m|sys to sender m|to e| |sys tos sender m|c d rem done| | | |a|m acts r| |ty payload|poison|who| | | | |c d targets|o| ];
    cbn [yielding]; try prim_solve; try exact Hgen.
  - destruct (resolve s to) as [mb s1] eqn:E. eapply ps_step; [|apply p_pend]. eapply resolve_prims'; exact E.
  - destruct rem; [exact Hgen|prim_solve].
Qed.

Lemma dispatch_prims s a x e : get s a = Some x -> prims (TA a) s (fst (dispatch s a x e)).
Proof.
  intros Hx. unfold dispatch.
  repeat match goal with |- context[match ?e with _ => _ end] => destruct e end; cbn [fst]; try prim_solve.
  all: eapply ps_step; [|apply p_ghost]; prim_solve.
Qed.

Lemma step_prims s ev : prims (ev_thread ev) s (step s ev).
Proof.
  destruct ev as [a|a|a|a|t k|t|t|t|t|i]; cbn [step ev_thread].
  - destruct (get s a) as [x|] eqn:Hx; [|prim_solve]. destruct (a_cons x), (a_sq x); prim_solve.
  - destruct (get s a) as [x|] eqn:Hx; [|prim_solve]. destruct (a_cons x); prim_solve.
  - destruct (get s a) as [x|] eqn:Hx; [|prim_solve]. destruct (a_cons x), (a_uq x); prim_solve.
  - destruct (get s a) as [x|] eqn:Hx; [|prim_solve]. destruct (a_cons x) as [| | | |e|md]; try prim_solve.
    match goal with |- context[dispatch ?s1 a ?x0 e] => destruct (dispatch s1 a x0 e) as [s2 ins] eqn:E end.
    eapply prims_trans; [|apply run_atomic_prims]. eapply ps_step; [|apply p_pend].
    eapply prims_trans; [|change s2 with (fst (s2, ins)); rewrite <- E; apply dispatch_prims; eapply get_set_actor_same; exact Hx].
    prim_solve.
  - destruct (pend_of s t) as [|i rest]; [prim_solve|].
    destruct i as [sys to sender m|sys to sender m|to e| |sys tos sender m|c d rem done| | | |a|m acts r| |ty payload|poison|who| | | | |c d targets|o| ];
      try prim_solve.
    + destruct (deliver s to _) as [s2 b] eqn:E. eapply ps_step; [|apply p_pend]. eapply deliver_prims'; exact E.
    + eapply ps_step; [|apply p_pend]. apply push_mb_prims.
    + destruct (nth_error tos k) as [to|]; [|prim_solve].
      destruct (resolve s to) as [mb s1] eqn:E1. destruct (deliver s1 mb _) as [s2 b] eqn:E2.
      eapply ps_step; [|apply p_pend]. eapply prims_trans; [eapply resolve_prims'; exact E1|eapply deliver_prims'; exact E2].
    + destruct (nth_error rem k) as [to|]; [|prim_solve].
      destruct (resolve s to) as [mb s1] eqn:E1. destruct (deliver s1 mb _) as [s2 b] eqn:E2.
      eapply ps_step; [|apply p_pend]. eapply prims_trans; [eapply resolve_prims'; exact E1|eapply deliver_prims'; exact E2].
  - destruct (pend_of s t) as [|i rest]; [prim_solve|]. destruct i; try prim_solve.
    eapply prims_trans; [|apply run_atomic_prims]. apply prims_one, p_pend.
  - destruct (pend_of s t) as [|i rest]; [prim_solve|]. destruct i; try prim_solve.
    eapply prims_trans; [|apply run_atomic_prims]. eapply ps_step; [|apply p_pend].
    apply with_actor_prims. intros x; repeat split.
  - destruct (pend_of s t) as [|i rest]; [prim_solve|].
    destruct (get s (self_of t)) as [x|] eqn:Hx; destruct i; try prim_solve.
    destruct (a_paused x).
    + eapply ps_step; [|apply p_pend]. prim_solve.
    + eapply prims_trans; [|apply run_atomic_prims]. apply prims_one, p_pend.
  - destruct (pend_of s t) as [|i rest]; [prim_solve|]. destruct i; try prim_solve.
    eapply prims_trans; [|apply run_atomic_prims]. apply prims_one, p_pend.
  - apply run_atomic_prims.
Qed.

(* ------------------------------------------------------------------ invariants through prims *)

Lemma prims_inv (I : state -> Prop) t :
  (forall s s', prim t s s' -> I s -> I s') -> forall s s', prims t s s' -> I s -> I s'.
Proof. intros H s s' Hp. induction Hp; eauto. Qed.

Lemma run_events_inv (I : state -> Prop) :
  (forall t s s', prim t s s' -> I s -> I s') -> forall evs s, I s -> I (run_events evs s).
Proof.
  intros H evs. unfold run_events. induction evs as [|ev evs IH]; intros s Hs; cbn [fold_left]; [exact Hs|].
  apply IH. eapply prims_inv; [apply H|apply step_prims|exact Hs].
Qed.

Lemma reachable_inv (I : state -> Prop) :
  (forall scs, I (init_with scs)) -> (forall t s s', prim t s s' -> I s -> I s') -> forall s, reachable s -> I s.
Proof. intros H0 H s (scs & evs & -> & _). apply run_events_inv; auto. Qed.

Lemma set_exts_fields scs : forall s i,
  actors (set_exts s i scs) = actors s /\ subs (set_exts s i scs) = subs s /\ reg (set_exts s i scs) = reg s.
Proof.
  induction scs as [|sc r IH]; intros s i; cbn [set_exts]; [auto|].
  destruct (IH (set_pend s (TX i) (map IAct sc)) (S i)) as (-> & -> & ->).
  cbn [set_pend]. destruct (nth_error (exts s) i); cbn; auto.
Qed.

Lemma init_with_actors scs : actors (init_with scs) = [new_actor [] 0%N None root_spec].
Proof. unfold init_with. destruct (set_exts_fields scs (init_state (length scs)) 0) as (-> & _). reflexivity. Qed.

Lemma init_with_subs scs : subs (init_with scs) = [].
Proof. unfold init_with. destruct (set_exts_fields scs (init_state (length scs)) 0) as (_ & -> & _). reflexivity. Qed.

(** contexts are never removed and never change identity *)
Definition keeps_actors (s s' : state) : Prop :=
  forall a x, get s a = Some x -> exists x', get s' a = Some x' /\
    a_path x' = a_path x /\ a_gen x' = a_gen x /\ a_parent x' = a_parent x /\ a_spec x' = a_spec x.

Lemma get_set_pend s t p a x : get s a = Some x -> exists x', get (set_pend s t p) a = Some x' /\
    a_path x' = a_path x /\ a_gen x' = a_gen x /\ a_parent x' = a_parent x /\ a_spec x' = a_spec x.
Proof.
  intros H. destruct t as [b|i]; cbn [set_pend].
  - unfold with_actor. destruct (get s b) as [y|] eqn:E; [|exists x; cbn; auto].
    destruct (Nat.eq_dec b a) as [->|N].
    + rewrite (get_set_actor_same _ _ _ _ E). rewrite H in E; inversion E; subst. eexists; split; [reflexivity|]. cbn; auto.
    + rewrite get_set_actor_other by exact N. exists x; auto.
  - destruct (nth_error (exts s) i); exists x; cbn; auto.
Qed.

Lemma prim_keeps_actors t s s' : prim t s s' -> keeps_actors s s'.
Proof.
  intros Hp a x H. destruct Hp; try (exists x; cbn; auto; fail).
  - destruct (Nat.eq_dec a0 a) as [->|N].
    + rewrite (get_set_actor_same _ _ _ _ H0). rewrite H in H0; inversion H0; subst.
      destruct H1 as (? & ? & ? & ? & ?). eexists; split; [reflexivity|]. auto.
    + rewrite get_set_actor_other by exact N. exists x; auto.
  - apply get_set_pend. exact H.
  - exists x. split; [|auto]. unfold get in *; cbn. rewrite nth_error_app1; [exact H|]. apply nth_error_Some. congruence.
Qed.

Lemma keeps_actors_refl s : keeps_actors s s.
Proof. intros a x H; exists x; auto. Qed.

Lemma keeps_actors_trans s1 s2 s3 : keeps_actors s1 s2 -> keeps_actors s2 s3 -> keeps_actors s1 s3.
Proof.
  intros H1 H2 a x H. destruct (H1 a x H) as (x' & H' & E1 & E2 & E3 & E4).
  destruct (H2 a x' H') as (x'' & H'' & F1 & F2 & F3 & F4). exists x''. repeat split; congruence.
Qed.

Lemma prims_keeps_actors t s s' : prims t s s' -> keeps_actors s s'.
Proof. intros H; induction H; [apply keeps_actors_refl|]. eapply keeps_actors_trans; [eassumption|eapply prim_keeps_actors; eassumption]. Qed.

Lemma step_keeps_actors s ev : keeps_actors s (step s ev).
Proof. eapply prims_keeps_actors, step_prims. Qed.

Lemma run_events_keeps_actors evs : forall s, keeps_actors s (run_events evs s).
Proof.
  unfold run_events. induction evs as [|ev evs IH]; intros s; cbn [fold_left]; [apply keeps_actors_refl|].
  eapply keeps_actors_trans; [apply step_keeps_actors|apply IH].
Qed.

(** the root context (actor 0) is the guard: no parent, no strategy *)
Lemma root_inv s : reachable s -> exists x, get s 0 = Some x /\ a_spec x = root_spec /\ a_parent x = None /\ a_path x = [].
Proof.
  intros (scs & evs & -> & _).
  destruct (run_events_keeps_actors evs (init_with scs) 0 (new_actor [] 0%N None root_spec)) as (x & H & E1 & E2 & E3 & E4).
  - unfold get. rewrite init_with_actors. reflexivity.
  - exists x. cbn in *. auto.
Qed.

(** [err] is sticky *)
Lemma prim_err t s s' : prim t s s' -> err s = true -> err s' = true.
Proof.
  intros Hp H. destruct Hp; cbn; auto.
  destruct t as [b|i]; cbn [set_pend]; unfold with_actor.
  - destruct (get s b); cbn; auto.
  - destruct (nth_error (exts s) i); cbn; auto.
Qed.

Lemma step_err s ev : err s = true -> err (step s ev) = true.
Proof. intros H. eapply (prims_inv (fun s => err s = true)); [intros; eapply prim_err; eassumption|apply step_prims|exact H]. Qed.

Lemma run_events_err evs : forall s, err s = true -> err (run_events evs s) = true.
Proof. unfold run_events. induction evs as [|ev evs IH]; intros s H; cbn [fold_left]; [exact H|]. apply IH, step_err, H. Qed.

Lemma reachable_step s ev : reachable s -> err (step s ev) = false -> reachable (step s ev).
Proof.
  intros (scs & evs & -> & _) H. exists scs, (evs ++ [ev]). split; [|exact H].
  unfold run_events. rewrite fold_left_app. reflexivity.
Qed.

(* ------------------------------------------------------------------ C08-a/c: onSupervise *)

Lemma dead_for_dispatch s a x e :
  dead_for x e = false ->
  dispatch s a x e =
    let x1 := set_cur x e in
    let s1 := set_actor s a x1 in
    match e_msg e with
    | MSup c => (set_actor s a (set_decisions x1 (snd (sup_decide x))), [ISupPause c (fst (sup_decide x)) (sup_targets x c) []; IEndHandler])
    | MCmdPause => (s1, [IPauseSt; IPub evPaused (actor_key x); IEndHandler])
    | MCmdResume => (s1, [IResume1; IPub evResumed (actor_key x); IEndHandler])
    | MKilled who => (s1, [IOnKilled who; IEndHandler])
    | MLaunch => (s1, [IBeh MLaunch (sp_launch (a_spec x)) RecFail; IPub evLaunched (actor_key x); IEndHandler])
    | MUser tag acts => (s1, [IBeh (e_msg e) acts RecFail; IEndHandler])
    | MEvent ty payload => (s1, [IBeh (e_msg e) [] RecFail; IEndHandler])
    | _ => dispatch s a x e
    end.
Proof.
  intros Hd. unfold dispatch. unfold dead_for in Hd. cbv zeta in *. rewrite Hd.
  destruct (e_msg e) as [| | |[ch ts sub]| | | | | | | |]; try reflexivity.
  unfold sup_decide, sup_targets, set_cur, sc_child.
  destruct (sp_strategy (a_spec x)) as [|[p|[p|p|]|]]; cbn [N.eqb Pos.eqb fst snd]; try reflexivity;
    destruct (a_decisions x); reflexivity.
Qed.

Lemma dispatch_MSup s a x e c :
  e_msg e = MSup c -> dead_for x e = false ->
  dispatch s a x e = (set_actor s a (set_decisions (set_cur x e) (snd (sup_decide x))),
                      [ISupPause c (fst (sup_decide x)) (sup_targets x c) []; IEndHandler]).
Proof. intros Hm Hd. rewrite (dead_for_dispatch _ _ _ _ Hd). rewrite Hm. reflexivity. Qed.

Lemma consulted_once s a x e c :
  e_msg e = MSup c -> dead_for x e = false ->
  exists d ds targets,
    dispatch s a x e = (set_actor s a (set_decisions (set_cur x e) ds), [ISupPause c d targets []; IEndHandler]) /\
    (sp_strategy (a_spec x) = 0%N -> d = DStop /\ ds = a_decisions x) /\
    (sp_strategy (a_spec x) <> 0%N -> a_decisions x = d :: ds \/ (a_decisions x = [] /\ d = DStop /\ ds = [])) /\
    (sp_strategy (a_spec x) = 2%N -> targets = map (fun p => RObj (snd p)) (a_children x)) /\
    (sp_strategy (a_spec x) <> 2%N -> targets = [sc_child c]).
Proof.
  intros Hm Hd. exists (fst (sup_decide x)), (snd (sup_decide x)), (sup_targets x c).
  split; [apply dispatch_MSup; assumption|].
  unfold sup_decide, sup_targets. split; [|split; [|split]].
  - intros ->. split; reflexivity.
  - intros H. destruct (N.eqb_spec (sp_strategy (a_spec x)) 0); [contradiction|].
    destruct (a_decisions x); [right|left]; auto.
  - intros ->. reflexivity.
  - intros H. destruct (N.eqb_spec (sp_strategy (a_spec x)) 2); [contradiction|reflexivity].
Qed.

(** a dead supervisor does not supervise: the report becomes a dead letter *)
Lemma dead_supervisor s a x e p :
  dead_for x e = true -> a_parent x = Some p ->
  dispatch s a x e = (s, [IEnqMb 0 {| e_sys := false; e_sender := root_ref; e_msg := MDeadLetter (e_sys e) (e_msg e) |}; IEnqDone; IEndHandler]).
Proof. intros Hd Hp. unfold dispatch. unfold dead_for in Hd. cbv zeta in *. rewrite Hd, Hp. reflexivity. Qed.

Lemma sup_targets_spec x c :
  (sp_strategy (a_spec x) = 2%N -> sup_targets x c = map (fun p => RObj (snd p)) (a_children x)) /\
  (sp_strategy (a_spec x) <> 2%N -> sup_targets x c = [sc_child c]).
Proof.
  unfold sup_targets. split.
  - intros ->. reflexivity.
  - intros H. destruct (N.eqb_spec (sp_strategy (a_spec x)) 2); [contradiction|reflexivity].
Qed.

(* ------------------------------------------------------------------ pick_order *)

Lemma remove_nth_perm {A} (l : list A) k x : nth_error l k = Some x -> Permutation l (x :: remove_nth k l).
Proof.
  revert k; induction l as [|h t IH]; intros [|k] H; cbn in *; try discriminate.
  - inversion H; subst. unfold remove_nth. cbn. apply Permutation_refl.
  - unfold remove_nth in *. cbn. eapply perm_trans; [apply perm_skip, IH, H|apply perm_swap].
Qed.

Lemma pick_order_perm {A} (rem order : list A) : pick_order rem order -> Permutation rem order.
Proof.
  induction 1 as [|rem k to order Hk _ IH]; [apply perm_nil|].
  eapply perm_trans; [apply remove_nth_perm, Hk|apply perm_skip, IH].
Qed.

(** every list order is a possible pick sequence (picking the head each time) *)
Lemma pick_order_id {A} (l : list A) : pick_order l l.
Proof. induction l as [|h t IH]; [constructor|]. apply (pick_cons (h :: t) 0 h t); [reflexivity|exact IH]. Qed.

(* ------------------------------------------------------------------ C08-b: pause, then the directive *)

Lemma instr_sends_app l1 l2 : instr_sends (l1 ++ l2) = instr_sends l1 ++ instr_sends l2.
Proof. induction l1 as [|i r IH]; [reflexivity|]. destruct i; cbn; rewrite ?IH; reflexivity. Qed.

Lemma instr_sends_tells sys sender (m : rref -> msg) l :
  instr_sends (flat_map (fun r => [IEnq sys r sender (m r); IEnqDone]) l) = map (fun r => (r, sys, m r)) l.
Proof. induction l as [|r l IH]; [reflexivity|]. cbn. rewrite IH. reflexivity. Qed.

Lemma in_tells sys sender (m : rref -> msg) l i :
  In i (flat_map (fun r => [IEnq sys r sender (m r); IEnqDone]) l) -> i = IEnqDone \/ exists to, i = IEnq sys to sender (m to).
Proof.
  induction l as [|r l IH]; [intros []|]. cbn. intros [<-|[<-|H]]; eauto.
Qed.

Lemma exec1_ISupPause_nil s t held x c d done :
  get s (self_of t) = Some x -> exec1 s t held (ISupPause c d [] done) = (s, [ISupApply c d done]).
Proof. intros H. unfold exec1. rewrite H. reflexivity. Qed.

Lemma exec1_ISupApply s t held x c d order :
  get s (self_of t) = Some x ->
  exists ins, exec1 s t held (ISupApply c d order) = (s, ins) /\
    instr_sends ins = apply_sends (self_of t) x c d order /\
    (forall i, In i ins -> i = IEnqDone \/ i = IPauseSt \/ exists sys to m, i = IEnq sys to (RObj (self_of t)) m) /\
    (In IPauseSt ins <-> is_escalation d = true).
Proof.
  intros H. unfold exec1. rewrite H.
  assert (Hc : match c with SupCtx ch _ sub => SupCtx ch order sub end = sc_set_targets c order) by reflexivity.
  rewrite Hc. unfold apply_sends, resume_sends.
  destruct d; cbn [is_graceful negb is_escalation]; eexists; (split; [reflexivity|]);
    rewrite ?instr_sends_app, ?instr_sends_tells, ?app_nil_r; (split; [reflexivity|]); split.
  all: try (intros i Hi; rewrite ?in_app_iff in Hi;
            repeat match goal with H : _ \/ _ |- _ => destruct H end;
            try match goal with H : In _ (flat_map _ _) |- _ => apply in_tells in H; destruct H as [->|(to & ->)]; eauto 6 end;
            try match goal with H : In _ [] |- _ => destruct H end; subst; eauto 6; fail).
  all: try (split; [|discriminate]; intros Hi; rewrite ?in_app_iff in Hi;
            repeat match goal with H : _ \/ _ |- _ => destruct H end;
            try match goal with H : In _ (flat_map _ _) |- _ => apply in_tells in H; destruct H as [?|(? & ?)]; discriminate end;
            try match goal with H : In _ [] |- _ => destruct H end; fail).
  all: try (split; [reflexivity|]; intros _; cbn; auto; fail).
  all: intros i [<-|[<-|[<-|[]]]]; eauto 6.
Qed.

Lemma sup_sends_targets self x c d order to sys m :
  In (to, sys, m) (sup_sends self x c d order) -> In to (chain_targets (sc_set_targets c order) ++ [rref_parent x]).
Proof.
  assert (Hin : forall r, In r order -> In r (chain_targets (sc_set_targets c order) ++ [rref_parent x])).
  { intros r Hr. apply in_or_app; left. destruct c as [ch ts sub]; cbn. apply in_or_app; left; exact Hr. }
  unfold sup_sends, apply_sends, resume_sends. intros H. apply in_app_or in H as [H|H].
  - apply in_map_iff in H as (r & E & Hr). inversion E; subst. auto.
  - destruct d; rewrite ?in_app_iff in H;
      repeat match goal with H : _ \/ _ |- _ => destruct H end;
      try (apply in_map_iff in H as (r & E & Hr); inversion E; subst; auto; fail);
      try (apply in_map_iff in H as (r & E & Hr); inversion E; subst; apply in_or_app; left; exact Hr).
    all: cbn in H; destruct H as [E|[]]; inversion E; subst; apply in_or_app; right; left; reflexivity.
Qed.

(** the decision is applied to nobody but the targets (and, for Resume / graceful directives, the targets of the
    escalation chain below); an escalation goes to the parent only *)
Lemma sup_sends_shape self x c d order to sys m :
  In (to, sys, m) (sup_sends self x c d order) ->
  (In to order /\ m = MCmdPause /\ sys = true) \/
  (In to order /\ match d with
                  | DRestart => m = MRestart false /\ sys = true
                  | DGRestart => m = MRestart true /\ sys = false
                  | DStop => m = MKill (RObj self) false /\ sys = true
                  | DGStop => m = MKill (RObj self) true /\ sys = false
                  | _ => False
                  end) \/
  (In to (chain_targets (sc_set_targets c order)) /\ m = MCmdResume /\ sys = true /\
   match d with DGRestart | DGStop | DResume => True | _ => False end) \/
  (to = rref_parent x /\ m = MSup (SupCtx (RObj self) [] (Some (sc_set_targets c order))) /\ sys = true /\ is_escalation d = true).
Proof.
  unfold sup_sends, apply_sends, resume_sends. intros H. apply in_app_or in H as [H|H].
  - apply in_map_iff in H as (r & E & Hr). inversion E; subst. auto.
  - right. destruct d; rewrite ?in_app_iff in H;
      repeat match goal with H : _ \/ _ |- _ => destruct H end;
      try (apply in_map_iff in H as (r & E & Hr); inversion E; subst; auto 8; fail).
    all: cbn in H; destruct H as [E|[]]; inversion E; subst; right; right; auto.
Qed.

(* ------------------------------------------------------------------ the yielding steps *)

Lemma pend_of_set_pend s t p : err (set_pend s t p) = false -> pend_of (set_pend s t p) t = p.
Proof.
  destruct t as [a|i]; cbn [set_pend pend_of]; unfold with_actor.
  - destruct (get s a) as [x|] eqn:E; [|cbn; discriminate]. intros _.
    rewrite (get_set_actor_same _ _ _ _ E). reflexivity.
  - destruct (nth_error (exts s) i) as [x|] eqn:E; [|cbn; discriminate]. intros _.
    cbn. rewrite (nth_error_upd_same _ _ _ _ E). reflexivity.
Qed.

(** one pause of the supervision handler: the chosen remaining target gets CommandPauseMailbox as a system
    message from the supervisor, and moves from [rem] to the end of [done] *)
Lemma step_ISupPause s t k c d rem done rest :
  pend_of s t = ISupPause c d rem done :: rest -> err (step s (EvPush t k)) = false ->
  exists to, nth_error rem k = Some to /\
    step s (EvPush t k) =
      set_pend (fst (deliver (snd (resolve s to)) (fst (resolve s to)) {| e_sys := true; e_sender := RObj (self_of t); e_msg := MCmdPause |}))
               t (IEnqDone :: ISupPause c d (remove_nth k rem) (done ++ [to]) :: rest) /\
    pend_of (step s (EvPush t k)) t = IEnqDone :: ISupPause c d (remove_nth k rem) (done ++ [to]) :: rest.
Proof.
  intros Hp. cbn [step]. rewrite Hp. destruct (nth_error rem k) as [to|]; [|cbn; discriminate].
  intros He. exists to. split; [reflexivity|].
  destruct (resolve s to) as [mb s1]. cbn [fst snd]. destruct (deliver s1 mb _) as [s2 b] eqn:E2. cbn [fst].
  split; [reflexivity|]. apply pend_of_set_pend. exact He.
Qed.

(** one delivery of a Go map range (children of a stopping actor, watchers, subscribers of an event type) *)
Lemma step_IEnqAny s t k sys tos sender m rest :
  pend_of s t = IEnqAny sys tos sender m :: rest -> err (step s (EvPush t k)) = false ->
  exists to, nth_error tos k = Some to /\
    step s (EvPush t k) =
      set_pend (fst (deliver (snd (resolve s to)) (fst (resolve s to)) {| e_sys := sys; e_sender := sender; e_msg := m |}))
               t (IEnqDone :: match remove_nth k tos with [] => rest | _ :: _ => IEnqAny sys (remove_nth k tos) sender m :: rest end) /\
    pend_of (step s (EvPush t k)) t = IEnqDone :: match remove_nth k tos with [] => rest | _ :: _ => IEnqAny sys (remove_nth k tos) sender m :: rest end.
Proof.
  intros Hp. cbn [step]. rewrite Hp. destruct (nth_error tos k) as [to|]; [|cbn; discriminate].
  intros He. exists to. split; [reflexivity|].
  destruct (resolve s to) as [mb s1]. cbn [fst snd]. destruct (deliver s1 mb _) as [s2 b] eqn:E2. cbn [fst].
  split; [reflexivity|]. apply pend_of_set_pend. exact He.
Qed.

(** a tell: [findMailbox] runs when the instruction is reached, the queue insertion is the next step of the thread *)
Lemma step_IEnqR s t k sys mb sender m rest :
  pend_of s t = IEnqR sys mb sender m :: rest -> err (step s (EvPush t k)) = false ->
  step s (EvPush t k) = set_pend (fst (deliver s mb {| e_sys := sys; e_sender := sender; e_msg := m |})) t rest /\
  pend_of (step s (EvPush t k)) t = rest.
Proof.
  intros Hp. cbn [step]. rewrite Hp. destruct (deliver s mb _) as [s2 b]. cbn [fst]. intros He.
  split; [reflexivity|]. apply pend_of_set_pend. exact He.
Qed.

Lemma run_atomic_IEnq f s t sys to sender m rest :
  pend_of s t = IEnq sys to sender m :: rest ->
  run_atomic (S f) s t = set_pend (snd (resolve s to)) t (IEnqR sys (fst (resolve s to)) sender m :: rest).
Proof. intros Hp. cbn [run_atomic]. rewrite Hp. destruct (resolve s to). reflexivity. Qed.

(* ------------------------------------------------------------------ C08-d: effect of each directive on a target *)

Lemma dead_for_running x e : a_state x = Running -> dead_for x e = false.
Proof. intros H. unfold dead_for. rewrite H. reflexivity. Qed.

(** Restart, first half: RestartMessage at a running actor starts the stop sequence with [restarting] set *)
Lemma dispatch_MRestart_running s a x e poison :
  e_msg e = MRestart poison -> a_state x = Running ->
  exists x', dispatch s a x e = (set_actor s a x', [IPub evRestarting (actor_key x); IDoKill poison; IEndHandler]) /\
    stable x x' /\ a_state x' = Killing /\ a_restarting x' = Some poison /\
    a_cur x' = Some {| e_sys := true; e_sender := e_sender e; e_msg := MKill (RObj a) poison |} /\
    a_zombie x' = a_zombie x /\ a_children x' = a_children x /\ a_watchers x' = a_watchers x /\ a_stash x' = a_stash x /\
    a_modes x' = a_modes x /\ a_inst x' = a_inst x /\ a_decisions x' = a_decisions x /\ a_hooks x' = a_hooks x /\
    same_queues x x'.
Proof.
  intros Hm Hs. unfold dispatch. cbv zeta. rewrite Hm, Hs. cbn [andb].
  eexists; split; [destruct (a_hooks _) as [|[[? ?] ?] ?]; reflexivity|].
  cbn. repeat split.
Qed.

(** a RestartMessage at an actor that is already stopping (or restarting) is dropped: no restart, no state
    change; the mailbox the supervisor paused is resumed, and an actor in the middle of a stop passes an
    immediate kill to its remaining children *)
Lemma dispatch_MRestart_not_running s a x e poison :
  e_msg e = MRestart poison -> a_state x <> Running -> dead_for x e = false ->
  dispatch s a x e =
    (set_actor s a (set_cur x e),
     [IResume1]
     ++ (match a_state x, a_children x with
         | Killing, _ :: _ => [IEnqAny true (map (fun p => RObj (snd p)) (a_children x)) (RObj a) (MKill (RObj a) false)]
         | _, _ => []
         end)
     ++ [IEndHandler]).
Proof.
  intros Hm Hs Hd. unfold dispatch. unfold dead_for in Hd. cbv zeta in *. rewrite Hd, Hm.
  destruct (a_state x); [contradiction| |]; destruct (a_children x); reflexivity.
Qed.

(** with [restarting] set the stop sequence ends in IRestartFinish, not in ICleanup: the registry entry, the
    subscriptions and the parent's child entry stay, nobody is told OnKilled *)
Lemma exec1_ICheckMark s t held x :
  get s (self_of t) = Some x -> a_children x = [] -> a_state x = Killing ->
  exists x', exec1 s t held ICheckMark =
    (set_actor s (self_of t) x',
     [IBeh (MKilled (RObj (self_of t))) (sp_killed (a_spec x)) RecLog; match a_restarting x with None => ICleanup | Some _ => IRestartFinish end]) /\
    stable x x' /\ a_state x' = Killed /\ a_restarting x' = a_restarting x /\ a_modes x' = a_modes x /\ a_inst x' = a_inst x /\
    a_stash x' = a_stash x /\ same_queues x x'.
Proof.
  intros H Hc Hs. unfold exec1. rewrite H, Hc, Hs. eexists; split; [destruct (a_restarting x); reflexivity|].
  cbn. repeat split.
Qed.

Lemma exec1_ICheckMark_waits s t held x :
  get s (self_of t) = Some x -> a_children x <> [] \/ a_state x <> Killing -> exec1 s t held ICheckMark = (s, []).
Proof.
  intros H Hc. unfold exec1. rewrite H. destruct (a_children x); [|reflexivity].
  destruct (a_state x); try reflexivity. destruct Hc; contradiction.
Qed.

(** Restart, second half: same context (same index = same reference, same path, generation, parent, spec),
    behaviour stack reset, a new instance iff the actor comes from a provider, queues and stash kept *)
Lemma exec1_IRestartFinish s t held x :
  get s (self_of t) = Some x ->
  exists x' ins, exec1 s t held IRestartFinish = (set_actor s (self_of t) x', ins) /\
    stable x x' /\ a_modes x' = [0%N] /\
    a_inst x' = (if sp_provider (a_spec x) then (a_inst x + 1)%N else a_inst x) /\
    a_hooks x' = tl (a_hooks x) /\ a_stash x' = a_stash x /\ a_children x' = a_children x /\ a_watchers x' = a_watchers x /\
    a_decisions x' = a_decisions x /\ a_sq x' = a_sq x /\ a_uq x' = a_uq x /\ a_paused x' = a_paused x /\
    (restart_hooks_ok x = true ->
       a_state x' = Running /\ a_restarting x' = None /\ a_zombie x' = a_zombie x /\
       ins = [IResume1; IPub evRestarted (actor_key x); IPub evResumed (actor_key x);
              IBeh MLaunch (sp_launch (a_spec x)) RecFail; IPub evLaunched (actor_key x)]) /\
    (restart_hooks_ok x = false ->
       a_state x' = a_state x /\ a_restarting x' = a_restarting x /\ a_zombie x' = true /\ ins = [IResume1]).
Proof.
  intros H. unfold exec1. rewrite H. unfold restart_hooks_ok.
  destruct (a_hooks x) as [|[[h1 h2] h3] rest].
  - eexists; eexists; split; [reflexivity|]. destruct (sp_provider (a_spec x)); cbn; repeat split; try discriminate.
  - destruct (h2 && h3); eexists; eexists; (split; [reflexivity|]);
      destruct (sp_provider (a_spec x)); cbn; repeat split; try discriminate.
Qed.

(** Stop: OnKill at a running actor *)
Lemma dispatch_MKill_running s a x e k poison :
  e_msg e = MKill k poison -> a_state x = Running -> a_zombie x = false ->
  dispatch s a x e = (set_actor s a (set_state (set_cur x e) Killing), [IDoKill poison; IEndHandler]).
Proof. intros Hm Hs Hz. unfold dispatch. cbv zeta. rewrite Hm, Hs, Hz. reflexivity. Qed.

Lemma exec1_IDoKill s t held x poison :
  get s (self_of t) = Some x ->
  exec1 s t held (IDoKill poison) =
    (s, (match a_children x with
         | [] => []
         | l => [IEnqAny (negb poison) (map (fun p => RObj (snd p)) l) (RObj (self_of t)) (MKill (RObj (self_of t)) poison)]
         end)
        ++ [IBeh (match a_cur x with Some e => e_msg e | None => MKill RNone poison end) (sp_kill (a_spec x)) RecLog;
            IOnKilled (RObj (self_of t))]).
Proof. intros H. unfold exec1. rewrite H. destruct (a_restarting x); reflexivity. Qed.

Lemma ref_eq_self s a x : get s a = Some x -> ref_eq s (RObj a) (RObj a) = true.
Proof. intros H. unfold ref_eq, ref_path. rewrite H. apply path_eqb_refl. Qed.

Lemma exec1_IOnKilled_self s t held x :
  get s (self_of t) = Some x -> a_zombie x = false ->
  exec1 s t held (IOnKilled (RObj (self_of t))) = (s, [ICheckMark]).
Proof. intros H Hz. unfold exec1. rewrite H, Hz, (ref_eq_self _ _ _ H). reflexivity. Qed.

(** the end of a stop: UnsubscribeAll, registry entry removed, OnKilled to every watcher and to the parent
    (exactly one tell to the parent), ActorKilledEvent, mailbox.Resume *)
Lemma exec1_ICleanup s t held x :
  get s (self_of t) = Some x ->
  exec1 s t held ICleanup =
    (set_reg (set_subs s (unsub_all (subs s) (a_path x))) (aremove (reg s) (a_path x)),
     (match a_watchers x with
      | [] => []
      | l => [IEnqAny true (map snd l) (RObj (self_of t)) (MKilled (RObj (self_of t)))]
      end)
     ++ (match a_parent x with
         | Some p => [IEnq true (RObj p) (RObj (self_of t)) (MKilled (RObj (self_of t))); IEnqDone]
         | None => []
         end)
     ++ [IPub evKilled (actor_key x); IResume1]).
Proof. intros H. unfold exec1. rewrite H. reflexivity. Qed.

Lemma cleanup_notifies_parent s t held x p :
  get s (self_of t) = Some x -> a_parent x = Some p ->
  instr_sends (snd (exec1 s t held ICleanup)) = [(RObj p, true, MKilled (RObj (self_of t)))].
Proof.
  intros H Hp. rewrite (exec1_ICleanup _ _ _ _ H). cbn [snd]. rewrite Hp, !instr_sends_app.
  destruct (a_watchers x); reflexivity.
Qed.

(** Resume: CommandResumeMailbox only resumes the mailbox *)
Lemma dispatch_MCmdResume s a x e :
  e_msg e = MCmdResume -> dead_for x e = false ->
  dispatch s a x e = (set_actor s a (set_cur x e), [IResume1; IPub evResumed (actor_key x); IEndHandler]).
Proof. intros Hm Hd. rewrite (dead_for_dispatch _ _ _ _ Hd), Hm. reflexivity. Qed.

Lemma dispatch_MCmdPause s a x e :
  e_msg e = MCmdPause -> dead_for x e = false ->
  dispatch s a x e = (set_actor s a (set_cur x e), [IPauseSt; IPub evPaused (actor_key x); IEndHandler]).
Proof. intros Hm Hd. rewrite (dead_for_dispatch _ _ _ _ Hd), Hm. reflexivity. Qed.

Lemma set_cur_same x e : stable x (set_cur x e) /\ same_user_state x (set_cur x e) /\ same_queues x (set_cur x e) /\ a_cons (set_cur x e) = a_cons x.
Proof. unfold stable, same_user_state, same_queues. cbn. repeat split. Qed.

Lemma step_EvResume1 s t x rest :
  pend_of s t = IResume1 :: rest -> get s (self_of t) = Some x -> a_paused x = true ->
  step s (EvResume1 t) = set_pend (set_actor s (self_of t) (set_mb x (a_sq x) (a_uq x) false (a_cons x) (a_cur x))) t (IResume2 :: rest).
Proof. intros Hp H Hpa. cbn [step]. rewrite Hp, H, Hpa. reflexivity. Qed.

(* ------------------------------------------------------------------ nothing but a queue insertion fills a queue *)

Lemma keeps_mail_refl st s : keeps_mail st s s.
Proof. intros b y H. exists y. auto 10. Qed.

Lemma keeps_mail_actors st s s' : actors s' = actors s -> keeps_mail st s s'.
Proof. intros E b y H. exists y. unfold get in *. rewrite E. auto 10. Qed.

Lemma keeps_mail_set_actor st s a x x' :
  get s a = Some x -> a_sq x' = a_sq x -> a_uq x' = a_uq x -> a_paused x' = a_paused x ->
  (st = true -> a_stash x' = a_stash x) -> keeps_mail st s (set_actor s a x').
Proof.
  intros H E1 E2 E3 E5 b y Hb. destruct (Nat.eq_dec a b) as [->|N].
  - rewrite (get_set_actor_same _ _ _ _ H). rewrite H in Hb; inversion Hb; subst. exists x'. auto 10.
  - rewrite get_set_actor_other by exact N. exists y. auto 10.
Qed.

Lemma keeps_mail_trans st s1 s2 s3 : keeps_mail st s1 s2 -> keeps_mail st s2 s3 -> keeps_mail st s1 s3.
Proof.
  intros H1 H2 b y H. destruct (H1 b y H) as (y' & H' & A1 & A2 & A3 & A5).
  destruct (H2 b y' H') as (y'' & H'' & B1 & B2 & B3 & B5). exists y''.
  repeat split; try congruence. intros E. rewrite (B5 E), (A5 E). reflexivity.
Qed.

Ltac mail_solve :=
  first
    [ apply keeps_mail_refl
    | apply keeps_mail_actors; reflexivity
    | eapply keeps_mail_set_actor; [eassumption|..];
      repeat match goal with |- context[match ?e with _ => _ end] => destruct e end; solve [reflexivity | intros; reflexivity | discriminate] ].

Lemma exec1_keeps_mail s t held i : keeps_mail (negb (touches_stash i)) s (fst (exec1 s t held i)).
Proof.
  unfold exec1. destruct (get s (self_of t)) as [x|] eqn:Hx; [|cbn; mail_solve].
  destruct i as [sys to sender m|sys to sender m|to e| |sys tos sender m|c d rem done| | | |a|m acts r| |ty payload|poison|who| | | | |c d targets|o| ];
    cbn [fst touches_stash negb]; try mail_solve.
  - destruct rem; cbn [fst]; mail_solve.
  - destruct a as [r tag acts|tag acts|sp|r poison| |n| |r|r|ty|ty| |ty payload|mode discard|discard]; cbn [fst negb]; try mail_solve.
    + (* ASpawn *)
      destruct (a_state x); cbn [fst]; try mail_solve.
      all: destruct (negb (sp_prelaunch sp)); cbn [fst]; [mail_solve|].
      all: destruct (alookup (reg s) (a_path x ++ [sp_name sp])); cbn [fst]; [mail_solve|].
      all: unfold with_actor;
        match goal with |- context[match get ?s1 ?a1 with _ => _ end] =>
          assert (Hg : get s1 a1 = Some x)
            by (unfold get in *; cbn; rewrite nth_error_app1; [exact Hx|apply nth_error_Some; congruence]);
          rewrite Hg; apply keeps_mail_trans with s1
        end.
      all: try (intros b y Hb; exists y; split; [unfold get in *; cbn; rewrite nth_error_app1; [exact Hb|apply nth_error_Some; congruence]|auto 10]).
      all: mail_solve.
    + destruct (a_cur x); cbn [fst]; mail_solve.
    + destruct n; [|destruct (a_stash x); cbn [fst]; mail_solve].
      destruct (Nat.eqb (length (a_stash x)) 0); cbn [fst]; mail_solve.
    + destruct (alookup (subscribers s ty) (a_path x)); cbn [fst]; mail_solve.
    + destruct (nlookup (subs s) ty); cbn [fst]; mail_solve.
  - destruct (a_zombie x); cbn [fst]; [mail_solve|].
    destruct (a_parent x).
    + destruct (take_until_panic acts). cbn [fst]. mail_solve.
    + destruct m; cbn [fst]; try mail_solve. destruct (ref_eq s who (RObj (self_of t))); cbn [fst]; mail_solve.
  - destruct (subscribers s ty); cbn [fst]; mail_solve.
  - destruct (a_zombie x); cbn [fst]; [mail_solve|].
    destruct (ref_eq s who (RObj (self_of t))); cbn [fst]; mail_solve.
  - destruct (a_children x); [|cbn [fst]; mail_solve]. destruct (a_state x); cbn [fst]; try mail_solve.
  - destruct (a_hooks x) as [|[[h1 h2] h3] rest]; [cbn [fst]; mail_solve|].
    destruct (h2 && h3); cbn [fst]; mail_solve.
  - destruct d; cbn [fst]; mail_solve.
Qed.

Lemma instr_direct_app l1 l2 : instr_direct (l1 ++ l2) = instr_direct l1 ++ instr_direct l2.
Proof. induction l1 as [|i r IH]; [reflexivity|]. destruct i; cbn; rewrite ?IH; reflexivity. Qed.

Lemma instr_direct_acts l : instr_direct (map IAct l) = [].
Proof. induction l; [reflexivity|exact IHl]. Qed.

Lemma instr_direct_tells sys sender (m : rref -> msg) l :
  instr_direct (flat_map (fun r => [IEnq sys r sender (m r); IEnqDone]) l) = [].
Proof. induction l; [reflexivity|exact IHl]. Qed.

Lemma instr_direct_unstash self l :
  instr_direct (flat_map (fun e => [IEnqMb self e; IEnqDone]) l) = map (pair self) l.
Proof. induction l as [|e l IH]; [reflexivity|]. cbn. rewrite IH. reflexivity. Qed.

Lemma firstn_in {A} n (l : list A) x : In x (firstn n l) -> In x l.
Proof. revert l; induction n as [|n IH]; intros [|h t]; cbn; auto; try tauto. intros [->|H]; auto. Qed.

(** the only envelopes an instruction hands directly to a mailbox are a fresh TellSelf message and stashed
    envelopes released by Unstash (both to the own mailbox) *)
Lemma exec1_direct s t held i x b e :
  get s (self_of t) = Some x -> In (b, e) (instr_direct (snd (exec1 s t held i))) ->
  b = self_of t /\
  ((exists tag acts, i = IAct (ATellSelf tag acts) /\ e = {| e_sys := false; e_sender := RObj (self_of t); e_msg := MUser tag acts |}) \/
   (exists n, i = IAct (AUnstash n) /\ In e (a_stash x))).
Proof.
  intros Hx. unfold exec1. rewrite Hx.
  destruct i as [sys to sender m|sys to sender m|to e0| |sys tos sender m|c d rem done| | | |a|m acts r| |ty payload|poison|who| | | | |c d targets|o| ];
    cbn [snd instr_direct]; try (intros []; fail).
  - destruct rem; intros [].
  - destruct a as [r tag acts|tag acts|sp|r poison| |n| |r|r|ty|ty| |ty payload|mode discard|discard]; cbn [snd instr_direct]; try (intros []; fail).
    + intros [E|[]]. inversion E; subst. eauto 8.
    + destruct (a_state x); cbn [snd instr_direct]; try (intros []; fail).
      all: destruct (negb (sp_prelaunch sp)); cbn [snd instr_direct]; [intros []|].
      all: destruct (alookup (reg s) (a_path x ++ [sp_name sp])); cbn [snd instr_direct]; intros [].
    + destruct (a_cur x); intros [].
    + destruct n as [n|].
      * destruct (Nat.eqb (length (a_stash x)) 0); cbn [snd instr_direct]; [intros []|].
        rewrite instr_direct_unstash. intros H. apply in_map_iff in H as (e1 & E & H1). inversion E; subst.
        split; [reflexivity|]. right. eexists; split; [reflexivity|]. eapply firstn_in; eauto.
      * destruct (a_stash x) eqn:Es; cbn [snd instr_direct]; [intros []|]. intros [E|[]]. inversion E; subst.
        split; [reflexivity|]. right. eexists; split; [reflexivity|]. left; reflexivity.
    + destruct (alookup (subscribers s ty) (a_path x)); intros [].
    + destruct (nlookup (subs s) ty); intros [].
  - destruct (a_zombie x); [intros []|]. destruct (a_parent x).
    + destruct (take_until_panic acts) as [pre pn]. cbn [snd]. rewrite instr_direct_app, instr_direct_acts.
      destruct pn; [|intros []]. destruct r; [intros []|intros []|]. destruct (a_state x); try (intros []; fail).
      destruct (ref_eq s who (RObj (self_of t))); intros [].
    + destruct m; try (intros []; fail). destruct (ref_eq s who (RObj (self_of t))); intros [].
  - destruct (subscribers s ty); intros [].
  - rewrite instr_direct_app. destruct (a_children x); intros [].
  - destruct (a_zombie x); [intros []|]. destruct (ref_eq s who (RObj (self_of t))); intros [].
  - destruct (a_children x); [|intros []]. destruct (a_state x); try (intros []; fail).
    cbn [snd]. destruct (a_restarting x); intros [].
  - rewrite !instr_direct_app. destruct (a_watchers x), (a_parent x); intros [].
  - destruct (a_hooks x) as [|[[h1 h2] h3] rest]; [intros []|]. destruct (h2 && h3); intros [].
  - destruct d; cbn [snd is_graceful negb]; rewrite ?instr_direct_app, ?instr_direct_tells; intros [].
Qed.

(* ------------------------------------------------------------------ C08-e: failure reports *)

Lemma count_failed_acts l : count_failed (map IAct l) = 0.
Proof. induction l; [reflexivity|exact IHl]. Qed.

Lemma count_failed_app l1 l2 : count_failed (l1 ++ l2) = count_failed l1 + count_failed l2.
Proof. induction l1 as [|i r IH]; [reflexivity|]. destruct i; cbn; rewrite ?IH; reflexivity. Qed.

(** running the user behaviour for message [m] (any actor that is not the guard and not a zombie) *)
Lemma exec1_IBeh s t held x p m acts r :
  get s (self_of t) = Some x -> a_zombie x = false -> a_parent x = Some p ->
  exec1 s t held (IBeh m acts r) =
    (add_obs s (OSeen (self_of t) (a_inst x) (match a_cons x with CBusy md => md | _ => mode_top x end) m),
     map IAct (fst (take_until_panic acts)) ++
     if snd (take_until_panic acts) then
       match r with
       | RecLog => []
       | RecFail => [IFailed]
       | RecKilled who => match a_state x with Running => if ref_eq s who (RObj (self_of t)) then [] else [IFailed] | _ => [] end
       end
     else []).
Proof. intros H Hz Hp. unfold exec1. rewrite H, Hz, Hp. destruct (take_until_panic acts). reflexivity. Qed.

(** a panic (or Failed) in a behaviour run with the RecFail recovery yields exactly one failure report,
    no panic yields none *)
Lemma failure_reports_once s t held x p m acts :
  get s (self_of t) = Some x -> a_zombie x = false -> a_parent x = Some p ->
  count_failed (snd (exec1 s t held (IBeh m acts RecFail))) = if snd (take_until_panic acts) then 1 else 0.
Proof.
  intros H Hz Hp. rewrite (exec1_IBeh _ _ _ _ _ _ _ _ H Hz Hp). cbn [snd].
  rewrite count_failed_app, count_failed_acts. destruct (snd (take_until_panic acts)); reflexivity.
Qed.

Lemma exec1_IFailed s t held x :
  get s (self_of t) = Some x ->
  exec1 s t held IFailed =
    (s, [IPauseSt; IEnq true (rref_parent x) (RObj (self_of t)) (MSup (SupCtx (RObj (self_of t)) [] None)); IEnqDone;
         IPub evFailed (actor_key x); IPub evPaused (actor_key x)]).
Proof. intros H. unfold exec1. rewrite H. reflexivity. Qed.

(** no supervision while stopping: the recovery used for OnKill and for the own OnKilled never reports;
    the recovery used for a child's OnKilled reports only in state running *)
Lemma no_report_RecLog s t held m acts : count_failed (snd (exec1 s t held (IBeh m acts RecLog))) = 0.
Proof.
  unfold exec1. destruct (get s (self_of t)) as [x|]; [|reflexivity].
  destruct (a_zombie x); [reflexivity|]. destruct (a_parent x).
  - destruct (take_until_panic acts) as [pre pn]. cbn [snd]. rewrite count_failed_app, count_failed_acts.
    destruct pn; reflexivity.
  - destruct m; try reflexivity. destruct (ref_eq s who (RObj (self_of t))); reflexivity.
Qed.

Lemma no_report_RecKilled s t held x m acts who :
  get s (self_of t) = Some x -> a_state x <> Running \/ ref_eq s who (RObj (self_of t)) = true ->
  count_failed (snd (exec1 s t held (IBeh m acts (RecKilled who)))) = 0.
Proof.
  intros H Hc. unfold exec1. rewrite H.
  destruct (a_zombie x); [reflexivity|]. destruct (a_parent x).
  - destruct (take_until_panic acts) as [pre pn]. cbn [snd]. rewrite count_failed_app, count_failed_acts.
    destruct pn; [|reflexivity]. destruct (a_state x); try reflexivity.
    destruct Hc as [Hc|Hc]; [contradiction|]. rewrite Hc. reflexivity.
  - destruct m; try reflexivity. destruct (ref_eq s who0 (RObj (self_of t))); reflexivity.
Qed.

(** the stop sequence runs OnKill with RecLog and the own OnKilled with RecLog *)
Lemma stop_sequence_recoveries s t held x poison :
  get s (self_of t) = Some x ->
  (forall m acts r, In (IBeh m acts r) (snd (exec1 s t held (IDoKill poison))) -> r = RecLog) /\
  (forall m acts r, In (IBeh m acts r) (snd (exec1 s t held ICheckMark)) -> r = RecLog).
Proof.
  intros H. split; intros m acts r Hin.
  - rewrite (exec1_IDoKill _ _ _ _ _ H) in Hin. cbn [snd] in Hin. apply in_app_or in Hin as [Hin|Hin].
    + destruct (a_children x); [destruct Hin|]. destruct Hin as [E|[]]; discriminate.
    + destruct Hin as [E|[E|[]]]; [inversion E; reflexivity|discriminate].
  - unfold exec1 in Hin. rewrite H in Hin. destruct (a_children x); [|destruct Hin].
    destruct (a_state x); try (destruct Hin; fail). cbn [snd] in Hin.
    destruct Hin as [E|Hin]; [inversion E; reflexivity|]. destruct (a_restarting x); destruct Hin as [E|[]]; discriminate.
Qed.

(** the system default at the top: the root has no strategy, it stops the failing top-level actor *)
Lemma root_default s x c : reachable s -> get s 0 = Some x -> sup_decide x = (DStop, a_decisions x) /\ sup_targets x c = [sc_child c].
Proof.
  intros Hr H. destruct (root_inv s Hr) as (x0 & H0 & Hs & _). rewrite H in H0; inversion H0; subst x0.
  unfold sup_decide, sup_targets. rewrite Hs. split; reflexivity.
Qed.

(* ------------------------------------------------------------------ assembled statements *)

Lemma perm_singleton {A} (a : A) l : Permutation [a] l -> l = [a].
Proof. intros H. apply Permutation_length_1_inv. exact H. Qed.

Lemma targets_order x c order :
  pick_order (sup_targets x c) order ->
  (sp_strategy (a_spec x) <> 2%N -> order = [sc_child c]) /\
  (sp_strategy (a_spec x) = 2%N -> Permutation (map (fun p => RObj (snd p)) (a_children x)) order).
Proof.
  intros H. apply pick_order_perm in H. destruct (sup_targets_spec x c) as [H2 H1]. split.
  - intros N. rewrite (H1 N) in H. apply perm_singleton, H.
  - intros E. rewrite (H2 E) in H. exact H.
Qed.

Lemma pause_then_directive s t held x c d order :
  get s (self_of t) = Some x ->
  exec1 s t held (ISupPause c d [] order) = (s, [ISupApply c d order]) /\
  exists ins, exec1 s t held (ISupApply c d order) = (s, ins) /\
    map (fun r => (r, true, MCmdPause)) order ++ instr_sends ins = sup_sends (self_of t) x c d order /\
    (forall i, In i ins -> i = IEnqDone \/ i = IPauseSt \/ exists sys to m, i = IEnq sys to (RObj (self_of t)) m) /\
    (In IPauseSt ins <-> is_escalation d = true).
Proof.
  intros H. split; [apply (exec1_ISupPause_nil _ _ _ _ _ _ _ H)|].
  destruct (exec1_ISupApply s t held x c d order H) as (ins & E & Hs & Hi & Hp).
  exists ins. split; [exact E|]. split; [|split; assumption]. unfold sup_sends. rewrite Hs. reflexivity.
Qed.

Lemma failure_sites s a x e :
  dead_for x e = false ->
  (e_msg e = MLaunch ->
     dispatch s a x e = (set_actor s a (set_cur x e), [IBeh MLaunch (sp_launch (a_spec x)) RecFail; IPub evLaunched (actor_key x); IEndHandler])) /\
  (forall tag acts, e_msg e = MUser tag acts ->
     dispatch s a x e = (set_actor s a (set_cur x e), [IBeh (MUser tag acts) acts RecFail; IEndHandler])) /\
  (forall ty payload, e_msg e = MEvent ty payload ->
     dispatch s a x e = (set_actor s a (set_cur x e), [IBeh (MEvent ty payload) [] RecFail; IEndHandler])) /\
  (forall who, e_msg e = MKilled who ->
     dispatch s a x e = (set_actor s a (set_cur x e), [IOnKilled who; IEndHandler])).
Proof.
  intros Hd. rewrite (dead_for_dispatch _ _ _ _ Hd). repeat split; intros; rewrite H; reflexivity.
Qed.

(** OnKilled of another actor (a child, a watched actor): the behaviour runs with the RecKilled recovery *)
Lemma exec1_IOnKilled_other s t held x who :
  get s (self_of t) = Some x -> a_zombie x = false -> ref_eq s who (RObj (self_of t)) = false ->
  snd (exec1 s t held (IOnKilled who)) = [IBeh (MKilled who) (sp_killed (a_spec x)) (RecKilled who); ICheckMark].
Proof. intros H Hz Hr. unfold exec1. rewrite H, Hz, Hr. reflexivity. Qed.

Lemma failed_reports_to_parent s t held x :
  get s (self_of t) = Some x ->
  exists ins, exec1 s t held IFailed = (s, IPauseSt :: ins) /\
    instr_sends ins = [(rref_parent x, true, MSup (SupCtx (RObj (self_of t)) [] None))] /\
    count_sup (instr_sends ins) = 1 /\ count_failed ins = 0.
Proof. intros H. rewrite (exec1_IFailed _ _ _ _ H). eexists; split; [reflexivity|]. repeat split. Qed.

Lemma root_decides_stop s x e c :
  reachable s -> get s 0 = Some x -> e_msg e = MSup c -> dead_for x e = false ->
  dispatch s 0 x e = (set_actor s 0 (set_decisions (set_cur x e) (a_decisions x)), [ISupPause c DStop [sc_child c] []; IEndHandler]).
Proof.
  intros Hr H Hm Hd. rewrite (dispatch_MSup _ _ _ _ _ Hm Hd).
  destruct (root_default s x c Hr H) as [-> ->]. reflexivity.
Qed.

Lemma dispatch_keeps_mail s a x e : get s a = Some x -> keeps_mail true s (fst (dispatch s a x e)).
Proof.
  intros Hx. unfold dispatch.
  repeat match goal with |- context[match ?e with _ => _ end] => destruct e end; cbn [fst]; try mail_solve.
  all: eapply keeps_mail_trans; [|apply keeps_mail_actors; reflexivity]; mail_solve.
Qed.

Lemma dispatch_direct s a x e b e' :
  In (b, e') (instr_direct (snd (dispatch s a x e))) ->
  dead_for x e = true /\ b = 0 /\ e' = {| e_sys := false; e_sender := root_ref; e_msg := MDeadLetter (e_sys e) (e_msg e) |}.
Proof.
  unfold dispatch, dead_for. cbv zeta.
  destruct (_ && negb (a_zombie x)).
  - destruct (a_parent x); cbn [snd instr_direct]; [|intros []]. intros [E|[]]. inversion E; subst. auto.
  - repeat match goal with |- context[match ?e with _ => _ end] => destruct e end; cbn [snd];
      rewrite ?instr_direct_app; cbn; intros H; try (destruct H; fail).
Qed.

Lemma stop_notifies_parent s t held x p :
  get s (self_of t) = Some x -> a_parent x = Some p ->
  exec1 s t held ICleanup =
    (set_reg (set_subs s (unsub_all (subs s) (a_path x))) (aremove (reg s) (a_path x)),
     (match a_watchers x with
      | [] => []
      | l => [IEnqAny true (map snd l) (RObj (self_of t)) (MKilled (RObj (self_of t)))]
      end)
     ++ [IEnq true (RObj p) (RObj (self_of t)) (MKilled (RObj (self_of t))); IEnqDone]
     ++ [IPub evKilled (actor_key x); IResume1]) /\
  instr_sends (snd (exec1 s t held ICleanup)) = [(RObj p, true, MKilled (RObj (self_of t)))].
Proof.
  intros H Hp. split; [|apply (cleanup_notifies_parent _ _ _ _ _ H Hp)].
  rewrite (exec1_ICleanup _ _ _ _ H), Hp. reflexivity.
Qed.

Lemma resume_only_resumes s a x e :
  e_msg e = MCmdResume -> dead_for x e = false ->
  dispatch s a x e = (set_actor s a (set_cur x e), [IResume1; IPub evResumed (actor_key x); IEndHandler]) /\
  stable x (set_cur x e) /\ same_user_state x (set_cur x e) /\ same_queues x (set_cur x e) /\ a_cons (set_cur x e) = a_cons x.
Proof. intros Hm Hd. split; [apply dispatch_MCmdResume; assumption|apply set_cur_same]. Qed.

Lemma failure_reports_once_full s t held x p m acts :
  get s (self_of t) = Some x -> a_zombie x = false -> a_parent x = Some p ->
  exec1 s t held (IBeh m acts RecFail) =
    (add_obs s (OSeen (self_of t) (a_inst x) (match a_cons x with CBusy md => md | _ => mode_top x end) m),
     map IAct (fst (take_until_panic acts)) ++ if snd (take_until_panic acts) then [IFailed] else []) /\
  count_failed (snd (exec1 s t held (IBeh m acts RecFail))) = if snd (take_until_panic acts) then 1 else 0.
Proof.
  intros H Hz Hp. split; [exact (exec1_IBeh s t held x p m acts RecFail H Hz Hp)|apply (failure_reports_once _ _ _ _ _ _ _ H Hz Hp)].
Qed.

(* ------------------------------------------------------------------ interleaving does not disturb a handler *)

Lemma nth_error_map_eq {A B} (f : A -> B) (l1 l2 : list A) i :
  map f l1 = map f l2 ->
  match nth_error l1 i with Some x => Some (f x) | None => None end =
  match nth_error l2 i with Some x => Some (f x) | None => None end.
Proof.
  revert l2 i; induction l1 as [|h t IH]; intros [|h2 t2] [|i] E; cbn in *; try discriminate; auto.
  - inversion E. congruence.
  - inversion E. apply IH. assumption.
Qed.

Lemma pend_of_set_pend_other s t0 p t : t <> t0 -> pend_of (set_pend s t0 p) t = pend_of s t.
Proof.
  intros N. destruct t0 as [a|i]; cbn [set_pend]; unfold with_actor.
  - destruct (get s a) as [x|] eqn:E; [|reflexivity]. destruct t as [b|j]; [|reflexivity].
    cbn [pend_of]. rewrite get_set_actor_other; [reflexivity|congruence].
  - destruct (nth_error (exts s) i) as [x|] eqn:E; [|reflexivity]. destruct t as [b|j]; [reflexivity|].
    cbn [pend_of exts set_ext]. rewrite nth_error_upd_other; [reflexivity|congruence].
Qed.

Lemma prim_pend_frame t0 s s' t : prim t0 s s' -> t <> t0 -> pend_of s' t = pend_of s t.
Proof.
  intros Hp N. destruct Hp; try reflexivity.
  - destruct t as [b|j]; [|reflexivity]. cbn [pend_of]. destruct (Nat.eq_dec a b) as [->|Nb].
    + rewrite (get_set_actor_same _ _ _ _ H), H. destruct H0 as (_ & _ & _ & _ & E). exact E.
    + rewrite get_set_actor_other by exact Nb. reflexivity.
  - apply pend_of_set_pend_other, N.
  - destruct t as [b|j]; cbn [pend_of].
    + unfold get; cbn [actors]. destruct (nth_error (actors s) b) as [y|] eqn:E.
      * rewrite nth_error_app1; [rewrite E; reflexivity|apply nth_error_Some; congruence].
      * apply nth_error_None in E. destruct (Nat.eq_dec b (length (actors s))) as [->|Nb].
        -- rewrite nth_error_app2 by lia. rewrite Nat.sub_diag. reflexivity.
        -- rewrite (proj2 (nth_error_None _ _)); [reflexivity|]. rewrite app_length. cbn. lia.
    + cbn [exts]. pose proof (nth_error_map_eq x_pend exts' (exts s) j H) as E.
      destruct (nth_error exts' j), (nth_error (exts s) j); inversion E; congruence.
Qed.

Lemma prims_pend_frame t0 s s' t : prims t0 s s' -> t <> t0 -> pend_of s' t = pend_of s t.
Proof. intros H N. induction H; [reflexivity|]. rewrite (prim_pend_frame _ _ _ _ H0 N). exact IHprims. Qed.

(** a step performed by another thread leaves the instruction list of thread [t] as it is *)
Lemma step_pend_frame s ev t : ev_thread ev <> t -> pend_of (step s ev) t = pend_of s t.
Proof. intros N. eapply prims_pend_frame; [apply step_prims|congruence]. Qed.

Lemma pend_of_set_actor_keep s a x x' t : get s a = Some x -> a_pend x' = a_pend x -> pend_of (set_actor s a x') t = pend_of s t.
Proof.
  intros H E. destruct t as [b|j]; [|reflexivity]. cbn [pend_of]. destruct (Nat.eq_dec a b) as [->|N].
  - rewrite (get_set_actor_same _ _ _ _ H), H. exact E.
  - rewrite get_set_actor_other by exact N. reflexivity.
Qed.

(** the consumer's queue operations never touch an instruction list *)
Lemma consumer_pend_frame s a t :
  pend_of (step s (EvSysPop a)) t = pend_of s t /\
  pend_of (step s (EvLoadPaused a)) t = pend_of s t /\
  pend_of (step s (EvUserPop a)) t = pend_of s t.
Proof.
  cbn [step]. destruct (get s a) as [x|] eqn:H; [|auto].
  repeat split.
  - destruct (a_cons x), (a_sq x); try reflexivity; apply (pend_of_set_actor_keep _ _ _ _ _ H); reflexivity.
  - destruct (a_cons x); try reflexivity; apply (pend_of_set_actor_keep _ _ _ _ _ H); reflexivity.
  - destruct (a_cons x), (a_uq x); try reflexivity; apply (pend_of_set_actor_keep _ _ _ _ _ H); reflexivity.
Qed.

Lemma run_atomic_err f s t : err s = true -> err (run_atomic f s t) = true.
Proof. intros H. eapply (prims_inv (fun s => err s = true)); [intros; eapply prim_err; eassumption|apply run_atomic_prims|exact H]. Qed.

Lemma tid_eq_dec (t1 t2 : tid) : {t1 = t2} + {t1 <> t2}.
Proof. decide equality; apply Nat.eq_dec. Qed.

Lemma run_atomic_yield f s t i rest : pend_of s t = i :: rest -> yielding i = true -> run_atomic (S f) s t = s.
Proof. intros Hp Hy. cbn [run_atomic]. rewrite Hp. destruct i; try discriminate; rewrite ?Hy; reflexivity. Qed.

Lemma FUEL_S : exists f, FUEL = S f.
Proof. exists 3999. reflexivity. Qed.

(** the pause phase of the supervision handler of thread [t], under ANY interleaving: a step either leaves
    the phase's instruction list as it is, or is the thread's own queue insertion of the next pause
    (EvPush: target [to] chosen, moved from [rem] to [done]), or the end of that Enqueue (EvEnqDone; when
    nothing remains the atomic run that follows starts with [ISupPause c d [] done], i.e. applies the decision).
    (An actor's handler is entered by EvHandle only when no handler is running: hypothesis on [ev].) *)
Lemma sup_pause_phase_step s t c d rem done rest ev :
  (forall a, t = TA a -> ev <> EvHandle a) -> err (step s ev) = false ->
  (pend_of s t = ISupPause c d rem done :: rest -> rem <> [] ->
     pend_of (step s ev) t = ISupPause c d rem done :: rest \/
     exists k to, ev = EvPush t k /\ nth_error rem k = Some to /\
        pend_of (step s ev) t = IEnqDone :: ISupPause c d (remove_nth k rem) (done ++ [to]) :: rest) /\
  (pend_of s t = IEnqDone :: ISupPause c d rem done :: rest ->
     pend_of (step s ev) t = IEnqDone :: ISupPause c d rem done :: rest \/
     (ev = EvEnqDone t /\ step s ev = run_atomic FUEL (set_pend s t (ISupPause c d rem done :: rest)) t /\
      (rem <> [] -> pend_of (step s ev) t = ISupPause c d rem done :: rest))).
Proof.
  intros Hh He. destruct FUEL_S as [fu Hfu].
  destruct (tid_eq_dec (ev_thread ev) t) as [Et|Nt];
    [|split; intros Hp; [intros _|]; left; rewrite (step_pend_frame _ _ _ Nt); exact Hp].
  destruct ev as [a|a|a|a|t' k|t'|t'|t'|t'|i]; cbn [ev_thread] in Et; subst t.
  - destruct (consumer_pend_frame s a (TA a)) as (E & _ & _). rewrite E. split; auto.
  - destruct (consumer_pend_frame s a (TA a)) as (_ & E & _). rewrite E. split; auto.
  - destruct (consumer_pend_frame s a (TA a)) as (_ & _ & E). rewrite E. split; auto.
  - exfalso. apply (Hh a eq_refl eq_refl).
  - split; intros Hp.
    + intros _. right. destruct (step_ISupPause s t' k c d rem done rest Hp He) as (to & Hk & _ & E). eauto.
    + exfalso. cbn [step] in He. rewrite Hp in He. discriminate.
  - split; intros Hp.
    + exfalso. cbn [step] in He. rewrite Hp in He. discriminate.
    + right. split; [reflexivity|]. cbn [step] in *. rewrite Hp in *. split; [reflexivity|]. intros Hr.
      destruct (err (set_pend s t' (ISupPause c d rem done :: rest))) eqn:E1.
      * rewrite (run_atomic_err _ _ _ E1) in He. discriminate.
      * pose proof (pend_of_set_pend _ _ _ E1) as E2. rewrite Hfu.
        rewrite (run_atomic_yield _ _ _ _ _ E2); [exact E2|]. destruct rem; [contradiction|reflexivity].
  - split; intros Hp; [intros _|]; exfalso; cbn [step] in He; rewrite Hp in He; discriminate.
  - split; intros Hp; [intros _|]; exfalso; cbn [step] in He; rewrite Hp in He; discriminate.
  - split; intros Hp; [intros _|]; exfalso; cbn [step] in He; rewrite Hp in He; discriminate.
  - cbn [step]. rewrite Hfu. split; intros Hp; [intros Hr|]; left.
    + rewrite (run_atomic_yield _ _ _ _ _ Hp); [exact Hp|]. destruct rem; [contradiction|reflexivity].
    + rewrite (run_atomic_yield _ _ _ _ _ Hp); [exact Hp|reflexivity].
Qed.

(** the same for a map range (children of a stopping actor, watchers, the subscriber snapshot of a publish) *)
Lemma enq_any_phase_step s t sys tos sender m rest ev :
  (forall a, t = TA a -> ev <> EvHandle a) -> err (step s ev) = false ->
  pend_of s t = IEnqAny sys tos sender m :: rest ->
  pend_of (step s ev) t = IEnqAny sys tos sender m :: rest \/
  exists k to, ev = EvPush t k /\ nth_error tos k = Some to /\
    pend_of (step s ev) t = IEnqDone :: match remove_nth k tos with [] => rest | _ :: _ => IEnqAny sys (remove_nth k tos) sender m :: rest end.
Proof.
  intros Hh He Hp. destruct FUEL_S as [fu Hfu].
  destruct (tid_eq_dec (ev_thread ev) t) as [Et|Nt]; [|left; rewrite (step_pend_frame _ _ _ Nt); exact Hp].
  destruct ev as [a|a|a|a|t' k|t'|t'|t'|t'|i]; cbn [ev_thread] in Et; subst t.
  - destruct (consumer_pend_frame s a (TA a)) as (E & _ & _). rewrite E. auto.
  - destruct (consumer_pend_frame s a (TA a)) as (_ & E & _). rewrite E. auto.
  - destruct (consumer_pend_frame s a (TA a)) as (_ & _ & E). rewrite E. auto.
  - exfalso. apply (Hh a eq_refl eq_refl).
  - right. destruct (step_IEnqAny s t' k sys tos sender m rest Hp He) as (to & Hk & _ & E). eauto.
  - exfalso; cbn [step] in He; rewrite Hp in He; discriminate.
  - exfalso; cbn [step] in He; rewrite Hp in He; discriminate.
  - exfalso; cbn [step] in He; rewrite Hp in He; discriminate.
  - exfalso; cbn [step] in He; rewrite Hp in He; discriminate.
  - left. cbn [step]. rewrite Hfu. rewrite (run_atomic_yield _ _ _ _ _ Hp); [exact Hp|reflexivity].
Qed.

(* ------------------------------------------------------------------ failure reports from a stopping actor *)

(** which handlers of an actor that is not running (and not a zombie) run user code under RecFail: only
    system-flagged OnLaunch / user-kind messages in state killing (user-kind messages are never sent with the
    system flag; OnLaunch is) *)
Lemma stopping_recfail_only_launch s a x e m acts :
  a_state x <> Running -> a_zombie x = false -> In (IBeh m acts RecFail) (snd (dispatch s a x e)) ->
  a_state x = Killing /\ e_sys e = true /\
  (e_msg e = MLaunch \/ (exists tag acts', e_msg e = MUser tag acts') \/ (exists ty pl, e_msg e = MEvent ty pl) \/
   exists sy inner, e_msg e = MDeadLetter sy inner).
Proof.
  intros Hs Hz. unfold dispatch. cbv zeta. rewrite Hz.
  destruct (a_state x); [contradiction| |].
  - destruct (e_sys e), (e_msg e); cbn [negb andb snd];
      repeat match goal with |- context[match ?e with _ => _ end] => destruct e end; cbn [snd];
      intros H; repeat (destruct H as [H|H]; try discriminate); try (destruct H; fail); eauto 10.
    all: try (apply in_app_or in H as [H|H]; repeat (destruct H as [H|H]; try discriminate); destruct H).
  - destruct (a_parent x); cbn [snd]; intros H; repeat (destruct H as [H|H]; try discriminate); destruct H.
Qed.

(** ... and that case is reachable: a reachable state in which an actor in state killing has just produced a
    failure report (its own mailbox pause + the supervision report to its parent are the next instructions) *)
Lemma stopping_failure_witness :
  exists s a x rest, reachable s /\ get s a = Some x /\ a_state x = Killing /\ a_zombie x = false /\
    a_pend x = IPauseSt :: IEnq true (rref_parent x) (RObj a) (MSup (SupCtx (RObj a) [] None)) :: rest.
Proof.
  exists wit_state, 1. eexists; eexists. split; [exists wit_scripts, wit_events; split; [reflexivity|vm_compute; reflexivity]|].
  vm_compute. repeat split.
Qed.
