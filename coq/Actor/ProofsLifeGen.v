(** A generic skeleton: a state predicate that is insensitive to the mailbox part, preserved by the
    micro-step, by popping a plain head instruction, by the consumer moves and by HandleEnvelop, is
    preserved by every step (together with the phase invariant SInv). *)
From Coq Require Import List NArith ZArith Bool Lia.
From Vivid Require Import Base.Tm Actor.Core Actor.CoreRun Actor.SpecLife Actor.ProofsLife Actor.ProofsLifeInv Actor.ProofsLifeSum Actor.ProofsLifePhase.
Import ListNotations.
Local Open Scope N_scope.
#[local] Strategy 100 [run_atomic FUEL].

Section Gen.
  Variable Q : state -> Prop.

  Hypothesis Q_mb : forall s s', mb_equiv s s' -> Q s -> Q s'.
  Hypothesis Q_pop : forall s t i rest front,
    SInv s -> Q s -> pend_of s t = i :: rest -> sig i = false -> (forall j, In j front -> sig j = false) ->
    Q (set_pend s t (front ++ rest)).
  Hypothesis Q_astep : forall s t i rest,
    SInv s -> Q s -> err s = false -> pend_of s t = i :: rest -> yielding i = false ->
    (forall sys to sender m, i <> IEnq sys to sender m) -> err (astep s t i rest) = false -> Q (astep s t i rest).
  Hypothesis Q_cons : forall s a x sq uq pa co cu,
    SInv s -> Q s -> get s a = Some x -> is_busy (a_cons x) = false -> a_pend x = [] -> is_busy co = false ->
    (cu = a_cur x) ->
    Q (set_actor s a (set_mb x sq uq pa co cu)).
  Hypothesis Q_handle : forall s a x e s1 ins,
    SInv s -> Q s -> err s = false -> get s a = Some x -> a_cons x = CH e -> a_pend x = [] ->
    let x0 := set_mb x (a_sq x) (a_uq x) (a_paused x) (CBusy (mode_top x)) (a_cur x) in
    dispatch (set_actor s a x0) a x0 e = (s1, ins) ->
    Q (set_pend s1 (TA a) ins).

  Definition SQ (s : state) : Prop := SInv s /\ Q s.

  Lemma SQ_run_atomic f s t : SQ s -> err (run_atomic f s t) = false -> SQ (run_atomic f s t).
  Proof.
    apply (run_atomic_ind SQ t).
    - intros s0 i rest [HI HQ] He0 Hp Hy Hne He1. split; [apply SInv_astep; assumption|apply Q_astep; assumption].
    - intros s0 sys to sender m rest [HI HQ] _ Hp s' _. subst s'.
      pose proof (mb_equiv_resolve s0 to) as Hm.
      change (IEnqR sys (fst (resolve s0 to)) sender m :: rest) with ([IEnqR sys (fst (resolve s0 to)) sender m] ++ rest).
      assert (Hp' : pend_of (snd (resolve s0 to)) t = IEnq sys to sender m :: rest) by (rewrite (pend_of_mb _ _ t Hm); exact Hp).
      assert (Hf : forall j, In j [IEnqR sys (fst (resolve s0 to)) sender m] -> sig j = false) by (intros j [<-|[]]; reflexivity).
      split.
      + apply (SInv_pop_head _ t (IEnq sys to sender m) rest _ (SInv_mb _ _ Hm HI) Hp' eq_refl Hf).
      + apply (Q_pop _ t (IEnq sys to sender m) rest _ (SInv_mb _ _ Hm HI) (Q_mb _ _ Hm HQ) Hp' eq_refl Hf).
  Qed.

  Lemma SQ_mb s s' : mb_equiv s s' -> SQ s -> SQ s'.
  Proof. intros Hm [HI HQ]. split; [apply (SInv_mb _ _ Hm HI)|apply (Q_mb _ _ Hm HQ)]. Qed.

  Lemma SQ_pop_head s t i rest front :
    SQ s -> pend_of s t = i :: rest -> sig i = false -> (forall j, In j front -> sig j = false) ->
    SQ (set_pend s t (front ++ rest)).
  Proof. intros [HI HQ] Hp Hs Hf. split; [apply (SInv_pop_head s t i rest front HI Hp Hs Hf)|apply (Q_pop s t i rest front HI HQ Hp Hs Hf)]. Qed.

  Lemma SQ_pop s t i rest : SQ s -> pend_of s t = i :: rest -> sig i = false -> SQ (set_pend s t rest).
  Proof. intros H Hp Hs. apply (SQ_pop_head s t i rest [] H Hp Hs). intros j []. Qed.

  Lemma SQ_cons s a x sq uq pa co :
    SQ s -> get s a = Some x -> is_busy (a_cons x) = false -> is_busy co = false ->
    SQ (set_actor s a (set_mb x sq uq pa co (a_cur x))).
  Proof.
    intros [HI HQ] Hg Hb Hco. pose proof (proj1 HI a x Hg) as HIx. split.
    - apply (SInv_set_actor _ _ x _ HI Hg). apply INV_set_mb_idle; assumption.
    - apply Q_cons; try assumption; try reflexivity. apply (INV_not_busy _ _ HIx Hb).
  Qed.

  Lemma SQ_step_EvSysPop s a : SQ s -> err (step s (EvSysPop a)) = false -> SQ (step s (EvSysPop a)).
  Proof.
    intros HS Herr. cbn [step] in *.
    destruct (get s a) as [x|] eqn:Hg; [|discriminate].
    destruct (a_cons x) eqn:Hc; try discriminate; destruct (a_sq x); try discriminate;
    apply (SQ_cons s a x); try assumption; try reflexivity; rewrite Hc; reflexivity.
  Qed.

  Lemma SQ_step_EvLoadPaused s a : SQ s -> err (step s (EvLoadPaused a)) = false -> SQ (step s (EvLoadPaused a)).
  Proof.
    intros HS Herr. cbn [step] in *.
    destruct (get s a) as [x|] eqn:Hg; [|discriminate].
    destruct (a_cons x) eqn:Hc; try discriminate.
    apply (SQ_cons s a x); try assumption; try (rewrite Hc; reflexivity). destruct (a_paused x); reflexivity.
  Qed.

  Lemma SQ_step_EvUserPop s a : SQ s -> err (step s (EvUserPop a)) = false -> SQ (step s (EvUserPop a)).
  Proof.
    intros HS Herr. cbn [step] in *.
    destruct (get s a) as [x|] eqn:Hg; [|discriminate].
    destruct (a_cons x) eqn:Hc; try discriminate; destruct (a_uq x); try discriminate;
    apply (SQ_cons s a x); try assumption; try reflexivity; rewrite Hc; reflexivity.
  Qed.

  Lemma SQ_step_EvHandle s a : SQ s -> err (step s (EvHandle a)) = false -> SQ (step s (EvHandle a)).
  Proof.
    intros HS Herr. pose proof (err_false_step _ _ Herr) as He0. pose proof HS as [HI HQ]. cbn [step] in *.
    destruct (get s a) as [x|] eqn:Hg; [|discriminate].
    destruct (a_cons x) eqn:Hc; try discriminate.
    pose proof (proj1 HI a x Hg) as HIx.
    assert (Hpx : a_pend x = []) by (apply (INV_not_busy _ _ HIx); rewrite Hc; reflexivity).
    destruct (dispatch (set_actor s a (set_mb x (a_sq x) (a_uq x) (a_paused x) (CBusy (mode_top x)) (a_cur x))) a
                (set_mb x (a_sq x) (a_uq x) (a_paused x) (CBusy (mode_top x)) (a_cur x)) e) as [s1 ins] eqn:Hd.
    apply SQ_run_atomic; [|exact Herr]. split.
    - pose proof (SInv_step_EvHandle s a HI) as H. cbn [step] in H. rewrite Hg, Hc, Hd in H.
      (* SInv of the state before run_atomic: redo the short argument *)
      set (x0 := set_mb x (a_sq x) (a_uq x) (a_paused x) (CBusy (mode_top x)) (a_cur x)) in *.
      assert (Hg0 : get (set_actor s a x0) a = Some x0) by apply (get_set_actor_same _ _ _ _ Hg).
      destruct (dispatch_frame _ _ _ _ _ _ Hg0 Hd) as (y & Hact & Hex & _ & _ & _ & _ & _ & _ & _ & _ & _ & _ & _ & _ & _ & _ & Hcons & _).
      assert (Hg1 : get s1 a = Some y) by (unfold get; rewrite Hact; apply (nth_error_upd_same _ _ _ _ Hg0)).
      assert (Hz0 : a_zombie x0 = true -> a_state x0 = Killed) by apply HIx.
      destruct (dispatch_phase a _ x0 e s1 ins y Hg0 Hz0 Hd Hg1) as (Hzy & Hel & Hph).
      split.
      + intros b z Hb. destruct (Nat.eq_dec a b) as [<-|Hab].
        * rewrite (get_set_pend_TA_same _ _ _ _ Hg1) in Hb. inversion Hb; subst z.
          apply mk_INV; unfold cur_not_own; cbn [upd_pend a_state a_zombie a_cur a_cons a_pend]; try assumption.
          rewrite Hcons. reflexivity.
        * rewrite get_set_pend_TA_other in Hb by exact Hab.
          unfold get in Hb. rewrite Hact in Hb. rewrite nth_error_upd_other in Hb by exact Hab.
          fold (get (set_actor s a x0) b) in Hb. rewrite get_set_actor_other in Hb by exact Hab. apply (proj1 HI b z Hb).
      + cbn [set_pend]. unfold with_actor. rewrite Hg1. unfold ext_plain. cbn [exts set_actor]. rewrite Hex. exact (proj2 HI).
    - apply (Q_handle s a x e s1 ins HI HQ He0 Hg Hc Hpx Hd).
  Qed.

  Lemma SQ_step_EvPush s t choice : SQ s -> err (step s (EvPush t choice)) = false -> SQ (step s (EvPush t choice)).
  Proof.
    intros HS Herr. cbn [step] in *.
    destruct (pend_of s t) as [|i rest] eqn:Hp; [discriminate|].
    destruct i; try discriminate.
    + destruct (deliver s to {| e_sys := sys; e_sender := sender; e_msg := m |}) as [s2 u] eqn:Hdl.
      pose proof (mb_equiv_deliver s to {| e_sys := sys; e_sender := sender; e_msg := m |}) as Hm. rewrite Hdl in Hm. cbn [fst] in Hm.
      apply (SQ_pop s2 t (IEnqR sys to sender m) rest); [apply (SQ_mb _ _ Hm HS)|rewrite (pend_of_mb _ _ t Hm); exact Hp|reflexivity].
    + pose proof (mb_equiv_push_mb s to e) as Hm.
      apply (SQ_pop _ t (IEnqMb to e) rest); [apply (SQ_mb _ _ Hm HS)|rewrite (pend_of_mb _ _ t Hm); exact Hp|reflexivity].
    + destruct (nth_error tos choice) as [to|]; [|discriminate].
      pose proof (mb_equiv_resolve s to) as Hm1. destruct (resolve s to) as [mb s1]. cbn [snd] in Hm1.
      destruct (deliver s1 mb {| e_sys := sys; e_sender := sender; e_msg := m |}) as [s2 u] eqn:Hdl.
      pose proof (mb_equiv_deliver s1 mb {| e_sys := sys; e_sender := sender; e_msg := m |}) as Hm2. rewrite Hdl in Hm2. cbn [fst] in Hm2.
      pose proof (mb_equiv_trans _ _ _ Hm1 Hm2) as Hm.
      match goal with |- SQ (set_pend s2 t (IEnqDone :: ?l)) =>
        assert (Hl : exists front, IEnqDone :: l = front ++ rest /\ forall j, In j front -> sig j = false) end.
      { destruct (firstn choice tos ++ skipn (S choice) tos).
        - exists [IEnqDone]. split; [reflexivity|]. intros j [<-|[]]. reflexivity.
        - eexists [IEnqDone; _]. split; [reflexivity|]. intros j [<-|[<-|[]]]; reflexivity. }
      destruct Hl as (front & -> & Hf).
      apply (SQ_pop_head s2 t (IEnqAny sys tos sender m) rest front); [apply (SQ_mb _ _ Hm HS)|rewrite (pend_of_mb _ _ t Hm); exact Hp|reflexivity|exact Hf].
    + destruct (nth_error remaining choice) as [to|]; [|discriminate].
      pose proof (mb_equiv_resolve s to) as Hm1. destruct (resolve s to) as [mb s1]. cbn [snd] in Hm1.
      destruct (deliver s1 mb {| e_sys := true; e_sender := RObj (self_of t); e_msg := MCmdPause |}) as [s2 u] eqn:Hdl.
      pose proof (mb_equiv_deliver s1 mb {| e_sys := true; e_sender := RObj (self_of t); e_msg := MCmdPause |}) as Hm2. rewrite Hdl in Hm2. cbn [fst] in Hm2.
      pose proof (mb_equiv_trans _ _ _ Hm1 Hm2) as Hm.
      match goal with |- SQ (set_pend s2 t (IEnqDone :: ?i2 :: rest)) =>
        apply (SQ_pop_head s2 t (ISupPause c d remaining done) rest [IEnqDone; i2]) end;
        [apply (SQ_mb _ _ Hm HS)|rewrite (pend_of_mb _ _ t Hm); exact Hp|reflexivity|intros j [<-|[<-|[]]]; reflexivity].
  Qed.

  Lemma SQ_step_EvEnqDone s t : SQ s -> err (step s (EvEnqDone t)) = false -> SQ (step s (EvEnqDone t)).
  Proof.
    intros HS Herr. cbn [step] in *.
    destruct (pend_of s t) as [|i rest] eqn:Hp; [discriminate|]. destruct i; try discriminate.
    apply SQ_run_atomic; [|exact Herr]. apply (SQ_pop s t IEnqDone rest HS Hp eq_refl).
  Qed.

  Lemma SQ_step_EvPauseSt s t : SQ s -> err (step s (EvPauseSt t)) = false -> SQ (step s (EvPauseSt t)).
  Proof.
    intros HS Herr. cbn [step] in *.
    destruct (pend_of s t) as [|i rest] eqn:Hp; [discriminate|]. destruct i; try discriminate.
    apply SQ_run_atomic; [|exact Herr].
    match goal with |- SQ (set_pend ?s1 t rest) => assert (Hm : mb_equiv s s1) by (apply mb_equiv_with_actor; intros; repeat split) end.
    apply (SQ_pop _ t IPauseSt rest); [apply (SQ_mb _ _ Hm HS)|rewrite (pend_of_mb _ _ t Hm); exact Hp|reflexivity].
  Qed.

  Lemma SQ_step_EvResume1 s t : SQ s -> err (step s (EvResume1 t)) = false -> SQ (step s (EvResume1 t)).
  Proof.
    intros HS Herr. cbn [step] in *.
    destruct (pend_of s t) as [|i rest] eqn:Hp; [discriminate|]. destruct i; try discriminate.
    destruct (get s (self_of t)) as [x|] eqn:Hg; [|discriminate].
    destruct (a_paused x).
    + match goal with |- SQ (set_pend ?s1 t _) => assert (Hm : mb_equiv s s1) by (apply (mb_equiv_set_actor _ _ x); [exact Hg|repeat split]) end.
      apply (SQ_pop_head _ t IResume1 rest [IResume2]); [apply (SQ_mb _ _ Hm HS)|rewrite (pend_of_mb _ _ t Hm); exact Hp|reflexivity|intros j [<-|[]]; reflexivity].
    + apply SQ_run_atomic; [|exact Herr]. apply (SQ_pop s t IResume1 rest HS Hp eq_refl).
  Qed.

  Lemma SQ_step_EvResume2 s t : SQ s -> err (step s (EvResume2 t)) = false -> SQ (step s (EvResume2 t)).
  Proof.
    intros HS Herr. cbn [step] in *.
    destruct (pend_of s t) as [|i rest] eqn:Hp; [discriminate|]. destruct i; try discriminate.
    apply SQ_run_atomic; [|exact Herr]. apply (SQ_pop s t IResume2 rest HS Hp eq_refl).
  Qed.

  Lemma SQ_step_EvStart s i : SQ s -> err (step s (EvStart i)) = false -> SQ (step s (EvStart i)).
  Proof. intros HS Herr. cbn [step] in *. apply SQ_run_atomic; assumption. Qed.

  Lemma SQ_step s ev : SQ s -> err (step s ev) = false -> SQ (step s ev).
  Proof.
    destruct ev.
    - apply SQ_step_EvSysPop.
    - apply SQ_step_EvLoadPaused.
    - apply SQ_step_EvUserPop.
    - apply SQ_step_EvHandle.
    - apply SQ_step_EvPush.
    - apply SQ_step_EvEnqDone.
    - apply SQ_step_EvPauseSt.
    - apply SQ_step_EvResume1.
    - apply SQ_step_EvResume2.
    - apply SQ_step_EvStart.
  Qed.

  Lemma Q_step s ev : SInv s -> Q s -> err (step s ev) = false -> Q (step s ev).
  Proof. intros HI HQ He. apply (SQ_step s ev (conj HI HQ) He). Qed.

  Lemma Q_reachable : (forall scs, Q (init_with scs)) -> forall s, reachable s -> Q s.
  Proof.
    intros Hinit s Hr. apply (reachable_ind SQ); [|intros; apply SQ_step; assumption|exact Hr].
    intros scs. split; [apply SInv_init|apply Hinit].
  Qed.
End Gen.

(* ------------------------------------------------------------------ per-context properties *)

(** everything but mailbox part, consumer position, current envelope and pending list *)
Definition vsame (x y : actor) : Prop :=
  a_path y = a_path x /\ a_gen y = a_gen x /\ a_parent y = a_parent x /\ a_spec y = a_spec x /\
  a_state y = a_state x /\ a_zombie y = a_zombie x /\ a_restarting y = a_restarting x /\
  a_children y = a_children x /\ a_watchers y = a_watchers x /\ a_stash y = a_stash x /\ a_modes y = a_modes x /\
  a_inst y = a_inst x /\ a_decisions y = a_decisions x /\ a_hooks y = a_hooks x.

Lemma lsame_vsame x y : lsame x y -> vsame x y.
Proof. unfold lsame, vsame. intuition. Qed.

Section Local.
  Variable P : aid -> actor -> Prop.
  Hypothesis P_vsame : forall a x y, vsame x y -> P a x -> P a y.
  Hypothesis P_new : forall a p n g pa sp, a <> 0%nat -> P a (new_actor (p ++ [n]) g (Some pa) sp).
  Hypothesis P_root : P 0%nat (new_actor [] 0 None root_spec).
  Hypothesis P_exec_TA : forall s a x i rest h s1 front x1,
    INV a x -> a_pend x = i :: rest -> yielding i = false -> P a x ->
    get s a = Some (upd_pend x rest) -> exec1 s (TA a) h i = (s1, front) -> get s1 a = Some x1 -> P a x1.
  Hypothesis P_exec_TX : forall s k x i h s1 front x1,
    sig i = false -> P 0%nat x -> get s 0%nat = Some x -> exec1 s (TX k) h i = (s1, front) -> get s1 0%nat = Some x1 -> P 0%nat x1.
  Hypothesis P_dispatch : forall s a x e s1 ins y,
    (a_zombie x = true -> a_state x = Killed) ->
    P a x -> get s a = Some x -> dispatch s a x e = (s1, ins) -> get s1 a = Some y -> P a y.

  Definition LQ (s : state) : Prop := forall a x, get s a = Some x -> P a x.

  Lemma LQ_mb s s' : mb_equiv s s' -> LQ s -> LQ s'.
  Proof.
    intros (Hm & _) HQ a y Hy. specialize (Hm a). rewrite Hy in Hm. destruct (get s a) as [x|] eqn:Hg; [|contradiction].
    apply (P_vsame a x y (lsame_vsame _ _ Hm)). apply HQ. exact Hg.
  Qed.

  Lemma vsame_upd_pend x p : vsame x (upd_pend x p). Proof. repeat split. Qed.
  Lemma vsame_set_mb x sq uq pa co cu : vsame x (set_mb x sq uq pa co cu). Proof. repeat split. Qed.
  Lemma vsame_sym x y : vsame x y -> vsame y x. Proof. unfold vsame. intuition. Qed.

  Lemma LQ_set_pend s t p : LQ s -> LQ (set_pend s t p).
  Proof.
    intros HQ b y Hb. destruct t as [a|k].
    - destruct (Nat.eq_dec a b) as [<-|Hab].
      + cbn [set_pend] in Hb. unfold with_actor in Hb. destruct (get s a) as [x|] eqn:Hg; [|apply (HQ a y Hb)].
        rewrite (get_set_actor_same _ _ _ _ Hg) in Hb. inversion Hb; subst y.
        apply (P_vsame a x _ (vsame_upd_pend x p)). apply HQ. exact Hg.
      + rewrite get_set_pend_TA_other in Hb by exact Hab. apply (HQ b y Hb).
    - rewrite get_set_pend_TX in Hb. apply (HQ b y Hb).
  Qed.

  Lemma LQ_pop s t i rest front :
    SInv s -> LQ s -> pend_of s t = i :: rest -> sig i = false -> (forall j, In j front -> sig j = false) ->
    LQ (set_pend s t (front ++ rest)).
  Proof. intros _ HQ _ _ _. apply LQ_set_pend. exact HQ. Qed.

  Lemma LQ_cons s a x sq uq pa co cu :
    SInv s -> LQ s -> get s a = Some x -> is_busy (a_cons x) = false -> a_pend x = [] -> is_busy co = false ->
    cu = a_cur x -> LQ (set_actor s a (set_mb x sq uq pa co cu)).
  Proof.
    intros _ HQ Hg _ _ _ _ b y Hb. destruct (Nat.eq_dec a b) as [<-|Hab].
    - rewrite (get_set_actor_same _ _ _ _ Hg) in Hb. inversion Hb; subst y.
      apply (P_vsame a x _ (vsame_set_mb x sq uq pa co cu)). apply HQ. exact Hg.
    - rewrite get_set_actor_other in Hb by exact Hab. apply (HQ b y Hb).
  Qed.

  Lemma LQ_astep s t i rest :
    SInv s -> LQ s -> err s = false -> pend_of s t = i :: rest -> yielding i = false ->
    (forall sys to sender m, i <> IEnq sys to sender m) -> err (astep s t i rest) = false -> LQ (astep s t i rest).
  Proof.
    intros [HA HX] HQ He0 Hp Hy Hne He1. destruct t as [a|k].
    - destruct (pend_of_TA_cons _ _ _ _ Hp) as (x & Hg & Hpx).
      destruct (astep_TA s a i rest x Hg) as (s1 & front & x1 & He & Hg1 & Hp1 & Heq). rewrite Heq in *. clear Heq.
      assert (Hg0 : get (set_actor s a (upd_pend x rest)) a = Some (upd_pend x rest)) by apply (get_set_actor_same _ _ _ _ Hg).
      intros b y Hb. destruct (Nat.eq_dec a b) as [<-|Hab].
      + rewrite (get_set_actor_same _ _ _ _ Hg1) in Hb. inversion Hb; subst y.
        apply (P_vsame a x1 _ (vsame_upd_pend x1 _)).
        apply (P_exec_TA _ a x i rest [] s1 front x1 (HA a x Hg) Hpx Hy (HQ a x Hg) Hg0 He Hg1).
      + rewrite get_set_actor_other in Hb by exact Hab.
        destruct (exec1_other _ _ _ _ _ _ b y He (fun E => Hab (eq_sym E)) Hb) as [Hb0|(Hnone & _ & sp & x0 & _ & _ & _ & _ & _ & ->)].
        * rewrite get_set_actor_other in Hb0 by exact Hab. apply (HQ b y Hb0).
        * apply P_new. intros ->. rewrite get_set_actor_other in Hnone by exact Hab.
          destruct a as [|a']; [congruence|]. pose proof (get_lt _ _ _ Hg). unfold get in Hnone. apply nth_error_None in Hnone. lia.
    - destruct (pend_of_TX_cons _ _ _ _ Hp) as (ex & Hn & Hpx).
      assert (Hs : sig i = false) by (apply (HX k ex Hn); rewrite Hpx; left; reflexivity).
      destruct (astep_TX s k i rest ex Hn) as (s1 & front & ex1 & He & Hn1 & Hp1 & Hoth & Heq). rewrite Heq in *. clear Heq.
      intros b y Hb. change (get (set_ext s1 k {| x_pend := front ++ rest; x_held := x_held ex1 |}) b) with (get s1 b) in Hb.
      destruct (Nat.eq_dec b 0) as [->|Hb0].
      + destruct (get s 0) as [x|] eqn:Hg.
        2:{ unfold exec1 in He. cbn [self_of] in He.
            change (get (set_ext s k {| x_pend := rest; x_held := x_held ex |}) 0%nat) with (get s 0%nat) in He.
            rewrite Hg in He. inversion He; subst s1. discriminate He1. }
        apply (P_exec_TX (set_ext s k {| x_pend := rest; x_held := x_held ex |}) k x i (x_held ex) s1 front y Hs (HQ _ _ Hg) Hg He Hb).
      + destruct (exec1_other _ _ _ _ _ _ b y He Hb0 Hb) as [Hb1|(_ & _ & sp & x0 & _ & _ & _ & _ & _ & ->)].
        * apply (HQ b y Hb1).
        * apply P_new. exact Hb0.
  Qed.

  Lemma LQ_handle s a x e s1 ins :
    SInv s -> LQ s -> err s = false -> get s a = Some x -> a_cons x = CH e -> a_pend x = [] ->
    let x0 := set_mb x (a_sq x) (a_uq x) (a_paused x) (CBusy (mode_top x)) (a_cur x) in
    dispatch (set_actor s a x0) a x0 e = (s1, ins) ->
    LQ (set_pend s1 (TA a) ins).
  Proof.
    intros [HA HX] HQ He0 Hg Hc Hpx x0 Hd. apply LQ_set_pend.
    assert (Hg0 : get (set_actor s a x0) a = Some x0) by apply (get_set_actor_same _ _ _ _ Hg).
    destruct (dispatch_frame _ _ _ _ _ _ Hg0 Hd) as (y & Hact & _).
    assert (Hg1 : get s1 a = Some y) by (unfold get; rewrite Hact; apply (nth_error_upd_same _ _ _ _ Hg0)).
    intros b z Hb. destruct (Nat.eq_dec a b) as [<-|Hab].
    - rewrite Hg1 in Hb. inversion Hb; subst z.
      apply (P_dispatch (set_actor s a x0) a x0 e s1 ins y); try assumption.
      + apply (HA a x Hg).
      + apply (P_vsame a x x0 (vsame_set_mb _ _ _ _ _ _)). apply HQ. exact Hg.
    - unfold get in Hb. rewrite Hact in Hb. rewrite nth_error_upd_other in Hb by exact Hab.
      fold (get (set_actor s a x0) b) in Hb. rewrite get_set_actor_other in Hb by exact Hab. apply (HQ b z Hb).
  Qed.

  Lemma LQ_init scs : LQ (init_with scs).
  Proof.
    intros a x Hg. unfold init_with, get in Hg. rewrite set_exts_actors in Hg. cbn [actors init_state] in Hg.
    destruct a as [|[|a]]; cbn [nth_error] in Hg; try discriminate. inversion Hg; subst x. apply P_root.
  Qed.

  Theorem LQ_reachable s : reachable s -> LQ s.
  Proof.
    apply (Q_reachable LQ LQ_mb LQ_pop LQ_astep LQ_cons LQ_handle). apply LQ_init.
  Qed.

  Lemma LQ_step s ev : SInv s -> LQ s -> err (step s ev) = false -> LQ (step s ev).
  Proof. apply (Q_step LQ LQ_mb LQ_pop LQ_astep LQ_cons LQ_handle). Qed.
End Local.

(* ------------------------------------------------------------------ the skeleton with the mailbox flows exposed *)

Section Gen2.
  Variable Q : state -> Prop.

  Hypothesis Q_astep : forall s t i rest,
    SInv s -> Q s -> err s = false -> pend_of s t = i :: rest -> yielding i = false ->
    (forall sys to sender m, i <> IEnq sys to sender m) -> err (astep s t i rest) = false -> Q (astep s t i rest).
  Hypothesis Q_resolve : forall s t sys to sender m rest,
    SInv s -> Q s -> pend_of s t = IEnq sys to sender m :: rest ->
    Q (set_pend (snd (resolve s to)) t (IEnqR sys (fst (resolve s to)) sender m :: rest)).
  Hypothesis Q_push : forall s t choice, SInv s -> Q s -> err (step s (EvPush t choice)) = false -> Q (step s (EvPush t choice)).
  Hypothesis Q_pophead : forall s t i rest,
    SInv s -> Q s -> pend_of s t = i :: rest -> (i = IEnqDone \/ i = IResume1 \/ i = IResume2) -> Q (set_pend s t rest).
  Hypothesis Q_pause : forall s t rest,
    SInv s -> Q s -> pend_of s t = IPauseSt :: rest ->
    Q (set_pend (with_actor s (self_of t) (fun x => set_mb x (a_sq x) (a_uq x) true (a_cons x) (a_cur x))) t rest).
  Hypothesis Q_resume1p : forall s t rest x,
    SInv s -> Q s -> pend_of s t = IResume1 :: rest -> get s (self_of t) = Some x ->
    Q (set_pend (set_actor s (self_of t) (set_mb x (a_sq x) (a_uq x) false (a_cons x) (a_cur x))) t (IResume2 :: rest)).
  Hypothesis Q_consumer : forall s ev,
    (match ev with EvSysPop _ | EvLoadPaused _ | EvUserPop _ => True | _ => False end) ->
    SInv s -> Q s -> err (step s ev) = false -> Q (step s ev).
  Hypothesis Q_handle : forall s a x e s1 ins,
    SInv s -> Q s -> err s = false -> get s a = Some x -> a_cons x = CH e -> a_pend x = [] ->
    let x0 := set_mb x (a_sq x) (a_uq x) (a_paused x) (CBusy (mode_top x)) (a_cur x) in
    dispatch (set_actor s a x0) a x0 e = (s1, ins) ->
    Q (set_pend s1 (TA a) ins).

  Definition SQ2 (s : state) : Prop := SInv s /\ Q s.

  Lemma SQ2_run_atomic f s t : SQ2 s -> err (run_atomic f s t) = false -> SQ2 (run_atomic f s t).
  Proof.
    apply (run_atomic_ind SQ2 t).
    - intros s0 i rest [HI HQ] He0 Hp Hy Hne He1. split; [apply SInv_astep; assumption|apply Q_astep; assumption].
    - intros s0 sys to sender m rest [HI HQ] _ Hp s' _. subst s'.
      pose proof (mb_equiv_resolve s0 to) as Hm. split.
      + change (IEnqR sys (fst (resolve s0 to)) sender m :: rest) with ([IEnqR sys (fst (resolve s0 to)) sender m] ++ rest).
        apply (SInv_pop_head _ t (IEnq sys to sender m) rest _ (SInv_mb _ _ Hm HI)); [rewrite (pend_of_mb _ _ t Hm); exact Hp|reflexivity|].
        intros j [<-|[]]; reflexivity.
      + apply Q_resolve; assumption.
  Qed.

  Lemma SQ2_step s ev : SQ2 s -> err (step s ev) = false -> SQ2 (step s ev).
  Proof.
    intros [HI HQ] Herr. pose proof (SInv_step s ev HI Herr) as HI'. pose proof (err_false_step _ _ Herr) as He0.
    destruct ev.
    - split; [exact HI'|apply Q_consumer; auto].
    - split; [exact HI'|apply Q_consumer; auto].
    - split; [exact HI'|apply Q_consumer; auto].
    - (* EvHandle *)
      cbn [step] in *. destruct (get s a) as [x|] eqn:Hg; [|discriminate]. destruct (a_cons x) eqn:Hc; try discriminate.
      assert (Hpx : a_pend x = []) by (apply (INV_not_busy _ _ (proj1 HI a x Hg)); rewrite Hc; reflexivity).
      destruct (dispatch (set_actor s a (set_mb x (a_sq x) (a_uq x) (a_paused x) (CBusy (mode_top x)) (a_cur x))) a
                  (set_mb x (a_sq x) (a_uq x) (a_paused x) (CBusy (mode_top x)) (a_cur x)) e) as [s1 ins] eqn:Hd.
      apply SQ2_run_atomic; [|exact Herr]. split.
      + (* SInv of the state the handler starts in *)
        pose proof (proj1 HI a x Hg) as HIx.
        set (x0 := set_mb x (a_sq x) (a_uq x) (a_paused x) (CBusy (mode_top x)) (a_cur x)) in *.
        assert (Hg0 : get (set_actor s a x0) a = Some x0) by apply (get_set_actor_same _ _ _ _ Hg).
        destruct (dispatch_frame _ _ _ _ _ _ Hg0 Hd) as (y & Hact & Hex & _ & _ & _ & _ & _ & _ & _ & _ & _ & _ & _ & _ & _ & _ & Hcons & _).
        assert (Hg1 : get s1 a = Some y) by (unfold get; rewrite Hact; apply (nth_error_upd_same _ _ _ _ Hg0)).
        assert (Hz0 : a_zombie x0 = true -> a_state x0 = Killed) by apply HIx.
        destruct (dispatch_phase a _ x0 e s1 ins y Hg0 Hz0 Hd Hg1) as (Hzy & Hel & Hph).
        split.
        * intros b z Hb. destruct (Nat.eq_dec a b) as [<-|Hab].
          -- rewrite (get_set_pend_TA_same _ _ _ _ Hg1) in Hb. inversion Hb; subst z.
             apply mk_INV; unfold cur_not_own; cbn [upd_pend a_state a_zombie a_cur a_cons a_pend]; try assumption.
             rewrite Hcons. reflexivity.
          -- rewrite get_set_pend_TA_other in Hb by exact Hab.
             unfold get in Hb. rewrite Hact in Hb. rewrite nth_error_upd_other in Hb by exact Hab.
             fold (get (set_actor s a x0) b) in Hb. rewrite get_set_actor_other in Hb by exact Hab. apply (proj1 HI b z Hb).
        * cbn [set_pend]. unfold with_actor. rewrite Hg1. unfold ext_plain. cbn [exts set_actor]. rewrite Hex. exact (proj2 HI).
      + apply (Q_handle s a x e s1 ins HI HQ He0 Hg Hc Hpx Hd).
    - split; [exact HI'|apply Q_push; assumption].
    - (* EvEnqDone *)
      cbn [step] in *. destruct (pend_of s t) as [|i rest] eqn:Hp; [discriminate|]. destruct i; try discriminate.
      apply SQ2_run_atomic; [|exact Herr]. split; [apply (SInv_pop s t IEnqDone rest HI Hp eq_refl)|apply (Q_pophead s t IEnqDone rest HI HQ Hp); auto].
    - (* EvPauseSt *)
      cbn [step] in *. destruct (pend_of s t) as [|i rest] eqn:Hp; [discriminate|]. destruct i; try discriminate.
      apply SQ2_run_atomic; [|exact Herr]. split; [|apply Q_pause; assumption].
      match goal with |- SInv (set_pend ?s1 t rest) => assert (Hm : mb_equiv s s1) by (apply mb_equiv_with_actor; intros; repeat split) end.
      apply (SInv_pop _ t IPauseSt rest); [apply (SInv_mb _ _ Hm HI)|rewrite (pend_of_mb _ _ t Hm); exact Hp|reflexivity].
    - (* EvResume1 *)
      cbn [step] in *. destruct (pend_of s t) as [|i rest] eqn:Hp; [discriminate|]. destruct i; try discriminate.
      destruct (get s (self_of t)) as [x|] eqn:Hg; [|discriminate].
      destruct (a_paused x).
      + split; [|apply Q_resume1p; assumption].
        pose proof (SInv_step s (EvResume1 t) HI) as H. cbn [step] in H. rewrite Hp, Hg in H.
        destruct (a_paused x) eqn:Hpa.
        * apply H. exact Herr.
        * (* same state shape: reprove *)
          match goal with |- SInv (set_pend ?s1 t _) => assert (Hm : mb_equiv s s1) by (apply (mb_equiv_set_actor _ _ x); [exact Hg|repeat split]) end.
          apply (SInv_pop_head _ t IResume1 rest [IResume2]); [apply (SInv_mb _ _ Hm HI)|rewrite (pend_of_mb _ _ t Hm); exact Hp|reflexivity|intros j [<-|[]]; reflexivity].
      + apply SQ2_run_atomic; [|exact Herr]. split; [apply (SInv_pop s t IResume1 rest HI Hp eq_refl)|apply (Q_pophead s t IResume1 rest HI HQ Hp); auto].
    - (* EvResume2 *)
      cbn [step] in *. destruct (pend_of s t) as [|i rest] eqn:Hp; [discriminate|]. destruct i; try discriminate.
      apply SQ2_run_atomic; [|exact Herr]. split; [apply (SInv_pop s t IResume2 rest HI Hp eq_refl)|apply (Q_pophead s t IResume2 rest HI HQ Hp); auto].
    - (* EvStart *)
      cbn [step] in *. apply SQ2_run_atomic; [split; assumption|exact Herr].
  Qed.

  Lemma Q2_reachable : (forall scs, Q (init_with scs)) -> forall s, reachable s -> Q s.
  Proof.
    intros Hinit s Hr. apply (reachable_ind SQ2); [|intros; apply SQ2_step; assumption|exact Hr].
    intros scs. split; [apply SInv_init|apply Hinit].
  Qed.
End Gen2.
