(** Derived notions for C05 / C06 (lifecycle order, kill of a subtree) over the ActorCore model.
    Definitions only. *)
From Coq Require Import List NArith ZArith Bool.
From Vivid Require Import Base.Tm Actor.Core Actor.CoreRun.
Import ListNotations.

(** reachability: the state after SOME event list from the initial state with SOME external scripts,
    the model not having been driven outside its domain *)
Definition init_with (scs : list (list action)) : state := set_exts (init_state (length scs)) 0 scs.
Definition reachable (s : state) : Prop := exists scs evs, s = run_events evs (init_with scs) /\ err s = false.

(** the micro-step of [run_atomic]: thread [t] executes the atomic instruction [i] at the head of its
    pending list [i :: rest] *)
Definition astep (s : state) (t : tid) (i : instr) (rest : list instr) : state :=
  let s0 := set_pend s t rest in
  let (s1, front) := exec1 s0 t (held_of s0 t) i in
  set_pend s1 t (front ++ pend_of s1 t).

(** the messages actor [a]'s behaviour has seen, in order *)
Fixpoint seen_of (a : aid) (l : list obs) : list msg :=
  match l with
  | [] => []
  | OSeen who _ _ m :: r => if Nat.eqb who a then m :: seen_of a r else seen_of a r
  | _ :: r => seen_of a r
  end.

(** the same with instance number and mode *)
Fixpoint seen_full (a : aid) (l : list obs) : list (N * N * msg) :=
  match l with
  | [] => []
  | OSeen who i md m :: r => if Nat.eqb who a then (i, md, m) :: seen_full a r else seen_full a r
  | _ :: r => seen_full a r
  end.

Definition is_launch (m : msg) : bool := match m with MLaunch => true | _ => false end.
Definition is_end (i : instr) : bool := match i with IEndHandler => true | _ => false end.

(** a pending list is either empty or ends with its only [IEndHandler] *)
Fixpoint end_last (l : list instr) : bool :=
  match l with
  | [] => false
  | [i] => is_end i
  | i :: r => negb (is_end i) && end_last r
  end.
Definition wf_pend (l : list instr) : bool := match l with [] => true | _ => end_last l end.

Definition is_busy (c : cons) : bool := match c with CBusy _ => true | _ => false end.

(** instructions that can lead to [ICleanup] / to a state change of a Killed actor *)
Definition life_src (i : instr) : bool :=
  match i with
  | IDoKill _ | IOnKilled _ | ICheckMark | ICleanup | IRestartFinish => true
  | _ => false
  end.
Definition is_unzombie (i : instr) : bool := match i with IUnzombie => true | _ => false end.

(** [released x]: the actor has been reported terminated (its [ICleanup] ran or, for a zombie, is about
    to be followed by [IUnzombie]): Killed, nothing in its pending list can lead to another [ICleanup], and
    if it is still flagged zombie the [IUnzombie] that ends the release is pending *)
Definition released (x : actor) : Prop :=
  a_state x = Killed /\ forallb (fun i => negb (life_src i)) (a_pend x) = true /\
  (a_zombie x = true -> existsb is_unzombie (a_pend x) = true).

(** instrumented execution: the atomic instructions a step executes (who, which) *)
Fixpoint run_atomic_tr (fuel : nat) (s : state) (t : tid) : list (tid * instr) :=
  match fuel with
  | O => []
  | S f =>
      match pend_of s t with
      | [] => []
      | IEnq sys to sender m :: rest => []
      | i :: rest =>
          if yielding i then []
          else (t, i) :: run_atomic_tr f (astep s t i rest) t
      end
  end.

Definition step_tr (s : state) (ev : event) : list (tid * instr) :=
  match ev with
  | EvHandle a =>
      match get s a with
      | Some x =>
          match a_cons x with
          | CH e =>
              let x0 := set_mb x (a_sq x) (a_uq x) (a_paused x) (CBusy (mode_top x)) (a_cur x) in
              let (s1, ins) := dispatch (set_actor s a x0) a x0 e in
              run_atomic_tr FUEL (set_pend s1 (TA a) ins) (TA a)
          | _ => []
          end
      | None => []
      end
  | EvStart i => run_atomic_tr FUEL s (TX i)
  | EvEnqDone t => match pend_of s t with IEnqDone :: rest => run_atomic_tr FUEL (set_pend s t rest) t | _ => [] end
  | EvPauseSt t =>
      match pend_of s t with
      | IPauseSt :: rest =>
          let s1 := with_actor s (self_of t) (fun x => set_mb x (a_sq x) (a_uq x) true (a_cons x) (a_cur x)) in
          run_atomic_tr FUEL (set_pend s1 t rest) t
      | _ => []
      end
  | EvResume1 t =>
      match pend_of s t, get s (self_of t) with
      | IResume1 :: rest, Some x => if a_paused x then [] else run_atomic_tr FUEL (set_pend s t rest) t
      | _, _ => []
      end
  | EvResume2 t => match pend_of s t with IResume2 :: rest => run_atomic_tr FUEL (set_pend s t rest) t | _ => [] end
  | _ => []
  end.

Fixpoint run_tr (evs : list event) (s : state) : list (tid * instr) :=
  match evs with
  | [] => []
  | ev :: r => step_tr s ev ++ run_tr r (step s ev)
  end.

Definition is_cleanup_of (a : aid) (p : tid * instr) : bool :=
  match p with (TA b, ICleanup) => Nat.eqb a b | _ => false end.

(** every envelope in actor [x]'s mailbox, in the consumer's hand, or being handled *)
Definition msgs_at (x : actor) : list envelope :=
  a_sq x ++ a_uq x ++ match a_cons x with CH e => [e] | _ => [] end.

(** [r] is a freshly parsed reference whose path is [p] *)
Definition fresh_to (p : path) (r : rref) : bool := match r with RFresh q => path_eqb q p | _ => false end.
