(** Proofs for the ActorCore part of C19 (event stream): the subscription table [subs] of Actor/Core.v. *)
From Coq Require Import List NArith ZArith Bool Permutation Lia Arith.
From Vivid Require Import Actor.Core Actor.CoreRun Actor.SpecSup Actor.ProofsSup.
Import ListNotations.

(* ------------------------------------------------------------------ association lists *)

Lemma alookup_none {A} (l : list (path * A)) p : alookup l p = None <-> ~ In p (map fst l).
Proof.
  induction l as [|[q v] r IH]; cbn; [tauto|].
  destruct (path_eqb p q) eqn:E.
  - apply path_eqb_eq in E. subst. split; [discriminate|]. intros H. exfalso. apply H. left; reflexivity.
  - apply path_eqb_neq in E. rewrite IH. split.
    + intros H [H1|H1]; [congruence|contradiction].
    + intros H H1. apply H. right; exact H1.
Qed.

Lemma alookup_in {A} (l : list (path * A)) p v : alookup l p = Some v -> In (p, v) l.
Proof.
  induction l as [|[q w] r IH]; cbn; [discriminate|].
  destruct (path_eqb p q) eqn:E.
  - apply path_eqb_eq in E. intros H; inversion H; subst. left; reflexivity.
  - intros H. right. apply IH, H.
Qed.

Lemma aremove_in {A} (l : list (path * A)) p q v : In (q, v) (aremove l p) <-> In (q, v) l /\ q <> p.
Proof.
  induction l as [|[r w] l IH]; cbn; [tauto|].
  destruct (path_eqb p r) eqn:E.
  - apply path_eqb_eq in E. subst r. rewrite IH. split.
    + intros [H1 H2]. auto.
    + intros [[H1|H1] H2]; [inversion H1; subst; contradiction|auto].
  - apply path_eqb_neq in E. cbn. rewrite IH. split.
    + intros [H|[H1 H2]]; [inversion H; subst; split; [left; reflexivity|congruence]|auto].
    + intros [[H1|H1] H2]; auto.
Qed.

Lemma aremove_fst {A} (l : list (path * A)) p q : In q (map fst (aremove l p)) <-> In q (map fst l) /\ q <> p.
Proof.
  rewrite !in_map_iff. split.
  - intros ([q' v] & E & H). cbn in E; subst q'. apply aremove_in in H as [H1 H2]. split; [exists (q, v); auto|exact H2].
  - intros (([q' v] & E & H) & N). cbn in E; subst q'. exists (q, v). split; [reflexivity|]. apply aremove_in. auto.
Qed.

Lemma alookup_aremove_same {A} (l : list (path * A)) p : alookup (aremove l p) p = None.
Proof. apply alookup_none. intros H. apply aremove_fst in H as [_ H]. congruence. Qed.

Lemma alookup_aremove_other {A} (l : list (path * A)) p q : q <> p -> alookup (aremove l p) q = alookup l q.
Proof.
  intros N. induction l as [|[r w] l IH]; cbn; [reflexivity|].
  destruct (path_eqb p r) eqn:E.
  - apply path_eqb_eq in E. subst r. rewrite IH.
    destruct (path_eqb q p) eqn:E2; [apply path_eqb_eq in E2; contradiction|reflexivity].
  - cbn. rewrite IH. reflexivity.
Qed.

Lemma aremove_nodup {A} (l : list (path * A)) p : NoDup (map fst l) -> NoDup (map fst (aremove l p)).
Proof.
  induction l as [|[r w] l IH]; cbn; [auto|]. intros H. inversion H; subst.
  destruct (path_eqb p r); [auto|]. cbn. constructor; [|auto].
  intros Hin. apply aremove_fst in Hin as [Hin _]. contradiction.
Qed.

Lemma aremove_absent {A} (l : list (path * A)) p : alookup l p = None -> aremove l p = l.
Proof.
  induction l as [|[r w] l IH]; cbn; [reflexivity|].
  destruct (path_eqb p r); [discriminate|]. intros H. rewrite IH by exact H. reflexivity.
Qed.

Lemma nlookup_in {A} (l : list (N * A)) k v : nlookup l k = Some v -> In (k, v) l.
Proof.
  induction l as [|[q w] r IH]; cbn; [discriminate|].
  destruct (N.eqb_spec k q).
  - intros H; inversion H; subst. left; reflexivity.
  - intros H. right. apply IH, H.
Qed.

Lemma nlookup_none {A} (l : list (N * A)) k : nlookup l k = None <-> ~ In k (map fst l).
Proof.
  induction l as [|[q v] r IH]; cbn; [tauto|].
  destruct (N.eqb_spec k q).
  - subst. split; [discriminate|]. intros H. exfalso. apply H. left; reflexivity.
  - rewrite IH. split.
    + intros H [H1|H1]; [congruence|contradiction].
    + intros H H1. apply H. right; exact H1.
Qed.

Lemma in_nlookup {A} (l : list (N * A)) k v : NoDup (map fst l) -> In (k, v) l -> nlookup l k = Some v.
Proof.
  induction l as [|[q w] r IH]; cbn; [intros _ []|]. intros Hn. inversion Hn; subst. intros [H|H].
  - inversion H; subst. rewrite N.eqb_refl. reflexivity.
  - destruct (N.eqb_spec k q).
    + subst. exfalso. apply H1. apply in_map_iff. exists (q, v). auto.
    + apply IH; assumption.
Qed.

Lemma nremove_in {A} (l : list (N * A)) k q v : In (q, v) (nremove l k) <-> In (q, v) l /\ q <> k.
Proof.
  induction l as [|[r w] l IH]; cbn; [tauto|].
  destruct (N.eqb_spec k r).
  - subst r. rewrite IH. split.
    + intros [H1 H2]. auto.
    + intros [[H1|H1] H2]; [inversion H1; subst; contradiction|auto].
  - cbn. rewrite IH. split.
    + intros [H|[H1 H2]]; [inversion H; subst; split; [left; reflexivity|congruence]|auto].
    + intros [[H1|H1] H2]; auto.
Qed.

Lemma nremove_fst {A} (l : list (N * A)) k q : In q (map fst (nremove l k)) <-> In q (map fst l) /\ q <> k.
Proof.
  rewrite !in_map_iff. split.
  - intros ([q' v] & E & H). cbn in E; subst q'. apply nremove_in in H as [H1 H2]. split; [exists (q, v); auto|exact H2].
  - intros (([q' v] & E & H) & N). cbn in E; subst q'. exists (q, v). split; [reflexivity|]. apply nremove_in. auto.
Qed.

Lemma nremove_nodup {A} (l : list (N * A)) k : NoDup (map fst l) -> NoDup (map fst (nremove l k)).
Proof.
  induction l as [|[r w] l IH]; cbn; [auto|]. intros H. inversion H; subst.
  destruct (N.eqb_spec k r); [auto|]. cbn. constructor; [|auto].
  intros Hin. apply nremove_fst in Hin as [Hin _]. contradiction.
Qed.

Lemma nset_in {A} (l : list (N * A)) k v q w : In (q, w) (nset l k v) <-> (In (q, w) l /\ q <> k) \/ (q = k /\ w = v).
Proof.
  unfold nset. rewrite in_app_iff, nremove_in. cbn. split.
  - intros [H|[H|[]]]; [auto|inversion H; auto].
  - intros [H|[-> ->]]; auto.
Qed.

Lemma nset_nodup {A} (l : list (N * A)) k v : NoDup (map fst l) -> NoDup (map fst (nset l k v)).
Proof.
  intros H. unfold nset. rewrite map_app. cbn. apply NoDup_app_one.
Abort.

Lemma nodup_snoc {A} (l : list A) x : NoDup l -> ~ In x l -> NoDup (l ++ [x]).
Proof.
  induction l as [|h t IH]; cbn; intros H N.
  - constructor; [intros []|constructor].
  - inversion H; subst. constructor.
    + rewrite in_app_iff. cbn. intros [H1|[H1|[]]]; [contradiction|subst; apply N; left; reflexivity].
    + apply IH; [assumption|]. intros H1. apply N. right; exact H1.
Qed.

Lemma nset_nodup {A} (l : list (N * A)) k v : NoDup (map fst l) -> NoDup (map fst (nset l k v)).
Proof.
  intros H. unfold nset. rewrite map_app. cbn. apply nodup_snoc; [apply nremove_nodup, H|].
  intros Hin. apply nremove_fst in Hin as [_ Hin]. congruence.
Qed.

Lemma nlookup_nremove_other {A} (l : list (N * A)) k q : q <> k -> nlookup (nremove l k) q = nlookup l q.
Proof.
  intros N. induction l as [|[r w] l IH]; cbn; [reflexivity|].
  destruct (N.eqb_spec k r).
  - subst r. rewrite IH. destruct (N.eqb_spec q k); [contradiction|reflexivity].
  - cbn. rewrite IH. reflexivity.
Qed.

Lemma nlookup_app_none {A} (l1 l2 : list (N * A)) k : nlookup l1 k = None -> nlookup (l1 ++ l2) k = nlookup l2 k.
Proof. induction l1 as [|[q v] r IH]; cbn; [reflexivity|]. destruct (N.eqb k q); [discriminate|exact IH]. Qed.

Lemma nlookup_app_some {A} (l1 l2 : list (N * A)) k v : nlookup l1 k = Some v -> nlookup (l1 ++ l2) k = Some v.
Proof. induction l1 as [|[q w] r IH]; cbn; [discriminate|]. destruct (N.eqb k q); [auto|exact IH]. Qed.

Lemma nlookup_nset_same {A} (l : list (N * A)) k v : nlookup (nset l k v) k = Some v.
Proof.
  unfold nset. rewrite nlookup_app_none; [cbn; rewrite N.eqb_refl; reflexivity|].
  apply nlookup_none. intros H. apply nremove_fst in H as [_ H]. congruence.
Qed.

Lemma nlookup_nset_other {A} (l : list (N * A)) k v q : q <> k -> nlookup (nset l k v) q = nlookup l q.
Proof.
  intros N. unfold nset. destruct (nlookup (nremove l k) q) eqn:E.
  - rewrite (nlookup_app_some _ _ _ _ E). rewrite nlookup_nremove_other in E by exact N. congruence.
  - rewrite (nlookup_app_none _ _ _ E). cbn. destruct (N.eqb_spec q k); [contradiction|].
    rewrite nlookup_nremove_other in E by exact N. congruence.
Qed.

(* ------------------------------------------------------------------ unsub_all *)

Lemma unsub_all_in l p ty m' :
  In (ty, m') (unsub_all l p) -> exists m, In (ty, m) l /\ m' = aremove m p /\ m' <> [] \/ In (ty, m') l /\ alookup m' p = None.
Proof.
  induction l as [|[ty0 m0] l IH]; cbn; [intros []|].
  destruct (alookup m0 p) eqn:E.
  - destruct (aremove m0 p) eqn:Er.
    + intros H. destruct (IH H) as (m & [(H1 & H2 & H3)|(H1 & H2)]); exists m; [left|right]; auto.
    + intros [H|H].
      * inversion H; subst. exists m0. left. split; [left; reflexivity|]. split; [congruence|discriminate].
      * destruct (IH H) as (m & [(H1 & H2 & H3)|(H1 & H2)]); exists m; [left|right]; auto.
  - intros [H|H].
    + inversion H; subst. exists m'. right. split; [left; reflexivity|exact E].
    + destruct (IH H) as (m & [(H1 & H2 & H3)|(H1 & H2)]); exists m; [left|right]; auto.
Qed.

(** after UnsubscribeAll no remaining entry mentions the path *)
Lemma unsub_all_no_entry l p ty m : In (ty, m) (unsub_all l p) -> alookup m p = None.
Proof.
  intros H. destruct (unsub_all_in _ _ _ _ H) as (m0 & [(H1 & H2 & H3)|(H1 & H2)]); [|exact H2].
  subst m. apply alookup_aremove_same.
Qed.

Lemma unsub_all_fst l p ty : In ty (map fst (unsub_all l p)) -> In ty (map fst l).
Proof.
  induction l as [|[ty0 m0] l IH]; cbn; [auto|].
  destruct (alookup m0 p); [destruct (aremove m0 p)|]; cbn; intros H; try tauto.
  all: destruct H as [H|H]; auto.
Qed.

Lemma unsub_all_types_nodup l p : NoDup (map fst l) -> NoDup (map fst (unsub_all l p)).
Proof.
  induction l as [|[ty0 m0] l IH]; cbn; [auto|]. intros H. inversion H; subst.
  assert (Hn : ~ In ty0 (map fst (unsub_all l p))) by (intros Hin; apply unsub_all_fst in Hin; contradiction).
  destruct (alookup m0 p); [destruct (aremove m0 p)|]; cbn; auto; constructor; auto.
Qed.

Lemma unsub_all_nodup l p : subs_nodup l -> subs_nodup (unsub_all l p).
Proof.
  intros [H1 H2]. split; [apply unsub_all_types_nodup, H1|].
  intros ty m Hin. destruct (unsub_all_in _ _ _ _ Hin) as (m0 & [(Ha & Hb & Hc)|(Ha & Hb)]).
  - subst m. apply aremove_nodup. eapply H2; eassumption.
  - eapply H2; eassumption.
Qed.

(** the table after UnsubscribeAll, type by type: the path is removed, a type whose map becomes empty is
    deleted, a type the path was not subscribed to is left alone *)
Lemma unsub_all_lookup l p ty : NoDup (map fst l) ->
  nlookup (unsub_all l p) ty =
    match nlookup l ty with
    | None => None
    | Some m => match alookup m p with
                | None => Some m
                | Some _ => match aremove m p with [] => None | m' => Some m' end
                end
    end.
Proof.
  induction l as [|[ty0 m0] l IH]; cbn; [reflexivity|]. intros H. inversion H; subst.
  destruct (N.eqb_spec ty ty0).
  - subst ty0. assert (Hn : nlookup (unsub_all l p) ty = None).
    { apply nlookup_none. intros Hin. apply unsub_all_fst in Hin. contradiction. }
    destruct (alookup m0 p); [destruct (aremove m0 p)|]; cbn; rewrite ?N.eqb_refl; auto.
  - destruct (alookup m0 p); [destruct (aremove m0 p)|]; cbn; auto.
    all: destruct (N.eqb_spec ty ty0); [contradiction|auto].
Qed.

Lemma unsub_all_subscribers l p ty : NoDup (map fst l) ->
  match nlookup (unsub_all l p) ty with Some m => m | None => [] end =
  aremove (match nlookup l ty with Some m => m | None => [] end) p.
Proof.
  intros H. rewrite (unsub_all_lookup _ _ _ H). destruct (nlookup l ty) as [m|]; [|reflexivity].
  destruct (alookup m p) eqn:E.
  - destruct (aremove m p); reflexivity.
  - rewrite (aremove_absent _ _ E). reflexivity.
Qed.

(* ------------------------------------------------------------------ invariants of the table *)

Lemma subs_set_pend s t p : subs (set_pend s t p) = subs s.
Proof.
  destruct t as [a|i]; cbn [set_pend]; unfold with_actor.
  - destruct (get s a); reflexivity.
  - destruct (nth_error (exts s) i); reflexivity.
Qed.

Lemma subscribers_nodup s ty : subs_nodup (subs s) -> NoDup (map fst (subscribers s ty)).
Proof.
  intros [_ H]. unfold subscribers. destruct (nlookup (subs s) ty) eqn:E; [|constructor].
  eapply H. apply nlookup_in. exact E.
Qed.

Lemma prim_subs_nodup t s s' : prim t s s' -> subs_nodup (subs s) -> subs_nodup (subs s').
Proof.
  intros Hp Hi. destruct Hp; cbn [subs set_err set_actor set_reg set_subs add_obs add_ghost]; auto.
  - rewrite subs_set_pend. exact Hi.
  - (* subscribe *)
    split; [apply nset_nodup, Hi|]. intros ty0 m Hin. apply nset_in in Hin as [[Hin _]|[-> ->]]; [eapply Hi; eassumption|].
    rewrite map_app. cbn. apply nodup_snoc; [apply subscribers_nodup, Hi|]. apply alookup_none. assumption.
  - (* unsubscribe *)
    split; [apply nset_nodup, Hi|]. intros ty0 m Hin. apply nset_in in Hin as [[Hin _]|[-> ->]]; [eapply Hi; eassumption|].
    apply aremove_nodup. eapply Hi. apply nlookup_in. eassumption.
  - apply unsub_all_nodup, Hi.
Qed.

Lemma subs_nodup_reachable s : reachable s -> subs_nodup (subs s).
Proof.
  apply (reachable_inv (fun s => subs_nodup (subs s))).
  - intros scs. rewrite init_with_subs. split; [constructor|intros ty m []].
  - intros t s1 s2 Hp. apply (prim_subs_nodup t s1 s2 Hp).
Qed.

Lemma prim_subs_wf t s s' : prim t s s' -> subs_wf s -> subs_wf s'.
Proof.
  intros Hp Hi.
  assert (Hsame : subs s' = subs s -> subs_wf s').
  { intros E ty m p a H1 H2. rewrite E in H1. destruct (Hi ty m p a H1 H2) as (x & Hx & Hpth).
    destruct (prim_keeps_actors t s s' Hp a x Hx) as (x' & Hx' & E1 & _). exists x'. split; [exact Hx'|congruence]. }
  destruct Hp; try (apply Hsame; reflexivity).
  - apply Hsame. apply subs_set_pend.
  - intros ty0 m p a0 H1 H2. cbn in H1. change (get (set_subs s _) a0) with (get s a0).
    apply nset_in in H1 as [[H1 _]|[-> ->]]; [eapply Hi; eassumption|].
    apply in_app_or in H2 as [H2|[H2|[]]].
    + unfold subscribers in H2. destruct (nlookup (subs s) ty) eqn:E; [|destruct H2].
      eapply Hi; [apply nlookup_in; exact E|exact H2].
    + inversion H2; subst. eauto.
  - intros ty0 m p0 a0 H1 H2. cbn in H1. change (get (set_subs s _) a0) with (get s a0).
    apply nset_in in H1 as [[H1 _]|[-> ->]]; [eapply Hi; eassumption|].
    apply aremove_in in H2 as [H2 _]. eapply Hi; [apply nlookup_in; eassumption|exact H2].
  - intros ty0 m p0 a0 H1 H2. cbn in H1. change (get (set_subs s _) a0) with (get s a0).
    destruct (unsub_all_in _ _ _ _ H1) as (m0 & [(Ha & Hb & Hc)|(Ha & Hb)]).
    + subst m. apply aremove_in in H2 as [H2 _]. eapply Hi; eassumption.
    + eapply Hi; eassumption.
Qed.

Lemma subs_wf_reachable s : reachable s -> subs_wf s.
Proof.
  apply (reachable_inv subs_wf).
  - intros scs ty m p a H. rewrite init_with_subs in H. destruct H.
  - apply prim_subs_wf.
Qed.
