(** Proofs for the ActorCore part of C19 (event stream): the subscription table [subs] of Actor/Core.v. *)
From Coq Require Import List NArith ZArith Bool Permutation Lia Arith.
From Vivid Require Import Actor.Core Actor.CoreRun Actor.SpecSup Actor.ProofsSup.
Import ListNotations.

(* ------------------------------------------------------------------ association lists *)

Lemma alookup_none {A} (l : list (path * A)) p : alookup l p = None <-> ~ In p (map fst l).
Proof.
  induction l as [|[q v] r IH]; cbn; [tauto|].
  destruct (path_eqb p q) eqn:E.
  - apply path_eqb_eq in E. subst. split; [discriminate|]. intros H. exfalso. apply H. left; reflexivity.
  - apply path_eqb_neq in E. rewrite IH. split.
    + intros H [H1|H1]; [congruence|contradiction].
    + intros H H1. apply H. right; exact H1.
Qed.

Lemma alookup_in {A} (l : list (path * A)) p v : alookup l p = Some v -> In (p, v) l.
Proof.
  induction l as [|[q w] r IH]; cbn; [discriminate|].
  destruct (path_eqb p q) eqn:E.
  - apply path_eqb_eq in E. intros H; inversion H; subst. left; reflexivity.
  - intros H. right. apply IH, H.
Qed.

Lemma aremove_in {A} (l : list (path * A)) p q v : In (q, v) (aremove l p) <-> In (q, v) l /\ q <> p.
Proof.
  induction l as [|[r w] l IH]; cbn; [tauto|].
  destruct (path_eqb p r) eqn:E.
  - apply path_eqb_eq in E. subst r. rewrite IH. split.
    + intros [H1 H2]. auto.
    + intros [[H1|H1] H2]; [inversion H1; subst; contradiction|auto].
  - apply path_eqb_neq in E. cbn. rewrite IH. split.
    + intros [H|[H1 H2]]; [inversion H; subst; split; [left; reflexivity|congruence]|auto].
    + intros [[H1|H1] H2]; auto.
Qed.

Lemma aremove_fst {A} (l : list (path * A)) p q : In q (map fst (aremove l p)) <-> In q (map fst l) /\ q <> p.
Proof.
  rewrite !in_map_iff. split.
  - intros ([q' v] & E & H). cbn in E; subst q'. apply aremove_in in H as [H1 H2]. split; [exists (q, v); auto|exact H2].
  - intros (([q' v] & E & H) & N). cbn in E; subst q'. exists (q, v). split; [reflexivity|]. apply aremove_in. auto.
Qed.

Lemma alookup_aremove_same {A} (l : list (path * A)) p : alookup (aremove l p) p = None.
Proof. apply alookup_none. intros H. apply aremove_fst in H as [_ H]. congruence. Qed.

Lemma alookup_aremove_other {A} (l : list (path * A)) p q : q <> p -> alookup (aremove l p) q = alookup l q.
Proof.
  intros N. induction l as [|[r w] l IH]; cbn; [reflexivity|].
  destruct (path_eqb p r) eqn:E.
  - apply path_eqb_eq in E. subst r. rewrite IH.
    destruct (path_eqb q p) eqn:E2; [apply path_eqb_eq in E2; contradiction|reflexivity].
  - cbn. rewrite IH. reflexivity.
Qed.

Lemma aremove_nodup {A} (l : list (path * A)) p : NoDup (map fst l) -> NoDup (map fst (aremove l p)).
Proof.
  induction l as [|[r w] l IH]; cbn; [auto|]. intros H. inversion H; subst.
  destruct (path_eqb p r); [auto|]. cbn. constructor; [|auto].
  intros Hin. apply aremove_fst in Hin as [Hin _]. contradiction.
Qed.

Lemma aremove_absent {A} (l : list (path * A)) p : alookup l p = None -> aremove l p = l.
Proof.
  induction l as [|[r w] l IH]; cbn; [reflexivity|].
  destruct (path_eqb p r); [discriminate|]. intros H. rewrite IH by exact H. reflexivity.
Qed.

Lemma nlookup_in {A} (l : list (N * A)) k v : nlookup l k = Some v -> In (k, v) l.
Proof.
  induction l as [|[q w] r IH]; cbn; [discriminate|].
  destruct (N.eqb_spec k q).
  - intros H; inversion H; subst. left; reflexivity.
  - intros H. right. apply IH, H.
Qed.

Lemma nlookup_none {A} (l : list (N * A)) k : nlookup l k = None <-> ~ In k (map fst l).
Proof.
  induction l as [|[q v] r IH]; cbn; [tauto|].
  destruct (N.eqb_spec k q).
  - subst. split; [discriminate|]. intros H. exfalso. apply H. left; reflexivity.
  - rewrite IH. split.
    + intros H [H1|H1]; [congruence|contradiction].
    + intros H H1. apply H. right; exact H1.
Qed.

Lemma in_nlookup {A} (l : list (N * A)) k v : NoDup (map fst l) -> In (k, v) l -> nlookup l k = Some v.
Proof.
  induction l as [|[q w] r IH]; cbn; [intros _ []|]. intros Hn. inversion Hn; subst. intros [H|H].
  - inversion H; subst. rewrite N.eqb_refl. reflexivity.
  - destruct (N.eqb_spec k q).
    + subst. exfalso. apply H1. apply in_map_iff. exists (q, v). auto.
    + apply IH; assumption.
Qed.

Lemma nremove_in {A} (l : list (N * A)) k q v : In (q, v) (nremove l k) <-> In (q, v) l /\ q <> k.
Proof.
  induction l as [|[r w] l IH]; cbn; [tauto|].
  destruct (N.eqb_spec k r).
  - subst r. rewrite IH. split.
    + intros [H1 H2]. auto.
    + intros [[H1|H1] H2]; [inversion H1; subst; contradiction|auto].
  - cbn. rewrite IH. split.
    + intros [H|[H1 H2]]; [inversion H; subst; split; [left; reflexivity|congruence]|auto].
    + intros [[H1|H1] H2]; auto.
Qed.

Lemma nremove_fst {A} (l : list (N * A)) k q : In q (map fst (nremove l k)) <-> In q (map fst l) /\ q <> k.
Proof.
  rewrite !in_map_iff. split.
  - intros ([q' v] & E & H). cbn in E; subst q'. apply nremove_in in H as [H1 H2]. split; [exists (q, v); auto|exact H2].
  - intros (([q' v] & E & H) & N). cbn in E; subst q'. exists (q, v). split; [reflexivity|]. apply nremove_in. auto.
Qed.

Lemma nremove_nodup {A} (l : list (N * A)) k : NoDup (map fst l) -> NoDup (map fst (nremove l k)).
Proof.
  induction l as [|[r w] l IH]; cbn; [auto|]. intros H. inversion H; subst.
  destruct (N.eqb_spec k r); [auto|]. cbn. constructor; [|auto].
  intros Hin. apply nremove_fst in Hin as [Hin _]. contradiction.
Qed.

Lemma nset_in {A} (l : list (N * A)) k v q w : In (q, w) (nset l k v) <-> (In (q, w) l /\ q <> k) \/ (q = k /\ w = v).
Proof.
  unfold nset. rewrite in_app_iff, nremove_in. cbn. split.
  - intros [H|[H|[]]]; [auto|inversion H; auto].
  - intros [H|[-> ->]]; auto.
Qed.

Lemma nodup_snoc {A} (l : list A) x : NoDup l -> ~ In x l -> NoDup (l ++ [x]).
Proof.
  induction l as [|h t IH]; cbn; intros H N.
  - constructor; [intros []|constructor].
  - inversion H; subst. constructor.
    + rewrite in_app_iff. cbn. intros [H1|[H1|[]]]; [contradiction|subst; apply N; left; reflexivity].
    + apply IH; [assumption|]. intros H1. apply N. right; exact H1.
Qed.

Lemma nset_nodup {A} (l : list (N * A)) k v : NoDup (map fst l) -> NoDup (map fst (nset l k v)).
Proof.
  intros H. unfold nset. rewrite map_app. cbn. apply nodup_snoc; [apply nremove_nodup, H|].
  intros Hin. apply nremove_fst in Hin as [_ Hin]. congruence.
Qed.

Lemma nlookup_nremove_other {A} (l : list (N * A)) k q : q <> k -> nlookup (nremove l k) q = nlookup l q.
Proof.
  intros N. induction l as [|[r w] l IH]; cbn; [reflexivity|].
  destruct (N.eqb_spec k r).
  - subst r. rewrite IH. destruct (N.eqb_spec q k); [contradiction|reflexivity].
  - cbn. rewrite IH. reflexivity.
Qed.

Lemma nlookup_app_none {A} (l1 l2 : list (N * A)) k : nlookup l1 k = None -> nlookup (l1 ++ l2) k = nlookup l2 k.
Proof. induction l1 as [|[q v] r IH]; cbn; [reflexivity|]. destruct (N.eqb k q); [discriminate|exact IH]. Qed.

Lemma nlookup_app_some {A} (l1 l2 : list (N * A)) k v : nlookup l1 k = Some v -> nlookup (l1 ++ l2) k = Some v.
Proof. induction l1 as [|[q w] r IH]; cbn; [discriminate|]. destruct (N.eqb k q); [auto|exact IH]. Qed.

Lemma nlookup_nset_same {A} (l : list (N * A)) k v : nlookup (nset l k v) k = Some v.
Proof.
  unfold nset. rewrite nlookup_app_none; [cbn; rewrite N.eqb_refl; reflexivity|].
  apply nlookup_none. intros H. apply nremove_fst in H as [_ H]. congruence.
Qed.

Lemma nlookup_nset_other {A} (l : list (N * A)) k v q : q <> k -> nlookup (nset l k v) q = nlookup l q.
Proof.
  intros N. unfold nset. destruct (nlookup (nremove l k) q) eqn:E.
  - rewrite (nlookup_app_some _ _ _ _ E). rewrite nlookup_nremove_other in E by exact N. congruence.
  - rewrite (nlookup_app_none _ _ _ E). cbn. destruct (N.eqb_spec q k); [contradiction|].
    rewrite nlookup_nremove_other in E by exact N. congruence.
Qed.

(* ------------------------------------------------------------------ unsub_all *)

Lemma unsub_all_in l p ty m' :
  In (ty, m') (unsub_all l p) -> exists m, In (ty, m) l /\ m' = aremove m p /\ m' <> [] \/ In (ty, m') l /\ alookup m' p = None.
Proof.
  induction l as [|[ty0 m0] l IH]; cbn; [intros []|].
  destruct (alookup m0 p) eqn:E.
  - destruct (aremove m0 p) eqn:Er.
    + intros H. destruct (IH H) as (m & [(H1 & H2 & H3)|(H1 & H2)]); exists m; [left|right]; auto.
    + intros [H|H].
      * inversion H; subst. exists m0. left. split; [left; reflexivity|]. split; [congruence|discriminate].
      * destruct (IH H) as (m & [(H1 & H2 & H3)|(H1 & H2)]); exists m; [left|right]; auto.
  - intros [H|H].
    + inversion H; subst. exists m'. right. split; [left; reflexivity|exact E].
    + destruct (IH H) as (m & [(H1 & H2 & H3)|(H1 & H2)]); exists m; [left|right]; auto.
Qed.

(** after UnsubscribeAll no remaining entry mentions the path *)
Lemma unsub_all_no_entry l p ty m : In (ty, m) (unsub_all l p) -> alookup m p = None.
Proof.
  intros H. destruct (unsub_all_in _ _ _ _ H) as (m0 & [(H1 & H2 & H3)|(H1 & H2)]); [|exact H2].
  subst m. apply alookup_aremove_same.
Qed.

Lemma unsub_all_fst l p ty : In ty (map fst (unsub_all l p)) -> In ty (map fst l).
Proof.
  induction l as [|[ty0 m0] l IH]; cbn; [auto|].
  destruct (alookup m0 p); [destruct (aremove m0 p)|]; cbn; intros H; try tauto.
  all: destruct H as [H|H]; auto.
Qed.

Lemma unsub_all_types_nodup l p : NoDup (map fst l) -> NoDup (map fst (unsub_all l p)).
Proof.
  induction l as [|[ty0 m0] l IH]; cbn; [auto|]. intros H. inversion H; subst.
  assert (Hn : ~ In ty0 (map fst (unsub_all l p))) by (intros Hin; apply unsub_all_fst in Hin; contradiction).
  destruct (alookup m0 p); [destruct (aremove m0 p)|]; cbn; auto; constructor; auto.
Qed.

Lemma unsub_all_nodup l p : subs_nodup l -> subs_nodup (unsub_all l p).
Proof.
  intros [H1 H2]. split; [apply unsub_all_types_nodup, H1|].
  intros ty m Hin. destruct (unsub_all_in _ _ _ _ Hin) as (m0 & [(Ha & Hb & Hc)|(Ha & Hb)]).
  - subst m. apply aremove_nodup. eapply H2; eassumption.
  - eapply H2; eassumption.
Qed.

(** the table after UnsubscribeAll, type by type: the path is removed, a type whose map becomes empty is
    deleted, a type the path was not subscribed to is left alone *)
Lemma unsub_all_lookup l p ty : NoDup (map fst l) ->
  nlookup (unsub_all l p) ty =
    match nlookup l ty with
    | None => None
    | Some m => match alookup m p with
                | None => Some m
                | Some _ => match aremove m p with [] => None | m' => Some m' end
                end
    end.
Proof.
  induction l as [|[ty0 m0] l IH]; cbn; [reflexivity|]. intros H. inversion H; subst.
  destruct (N.eqb_spec ty ty0).
  - subst ty0. assert (Hn : nlookup (unsub_all l p) ty = None).
    { apply nlookup_none. intros Hin. apply unsub_all_fst in Hin. contradiction. }
    destruct (alookup m0 p); [destruct (aremove m0 p)|]; cbn; rewrite ?N.eqb_refl; auto.
  - destruct (alookup m0 p); [destruct (aremove m0 p)|]; cbn; auto.
    all: destruct (N.eqb_spec ty ty0); [contradiction|auto].
Qed.

Lemma unsub_all_subscribers l p ty : NoDup (map fst l) ->
  match nlookup (unsub_all l p) ty with Some m => m | None => [] end =
  aremove (match nlookup l ty with Some m => m | None => [] end) p.
Proof.
  intros H. rewrite (unsub_all_lookup _ _ _ H). destruct (nlookup l ty) as [m|]; [|reflexivity].
  destruct (alookup m p) eqn:E.
  - destruct (aremove m p); reflexivity.
  - rewrite (aremove_absent _ _ E). reflexivity.
Qed.

(* ------------------------------------------------------------------ invariants of the table *)

Lemma subs_set_pend s t p : subs (set_pend s t p) = subs s.
Proof.
  destruct t as [a|i]; cbn [set_pend]; unfold with_actor.
  - destruct (get s a); reflexivity.
  - destruct (nth_error (exts s) i); reflexivity.
Qed.

Lemma subscribers_nodup s ty : subs_nodup (subs s) -> NoDup (map fst (subscribers s ty)).
Proof.
  intros [_ H]. unfold subscribers. destruct (nlookup (subs s) ty) eqn:E; [|constructor].
  eapply H. apply nlookup_in. exact E.
Qed.

Lemma prim_subs_nodup t s s' : prim t s s' -> subs_nodup (subs s) -> subs_nodup (subs s').
Proof.
  intros Hp Hi. destruct Hp; cbn [subs set_err set_actor set_reg set_subs add_obs add_ghost]; auto.
  - rewrite subs_set_pend. exact Hi.
  - (* subscribe *)
    split; [apply nset_nodup, Hi|]. intros ty0 m Hin. apply nset_in in Hin as [[Hin _]|[-> ->]]; [eapply Hi; eassumption|].
    rewrite map_app. cbn. apply nodup_snoc; [apply subscribers_nodup, Hi|]. apply alookup_none. assumption.
  - (* unsubscribe *)
    split; [apply nset_nodup, Hi|]. intros ty0 m Hin. apply nset_in in Hin as [[Hin _]|[-> ->]]; [eapply Hi; eassumption|].
    apply aremove_nodup. eapply Hi. apply nlookup_in. eassumption.
  - apply unsub_all_nodup, Hi.
Qed.

Lemma subs_nodup_reachable s : reachable s -> subs_nodup (subs s).
Proof.
  apply (reachable_inv (fun s => subs_nodup (subs s))).
  - intros scs. rewrite init_with_subs. split; [constructor|intros ty m []].
  - intros t s1 s2 Hp. apply (prim_subs_nodup t s1 s2 Hp).
Qed.

Lemma prim_subs_wf t s s' : prim t s s' -> subs_wf s -> subs_wf s'.
Proof.
  intros Hp Hi.
  assert (Hsame : subs s' = subs s -> subs_wf s').
  { intros E ty m p a H1 H2. rewrite E in H1. destruct (Hi ty m p a H1 H2) as (x & Hx & Hpth).
    destruct (prim_keeps_actors t s s' Hp a x Hx) as (x' & Hx' & E1 & _). exists x'. split; [exact Hx'|congruence]. }
  destruct Hp; try (apply Hsame; reflexivity).
  - apply Hsame. apply subs_set_pend.
  - intros ty0 m p a0 H1 H2. cbn in H1. change (get (set_subs s _) a0) with (get s a0).
    apply nset_in in H1 as [[H1 _]|[-> ->]]; [eapply Hi; eassumption|].
    apply in_app_or in H2 as [H2|[H2|[]]].
    + unfold subscribers in H2. destruct (nlookup (subs s) ty) eqn:E; [|destruct H2].
      eapply Hi; [apply nlookup_in; exact E|exact H2].
    + inversion H2; subst. eauto.
  - intros ty0 m p0 a0 H1 H2. cbn in H1. change (get (set_subs s _) a0) with (get s a0).
    apply nset_in in H1 as [[H1 _]|[-> ->]]; [eapply Hi; eassumption|].
    apply aremove_in in H2 as [H2 _]. eapply Hi; [apply nlookup_in; eassumption|exact H2].
  - intros ty0 m p0 a0 H1 H2. cbn in H1. change (get (set_subs s _) a0) with (get s a0).
    destruct (unsub_all_in _ _ _ _ H1) as (m0 & [(Ha & Hb & Hc)|(Ha & Hb)]).
    + subst m. apply aremove_in in H2 as [H2 _]. eapply Hi; eassumption.
    + eapply Hi; eassumption.
Qed.

Lemma subs_wf_reachable s : reachable s -> subs_wf s.
Proof.
  apply (reachable_inv subs_wf).
  - intros scs ty m p a H. rewrite init_with_subs in H. destruct H.
  - apply prim_subs_wf.
Qed.

(* ------------------------------------------------------------------ the stream operations *)

Lemma subscribers_set_subs s r ty : subscribers (set_subs s r) ty = match nlookup r ty with Some l => l | None => [] end.
Proof. reflexivity. Qed.

(** Subscribe: a second subscription of the same path to the same type changes nothing *)
Lemma exec1_ASub_again s t held x ty v :
  get s (self_of t) = Some x -> alookup (subscribers s ty) (a_path x) = Some v ->
  exec1 s t held (IAct (ASub ty)) = (s, []).
Proof. intros H E. unfold exec1. rewrite H, E. reflexivity. Qed.

(** Subscribe: a new subscription adds exactly (path, context) to that type and touches no other type *)
Lemma exec1_ASub_new s t held x ty :
  get s (self_of t) = Some x -> alookup (subscribers s ty) (a_path x) = None ->
  exists s', exec1 s t held (IAct (ASub ty)) = (s', []) /\
    subscribers s' ty = subscribers s ty ++ [(a_path x, self_of t)] /\
    (forall ty', ty' <> ty -> nlookup (subs s') ty' = nlookup (subs s) ty') /\
    actors s' = actors s /\ reg s' = reg s.
Proof.
  intros H E. unfold exec1. rewrite H, E. eexists; split; [reflexivity|]. split; [|split; [|split; reflexivity]].
  - rewrite subscribers_set_subs, nlookup_nset_same. reflexivity.
  - intros ty' N. cbn. apply nlookup_nset_other, N.
Qed.

(** Unsubscribe: removes exactly that path from exactly that type; the type's entry stays, possibly empty
    (the Go code deletes from the inner map only) *)
Lemma exec1_AUnsub s t held x ty :
  get s (self_of t) = Some x ->
  exists s', exec1 s t held (IAct (AUnsub ty)) = (s', []) /\
    nlookup (subs s') ty = match nlookup (subs s) ty with Some l => Some (aremove l (a_path x)) | None => None end /\
    subscribers s' ty = aremove (subscribers s ty) (a_path x) /\
    (forall ty', ty' <> ty -> nlookup (subs s') ty' = nlookup (subs s) ty') /\
    actors s' = actors s /\ reg s' = reg s.
Proof.
  intros H. unfold exec1. rewrite H. unfold subscribers. destruct (nlookup (subs s) ty) as [l|] eqn:E.
  - eexists; split; [reflexivity|]. cbn [subs set_subs]. rewrite nlookup_nset_same.
    repeat split. intros ty' N. apply nlookup_nset_other, N.
  - eexists; split; [reflexivity|]. rewrite E. repeat split.
Qed.

(** UnsubscribeAll (also the first thing ICleanup does) *)
Lemma exec1_AUnsubAll s t held x :
  get s (self_of t) = Some x ->
  exec1 s t held (IAct AUnsubAll) = (set_subs s (unsub_all (subs s) (a_path x)), []).
Proof. intros H. unfold exec1. rewrite H. reflexivity. Qed.

(** Publish: a snapshot of the current subscribers of the type, one envelope each, sent by the system *)
Lemma exec1_IPub s t held x ty payload :
  get s (self_of t) = Some x ->
  exec1 s t held (IPub ty payload) =
    (s, match subscribers s ty with
        | [] => []
        | _ :: _ => [IEnqAny false (map (fun p => RObj (snd p)) (subscribers s ty)) root_ref (MEvent ty payload)]
        end).
Proof. intros H. unfold exec1. rewrite H. destruct (subscribers s ty); reflexivity. Qed.

Lemma exec1_APub s t held x ty payload :
  get s (self_of t) = Some x -> exec1 s t held (IAct (APub ty payload)) = (s, [IPub ty [payload]]).
Proof. intros H. unfold exec1. rewrite H. reflexivity. Qed.

Lemma nodup_snd_of_fst {A B} (l : list (A * B)) (f : B -> option A) :
  NoDup (map fst l) -> (forall p a, In (p, a) l -> f a = Some p) -> NoDup (map snd l).
Proof.
  induction l as [|[p a] l IH]; cbn; intros Hn Hf; [constructor|].
  inversion Hn; subst. constructor; [|apply IH; auto].
  intros Hin. apply in_map_iff in Hin as ([q b] & E & Hin). cbn in E; subst b.
  apply H1. apply in_map_iff. exists (q, a). split; [|exact Hin]. cbn.
  pose proof (Hf p a (or_introl eq_refl)) as F1. pose proof (Hf q a (or_intror Hin)) as F2. congruence.
Qed.

(** in a reachable state the snapshot names every subscribed path once and every subscribed context once *)
Lemma fanout_targets s ty :
  reachable s ->
  NoDup (sub_paths s ty) /\
  (forall p a, In (p, a) (subscribers s ty) -> exists y, get s a = Some y /\ a_path y = p) /\
  NoDup (map (fun p => RObj (snd p)) (subscribers s ty)).
Proof.
  intros Hr. pose proof (subs_nodup_reachable s Hr) as Hn. pose proof (subs_wf_reachable s Hr) as Hw.
  assert (Hwf : forall p a, In (p, a) (subscribers s ty) -> exists y, get s a = Some y /\ a_path y = p).
  { intros p a Hin. unfold subscribers in Hin. destruct (nlookup (subs s) ty) eqn:E; [|destruct Hin].
    eapply Hw; [apply nlookup_in; exact E|exact Hin]. }
  split; [apply subscribers_nodup, Hn|]. split; [exact Hwf|].
  rewrite <- (map_map snd RObj). apply FinFun.Injective_map_NoDup; [intros a b E; inversion E; reflexivity|].
  apply (nodup_snd_of_fst _ (fun a => match get s a with Some y => Some (a_path y) | None => None end)).
  - apply subscribers_nodup, Hn.
  - intros p a Hin. destruct (Hwf p a Hin) as (y & -> & ->). reflexivity.
Qed.

(* ------------------------------------------------------------------ who changes the table *)

Lemma subs_with_actor s a f : subs (with_actor s a f) = subs s.
Proof. unfold with_actor. destruct (get s a); reflexivity. Qed.

Lemma exec1_subs s t held i : stream_instr i = false -> subs (fst (exec1 s t held i)) = subs s.
Proof.
  unfold exec1. destruct (get s (self_of t)) as [x|] eqn:Hx; [|reflexivity].
  destruct i as [sys to sender m|sys to sender m|to e| |sys tos sender m|c d rem done| | | |a|m acts r| |ty payload|poison|who| | | | |c d targets|o| ];
    cbn [fst stream_instr]; try reflexivity; try discriminate.
  - destruct rem; reflexivity.
  - destruct a as [r tag acts|tag acts|sp|r poison| |n| |r|r|ty|ty| |ty payload|mode discard|discard]; cbn [fst]; try reflexivity; try discriminate.
    + intros _. destruct (a_state x); cbn [fst]; try reflexivity.
      all: destruct (negb (sp_prelaunch sp)); cbn [fst]; [reflexivity|].
      all: destruct (alookup (reg s) (a_path x ++ [sp_name sp])); cbn [fst]; [reflexivity|].
      all: rewrite subs_with_actor; reflexivity.
    + destruct (a_cur x); reflexivity.
    + destruct n; [|destruct (a_stash x); reflexivity]. destruct (Nat.eqb (length (a_stash x)) 0); reflexivity.
  - intros _. destruct (a_zombie x); [reflexivity|]. destruct (a_parent x).
    + destruct (take_until_panic acts). reflexivity.
    + destruct m; try reflexivity. destruct (ref_eq s who (RObj (self_of t))); reflexivity.
  - destruct (subscribers s ty); reflexivity.
  - destruct (a_zombie x); [reflexivity|]. destruct (ref_eq s who (RObj (self_of t))); reflexivity.
  - destruct (a_children x); [|reflexivity]. destruct (a_state x); reflexivity.
  - destruct (a_hooks x) as [|[[h1 h2] h3] rest]; [reflexivity|]. destruct (h2 && h3); reflexivity.
  - destruct d; reflexivity.
Qed.

Lemma dispatch_subs s a x e : subs (fst (dispatch s a x e)) = subs s.
Proof.
  unfold dispatch.
  repeat match goal with |- context[match ?e with _ => _ end] => destruct e end; reflexivity.
Qed.

(** death cleans: after ICleanup the dying actor's path is subscribed to nothing, no entry mentions it *)
Lemma cleanup_cleans s t held x :
  get s (self_of t) = Some x ->
  subs (fst (exec1 s t held ICleanup)) = unsub_all (subs s) (a_path x) /\
  (forall ty m, In (ty, m) (subs (fst (exec1 s t held ICleanup))) -> alookup m (a_path x) = None) /\
  (forall ty, alookup (subscribers (fst (exec1 s t held ICleanup)) ty) (a_path x) = None).
Proof.
  intros H. rewrite (exec1_ICleanup _ _ _ _ H). cbn [fst subs set_reg set_subs].
  split; [reflexivity|]. split.
  - intros ty m Hin. eapply unsub_all_no_entry; exact Hin.
  - intros ty. unfold subscribers. cbn [subs set_reg set_subs].
    destruct (nlookup (unsub_all (subs s) (a_path x)) ty) eqn:E; [|reflexivity].
    eapply unsub_all_no_entry. apply nlookup_in. exact E.
Qed.

(* ------------------------------------------------------------------ assembled statements *)

Lemma subs_nodup_unfolded s : reachable s ->
  NoDup (map fst (subs s)) /\ (forall ty m, In (ty, m) (subs s) -> NoDup (map fst m)) /\ (forall ty, NoDup (sub_paths s ty)).
Proof.
  intros Hr. pose proof (subs_nodup_reachable s Hr) as [H1 H2]. split; [exact H1|]. split; [exact H2|].
  intros ty. apply subscribers_nodup. split; assumption.
Qed.

Lemma unsubscribe_exact s t held x ty :
  get s (self_of t) = Some x ->
  exists s', exec1 s t held (IAct (AUnsub ty)) = (s', []) /\
    subscribers s' ty = aremove (subscribers s ty) (a_path x) /\
    alookup (subscribers s' ty) (a_path x) = None /\
    ~ In (a_path x) (sub_paths s' ty) /\
    (forall q, q <> a_path x -> alookup (subscribers s' ty) q = alookup (subscribers s ty) q) /\
    (forall ty', ty' <> ty -> nlookup (subs s') ty' = nlookup (subs s) ty').
Proof.
  intros H. destruct (exec1_AUnsub s t held x ty H) as (s' & E & _ & Hs & Ho & _).
  exists s'. split; [exact E|]. split; [exact Hs|]. rewrite Hs.
  split; [apply alookup_aremove_same|]. split; [|split; [|exact Ho]].
  - unfold sub_paths. rewrite Hs. apply alookup_none, alookup_aremove_same.
  - intros q N. apply alookup_aremove_other, N.
Qed.

Lemma unsubscribe_leaves_type s t held x ty l :
  get s (self_of t) = Some x -> nlookup (subs s) ty = Some l ->
  nlookup (subs (fst (exec1 s t held (IAct (AUnsub ty))))) ty = Some (aremove l (a_path x)).
Proof.
  intros H E. destruct (exec1_AUnsub s t held x ty H) as (s' & E' & Hl & _). rewrite E'. cbn [fst].
  rewrite Hl, E. reflexivity.
Qed.

Lemma unsubscribe_all_exact s t held x :
  get s (self_of t) = Some x -> subs_nodup (subs s) ->
  exists s', exec1 s t held (IAct AUnsubAll) = (s', []) /\
    subs s' = unsub_all (subs s) (a_path x) /\
    (forall ty, subscribers s' ty = aremove (subscribers s ty) (a_path x)) /\
    (forall ty m, In (ty, m) (subs s') -> alookup m (a_path x) = None) /\
    (forall ty m v, nlookup (subs s) ty = Some m -> alookup m (a_path x) = Some v -> aremove m (a_path x) = [] -> nlookup (subs s') ty = None) /\
    (forall ty m, nlookup (subs s) ty = Some m -> alookup m (a_path x) = None -> nlookup (subs s') ty = Some m) /\
    subs_nodup (subs s').
Proof.
  intros H [Hn1 Hn2]. rewrite (exec1_AUnsubAll _ _ _ _ H). eexists; split; [reflexivity|].
  cbn [subs set_subs]. split; [reflexivity|]. split; [|split; [|split; [|split]]].
  - intros ty. unfold subscribers. cbn [subs set_subs]. apply unsub_all_subscribers, Hn1.
  - intros ty m Hin. eapply unsub_all_no_entry; exact Hin.
  - intros ty m v E1 E2 E3. rewrite (unsub_all_lookup _ _ _ Hn1), E1, E2, E3. reflexivity.
  - intros ty m E1 E2. rewrite (unsub_all_lookup _ _ _ Hn1), E1, E2. reflexivity.
  - apply unsub_all_nodup. split; assumption.
Qed.

Lemma fanout s t held x ty payload :
  reachable s -> get s (self_of t) = Some x ->
  exec1 s t held (IPub ty payload) =
    (s, match subscribers s ty with
        | [] => []
        | _ :: _ => [IEnqAny false (map (fun p => RObj (snd p)) (subscribers s ty)) root_ref (MEvent ty payload)]
        end) /\
  NoDup (sub_paths s ty) /\
  (forall p a, In (p, a) (subscribers s ty) -> exists y, get s a = Some y /\ a_path y = p) /\
  NoDup (map (fun p => RObj (snd p)) (subscribers s ty)).
Proof. intros Hr H. split; [apply (exec1_IPub _ _ _ _ _ _ H)|apply fanout_targets, Hr]. Qed.

Lemma restart_keeps s t held a x e poison :
  e_msg e = MRestart poison ->
  subs (fst (dispatch s a x e)) = subs s /\
  subs (fst (exec1 s t held (IDoKill poison))) = subs s /\
  subs (fst (exec1 s t held ICheckMark)) = subs s /\
  subs (fst (exec1 s t held IRestartFinish)) = subs s /\
  reg (fst (exec1 s t held IRestartFinish)) = reg s.
Proof.
  intros _. split; [apply dispatch_subs|]. repeat split; try (apply exec1_subs; reflexivity).
  unfold exec1. destruct (get s (self_of t)) as [y|]; [|reflexivity].
  destruct (a_hooks y) as [|[[h1 h2] h3] rest]; [reflexivity|]. destruct (h2 && h3); reflexivity.
Qed.
