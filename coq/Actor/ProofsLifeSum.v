(** Summaries of what [exec1] / [dispatch] / the mailbox operations can change (frame lemmas). *)
From Coq Require Import List NArith ZArith Bool Lia.
From Vivid Require Import Base.Tm Actor.Core Actor.CoreRun Actor.SpecLife Actor.ProofsLife Actor.ProofsLifeInv.
Import ListNotations.
Local Open Scope N_scope.

(** the fields [exec1] never changes *)
Definition core_same (x x' : actor) : Prop :=
  a_path x' = a_path x /\ a_gen x' = a_gen x /\ a_parent x' = a_parent x /\ a_spec x' = a_spec x /\
  a_cache x' = a_cache x /\ a_sq x' = a_sq x /\ a_uq x' = a_uq x /\ a_paused x' = a_paused x /\ a_pend x' = a_pend x.

Lemma core_same_refl x : core_same x x.
Proof. repeat split. Qed.

Lemma upd_same {A} (l : list A) i x : nth_error l i = Some x -> upd l i x = l.
Proof. revert i; induction l as [|y l IH]; intros [|i]; cbn [nth_error upd]; try discriminate; [congruence|]. intros H. rewrite IH by exact H. reflexivity. Qed.

Definition is_spawn (i : instr) : bool := match i with IAct (ASpawn _) => true | _ => false end.
Definition chg_state (i : instr) : bool := match i with ICheckMark | IRestartFinish => true | _ => false end.
Definition chg_zombie (i : instr) : bool := match i with IUnzombie | IRestartFinish => true | _ => false end.
Definition chg_restarting (i : instr) : bool := match i with IRestartFinish => true | _ => false end.
Definition chg_children (i : instr) : bool := match i with IOnKilled _ => true | _ => false end.
Definition chg_cons (i : instr) : bool := match i with IEndHandler | IRestartFinish => true | _ => false end.
Definition chg_cur (i : instr) : bool := match i with ICheckMark | IRestartFinish => true | _ => false end.
Definition chg_stash (i : instr) : bool := match i with IAct AStash | IAct (AUnstash _) => true | _ => false end.
Definition chg_reg (i : instr) : bool := match i with ICleanup => true | _ => false end.
Definition chg_olog (i : instr) : bool := match i with IBeh _ _ _ | IObs _ => true | _ => false end.

Ltac leaf_fields := repeat split; intros; cbn; repeat destr_match; first [reflexivity|discriminate|congruence].

(** summary of [exec1] for everything but ActorOf: only the executing context's record changes, and only
    the listed instructions change the listed fields *)
Lemma exec1_summary s t h i s' front x :
  is_spawn i = false -> exec1 s t h i = (s', front) -> get s (self_of t) = Some x ->
  exists x', actors s' = upd (actors s) (self_of t) x' /\ core_same x x' /\ exts s' = exts s /\ gens s' = gens s /\
    (chg_state i = false -> a_state x' = a_state x) /\
    (chg_zombie i = false -> a_zombie x' = a_zombie x) /\
    (chg_restarting i = false -> a_restarting x' = a_restarting x) /\
    (chg_children i = false -> a_children x' = a_children x) /\
    (chg_cons i = false -> a_cons x' = a_cons x) /\
    (chg_cur i = false -> a_cur x' = a_cur x) /\
    (chg_stash i = false -> a_stash x' = a_stash x) /\
    a_watchers x' = a_watchers x /\
    (chg_reg i = false -> reg s' = reg s) /\
    (chg_olog i = false -> olog s' = olog s).
Proof.
  intros Hsp He Hg. pose proof Hg as Hg'. unfold get in Hg'.
  unfold exec1 in He. rewrite Hg in He.
  destruct i; try discriminate Hsp;
  repeat (match type of He with
          | (_, _) = (_, _) => inversion He; subst s' front; clear He
          | context [match ?y with _ => _ end] => destruct y eqn:?
          end);
  try discriminate Hsp.
  all: try (exists x; split; [symmetry; apply upd_same; exact Hg'|split; [apply core_same_refl|leaf_fields]]; fail).
  all: try (eexists; split; [reflexivity|split; [repeat split; repeat destr_match; reflexivity|leaf_fields]]; fail).
  all: repeat destr_match.
  all: try (exists x; split; [symmetry; apply upd_same; exact Hg'|split; [apply core_same_refl|leaf_fields]]; fail).
  all: try (eexists; split; [reflexivity|split; [repeat split; repeat destr_match; reflexivity|leaf_fields]]; fail).
Qed.

(* ------------------------------------------------------------------ the instructions exec1 emits *)

Definition is_beh (i : instr) : bool := match i with IBeh _ _ _ => true | _ => false end.
Definition is_obs_seen (i : instr) : bool := match i with IObs (OSeen _ _ _ _) => true | _ => false end.
(** significant instructions: everything that is not a plain send / publish / user action *)
Definition sig (i : instr) : bool := life_src i || is_unzombie i || is_beh i || is_end i || is_obs_seen i.
Definition gen_sig (i : instr) : bool :=
  match i with IDoKill _ | IOnKilled _ | ICheckMark | IRestartFinish => true | _ => false end.

Ltac in_front Hj :=
  repeat first
    [ rewrite in_app_iff in Hj
    | match type of Hj with
      | _ \/ _ => destruct Hj as [Hj|Hj]
      | False => destruct Hj
      | In _ [] => destruct Hj
      | In _ (_ :: _) => destruct Hj as [Hj|Hj]
      | In _ (map _ _) => apply in_map_iff in Hj as (? & Hj & ?)
      | In _ (flat_map _ _) => apply in_flat_map in Hj as (? & ? & Hj)
      | In _ (if ?b then _ else _) => destruct b
      | In _ (match ?b with _ => _ end) => destruct b
      end ].

Lemma exec1_front_plain s t h i s' front :
  gen_sig i = false -> exec1 s t h i = (s', front) -> forall j, In j front -> sig j = false.
Proof.
  intros Hgs He. unfold exec1 in He.
  destruct (get s (self_of t)) as [x|]; [|inversion He; intros j []].
  destruct i; try discriminate Hgs;
  repeat (match type of He with
          | (_, _) = (_, _) => inversion He; subst s' front; clear He
          | context [match ?y with _ => _ end] => destruct y eqn:?
          end);
  intros j Hj; in_front Hj; subst; try reflexivity.
Qed.
