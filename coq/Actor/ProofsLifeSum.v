(** Summaries of what [exec1] / [dispatch] / the mailbox operations can change (frame lemmas). *)
From Coq Require Import List NArith ZArith Bool Lia.
From Vivid Require Import Base.Tm Actor.Core Actor.CoreRun Actor.SpecLife Actor.ProofsLife Actor.ProofsLifeInv.
Import ListNotations.
Local Open Scope N_scope.

(** the fields [exec1] never changes *)
Definition core_same (x x' : actor) : Prop :=
  a_path x' = a_path x /\ a_gen x' = a_gen x /\ a_parent x' = a_parent x /\ a_spec x' = a_spec x /\
  a_cache x' = a_cache x /\ a_sq x' = a_sq x /\ a_uq x' = a_uq x /\ a_paused x' = a_paused x /\ a_pend x' = a_pend x.

Lemma core_same_refl x : core_same x x.
Proof. repeat split. Qed.

Lemma upd_same {A} (l : list A) i x : nth_error l i = Some x -> upd l i x = l.
Proof. revert i; induction l as [|y l IH]; intros [|i]; cbn [nth_error upd]; try discriminate; [congruence|]. intros H. rewrite IH by exact H. reflexivity. Qed.

Definition is_spawn (i : instr) : bool := match i with IAct (ASpawn _) => true | _ => false end.
Definition chg_state (i : instr) : bool := match i with ICheckMark | IRestartFinish => true | _ => false end.
Definition chg_zombie (i : instr) : bool := match i with IUnzombie | IRestartFinish => true | _ => false end.
Definition chg_restarting (i : instr) : bool := match i with IRestartFinish => true | _ => false end.
Definition chg_children (i : instr) : bool := match i with IOnKilled _ => true | _ => false end.
Definition chg_cons (i : instr) : bool := match i with IEndHandler | IRestartFinish => true | _ => false end.
Definition chg_cur (i : instr) : bool := match i with ICheckMark | IRestartFinish => true | _ => false end.
Definition chg_stash (i : instr) : bool := match i with IAct AStash | IAct (AUnstash _) => true | _ => false end.
Definition chg_reg (i : instr) : bool := match i with ICleanup => true | _ => false end.
Definition chg_olog (i : instr) : bool := match i with IBeh _ _ _ | IObs _ => true | _ => false end.

Ltac leaf_fields := repeat split; intros; cbn; repeat destr_match; first [reflexivity|discriminate|congruence].

(** summary of [exec1] for everything but ActorOf: only the executing context's record changes, and only
    the listed instructions change the listed fields *)
Lemma exec1_summary s t h i s' front x :
  is_spawn i = false -> exec1 s t h i = (s', front) -> get s (self_of t) = Some x ->
  exists x', actors s' = upd (actors s) (self_of t) x' /\ core_same x x' /\ exts s' = exts s /\ gens s' = gens s /\
    (chg_state i = false -> a_state x' = a_state x) /\
    (chg_zombie i = false -> a_zombie x' = a_zombie x) /\
    (chg_restarting i = false -> a_restarting x' = a_restarting x) /\
    (chg_children i = false -> a_children x' = a_children x) /\
    (chg_cons i = false -> a_cons x' = a_cons x) /\
    (chg_cur i = false -> a_cur x' = a_cur x) /\
    (chg_stash i = false -> a_stash x' = a_stash x) /\
    a_watchers x' = a_watchers x /\
    (chg_reg i = false -> reg s' = reg s) /\
    (chg_olog i = false -> olog s' = olog s).
Proof.
  intros Hsp He Hg. pose proof Hg as Hg'. unfold get in Hg'.
  unfold exec1 in He. rewrite Hg in He.
  destruct i; try discriminate Hsp;
  repeat (match type of He with
          | (_, _) = (_, _) => inversion He; subst s' front; clear He
          | context [match ?y with _ => _ end] => destruct y eqn:?
          end);
  try discriminate Hsp.
  all: try (exists x; split; [symmetry; apply upd_same; exact Hg'|split; [apply core_same_refl|leaf_fields]]; fail).
  all: try (eexists; split; [reflexivity|split; [repeat split; repeat destr_match; reflexivity|leaf_fields]]; fail).
  all: repeat destr_match.
  all: try (exists x; split; [symmetry; apply upd_same; exact Hg'|split; [apply core_same_refl|leaf_fields]]; fail).
  all: try (eexists; split; [reflexivity|split; [repeat split; repeat destr_match; reflexivity|leaf_fields]]; fail).
Qed.

(* ------------------------------------------------------------------ the instructions exec1 emits *)

Definition is_beh (i : instr) : bool := match i with IBeh _ _ _ => true | _ => false end.
Definition is_obs_seen (i : instr) : bool := match i with IObs (OSeen _ _ _ _) => true | _ => false end.
(** significant instructions: everything that is not a plain send / publish / user action *)
Definition sig (i : instr) : bool := life_src i || is_unzombie i || is_beh i || is_end i || is_obs_seen i.
Definition gen_sig (i : instr) : bool :=
  match i with IDoKill _ | IOnKilled _ | ICheckMark | IRestartFinish => true | _ => false end.

Ltac in_front Hj :=
  repeat first
    [ rewrite in_app_iff in Hj
    | match type of Hj with
      | _ \/ _ => destruct Hj as [Hj|Hj]
      | False => destruct Hj
      | In _ [] => destruct Hj
      | In _ (_ :: _) => destruct Hj as [Hj|Hj]
      | In _ (map _ _) => apply in_map_iff in Hj as (? & Hj & ?)
      | In _ (flat_map _ _) => apply in_flat_map in Hj as (? & ? & Hj)
      | In _ (if ?b then _ else _) => destruct b
      | In _ (match ?b with _ => _ end) => destruct b
      end ].

Lemma exec1_front_plain s t h i s' front :
  gen_sig i = false -> exec1 s t h i = (s', front) -> forall j, In j front -> sig j = false.
Proof.
  intros Hgs He. unfold exec1 in He.
  destruct (get s (self_of t)) as [x|]; [|inversion He; intros j []].
  destruct i; try discriminate Hgs;
  repeat (match type of He with
          | (_, _) = (_, _) => inversion He; subst s' front; clear He
          | context [match ?y with _ => _ end] => destruct y eqn:?
          end);
  intros j Hj; in_front Hj; subst; try reflexivity.
Qed.

(* ------------------------------------------------------------------ spawn: the self record *)

(** for every instruction: the executing context keeps its pending list and the fields [exec1] never changes *)
Lemma exec1_self s t h i s' front x :
  exec1 s t h i = (s', front) -> get s (self_of t) = Some x ->
  exists x', get s' (self_of t) = Some x' /\ core_same x x' /\ a_watchers x' = a_watchers x /\
    (chg_state i = false -> a_state x' = a_state x) /\
    (chg_zombie i = false -> a_zombie x' = a_zombie x) /\
    (chg_restarting i = false -> a_restarting x' = a_restarting x) /\
    (chg_cons i = false -> a_cons x' = a_cons x) /\
    (chg_cur i = false -> a_cur x' = a_cur x) /\
    (chg_children i = false -> is_spawn i = false -> a_children x' = a_children x).
Proof.
  intros He Hg. destruct (is_spawn i) eqn:Hsp.
  - destruct i as [| | | | | | | | |ac| | | | | | | | | | | |]; try discriminate Hsp. destruct ac; try discriminate Hsp.
    destruct (a_state x) eqn:Hst.
    3:{ rewrite (exec1_spawn_parent_dead s t h sp x Hg Hst) in He. inversion He; subst.
        exists x. split; [exact Hg|]. split; [apply core_same_refl|]. repeat split; intros; first [reflexivity|congruence]. }
    all: assert (Hnk : a_state x <> Killed) by congruence.
    all: destruct (sp_prelaunch sp) eqn:Hpl;
      [|rewrite (exec1_spawn_prelaunch_fail s t h sp x Hg Hnk Hpl) in He; inversion He; subst;
        exists x; split; [exact Hg|]; split; [apply core_same_refl|]; repeat split; intros; first [reflexivity|congruence]].
    all: destruct (alookup (reg s) (a_path x ++ [sp_name sp])) as [c|] eqn:Hr;
      [rewrite (exec1_spawn_exists s t h sp x c Hg Hnk Hpl Hr) in He; inversion He; subst;
        exists x; split; [exact Hg|]; split; [apply core_same_refl|]; repeat split; intros; first [reflexivity|congruence]|].
    all: destruct (exec1_spawn_ok s t h sp x s' front Hg Hnk Hpl Hr He) as (_ & _ & _ & Hs & _).
    all: eexists; split; [exact Hs|]; split; [repeat split|]; repeat split; intros; try reflexivity; try exact Hst; try discriminate.
  - destruct (exec1_summary s t h i s' front x Hsp He Hg) as (x' & Ha & Hc & _ & _ & H1 & H2 & H3 & H4 & H5 & H6 & _ & H7 & _).
    exists x'. split; [|repeat split; try apply Hc; auto].
    unfold get. rewrite Ha. eapply nth_error_upd_same. exact Hg.
Qed.

(* ------------------------------------------------------------------ mailbox operations: frames *)

(** everything but the mailbox part (cache, queues, paused flag) *)
Definition lsame (x y : actor) : Prop :=
  a_path y = a_path x /\ a_gen y = a_gen x /\ a_parent y = a_parent x /\ a_spec y = a_spec x /\
  a_state y = a_state x /\ a_zombie y = a_zombie x /\ a_restarting y = a_restarting x /\
  a_children y = a_children x /\ a_watchers y = a_watchers x /\ a_stash y = a_stash x /\ a_modes y = a_modes x /\
  a_inst y = a_inst x /\ a_decisions y = a_decisions x /\ a_hooks y = a_hooks x /\
  a_cons y = a_cons x /\ a_cur y = a_cur x /\ a_pend y = a_pend x.

Lemma lsame_refl x : lsame x x. Proof. repeat split. Qed.

Definition mb_equiv (s s' : state) : Prop :=
  (forall b, match get s b, get s' b with
             | Some x, Some y => lsame x y
             | None, None => True
             | _, _ => False
             end) /\
  exts s' = exts s /\ reg s' = reg s /\ gens s' = gens s /\ subs s' = subs s /\ olog s' = olog s.

Lemma mb_equiv_refl s : mb_equiv s s.
Proof. split; [|repeat split]. intros b. destruct (get s b); [apply lsame_refl|exact I]. Qed.

Lemma mb_equiv_trans s1 s2 s3 : mb_equiv s1 s2 -> mb_equiv s2 s3 -> mb_equiv s1 s3.
Proof.
  intros (H1 & E1 & R1 & G1 & S1 & O1) (H2 & E2 & R2 & G2 & S2 & O2).
  split; [|repeat split; congruence].
  intros b. specialize (H1 b). specialize (H2 b).
  destruct (get s1 b), (get s2 b), (get s3 b); try contradiction; try exact I.
  unfold lsame in *. intuition congruence.
Qed.

Lemma mb_equiv_set_actor s a x y : get s a = Some x -> lsame x y -> mb_equiv s (set_actor s a y).
Proof.
  intros Hg Hl. split; [|repeat split]. intros b. destruct (Nat.eq_dec a b) as [<-|Hne].
  - rewrite (get_set_actor_same _ _ _ _ Hg), Hg. exact Hl.
  - rewrite get_set_actor_other by exact Hne. destruct (get s b); [apply lsame_refl|exact I].
Qed.

Lemma mb_equiv_set_err s : mb_equiv s (set_err s).
Proof. split; [|repeat split]. intros b. change (get (set_err s) b) with (get s b). destruct (get s b); [apply lsame_refl|exact I]. Qed.

Lemma mb_equiv_push_mb s a e : mb_equiv s (push_mb s a e).
Proof.
  unfold push_mb, with_actor. destruct (get s a) as [x|] eqn:Hg; [|apply mb_equiv_set_err].
  apply mb_equiv_set_actor with (x := x); [exact Hg|repeat split].
Qed.

Lemma mb_equiv_deliver s m e : mb_equiv s (fst (deliver s m e)).
Proof. destruct m; cbn [deliver fst]; apply mb_equiv_push_mb. Qed.

Lemma mb_equiv_resolve s r : mb_equiv s (snd (resolve s r)).
Proof.
  destruct r as [a|p|]; cbn [resolve]; [| |apply mb_equiv_refl].
  - destruct (get s a) as [x|] eqn:Hg; [|apply mb_equiv_set_err].
    destruct (a_cache x); [apply mb_equiv_refl|].
    destruct (alookup (reg s) (a_path x)); [|destruct (path_eqb (a_path x) []); apply mb_equiv_refl].
    cbn [snd]. apply mb_equiv_set_actor with (x := x); [exact Hg|repeat split].
  - destruct (alookup (reg s) p); [apply mb_equiv_refl|]. destruct (path_eqb p []); apply mb_equiv_refl.
Qed.

(** [set_pend] *)
Lemma get_set_pend_TA_same s a p x : get s a = Some x -> get (set_pend s (TA a) p) a = Some (upd_pend x p).
Proof. intros Hg. cbn [set_pend]. unfold with_actor. rewrite Hg. apply (get_set_actor_same _ _ _ _ Hg). Qed.

Lemma get_set_pend_TA_other s a b p : a <> b -> get (set_pend s (TA a) p) b = get s b.
Proof.
  intros Hne. cbn [set_pend]. unfold with_actor. destruct (get s a); [apply get_set_actor_other; exact Hne|reflexivity].
Qed.

Lemma get_set_pend_TX s i p b : get (set_pend s (TX i) p) b = get s b.
Proof. cbn [set_pend]. destruct (nth_error (exts s) i); reflexivity. Qed.

Lemma pend_of_set_pend_same s t p : err (set_pend s t p) = false -> pend_of (set_pend s t p) t = p.
Proof.
  destruct t as [a|i]; cbn [set_pend pend_of].
  - unfold with_actor. destruct (get s a) as [x|] eqn:Hg; [|discriminate]. intros _.
    rewrite (get_set_actor_same _ _ _ _ Hg). reflexivity.
  - destruct (nth_error (exts s) i) as [ex|] eqn:Hn; [|discriminate]. intros _.
    unfold set_ext; cbn [exts]. rewrite (nth_error_upd_same _ _ _ _ Hn). reflexivity.
Qed.

(* ------------------------------------------------------------------ exec1 and the external callers' records *)

Lemma exec1_exts_pend s t h i s' front :
  exec1 s t h i = (s', front) ->
  forall k, option_map x_pend (nth_error (exts s') k) = option_map x_pend (nth_error (exts s) k).
Proof.
  intros He k. destruct (is_spawn i) eqn:Hsp.
  - destruct i as [| | | | | | | | |ac| | | | | | | | | | | |]; try discriminate Hsp. destruct ac; try discriminate Hsp.
    unfold exec1 in He. destruct (get s (self_of t)) as [x|] eqn:Hg; [|inversion He; reflexivity].
    repeat (match type of He with
          | (_, _) = (_, _) => inversion He; subst s' front; clear He
          | context [match ?y with _ => _ end] => destruct y eqn:?
          end); try reflexivity.
    all: unfold with_actor; repeat destr_match; cbn [exts set_actor set_err]; try reflexivity.
    all: match goal with Hn : nth_error (exts _) ?j = Some _ |- _ =>
           destruct (Nat.eq_dec j k) as [->|Hne];
           [rewrite (nth_error_upd_same _ _ _ _ Hn), Hn; reflexivity|rewrite nth_error_upd_other by exact Hne; reflexivity] end.
  - unfold exec1 in He. destruct (get s (self_of t)) as [x|] eqn:Hg; [|inversion He; reflexivity].
    destruct (exec1_summary s t h i s' front x Hsp) as (x' & _ & _ & Hx & _); [unfold exec1; rewrite Hg; exact He|exact Hg|].
    rewrite Hx. reflexivity.
Qed.

Lemma astep_TA s a i rest x :
  get s a = Some x ->
  exists s1 front x1,
    exec1 (set_actor s a (upd_pend x rest)) (TA a) [] i = (s1, front) /\ get s1 a = Some x1 /\ a_pend x1 = rest /\
    astep s (TA a) i rest = set_actor s1 a (upd_pend x1 (front ++ rest)).
Proof.
  intros Hg. unfold astep. cbn [set_pend held_of]. unfold with_actor at 1. rewrite Hg.
  destruct (exec1 (set_actor s a (upd_pend x rest)) (TA a) [] i) as [s1 front] eqn:He.
  assert (Hg0 : get (set_actor s a (upd_pend x rest)) (self_of (TA a)) = Some (upd_pend x rest))
    by (apply (get_set_actor_same _ _ _ _ Hg)).
  destruct (exec1_self _ _ _ _ _ _ _ He Hg0) as (x1 & Hg1 & Hc & _).
  exists s1, front, x1. split; [reflexivity|]. split; [exact Hg1|].
  assert (Hp : a_pend x1 = rest) by (destruct Hc as (_ & _ & _ & _ & _ & _ & _ & _ & Hc); exact Hc).
  split; [exact Hp|]. cbn [pend_of self_of] in *. unfold with_actor. rewrite Hg1, Hp. reflexivity.
Qed.

Lemma astep_TX s k i rest ex :
  nth_error (exts s) k = Some ex ->
  exists s1 front ex1,
    exec1 (set_ext s k {| x_pend := rest; x_held := x_held ex |}) (TX k) (x_held ex) i = (s1, front) /\
    nth_error (exts s1) k = Some ex1 /\ x_pend ex1 = rest /\
    (forall j, j <> k -> option_map x_pend (nth_error (exts s1) j) = option_map x_pend (nth_error (exts s) j)) /\
    astep s (TX k) i rest = set_ext s1 k {| x_pend := front ++ rest; x_held := x_held ex1 |}.
Proof.
  intros Hn. unfold astep. cbn [set_pend]. rewrite Hn.
  assert (Hn0 : nth_error (exts (set_ext s k {| x_pend := rest; x_held := x_held ex |})) k = Some {| x_pend := rest; x_held := x_held ex |})
    by (unfold set_ext; cbn [exts]; apply (nth_error_upd_same _ _ _ _ Hn)).
  assert (Hh : held_of (set_ext s k {| x_pend := rest; x_held := x_held ex |}) (TX k) = x_held ex)
    by (cbn [held_of]; rewrite Hn0; reflexivity).
  rewrite Hh.
  destruct (exec1 (set_ext s k {| x_pend := rest; x_held := x_held ex |}) (TX k) (x_held ex) i) as [s1 front] eqn:He.
  pose proof (exec1_exts_pend _ _ _ _ _ _ He) as Hx.
  pose proof (Hx k) as Hk. rewrite Hn0 in Hk. cbn [option_map x_pend] in Hk.
  destruct (nth_error (exts s1) k) as [ex1|] eqn:Hn1; [|discriminate Hk].
  cbn [option_map] in Hk. assert (Hk' : x_pend ex1 = rest) by congruence.
  exists s1, front, ex1. split; [reflexivity|]. split; [exact Hn1|]. split; [exact Hk'|]. split.
  - intros j Hj. rewrite Hx. unfold set_ext; cbn [exts]. rewrite nth_error_upd_other by congruence. reflexivity.
  - cbn [pend_of set_pend]. rewrite Hn1, Hk'. reflexivity.
Qed.

(** the other contexts: untouched; ActorOf may append one fresh context *)
Lemma exec1_other s t h i s' front b y :
  exec1 s t h i = (s', front) -> b <> self_of t -> get s' b = Some y ->
  get s b = Some y \/
  (get s b = None /\ b = length (actors s) /\
   exists sp x, i = IAct (ASpawn sp) /\ get s (self_of t) = Some x /\ a_state x <> Killed /\ sp_prelaunch sp = true /\
     alookup (reg s) (a_path x ++ [sp_name sp]) = None /\
     y = new_actor (a_path x ++ [sp_name sp]) (match alookup (gens s) (a_path x ++ [sp_name sp]) with Some g => g | None => 0 end)
                   (Some (self_of t)) sp).
Proof.
  intros He Hb Hy.
  destruct (get s (self_of t)) as [x|] eqn:Hg.
  2:{ unfold exec1 in He. rewrite Hg in He. inversion He; subst. left. exact Hy. }
  destruct (is_spawn i) eqn:Hsp.
  - destruct i as [| | | | | | | | |ac| | | | | | | | | | | |]; try discriminate Hsp. destruct ac; try discriminate Hsp.
    destruct (a_state x) eqn:Hst.
    3:{ rewrite (exec1_spawn_parent_dead s t h sp x Hg Hst) in He. inversion He; subst. left; exact Hy. }
    all: assert (Hnk : a_state x <> Killed) by congruence.
    all: destruct (sp_prelaunch sp) eqn:Hpl;
      [|rewrite (exec1_spawn_prelaunch_fail s t h sp x Hg Hnk Hpl) in He; inversion He; subst; left; exact Hy].
    all: destruct (alookup (reg s) (a_path x ++ [sp_name sp])) as [c|] eqn:Hr;
      [rewrite (exec1_spawn_exists s t h sp x c Hg Hnk Hpl Hr) in He; inversion He; subst; left; exact Hy|].
    all: destruct (exec1_spawn_ok s t h sp x s' front Hg Hnk Hpl Hr He) as (_ & Hnew & Hoth & _).
    all: destruct (Nat.eq_dec b (length (actors s))) as [Hbe|Hbn];
      [right; subst b; rewrite Hnew in Hy; inversion Hy; subst y;
       split; [apply nth_error_None; apply Nat.le_refl|]; split; [reflexivity|];
       exists sp, x; repeat split; try assumption; try reflexivity; congruence
      |left; rewrite <- (Hoth b Hb Hbn); exact Hy].
  - destruct (exec1_summary s t h i s' front x Hsp He Hg) as (x' & Ha & _).
    left. unfold get in *. rewrite Ha in Hy. rewrite nth_error_upd_other in Hy by congruence. exact Hy.
Qed.

(* ------------------------------------------------------------------ dispatch: frame *)

(** HandleEnvelop itself (before the instructions run) changes only the handling context's state,
    restart marker, current envelope, decisions and watchers *)
Lemma dispatch_frame s a x e s1 ins :
  get s a = Some x -> dispatch s a x e = (s1, ins) ->
  exists y, actors s1 = upd (actors s) a y /\ exts s1 = exts s /\ reg s1 = reg s /\ subs s1 = subs s /\
    olog s1 = olog s /\ gens s1 = gens s /\ err s1 = err s /\
    a_path y = a_path x /\ a_gen y = a_gen x /\ a_parent y = a_parent x /\ a_spec y = a_spec x /\
    a_cache y = a_cache x /\ a_sq y = a_sq x /\ a_uq y = a_uq x /\ a_paused y = a_paused x /\ a_pend y = a_pend x /\
    a_cons y = a_cons x /\ a_zombie y = a_zombie x /\ a_children y = a_children x /\ a_stash y = a_stash x /\
    a_modes y = a_modes x /\ a_inst y = a_inst x /\ a_hooks y = a_hooks x.
Proof.
  intros Hg He. pose proof Hg as Hg'. unfold get in Hg'. unfold dispatch in He.
  repeat (match type of He with
          | (_, _) = (_, _) => inversion He; subst s1 ins; clear He
          | context [match ?y with _ => _ end] => destruct y eqn:?
          end).
  all: try (exists x; split; [symmetry; apply upd_same; exact Hg'|repeat split; cbn; first [reflexivity|congruence]]; fail).
  all: try (eexists; split; [reflexivity|repeat split; cbn; first [reflexivity|congruence]]; fail).
  all: repeat destr_match.
  all: try (eexists; split; [reflexivity|repeat split; cbn; first [reflexivity|congruence]]; fail).
Qed.
