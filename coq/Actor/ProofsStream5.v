(** C19, history level, part 4: every entry of the subscription table (other than the guard's) names a registered
    context - the stream holds no entry for a terminated subscriber - as an invariant of all histories; and its
    consequence: nothing published after a subscriber's termination is delivered to it.
    Definitions: Actor/SpecStream.v. *)
From Coq Require Import List NArith ZArith Bool Permutation Lia Arith.
From Vivid Require Import Actor.Core Actor.CoreRun Actor.SpecSup Actor.ProofsSup Actor.ProofsStream.
From Vivid Require Import Actor.SpecMail Actor.ProofsMailBase Actor.ProofsMail Actor.ProofsMailInv Actor.ProofsMailWf
  Actor.ProofsMailAcct Actor.ProofsMailReg Actor.ProofsMailMicro Actor.ProofsMailLife Actor.ProofsMailStep Actor.ProofsMailTree.
From Vivid Require Import Actor.SpecStream Actor.ProofsStream2 Actor.ProofsStream3 Actor.ProofsStream4.
Import ListNotations.

(* ------------------------------------------------------------------ every micro-step is a composition of primitive updates *)

Lemma astep_prims s t i rest : prims t s (astep s t i rest).
Proof.
  unfold astep. destruct (exec1 (set_pend s t rest) t (held_of (set_pend s t rest) t) i) as [s1 front] eqn:E.
  eapply ps_step; [|apply p_pend]. eapply prims_trans; [apply prims_one, p_pend|]. eapply exec1_prims'; exact E.
Qed.

Lemma mstep_prims s m : exists t0, prims t0 s (mstep s m).
Proof.
  destruct m; cbn [mstep].
  - eexists. apply (step_prims s (EvSysPop a)).
  - eexists. apply (step_prims s (EvLoadPaused a)).
  - eexists. apply (step_prims s (EvUserPop a)).
  - exists (TA a). destruct (get s a) as [x|] eqn:Hx; [|apply prims_one, p_err].
    destruct (a_cons x) as [| | | |e|md]; try (apply prims_one, p_err).
    match goal with |- context[dispatch ?s1 a ?x0 e] => destruct (dispatch s1 a x0 e) as [s2 ins] eqn:E end.
    eapply ps_step; [|apply p_pend].
    eapply prims_trans; [|change s2 with (fst (s2, ins)); rewrite <- E; apply dispatch_prims; eapply ProofsSup.get_set_actor_same; exact Hx].
    apply prims_one. eapply p_actor; [exact Hx|]. repeat split.
  - eexists. apply (step_prims s (EvPush t c)).
  - exists t. destruct (pend_of s t) as [|i rest]; [apply prims_one, p_err|]. destruct i; try (apply prims_one, p_err). apply prims_one, p_pend.
  - exists t. destruct (pend_of s t) as [|i rest]; [apply prims_one, p_err|]. destruct i; try (apply prims_one, p_err).
    eapply ps_step; [|apply p_pend]. apply with_actor_prims. intros x; repeat split.
  - exists t. destruct (pend_of s t) as [|i rest]; [apply prims_one, p_err|].
    destruct (get s (self_of t)) as [x|] eqn:Hx; destruct i; try (apply prims_one, p_err).
    destruct (a_paused x).
    + eapply ps_step; [|apply p_pend]. apply prims_one. eapply p_actor; [exact Hx|repeat split].
    + apply prims_one, p_pend.
  - exists t. destruct (pend_of s t) as [|i rest]; [apply prims_one, p_err|]. destruct i; try (apply prims_one, p_err). apply prims_one, p_pend.
  - exists t. destruct (pend_of s t) as [|i rest]; [apply ps_refl|].
    destruct i; cbn [yielding]; try apply ps_refl; try apply astep_prims.
    + eapply ps_step; [|apply p_pend]. apply resolve_prims.
    + destruct remaining; [apply astep_prims|apply ps_refl].
Qed.

Lemma mstep_keeps s m a x : get s a = Some x -> exists x', get (mstep s m) a = Some x' /\ a_path x' = a_path x.
Proof.
  intros Hg. destruct (mstep_prims s m) as [t0 Hp]. destruct (prims_keeps_actors _ _ _ Hp a x Hg) as (x' & Hx' & E & _). eauto.
Qed.

(* ------------------------------------------------------------------ tables and registry across a micro-step *)

Lemma alookup_app_keep {A} (l1 l2 : list (path * A)) p v : alookup l1 p = Some v -> alookup (l1 ++ l2) p = Some v.
Proof. induction l1 as [|[q w] l1 IH]; cbn [app alookup]; [discriminate|]. destruct (path_eqb p q); auto. Qed.

(** the registry only loses entries by cleanup *)
Lemma exec1_reg_mono s t h i p a :
  i <> ICleanup -> alookup (reg s) p = Some a -> alookup (reg (fst (exec1 s t h i))) p = Some a.
Proof.
  intros Hi Hl. unfold exec1. destruct (get s (self_of t)) as [x|] eqn:Hx; [|exact Hl].
  destruct i; try congruence; cbn [fst]; try exact Hl.
  - destruct remaining; exact Hl.
  - destruct a0; cbn [fst]; try exact Hl.
    + destruct (a_state x); cbn [fst]; try exact Hl.
      all: destruct (negb (sp_prelaunch sp)); cbn [fst]; [exact Hl|].
      all: destruct (alookup (reg s) (a_path x ++ [sp_name sp])); cbn [fst]; [exact Hl|].
      all: match goal with |- context[with_actor ?s1 ?b ?f] => destruct (with_actor_fields s1 b f) as (_ & _ & -> & _) end.
      all: cbn [reg]; apply alookup_app_keep; exact Hl.
    + destruct (a_cur x); exact Hl.
    + destruct n; [|destruct (a_stash x); exact Hl]. destruct (Nat.eqb (length (a_stash x)) 0); exact Hl.
    + destruct (alookup (subscribers s ty) (a_path x)); exact Hl.
    + destruct (nlookup (subs s) ty); exact Hl.
  - destruct (a_zombie x); [exact Hl|]. destruct (a_parent x).
    + destruct (take_until_panic acts). exact Hl.
    + destruct m; try exact Hl. destruct (ref_eq s who (RObj (self_of t))); exact Hl.
  - destruct (subscribers s ty); exact Hl.
  - destruct (a_zombie x); [exact Hl|]. destruct (ref_eq s who (RObj (self_of t))); exact Hl.
  - destruct (a_children x); [|exact Hl]. destruct (a_state x); exact Hl.
  - destruct (a_hooks x) as [|[[h1 h2] h3] hs]; [exact Hl|]. destruct (h2 && h3); exact Hl.
  - destruct d; exact Hl.
Qed.

Lemma resolve_subs s r : subs (snd (resolve s r)) = subs s.
Proof. destruct (resolve_shape s r) as [H|[H|(a & x & y & _ & _ & _ & _ & H & _)]]; rewrite H; reflexivity. Qed.
Lemma push_mb_subs s a e : subs (push_mb s a e) = subs s.
Proof. unfold push_mb. apply with_actor_fields. Qed.
Lemma push_mb_reg s a e : reg (push_mb s a e) = reg s.
Proof. unfold push_mb. apply with_actor_fields. Qed.

Definition reg_mono (s s' : state) : Prop := forall p a, alookup (reg s) p = Some a -> alookup (reg s') p = Some a.

(** a micro-step other than one of the four stream instructions leaves the table alone and keeps every registration *)
Lemma mstep_tables s m :
  (subs (mstep s m) = subs s /\ reg_mono s (mstep s m)) \/
  (exists t i rest, m = MAtomic t /\ pend_of s t = i :: rest /\ stream_instr i = true /\ mstep s m = astep s t i rest).
Proof.
  assert (Hsame : forall s', subs s' = subs s -> reg s' = reg s -> subs s' = subs s /\ reg_mono s s').
  { intros s' H1 H2. split; [exact H1|]. intros p a. rewrite H2. auto. }
  destruct m; cbn [mstep step].
  - left. apply Hsame; destruct (get s a) as [x|]; try reflexivity; destruct (a_cons x), (a_sq x); reflexivity.
  - left. apply Hsame; destruct (get s a) as [x|]; try reflexivity; destruct (a_cons x); reflexivity.
  - left. apply Hsame; destruct (get s a) as [x|]; try reflexivity; destruct (a_cons x), (a_uq x); reflexivity.
  - left. destruct (get s a) as [x|] eqn:Hg; [|apply Hsame; reflexivity]. destruct (a_cons x); try (apply Hsame; reflexivity).
    destruct (dispatch_effect (set_actor s a (busy x)) a (busy x) e (get_set_same' s a _ x Hg)) as (y & _ & _ & _ & _ & _ & Hr & Hs & _).
    destruct (dispatch (set_actor s a (busy x)) a (busy x) e) as [s1 ins]. cbn [fst] in *.
    apply Hsame; [rewrite set_pend_subs; exact Hs|rewrite set_pend_reg; exact Hr].
  - left. destruct (pend_of s t) as [|i rest]; [apply Hsame; reflexivity|]. destruct i; try (apply Hsame; reflexivity).
    + rewrite deliver_eq. apply Hsame; [rewrite set_pend_subs; apply push_mb_subs|rewrite set_pend_reg; apply push_mb_reg].
    + apply Hsame; [rewrite set_pend_subs; apply push_mb_subs|rewrite set_pend_reg; apply push_mb_reg].
    + destruct (nth_error tos c) as [r|]; [|apply Hsame; reflexivity].
      pose proof (resolve_subs s r) as H1. pose proof (resolve_reg s r) as H2. destruct (resolve s r) as [mb s1]. cbn [snd] in *. rewrite deliver_eq.
      apply Hsame; [rewrite set_pend_subs, push_mb_subs; exact H1|rewrite set_pend_reg, push_mb_reg; exact H2].
    + destruct (nth_error remaining c) as [r|]; [|apply Hsame; reflexivity].
      pose proof (resolve_subs s r) as H1. pose proof (resolve_reg s r) as H2. destruct (resolve s r) as [mb s1]. cbn [snd] in *. rewrite deliver_eq.
      apply Hsame; [rewrite set_pend_subs, push_mb_subs; exact H1|rewrite set_pend_reg, push_mb_reg; exact H2].
  - left. destruct (pend_of s t) as [|i rest]; [apply Hsame; reflexivity|]. destruct i; try (apply Hsame; reflexivity).
    apply Hsame; [apply set_pend_subs|apply set_pend_reg].
  - left. destruct (pend_of s t) as [|i rest]; [apply Hsame; reflexivity|]. destruct i; try (apply Hsame; reflexivity).
    apply Hsame; [rewrite set_pend_subs; apply with_actor_fields|rewrite set_pend_reg; apply with_actor_fields].
  - left. destruct (pend_of s t) as [|i rest]; [apply Hsame; reflexivity|]. destruct i; try (apply Hsame; reflexivity).
    destruct (get s (self_of t)) as [x|]; [|apply Hsame; reflexivity].
    destruct (a_paused x); (apply Hsame; [rewrite set_pend_subs; reflexivity|rewrite set_pend_reg; reflexivity]).
  - left. destruct (pend_of s t) as [|i rest]; [apply Hsame; reflexivity|]. destruct i; try (apply Hsame; reflexivity).
    apply Hsame; [apply set_pend_subs|apply set_pend_reg].
  - destruct (pend_of s t) as [|i rest] eqn:Hp; [left; apply Hsame; reflexivity|].
    assert (Hast : (subs (astep s t i rest) = subs s /\ reg_mono s (astep s t i rest)) \/
                   (exists t0 i0 rest0, MAtomic t = MAtomic t0 /\ pend_of s t0 = i0 :: rest0 /\ stream_instr i0 = true /\ astep s t i rest = astep s t0 i0 rest0)).
    { destruct (stream_instr i) eqn:Hsi; [right; exists t, i, rest; auto|left].
      unfold astep. pose proof (exec1_subs (set_pend s t rest) t (held_of (set_pend s t rest) t) i Hsi) as H1.
      assert (Hi : i <> ICleanup) by (intros ->; discriminate Hsi).
      pose proof (fun p a => exec1_reg_mono (set_pend s t rest) t (held_of (set_pend s t rest) t) i p a Hi) as H2.
      destruct (exec1 (set_pend s t rest) t (held_of (set_pend s t rest) t) i) as [s1 front]. cbn [fst] in *.
      split; [rewrite set_pend_subs, H1; apply set_pend_subs|]. intros p a Hl. rewrite set_pend_reg. apply H2. rewrite set_pend_reg. exact Hl. }
    destruct i; cbn [yielding]; try (left; apply Hsame; reflexivity); try exact Hast.
    + left. apply Hsame; [rewrite set_pend_subs; apply resolve_subs|rewrite set_pend_reg; apply resolve_reg].
    + destruct remaining; [exact Hast|left; apply Hsame; reflexivity].
Qed.

(* ------------------------------------------------------------------ the invariant *)

Lemma entries_transfer s s' :
  (forall ty m p a, In (ty, m) (subs s') -> In (p, a) m -> a <> 0 ->
     exists ty0 m0, In (ty0, m0) (subs s) /\ In (p, a) m0 /\ (alookup (reg s) p = Some a -> alookup (reg s') p = Some a)) ->
  (forall a x, get s a = Some x -> exists x', get s' a = Some x' /\ a_path x' = a_path x) ->
  entries_live s -> entries_live s'.
Proof.
  intros H1 H2 E ty m p a Hin1 Hin2 Hne. destruct (H1 ty m p a Hin1 Hin2 Hne) as (ty0 & m0 & Hi1 & Hi2 & Hr).
  destruct (E ty0 m0 p a Hi1 Hi2 Hne) as (x & Hg & Hp & Hl). destruct (H2 a x Hg) as (x' & Hg' & Hp').
  exists x'. split; [exact Hg'|]. split; [congruence|apply Hr; exact Hl].
Qed.

Lemma set_pend_keeps s t l a x : get s a = Some x -> exists x', get (set_pend s t l) a = Some x' /\ a_path x' = a_path x.
Proof. intros Hg. destruct (ProofsSup.get_set_pend s t l a x Hg) as (x' & H1 & H2 & _). eauto. Qed.

Lemma entries_set_pend s t l : entries_live s -> entries_live (set_pend s t l).
Proof.
  apply entries_transfer; [|apply set_pend_keeps].
  intros ty m p a H1 H2 _. rewrite set_pend_subs in H1. exists ty, m. split; [exact H1|]. split; [exact H2|]. rewrite set_pend_reg. auto.
Qed.

Lemma In_alookup_ne {A} (m : list (path * A)) p q v : In (p, v) m -> alookup m q = None -> p <> q.
Proof. intros Hin Hn ->. apply alookup_none in Hn. apply Hn. apply in_map_iff. exists (q, v). auto. Qed.

(** the four stream instructions *)
Lemma entries_exec1_stream s t h i x :
  get s (self_of t) = Some x -> stream_instr i = true ->
  (self_of t <> 0 -> (exists ty, i = IAct (ASub ty)) -> alookup (reg s) (a_path x) = Some (self_of t)) ->
  entries_live s -> entries_live (fst (exec1 s t h i)).
Proof.
  intros Hg Hsi Hreg E.
  assert (Hkeep : forall s', actors s' = actors s -> forall a y, get s a = Some y -> exists y', get s' a = Some y' /\ a_path y' = a_path y).
  { intros s' Ha a y Hy. exists y. unfold get in *. rewrite Ha. auto. }
  destruct i; try discriminate Hsi.
  - destruct a; try discriminate Hsi.
    + (* Subscribe *)
      destruct (alookup (subscribers s ty) (a_path x)) as [v|] eqn:El.
      * rewrite (exec1_ASub_again s t h x ty v Hg El). exact E.
      * unfold exec1. rewrite Hg, El. cbn [fst].
        intros ty' m p a Hin1 Hin2 Hne. cbn [subs set_subs] in Hin1. change (get (set_subs s _) a) with (get s a). change (reg (set_subs s _)) with (reg s).
        apply nset_in in Hin1. destruct Hin1 as [[Hin1 _]|[-> ->]]; [apply (E ty' m p a Hin1 Hin2 Hne)|].
        apply in_app_or in Hin2. destruct Hin2 as [Hin2|[Hin2|[]]].
        -- unfold subscribers in Hin2. destruct (nlookup (subs s) ty) as [l|] eqn:En; [|destruct Hin2].
           apply (E ty l p a (nlookup_in _ _ _ En) Hin2 Hne).
        -- inversion Hin2; subst p a. exists x. split; [exact Hg|]. split; [reflexivity|]. apply Hreg; [exact Hne|eauto].
    + (* Unsubscribe *)
      unfold exec1. rewrite Hg. destruct (nlookup (subs s) ty) as [l|] eqn:En; [|exact E]. cbn [fst].
      apply (entries_transfer s); [|apply Hkeep; reflexivity|exact E].
      intros ty' m p a Hin1 Hin2 _. cbn [subs set_subs] in Hin1. apply nset_in in Hin1. destruct Hin1 as [[Hin1 _]|[-> ->]].
      * exists ty', m. auto.
      * apply aremove_in in Hin2. destruct Hin2 as [Hin2 _]. exists ty, l. split; [apply nlookup_in; exact En|auto].
    + (* UnsubscribeAll *)
      rewrite (exec1_AUnsubAll s t h x Hg). cbn [fst].
      apply (entries_transfer s); [|apply Hkeep; reflexivity|exact E].
      intros ty' m p a Hin1 Hin2 _. cbn [subs set_subs] in Hin1.
      destruct (unsub_all_in _ _ _ _ Hin1) as (m0 & [(Ha & Hb & _)|(Ha & _)]).
      * subst m. apply aremove_in in Hin2. destruct Hin2 as [Hin2 _]. exists ty', m0. auto.
      * exists ty', m. auto.
  - (* the end of a stop: UnsubscribeAll and the registry entry go together *)
    rewrite (ProofsSup.exec1_ICleanup s t h x Hg). cbn [fst].
    apply (entries_transfer s); [|apply Hkeep; reflexivity|exact E].
    intros ty' m p a Hin1 Hin2 _. cbn [subs set_subs set_reg reg] in *.
    pose proof (In_alookup_ne m p (a_path x) a Hin2 (unsub_all_no_entry _ _ _ _ Hin1)) as Hpne.
    assert (Hr : alookup (reg s) p = Some a -> alookup (aremove (reg s) (a_path x)) p = Some a)
      by (intros Hl; rewrite ProofsStream.alookup_aremove_other by exact Hpne; exact Hl).
    destruct (unsub_all_in _ _ _ _ Hin1) as (m0 & [(Ha & Hb & _)|(Ha & _)]).
    + subst m. apply aremove_in in Hin2. destruct Hin2 as [Hin2 _]. exists ty', m0. auto.
    + exists ty', m. auto.
Qed.

Theorem entries_mstep s m : Base s -> entries_live s -> entries_live (mstep s m).
Proof.
  intros HB E. destruct (mstep_tables s m) as [[Hs Hr]|(t & i & rest & -> & Hp & Hsi & Em)].
  - apply (entries_transfer s); [|apply mstep_keeps|exact E].
    intros ty mm p a H1 H2 _. rewrite Hs in H1. exists ty, mm. split; [exact H1|]. split; [exact H2|apply Hr].
  - rewrite Em. unfold astep.
    assert (Hyq : exists x, get s (self_of t) = Some x).
    { destruct t as [a|j]; cbn [self_of].
      - destruct (pend_of_TA_cons _ _ _ _ Hp) as (x & Hg & _). eauto.
      - destruct HB as (_ & _ & ((x0 & Hg0 & _) & _) & _). eauto. }
    destruct Hyq as [x Hg].
    pose proof (entries_set_pend s t rest E) as E0.
    destruct (set_pend_keeps s t rest _ x Hg) as (x0 & Hg0 & Hp0).
    assert (E1 : entries_live (fst (exec1 (set_pend s t rest) t (held_of (set_pend s t rest) t) i))).
    { apply (entries_exec1_stream _ t _ i x0 Hg0 Hsi); [|exact E0].
      intros Hne [ty ->]. rewrite set_pend_reg, Hp0.
      destruct t as [a|j]; cbn [self_of] in *; [|congruence].
      destruct (pend_of_TA_cons _ _ _ _ Hp) as (x1 & Hg1 & Hpx). assert (x1 = x) by congruence; subst x1.
      apply (user_action_registered s a x (ASub ty) rest HB Hg Hne Hpx). }
    destruct (exec1 (set_pend s t rest) t (held_of (set_pend s t rest) t) i) as [s1 front]. cbn [fst] in E1.
    apply entries_set_pend. exact E1.
Qed.

Lemma entries_init scs : entries_live (init_with scs).
Proof. intros ty m p a H. rewrite init_with_subs in H. destruct H. Qed.

(** (1): in every reachable state every entry of the subscription table (other than the guard's own) names a
    context that exists, was created under the entry's path and is registered under it *)
Theorem entries_live_reachable s : reachable s -> entries_live s.
Proof.
  revert s. apply (micro_invariant_with Base entries_live); [apply Base_init|apply Base_mstep|apply entries_init|apply entries_mstep].
Qed.

Theorem Base_reachable s : reachable s -> Base s.
Proof. revert s. apply micro_invariant; [apply Base_init|intros s m; apply Base_mstep]. Qed.

(* ------------------------------------------------------------------ after termination *)

(** a context that is not registered (any more) never is again: registration happens once, at creation *)
Definition unreg (x : aid) (p : path) (s : state) : Prop := x < length (actors s) /\ alookup (reg s) p <> Some x.

Lemma len_set_pend' s t l : length (actors (set_pend s t l)) = length (actors s).
Proof. apply len_set_pend. Qed.

Lemma prim_unreg x p t s s' : prim t s s' -> unreg x p s -> unreg x p s'.
Proof.
  intros Hp [Hl Hn]. destruct Hp; try (split; [exact Hl|exact Hn]).
  - split; [cbn; rewrite upd_length; exact Hl|exact Hn].
  - split; [rewrite len_set_pend'; exact Hl|rewrite set_pend_reg; exact Hn].
  - split; [exact Hl|]. cbn [reg set_reg]. intros Hx. apply Hn. eapply alookup_aremove; exact Hx.
  - split; [cbn [actors]; rewrite app_length; cbn; lia|]. cbn [reg]. intros Hx.
    destruct (alookup_app_one _ _ _ _ _ Hx) as [H1|[_ H1]]; [contradiction|lia].
Qed.

Lemma run_unreg x p evs s : unreg x p s -> unreg x p (run_events evs s).
Proof. apply (run_events_inv (unreg x p)). intros t s0 s1 Hp. apply (prim_unreg x p t s0 s1 Hp). Qed.

(** a terminated context (not the guard) has no entry, now and at every later event boundary *)
Lemma dead_unsub_along ty x evs : forall s xx,
  reachable s -> x <> 0 -> get s x = Some xx -> alookup (reg s) (a_path xx) <> Some x ->
  err (run_events evs s) = false -> unsub_along ty x evs s.
Proof.
  assert (Hnow : forall s xx0, reachable s -> x <> 0 -> get s x = Some xx0 -> alookup (reg s) (a_path xx0) <> Some x -> ~ sub_at s ty x).
  { intros s xx0 Hr Hne Hg Hn Hsub. unfold sub_at in Hsub. apply in_map_iff in Hsub. destruct Hsub as ([p a] & Ea & Hin). cbn [snd] in Ea. subst a.
    unfold subscribers in Hin. destruct (nlookup (subs s) ty) as [m|] eqn:En; [|destruct Hin].
    destruct (entries_live_reachable s Hr ty m p x (nlookup_in _ _ _ En) Hin Hne) as (x1 & Hg1 & Hp1 & Hl1).
    assert (x1 = xx0) by congruence; subst x1. apply Hn. rewrite Hp1. exact Hl1. }
  induction evs as [|ev r IH]; intros s xx Hr Hne Hg Hn He; cbn [unsub_along].
  - split; [apply (Hnow s xx Hr Hne Hg Hn)|exact I].
  - split; [apply (Hnow s xx Hr Hne Hg Hn)|].
    change (run_events (ev :: r) s) with (run_events r (step s ev)) in He.
    pose proof (err_false_run_head r s ev He) as He1.
    destruct (step_keeps_actors s ev x xx Hg) as (xx' & Hg' & Hp' & _).
    pose proof (run_unreg x (a_path xx) [ev] s (conj (nth_error_lt _ _ _ Hg) Hn)) as [_ Hn'].
    apply (IH (step s ev) xx' (ProofsSup.reachable_step s ev Hr He1) Hne Hg'); [rewrite Hp'; exact Hn'|exact He].
Qed.

Lemma dead_no_entry s x xx ty :
  reachable s -> x <> 0 -> get s x = Some xx -> alookup (reg s) (a_path xx) <> Some x -> ~ sub_at s ty x.
Proof.
  intros Hr Hne Hg Hn. assert (He : err s = false) by (destruct Hr as (scs & evs & _ & H); exact H).
  apply (dead_unsub_along ty x [] s xx Hr Hne Hg Hn He).
Qed.

(** (2) after termination: whatever thread [t] still puts into the terminated context's mailbox as events of type
    [ty] was snapshotted before *)
Lemma dead_bound t ty x xx evs s :
  reachable s -> x <> 0 -> get s x = Some xx -> alookup (reg s) (a_path xx) <> Some x ->
  err (run_events evs s) = false ->
  deliveries t ty x evs s + inflight t ty x (run_events evs s) <= inflight t ty x s.
Proof. intros Hr Hne Hg Hn He. apply unsub_bound; [exact Hr|exact He|]. apply (dead_unsub_along ty x evs s xx); assumption. Qed.

(** no delivery by any thread = nothing delivered *)
Lemma delivered_nil ty x evs : forall s, (forall t, deliveries t ty x evs s = 0) -> delivered ty x evs s = [].
Proof.
  induction evs as [|ev r IH]; intros s H; [reflexivity|]. cbn [delivered].
  assert (H1 : delivered1 ty x s ev = []).
  { unfold delivered1. destruct (stream_push s ev) as [[[[t ty'] pl] to]|] eqn:Es; [|reflexivity].
    destruct (N.eqb ty' ty && match lands s to with Some y => Nat.eqb y x | None => false end) eqn:Eb; [|reflexivity].
    exfalso. specialize (H t). cbn [deliveries] in H. unfold delivers in H. rewrite Es, tid_eqb_refl in H. cbn [andb] in H.
    apply andb_true_iff in Eb. destruct Eb as [E1 E2]. rewrite E1, E2 in H. cbn in H. lia. }
  rewrite H1. cbn [app]. apply IH. intros t. specialize (H t). cbn [deliveries] in H. lia.
Qed.

(** (3) for the snapshot of a publish *)
Lemma delivered_exactly s t ty pl rest evs :
  reachable s -> just_published s t ty pl rest -> err (run_events evs s) = false ->
  length (subscribers s ty) <= npush t evs ->
  exists evs1 evs2 order,
    evs = evs1 ++ evs2 /\ Permutation (map snd (subscribers s ty)) order /\ NoDup order /\
    npush t evs1 = length (subscribers s ty) /\
    tpushes t evs1 s = map (fun a => (a, event_env ty pl)) order /\
    firstn (length (subscribers s ty)) (tpushes t evs s) = map (fun a => (a, event_env ty pl)) order /\
    pend_of (run_events evs1 s) t = IEnqDone :: rest.
Proof.
  intros Hr [Hne Hp] He Hlen. rewrite <- (map_map snd RObj) in Hp.
  assert (Hne' : map snd (subscribers s ty) <> []) by (destruct (subscribers s ty); [congruence|discriminate]).
  rewrite <- (map_length snd) in Hlen.
  destruct (fanout_completes t false root_ref (MEvent ty pl) rest (map snd (subscribers s ty)) evs s Hr Hp Hne' He Hlen)
    as (evs1 & evs2 & order & E & Hperm & Hn & Htp & Hfn & Hpd).
  rewrite map_length in Hn, Hfn. exists evs1, evs2, order. repeat split; try assumption.
  eapply Permutation_NoDup; [exact Hperm|].
  destruct (fanout_targets s ty Hr) as (_ & _ & Hnd). rewrite <- (map_map snd RObj) in Hnd. eapply NoDup_map_inv. exact Hnd.
Qed.

(** (4) for the snapshot of a publish, with the subscriber's FIFO queue *)
Lemma publisher_order s t ty pl rest a evs :
  reachable s -> just_published s t ty pl rest -> sub_at s ty a -> err (run_events evs s) = false ->
  length (subscribers s ty) <= npush t evs ->
  exists l1 l2,
    upushed a evs s = l1 ++ (t, event_env ty pl) :: l2 /\ (forall e, ~ In (t, e) l1) /\
    popped_run a false evs s ++ uq_at (run_events evs s) a = uq_at s a ++ map snd l1 ++ event_env ty pl :: map snd l2.
Proof.
  intros Hr [Hne Hp] Hsub He Hlen. rewrite <- (map_map snd RObj) in Hp. rewrite <- (map_length snd) in Hlen.
  assert (Hnd : NoDup (map snd (subscribers s ty))).
  { destruct (fanout_targets s ty Hr) as (_ & _ & Hnd). rewrite <- (map_map snd RObj) in Hnd. eapply NoDup_map_inv. exact Hnd. }
  destruct (publisher_first t root_ref (MEvent ty pl) rest (map snd (subscribers s ty)) a evs s Hr Hp Hnd Hsub He Hlen) as (l1 & l2 & E & Hl1).
  exists l1, l2. split; [exact E|]. split; [exact Hl1|].
  rewrite (user_fifo a evs s He), E, map_app. reflexivity.
Qed.

(** the consumer holds one envelope at a time: what has been given to HandleEnvelop, followed by what is in the
    consumer's hand, is what was in its hand followed by everything it popped (system and user queue), in pop order *)
Fixpoint pops_run (b : aid) (evs : list event) (s : state) : list envelope :=
  match evs with [] => [] | ev :: r => (popped_from s ev b true ++ popped_from s ev b false) ++ pops_run b r (step s ev) end.
Fixpoint handled_run (b : aid) (evs : list event) (s : state) : list envelope :=
  match evs with [] => [] | ev :: r => handled_at s ev b ++ handled_run b r (step s ev) end.

Lemma handled_in_pop_order b evs : forall s,
  wf s -> err (run_events evs s) = false ->
  handled_run b evs s ++ held_at (run_events evs s) b = held_at s b ++ pops_run b evs s.
Proof.
  induction evs as [|ev r IH]; intros s W He; [cbn; rewrite app_nil_r; reflexivity|].
  change (run_events (ev :: r) s) with (run_events r (step s ev)) in *.
  pose proof (err_false_run_head r s ev He) as He1.
  destruct (step_wf_held s ev W He1) as [W1 Hh]. specialize (Hh b).
  cbn [handled_run pops_run].
  (* the hand holds at most one envelope, and an event either fills it or empties it *)
  assert (Hcases : (handled_at s ev b = [] /\ held_at (step s ev) b = held_at s b ++ popped_from s ev b true ++ popped_from s ev b false) \/
                   (popped_from s ev b true ++ popped_from s ev b false = [] /\ held_at s b = handled_at s ev b ++ held_at (step s ev) b)).
  { destruct ev; cbn [handled_at popped_from] in *; try (left; split; [reflexivity|rewrite app_nil_r in Hh; exact Hh]).
    right. split; [reflexivity|]. rewrite app_nil_r in Hh.
    destruct (Nat.eqb a b) eqn:Eab; [|cbn [app] in *; rewrite ?app_nil_r in Hh; symmetry; exact Hh].
    apply Nat.eqb_eq in Eab. subst a. unfold handle_of, held_at, held in *. cbn [step] in He1.
    destruct (get s b) as [x|] eqn:Hg; [|discriminate He1]. destruct (a_cons x) eqn:Hc; try discriminate He1.
    cbn [app] in *. destruct (match get (step s (EvHandle b)) b with Some x0 => match a_cons x0 with CH e0 => [e0] | _ => [] end | None => [] end) as [|e1 l1];
      [reflexivity|exfalso; cbn in Hh; inversion Hh as [[E1 E2]]; destruct l1; discriminate E2]. }
  destruct Hcases as [[H1 H2]|[H1 H2]].
  - rewrite H1. cbn [app]. rewrite (IH _ W1 He), H2, <- !app_assoc. reflexivity.
  - rewrite H1. cbn [app]. rewrite <- app_assoc, (IH _ W1 He), H2, <- app_assoc. reflexivity.
Qed.

(** (2), when nothing is in flight: nothing is delivered, by anybody *)
Lemma unsub_none ty x evs s :
  reachable s -> err (run_events evs s) = false -> unsub_along ty x evs s ->
  (forall t, inflight t ty x s = 0) -> delivered ty x evs s = [].
Proof.
  intros Hr He Hu H0. apply delivered_nil. intros t. pose proof (unsub_bound t ty x evs s Hr He Hu) as H. rewrite (H0 t) in H. lia.
Qed.

Lemma delivery_lands s ev t ty pl to :
  reachable s -> stream_push s ev = Some (t, ty, pl, to) ->
  exists y, to = RObj y /\ forall x, lands s to = Some x -> x = y.
Proof.
  intros Hr Hs. destruct (stream_push_obj s ev t ty pl to Hr Hs) as [y ->]. exists y. split; [reflexivity|].
  intros x Hl. symmetry. apply (lands_obj_inv s y x Hr Hl).
Qed.
