From Coq Require Import Extraction ExtrOcamlBasic.
From Vivid Require Import Base.Tm Ref.RefRun.
Extraction "ref_model.ml" run_ref.
