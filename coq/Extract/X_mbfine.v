From Coq Require Import Extraction ExtrOcamlBasic.
From Vivid Require Import Base.Tm Mailbox.MbFineRun.
Extraction "mbfine_model.ml" run_mbfine.
