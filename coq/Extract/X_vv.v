From Coq Require Import Extraction ExtrOcamlBasic.
From Vivid Require Import Base.Tm Cluster.VVRun.
Extraction "vv_model.ml" run_vv.
