From Coq Require Import Extraction ExtrOcamlBasic.
From Vivid Require Import Base.Tm Queue.StashRun.
Extraction "stash_model.ml" run_stash.
