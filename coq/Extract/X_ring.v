From Coq Require Import Extraction ExtrOcamlBasic.
From Vivid Require Import Base.Tm Queue.RingRun.
Extraction "ring_model.ml" run_ring.
