From Coq Require Import Extraction ExtrOcamlBasic.
From Vivid Require Import Base.Tm Actor.CoreRun2.
Extraction "actor_model.ml" run_actor2.
