From Coq Require Import Extraction ExtrOcamlBasic.
From Vivid Require Import Base.Tm Codec.MsgsRun.
Extraction "msgs_model.ml" run_msgs.
