From Coq Require Import Extraction ExtrOcamlBasic.
From Vivid Require Import Base.Tm Remoting.RemRun.
Extraction "frame_model.ml" run_frame.
