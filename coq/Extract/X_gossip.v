From Coq Require Import Extraction ExtrOcamlBasic.
From Vivid Require Import Base.Tm Cluster.GossipRun.
Extraction "gossip_model.ml" run_gossip.
