(* the "ask" component is monitors-only (real system, real time): it emits no cases; the driver is linked with the same model *)
From Coq Require Import Extraction ExtrOcamlBasic.
From Vivid Require Import Base.Tm Future.FutRun.
Extraction "ask_model.ml" run_future.
