From Coq Require Import Extraction ExtrOcamlBasic.
From Vivid Require Import Base.Tm Cluster.ViewRun.
Extraction "view_model.ml" run_view.
