From Coq Require Import Extraction ExtrOcamlBasic.
From Vivid Require Import Base.Tm Timer.SchedRun.
Extraction "sched_model.ml" run_sched.
