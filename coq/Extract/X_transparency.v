From Coq Require Import Extraction ExtrOcamlBasic.
From Vivid Require Import Base.Tm Remoting.RemRun.
Extraction "transparency_model.ml" run_transparency.
