From Coq Require Import Extraction ExtrOcamlBasic.
From Vivid Require Import Base.Tm Remoting.RemRun.
Extraction "link_model.ml" run_link.
