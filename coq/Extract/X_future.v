From Coq Require Import Extraction ExtrOcamlBasic.
From Vivid Require Import Base.Tm Future.FutRun.
Extraction "future_model.ml" run_future.
