From Coq Require Import Extraction ExtrOcamlBasic.
From Vivid Require Import Base.Tm Codec.BufRun.
Extraction "reflect_model.ml" run_reflect_all.
