From Coq Require Import Extraction ExtrOcamlBasic.
From Vivid Require Import Base.Tm Mailbox.MbRun.
Extraction "mailbox_model.ml" run_mailbox.
