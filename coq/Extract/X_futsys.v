From Coq Require Import Extraction ExtrOcamlBasic.
From Vivid Require Import Base.Tm Future.SysRun.
Extraction "futsys_model.ml" run_futsys.
