From Coq Require Import Extraction ExtrOcamlBasic.
From Vivid Require Import Base.Tm Race.LocksetRun.
Extraction "race_model.ml" run_race.
