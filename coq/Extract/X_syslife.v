From Coq Require Import Extraction ExtrOcamlBasic.
From Vivid Require Import Base.Tm System.LifeLockRun.
Extraction "syslife_model.ml" run_syslife2.
