(** Every stop that gets through cancels the system context, and with it ends the context-guard goroutine.

    stop() calls s.cancel() BEFORE the select on guardClosedSignal / time.After: the timeout arm returns early, so a
    cancel placed after the select would be skipped by a timed-out Stop - the status is `stop` by then, every later Stop
    answers "already stopped" without cancelling, and the guard goroutine created by Start stays parked on
    <-s.options.Context.Done() for ever.  Proved here for the micro-step model System/Lifecycle.v (all populations, all
    schedules):

      returned_stop_cancelled   once an effective stop has RETURNED - nil or stop-failed, from Stop(), from the guard's
                                stop(false), from Start's failure path - the context is cancelled (if a root exists at all)
      stopped_system_quiesces   in every state with status `stop` in which nothing can move any more, every thread has
                                finished - the guard goroutine included - and the context is cancelled (if a root exists) *)
From Coq Require Import List NArith Bool Lia Arith.
From Coq Require Import ZifyN ZifyNat.
From Vivid Require Import System.Lifecycle System.LifecycleProofs.
Import ListNotations.
Local Open Scope N_scope.

(** pcs of a stop that has executed s.cancel() and may have taken the timeout arm *)
Definition post_cancel (p : pc) : bool :=
  match p with
  | TSelect _ _ => true
  | Done _ RStopFailed => true
  | Done KStart (RStartFailed RStopFailed) => true
  | _ => false
  end.

(** pcs of the effective stop between its status switch and s.cancel() *)
Definition pre_cancel (p : pc) : bool :=
  match p with
  | TUnlock _ _ RNil | TReadCluster _ _ | TLeaveReq _ _ | TLeaveWait _ _ | TReadCtx _ _ | TKill _ _ | TCancel _ _ => true
  | _ => false
  end.

Record invS (s : st) : Prop := {
  s_pc : forall i p, nth_error (thr s) i = Some p -> post_cancel p = true -> ctxDone s = true;
  s_stop : status s = Stopped -> hasCtx s = true ->
           ctxDone s = true \/ exists j p, nth_error (thr s) j = Some p /\ pre_cancel p = true;
  s_sp : spawned s = 1 -> hasCtx s = true;
}.

Lemma pres_pc n c e s s' : inv n s -> step c e s = Some s' ->
  (forall i p, nth_error (thr s) i = Some p -> post_cancel p = true -> ctxDone s = true) ->
  (forall i p, nth_error (thr s') i = Some p -> post_cancel p = true -> ctxDone s' = true).
Proof.
  intros I H P.
  inv_step H; try exact P; spawned_cases I.
  all: intros j q Hq Hc; thr_cases Hq; cbn in *; eauto; try discriminate.
  all: try (pose proof (i_facts _ _ I _ _ Hp) as ((cl & Hcl & _) & _); cbn in Hcl; discriminate).
  all: try (destruct w; discriminate).
Qed.

Lemma pres_sp n c e s s' : inv n s -> step c e s = Some s' ->
  (spawned s = 1 -> hasCtx s = true) -> (spawned s' = 1 -> hasCtx s' = true).
Proof.
  intros I H P.
  inv_step H; try exact P; cbn; auto.
  all: try (rewrite E; exact P).
  intros _. pose proof (i_facts _ _ I _ _ Hp) as (_ & _ & Hr & _). apply Hr. reflexivity.
Qed.

Lemma app_witness (l e : list pc) j p : nth_error l j = Some p -> nth_error (l ++ e) j = Some p.
Proof. intros H. rewrite nth_error_app1 by (eapply nth_error_lt; eauto). exact H. Qed.

Lemma pres_stop c e s s' : reachable c s -> step c e s = Some s' ->
  (status s = Stopped -> hasCtx s = true -> ctxDone s = true \/ exists j p, nth_error (thr s) j = Some p /\ pre_cancel p = true) ->
  (status s' = Stopped -> hasCtx s' = true -> ctxDone s' = true \/ exists j p, nth_error (thr s') j = Some p /\ pre_cancel p = true).
Proof.
  intros R H P. destruct (reachable_inv _ _ R) as (n & I & _).
  inv_step H; try exact P; spawned_cases I.
  all: intros Hs Hh; cbn [status hasCtx ctxDone thr goto set_thr set_lock set_check set_hasCtx set_clusterCtx set_ctxDone set_kill
                           set_guardClosed set_leaveReq set_leaveDone set_schedStopped set_now set_skipped set_spawned] in *.
  all: try discriminate Hs.
  all: try (left; reflexivity).
  (* the moving thread is (still) between its switch and s.cancel() *)
  all: try (right; exists i; eexists; split; [apply nth_error_upd_eq; eapply nth_error_lt; eassumption|reflexivity]; fail).
  (* root creation: the status is start *)
  all: try (exfalso; destruct (start_holds_lock c s i _ R Hp eq_refl) as (_ & Hst); congruence).
  (* otherwise the witness of the state before is another thread, or the moving thread was not a witness *)
  all: try (rewrite ?E in *; destruct (P Hs Hh) as [Hc|(j & q & Hq & Hpre)]; [left; exact Hc|];
            destruct (Nat.eq_dec j i) as [->|Hn];
            [rewrite Hp in Hq; injection Hq as <-; try discriminate Hpre
            |right; exists j, q; split; [|exact Hpre]; rewrite nth_error_upd_neq by congruence;
             first [exact Hq | apply app_witness; exact Hq]]).
  all: try congruence.
Qed.

Lemma invS_init ths : invS (init ths).
Proof.
  constructor; cbn; try discriminate.
  intros i p Hq Hc. destruct (nth_map_spawned _ _ _ Hq) as (k & -> & _). discriminate.
Qed.

Lemma invS_step c e s s' : reachable c s -> invS s -> step c e s = Some s' -> invS s'.
Proof.
  intros R [A B C] H. destruct (reachable_inv _ _ R) as (n & I & _). constructor.
  - eapply pres_pc; eauto.
  - eapply pres_stop; eauto.
  - eapply pres_sp; eauto.
Qed.

Lemma reachable_step c s e s' : reachable c s -> step c e s = Some s' -> reachable c s'.
Proof.
  intros R H. pose proof (reachable_continue c s [e] R) as R'. cbn in R'. unfold step_or_stay in R'. rewrite H in R'. exact R'.
Qed.

Lemma invS_run c evs s : reachable c s -> invS s -> invS (run c evs s).
Proof.
  revert s. induction evs as [|e evs IH]; intros s R I; cbn; [exact I|].
  unfold step_or_stay. destruct (step c e s) as [s'|] eqn:E; [|apply IH; auto].
  apply IH; [eapply reachable_step; eauto|eapply invS_step; eauto].
Qed.

Lemma reachable_invS c s : reachable c s -> invS s.
Proof.
  intros (ths & evs & He & <-). apply invS_run; [exists ths, []; auto|apply invS_init].
Qed.

(** a stop that got through and has returned *)
Definition eff_returned (k : kind) (r : res) : bool :=
  match k, r with
  | KStop, RNil | KStop, RStopFailed | KGuard, RNil | KGuard, RStopFailed
  | KStart, RStartFailed RNil | KStart, RStartFailed RStopFailed => true
  | _, _ => false
  end.

(** once an effective stop has returned - nil OR stop-failed (the timeout arm) - the system context is cancelled,
    provided a root exists at all (otherwise root creation failed and there is no guard goroutine either) *)
Theorem returned_stop_cancelled c s i k r :
  reachable c s -> nth_error (thr s) i = Some (Done k r) -> eff_returned k r = true -> hasCtx s = true -> ctxDone s = true.
Proof.
  intros R Hp He Hh. destruct (stop_nil k r) eqn:Hn.
  - eapply stop_terminates; eauto.
  - eapply (s_pc _ (reachable_invS _ _ R)); eauto. destruct k, r; try discriminate; try reflexivity.
    destruct r; try discriminate; reflexivity.
Qed.

(** a thread inside the select (it may take the timeout arm next) has cancelled the context already *)
Theorem select_after_cancel c s i w dl : reachable c s -> nth_error (thr s) i = Some (TSelect w dl) -> ctxDone s = true.
Proof. intros R Hp. eapply (s_pc _ (reachable_invS _ _ R)); eauto. Qed.

(** every state with status `stop` in which nothing can move any more (whatever the clock), the cluster leave - if one
    was requested - having completed: EVERY thread has finished, the context-guard goroutine included, and the context is
    cancelled if a root exists.  (Status `stop` = some stop passed its status switch having seen `start`.) *)
Theorem stopped_system_quiesces c s :
  reachable c s -> quiescent c s -> status s = Stopped -> (leaveReq s = true -> leaveDone s = true) ->
  (forall i p, nth_error (thr s) i = Some p -> is_done p = true) /\ (hasCtx s = true -> ctxDone s = true).
Proof.
  intros R Q Hs Hl. pose proof (reachable_invS _ _ R) as [A B C].
  assert (Hc : hasCtx s = true -> ctxDone s = true).
  { intros Hh. destruct (B Hs Hh) as [H|(j & p & Hp & Hpre)]; [exact H|exfalso].
    destruct (quiescent_final _ _ R Q _ _ Hp) as [H|[[-> _]|(w & d & -> & H1 & H2)]].
    - destruct p; discriminate.
    - discriminate.
    - specialize (Hl H2). congruence. }
  split; [|exact Hc]. intros i p Hp.
  destruct (quiescent_final _ _ R Q _ _ Hp) as [H|[[-> Hcd]|(w & d & -> & H1 & H2)]]; [exact H|exfalso|exfalso].
  - destruct (reachable_inv _ _ R) as (n & I & _).
    pose proof (i_facts _ _ I _ _ Hp) as (_ & Hg & _). destruct (Hg eq_refl) as (_ & Hsp). cbn in Hsp.
    specialize (Hc (C Hsp)). congruence.
  - specialize (Hl H2). congruence.
Qed.

(** in terms of the linearisation log: some stop saw `start` *)
Theorem effective_stop_quiesces c s j :
  reachable c s -> quiescent c s -> In (j, false, Started) (lin s) -> (leaveReq s = true -> leaveDone s = true) ->
  (forall i p, nth_error (thr s) i = Some p -> is_done p = true) /\ (hasCtx s = true -> ctxDone s = true).
Proof.
  intros R Q Hin Hl. apply (stopped_system_quiesces c); auto.
  destruct (lin_ok _ _ R) as (W & ->). eapply after_eff_entry; eauto.
Qed.
