(** System/LifeLock.v - ONE machine for the life-cycle calls AND the two mutexes of internal/actor/system.go.

    System/Lifecycle.v is the micro-step model of Start / Stop / stop / the context-guard goroutine with ONE lock
    (statusLock) and the start-up chain behind the root as one step under that lock.  System/LockOrder.v is a separate
    lock view with straight-line programs.  This file merges them: the state is a Lifecycle state ([base]) plus

      actorOfLock          ([alock]: its holder), taken by System.ActorOf
      the start-up chain   refined into its System.ActorOf calls (system_chains.go): "@metrics" when metrics are enabled,
                           "@remoting" when remoting is enabled, "@cluster" + the singleton proxy manager (+ the singleton
                           manager) when cluster options are present - every one of them
                           actorOfLock.Lock(); s.Context.ActorOf(...) (may fail); deferred actorOfLock.Unlock()
                           executed by the Start thread WHILE IT HOLDS statusLock; a failing call ends the chain
      clusterContext       assigned between the "@cluster" call and the proxy-manager call ([clusterNow]: the value the
                           field really has; the abstract model assigns it at the end of the chain)
      stop's Leave()       (cluster/context.go) refined into: entry (leaveLock.Lock(); leaveWait = make(chan)), the
                           System.ActorOf call of the helper actor (actorOfLock; error ignored by the code), then the
                           abstract step (leaveLock.Unlock(); the thread goes on to <-leaveWait).  The helper actor is the
                           only one that ever closes leaveWait: when its creation failed ([leaveHelper] = false) the leave
                           can never complete
      external threads     any number of goroutines calling System.ActorOf ([ext])

    Every step of this machine either leaves [base] untouched (a sub-step of the chain / of Leave / of an external
    ActorOf caller) or performs exactly one step of Lifecycle.step on [base]: the refinement theorem
    (LifeLockProofs.refines) is by construction, and every invariant of Lifecycle.v holds of [base] of every reachable
    state.  What is new and proved directly on this machine: mutual exclusion of actorOfLock, the lock hierarchy
    statusLock < actorOfLock, and deadlock freedom with BOTH locks (LifeLockProofs.no_deadlock2).

    Context.ActorOf on the root, called by an external goroutine while the root handles the OnKill of stop's Kill(root):
    the micro-steps of that race (read of the root's state, registration of the child, the final check that decides
    whether the new child must be killed at once) are the machine System/RootSpawn.v.  Since /repo 6438ab6 the final check
    re-reads the root's state AFTER the registration; RootSpawn proves that then every registered child is killed and the
    root never waits for a child nobody kills, for all interleavings - so here the call is ONE step without lasting effect
    ([alt] of an external caller's step must be 0; the lock-step harness reports 1 / 2 when it observes, on the real code,
    a spawned actor that is never killed while the root waits for it / has terminated: the replay then fails and the
    monitors c07-actorof-races-stop:* fire).

    leaveLock (cluster.Context) is taken by Leave() only, holding nothing, and released before the blocking wait; among
    the threads of this model only the one effective stop ever calls Leave(), so it is not contended and not modelled. *)
From Coq Require Import List NArith Bool.
From Vivid Require Import System.Lifecycle.
Import ListNotations.
Local Open Scope N_scope.

Inductive link : Type := LMetrics | LRemoting | LCluster | LProxy | LSingletons.

Definition is_cluster_link (l : link) : bool := match l with LCluster => true | _ => false end.

Record cfg2 : Type := {
  c_base : cfg;             (* cfg_cluster: cluster options present; cfg_timeout *)
  c_metrics : bool;         (* options.EnableMetrics *)
  c_remoting : bool;        (* RemotingBindAddress / RemotingAdvertiseAddress set *)
  c_singletons : bool;      (* len(ClusterOptions.SingletonTemplates) > 0 *)
}.

(** the System.ActorOf calls of initializeMetrics; initializeRemoting; initializeCluster, in order *)
Definition links (c : cfg2) : list link :=
  (if c_metrics c then [LMetrics] else []) ++
  (if c_remoting c then [LRemoting] else []) ++
  (if cfg_cluster (c_base c) then LCluster :: LProxy :: (if c_singletons c then [LSingletons] else []) else []).

(** where a life-cycle thread is inside a refined region (pc [SChain] or [TLeaveReq] of the abstract model) *)
Inductive sub : Type :=
| Idle                        (* at the entry of the region (or not inside one) *)
| AAcq (k : nat)              (* in front of actorOfLock.Lock() of the k-th System.ActorOf call *)
| AWork (k : nat)             (* inside s.Context.ActorOf, holding actorOfLock *)
| ARel (k : nat) (ok : bool). (* the deferred actorOfLock.Unlock(); ok = Context.ActorOf returned no error *)

Inductive xpc : Type := XSpawned | XAcq | XWork | XRel | XDone.

Inductive owner : Type := OLife (i : nat) | OExt (j : nat).

Record st2 : Type := {
  base : st;
  alock : option owner;     (* holder of actorOfLock *)
  subs : list sub;          (* per life-cycle thread, default Idle *)
  clusterNow : bool;        (* s.clusterContext != nil, as the field is written by the code *)
  leaveHelper : bool;       (* the helper actor of Leave() exists *)
  ext : list xpc;           (* external System.ActorOf callers *)
}.

Definition set_base (s : st2) (b : st) : st2 :=
  {| base := b; alock := alock s; subs := subs s; clusterNow := clusterNow s; leaveHelper := leaveHelper s; ext := ext s |}.
Definition set_alock (s : st2) (o : option owner) : st2 :=
  {| base := base s; alock := o; subs := subs s; clusterNow := clusterNow s; leaveHelper := leaveHelper s; ext := ext s |}.
Definition set_subs (s : st2) (l : list sub) : st2 :=
  {| base := base s; alock := alock s; subs := l; clusterNow := clusterNow s; leaveHelper := leaveHelper s; ext := ext s |}.
Definition set_clusterNow (s : st2) (b : bool) : st2 :=
  {| base := base s; alock := alock s; subs := subs s; clusterNow := b; leaveHelper := leaveHelper s; ext := ext s |}.
Definition set_leaveHelper (s : st2) (b : bool) : st2 :=
  {| base := base s; alock := alock s; subs := subs s; clusterNow := clusterNow s; leaveHelper := b; ext := ext s |}.
Definition set_ext (s : st2) (l : list xpc) : st2 :=
  {| base := base s; alock := alock s; subs := subs s; clusterNow := clusterNow s; leaveHelper := leaveHelper s; ext := l |}.

Definition getsub (s : st2) (i : nat) : sub := nth i (subs s) Idle.

(** update position i of a list of sub-states whose missing tail means Idle *)
Fixpoint updsub (l : list sub) (i : nat) (x : sub) : list sub :=
  match i, l with
  | O, [] => [x]
  | O, _ :: r => x :: r
  | S i', [] => Idle :: updsub [] i' x
  | S i', y :: r => y :: updsub r i' x
  end.
Definition setsub (s : st2) (i : nat) (x : sub) : st2 := set_subs s (updsub (subs s) i x).

(** one step of the abstract machine on [base] *)
Definition lift (c : cfg2) (e : ev) (s : st2) : option st2 :=
  match step (c_base c) e (base s) with Some b => Some (set_base s b) | None => None end.

Definition acquire (s : st2) (i : nat) (k : nat) : option st2 :=
  match alock s with
  | None => Some (set_alock (setsub s i (AWork k)) (Some (OLife i)))
  | Some _ => None
  end.

(** thread i is at [SChain]: the start-up chain behind the root, statusLock held *)
Definition chain_step (c : cfg2) (i : nat) (alt : N) (s : st2) : option st2 :=
  match getsub s i with
  | Idle =>
      (* `if system.options.Metrics != nil {...}` (assigns system.metrics): the entry of the chain.  Without any
         System.ActorOf call the rest of the chain cannot fail and is this one step *)
      match links c with
      | [] => lift c (EStep i 0) s
      | _ :: _ => Some (setsub s i (AAcq 0))
      end
  | AAcq k => acquire s i k
  | AWork k =>
      match alt with
      | 0 => Some (setsub s i (ARel k true))
      | 1 => Some (setsub s i (ARel k false))      (* Context.ActorOf returned an error *)
      | _ => None
      end
  | ARel k true =>
      let s1 := set_alock s None in
      let s2 := if is_cluster_link (nth k (links c) LMetrics) then set_clusterNow s1 true else s1 in
      if Nat.ltb (S k) (length (links c)) then Some (setsub s2 i (AAcq (S k)))
      else lift c (EStep i 0) (setsub s2 i Idle)                       (* the chain succeeded *)
  | ARel k false =>
      (* the chain failed at call k: before / after clusterContext was assigned *)
      lift c (EStep i (if existsb is_cluster_link (firstn k (links c)) then 2 else 1)) (setsub (set_alock s None) i Idle)
  end.

(** thread i is at [TLeaveReq]: s.clusterContext.Leave() up to the blocking wait *)
Definition leave_step (c : cfg2) (i : nat) (alt : N) (s : st2) : option st2 :=
  match getsub s i with
  | Idle => Some (setsub s i (AAcq 0))
  | AAcq k => acquire s i k
  | AWork k =>
      match alt with
      | 0 => Some (setsub s i (ARel k true))
      | 1 => Some (setsub s i (ARel k false))      (* e.g. the root is already dead: ErrorActorDeaded, ignored by Leave *)
      | _ => None
      end
  | ARel k ok =>
      lift c (EStep i 0) (setsub (set_alock (if ok then set_leaveHelper s true else s) None) i Idle)
  end.

Definition ext_step (j : nat) (alt : N) (s : st2) : option st2 :=
  match nth_error (ext s) j with
  | Some XSpawned => Some (set_ext s (upd (ext s) j XAcq))
  | Some XAcq =>
      match alock s with
      | None => Some (set_alock (set_ext s (upd (ext s) j XWork)) (Some (OExt j)))
      | Some _ => None
      end
  | Some XWork =>
      (* s.Context.ActorOf on the root (System/RootSpawn.v): no lasting effect on this machine *)
      match alt with
      | 0 => Some (set_ext s (upd (ext s) j XRel))
      | _ => None
      end
  | Some XRel => Some (set_alock (set_ext s (upd (ext s) j XDone)) None)
  | _ => None
  end.

Inductive ev2 : Type :=
| E2Life (i : nat) (alt : N)     (* life-cycle thread i (a Start / Stop / cancel caller, the guard goroutine) *)
| E2Ext (j : nat) (alt : N)      (* external System.ActorOf caller j *)
| E2Tree
| E2Leave
| E2Tick (dt : N).

Definition step2 (c : cfg2) (e : ev2) (s : st2) : option st2 :=
  match e with
  | E2Life i alt =>
      match nth_error (thr (base s)) i with
      | Some SChain => chain_step c i alt s
      | Some (TLeaveReq _ _) => leave_step c i alt s
      | Some _ => lift c (EStep i alt) s
      | None => None
      end
  | E2Ext j alt => ext_step j alt s
  | E2Tree => lift c ETreeDone s
  | E2Leave => if leaveHelper s then lift c ELeaveDone s else None
  | E2Tick dt => lift c (ETick dt) s
  end.

Fixpoint repeat_x (m : nat) : list xpc := match m with O => [] | S k => XSpawned :: repeat_x k end.

Definition init2 (ths : list pc) (m : nat) : st2 :=
  {| base := init ths; alock := None; subs := []; clusterNow := false; leaveHelper := false; ext := repeat_x m |}.

Definition step_or_stay2 (c : cfg2) (s : st2) (e : ev2) : st2 := match step2 c e s with Some s' => s' | None => s end.
Definition run2 (c : cfg2) (evs : list ev2) (s : st2) : st2 := fold_left (step_or_stay2 c) evs s.

(** any population of Start / Stop(timeout) / cancel callers and any number of external System.ActorOf callers *)
Definition reachable2 (c : cfg2) (s : st2) : Prop :=
  exists ths m evs, forallb env_pc ths = true /\ run2 c evs (init2 ths m) = s.

(** ------------------------------------------------------------------------------------------------
    Derived notions used by the statements (definitions only). *)

Definition holds_alock (x : sub) : bool := match x with AWork _ | ARel _ _ => true | _ => false end.
Definition xholds (x : xpc) : bool := match x with XWork | XRel => true | _ => false end.

(** thread [t] holds actorOfLock according to its own program counter *)
Definition holds_actorOf (s : st2) (t : owner) : bool :=
  match t with
  | OLife i => holds_alock (getsub s i)
  | OExt j => match nth_error (ext s) j with Some x => xholds x | None => false end
  end.

(** thread [t] stands in front of actorOfLock.Lock() *)
Definition wants_actorOf (s : st2) (t : owner) : bool :=
  match t with
  | OLife i => match getsub s i with AAcq _ => true | _ => false end
  | OExt j => match nth_error (ext s) j with Some XAcq => true | _ => false end
  end.

(** life-cycle thread i stands in front of statusLock.Lock() *)
Definition wants_status (s : st2) (i : nat) : bool :=
  match nth_error (thr (base s)) i with Some p => lock_pc p | None => false end.

(** life-cycle thread i holds statusLock according to its own program counter *)
Definition holds_status (s : st2) (i : nat) : bool :=
  match nth_error (thr (base s)) i with Some p => holder_pc p | None => false end.

Definition ev_of (t : owner) (alt : N) : ev2 := match t with OLife i => E2Life i alt | OExt j => E2Ext j alt end.
Definition can_step (c : cfg2) (s : st2) (t : owner) : Prop := exists alt s', step2 c (ev_of t alt) s = Some s'.

Definition unfinished (s : st2) (t : owner) : Prop :=
  match t with
  | OLife i => exists p, nth_error (thr (base s)) i = Some p /\ is_done p = false
  | OExt j => exists x, nth_error (ext s) j = Some x /\ x <> XDone
  end.

(** waits for the environment only (see Lifecycle.env_wait) *)
Definition env_wait2 (s : st2) (t : owner) : Prop :=
  match t with
  | OLife i => exists p, nth_error (thr (base s)) i = Some p /\ env_wait (base s) p
  | OExt _ => False
  end.

(** number of own steps a thread still has to take: strictly decreasing (LifeLockProofs.own_steps2) *)
Definition sub_rank (L : nat) (x : sub) : nat :=
  match x with
  | Idle => 3 * L + 4
  | AAcq k => 3 * (L - k) + 3
  | AWork k => 3 * (L - k) + 2
  | ARel k _ => 3 * (L - k) + 1
  end.
Definition xrank (x : xpc) : nat := match x with XSpawned => 4 | XAcq => 3 | XWork => 2 | XRel => 1 | XDone => 0 end.
Definition rank2 (c : cfg2) (s : st2) (t : owner) : nat :=
  match t with
  | OLife i =>
      match nth_error (thr (base s)) i with
      | Some p => rank p * (3 * length (links c) + 8) + sub_rank (length (links c)) (getsub s i)
      | None => 0
      end
  | OExt j => match nth_error (ext s) j with Some x => xrank x | None => 0 end
  end.
