(** Replay entry point of the Start/Stop model.

    Kind 1 - lock-step trace of the instrumented real code under the controlled scheduler:
      input  (1 (cluster timeout) threads events)
        thread  (0) Start() | (1) Stop() | (1 d) Stop(d ticks) | (2) cancel of the parent context
        event   (0 i alt)  thread i runs from its scheduling point to its next one (alt: branch of a select / chain)
                (2 i)      the timer of thread i's select fires (the clock is advanced to its deadline)
                (3)        the actor tree has terminated (guardClosedSignal closed)
                (4)        the cluster leave has completed
      output ((label status hasCtx ctxDone spawned) per event ... , per-thread result, verdict)
    The real code parks only at its instrumented scheduling points, so one trace step is a macro step of the
    model: the thread's step at the scheduling point followed by its steps at pcs that are not scheduling
    points (the switch under the lock, the deferred Unlock, the go statement). In Start the two chain steps are
    scheduling points INSIDE the critical section: the thread is parked there holding statusLock.

    Kind 2 - real-time differential check of return values:
      input  (2 (prefix start_fails blocks) calls observed-codes)   output  1 if the vector is admissible else 0

    Kind 3 - lock view (System/LockOrder.v): per thread of a controlled run, the lock operations it performed
      input  (3 ((kind done ((acquire? lock) ...)) ...))   kind 0 Start 1 Stop 2 guard goroutine 3 cancel;
                                                           lock 0 statusLock 1 actorOfLock
      output per thread (respects-the-hierarchy  is-(a prefix of)-a-program-of-that-kind) *)
From Coq Require Import List NArith Bool.
From Vivid Require Import Base.Tm System.Lifecycle.
From Vivid Require System.LockOrder.
Import ListNotations.
Local Open Scope N_scope.

Definition yield_pc (p : pc) : bool :=
  match p with
  | SCheck | SUnlock _ | SUnlockFail | SGo | TCheck _ _ | TUnlock _ _ _ => false
  | _ => true
  end.

Fixpoint settle (fuel : nat) (c : cfg) (i : nat) (s : st) : st :=
  match fuel with
  | O => s
  | S f =>
      match nth_error (thr s) i with
      | Some p => if yield_pc p then s else match step c (EStep i 0) s with Some s' => settle f c i s' | None => s end
      | None => s
      end
  end.

Definition macro (c : cfg) (i : nat) (alt : N) (s : st) : option st :=
  match step c (EStep i alt) s with Some s' => Some (settle 4 c i s') | None => None end.

(** code of the scheduling point a thread is parked at *)
Definition label_code (p : pc) : N :=
  match p with
  | Spawned _ => 1
  | SLock => 2
  | TLock _ _ => 20
  | SSpawnRoot => 3
  | SChain => 4
  | TReadCluster _ _ => 5
  | TLeaveReq _ _ => 6
  | TLeaveWait _ _ => 14
  | TReadCtx _ _ => 7
  | TKill _ _ => 8
  | TCancel _ _ => 9
  | TSelect _ _ => 10
  | TSchedStop _ => 11
  | GWait => 12
  | XCancel => 13
  | Done _ _ => 0
  | _ => 98
  end.

Definition stat_code (x : stat) : N := match x with Ready => 0 | Started => 1 | Stopped => 2 end.
Definition kind_code (k : kind) : N := match k with KStart => 0 | KStop => 1 | KGuard => 2 | KCancel => 3 end.

Definition proj (s : st) : list tm :=
  [TN (stat_code (status s)); tbool (hasCtx s); tbool (ctxDone s); TN (spawned s)].

Inductive rev : Type := RMacro (i : nat) (alt : N) | RFire (i : nat) | RTree | RLeave.

Definition get_rev (t : tm) : option rev :=
  match t with
  | TL [TN 0; TN i; TN alt] => Some (RMacro (N.to_nat i) alt)
  | TL [TN 2; TN i] => Some (RFire (N.to_nat i))
  | TL [TN 3] => Some RTree
  | TL [TN 4] => Some RLeave
  | _ => None
  end.

Definition apply_rev (c : cfg) (e : rev) (s : st) : option (N * st) :=
  match e with
  | RMacro i alt =>
      match nth_error (thr s) i with
      | Some p => match macro c i alt s with Some s' => Some (label_code p, s') | None => None end
      | None => None
      end
  | RFire i =>
      match nth_error (thr s) i with
      | Some (TSelect _ dl) => Some (90, if dl <=? now s then s else set_now s dl)
      | Some _ => Some (90, s)          (* the select has been left already: the timer fires into nothing *)
      | None => None
      end
  | RTree => match step c ETreeDone s with Some s' => Some (91, s') | None => None end
  | RLeave => match step c ELeaveDone s with Some s' => Some (92, s') | None => None end
  end.

Fixpoint replay (c : cfg) (evs : list rev) (k : N) (s : st) : list tm * st :=
  match evs with
  | [] => ([], s)
  | e :: r =>
      match apply_rev c e s with
      | Some (lab, s') => let (out, sf) := replay c r (k + 1) s' in (TL (TN lab :: proj s') :: out, sf)
      | None => ([TL [TN 99; TN k]], s)
      end
  end.

Definition get_thread (t : tm) : option pc :=
  match t with
  | TL [TN 0] => Some SLock
  | TL [TN 1] => Some (TLock ByStop None)
  | TL [TN 1; TN d] => Some (TLock ByStop (Some d))
  | TL [TN 2] => Some XCancel
  | _ => None
  end.

Definition thread_result (p : pc) : tm :=
  match p with
  | Done KGuard _ => TL [TN 0; TN 2; TN 0]       (* `_ = s.stop(false)`: the code discards the value *)
  | Done k r => TL [TN 0; TN (kind_code k); TN (res_code r)]
  | _ => TL [TN 1; TN (label_code p)]
  end.

(** 0 = every thread finished; 1 = only the guard goroutine is left, waiting for a cancellation that has not
    happened (by design); 2 = something else is unfinished *)
Definition verdict (s : st) : N :=
  if forallb is_done (thr s) then 0
  else if forallb (fun p => is_done p || match p with GWait => negb (ctxDone s) | _ => false end) (thr s) then 1
  else 2.

Definition get_call (t : tm) : option call :=
  match t with
  | TL [TN 0] => Some CStart
  | TL [TN 1; TN sh] => Some (CStop (negb (sh =? 0)))
  | TL [TN 2] => Some CCancel
  | _ => None
  end.

Definition get_lop (t : tm) : option LockOrder.op :=
  match t with
  | TL [a; TN l] =>
      match get_bool a with
      | Some true => Some (LockOrder.Acq l)
      | Some false => Some (LockOrder.Rel l)
      | None => None
      end
  | _ => None
  end.

Definition get_lthread (t : tm) : option (N * bool * list LockOrder.op) :=
  match t with
  | TL [TN k; d; ops] =>
      match get_bool d, get_list get_lop ops with
      | Some d, Some ops => Some (k, d, ops)
      | _, _ => None
      end
  | _ => None
  end.

Definition lthread_verdict (x : N * bool * list LockOrder.op) : tm :=
  let '(k, d, ops) := x in
  TL [tbool (if d then LockOrder.ordered [] ops else LockOrder.ordered_prefix [] ops);
      tbool (LockOrder.conforms k d ops)].

Definition run_syslife (t : tm) : tm :=
  match t with
  | TL [TN 1; TL [TN cl; TN tmo]; ths; evs] =>
      match get_list get_thread ths, get_list get_rev evs with
      | Some ths, Some evs =>
          let c := {| cfg_cluster := negb (cl =? 0); cfg_timeout := tmo |} in
          let (out, sf) := replay c evs 0 (init ths) in
          TL [TL out; tlist thread_result (thr sf); TN (verdict sf)]
      | _, _ => tm_err 1
      end
  | TL [TN 2; TL [TN sq; TN sf; TN bl]; calls; obs] =>
      match get_list get_call calls, get_list get_n obs with
      | Some calls, Some obs =>
          tbool (admissible {| sc_prefix := N.to_nat (N.min sq 64); sc_start_fails := negb (sf =? 0); sc_blocks := negb (bl =? 0) |} calls obs)
      | _, _ => tm_err 2
      end
  | TL [TN 3; ths] =>
      match get_list get_lthread ths with
      | Some ths => tlist lthread_verdict ths
      | None => tm_err 3
      end
  | _ => tm_err 0
  end.
