(** Proofs about the merged machine System/LifeLock.v: it refines System/Lifecycle.v (so every theorem of
    LifecycleProofs.v holds of [base] of every reachable state), actorOfLock is a mutual-exclusion lock, the lock
    hierarchy statusLock < actorOfLock is respected, and no reachable state is a deadlock - with both locks. *)
From Coq Require Import List NArith Bool Lia Arith.
From Coq Require Import ZifyN ZifyNat ZifyBool.
From Vivid Require Import System.Lifecycle System.LifecycleProofs System.LifeLock.
Import ListNotations.
Local Open Scope N_scope.

(** ------------------------------------------------------------------ sub-state lists *)

Lemma nth_updsub_eq l i x : nth i (updsub l i x) Idle = x.
Proof. revert l. induction i as [|i IH]; intros [|y l]; cbn; auto. Qed.

Lemma nth_updsub_neq l i j x : i <> j -> nth j (updsub l i x) Idle = nth j l Idle.
Proof.
  revert l j. induction i as [|i IH]; intros [|y l] [|j] H; cbn; auto; try congruence.
  - destruct j; reflexivity.
  - rewrite IH by congruence. destruct j; reflexivity.
Qed.

Lemma getsub_setsub_eq s i x : getsub (setsub s i x) i = x.
Proof. apply nth_updsub_eq. Qed.
Lemma getsub_setsub_neq s i j x : i <> j -> getsub (setsub s i x) j = getsub s j.
Proof. apply nth_updsub_neq. Qed.

(** ------------------------------------------------------------------ refinement *)

Lemma lift_spec c e s s' : lift c e s = Some s' ->
  exists b, step (c_base c) e (base s) = Some b /\ s' = set_base s b.
Proof. unfold lift. destruct (step (c_base c) e (base s)) as [b|]; [|discriminate]. intros H. injection H as <-. eauto. Qed.

(** every step of the merged machine is a stutter or exactly one step of the abstract machine on [base] *)
Lemma step2_base c e s s' : step2 c e s = Some s' ->
  base s' = base s \/ exists e', step (c_base c) e' (base s) = Some (base s').
Proof.
  intros H. destruct e as [i alt|j xalt| | |dt]; cbn [step2] in H.
  - destruct (nth_error (thr (base s)) i) as [p|] eqn:Hp; [|discriminate].
    assert (L : forall e0 s0, base s0 = base s -> lift c e0 s0 = Some s' ->
                base s' = base s \/ exists e', step (c_base c) e' (base s) = Some (base s')).
    { intros e0 s0 Hb Hl. apply lift_spec in Hl. destruct Hl as (b & Hs & ->). right. exists e0. rewrite <- Hb. exact Hs. }
    destruct p; try (eapply L; [reflexivity|exact H]).
    + (* SChain *) unfold chain_step in H. destruct (getsub s i) as [|k|k|k [|]].
      * destruct (links c); [eapply L; [reflexivity|exact H]|]. injection H as <-. left. reflexivity.
      * unfold acquire in H. destruct (alock s); [discriminate|]. injection H as <-. left. reflexivity.
      * destruct alt as [|[| |]]; try discriminate; injection H as <-; left; reflexivity.
      * destruct (Nat.ltb (S k) (length (links c))).
        -- injection H as <-. left. destruct (is_cluster_link _); reflexivity.
        -- eapply L; [|exact H]. destruct (is_cluster_link _); reflexivity.
      * eapply L; [|exact H]. reflexivity.
    + (* TLeaveReq *) unfold leave_step in H. destruct (getsub s i) as [|k|k|k ok].
      * injection H as <-. left. reflexivity.
      * unfold acquire in H. destruct (alock s); [discriminate|]. injection H as <-. left. reflexivity.
      * destruct alt as [|[| |]]; try discriminate; injection H as <-; left; reflexivity.
      * eapply L; [|exact H]. destruct ok; reflexivity.
  - unfold ext_step in H. destruct (nth_error (ext s) j) as [[| | | |]|]; try discriminate.
    + injection H as <-. left. reflexivity.
    + destruct (alock s); [discriminate|]. injection H as <-. left. reflexivity.
    + destruct xalt; [|discriminate]. injection H as <-. left. reflexivity.
    + injection H as <-. left. reflexivity.
  - apply lift_spec in H. destruct H as (b & Hs & ->). right. eauto.
  - destruct (leaveHelper s); [|discriminate]. apply lift_spec in H. destruct H as (b & Hs & ->). right. eauto.
  - apply lift_spec in H. destruct H as (b & Hs & ->). right. eauto.
Qed.

Lemma reachable_step c s e s' : reachable c s -> step c e s = Some s' -> reachable c s'.
Proof.
  intros R H. pose proof (reachable_continue c s [e] R) as R'. cbn in R'. unfold step_or_stay in R'. rewrite H in R'. exact R'.
Qed.

Lemma run2_reachable c evs s : reachable (c_base c) (base s) -> reachable (c_base c) (base (run2 c evs s)).
Proof.
  revert s. induction evs as [|e evs IH]; intros s R; cbn; [exact R|]. apply IH.
  unfold step_or_stay2. destruct (step2 c e s) as [s'|] eqn:E; [|exact R].
  destruct (step2_base _ _ _ _ E) as [->|(e' & He)]; [exact R|]. eapply reachable_step; eauto.
Qed.

(** THE refinement theorem: the abstract part of every reachable state of the merged machine is a reachable state of
    the abstract machine *)
Theorem refines c s : reachable2 c s -> reachable (c_base c) (base s).
Proof.
  intros (ths & m & evs & He & <-). apply run2_reachable. cbn. exists ths, []. split; [exact He|reflexivity].
Qed.

(** ------------------------------------------------------------------ the lock invariant *)

Definition region (p : pc) : bool := match p with SChain | TLeaveReq _ _ => true | _ => false end.
Definition sub_index (x : sub) : option nat := match x with Idle => None | AAcq k | AWork k | ARel k _ => Some k end.

Record invL (c : cfg2) (s : st2) : Prop := {
  l_own1 : forall t, alock s = Some t -> holds_actorOf s t = true;
  l_own2 : forall t, holds_actorOf s t = true -> alock s = Some t;
  l_sub : forall i, getsub s i <> Idle -> exists p, nth_error (thr (base s)) i = Some p /\ region p = true;
  l_pos : forall i k, nth_error (thr (base s)) i = Some SChain -> sub_index (getsub s i) = Some k -> (k < length (links c))%nat;
}.

Lemma invL_ext c s s' : base s' = base s -> alock s' = alock s -> subs s' = subs s -> ext s' = ext s -> invL c s -> invL c s'.
Proof.
  intros Hb Ha Hs He [A B C D].
  assert (Hh : forall t, holds_actorOf s' t = holds_actorOf s t).
  { intros [i|j]; cbn; unfold getsub; rewrite ?Hs, ?He; reflexivity. }
  constructor.
  - intros t. rewrite Ha, Hh. apply A.
  - intros t. rewrite Ha, Hh. apply B.
  - intros i. unfold getsub. rewrite Hs, Hb. apply C.
  - intros i k. unfold getsub. rewrite Hs, Hb. apply D.
Qed.

Lemma holds_setsub s i x t : holds_actorOf (setsub s i x) t = match t with OLife j => if Nat.eqb j i then holds_alock x else holds_actorOf s t | _ => holds_actorOf s t end.
Proof.
  destruct t as [j|j]; cbn [holds_actorOf]; [|reflexivity]. destruct (Nat.eqb_spec j i) as [->|Hn].
  - rewrite getsub_setsub_eq. reflexivity.
  - rewrite getsub_setsub_neq by congruence. reflexivity.
Qed.

(** a thread inside a region moves its sub-state without touching the lock *)
Lemma inv_setsub c s i p x : invL c s -> nth_error (thr (base s)) i = Some p -> region p = true ->
  holds_alock x = holds_alock (getsub s i) ->
  (p = SChain -> forall k, sub_index x = Some k -> (k < length (links c))%nat) ->
  invL c (setsub s i x).
Proof.
  intros [A B C D] Hp Hr Hh Hk. constructor.
  - intros t Ht. cbn in Ht. rewrite holds_setsub. specialize (A t Ht). destruct t as [j|j]; auto.
    destruct (Nat.eqb_spec j i) as [E|]; auto. subst j. cbn in A. congruence.
  - intros t Ht. rewrite holds_setsub in Ht. cbn. apply B. destruct t as [j|j]; auto.
    destruct (Nat.eqb_spec j i) as [E|]; auto. subst j. cbn. congruence.
  - intros j Hj. cbn. destruct (Nat.eq_dec i j) as [<-|Hn]; [eauto|]. rewrite getsub_setsub_neq in Hj by auto. apply C; auto.
  - intros j k Hj Hs. cbn in Hj. destruct (Nat.eq_dec i j) as [<-|Hn].
    + rewrite getsub_setsub_eq in Hs. apply Hk; congruence.
    + rewrite getsub_setsub_neq in Hs by auto. eapply D; eauto.
Qed.

Lemma inv_acquire c s i p k : invL c s -> nth_error (thr (base s)) i = Some p -> region p = true ->
  getsub s i = AAcq k -> alock s = None -> invL c (set_alock (setsub s i (AWork k)) (Some (OLife i))).
Proof.
  intros [A B C D] Hp Hr Hs Hn. constructor.
  - intros t Ht. cbn in Ht. injection Ht as <-. change (holds_actorOf (setsub s i (AWork k)) (OLife i) = true).
    rewrite holds_setsub, Nat.eqb_refl. reflexivity.
  - intros t Ht. change (holds_actorOf (setsub s i (AWork k)) t = true) in Ht. rewrite holds_setsub in Ht. cbn.
    destruct t as [j|j].
    + destruct (Nat.eqb_spec j i) as [E|]; [subst j; reflexivity|]. apply B in Ht. congruence.
    + apply B in Ht. congruence.
  - intros j Hj. change (getsub (setsub s i (AWork k)) j <> Idle) in Hj. cbn.
    destruct (Nat.eq_dec i j) as [<-|Hne]; [eauto|]. rewrite getsub_setsub_neq in Hj by auto. apply C; auto.
  - intros j k' Hj Hk. cbn in Hj. change (sub_index (getsub (setsub s i (AWork k)) j) = Some k') in Hk.
    destruct (Nat.eq_dec i j) as [<-|Hne].
    + rewrite getsub_setsub_eq in Hk. cbn in Hk. injection Hk as <-. eapply D; eauto. rewrite Hs. reflexivity.
    + rewrite getsub_setsub_neq in Hk by auto. eapply D; eauto.
Qed.

Lemma inv_release c s i p x : invL c s -> nth_error (thr (base s)) i = Some p -> region p = true ->
  holds_alock (getsub s i) = true -> holds_alock x = false ->
  (p = SChain -> forall k, sub_index x = Some k -> (k < length (links c))%nat) ->
  invL c (setsub (set_alock s None) i x).
Proof.
  intros [A B C D] Hp Hr Hh Hx Hk.
  assert (Ho : alock s = Some (OLife i)) by (apply B; exact Hh).
  constructor.
  - intros t Ht. discriminate Ht.
  - intros t Ht. exfalso. rewrite holds_setsub in Ht. destruct t as [j|j].
    + destruct (Nat.eqb_spec j i) as [E|Hn]; [congruence|]. change (holds_actorOf s (OLife j) = true) in Ht. apply B in Ht. congruence.
    + change (holds_actorOf s (OExt j) = true) in Ht. apply B in Ht. congruence.
  - intros j Hj. cbn. destruct (Nat.eq_dec i j) as [<-|Hn]; [eauto|]. rewrite getsub_setsub_neq in Hj by auto. apply C; auto.
  - intros j k Hj Hs. cbn in Hj. destruct (Nat.eq_dec i j) as [<-|Hn].
    + rewrite getsub_setsub_eq in Hs. apply Hk; congruence.
    + rewrite getsub_setsub_neq in Hs by auto. eapply D; eauto.
Qed.

(** one abstract step of thread i (whose sub-state is Idle) *)
Lemma inv_lift_thread c s i alt s' : invL c s -> getsub s i = Idle ->
  lift c (EStep i alt) s = Some s' -> invL c s'.
Proof.
  intros [A B C D] Hi H. apply lift_spec in H. destruct H as (b & Hs & ->).
  assert (Hp : exists p, nth_error (thr (base s)) i = Some p).
  { cbn in Hs. destruct (nth_error (thr (base s)) i); [eauto|discriminate]. }
  destruct Hp as (p & Hp). destruct (own_step_rank _ _ _ _ _ _ Hs Hp) as (p' & Hp' & _ & Hoth).
  assert (Hsame : forall j, getsub s j <> Idle -> nth_error (thr b) j = nth_error (thr (base s)) j).
  { intros j Hj. destruct (C j Hj) as (q & Hq & _). apply Hoth; [congruence|]. eapply nth_error_lt; eauto. }
  constructor; cbn.
  - exact A.
  - exact B.
  - intros j Hj. change (getsub s j <> Idle) in Hj. rewrite (Hsame j Hj). apply C; auto.
  - intros j k Hj Hk. change (sub_index (getsub s j) = Some k) in Hk.
    assert (Hne : getsub s j <> Idle) by (intros E; rewrite E in Hk; discriminate).
    rewrite (Hsame j Hne) in Hj. eapply D; eauto.
Qed.

Lemma inv_lift_env c s e s' : invL c s -> (forall i alt, e <> EStep i alt) -> lift c e s = Some s' -> invL c s'.
Proof.
  intros [A B C D] He H. apply lift_spec in H. destruct H as (b & Hs & ->).
  pose proof (env_step_thr _ _ _ _ Hs He) as Ht.
  constructor; cbn; auto.
  - intros j Hj. rewrite Ht. apply C; auto.
  - intros j k. rewrite Ht. apply D.
Qed.

Lemma holds_set_ext s j x y t : nth_error (ext s) j = Some x ->
  holds_actorOf (set_ext s (upd (ext s) j y)) t =
  match t with OExt j' => if Nat.eqb j' j then xholds y else holds_actorOf s t | _ => holds_actorOf s t end.
Proof.
  intros Hx. destruct t as [i|j']; [reflexivity|]. cbn [holds_actorOf set_ext ext].
  destruct (Nat.eqb_spec j' j) as [E|Hn].
  - subst j'. rewrite nth_error_upd_eq by (eapply nth_error_lt; eauto). reflexivity.
  - rewrite nth_error_upd_neq by congruence. reflexivity.
Qed.

Lemma inv_ext_move c s j x y : invL c s -> nth_error (ext s) j = Some x -> xholds y = xholds x ->
  invL c (set_ext s (upd (ext s) j y)).
Proof.
  intros [A B C D] Hx Hh.
  assert (Hs : forall t, holds_actorOf (set_ext s (upd (ext s) j y)) t = holds_actorOf s t).
  { intros t. rewrite (holds_set_ext _ _ _ _ _ Hx). destruct t as [i|j']; auto.
    destruct (Nat.eqb_spec j' j) as [E|]; auto. subst j'. cbn. rewrite Hx. auto. }
  constructor.
  - intros t Ht. rewrite Hs. apply A. exact Ht.
  - intros t Ht. rewrite Hs in Ht. apply B in Ht. exact Ht.
  - exact C.
  - exact D.
Qed.

Lemma inv_ext_acquire c s j : invL c s -> nth_error (ext s) j = Some XAcq -> alock s = None ->
  invL c (set_alock (set_ext s (upd (ext s) j XWork)) (Some (OExt j))).
Proof.
  intros [A B C D] Hx Hn. constructor.
  - intros t Ht. cbn in Ht. injection Ht as <-. change (holds_actorOf (set_ext s (upd (ext s) j XWork)) (OExt j) = true).
    rewrite (holds_set_ext _ _ _ _ _ Hx), Nat.eqb_refl. reflexivity.
  - intros t Ht. change (holds_actorOf (set_ext s (upd (ext s) j XWork)) t = true) in Ht.
    rewrite (holds_set_ext _ _ _ _ _ Hx) in Ht. cbn [alock set_alock]. destruct t as [i|j'].
    + apply B in Ht. congruence.
    + destruct (Nat.eqb_spec j' j) as [E|]; [subst; reflexivity|]. apply B in Ht. congruence.
  - exact C.
  - exact D.
Qed.

Lemma inv_ext_release c s j : invL c s -> nth_error (ext s) j = Some XRel ->
  invL c (set_alock (set_ext s (upd (ext s) j XDone)) None).
Proof.
  intros [A B C D] Hx.
  assert (Ho : alock s = Some (OExt j)) by (apply B; cbn; rewrite Hx; reflexivity).
  constructor.
  - intros t Ht. discriminate Ht.
  - intros t Ht. exfalso. change (holds_actorOf (set_ext s (upd (ext s) j XDone)) t = true) in Ht.
    rewrite (holds_set_ext _ _ _ _ _ Hx) in Ht. destruct t as [i|j'].
    + apply B in Ht. congruence.
    + destruct (Nat.eqb_spec j' j) as [E|Hn]; [discriminate|]. apply B in Ht. congruence.
  - exact C.
  - exact D.
Qed.

Lemma sub_idle_outside c s i p : invL c s -> nth_error (thr (base s)) i = Some p -> region p = false -> getsub s i = Idle.
Proof.
  intros I Hp Hr. destruct (getsub s i) eqn:E; auto;
    (destruct (l_sub _ _ I i) as (q & Hq & Hreg); [rewrite E; discriminate|]; congruence).
Qed.

Lemma invL_step c e s s' : invL c s -> step2 c e s = Some s' -> invL c s'.
Proof.
  intros I H. destruct e as [i alt|j xalt| | |dt]; cbn [step2] in H.
  - destruct (nth_error (thr (base s)) i) as [p|] eqn:Hp; [|discriminate].
    assert (Out : region p = false -> lift c (EStep i alt) s = Some s' -> invL c s').
    { intros Hr Hl. eapply inv_lift_thread; eauto. eapply sub_idle_outside; eauto. }
    destruct p; try (apply Out; [reflexivity|exact H]); clear Out.
    + (* SChain *) unfold chain_step in H. destruct (getsub s i) as [|k|k|k [|]] eqn:Es.
      * destruct (links c) eqn:El; [eapply inv_lift_thread; eauto|]. injection H as <-.
        eapply inv_setsub; eauto. rewrite Es. reflexivity.
        intros _ k Hk. cbn in Hk. injection Hk as <-. rewrite El. cbn. lia.
      * unfold acquire in H. destruct (alock s) eqn:Ea; [discriminate|]. injection H as <-. eapply inv_acquire; eauto.
      * assert (Hk : (k < length (links c))%nat) by (eapply (l_pos _ _ I); eauto; rewrite Es; reflexivity).
        destruct alt as [|[| |]]; try discriminate; injection H as <-; (eapply inv_setsub; eauto; [rewrite Es; reflexivity|]);
          intros _ k' E; cbn in E; injection E as <-; exact Hk.
      * set (s2 := if is_cluster_link (nth k (links c) LMetrics) then set_clusterNow (set_alock s None) true else set_alock s None) in H.
        assert (R : forall x, holds_alock x = false ->
                      (forall k', sub_index x = Some k' -> (k' < length (links c))%nat) -> invL c (setsub s2 i x)).
        { intros x Hx Hk. apply (invL_ext c (setsub (set_alock s None) i x)).
          - subst s2. destruct (is_cluster_link _); reflexivity.
          - subst s2. destruct (is_cluster_link _); reflexivity.
          - subst s2. destruct (is_cluster_link _); reflexivity.
          - subst s2. destruct (is_cluster_link _); reflexivity.
          - eapply inv_release; eauto. rewrite Es. reflexivity. }
        destruct (Nat.ltb_spec (S k) (length (links c))).
        -- injection H as <-. apply R; [reflexivity|]. intros k' E. cbn in E. injection E as <-. lia.
        -- eapply inv_lift_thread; [|apply getsub_setsub_eq|exact H]. apply R; [reflexivity|]. intros k' E. discriminate E.
      * eapply inv_lift_thread; [|apply getsub_setsub_eq|exact H].
        eapply inv_release; eauto. rewrite Es. reflexivity. intros _ k' E. discriminate E.
    + (* TLeaveReq *) unfold leave_step in H. destruct (getsub s i) as [|k|k|k ok] eqn:Es.
      * injection H as <-. eapply inv_setsub; eauto. rewrite Es. reflexivity. intros E. discriminate E.
      * unfold acquire in H. destruct (alock s) eqn:Ea; [discriminate|]. injection H as <-. eapply inv_acquire; eauto.
      * destruct alt as [|[| |]]; try discriminate; injection H as <-; (eapply inv_setsub; eauto; [rewrite Es; reflexivity|]);
          intros E; discriminate E.
      * eapply inv_lift_thread; [|apply getsub_setsub_eq|exact H].
        apply (invL_ext c (setsub (set_alock s None) i Idle)); try (destruct ok; reflexivity).
        eapply inv_release; eauto. rewrite Es. reflexivity. intros E. discriminate E.
  - unfold ext_step in H. destruct (nth_error (ext s) j) as [[| | | |]|] eqn:Hx; try discriminate.
    + injection H as <-. eapply inv_ext_move; eauto.
    + destruct (alock s) eqn:Ea; [discriminate|]. injection H as <-. eapply inv_ext_acquire; eauto.
    + destruct xalt; [|discriminate]. injection H as <-. eapply inv_ext_move; eauto.
    + injection H as <-. eapply inv_ext_release; eauto.
  - eapply inv_lift_env; eauto. intros; discriminate.
  - destruct (leaveHelper s); [|discriminate]. eapply inv_lift_env; eauto. intros; discriminate.
  - eapply inv_lift_env; eauto. intros; discriminate.
Qed.

Lemma nth_repeat_x m j x : nth_error (repeat_x m) j = Some x -> x = XSpawned.
Proof. revert j. induction m; intros [|j] H; cbn in H; try discriminate; [congruence|eauto]. Qed.

Lemma invL_init c ths m : invL c (init2 ths m).
Proof.
  constructor.
  - intros t Ht. discriminate Ht.
  - intros [i|j] Ht; cbn in Ht.
    + unfold getsub in Ht. cbn in Ht. destruct i; discriminate.
    + destruct (nth_error (repeat_x m) j) eqn:E; [|discriminate]. apply nth_repeat_x in E. subst. discriminate.
  - intros i Hi. exfalso. apply Hi. unfold getsub. cbn. destruct i; reflexivity.
  - intros i k _ Hk. unfold getsub in Hk. cbn in Hk. destruct i; discriminate.
Qed.

Lemma invL_run c evs s : invL c s -> invL c (run2 c evs s).
Proof.
  revert s. induction evs as [|e evs IH]; intros s I; cbn; [exact I|]. apply IH.
  unfold step_or_stay2. destruct (step2 c e s) eqn:E; [eapply invL_step; eauto|exact I].
Qed.

Lemma reachable2_inv c s : reachable2 c s -> invL c s.
Proof. intros (ths & m & evs & _ & <-). apply invL_run. apply invL_init. Qed.

(** ------------------------------------------------------------------ mutual exclusion, hierarchy *)

(** actorOfLock is a mutual-exclusion lock: two threads inside System.ActorOf are the same thread *)
Theorem actorOf_mutex c s t t' : reachable2 c s -> holds_actorOf s t = true -> holds_actorOf s t' = true -> t = t'.
Proof.
  intros R H H'. pose proof (reachable2_inv _ _ R) as I. apply (l_own2 _ _ I) in H. apply (l_own2 _ _ I) in H'. congruence.
Qed.

Theorem alock_holder c s t : reachable2 c s -> (alock s = Some t <-> holds_actorOf s t = true).
Proof. intros R. pose proof (reachable2_inv _ _ R) as I. split; [apply (l_own1 _ _ I)|apply (l_own2 _ _ I)]. Qed.

(** statusLock is a mutual-exclusion lock (from the abstract machine) *)
Theorem status_mutex c s i j : reachable2 c s -> holds_status s i = true -> holds_status s j = true -> i = j.
Proof.
  intros R Hi Hj. unfold holds_status in *.
  destruct (nth_error (thr (base s)) i) as [p|] eqn:Ep; [|discriminate].
  destruct (nth_error (thr (base s)) j) as [q|] eqn:Eq; [|discriminate].
  eapply (mutex (c_base c) (base s)); eauto. apply refines. exact R.
Qed.

(** the hierarchy statusLock < actorOfLock: whoever holds actorOfLock inside the life-cycle code is in the start-up chain
    (then it holds statusLock too, acquired BEFORE) or in Leave() (then it holds nothing else); a thread standing in
    front of statusLock, or waiting for the environment, holds neither lock *)
Theorem life_holder_where c s i : reachable2 c s -> holds_actorOf s (OLife i) = true ->
  exists p, nth_error (thr (base s)) i = Some p /\
    ((p = SChain /\ lock (base s) = Some i) \/ (exists w d, p = TLeaveReq w d /\ holds_status s i = false)).
Proof.
  intros R H. pose proof (reachable2_inv _ _ R) as I. cbn in H.
  destruct (l_sub _ _ I i) as (p & Hp & Hr); [intros E; rewrite E in H; discriminate|].
  exists p. split; [exact Hp|]. destruct p; try discriminate Hr.
  - left. split; [reflexivity|].
    eapply (start_holds_lock (c_base c) (base s) i SChain); [apply refines; exact R|exact Hp|reflexivity].
  - right. exists w, d. split; [reflexivity|]. unfold holds_status. rewrite Hp. reflexivity.
Qed.

Theorem status_waiter_holds_nothing c s i : reachable2 c s -> wants_status s i = true ->
  holds_actorOf s (OLife i) = false /\ holds_status s i = false.
Proof.
  intros R H. pose proof (reachable2_inv _ _ R) as I. unfold wants_status, holds_status in *.
  destruct (nth_error (thr (base s)) i) as [p|] eqn:Hp; [|discriminate]. split.
  - cbn. rewrite (sub_idle_outside _ _ _ _ I Hp); [reflexivity|]. destruct p; try discriminate H; reflexivity.
  - destruct p; try discriminate H; reflexivity.
Qed.

Theorem env_waiter_holds_nothing c s i p : reachable2 c s -> nth_error (thr (base s)) i = Some p -> env_wait (base s) p ->
  holds_actorOf s (OLife i) = false /\ holds_status s i = false.
Proof.
  intros R Hp H. pose proof (reachable2_inv _ _ R) as I. unfold holds_status. rewrite Hp. split.
  - cbn. rewrite (sub_idle_outside _ _ _ _ I Hp); [reflexivity|]. destruct p; try contradiction; reflexivity.
  - destruct p; try contradiction; reflexivity.
Qed.

(** ------------------------------------------------------------------ progress *)

Lemma lift_chain_ok c s0 s i alt : base s0 = base s -> nth_error (thr (base s)) i = Some SChain ->
  (alt = 0 \/ alt = 1 \/ alt = 2) -> exists s', lift c (EStep i alt) s0 = Some s'.
Proof.
  intros Hb Hp Ha. unfold lift. rewrite Hb. cbn [step]. rewrite Hp. cbn [step_thread].
  destruct Ha as [->|[->| ->]]; eexists; reflexivity.
Qed.

Lemma lift_leave_ok c s0 s i w d alt : base s0 = base s -> nth_error (thr (base s)) i = Some (TLeaveReq w d) ->
  exists s', lift c (EStep i alt) s0 = Some s'.
Proof. intros Hb Hp. unfold lift. rewrite Hb. cbn [step]. rewrite Hp. cbn [step_thread]. eexists; reflexivity. Qed.

(** whoever holds actorOfLock is never blocked *)
Lemma holder_can_step c s o : invL c s -> alock s = Some o -> can_step c s o.
Proof.
  intros I Ha. pose proof (l_own1 _ _ I _ Ha) as Hh. destruct o as [i|j]; cbn in Hh.
  - destruct (l_sub _ _ I i) as (p & Hp & Hr); [intros E; rewrite E in Hh; discriminate|].
    unfold can_step. cbn [ev_of step2]. rewrite Hp. destruct p; try discriminate Hr.
    + unfold chain_step. destruct (getsub s i) as [|k|k|k [|]]; try discriminate Hh.
      * exists 0. eexists; reflexivity.
      * exists 0. destruct (Nat.ltb (S k) (length (links c))); [eexists; reflexivity|].
        apply (lift_chain_ok c _ s i 0); [destruct (is_cluster_link _); reflexivity|exact Hp|auto].
      * exists 0. apply (lift_chain_ok c _ s i); [reflexivity|exact Hp|destruct (existsb _ _); auto].
    + unfold leave_step. destruct (getsub s i) as [|k|k|k ok]; try discriminate Hh.
      * exists 0. eexists; reflexivity.
      * exists 0. apply (lift_leave_ok c _ s i w d 0); [destruct ok; reflexivity|exact Hp].
  - unfold can_step. cbn [ev_of step2]. unfold ext_step. exists 0.
    destruct (nth_error (ext s) j) as [[| | | |]|]; try discriminate Hh; eexists; reflexivity.
Qed.

Definition blocked_on_actorOf (c : cfg2) (s : st2) (t : owner) : Prop :=
  wants_actorOf s t = true /\ exists o, alock s = Some o /\ o <> t /\ can_step c s o.

(** a life-cycle thread whose abstract step is enabled can step in the merged machine, unless it stands in front of
    actorOfLock, whose holder can step *)
Lemma life_enabled c s i p : invL c s -> nth_error (thr (base s)) i = Some p ->
  (exists alt b, step (c_base c) (EStep i alt) (base s) = Some b) ->
  can_step c s (OLife i) \/ blocked_on_actorOf c s (OLife i).
Proof.
  intros I Hp (alt & b & Hs).
  assert (Acq : forall k, getsub s i = AAcq k -> region p = true ->
                  (exists s', acquire s i k = Some s') \/ blocked_on_actorOf c s (OLife i)).
  { intros k Es Hr. unfold acquire. destruct (alock s) as [o|] eqn:Ea; [right|left; eexists; reflexivity].
    split; [cbn; rewrite Es; reflexivity|]. exists o. split; [exact Ea|]. split; [|eapply holder_can_step; eauto].
    intros ->. pose proof (l_own1 _ _ I _ Ea) as Hh. cbn in Hh. rewrite Es in Hh. discriminate. }
  unfold can_step. cbn [ev_of step2]. rewrite Hp.
  destruct (region p) eqn:Hr.
  - destruct p; try discriminate Hr.
    + unfold chain_step. destruct (getsub s i) as [|k|k|k [|]] eqn:Es.
      * left. exists 0. destruct (links c); [apply (lift_chain_ok c _ s i 0); auto|eexists; reflexivity].
      * destruct (Acq k eq_refl eq_refl) as [(s' & E)|B]; [left; exists 0, s'; exact E|right; exact B].
      * left. exists 0. eexists; reflexivity.
      * left. exists 0. destruct (Nat.ltb (S k) (length (links c))); [eexists; reflexivity|].
        apply (lift_chain_ok c _ s i 0); [destruct (is_cluster_link _); reflexivity|exact Hp|auto].
      * left. exists 0. apply (lift_chain_ok c _ s i); [reflexivity|exact Hp|destruct (existsb _ _); auto].
    + unfold leave_step. destruct (getsub s i) as [|k|k|k ok] eqn:Es.
      * left. exists 0. eexists; reflexivity.
      * destruct (Acq k eq_refl eq_refl) as [(s' & E)|B]; [left; exists 0, s'; exact E|right; exact B].
      * left. exists 0. eexists; reflexivity.
      * left. exists 0. apply (lift_leave_ok c _ s i w d 0); [destruct ok; reflexivity|exact Hp].
  - left. exists alt. unfold lift. rewrite Hs.
    destruct p; try discriminate Hr; eexists; reflexivity.
Qed.

(** DEADLOCK FREEDOM of the merged machine: in every reachable state every unfinished thread - a Start / Stop / cancel
    caller, the guard goroutine, an external System.ActorOf caller -
      can take a step, or
      stands in front of actorOfLock, whose holder can take a step, or
      stands in front of statusLock, whose holder can take a step or stands in front of actorOfLock, whose holder can
      take a step, or
      waits for the environment only (context cancellation / tree termination or timeout / cluster leave). *)
Theorem no_deadlock2 c s t : reachable2 c s -> unfinished s t ->
  can_step c s t
  \/ blocked_on_actorOf c s t
  \/ (exists i j, t = OLife i /\ wants_status s i = true /\ lock (base s) = Some j /\ j <> i /\
        (can_step c s (OLife j) \/ blocked_on_actorOf c s (OLife j)))
  \/ env_wait2 s t.
Proof.
  intros R U. pose proof (reachable2_inv _ _ R) as I. pose proof (refines _ _ R) as Rb.
  destruct t as [i|j].
  - destruct U as (p & Hp & Hd).
    destruct (progress _ _ _ _ Rb Hp Hd) as [(alt & b & Hs)|[(Hl & j & Hn & Hlk & b & Hs)|He]].
    + destruct (life_enabled c s i p I Hp) as [H|H]; eauto.
    + right. right. left. exists i, j. split; [reflexivity|]. split; [unfold wants_status; rewrite Hp; exact Hl|].
      split; [exact Hlk|]. split; [exact Hn|].
      assert (Hq : exists q, nth_error (thr (base s)) j = Some q).
      { cbn in Hs. destruct (nth_error (thr (base s)) j); [eauto|discriminate]. }
      destruct Hq as (q & Hq). eapply life_enabled; eauto.
    + right. right. right. exists p. auto.
  - destruct U as (x & Hx & Hd). unfold can_step, blocked_on_actorOf. cbn [ev_of step2 wants_actorOf]. unfold ext_step. rewrite Hx.
    destruct x; try congruence.
    + left. exists 0. eexists; reflexivity.
    + destruct (alock s) as [o|] eqn:Ea; [right; left|left; exists 0; eexists; reflexivity].
      split; [reflexivity|]. exists o. split; [reflexivity|]. split; [|eapply holder_can_step; eauto].
      intros ->. pose proof (l_own1 _ _ I _ Ea) as Hh. cbn in Hh. rewrite Hx in Hh. discriminate.
    + left. exists 0. eexists; reflexivity.
    + left. exists 0. eexists; reflexivity.
Qed.

(** consequently: as long as some thread is unfinished and does not wait for the environment only, SOME thread of the
    merged machine can take a step - no deadlock on statusLock / actorOfLock, whatever the population and the schedule *)
Theorem some_thread_can_step c s t : reachable2 c s -> unfinished s t -> ~ env_wait2 s t -> exists t', can_step c s t'.
Proof.
  intros R U N. destruct (no_deadlock2 c s t R U) as [H|[(_ & o & _ & _ & H)|[(i & j & _ & _ & _ & _ & [H|(_ & o & _ & _ & H)])|H]]]; eauto.
  contradiction.
Qed.

(** whoever holds statusLock can step, or stands in front of actorOfLock whose holder can step *)
Theorem status_holder_progress c s j : reachable2 c s -> lock (base s) = Some j ->
  can_step c s (OLife j) \/ blocked_on_actorOf c s (OLife j).
Proof.
  intros R Hl. pose proof (reachable2_inv _ _ R) as I. pose proof (refines _ _ R) as Rb.
  destruct (lock_released _ _ _ Rb Hl) as ((b & Hs) & _).
  assert (Hq : exists q, nth_error (thr (base s)) j = Some q).
  { cbn in Hs. destruct (nth_error (thr (base s)) j); [eauto|discriminate]. }
  destruct Hq as (q & Hq). eapply life_enabled; eauto.
Qed.

Theorem actorOf_holder_progress c s o : reachable2 c s -> alock s = Some o -> can_step c s o.
Proof. intros R. apply holder_can_step. apply reachable2_inv. exact R. Qed.

(** ------------------------------------------------------------------ bounded number of own steps *)

Lemma sub_rank_pos L x : (1 <= sub_rank L x)%nat.
Proof. destruct x; cbn; lia. Qed.

Lemma rank_lift c s0 s i alt s' : base s0 = base s -> getsub s0 i = Idle ->
  lift c (EStep i alt) s0 = Some s' -> (rank2 c s' (OLife i) < rank2 c s (OLife i))%nat.
Proof.
  intros Hb Hi H. apply lift_spec in H. destruct H as (b & Hs & ->). rewrite Hb in Hs.
  assert (Hp : exists p, nth_error (thr (base s)) i = Some p).
  { cbn in Hs. destruct (nth_error (thr (base s)) i); [eauto|discriminate]. }
  destruct Hp as (p & Hp). destruct (own_step_rank _ _ _ _ _ _ Hs Hp) as (p' & Hp' & Hr & _).
  unfold rank2. cbn [base set_base]. rewrite Hp, Hp'. change (getsub (set_base s0 b) i) with (getsub s0 i). rewrite Hi.
  pose proof (sub_rank_pos (length (links c)) (getsub s i)). cbn [sub_rank]. nia.
Qed.

(** every step of a thread strictly decreases its own rank ([rank2]: at most 20 * (3 * #chain-calls + 8) for a
    life-cycle call, 4 for an external System.ActorOf call): every call finishes within a bounded number of its own steps *)
Theorem own_steps2 c s t alt s' : reachable2 c s -> step2 c (ev_of t alt) s = Some s' ->
  (rank2 c s' t < rank2 c s t)%nat.
Proof.
  intros R H. pose proof (reachable2_inv _ _ R) as I. destruct t as [i|j]; cbn [ev_of step2] in H.
  - destruct (nth_error (thr (base s)) i) as [p|] eqn:Hp; [|discriminate].
    assert (Out : region p = false -> lift c (EStep i alt) s = Some s' -> (rank2 c s' (OLife i) < rank2 c s (OLife i))%nat).
    { intros Hr Hl. eapply rank_lift; eauto. eapply sub_idle_outside; eauto. }
    assert (Stut : forall s1 x, base s1 = base s -> getsub s1 i = x -> (sub_rank (length (links c)) x < sub_rank (length (links c)) (getsub s i))%nat ->
                     (rank2 c s1 (OLife i) < rank2 c s (OLife i))%nat).
    { intros s1 x Hb Hx Hlt. unfold rank2. rewrite Hb, Hp, Hx. lia. }
    destruct p; try (apply Out; [reflexivity|exact H]); clear Out.
    + unfold chain_step in H. destruct (getsub s i) as [|k|k|k [|]] eqn:Es.
      * destruct (links c) eqn:El; [eapply rank_lift; eauto|]. injection H as <-.
        eapply Stut; [reflexivity|apply getsub_setsub_eq|]. rewrite ?Es. cbn. lia.
      * unfold acquire in H. destruct (alock s); [discriminate|]. injection H as <-.
        eapply Stut; [reflexivity|apply (getsub_setsub_eq s)|]. rewrite ?Es. cbn. lia.
      * destruct alt as [|[| |]]; try discriminate; injection H as <-;
          (eapply Stut; [reflexivity|apply getsub_setsub_eq|]; rewrite ?Es; cbn; lia).
      * destruct (Nat.ltb_spec (S k) (length (links c))).
        -- injection H as <-. eapply Stut; [destruct (is_cluster_link _); reflexivity|apply getsub_setsub_eq|]. rewrite ?Es. cbn. lia.
        -- eapply rank_lift; [|apply getsub_setsub_eq|exact H]. destruct (is_cluster_link _); reflexivity.
      * eapply rank_lift; [|apply getsub_setsub_eq|exact H]. reflexivity.
    + unfold leave_step in H. destruct (getsub s i) as [|k|k|k ok] eqn:Es.
      * injection H as <-. eapply Stut; [reflexivity|apply getsub_setsub_eq|]. rewrite ?Es. cbn. lia.
      * unfold acquire in H. destruct (alock s); [discriminate|]. injection H as <-.
        eapply Stut; [reflexivity|apply (getsub_setsub_eq s)|]. rewrite ?Es. cbn. lia.
      * destruct alt as [|[| |]]; try discriminate; injection H as <-;
          (eapply Stut; [reflexivity|apply getsub_setsub_eq|]; rewrite ?Es; cbn; lia).
      * eapply rank_lift; [|apply getsub_setsub_eq|exact H]. destruct ok; reflexivity.
  - unfold ext_step in H. destruct (nth_error (ext s) j) as [[| | | |]|] eqn:Hx; try discriminate.
    + injection H as <-. unfold rank2. cbn [ext set_ext]. rewrite Hx, nth_error_upd_eq by (eapply nth_error_lt; eauto). cbn. lia.
    + destruct (alock s); [discriminate|]. injection H as <-. unfold rank2. cbn [ext set_ext set_alock]. rewrite Hx, nth_error_upd_eq by (eapply nth_error_lt; eauto). cbn. lia.
    + destruct alt; [|discriminate]. injection H as <-. unfold rank2. cbn [ext set_ext]. rewrite Hx, nth_error_upd_eq by (eapply nth_error_lt; eauto). cbn. lia.
    + injection H as <-. unfold rank2. cbn [ext set_ext set_alock]. rewrite Hx, nth_error_upd_eq by (eapply nth_error_lt; eauto). cbn. lia.
Qed.

Lemma reachable2_run c ths m evs : forallb env_pc ths = true -> reachable2 c (run2 c evs (init2 ths m)).
Proof. intros H. exists ths, m, evs. auto. Qed.
