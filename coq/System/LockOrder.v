(** System/LockOrder.v — the LOCK VIEW of System.Start / Stop / stop / ActorOf (model part of C07).

    internal/actor/system.go has two mutexes that the life-cycle calls can hold at the same time:
      statusLock   (rank 0)  Start: the status switch AND the whole start-up chain; stop: the status switch
      actorOfLock  (rank 1)  System.ActorOf (every top-level spawn)
    The start-up chain (system_chains.go) spawns the system actors through System.ActorOf: "@metrics" when
    metrics are enabled, "@remoting" when remoting is enabled, "@cluster" + the singleton proxy manager (+ the
    singleton manager) when cluster options are present — each of these calls takes actorOfLock WHILE Start
    still holds statusLock.  stop() takes statusLock alone; on a clustered system it later calls
    clusterContext.Leave(), which spawns a helper actor through System.ActorOf (actorOfLock, holding nothing)
    and then waits for the leave to complete.  Any other goroutine may call System.ActorOf at any time.

    System/Lifecycle.v models the chain links behind the root as ONE step under statusLock; this file is
    the projection of the same code onto its lock operations, with the chain refined into its ActorOf calls.
    A thread is a straight-line PROGRAM of operations (every branch of the code — first / repeated Start, chain
    failing after k spawns, effective / repeated stop, clustered or not — is a program of its own, see
    [shape]); the machine interleaves any population of them.

    The generic part ([ordered], the machine) knows nothing about vivid: locks are numbers, a lock's number
    is its rank in the hierarchy. *)
From Coq Require Import List NArith Bool.
Import ListNotations.
Local Open Scope N_scope.

Definition lk := N.
Definition statusLock : lk := 0.
Definition actorOfLock : lk := 1.

Inductive op : Type :=
| Acq (l : lk)      (* mu.Lock(): blocks while another thread (or the thread itself) holds l *)
| Rel (l : lk)      (* mu.Unlock() *)
| Wait              (* blocks until the ENVIRONMENT lets it go on (a channel receive / select: context cancelled,
                       tree terminated or timeout, cluster leave completed) *)
| Work.             (* anything that does not block *)

Record thread : Type := { held : list lk; todo : list op }.

Definition holds (t : thread) (l : lk) : bool := existsb (N.eqb l) (held t).
Definition free (ts : list thread) (l : lk) : bool := forallb (fun t => negb (holds t l)) ts.

Fixpoint remove1 (l : lk) (h : list lk) : list lk :=
  match h with
  | [] => []
  | x :: r => if N.eqb x l then r else x :: remove1 l r
  end.

(** what thread [t] does next in the population [ts]; [env]: the environment releases a [Wait] *)
Definition step_thread (env : bool) (ts : list thread) (t : thread) : option thread :=
  match todo t with
  | [] => None
  | Acq l :: r => if negb env && free ts l then Some {| held := l :: held t; todo := r |} else None
  | Rel l :: r => if env then None else Some {| held := remove1 l (held t); todo := r |}
  | Wait :: r => if env then Some {| held := held t; todo := r |} else None
  | Work :: r => if env then None else Some {| held := held t; todo := r |}
  end.

Fixpoint upd {A} (l : list A) (i : nat) (x : A) : list A :=
  match l, i with
  | [], _ => []
  | _ :: r, O => x :: r
  | y :: r, S i' => y :: upd r i' x
  end.

Inductive ev : Type :=
| EStep (i : nat)        (* thread i executes its next operation (not a Wait) *)
| EEnv (i : nat).        (* the environment releases thread i from its Wait *)

Definition step (e : ev) (ts : list thread) : option (list thread) :=
  match e with
  | EStep i => match nth_error ts i with
               | Some t => match step_thread false ts t with Some t' => Some (upd ts i t') | None => None end
               | None => None
               end
  | EEnv i => match nth_error ts i with
              | Some t => match step_thread true ts t with Some t' => Some (upd ts i t') | None => None end
              | None => None
              end
  end.

Definition init (progs : list (list op)) : list thread := map (fun p => {| held := []; todo := p |}) progs.
Definition step_or_stay (ts : list thread) (e : ev) : list thread := match step e ts with Some s => s | None => ts end.
Definition run (evs : list ev) (ts : list thread) : list thread := fold_left step_or_stay evs ts.
Definition reachable (progs : list (list op)) (s : list thread) : Prop := exists evs, run evs (init progs) = s.

(** ** The lock hierarchy

    [ordered h p]: started holding [h], program [p] only ever acquires a lock whose rank is strictly above
    every lock it holds, releases only what it holds, never waits for the environment while holding a lock,
    and ends holding nothing. *)
Fixpoint ordered (h : list lk) (p : list op) : bool :=
  match p with
  | [] => match h with [] => true | _ => false end
  | Acq l :: r => forallb (fun x => x <? l) h && ordered (l :: h) r
  | Rel l :: r => existsb (N.eqb l) h && ordered (remove1 l h) r
  | Wait :: r => match h with [] => ordered [] r | _ => false end
  | Work :: r => ordered h r
  end.

(** the same for an unfinished execution (a prefix of a program) *)
Fixpoint ordered_prefix (h : list lk) (p : list op) : bool :=
  match p with
  | [] => true
  | Acq l :: r => forallb (fun x => x <? l) h && ordered_prefix (l :: h) r
  | Rel l :: r => existsb (N.eqb l) h && ordered_prefix (remove1 l h) r
  | Wait :: r => match h with [] => ordered_prefix [] r | _ => false end
  | Work :: r => ordered_prefix h r
  end.

(** thread [t] wants to run (it is neither finished nor waiting for the environment) *)
Definition wants_cpu (t : thread) : bool :=
  match todo t with [] => false | Wait :: _ => false | _ => true end.
(** thread [t] can execute its next operation now *)
Definition enabled (ts : list thread) (t : thread) : bool :=
  match todo t with
  | [] => false
  | Acq l :: _ => free ts l
  | Wait :: _ => false
  | _ => true
  end.
Definition finished (t : thread) : bool := match todo t with [] => true | _ => false end.

(** ** The programs of system.go *)

(** [k] calls of System.ActorOf in a row (the start-up chain: 0 for a plain system, +1 metrics, +1 remoting,
    +2 or +3 cluster) *)
Fixpoint chain (k : nat) : list op :=
  match k with
  | O => []
  | S k' => Acq actorOfLock :: Work :: Rel actorOfLock :: chain k'
  end.

(** stop(): the status switch under statusLock; only the EFFECTIVE stop (the one that saw `start`) goes on:
    [clusterContext.Leave()] on a clustered system (System.ActorOf of the helper actor, then <-leaveWait),
    Kill(root), cancel, the select on guardClosedSignal / time.After, scheduler.Stop *)
Definition stop_prog (effective cluster : bool) : list op :=
  [Acq statusLock; Work; Rel statusLock] ++
  (if effective
   then (if cluster then [Acq actorOfLock; Work; Rel actorOfLock; Wait] else []) ++ [Work; Work; Wait; Work]
   else []).

Inductive shape : Type :=
| ShStartRepeat                                   (* Start() that sees start / stop: switch, Unlock, return the error *)
| ShStart (k : nat)                               (* the first Start, chain with k ActorOf calls succeeds; then the go statement *)
| ShStartFail (k : nat) (effective cluster : bool)(* the chain fails after k ActorOf calls: Unlock, then s.Stop(StopTimeout) *)
| ShStop (effective cluster : bool)               (* Stop(timeout...) *)
| ShGuard (effective cluster : bool)              (* the context-guard goroutine: <-ctx.Done(); s.stop(false) *)
| ShActorOf                                       (* any goroutine calling System.ActorOf *)
| ShCancel.                                       (* cancellation of the context given to NewSystem *)

Definition prog_of (sh : shape) : list op :=
  match sh with
  | ShStartRepeat => [Acq statusLock; Work; Rel statusLock]
  | ShStart k => [Acq statusLock; Work; Work] ++ chain k ++ [Rel statusLock; Work]
  | ShStartFail k e c => [Acq statusLock; Work; Work] ++ chain k ++ [Rel statusLock] ++ stop_prog e c
  | ShStop e c => stop_prog e c
  | ShGuard e c => Wait :: stop_prog e c
  | ShActorOf => [Acq actorOfLock; Work; Rel actorOfLock]
  | ShCancel => [Work]
  end.

(** the seeded defect C07-r2: stop takes actorOfLock BEFORE statusLock (both released by defer) *)
Definition stop_mutant : list op :=
  [Acq actorOfLock; Acq statusLock; Work; Rel statusLock; Rel actorOfLock].

(** ** Correspondence with observed executions (used by LifecycleRun.v, kind 3)

    The lock-step harness records, per thread of a controlled run, the sequence of lock acquisitions and
    releases it performed.  [lockops p]: the Acq/Rel operations of a program. *)
Definition is_lockop (o : op) : bool := match o with Acq _ | Rel _ => true | _ => false end.
Definition lockops (p : list op) : list op := filter is_lockop p.

Definition op_eqb (a b : op) : bool :=
  match a, b with
  | Acq x, Acq y | Rel x, Rel y => N.eqb x y
  | Wait, Wait | Work, Work => true
  | _, _ => false
  end.
Fixpoint is_prefix (a b : list op) : bool :=
  match a, b with
  | [], _ => true
  | x :: a', y :: b' => op_eqb x y && is_prefix a' b'
  | _ :: _, [] => false
  end.
Fixpoint ops_eqb (a b : list op) : bool :=
  match a, b with
  | [], [] => true
  | x :: a', y :: b' => op_eqb x y && ops_eqb a' b'
  | _, _ => false
  end.

Definition chain_sizes : list nat := [0; 1; 2; 3; 4; 5]%nat.   (* metrics 1 + remoting 1 + cluster <= 3 *)
Definition bools2 : list (bool * bool) := [(false, false); (true, false); (true, true)].

(** thread kinds of the harness: 0 Start(), 1 Stop(...), 2 guard goroutine, 3 cancel, 4 external System.ActorOf caller *)
Definition shapes_of_kind (k : N) : list shape :=
  match k with
  | 0 => ShStartRepeat :: map ShStart chain_sizes ++
         flat_map (fun n => map (fun ec => ShStartFail n (fst ec) (snd ec)) bools2) chain_sizes
  | 1 => map (fun ec => ShStop (fst ec) (snd ec)) bools2
  | 2 => map (fun ec => ShGuard (fst ec) (snd ec)) bools2
  | 3 => [ShCancel]
  | 4 => [ShActorOf]
  | _ => []
  end.

(** is the observed sequence of lock operations of a (finished / unfinished) thread of kind [k] what one of the
    model's programs for that kind does? *)
Definition conforms (k : N) (done : bool) (obs : list op) : bool :=
  existsb (fun sh => if done then ops_eqb obs (lockops (prog_of sh)) else is_prefix obs (lockops (prog_of sh)))
          (shapes_of_kind k).
