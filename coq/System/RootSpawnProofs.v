(** Proofs about System/RootSpawn.v: with the re-read of the root's state after the registration (the code since /repo
    6438ab6) every child registered by a System.ActorOf racing the root's OnKill is sent a kill, the root never waits for a
    child nobody kills, and at quiescence everything has terminated; with the stale read both fail. *)
From Coq Require Import List NArith Bool Arith Lia.
From Vivid Require Import System.RootSpawn.
Import ListNotations.

Lemma nth_error_upd_eq {A} (l : list A) i x : i < length l -> nth_error (upd l i x) i = Some x.
Proof. revert i. induction l; intros [|i] H; cbn in *; try lia; auto. apply IHl. lia. Qed.

Lemma nth_error_upd_neq {A} (l : list A) i j x : i <> j -> nth_error (upd l i x) j = nth_error l j.
Proof. revert i j. induction l; intros [|i] [|j] H; cbn; auto; try congruence. Qed.

Lemma nth_error_lt {A} (l : list A) i x : nth_error l i = Some x -> i < length l.
Proof. intros H. apply nth_error_Some. congruence. Qed.

Lemma mem_In x l : mem x l = true <-> In x l.
Proof.
  unfold mem. rewrite existsb_exists. split.
  - intros (y & Hy & E). apply Nat.eqb_eq in E. subst. exact Hy.
  - intros H. exists x. split; [exact H|apply Nat.eqb_refl].
Qed.

Lemma In_remove_all x y l : In y (remove_all x l) -> In y l.
Proof. unfold remove_all. intros H. apply filter_In in H. tauto. Qed.

Lemma length_remove_all_le x l : length (remove_all x l) <= length l.
Proof. unfold remove_all. induction l as [|a l IH]; cbn; [lia|]. destruct (Nat.eqb x a); cbn; lia. Qed.

Lemma length_remove_all x l : In x l -> length (remove_all x l) < length l.
Proof.
  pose proof (length_remove_all_le x) as Le. unfold remove_all in *.
  induction l as [|a l IH]; cbn; [tauto|]. intros [->|H].
  - rewrite Nat.eqb_refl. cbn. specialize (Le l). lia.
  - destruct (Nat.eqb x a); cbn; [specialize (Le l); lia|]. specialize (IH H). lia.
Qed.

(** ------------------------------------------------------------------ the invariant (repaired code) *)

Definition will_be_killed (s : rs) (ch : nat) : Prop :=
  In ch (killSent s) \/ rp s = RIdle \/ rp s = RCollect \/ exists j st0, nth_error (callers s) j = Some (A3 st0 ch).

Record invJ (s : rs) : Prop := {
  j_run : rst s = RRunning <-> rp s = RIdle;
  j_dead : rst s = RKilled <-> rp s = RDead;
  j_kids : forall ch, In ch (children s) -> will_be_killed s ch;
}.

Lemma invJ_init n : invJ (rinit n).
Proof. constructor; cbn; try tauto. split; discriminate. Qed.

Lemma keep_a3 (l : list apc) j p' j0 st0 ch q : nth_error l j = Some q -> (forall a b, q <> A3 a b) ->
  nth_error l j0 = Some (A3 st0 ch) -> nth_error (upd l j p') j0 = Some (A3 st0 ch).
Proof.
  intros Hq Hn H0. rewrite nth_error_upd_neq; [exact H0|]. intros ->. rewrite Hq in H0. injection H0 as ->. eapply Hn; reflexivity.
Qed.

Lemma invJ_step e s s' : invJ s -> rstep true e s = Some s' -> invJ s'.
Proof.
  intros [R D K] H. destruct e as [j| |ch]; cbn [rstep] in H.
  - unfold step_caller in H. destruct (nth_error (callers s) j) as [[|st0|st0 ch|res]|] eqn:Hj; try discriminate.
    + (* A0 *)
      assert (forall p', invJ (set_callers s (upd (callers s) j p'))).
      { intros p'. constructor; cbn; auto. intros ch Hc. destruct (K ch Hc) as [H1|[H1|[H1|(j0 & st0 & H1)]]]; unfold will_be_killed; cbn; auto.
        right. right. right. exists j0, st0. eapply keep_a3; eauto. discriminate. }
      destruct (rst s); injection H as <-; auto.
    + (* A1: registration *)
      injection H as <-. constructor; cbn; auto. intros ch [<-|Hc].
      * right. right. right. exists j, st0. apply nth_error_upd_eq. eapply nth_error_lt; eauto.
      * destruct (K ch Hc) as [H1|[H1|[H1|(j0 & st1 & H1)]]]; unfold will_be_killed; cbn; auto.
        right. right. right. exists j0, st1. eapply keep_a3; eauto. discriminate.
    + (* A3: the final check with the re-read state *)
      injection H as <-. constructor; cbn; auto. intros c Hc.
      destruct (K c Hc) as [H1|[H1|[H1|(j0 & st1 & H1)]]]; unfold will_be_killed; cbn.
      * left. destruct (negb _); [right|]; exact H1.
      * auto.
      * auto.
      * destruct (Nat.eq_dec j0 j) as [->|Hn].
        -- rewrite Hj in H1. injection H1 as -> ->.
           destruct (rst s) eqn:Er; cbn.
           ++ right. left. apply R. reflexivity.
           ++ left. left. reflexivity.
           ++ left. left. reflexivity.
        -- right. right. right. exists j0, st1. rewrite nth_error_upd_neq by congruence. exact H1.
  - unfold step_root in H. destruct (rp s) eqn:Ep; try discriminate.
    + injection H as <-. constructor; cbn; try (split; discriminate). intros ch Hc. unfold will_be_killed. cbn. auto.
    + injection H as <-. constructor; cbn.
      * rewrite R. split; discriminate.
      * rewrite D. split; discriminate.
      * intros ch Hc. left. apply in_or_app. left. exact Hc.
    + destruct (children s) eqn:Ec; [|discriminate]. injection H as <-. constructor; cbn; try tauto. split; discriminate.
  - unfold step_die in H. destruct (mem ch (killSent s) && mem ch (children s)); [|discriminate]. injection H as <-.
    constructor; cbn; auto. intros c Hc. apply In_remove_all in Hc. destruct (K c Hc) as [H1|[H1|[H1|H1]]]; unfold will_be_killed; cbn; auto.
Qed.

Lemma invJ_run evs s : invJ s -> invJ (rrun true evs s).
Proof.
  revert s. induction evs as [|e evs IH]; intros s I; cbn; [exact I|]. apply IH.
  unfold rstep_or_stay. destruct (rstep true e s) eqn:E; [eapply invJ_step; eauto|exact I].
Qed.

Lemma rreachable_inv s : rreachable true s -> invJ s.
Proof. intros (n & evs & <-). apply invJ_run. apply invJ_init. Qed.

(** ------------------------------------------------------------------ theorems (repaired code) *)

Definition all_callers_done (s : rs) : Prop := forall j p, nth_error (callers s) j = Some p -> adone p = true.

(** once the root has collected its children and every System.ActorOf call has returned, every child still in the root's
    table has been sent a kill *)
Theorem registered_child_is_killed s : rreachable true s -> all_callers_done s -> rp s = RWait \/ rp s = RDead ->
  forall ch, In ch (children s) -> In ch (killSent s).
Proof.
  intros R A P ch Hc. destruct (j_kids _ (rreachable_inv _ R) ch Hc) as [H|[H|[H|(j & st0 & H)]]]; auto.
  - destruct P; congruence.
  - destruct P; congruence.
  - specialize (A _ _ H). discriminate.
Qed.

(** the root never waits for a child nobody kills: while it waits (and every ActorOf call has returned) either its table
    is empty and it dies, or some child of the table terminates *)
Theorem root_wait_progress s : rreachable true s -> all_callers_done s -> rp s = RWait ->
  exists e s', rstep true e s = Some s' /\ (e = ERoot \/ exists ch, e = EDie ch /\ length (children s') < length (children s)).
Proof.
  intros R A P. destruct (children s) as [|ch l] eqn:Ec.
  - exists ERoot. cbn. unfold step_root. rewrite P, Ec. eexists. split; [reflexivity|auto].
  - assert (Hk : In ch (killSent s)).
    { apply (registered_child_is_killed s R A (or_introl P)). rewrite Ec. left. reflexivity. }
    exists (EDie ch). cbn. unfold step_die.
    assert (Hm : mem ch (killSent s) && mem ch (children s) = true).
    { apply andb_true_iff. split; apply mem_In; auto. rewrite Ec. left. reflexivity. }
    rewrite Hm. eexists. split; [reflexivity|]. right. exists ch. split; [reflexivity|]. cbn [children].
    rewrite Ec. apply (length_remove_all ch (ch :: l)). left. reflexivity.
Qed.

(** a caller is never blocked *)
Lemma caller_progress reread s j p : nth_error (callers s) j = Some p -> adone p = false -> exists s', rstep reread (ECall j) s = Some s'.
Proof.
  intros Hp Hd. cbn. unfold step_caller. rewrite Hp. destruct p; try discriminate; [destruct (rst s)| |]; eexists; reflexivity.
Qed.

(** in every state in which NOTHING can move any more - no caller, not the root, no child that was sent a kill - the root
    is dead (its OnKill being in the mailbox, [ERoot] is enabled at RIdle: a quiescent state is past it), its table is
    empty, and every System.ActorOf call has returned: every actor whose ActorOf succeeded has terminated *)
Theorem quiescent_all_terminated s : rreachable true s -> rquiescent true s ->
  all_callers_done s /\ rp s = RDead /\ rst s = RKilled /\ children s = [].
Proof.
  intros R Q. pose proof (rreachable_inv _ R) as I.
  assert (A : all_callers_done s).
  { intros j p Hp. destruct (adone p) eqn:Hd; [reflexivity|]. destruct (caller_progress true s j p Hp Hd) as (s' & H). rewrite (Q (ECall j)) in H. discriminate. }
  split; [exact A|].
  pose proof (Q ERoot) as Hr. cbn in Hr. unfold step_root in Hr. destruct (rp s) eqn:Ep; try discriminate.
  - exfalso. destruct (root_wait_progress s R A Ep) as (e & s' & He & _). rewrite (Q e) in He. discriminate.
  - split; [reflexivity|]. split; [apply (j_dead _ I); exact Ep|].
    destruct (children s) as [|ch l] eqn:Ec; [reflexivity|exfalso].
    assert (Hk : In ch (killSent s)) by (apply (registered_child_is_killed s R A (or_intror Ep)); rewrite Ec; left; reflexivity).
    pose proof (Q (EDie ch)) as Hd. cbn in Hd. unfold step_die in Hd.
    assert (Hm : mem ch (killSent s) && mem ch (children s) = true).
    { apply andb_true_iff. split; apply mem_In; auto. rewrite Ec. left. reflexivity. }
    rewrite Hm in Hd. discriminate.
Qed.

(** ------------------------------------------------------------------ sharpness: the stale read (code before 6438ab6) *)

(** the root takes its OnKill and collects an empty table between a caller's read of the state and its registration: the
    caller's final check uses `running`, the child is never killed, the root waits for it for ever *)
Definition stale_orphan : rs := rrun false [ECall 0; ERoot; ERoot; ECall 0; ECall 0] (rinit 1).

Lemma stale_orphan_facts :
  rreachable false stale_orphan /\ rquiescent false stale_orphan /\
  rp stale_orphan = RWait /\ rst stale_orphan = RKilling /\ children stale_orphan = [0] /\ killSent stale_orphan = [] /\
  callers stale_orphan = [ADone (Some 0)].
Proof.
  split; [exists 1, [ECall 0; ERoot; ERoot; ECall 0; ECall 0]; reflexivity|]. split; [|repeat split; reflexivity].
  intros [j| |ch]; cbn.
  - destruct j as [|[|j]]; reflexivity.
  - reflexivity.
  - reflexivity.
Qed.

(** ... or the root has died before the registration: the actor lives on under a dead root *)
Definition stale_survivor : rs := rrun false [ECall 0; ERoot; ERoot; ERoot; ECall 0; ECall 0] (rinit 1).

Lemma stale_survivor_facts :
  rreachable false stale_survivor /\ rquiescent false stale_survivor /\
  rp stale_survivor = RDead /\ rst stale_survivor = RKilled /\ children stale_survivor = [0] /\ killSent stale_survivor = [] /\
  callers stale_survivor = [ADone (Some 0)].
Proof.
  split; [exists 1, [ECall 0; ERoot; ERoot; ERoot; ECall 0; ECall 0]; reflexivity|]. split; [|repeat split; reflexivity].
  intros [j| |ch]; cbn.
  - destruct j as [|[|j]]; reflexivity.
  - reflexivity.
  - reflexivity.
Qed.

(** the same two schedules on the repaired code: the final check sees killing / killed and kills the child *)
Lemma repaired_same_schedules :
  killSent (rrun true [ECall 0; ERoot; ERoot; ECall 0; ECall 0] (rinit 1)) = [0] /\
  killSent (rrun true [ECall 0; ERoot; ERoot; ERoot; ECall 0; ECall 0] (rinit 1)) = [0].
Proof. split; reflexivity. Qed.

Lemma rreachable_run reread n evs : rreachable reread (rrun reread evs (rinit n)).
Proof. exists n, evs. reflexivity. Qed.
