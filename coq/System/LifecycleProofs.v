(** Proofs about the Start/Stop micro-step model (System/Lifecycle.v): inductive invariants over all thread
    populations and all event sequences. *)
From Coq Require Import List NArith Bool Lia Arith.
From Coq Require Import ZifyN ZifyNat.
From Vivid Require Import System.Lifecycle.
Import ListNotations.
Local Open Scope N_scope.

(** ------------------------------------------------------------------ lists *)

Lemma nth_error_upd_eq {A} (l : list A) i x : (i < length l)%nat -> nth_error (upd l i x) i = Some x.
Proof. revert i. induction l; intros [|i] H; cbn in *; try lia; auto. apply IHl. lia. Qed.

Lemma nth_error_upd_neq {A} (l : list A) i j x : i <> j -> nth_error (upd l i x) j = nth_error l j.
Proof. revert i j. induction l; intros [|i] [|j] H; cbn; auto; try congruence. Qed.

Lemma length_upd {A} (l : list A) i x : length (upd l i x) = length l.
Proof. revert i. induction l; intros [|i]; cbn; auto. Qed.

Lemma nth_error_lt {A} (l : list A) i x : nth_error l i = Some x -> (i < length l)%nat.
Proof. intros H. apply nth_error_Some. congruence. Qed.

(** a thread of the updated (and possibly extended) list is the moved thread, an untouched one, or the new one *)
Lemma nth_upd_cases {A} (l : list A) i x j q :
  (i < length l)%nat ->
  nth_error (upd l i x) j = Some q -> (j = i /\ q = x) \/ (j <> i /\ nth_error l j = Some q).
Proof.
  intros Hi H. destruct (Nat.eq_dec j i) as [->|Hn].
  - rewrite nth_error_upd_eq in H by auto. left. split; congruence.
  - rewrite nth_error_upd_neq in H by auto. right. auto.
Qed.

Lemma nth_app_cases {A} (l : list A) y j q :
  nth_error (l ++ [y]) j = Some q -> nth_error l j = Some q \/ (j = length l /\ q = y).
Proof.
  intros H. destruct (Nat.lt_ge_cases j (length l)).
  - rewrite nth_error_app1 in H by auto. auto.
  - rewrite nth_error_app2 in H by auto. destruct (j - length l)%nat eqn:E.
    + cbn in H. right. split; [lia|congruence].
    + cbn in H. destruct n; discriminate.
Qed.

(** ------------------------------------------------------------------ the linearisation log *)

Lemma next_status_not_ready s k : s <> Ready -> next_status s k <> Ready.
Proof. destruct s, k; cbn; congruence. Qed.

Lemma next_status_stopped k : next_status Stopped k = Stopped.
Proof. destruct k; reflexivity. Qed.

Lemma after_start_entry l j st : lin_wf l -> In (j, true, st) l -> status_after l <> Ready.
Proof.
  induction l as [|[[a b] c] l IH]; cbn; [tauto|]. intros [Hs Hw] [He|Hin].
  - injection He as -> -> ->. destruct (status_after l); cbn; congruence.
  - apply next_status_not_ready. auto.
Qed.

Lemma after_eff_entry l j : lin_wf l -> In (j, false, Started) l -> status_after l = Stopped.
Proof.
  induction l as [|[[a b] c] l IH]; cbn; [tauto|]. intros [Hs Hw] [He|Hin].
  - injection He as -> -> ->. rewrite <- Hs. reflexivity.
  - rewrite IH by auto. apply next_status_stopped.
Qed.

Lemma after_stop_entry l j st : lin_wf l -> In (j, false, st) l -> st <> Ready -> status_after l = Stopped.
Proof.
  induction l as [|[[a b] c] l IH]; cbn; [tauto|]. intros [Hs Hw] [He|Hin] Hn.
  - injection He as -> -> ->. destruct (status_after l); cbn; congruence.
  - rewrite IH by auto. apply next_status_stopped.
Qed.

(** at most one Start sees Ready, at most one stop sees Started *)
Lemma winner_unique l i j : lin_wf l -> In (i, true, Ready) l -> In (j, true, Ready) l -> i = j.
Proof.
  induction l as [|[[a b] c] l IH]; cbn; [tauto|]. intros [Hs Hw] [He|Hin] [He'|Hin']; auto.
  - congruence.
  - injection He as -> -> ->. exfalso. eapply after_start_entry; eauto.
  - injection He' as -> -> ->. exfalso. eapply after_start_entry; eauto.
Qed.

Lemma eff_unique l i j : lin_wf l -> In (i, false, Started) l -> In (j, false, Started) l -> i = j.
Proof.
  induction l as [|[[a b] c] l IH]; cbn; [tauto|]. intros [Hs Hw] [He|Hin] [He'|Hin']; auto.
  - congruence.
  - injection He as -> -> ->. rewrite (after_eff_entry l j) in Hs by auto. discriminate.
  - injection He' as -> -> ->. rewrite (after_eff_entry l i) in Hs by auto. discriminate.
Qed.

(** the entries of a well-formed log, oldest first, are: stops that saw Ready / Starts ... i.e. status only
    moves Ready -> Started -> Stopped along the log *)
Lemma status_after_cons_le l e :
  let rk := fun s => match s with Ready => 0%nat | Started => 1%nat | Stopped => 2%nat end in
  (rk (status_after l) <= rk (status_after (e :: l)))%nat.
Proof. destruct e as [[a b] c]. cbn. destruct (status_after l), b; cbn; lia. Qed.

(** ------------------------------------------------------------------ what a pc claims about the log *)

Definition seen_start (r : res) : option stat :=
  match r with RNil => Some Ready | RAlreadyStarted => Some Started | RAlreadyStopped => Some Stopped | _ => None end.
Definition seen_check (r : res) : option stat :=
  match r with RNil => Some Started | RAlreadyStopped => Some Stopped | RNotStarted => Some Ready | _ => None end.
Definition seen_stop (r : res) : option stat :=
  match r with RNil | RStopFailed => Some Started | RAlreadyStopped => Some Stopped | RNotStarted => Some Ready | _ => None end.
Definition wclaim (w : who) : list (bool * stat) := match w with ByStart => [(true, Ready)] | _ => [] end.

Definition claims (p : pc) : option (list (bool * stat)) :=
  match p with
  | SUnlock r => option_map (fun st => [(true, st)]) (seen_start r)
  | SSpawnRoot | SChain | SUnlockFail | SGo => Some [(true, Ready)]
  | TLock w _ | TCheck w _ => Some (wclaim w)
  | TUnlock w _ r => option_map (fun st => (false, st) :: wclaim w) (seen_check r)
  | TReadCluster w _ | TLeaveReq w _ | TLeaveWait w _ | TReadCtx w _ | TKill w _ | TCancel w _ | TSelect w _ | TSchedStop w =>
      Some ((false, Started) :: wclaim w)
  | Done KStart (RStartFailed inner) => option_map (fun st => [(true, Ready); (false, st)]) (seen_stop inner)
  | Done KStart r => option_map (fun st => [(true, st)]) (seen_start r)
  | Done KStop r | Done KGuard r => option_map (fun st => [(false, st)]) (seen_stop r)
  | _ => Some []
  end.

Definition claim_ok (l : list (nat * bool * stat)) (j : nat) (p : pc) : Prop :=
  exists cl, claims p = Some cl /\ forall b st, In (b, st) cl -> In (j, b, st) l.

(** pcs of the one Start that got through, before its `go` statement *)
Definition pre_go (p : pc) : bool := match p with SSpawnRoot | SChain | SUnlock RNil | SGo => true | _ => false end.
(** pcs of the winner after system.Context was assigned (Start's failure path is not included: the
    assignment itself may have failed) *)
Definition past_root (p : pc) : bool :=
  match p with
  | SChain | SUnlock RNil | SGo | Done KStart RNil => true
  | _ => false
  end.
(** the effective stop before it issued Kill(root) *)
Definition pre_kill (p : pc) : bool :=
  match p with
  | TUnlock _ _ RNil | TReadCluster _ _ | TLeaveReq _ _ | TLeaveWait _ _ | TReadCtx _ _ | TKill _ _ => true
  | _ => false
  end.

Definition effect (s : st) : Prop :=
  skipped s = true \/ (kills s = 1 /\ guardClosed s = true /\ ctxDone s = true /\ hasCtx s = true).

(** a stop() that returned nil: Stop() = nil, the guard's stop(false) = nil, Start = start-failed(nil) *)
Definition stop_nil (k : kind) (r : res) : bool :=
  match k, r with
  | KStop, RNil | KGuard, RNil | KStart, RStartFailed RNil => true
  | _, _ => false
  end.

(** per-thread facts that only mention monotone parts of the state *)
Definition tfacts (s : st) (j : nat) (p : pc) : Prop :=
  claim_ok (lin s) j p /\
  (guard_pc p = true -> status s <> Ready /\ spawned s = 1) /\
  (past_root p = true -> hasCtx s = true) /\
  match p with
  | TLeaveWait _ _ => leaveReq s = true
  | TCancel _ _ => 1 <= kills s /\ hasCtx s = true
  | TSelect _ _ => 1 <= kills s /\ ctxDone s = true /\ hasCtx s = true
  | TSchedStop _ => skipped s = true \/ (1 <= kills s /\ guardClosed s = true /\ ctxDone s = true /\ hasCtx s = true)
  | TUnlock ByGuard _ r => r <> RNotStarted
  | TKill _ _ => hasCtx s = true
  | Spawned k => env_pc k = true \/ k = GWait
  | Done k r =>
      (k = KGuard -> r <> RNotStarted) /\
      (stop_nil k r = true -> schedStopped s = true /\
         (skipped s = true \/ (1 <= kills s /\ guardClosed s = true /\ ctxDone s = true /\ hasCtx s = true)))
  | _ => True
  end.

Record inv (n : nat) (s : st) : Prop := {
  i_lock1 : forall j, lock s = Some j -> exists p, nth_error (thr s) j = Some p /\ holder_pc p = true;
  i_lock2 : forall j p, nth_error (thr s) j = Some p -> holder_pc p = true -> lock s = Some j;
  i_wf : lin_wf (lin s);
  i_status : status s = status_after (lin s);
  i_facts : forall j p, nth_error (thr s) j = Some p -> tfacts s j p;
  i_prekill : forall j p, nth_error (thr s) j = Some p -> pre_kill p = true -> kills s = 0;
  i_kills : kills s <= 1;
  i_prego : forall j p, nth_error (thr s) j = Some p -> pre_go p = true -> spawned s = 0;
  i_spawned : spawned s <= 1;
  i_len : length (thr s) = (n + N.to_nat (spawned s))%nat;
  i_created : forall j p, nth_error (thr s) j = Some p -> (n <= j)%nat -> guard_pc p = true;
}.

(** monotone part of the state *)
Record mono (s s' : st) : Prop := {
  m_lin : forall e, In e (lin s) -> In e (lin s');
  m_status : status s <> Ready -> status s' <> Ready;
  m_hasCtx : hasCtx s = true -> hasCtx s' = true;
  m_ctxDone : ctxDone s = true -> ctxDone s' = true;
  m_kills : kills s <= kills s';
  m_guardClosed : guardClosed s = true -> guardClosed s' = true;
  m_leaveReq : leaveReq s = true -> leaveReq s' = true;
  m_leaveDone : leaveDone s = true -> leaveDone s' = true;
  m_sched : schedStopped s = true -> schedStopped s' = true;
  m_skipped : skipped s = true -> skipped s' = true;
  m_spawned : spawned s <= spawned s';
}.

Lemma mono_refl s : mono s s.
Proof. constructor; auto; lia. Qed.

Ltac inv_step H :=
  match type of H with
  | step _ ?e ?s = Some _ =>
      destruct e as [i alt| | |dt]; cbn [step] in H;
      [ destruct (nth_error (thr s) i) as [p|] eqn:Hp; [|discriminate];
        destruct p; cbn [step_thread] in H;
        repeat match type of H with
               | match ?x with _ => _ end = Some _ => let E := fresh "E" in destruct x eqn:E; try discriminate
               | (if ?x then _ else _) = Some _ => let E := fresh "E" in destruct x eqn:E; try discriminate
               end;
        try discriminate; injection H as H; subst
      | destruct ((0 <? kills s) && negb (guardClosed s)) eqn:E; [|discriminate]; injection H as H; subst
      | destruct (leaveReq s && negb (leaveDone s)) eqn:E; [|discriminate]; injection H as H; subst
      | injection H as H; subst ]
  end.

Lemma step_mono c e s s' : step c e s = Some s' -> mono s s'.
Proof.
  intros H. inv_step H; constructor; cbn; intros; auto; try lia; try congruence;
    try (destruct (status s); congruence).
Qed.

Lemma claim_ok_mono l l' j p : (forall e, In e l -> In e l') -> claim_ok l j p -> claim_ok l' j p.
Proof. intros Hl (cl & Hc & Hin). exists cl. split; auto. Qed.

Lemma tfacts_mono s s' j p : mono s s' -> spawned s' <= 1 -> tfacts s j p -> tfacts s' j p.
Proof.
  intros M Hsp (Hc & Hg & Hr & Hx). destruct M as [M1 M2 M3 M4 M5 M6 M7 M8 M9 M10 M11].
  split; [|split; [|split]].
  - eapply claim_ok_mono; eauto.
  - intros G. destruct (Hg G). split; [auto|lia].
  - intros G. auto.
  - destruct p; auto; try (intuition (auto; try lia); fail).
Qed.

(** ------------------------------------------------------------------ preservation *)

Lemma lt_app {A} (l : list A) e i x : nth_error l i = Some x -> (i < length (l ++ e))%nat.
Proof. intros H. apply nth_error_lt in H. rewrite app_length. lia. Qed.

(** split [Hq : nth_error (thr s') j = Some q] into: the moved thread / an untouched thread / the created thread *)
Ltac thr_cases Hq :=
  cbn in Hq;
  apply nth_upd_cases in Hq; [| solve [eapply nth_error_lt; eassumption | eapply lt_app; eassumption]];
  destruct Hq as [[? ?]|[? Hq]]; [subst| try (apply nth_app_cases in Hq; destruct Hq as [Hq|[? ?]]; [|subst])].

Lemma upd_app {A} (l e : list A) i x : (i < length l)%nat -> upd (l ++ e) i x = upd l i x ++ e.
Proof. revert i. induction l; intros [|i] H; cbn in *; try lia; auto. f_equal. apply IHl. lia. Qed.

Lemma lock_frame s i p p' lk' extra t' :
  (forall j, lock s = Some j -> exists p, nth_error (thr s) j = Some p /\ holder_pc p = true) ->
  (forall j p, nth_error (thr s) j = Some p -> holder_pc p = true -> lock s = Some j) ->
  nth_error (thr s) i = Some p ->
  t' = upd (thr s) i p' ++ extra ->
  (forall q, In q extra -> holder_pc q = false) ->
  ( (holder_pc p = false /\ holder_pc p' = true /\ lock s = None /\ lk' = Some i)
  \/ (holder_pc p = true /\ holder_pc p' = false /\ lk' = None)
  \/ (holder_pc p = holder_pc p' /\ lk' = lock s)) ->
  (forall j, lk' = Some j -> exists q, nth_error t' j = Some q /\ holder_pc q = true) /\
  (forall j q, nth_error t' j = Some q -> holder_pc q = true -> lk' = Some j).
Proof.
  intros L1 L2 Hp -> Hex Pat. pose proof (nth_error_lt _ _ _ Hp) as Hlt.
  assert (Hi : nth_error (upd (thr s) i p' ++ extra) i = Some p').
  { rewrite nth_error_app1 by (rewrite length_upd; auto). apply nth_error_upd_eq; auto. }
  assert (Hj : forall j q, nth_error (upd (thr s) i p' ++ extra) j = Some q ->
                 (j = i /\ q = p') \/ (j <> i /\ nth_error (thr s) j = Some q) \/ holder_pc q = false).
  { intros j q Hq. destruct (Nat.lt_ge_cases j (length (thr s))).
    - rewrite nth_error_app1 in Hq by (rewrite length_upd; auto).
      apply nth_upd_cases in Hq; auto. tauto.
    - rewrite nth_error_app2 in Hq by (rewrite length_upd; auto). right. right. apply Hex. eapply nth_error_In; eauto. }
  assert (Hk : forall j q, j <> i -> nth_error (thr s) j = Some q -> nth_error (upd (thr s) i p' ++ extra) j = Some q).
  { intros j q Hn Hq. rewrite nth_error_app1 by (rewrite length_upd; eapply nth_error_lt; eauto).
    rewrite nth_error_upd_neq; auto. }
  split.
  - intros j Hl. destruct Pat as [(A&B&C&D)|[(A&B&C)|(A&B)]].
    + assert (j = i) by congruence. subst. eauto.
    + congruence.
    + rewrite B in Hl. destruct (L1 j Hl) as (q & Hq & Hh). destruct (Nat.eq_dec j i) as [->|Hn].
      * exists p'. split; auto. congruence.
      * exists q. split; auto.
  - intros j q Hq Hh. destruct (Hj j q Hq) as [[-> ->]|[[Hn Hq']|Hf]]; [| |congruence].
    + destruct Pat as [(A&B&C&D)|[(A&B&C)|(A&B)]]; try congruence.
      rewrite B. apply (L2 i p); auto. congruence.
    + pose proof (L2 j q Hq' Hh) as Hl. destruct Pat as [(A&B&C&D)|[(A&B&C)|(A&B)]]; try congruence.
      pose proof (L2 i p Hp A). congruence.
Qed.

(** in the [Spawned k] case, k is one of the four programs a thread can start with *)
Ltac spawned_cases I :=
  try match goal with
  | Hp : nth_error (thr ?s) ?i = Some (Spawned ?k) |- _ =>
      let Hk := fresh "Hk" in
      pose proof (i_facts _ _ I _ _ Hp) as (_ & _ & _ & Hk); cbn in Hk; destruct Hk as [Hk| ->];
      [destruct k; try discriminate Hk; try match goal with w : who |- _ => destruct w; try discriminate Hk end|]
  end.

Ltac lock_pat :=
  first [ left; repeat split; (reflexivity || assumption)
        | right; left; repeat split; (reflexivity || assumption)
        | right; right; repeat split; (reflexivity || assumption) ].

Lemma pres_lock n c e s s' : inv n s -> step c e s = Some s' ->
  (forall j, lock s' = Some j -> exists p, nth_error (thr s') j = Some p /\ holder_pc p = true) /\
  (forall j p, nth_error (thr s') j = Some p -> holder_pc p = true -> lock s' = Some j).
Proof.
  intros I H.
  inv_step H; pose proof (i_lock1 _ _ I) as L1; pose proof (i_lock2 _ _ I) as L2; try (split; assumption); spawned_cases I.
  all: try (eapply lock_frame with (extra := []); [exact L1|exact L2|exact Hp|cbn; rewrite app_nil_r; reflexivity|intros ? []|cbn; lock_pat]).
  - eapply lock_frame with (extra := [Spawned GWait]); [exact L1|exact L2|exact Hp| | |].
    + cbn. apply upd_app. eapply nth_error_lt; eauto.
    + intros q [<-|[]]. reflexivity.
    + cbn. lock_pat.
Qed.

Lemma pres_lin n c e s s' : inv n s -> step c e s = Some s' ->
  lin_wf (lin s') /\ status s' = status_after (lin s').
Proof.
  intros I H. pose proof (i_wf _ _ I) as W. pose proof (i_status _ _ I) as S.
  inv_step H; cbn; try (split; assumption).
  all: rewrite <- S; rewrite ?E; cbn; repeat split; auto.
Qed.

(** global facts tying kills / spawned to the status *)
Record inv2 (s : st) : Prop := {
  j_kills : status s <> Stopped -> kills s = 0;
  j_spawned : status s = Ready -> spawned s = 0;
  j_hasCtx : status s = Ready -> hasCtx s = false;
}.

Lemma claim_in l j p b st cl : claim_ok l j p -> claims p = Some cl -> In (b, st) cl -> In (j, b, st) l.
Proof. intros (cl' & Hc & Hin) Hc' Hi. rewrite Hc in Hc'. injection Hc' as ->. auto. Qed.

Lemma pres_inv2 n c e s s' : inv n s -> inv2 s -> step c e s = Some s' -> inv2 s'.
Proof.
  intros I [K S X] H. pose proof (i_wf _ _ I) as W. pose proof (i_status _ _ I) as St.
  inv_step H; try (constructor; cbn; assumption).
  all: try (constructor; cbn; rewrite ?E in *; intros; first [congruence | apply K; congruence | apply S; congruence | apply X; congruence]).
  all: pose proof (i_facts _ _ I _ _ Hp) as (Hc & _).
  - (* SSpawnRoot *) constructor; cbn; auto. intros Hr. exfalso.
    assert (In (i, true, Ready) (lin s)) by (eapply (claim_in _ _ _ _ _ _ Hc); [reflexivity|cbn; auto]).
    rewrite St in Hr. eapply after_start_entry; eauto.
  - (* SGo *) constructor; cbn; auto. intros Hr. exfalso.
    assert (In (i, true, Ready) (lin s)) by (eapply (claim_in _ _ _ _ _ _ Hc); [reflexivity|cbn; auto]).
    rewrite St in Hr. eapply after_start_entry; eauto.
  - (* TKill *) constructor; cbn; auto. intros Hr. exfalso. apply Hr.
    assert (In (i, false, Started) (lin s)) by (eapply (claim_in _ _ _ _ _ _ Hc); [reflexivity|cbn; auto]).
    rewrite St. eapply after_eff_entry; eauto.
Qed.

Lemma pre_go_claim q : pre_go q = true -> claims q = Some [(true, Ready)].
Proof. destruct q; try discriminate; try reflexivity. destruct r; try discriminate; reflexivity. Qed.

Lemma pre_kill_claim q : pre_kill q = true -> exists cl, claims q = Some ((false, Started) :: cl).
Proof. destruct q; try discriminate; try (eexists; reflexivity). destruct r; try discriminate. eexists; reflexivity. Qed.

Lemma two_winners n s i j p q : inv n s -> nth_error (thr s) i = Some p -> nth_error (thr s) j = Some q ->
  pre_go p = true -> pre_go q = true -> i = j.
Proof.
  intros I Hp Hq Gp Gq. pose proof (i_facts _ _ I _ _ Hp) as (Cp & _). pose proof (i_facts _ _ I _ _ Hq) as (Cq & _).
  eapply winner_unique; [apply (i_wf _ _ I)| |].
  - eapply (claim_in _ _ _ _ _ _ Cp); [apply pre_go_claim; auto|cbn; auto].
  - eapply (claim_in _ _ _ _ _ _ Cq); [apply pre_go_claim; auto|cbn; auto].
Qed.

Lemma two_effs n s i j p q : inv n s -> nth_error (thr s) i = Some p -> nth_error (thr s) j = Some q ->
  pre_kill p = true -> pre_kill q = true -> i = j.
Proof.
  intros I Hp Hq Gp Gq. pose proof (i_facts _ _ I _ _ Hp) as (Cp & _). pose proof (i_facts _ _ I _ _ Hq) as (Cq & _).
  destruct (pre_kill_claim _ Gp) as (c1 & H1). destruct (pre_kill_claim _ Gq) as (c2 & H2).
  eapply eff_unique; [apply (i_wf _ _ I)| |].
  - eapply (claim_in _ _ _ _ _ _ Cp); [eauto|cbn; auto].
  - eapply (claim_in _ _ _ _ _ _ Cq); [eauto|cbn; auto].
Qed.

Lemma pres_prego n c e s s' : inv n s -> inv2 s -> step c e s = Some s' ->
  (forall j q, nth_error (thr s') j = Some q -> pre_go q = true -> spawned s' = 0) /\ spawned s' <= 1.
Proof.
  intros I I2 H. pose proof (i_prego _ _ I) as G. pose proof (i_spawned _ _ I) as S.
  inv_step H; try (split; assumption); spawned_cases I.
  all: split; [intros j q Hq Gq; thr_cases Hq; cbn in *; try discriminate; eauto|cbn; try assumption].
  - (* SCheck, Ready *) apply (j_spawned _ I2). auto.
  - (* SGo, other thread *) exfalso. assert (i = j) by (eapply two_winners; eauto). congruence.
  - rewrite (G _ _ Hp) by reflexivity. lia.
Qed.

Lemma pres_prekill n c e s s' : inv n s -> inv2 s -> step c e s = Some s' ->
  (forall j q, nth_error (thr s') j = Some q -> pre_kill q = true -> kills s' = 0) /\ kills s' <= 1.
Proof.
  intros I I2 H. pose proof (i_prekill _ _ I) as G. pose proof (i_kills _ _ I) as S.
  inv_step H; try (split; assumption); spawned_cases I.
  all: split; [intros j q Hq Gq; thr_cases Hq; cbn in *; try discriminate; eauto|cbn; try assumption].
  - (* TCheck, Started *) apply (j_kills _ I2). congruence.
  - (* TKill, other thread *) exfalso. assert (i = j) by (eapply two_effs; eauto). congruence.
  - rewrite (G _ _ Hp) by reflexivity. lia.
Qed.

Lemma pres_len n c e s s' : inv n s -> step c e s = Some s' ->
  length (thr s') = (n + N.to_nat (spawned s'))%nat.
Proof.
  intros I H. pose proof (i_len _ _ I) as L.
  inv_step H; cbn; rewrite ?length_upd; try assumption.
  rewrite app_length. cbn. lia.
Qed.

Lemma pres_created n c e s s' : inv n s -> step c e s = Some s' ->
  forall j q, nth_error (thr s') j = Some q -> (n <= j)%nat -> guard_pc q = true.
Proof.
  intros I H. pose proof (i_created _ _ I) as G. pose proof (i_len _ _ I) as L.
  inv_step H; try assumption; spawned_cases I.
  all: intros j q Hq Hn; thr_cases Hq; eauto.
  all: try (pose proof (G _ _ Hp Hn) as Hg; cbn in Hg; try discriminate Hg; cbn; try assumption; try reflexivity).
  all: try (destruct w; cbn in *; congruence).
Qed.

Ltac claim_tac Hc :=
  unfold claim_ok; eexists; split; [cbn; reflexivity|];
  let b := fresh "b" in let st := fresh "st" in let Hin := fresh "Hin" in
  intros b st Hin; cbn in Hin;
  repeat match type of Hin with
         | _ \/ _ => destruct Hin as [Hin|Hin]
         | False => destruct Hin
         end;
  try (injection Hin as <- <-);
  cbn; repeat match goal with E : status ?s = _ |- context[status ?s] => rewrite E end;
  first [ left; reflexivity
        | right; eapply (claim_in _ _ _ _ _ _ Hc); [cbn; reflexivity|cbn; tauto]
        | eapply (claim_in _ _ _ _ _ _ Hc); [cbn; reflexivity|cbn; tauto] ].

Lemma pres_facts n c e s s' : inv n s -> inv2 s -> step c e s = Some s' ->
  forall j q, nth_error (thr s') j = Some q -> tfacts s' j q.
Proof.
  intros I I2 H. pose proof (step_mono _ _ _ _ H) as M. pose proof (pres_prego _ _ _ _ _ I I2 H) as [_ Sp].
  pose proof (i_facts _ _ I) as F.
  assert (Env : thr s' = thr s -> forall j q, nth_error (thr s') j = Some q -> tfacts s' j q).
  { intros Ht j q Hq. rewrite Ht in Hq. eapply tfacts_mono; eauto. }
  inv_step H; try (apply Env; reflexivity); clear Env; spawned_cases I.
  all: intros j q Hq; thr_cases Hq; [| eapply tfacts_mono; eauto |..].
  all: try (pose proof (i_facts _ _ I _ _ Hp) as (Hc & Hg & Hr & Hx); cbn in Hg, Hr, Hx).
  all: try match goal with w : who |- _ => destruct w end.
  all: try (destruct Hc as (? & Hc & _); cbn in Hc; discriminate).
  all: try (split; [claim_tac Hc|split; [cbn; try discriminate|split; [cbn; try discriminate|cbn]]]).
  all: try exact I.
  all: try (intros; first [exact I | reflexivity | tauto | (split; [congruence|intros; discriminate]) | (apply Hr; reflexivity) | (apply Hg; reflexivity) ]).
  all: try (split; [lia|assumption]).
  all: try (split; [intros; discriminate|intros _; split; [reflexivity|exact Hx]]).
  all: try discriminate.
  all: try (intros _; split; [discriminate|apply Hg; reflexivity]).
  - intros _. split.
    + rewrite (i_status _ _ I). eapply after_start_entry; [apply (i_wf _ _ I)|].
      eapply (claim_in _ _ _ _ _ _ Hc); [reflexivity|cbn; auto].
    + rewrite (i_prego _ _ I _ _ Hp) by reflexivity. reflexivity.
Qed.

Lemma inv_step_pres n c e s s' : inv n s /\ inv2 s -> step c e s = Some s' -> inv n s' /\ inv2 s'.
Proof.
  intros [I I2] H. split; [|eapply pres_inv2; eauto].
  destruct (pres_lock _ _ _ _ _ I H). destruct (pres_lin _ _ _ _ _ I H).
  destruct (pres_prego _ _ _ _ _ I I2 H). destruct (pres_prekill _ _ _ _ _ I I2 H).
  constructor; auto.
  - eapply pres_facts; eauto.
  - eapply pres_len; eauto.
  - eapply pres_created; eauto.
Qed.

Lemma nth_map_spawned ths j q : nth_error (map Spawned ths) j = Some q -> exists k, q = Spawned k /\ nth_error ths j = Some k.
Proof. rewrite nth_error_map. destruct (nth_error ths j); cbn; intros H; [injection H as <-; eauto|discriminate]. Qed.

Lemma inv_init ths : forallb env_pc ths = true -> inv (length ths) (init ths) /\ inv2 (init ths).
Proof.
  intros He. split; [constructor|constructor]; cbn; auto; try lia; try discriminate.
  - intros j p Hq Hh. destruct (nth_map_spawned _ _ _ Hq) as (k & -> & Hk). discriminate.
  - intros j p Hq. destruct (nth_map_spawned _ _ _ Hq) as (k & -> & Hk).
    assert (Ek : env_pc k = true). { rewrite forallb_forall in He. apply He. eapply nth_error_In; eauto. }
    split; [exists []; split; [reflexivity|intros ? ? []]|].
    split; [|split; [intros; discriminate|left; auto]].
    destruct k; try discriminate.
  - rewrite map_length. lia.
  - intros j p Hq Hn. apply nth_error_lt in Hq. rewrite map_length in Hq. lia.
Qed.

Lemma run_inv n c evs s : inv n s /\ inv2 s -> inv n (run c evs s) /\ inv2 (run c evs s).
Proof.
  revert s. induction evs as [|e evs IH]; intros s I; cbn; auto.
  apply IH. unfold step_or_stay. destruct (step c e s) eqn:E; auto. eapply inv_step_pres; eauto.
Qed.

Lemma reachable_inv c s : reachable c s -> exists n, inv n s /\ inv2 s.
Proof. intros (ths & evs & He & <-). exists (length ths). apply run_inv. apply inv_init. auto. Qed.

(** ------------------------------------------------------------------ theorems *)

(** one-way status, per step and along runs (no reachability needed) *)
Lemma one_way_step c e s s' : step c e s = Some s' ->
  status s' = status s \/ (status s = Ready /\ status s' = Started) \/ (status s = Started /\ status s' = Stopped).
Proof. intros H. inv_step H; cbn; auto. Qed.

Definition st_rank (x : stat) : nat := match x with Ready => 0 | Started => 1 | Stopped => 2 end.

Lemma one_way_run c evs s : (st_rank (status s) <= st_rank (status (run c evs s)))%nat.
Proof.
  revert s. induction evs as [|e evs IH]; intros s; cbn; [lia|].
  unfold step_or_stay. destruct (step c e s) eqn:E; [|apply IH].
  etransitivity; [|apply IH]. destruct (one_way_step _ _ _ _ E) as [->|[[-> ->]|[-> ->]]]; cbn; lia.
Qed.

(** a Stop that finds the system not started changes nothing but the lock and the log *)
Lemma stop_before_start c i alt s s' w d :
  nth_error (thr s) i = Some (TCheck w d) -> status s = Ready -> step c (EStep i alt) s = Some s' ->
  status s' = Ready /\ nth_error (thr s') i = Some (TUnlock w d RNotStarted) /\ kills s' = kills s /\ ctxDone s' = ctxDone s.
Proof.
  intros Hp Hs H. cbn in H. rewrite Hp in H. cbn in H. rewrite Hs in H. injection H as <-. cbn.
  repeat split; auto. apply nth_error_upd_eq. eapply nth_error_lt; eauto.
Qed.

(** mutual exclusion *)
Lemma mutex c s i j p q : reachable c s ->
  nth_error (thr s) i = Some p -> nth_error (thr s) j = Some q -> holder_pc p = true -> holder_pc q = true -> i = j.
Proof.
  intros R Hp Hq A B. destruct (reachable_inv _ _ R) as (n & I & _).
  pose proof (i_lock2 _ _ I _ _ Hp A). pose proof (i_lock2 _ _ I _ _ Hq B). congruence.
Qed.

(** the holder of the lock is never blocked and releases it within four of its own steps (Start: the switch,
    root creation, the rest of the chain, the deferred Unlock; stop: the switch, the deferred Unlock) *)
Definition hrank (p : pc) : nat :=
  match p with SCheck => 4 | SSpawnRoot => 3 | SChain => 2 | TCheck _ _ => 2 | SUnlock _ | SUnlockFail | TUnlock _ _ _ => 1 | _ => 0 end.

Lemma holder_step c s j p : nth_error (thr s) j = Some p -> holder_pc p = true ->
  exists s1, step c (EStep j 0) s = Some s1 /\
    (lock s1 = None \/ exists p', nth_error (thr s1) j = Some p' /\ holder_pc p' = true /\ (hrank p' < hrank p)%nat).
Proof.
  intros Hp Hh. pose proof (nth_error_lt _ _ _ Hp) as Hlt.
  destruct p; try discriminate; cbn [step]; rewrite Hp; cbn [step_thread].
  - destruct (status s); eexists; (split; [reflexivity|]); right; cbn [thr goto set_thr set_check];
      rewrite nth_error_upd_eq by auto; eexists; (split; [reflexivity|split; [reflexivity|cbn; lia]]).
  - eexists; (split; [reflexivity|]); right; cbn [thr goto set_thr set_hasCtx];
      rewrite nth_error_upd_eq by auto; eexists; (split; [reflexivity|split; [reflexivity|cbn; lia]]).
  - eexists; (split; [reflexivity|]); right; cbn [thr goto set_thr set_clusterCtx];
      rewrite nth_error_upd_eq by auto; eexists; (split; [reflexivity|split; [reflexivity|cbn; lia]]).
  - destruct r; eexists; (split; [reflexivity|]); left; reflexivity.
  - eexists; (split; [reflexivity|]); left; reflexivity.
  - destruct (status s); eexists; (split; [reflexivity|]); right; cbn [thr goto set_thr set_check];
      rewrite nth_error_upd_eq by auto; eexists; (split; [reflexivity|split; [reflexivity|cbn; lia]]).
  - destruct r; eexists; (split; [reflexivity|]); left; reflexivity.
Qed.

Lemma holder_releases c j : forall n s p, (hrank p <= n)%nat -> nth_error (thr s) j = Some p -> holder_pc p = true ->
  exists k s', (1 <= k <= n)%nat /\ steps_of c j k s = Some s' /\ lock s' = None.
Proof.
  induction n as [|n IH]; intros s p Hr Hp Hh.
  - destruct p; try discriminate; cbn in Hr; lia.
  - destruct (holder_step c s j p Hp Hh) as (s1 & H1 & [Hl|(p' & Hp' & Hh' & Hlt)]).
    + exists 1%nat, s1. split; [lia|]. cbn [steps_of]. rewrite H1. auto.
    + destruct (IH s1 p') as (k & s' & Hk & Hs & Hl); auto; [lia|].
      exists (S k), s'. split; [lia|]. cbn [steps_of]. rewrite H1. auto.
Qed.

Lemma lock_released c s j : reachable c s -> lock s = Some j ->
  (exists s1, step c (EStep j 0) s = Some s1) /\
  exists k s', (1 <= k <= 4)%nat /\ steps_of c j k s = Some s' /\ lock s' = None.
Proof.
  intros R Hl. destruct (reachable_inv _ _ R) as (n & I & _).
  destruct (i_lock1 _ _ I _ Hl) as (p & Hp & Hh). split.
  - destruct (holder_step c s j p Hp Hh) as (s1 & H1 & _). eauto.
  - apply (holder_releases c j 4 s p); auto. destruct p; cbn; lia.
Qed.

(** progress: an unfinished thread can step, or waits for the lock whose holder can step, or waits for the
    environment (context cancel for the guard goroutine; leave-completed; tree-done-or-timeout) *)
Lemma progress c s i p : reachable c s -> nth_error (thr s) i = Some p -> is_done p = false ->
  (exists alt s', step c (EStep i alt) s = Some s')
  \/ (lock_pc p = true /\ exists j, j <> i /\ lock s = Some j /\ exists s', step c (EStep j 0) s = Some s')
  \/ env_wait s p.
Proof.
  intros R Hp Hd. destruct (reachable_inv _ _ R) as (n & I & _).
  pose proof (i_facts _ _ I _ _ Hp) as (_ & _ & _ & Hx).
  assert (Lk : lock_pc p = true -> (exists alt s', step c (EStep i alt) s = Some s')
           \/ (lock_pc p = true /\ exists j, j <> i /\ lock s = Some j /\ exists s', step c (EStep j 0) s = Some s')
           \/ env_wait s p).
  { intros Hl. destruct (lock s) as [j|] eqn:El.
    - right. left. split; auto. exists j. split; [|split; auto].
      + intros ->. destruct (i_lock1 _ _ I _ El) as (q & Hq & Hh). rewrite Hp in Hq. injection Hq as <-.
        destruct p; discriminate.
      + destruct (lock_released _ _ _ R El) as ((s1 & H1) & _). eauto.
    - left. exists 0. cbn [step]. rewrite Hp. destruct p; try discriminate; cbn [step_thread]; rewrite El; eauto. }
  destruct p; try discriminate; try (apply Lk; reflexivity);
    try (left; exists 0; cbn [step]; rewrite Hp; cbn [step_thread];
         repeat match goal with |- exists _, match ?x with _ => _ end = _ => destruct x end; eauto; fail).
  - (* TLeaveWait *) cbn in Hx. destruct (leaveDone s) eqn:E.
    + left. exists 0. cbn [step]. rewrite Hp. cbn [step_thread]. rewrite E. eauto.
    + right. right. cbn. auto.
  - (* TSelect *) cbn in Hx. destruct Hx as (Hk & _). destruct (guardClosed s) eqn:E.
    + left. exists 0. cbn [step]. rewrite Hp. cbn [step_thread]. rewrite E. eauto.
    + destruct (deadline <=? now s) eqn:E2.
      * left. exists 1. cbn [step]. rewrite Hp. cbn [step_thread]. rewrite E2. eauto.
      * right. right. cbn. apply N.leb_gt in E2. repeat split; auto; lia.
  - (* GWait *) destruct (ctxDone s) eqn:E.
    + left. exists 0. cbn [step]. rewrite Hp. cbn [step_thread]. rewrite E. eauto.
    + right. right. cbn. auto.
Qed.

(** ---- bounded own steps *)

Lemma own_step_rank c i alt s s' p : step c (EStep i alt) s = Some s' -> nth_error (thr s) i = Some p ->
  exists p', nth_error (thr s') i = Some p' /\ (rank p' < rank p)%nat /\
             (forall j, j <> i -> (j < length (thr s))%nat -> nth_error (thr s') j = nth_error (thr s) j).
Proof.
  intros H Hp. pose proof (nth_error_lt _ _ _ Hp) as Hlt. cbn [step] in H. rewrite Hp in H.
  destruct p; cbn [step_thread] in H;
    repeat match type of H with
           | match ?x with _ => _ end = Some _ => let E := fresh "E" in destruct x eqn:E; try discriminate
           | (if ?x then _ else _) = Some _ => let E := fresh "E" in destruct x eqn:E; try discriminate
           end; try discriminate; injection H as <-; cbn [thr goto set_thr set_lock set_check set_hasCtx set_clusterCtx set_ctxDone
             set_kill set_guardClosed set_leaveReq set_leaveDone set_schedStopped set_now set_skipped set_spawned].
  all: try (eexists; split; [apply nth_error_upd_eq; auto|split; [cbn; try destruct w; cbn; lia|intros; apply nth_error_upd_neq; auto]]).
  (* SGo *)
  rewrite upd_app by auto. eexists. split; [|split].
  - rewrite nth_error_app1 by (rewrite length_upd; auto). apply nth_error_upd_eq; auto.
  - cbn. lia.
  - intros j Hn Hj. rewrite nth_error_app1 by (rewrite length_upd; auto). apply nth_error_upd_neq; auto.
Qed.

Lemma env_step_thr c e s s' : step c e s = Some s' -> (forall i alt, e <> EStep i alt) -> thr s' = thr s.
Proof. intros H Hn. inv_step H; try reflexivity; exfalso; eapply Hn; reflexivity. Qed.

Lemma sum_upd (l : list pc) i p p' : nth_error l i = Some p ->
  (fold_right Nat.add 0 (map rank (upd l i p')) + rank p = fold_right Nat.add 0 (map rank l) + rank p')%nat.
Proof. revert i. induction l as [|a l IH]; intros [|i] H; cbn in *; try discriminate. - injection H as ->. lia. - specialize (IH _ H). lia. Qed.

Lemma thread_step_total c i alt s s' : step c (EStep i alt) s = Some s' -> (total_rank s' < total_rank s)%nat.
Proof.
  intros H. unfold total_rank. cbn [step] in H. destruct (nth_error (thr s) i) as [p|] eqn:Hp; [|discriminate].
  pose proof (nth_error_lt _ _ _ Hp) as Hlt.
  destruct p; cbn [step_thread] in H;
    repeat match type of H with
           | match ?x with _ => _ end = Some _ => let E := fresh "E" in destruct x eqn:E; try discriminate
           | (if ?x then _ else _) = Some _ => let E := fresh "E" in destruct x eqn:E; try discriminate
           end; try discriminate; injection H as <-; cbn [thr goto set_thr set_lock set_check set_hasCtx set_clusterCtx set_ctxDone
             set_kill set_guardClosed set_leaveReq set_leaveDone set_schedStopped set_now set_skipped set_spawned].
  all: try (match goal with |- context[upd ?l ?i' ?q] => pose proof (sum_upd l i' _ q Hp) as Hs end; cbn in Hs |- *; try destruct w; cbn in Hs |- *; lia).
  rewrite upd_app by auto. rewrite map_app, fold_right_app. cbn.
  pose proof (sum_upd (thr s) i _ (Done KStart RNil) Hp) as Hs. cbn in Hs.
  assert (forall l a, fold_right Nat.add a l = (fold_right Nat.add 0 l + a)%nat) as Hf.
  { induction l; intros; cbn; [lia|]. rewrite IHl. lia. }
  rewrite Hf. lia.
Qed.

Lemma steps_bounded c evs s : (thread_steps c evs s <= total_rank s)%nat.
Proof.
  revert s. induction evs as [|e evs IH]; intros s; cbn; [lia|].
  destruct (step c e s) as [s'|] eqn:E; [|apply IH].
  destruct e.
  - pose proof (thread_step_total _ _ _ _ _ E). specialize (IH s'). lia.
  - assert (thr s' = thr s) by (eapply env_step_thr; eauto; intros; discriminate). specialize (IH s'). unfold total_rank in *. rewrite H in IH. lia.
  - assert (thr s' = thr s) by (eapply env_step_thr; eauto; intros; discriminate). specialize (IH s'). unfold total_rank in *. rewrite H in IH. lia.
  - assert (thr s' = thr s) by (eapply env_step_thr; eauto; intros; discriminate). specialize (IH s'). unfold total_rank in *. rewrite H in IH. lia.
Qed.

Lemma total_rank_init ths : forallb env_pc ths = true -> (total_rank (init ths) <= 20 * length ths)%nat.
Proof.
  unfold total_rank. cbn. induction ths as [|p l IH]; cbn; [lia|]. intros H. apply andb_prop in H as [Hp Hl].
  specialize (IH Hl). destruct p; try discriminate; try (destruct w; try discriminate); cbn; lia.
Qed.

(** ---- quiescent states *)

Lemma set_now_same s : set_now s (now s + 0) = s.
Proof. destruct s. unfold set_now. cbn. rewrite N.add_0_r. reflexivity. Qed.

Lemma step_now_indep c i alt s t p : nth_error (thr s) i = Some p ->
  (forall w dl, p <> TSelect w dl) ->
  (exists s', step c (EStep i alt) s = Some s') -> exists s', step c (EStep i alt) (set_now s t) = Some s'.
Proof.
  intros Hp Hn (s' & H). cbn [step] in *. cbn [thr set_now]. rewrite Hp in *.
  destruct p; cbn [step_thread] in *; cbn [lock status clusterCtx leaveDone hasCtx guardClosed ctxDone set_now];
    repeat match type of H with
           | match ?x with _ => _ end = Some _ => destruct x; try discriminate
           | (if ?x then _ else _) = Some _ => destruct x; try discriminate
           end; eauto.
  exfalso. eapply Hn. reflexivity.
Qed.

Lemma quiescent_final c s : reachable c s -> quiescent c s ->
  forall i p, nth_error (thr s) i = Some p ->
    is_done p = true \/ (p = GWait /\ ctxDone s = false) \/ (exists w d, p = TLeaveWait w d /\ leaveDone s = false /\ leaveReq s = true).
Proof.
  intros R Q i p Hp. destruct (is_done p) eqn:Hd; auto. right.
  destruct (progress _ _ _ _ R Hp Hd) as [(alt & s' & H)|[(Hl & j & Hn & Hlk & s' & H)|He]].
  - exfalso. specialize (Q i alt 0). rewrite set_now_same in Q. congruence.
  - exfalso. specialize (Q j 0 0). rewrite set_now_same in Q. congruence.
  - destruct p; cbn in He; try tauto.
    + right. exists w, d. tauto.
    + exfalso. destruct He as (Hg & Hlt & Hk). specialize (Q i 1 (deadline - now s)).
      cbn [step thr set_now] in Q. rewrite Hp in Q. cbn [step_thread now set_now] in Q.
      replace (deadline <=? now s + (deadline - now s)) with true in Q by (symmetry; apply N.leb_le; lia). discriminate.
Qed.

(** ---- return values as a function of the linearisation order *)

Lemma lin_ok c s : reachable c s -> lin_wf (lin s) /\ status s = status_after (lin s).
Proof. intros R. destruct (reachable_inv _ _ R) as (n & I & _). split; [apply (i_wf _ _ I)|apply (i_status _ _ I)]. Qed.

Lemma returns c s i k r : reachable c s -> nth_error (thr s) i = Some (Done k r) ->
  match k with
  | KStart => exists seen, In (i, true, seen) (lin s) /\ start_res_ok seen r /\
                (forall inner, r = RStartFailed inner -> exists seen2, In (i, false, seen2) (lin s) /\ stop_res_ok seen2 inner)
  | KStop | KGuard => exists seen, In (i, false, seen) (lin s) /\ stop_res_ok seen r
  | KCancel => True
  end.
Proof.
  intros R Hp. destruct (reachable_inv _ _ R) as (n & I & _).
  pose proof (i_facts _ _ I _ _ Hp) as ((cl & Hc & Hin) & _).
  destruct k; auto.
  - destruct r; cbn in Hc; try discriminate; try (injection Hc as <-).
    + exists Ready. split; [apply Hin; cbn; auto|]. split; [cbn; auto|intros; discriminate].
    + exists Started. split; [apply Hin; cbn; auto|]. split; [cbn; auto|intros; discriminate].
    + exists Stopped. split; [apply Hin; cbn; auto|]. split; [cbn; auto|intros; discriminate].
    + exists Ready. destruct (seen_stop r) as [st|] eqn:Es; [|discriminate]. cbn in Hc. injection Hc as <-.
      split; [apply Hin; cbn; auto|]. split; [cbn; eauto|].
      intros inner [= <-]. exists st. split; [apply Hin; cbn; auto|].
      destruct r; cbn in Es; try discriminate; injection Es as <-; cbn; auto.
  - destruct r; cbn in Hc; try discriminate; injection Hc as <-; eexists; (split; [apply Hin; cbn; left; reflexivity|cbn; auto]).
  - destruct r; cbn in Hc; try discriminate; injection Hc as <-; eexists; (split; [apply Hin; cbn; left; reflexivity|cbn; auto]).
Qed.

Lemma first_start_unique c s i j : reachable c s -> In (i, true, Ready) (lin s) -> In (j, true, Ready) (lin s) -> i = j.
Proof. intros R. destruct (lin_ok _ _ R). eapply winner_unique; eauto. Qed.

Lemma effective_stop_unique c s i j : reachable c s -> In (i, false, Started) (lin s) -> In (j, false, Started) (lin s) -> i = j.
Proof. intros R. destruct (lin_ok _ _ R). eapply eff_unique; eauto. Qed.

Lemma select_branches c s i w dl : nth_error (thr s) i = Some (TSelect w dl) ->
  ((exists s', step c (EStep i 0) s = Some s') <-> guardClosed s = true) /\
  ((exists s', step c (EStep i 1) s = Some s') <-> dl <= now s).
Proof.
  intros Hp. cbn [step]. rewrite Hp. cbn [step_thread]. split; split.
  - intros (s' & H). destruct (guardClosed s); [auto|discriminate].
  - intros ->. eauto.
  - intros (s' & H). destruct (dl <=? now s) eqn:E; [apply N.leb_le; auto|discriminate].
  - intros H. apply N.leb_le in H. rewrite H. eauto.
Qed.

(** ---- effects of a stop() that returned nil, whoever ran it *)

Lemma kills_le_1 c s : reachable c s -> kills s <= 1.
Proof. intros R. destruct (reachable_inv _ _ R) as (n & I & _). apply (i_kills _ _ I). Qed.

Lemma stop_effect c s i k r : reachable c s -> nth_error (thr s) i = Some (Done k r) -> stop_nil k r = true ->
  status s = Stopped /\ schedStopped s = true /\ effect s.
Proof.
  intros R Hp Hn. destruct (reachable_inv _ _ R) as (n & I & _). pose proof (i_kills _ _ I).
  pose proof (i_facts _ _ I _ _ Hp) as (Hc & _ & _ & Hg & Hx). destruct (Hx Hn) as (Hs & He).
  split; [|split; auto].
  - rewrite (i_status _ _ I). destruct Hc as (cl & Hc & Hin).
    destruct k, r; try discriminate; try (destruct r; discriminate).
    + destruct r; try discriminate. cbn in Hc. injection Hc as <-. eapply after_eff_entry; [apply (i_wf _ _ I)|apply Hin; cbn; auto].
    + cbn in Hc. injection Hc as <-. eapply after_eff_entry; [apply (i_wf _ _ I)|apply Hin; cbn; auto].
    + cbn in Hc. injection Hc as <-. eapply after_eff_entry; [apply (i_wf _ _ I)|apply Hin; cbn; auto].
  - destruct He as [He|(?&?&?&?)]; [left; auto|right; repeat split; auto; lia].
Qed.

(** the stop that timed out has issued the kill and cancelled the context *)
Lemma stop_failed_effect c s i w dl : reachable c s -> nth_error (thr s) i = Some (TSelect w dl) ->
  kills s = 1 /\ ctxDone s = true /\ hasCtx s = true /\ status s = Stopped.
Proof.
  intros R Hp. destruct (reachable_inv _ _ R) as (n & I & _). pose proof (i_kills _ _ I).
  pose proof (i_facts _ _ I _ _ Hp) as ((cl & Hc & Hin) & _ & _ & Hk & Hd & Hh).
  repeat split; auto; try lia. rewrite (i_status _ _ I). cbn in Hc. injection Hc as <-.
  eapply after_eff_entry; [apply (i_wf _ _ I)|apply Hin; cbn; auto].
Qed.

(** ---- skipping the kill: only inside the window of the Start that got through *)

Lemma hasCtx_stable c evs s : hasCtx s = true -> hasCtx (run c evs s) = true /\ skipped (run c evs s) = skipped s.
Proof.
  revert s. induction evs as [|e evs IH]; intros s Hh; cbn; auto.
  unfold step_or_stay. destruct (step c e s) as [s'|] eqn:Hst; [|apply IH; auto].
  assert (hasCtx s' = true /\ skipped s' = skipped s) as [A B].
  { inv_step Hst; split; cbn; congruence. }
  destruct (IH s' A) as [C D]. split; [exact C|rewrite <- B; exact D].
Qed.

Lemma start_returned_hasCtx c s i : reachable c s -> nth_error (thr s) i = Some (Done KStart RNil) -> hasCtx s = true.
Proof.
  intros R Hp. destruct (reachable_inv _ _ R) as (n & I & _).
  pose proof (i_facts _ _ I _ _ Hp) as (_ & _ & Hx & _). apply Hx. reflexivity.
Qed.

(** ---- the kill is skipped only when root creation failed *)

(** Start's failure path: the chain failed (root creation or later), Start unlocks and runs s.Stop itself *)
Definition failing (p : pc) : bool :=
  match p with
  | SUnlockFail
  | TLock ByStart _ | TCheck ByStart _ | TUnlock ByStart _ _ | TReadCluster ByStart _ | TLeaveReq ByStart _ | TLeaveWait ByStart _
  | TReadCtx ByStart _ | TKill ByStart _ | TCancel ByStart _ | TSelect ByStart _ | TSchedStop ByStart | Done KStart (RStartFailed _) => true
  | _ => false
  end.
(** the Start that got through, still inside its critical section *)
Definition start_hold (p : pc) : bool :=
  match p with SSpawnRoot | SChain | SUnlock RNil | SUnlockFail => true | _ => false end.

Lemma failing_claim l j p : failing p = true -> claim_ok l j p -> In (j, true, Ready) l.
Proof.
  intros Hf (cl & Hc & Hin). destruct p; try discriminate; try (destruct w; try discriminate); cbn in Hc;
    try (injection Hc as <-; apply Hin; cbn; tauto).
  - destruct (seen_check r); [|discriminate]. cbn in Hc. injection Hc as <-. apply Hin. cbn. tauto.
  - destruct k; try discriminate. destruct r; try discriminate. destruct (seen_stop r); [|discriminate].
    cbn in Hc. injection Hc as <-. apply Hin. cbn. tauto.
Qed.

Lemma start_hold_claim l j p : start_hold p = true -> claim_ok l j p -> In (j, true, Ready) l.
Proof.
  intros Hf (cl & Hc & Hin). destruct p; try discriminate; cbn in Hc; try (injection Hc as <-; apply Hin; cbn; tauto).
  destruct r; try discriminate. cbn in Hc. injection Hc as <-. apply Hin. cbn. tauto.
Qed.

Record inv3 (s : st) : Prop := {
  k_hold : forall i p, nth_error (thr s) i = Some p -> start_hold p = true -> status s = Started;
  k_root : status s <> Ready -> hasCtx s = false ->
           exists i p, nth_error (thr s) i = Some p /\ (p = SSpawnRoot \/ failing p = true);
  k_skip : skipped s = true -> hasCtx s = false /\ exists i p, nth_error (thr s) i = Some p /\ failing p = true;
  k_kills : hasCtx s = false -> kills s = 0;
}.

Lemma inv3_init ths : inv3 (init ths).
Proof.
  constructor; cbn; try congruence.
  intros i p Hq. destruct (nth_map_spawned _ _ _ Hq) as (k & -> & _). discriminate.
Qed.
(** ---- cancel = stop; goroutines *)

Lemma eff_exists l : lin_wf l -> status_after l = Stopped -> exists j, In (j, false, Started) l.
Proof.
  induction l as [|[[a b] c0] l IH]; cbn; [discriminate|]. intros [Hs Hw] H.
  destruct (status_after l) eqn:E.
  - destruct b; discriminate.
  - destruct b; [discriminate|]. subst. exists a. auto.
  - destruct (IH Hw eq_refl) as (j & Hj). eauto.
Qed.

Lemma guard_done_kind p : guard_pc p = true -> is_done p = true -> exists r, p = Done KGuard r.
Proof. intros Hg Hd. destruct p; try discriminate Hd. destruct k; try discriminate Hg. eauto. Qed.

Lemma all_done c s : reachable c s -> quiescent c s -> ctxDone s = true -> (leaveReq s = true -> leaveDone s = true) ->
  forall i p, nth_error (thr s) i = Some p -> is_done p = true.
Proof.
  intros R Q Hc Hl i p Hp. destruct (quiescent_final _ _ R Q _ _ Hp) as [H|[[_ H]|(w & d & _ & H & H2)]]; auto; [congruence|specialize (Hl H2); congruence].
Qed.

Lemma cancel_stops c s g p : reachable c s -> quiescent c s -> ctxDone s = true -> (leaveReq s = true -> leaveDone s = true) ->
  nth_error (thr s) g = Some p -> guard_pc p = true ->
  status s = Stopped /\ (exists j, In (j, false, Started) (lin s)) /\ exists r, p = Done KGuard r /\ r <> RNotStarted.
Proof.
  intros R Q Hc Hl Hp Hg. pose proof (all_done _ _ R Q Hc Hl _ _ Hp) as Hd.
  destruct (guard_done_kind _ Hg Hd) as (r & ->). destruct (reachable_inv _ _ R) as (n & I & _).
  pose proof (i_facts _ _ I _ _ Hp) as ((cl & Hcl & Hin) & _ & _ & Hr & _). specialize (Hr eq_refl).
  assert (St : status s = Stopped).
  { rewrite (i_status _ _ I). destruct r; cbn in Hcl; try discriminate; try congruence; injection Hcl as <-;
      (eapply after_stop_entry; [apply (i_wf _ _ I)|apply Hin; cbn; left; reflexivity|discriminate]). }
  split; auto. split; [|eauto]. apply eff_exists; [apply (i_wf _ _ I)|]. rewrite <- (i_status _ _ I). auto.
Qed.

Lemma created c ths evs : forallb env_pc ths = true ->
  let s := run c evs (init ths) in
  length (thr s) = (length ths + N.to_nat (spawned s))%nat /\ spawned s <= 1 /\
  forall j p, nth_error (thr s) j = Some p -> (length ths <= j)%nat -> guard_pc p = true.
Proof.
  intros He s. destruct (run_inv (length ths) c evs (init ths) (inv_init ths He)) as [I _]. fold s in I.
  split; [apply (i_len _ _ I)|]. split; [apply (i_spawned _ _ I)|apply (i_created _ _ I)].
Qed.

Lemma termination c ths evs : forallb env_pc ths = true -> (thread_steps c evs (init ths) <= 20 * length ths)%nat.
Proof. intros He. etransitivity; [apply steps_bounded|apply total_rank_init; auto]. Qed.

Lemma reachable_run c ths evs : forallb env_pc ths = true -> reachable c (run c evs (init ths)).
Proof. intros He. exists ths, evs. auto. Qed.

Lemma reachable_continue c s evs : reachable c s -> reachable c (run c evs s).
Proof.
  intros (ths & evs0 & He & <-). exists ths, (evs0 ++ evs). split; auto. unfold run. rewrite fold_left_app. reflexivity.
Qed.



(** ---- preservation of inv3 *)

Lemma pres_hold n c e s s' : inv n s -> inv3 s -> step c e s = Some s' ->
  forall j q, nth_error (thr s') j = Some q -> start_hold q = true -> status s' = Started.
Proof.
  intros I K H. pose proof (k_hold _ K) as G. pose proof (i_lock2 _ _ I) as L2.
  inv_step H; try exact G; spawned_cases I.
  all: intros j q Hq Gq; thr_cases Hq; cbn in *; try discriminate; eauto.
  (* the status moved: the other thread would hold the lock too *)
  all: try (assert (Hh : holder_pc q = true) by (destruct q; try discriminate; reflexivity);
            pose proof (L2 _ _ Hq Hh) as A; pose proof (L2 _ _ Hp eq_refl) as B; congruence).
Qed.

Lemma pres_kkills n c e s s' : inv n s -> inv3 s -> step c e s = Some s' -> hasCtx s' = false -> kills s' = 0.
Proof.
  intros I K H. pose proof (k_kills _ K) as G.
  inv_step H; try exact G; cbn; try congruence; auto.
  pose proof (i_facts _ _ I _ _ Hp) as (_ & _ & _ & Hx). cbn in Hx. congruence.
Qed.

(** an untouched witness thread is still there after a step of thread i *)
Lemma witness_other (P : pc -> Prop) l i x e :
  (exists j p, nth_error l j = Some p /\ P p /\ j <> i) ->
  exists j p, nth_error (upd l i x ++ e) j = Some p /\ P p.
Proof.
  intros (j & p & Hj & HP & Hn). exists j, p. split; auto.
  rewrite nth_error_app1 by (rewrite length_upd; eapply nth_error_lt; eauto). rewrite nth_error_upd_neq; auto.
Qed.

Lemma witness_self (P : pc -> Prop) l i p0 x e :
  nth_error l i = Some p0 -> P x -> exists j p, nth_error (upd l i x ++ e) j = Some p /\ P p.
Proof.
  intros Hi HP. exists i, x. split; auto.
  rewrite nth_error_app1 by (rewrite length_upd; eapply nth_error_lt; eauto). apply nth_error_upd_eq. eapply nth_error_lt; eauto.
Qed.

Lemma pres_root n c e s s' : inv n s -> inv3 s -> step c e s = Some s' ->
  status s' <> Ready -> hasCtx s' = false ->
  exists i p, nth_error (thr s') i = Some p /\ (p = SSpawnRoot \/ failing p = true).
Proof.
  intros I K H. pose proof (k_root _ K) as G.
  inv_step H; try exact G.
  all: cbn [status hasCtx thr goto set_thr set_lock set_check set_hasCtx set_clusterCtx set_ctxDone
             set_kill set_guardClosed set_leaveReq set_leaveDone set_schedStopped set_now set_skipped set_spawned].
  all: try (intros; discriminate).
  all: try (intros A; congruence).
  all: try (intros A B; discriminate B).
  all: intros A B.
  all: assert (Hlt := nth_error_lt _ _ _ Hp); rewrite ?upd_app by exact Hlt.
  all: first
    [ exists i; eexists; split;
      [ first [apply nth_error_upd_eq; exact Hlt | rewrite nth_error_app1 by (rewrite length_upd; exact Hlt); apply nth_error_upd_eq; exact Hlt]
      | first [left; reflexivity | right; reflexivity] ]
    | destruct G as (j & q & Hq & Hw); [first [exact A | discriminate | congruence] | first [exact B | reflexivity] |];
      destruct (Nat.eq_dec j i) as [->|Hn];
      [ rewrite Hp in Hq; injection Hq as <-; destruct Hw as [Hw|Hw]; try discriminate Hw;
        try match goal with w : who |- _ => destruct w; try discriminate Hw end;
        try (exists i; eexists; split;
        [ first [apply nth_error_upd_eq; exact Hlt | rewrite nth_error_app1 by (rewrite length_upd; exact Hlt); apply nth_error_upd_eq; exact Hlt]
        | first [left; reflexivity | right; reflexivity] ])
      | exists j, q; split; [|exact Hw];
        first [rewrite nth_error_upd_neq by congruence; exact Hq
              | rewrite nth_error_app1 by (rewrite length_upd; eapply nth_error_lt; eauto); rewrite nth_error_upd_neq by congruence; exact Hq] ] ].
Qed.

Lemma pres_skip n c e s s' : inv n s -> inv3 s -> step c e s = Some s' ->
  skipped s' = true -> hasCtx s' = false /\ exists i p, nth_error (thr s') i = Some p /\ failing p = true.
Proof.
  intros I K H. pose proof (k_skip _ K) as G.
  assert (Env : thr s' = thr s -> hasCtx s' = hasCtx s -> skipped s' = skipped s ->
                skipped s' = true -> hasCtx s' = false /\ exists i p, nth_error (thr s') i = Some p /\ failing p = true).
  { intros -> -> ->. exact G. }
  inv_step H; try (apply Env; reflexivity); clear Env.
  all: cbn [skipped hasCtx thr goto set_thr set_lock set_check set_hasCtx set_clusterCtx set_ctxDone
             set_kill set_guardClosed set_leaveReq set_leaveDone set_schedStopped set_now set_skipped set_spawned].
  all: assert (Hlt := nth_error_lt _ _ _ Hp); rewrite ?upd_app by exact Hlt.
  (* skipped and hasCtx unchanged: move the witness *)
  all: try (intros A; destruct (G A) as (B & j & q & Hq & Hw); split; [first [exact B | congruence]|];
      destruct (Nat.eq_dec j i) as [->|Hn];
      [ rewrite Hp in Hq; injection Hq as <-; try discriminate Hw;
        try match goal with w : who |- _ => destruct w; try discriminate Hw end;
        try (exists i; eexists; split;
        [ first [apply nth_error_upd_eq; exact Hlt | rewrite nth_error_app1 by (rewrite length_upd; exact Hlt); apply nth_error_upd_eq; exact Hlt]
        | reflexivity ])
      | exists j, q; split; [|exact Hw];
        first [rewrite nth_error_upd_neq by congruence; exact Hq
              | rewrite nth_error_app1 by (rewrite length_upd; eapply nth_error_lt; eauto); rewrite nth_error_upd_neq by congruence; exact Hq] ]; fail).
  - (* SSpawnRoot succeeds although a stop skipped the kill: impossible, the failing thread would be this one *)
    intros A. exfalso. destruct (G A) as (_ & j & q & Hq & Hw).
    pose proof (i_facts _ _ I _ _ Hp) as (Ci & _). pose proof (i_facts _ _ I _ _ Hq) as (Cj & _).
    assert (i = j).
    { eapply winner_unique; [apply (i_wf _ _ I)| |].
      - eapply (claim_in _ _ _ _ _ _ Ci); [reflexivity|cbn; auto].
      - eapply failing_claim; eauto. }
    subst. rewrite Hp in Hq. injection Hq as <-. discriminate.
  - (* TReadCtx reads nil *)
    intros _. split; [assumption|].
    pose proof (i_facts _ _ I _ _ Hp) as ((cl & Hc & Hin) & _). cbn in Hc. injection Hc as <-.
    assert (St : status s = Stopped).
    { rewrite (i_status _ _ I). eapply after_eff_entry; [apply (i_wf _ _ I)|apply Hin; cbn; auto]. }
    destruct (k_root _ K) as (j & q & Hq & [->|Hw]); [congruence|assumption| |].
    + pose proof (k_hold _ K _ _ Hq eq_refl). congruence.
    + destruct (Nat.eq_dec j i) as [->|Hn].
      * rewrite Hp in Hq. injection Hq as <-. exists i. eexists. split; [apply nth_error_upd_eq; exact Hlt|].
        destruct w; try discriminate Hw; reflexivity.
      * exists j, q. split; [|exact Hw]. rewrite nth_error_upd_neq by congruence. exact Hq.
Qed.

Lemma inv3_step n c e s s' : inv n s -> inv2 s -> inv3 s -> step c e s = Some s' -> inv3 s'.
Proof.
  intros I I2 K H. constructor.
  - eapply pres_hold; eauto.
  - eapply pres_root; eauto.
  - eapply pres_skip; eauto.
  - eapply pres_kkills; eauto.
Qed.

Lemma run_inv3 n c evs s : inv n s /\ inv2 s -> inv3 s -> inv3 (run c evs s).
Proof.
  revert s. induction evs as [|e evs IH]; intros s I K; cbn; auto.
  unfold step_or_stay. destruct (step c e s) eqn:Hst; [|apply IH; auto].
  apply IH; [eapply inv_step_pres; eauto|destruct I; eapply inv3_step; eauto].
Qed.

Lemma reachable_inv3 c s : reachable c s -> inv3 s.
Proof. intros (ths & evs & He & <-). eapply run_inv3; [apply inv_init; auto|apply inv3_init]. Qed.

(** ---- Stop terminates the system *)

Lemma skip_only_if_root_failed c s : reachable c s -> skipped s = true ->
  hasCtx s = false /\ kills s = 0 /\ exists i p, nth_error (thr s) i = Some p /\ failing p = true.
Proof.
  intros R Hs. pose proof (reachable_inv3 _ _ R) as K. destruct (k_skip _ K Hs) as (A & B).
  split; auto. split; auto. apply (k_kills _ K A).
Qed.

Lemma root_nil_only_in_start_or_failed c s : reachable c s -> status s <> Ready -> hasCtx s = false ->
  exists i p, nth_error (thr s) i = Some p /\
    ((p = SSpawnRoot /\ lock s = Some i /\ status s = Started) \/ failing p = true).
Proof.
  intros R A B. pose proof (reachable_inv3 _ _ R) as K. destruct (reachable_inv _ _ R) as (n & I & _).
  destruct (k_root _ K A B) as (i & p & Hp & [->|Hf]); exists i; eexists; (split; [exact Hp|]).
  - left. split; auto. split; [apply (i_lock2 _ _ I _ _ Hp eq_refl)|apply (k_hold _ K _ _ Hp eq_refl)].
  - right. exact Hf.
Qed.

Lemma start_holds_lock c s i p : reachable c s -> nth_error (thr s) i = Some p -> start_hold p = true ->
  lock s = Some i /\ status s = Started.
Proof.
  intros R Hp Hh. pose proof (reachable_inv3 _ _ R) as K. destruct (reachable_inv _ _ R) as (n & I & _).
  split; [|apply (k_hold _ K _ _ Hp Hh)]. apply (i_lock2 _ _ I _ _ Hp). destruct p; try discriminate; reflexivity.
Qed.

Lemma stop_terminates c s i k r : reachable c s -> nth_error (thr s) i = Some (Done k r) -> stop_nil k r = true ->
  hasCtx s = true ->
  status s = Stopped /\ schedStopped s = true /\ kills s = 1 /\ guardClosed s = true /\ ctxDone s = true.
Proof.
  intros R Hp Hn Hc. destruct (stop_effect _ _ _ _ _ R Hp Hn) as (A & B & [Hs|(C & D & E & F)]).
  - destruct (skip_only_if_root_failed _ _ R Hs) as (G & _). congruence.
  - auto.
Qed.

Lemma stop_terminates_after_start c s i k r i0 : reachable c s ->
  nth_error (thr s) i0 = Some (Done KStart RNil) ->
  nth_error (thr s) i = Some (Done k r) -> stop_nil k r = true ->
  status s = Stopped /\ schedStopped s = true /\ kills s = 1 /\ guardClosed s = true /\ ctxDone s = true.
Proof. intros R H0 Hp Hn. eapply stop_terminates; eauto. eapply start_returned_hasCtx; eauto. Qed.

Lemma stop_effect_full c s i k r : reachable c s -> nth_error (thr s) i = Some (Done k r) -> stop_nil k r = true ->
  status s = Stopped /\ schedStopped s = true /\
  ((hasCtx s = true /\ kills s = 1 /\ guardClosed s = true /\ ctxDone s = true)
   \/ (hasCtx s = false /\ kills s = 0 /\ skipped s = true /\ exists j p, nth_error (thr s) j = Some p /\ failing p = true)).
Proof.
  intros R Hp Hn. destruct (stop_effect _ _ _ _ _ R Hp Hn) as (A & B & [Hs|(C & D & E & F)]).
  - destruct (skip_only_if_root_failed _ _ R Hs) as (G & H & J). split; [exact A|]. split; [exact B|]. right. repeat split; assumption.
  - split; [exact A|]. split; [exact B|]. left. repeat split; assumption.
Qed.

