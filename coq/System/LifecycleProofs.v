(** Proofs about the Start/Stop micro-step model (System/Lifecycle.v): inductive invariants over all thread
    populations and all event sequences. *)
From Coq Require Import List NArith Bool Lia Arith.
From Coq Require Import ZifyN ZifyNat ZifyBool.
From Vivid Require Import System.Lifecycle.
Import ListNotations.
Local Open Scope N_scope.

(** ------------------------------------------------------------------ lists *)

Lemma nth_error_upd_eq {A} (l : list A) i x : (i < length l)%nat -> nth_error (upd l i x) i = Some x.
Proof. revert i. induction l; intros [|i] H; cbn in *; try lia; auto. apply IHl. lia. Qed.

Lemma nth_error_upd_neq {A} (l : list A) i j x : i <> j -> nth_error (upd l i x) j = nth_error l j.
Proof. revert i j. induction l; intros [|i] [|j] H; cbn; auto; try congruence. Qed.

Lemma length_upd {A} (l : list A) i x : length (upd l i x) = length l.
Proof. revert i. induction l; intros [|i]; cbn; auto. Qed.

Lemma nth_error_lt {A} (l : list A) i x : nth_error l i = Some x -> (i < length l)%nat.
Proof. intros H. apply nth_error_Some. congruence. Qed.

(** a thread of the updated (and possibly extended) list is the moved thread, an untouched one, or the new one *)
Lemma nth_upd_cases {A} (l : list A) i x j q :
  (i < length l)%nat ->
  nth_error (upd l i x) j = Some q -> (j = i /\ q = x) \/ (j <> i /\ nth_error l j = Some q).
Proof.
  intros Hi H. destruct (Nat.eq_dec j i) as [->|Hn].
  - rewrite nth_error_upd_eq in H by auto. left. split; congruence.
  - rewrite nth_error_upd_neq in H by auto. right. auto.
Qed.

Lemma nth_app_cases {A} (l : list A) y j q :
  nth_error (l ++ [y]) j = Some q -> nth_error l j = Some q \/ (j = length l /\ q = y).
Proof.
  intros H. destruct (Nat.lt_ge_cases j (length l)).
  - rewrite nth_error_app1 in H by auto. auto.
  - rewrite nth_error_app2 in H by auto. destruct (j - length l)%nat eqn:E.
    + cbn in H. right. split; [lia|congruence].
    + cbn in H. destruct n; discriminate.
Qed.

(** ------------------------------------------------------------------ the linearisation log *)

Lemma next_status_not_ready s k : s <> Ready -> next_status s k <> Ready.
Proof. destruct s, k; cbn; congruence. Qed.

Lemma next_status_stopped k : next_status Stopped k = Stopped.
Proof. destruct k; reflexivity. Qed.

Lemma after_start_entry l j st : lin_wf l -> In (j, true, st) l -> status_after l <> Ready.
Proof.
  induction l as [|[[a b] c] l IH]; cbn; [tauto|]. intros [Hs Hw] [He|Hin].
  - injection He as -> -> ->. destruct (status_after l); cbn; congruence.
  - apply next_status_not_ready. auto.
Qed.

Lemma after_eff_entry l j : lin_wf l -> In (j, false, Started) l -> status_after l = Stopped.
Proof.
  induction l as [|[[a b] c] l IH]; cbn; [tauto|]. intros [Hs Hw] [He|Hin].
  - injection He as -> -> ->. rewrite <- Hs. reflexivity.
  - rewrite IH by auto. apply next_status_stopped.
Qed.

Lemma after_stop_entry l j st : lin_wf l -> In (j, false, st) l -> st <> Ready -> status_after l = Stopped.
Proof.
  induction l as [|[[a b] c] l IH]; cbn; [tauto|]. intros [Hs Hw] [He|Hin] Hn.
  - injection He as -> -> ->. destruct (status_after l); cbn; congruence.
  - rewrite IH by auto. apply next_status_stopped.
Qed.

(** at most one Start sees Ready, at most one stop sees Started *)
Lemma winner_unique l i j : lin_wf l -> In (i, true, Ready) l -> In (j, true, Ready) l -> i = j.
Proof.
  induction l as [|[[a b] c] l IH]; cbn; [tauto|]. intros [Hs Hw] [He|Hin] [He'|Hin']; auto.
  - congruence.
  - injection He as -> -> ->. exfalso. eapply after_start_entry; eauto.
  - injection He' as -> -> ->. exfalso. eapply after_start_entry; eauto.
Qed.

Lemma eff_unique l i j : lin_wf l -> In (i, false, Started) l -> In (j, false, Started) l -> i = j.
Proof.
  induction l as [|[[a b] c] l IH]; cbn; [tauto|]. intros [Hs Hw] [He|Hin] [He'|Hin']; auto.
  - congruence.
  - injection He as -> -> ->. rewrite (after_eff_entry l j) in Hs by auto. discriminate.
  - injection He' as -> -> ->. rewrite (after_eff_entry l i) in Hs by auto. discriminate.
Qed.

(** the entries of a well-formed log, oldest first, are: stops that saw Ready / Starts ... i.e. status only
    moves Ready -> Started -> Stopped along the log *)
Lemma status_after_cons_le l e :
  let rk := fun s => match s with Ready => 0%nat | Started => 1%nat | Stopped => 2%nat end in
  (rk (status_after l) <= rk (status_after (e :: l)))%nat.
Proof. destruct e as [[a b] c]. cbn. destruct (status_after l), b; cbn; lia. Qed.

(** ------------------------------------------------------------------ what a pc claims about the log *)

Definition seen_start (r : res) : option stat :=
  match r with RNil => Some Ready | RAlreadyStarted => Some Started | RAlreadyStopped => Some Stopped | _ => None end.
Definition seen_check (r : res) : option stat :=
  match r with RNil => Some Started | RAlreadyStopped => Some Stopped | RNotStarted => Some Ready | _ => None end.
Definition seen_stop (r : res) : option stat :=
  match r with RNil | RStopFailed => Some Started | RAlreadyStopped => Some Stopped | RNotStarted => Some Ready | _ => None end.
Definition wclaim (w : who) : list (bool * stat) := match w with ByStart => [(true, Ready)] | _ => [] end.

Definition claims (p : pc) : option (list (bool * stat)) :=
  match p with
  | SUnlock r => option_map (fun st => [(true, st)]) (seen_start r)
  | SSpawnRoot | SChain | SGo => Some [(true, Ready)]
  | TLock w _ | TCheck w _ => Some (wclaim w)
  | TUnlock w _ r => option_map (fun st => (false, st) :: wclaim w) (seen_check r)
  | TReadCluster w _ | TLeaveReq w _ | TLeaveWait w _ | TReadCtx w _ | TKill w _ | TCancel w _ | TSelect w _ | TSchedStop w =>
      Some ((false, Started) :: wclaim w)
  | Done KStart (RStartFailed inner) => option_map (fun st => [(true, Ready); (false, st)]) (seen_stop inner)
  | Done KStart r => option_map (fun st => [(true, st)]) (seen_start r)
  | Done KStop r | Done KGuard r => option_map (fun st => [(false, st)]) (seen_stop r)
  | _ => Some []
  end.

Definition claim_ok (l : list (nat * bool * stat)) (j : nat) (p : pc) : Prop :=
  exists cl, claims p = Some cl /\ forall b st, In (b, st) cl -> In (j, b, st) l.

(** pcs of the one Start that got through, before its `go` statement *)
Definition pre_go (p : pc) : bool := match p with SUnlock RNil | SSpawnRoot | SChain | SGo => true | _ => false end.
(** pcs of the winner after system.Context was assigned *)
Definition past_root (p : pc) : bool :=
  match p with
  | SChain | SGo | TLock ByStart _ | TCheck ByStart _ | TUnlock ByStart _ _ | TReadCluster ByStart _ | TLeaveReq ByStart _
  | TLeaveWait ByStart _ | TReadCtx ByStart _ | TKill ByStart _ | TCancel ByStart _ | TSelect ByStart _ | TSchedStop ByStart
  | Done KStart RNil | Done KStart (RStartFailed _) => true
  | _ => false
  end.
(** the effective stop before it issued Kill(root) *)
Definition pre_kill (p : pc) : bool :=
  match p with
  | TUnlock _ _ RNil | TReadCluster _ _ | TLeaveReq _ _ | TLeaveWait _ _ | TReadCtx _ _ | TKill _ _ => true
  | _ => false
  end.

Definition effect (s : st) : Prop :=
  skipped s = true \/ (kills s = 1 /\ guardClosed s = true /\ ctxDone s = true /\ hasCtx s = true).

(** a stop() that returned nil: Stop() = nil, the guard's stop(false) = nil, Start = start-failed(nil) *)
Definition stop_nil (k : kind) (r : res) : bool :=
  match k, r with
  | KStop, RNil | KGuard, RNil | KStart, RStartFailed RNil => true
  | _, _ => false
  end.

(** per-thread facts that only mention monotone parts of the state *)
Definition tfacts (s : st) (j : nat) (p : pc) : Prop :=
  claim_ok (lin s) j p /\
  (guard_pc p = true -> status s <> Ready /\ spawned s = 1) /\
  (past_root p = true -> hasCtx s = true) /\
  match p with
  | TLeaveWait _ _ => leaveReq s = true
  | TCancel _ _ => 1 <= kills s /\ hasCtx s = true
  | TSelect _ _ => 1 <= kills s /\ ctxDone s = true /\ hasCtx s = true
  | TSchedStop _ => skipped s = true \/ (1 <= kills s /\ guardClosed s = true /\ ctxDone s = true /\ hasCtx s = true)
  | TUnlock ByGuard _ r => r <> RNotStarted
  | TKill _ _ => hasCtx s = true
  | Done k r =>
      (k = KGuard -> r <> RNotStarted) /\
      (stop_nil k r = true -> schedStopped s = true /\
         (skipped s = true \/ (1 <= kills s /\ guardClosed s = true /\ ctxDone s = true /\ hasCtx s = true)))
  | _ => True
  end.

Record inv (n : nat) (s : st) : Prop := {
  i_lock1 : forall j, lock s = Some j -> exists p, nth_error (thr s) j = Some p /\ holder_pc p = true;
  i_lock2 : forall j p, nth_error (thr s) j = Some p -> holder_pc p = true -> lock s = Some j;
  i_wf : lin_wf (lin s);
  i_status : status s = status_after (lin s);
  i_facts : forall j p, nth_error (thr s) j = Some p -> tfacts s j p;
  i_prekill : forall j p, nth_error (thr s) j = Some p -> pre_kill p = true -> kills s = 0;
  i_kills : kills s <= 1;
  i_prego : forall j p, nth_error (thr s) j = Some p -> pre_go p = true -> spawned s = 0;
  i_spawned : spawned s <= 1;
  i_len : length (thr s) = (n + N.to_nat (spawned s))%nat;
  i_created : forall j p, nth_error (thr s) j = Some p -> (n <= j)%nat -> guard_pc p = true;
}.

(** monotone part of the state *)
Record mono (s s' : st) : Prop := {
  m_lin : forall e, In e (lin s) -> In e (lin s');
  m_status : status s <> Ready -> status s' <> Ready;
  m_hasCtx : hasCtx s = true -> hasCtx s' = true;
  m_ctxDone : ctxDone s = true -> ctxDone s' = true;
  m_kills : kills s <= kills s';
  m_guardClosed : guardClosed s = true -> guardClosed s' = true;
  m_leaveReq : leaveReq s = true -> leaveReq s' = true;
  m_leaveDone : leaveDone s = true -> leaveDone s' = true;
  m_sched : schedStopped s = true -> schedStopped s' = true;
  m_skipped : skipped s = true -> skipped s' = true;
  m_spawned : spawned s <= spawned s';
}.

Lemma mono_refl s : mono s s.
Proof. constructor; auto; lia. Qed.

Ltac inv_step H :=
  match type of H with
  | step _ ?e ?s = Some _ =>
      destruct e as [i alt| | |dt]; cbn [step] in H;
      [ destruct (nth_error (thr s) i) as [p|] eqn:Hp; [|discriminate];
        destruct p; cbn [step_thread] in H;
        repeat match type of H with
               | match ?x with _ => _ end = Some _ => let E := fresh "E" in destruct x eqn:E; try discriminate
               | (if ?x then _ else _) = Some _ => let E := fresh "E" in destruct x eqn:E; try discriminate
               end;
        try discriminate; injection H as H; subst
      | destruct ((0 <? kills s) && negb (guardClosed s)) eqn:E; [|discriminate]; injection H as H; subst
      | destruct (leaveReq s && negb (leaveDone s)) eqn:E; [|discriminate]; injection H as H; subst
      | injection H as H; subst ]
  end.

Lemma step_mono c e s s' : step c e s = Some s' -> mono s s'.
Proof.
  intros H. inv_step H; constructor; cbn; intros; auto; try lia; try congruence;
    try (destruct (status s); congruence).
Qed.

Lemma claim_ok_mono l l' j p : (forall e, In e l -> In e l') -> claim_ok l j p -> claim_ok l' j p.
Proof. intros Hl (cl & Hc & Hin). exists cl. split; auto. Qed.

Lemma tfacts_mono s s' j p : mono s s' -> spawned s' <= 1 -> tfacts s j p -> tfacts s' j p.
Proof.
  intros M Hsp (Hc & Hg & Hr & Hx). destruct M as [M1 M2 M3 M4 M5 M6 M7 M8 M9 M10 M11].
  split; [|split; [|split]].
  - eapply claim_ok_mono; eauto.
  - intros G. destruct (Hg G). split; [auto|lia].
  - intros G. auto.
  - destruct p; auto; try (intuition (auto; try lia); fail).
Qed.
