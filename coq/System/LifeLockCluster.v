(** The unsynchronised read `s.clusterContext != nil` in stop sees the final value.

    The start-up chain assigns s.clusterContext in the MIDDLE of Start's critical section (between the "@cluster" and the
    proxy-manager System.ActorOf calls); stop reads the field without any lock, after its own status switch.  On the merged
    machine ([clusterNow] = the field as the code writes it, [clusterCtx (base s)] = the abstract model's value, assigned at
    the end of the chain): whenever no thread is inside the chain the two agree - in particular whenever some stop stands
    at its read. *)
From Coq Require Import List NArith Bool Lia Arith.
From Coq Require Import ZifyN ZifyNat ZifyBool.
From Vivid Require Import System.Lifecycle System.LifecycleProofs System.LifeLock System.LifeLockProofs.
Import ListNotations.
Local Open Scope N_scope.

(** ------------------------------------------------------------------ abstract machine: clusterContext is nil until the chain *)

Definition ccinv (s : st) : Prop :=
  clusterCtx s = true -> status s <> Ready /\ forall j p, nth_error (thr s) j = Some p -> p <> SSpawnRoot /\ p <> SChain.

Lemma step_clusterCtx c i alt s s' p : step c (EStep i alt) s = Some s' -> nth_error (thr s) i = Some p -> p <> SChain ->
  clusterCtx s' = clusterCtx s.
Proof.
  intros H Hp Hn. cbn [step] in H. rewrite Hp in H. destruct p; try congruence; cbn [step_thread] in H;
    repeat match type of H with
           | match ?x with _ => _ end = Some _ => let E := fresh "E" in destruct x eqn:E; try discriminate
           | (if ?x then _ else _) = Some _ => let E := fresh "E" in destruct x eqn:E; try discriminate
           end; try discriminate; injection H as <-; cbn; congruence.
Qed.

Lemma ccinv_step c e s s' : reachable c s -> ccinv s -> step c e s = Some s' -> ccinv s'.
Proof.
  intros R CC H. destruct (reachable_inv _ _ R) as (n & I & _).
  unfold ccinv in *.
  inv_step H; try exact CC; spawned_cases I.
  all: cbn [clusterCtx status thr goto set_thr set_lock set_check set_hasCtx set_clusterCtx set_ctxDone set_kill
            set_guardClosed set_leaveReq set_leaveDone set_schedStopped set_now set_skipped set_spawned].
  (* steps that neither assign clusterCtx nor move a thread to SSpawnRoot / SChain *)
  all: try (intros Hc; destruct (CC Hc) as (Hs & Hall); split; [rewrite ?E in *; congruence|];
            intros j q Hq; thr_cases Hq; try (split; discriminate); eauto; fail).
  all: try (intros Hc; congruence).
  all: try (intros Hc; first [destruct (CC eq_refl) as (Hs & Hall) | congruence]; split; [exact Hs|];
            intros j q Hq; thr_cases Hq; try (split; discriminate); eauto; fail).
  - (* SCheck, Ready -> SSpawnRoot: clusterCtx is false *)
    intros Hc. destruct (CC Hc) as (Hs & _). congruence.
  - (* SSpawnRoot -> SChain: clusterCtx is false *)
    intros Hc. destruct (CC Hc) as (_ & Hall). destruct (Hall _ _ Hp). congruence.
  - (* SChain, alt 0 *)
    intros Hc. destruct (start_holds_lock c s i SChain R Hp eq_refl) as (_ & Hst). split; [congruence|].
    intros j q Hq. thr_cases Hq; [split; discriminate|].
    split; intros ->; (assert (i = j) by (eapply two_winners; eauto); congruence).
  - (* SChain, alt 2 *)
    intros Hc. destruct (start_holds_lock c s i SChain R Hp eq_refl) as (_ & Hst). split; [congruence|].
    intros j q Hq. thr_cases Hq; [split; discriminate|].
    split; intros ->; (assert (i = j) by (eapply two_winners; eauto); congruence).
Qed.

Lemma ccinv_run c evs s : reachable c s -> ccinv s -> ccinv (run c evs s).
Proof.
  revert s. induction evs as [|e evs IH]; intros s R I; cbn; [exact I|].
  unfold step_or_stay. destruct (step c e s) as [s'|] eqn:E; [|apply IH; auto].
  apply IH; [eapply LifeLockProofs.reachable_step; eauto|eapply ccinv_step; eauto].
Qed.

Lemma reachable_ccinv c s : reachable c s -> ccinv s.
Proof.
  intros (ths & evs & He & <-). apply ccinv_run; [exists ths, []; auto|]. intros H. discriminate H.
Qed.

(** ------------------------------------------------------------------ merged machine *)

Definition pos (x : sub) : nat := match x with Idle => 0 | AAcq k | AWork k | ARel k _ => k end.

Record invK (c : cfg2) (s : st2) : Prop := {
  k_in : forall i, nth_error (thr (base s)) i = Some SChain ->
           clusterCtx (base s) = false /\ clusterNow s = existsb is_cluster_link (firstn (pos (getsub s i)) (links c));
  k_out : (forall i, nth_error (thr (base s)) i <> Some SChain) -> clusterNow s = clusterCtx (base s);
}.

Lemma links_cluster c : existsb is_cluster_link (links c) = cfg_cluster (c_base c).
Proof.
  unfold links. destruct (c_metrics c), (c_remoting c), (cfg_cluster (c_base c)), (c_singletons c); reflexivity.
Qed.

Lemma existsb_firstn_le {A} (f : A -> bool) k l : existsb f (firstn k l) = true -> existsb f l = true.
Proof.
  revert k. induction l as [|a l IH]; intros [|k]; cbn; try discriminate; auto.
  destruct (f a); cbn; eauto.
Qed.

Lemma existsb_firstn_S {A} (f : A -> bool) k l d : (k < length l)%nat ->
  existsb f (firstn (S k) l) = existsb f (firstn k l) || f (nth k l d).
Proof.
  revert k. induction l as [|a l IH]; intros [|k] H; cbn [length] in H; try lia.
  - cbn. destruct (f a); reflexivity.
  - change (f a || existsb f (firstn (S k) l) = (f a || existsb f (firstn k l)) || f (nth k l d)).
    rewrite (IH k) by lia. destruct (f a); reflexivity.
Qed.

Lemma firstn_all2 {A} (l : list A) k : (length l <= k)%nat -> firstn k l = l.
Proof. revert k. induction l; intros [|k] H; cbn in *; try lia; auto. f_equal. apply IHl. lia. Qed.

(** at most one thread is inside the chain *)
Lemma one_in_chain c s i j : reachable c s -> nth_error (thr s) i = Some SChain -> nth_error (thr s) j = Some SChain -> i = j.
Proof. intros R Hi Hj. destruct (reachable_inv _ _ R) as (n & I & _). eapply two_winners; eauto. Qed.

(** what a thread step does to the thread list *)
Lemma step_thr_cases c i0 alt0 s s' p0 : step c (EStep i0 alt0) s = Some s' -> nth_error (thr s) i0 = Some p0 ->
  exists p', nth_error (thr s') i0 = Some p' /\
    forall j q, j <> i0 -> nth_error (thr s') j = Some q -> nth_error (thr s) j = Some q \/ q = Spawned GWait.
Proof.
  intros H Hp0. destruct (own_step_rank _ _ _ _ _ _ H Hp0) as (p' & Hp' & _ & _). exists p'. split; [exact Hp'|].
  clear Hp'. intros j q Hn Hq. revert Hq Hn Hp0. remember (EStep i0 alt0) as e eqn:He. revert He.
  inv_step H; intros He; try discriminate He; injection He as <- <-; intros Hq Hn Hp0; thr_cases Hq; auto; congruence.
Qed.

Lemma enters_chain c i0 alt0 s s' p0 : step c (EStep i0 alt0) s = Some s' -> nth_error (thr s) i0 = Some p0 -> p0 <> SChain ->
  nth_error (thr s') i0 = Some SChain -> p0 = SSpawnRoot \/ p0 = Spawned SChain.
Proof.
  intros H Hp0 Hn Hq. revert Hq Hn Hp0. remember (EStep i0 alt0) as e eqn:He. revert He.
  inv_step H; intros He; try discriminate He; injection He as <- <-; intros Hq Hn Hp0;
    rewrite Hp in Hp0; injection Hp0 as <-; try (left; reflexivity); try congruence;
    try (thr_cases Hq; try (right; reflexivity); exfalso; try congruence; try (destruct w; discriminate)).
Qed.

Lemma not_spawned_chain c s i : reachable c s -> nth_error (thr s) i <> Some (Spawned SChain).
Proof.
  intros R H. destruct (reachable_inv _ _ R) as (n & I & _).
  pose proof (i_facts _ _ I _ _ H) as (_ & _ & _ & Hk). cbn in Hk. destruct Hk; discriminate.
Qed.

(** sub-steps that do not touch the chain thread *)
Lemma invK_stutter_other c s s' : base s' = base s -> clusterNow s' = clusterNow s ->
  (forall j, nth_error (thr (base s)) j = Some SChain -> getsub s' j = getsub s j) -> invK c s -> invK c s'.
Proof.
  intros Hb Hc Hs [A B]. constructor; rewrite Hb, Hc.
  - intros i Hi. rewrite (Hs i Hi). apply A. exact Hi.
  - exact B.
Qed.

(** sub-steps of the chain thread *)
Lemma invK_stutter_chain c s s' i : reachable (c_base c) (base s) -> nth_error (thr (base s)) i = Some SChain ->
  base s' = base s -> clusterNow s' = existsb is_cluster_link (firstn (pos (getsub s' i)) (links c)) -> invK c s -> invK c s'.
Proof.
  intros R Hi Hb Hc [A B]. constructor; rewrite Hb.
  - intros j Hj. assert (j = i) by (eapply one_in_chain; eauto). subst j. split; [apply (A i Hi)|exact Hc].
  - intros N. exfalso. apply (N i). exact Hi.
Qed.

(** an abstract step of a thread that is not inside the chain *)
Lemma invK_lift_other c s s0 s' i alt p : reachable (c_base c) (base s) -> nth_error (thr (base s)) i = Some p -> p <> SChain ->
  base s0 = base s -> clusterNow s0 = clusterNow s -> (forall j, j <> i -> getsub s0 j = getsub s j) -> getsub s0 i = Idle ->
  lift c (EStep i alt) s0 = Some s' -> invK c s -> invK c s'.
Proof.
  intros R Hp Hn Hb Hc Hs Hi H [A B]. apply lift_spec in H. destruct H as (b & Hst & ->). rewrite Hb in Hst.
  pose proof (step_clusterCtx _ _ _ _ _ _ Hst Hp Hn) as Hcc.
  destruct (step_thr_cases _ _ _ _ _ _ Hst Hp) as (p' & Hp' & Hoth).
  assert (Old : forall j, j <> i -> nth_error (thr b) j = Some SChain -> nth_error (thr (base s)) j = Some SChain).
  { intros j Hj Hq. destruct (Hoth j _ Hj Hq) as [H|H]; [exact H|discriminate]. }
  constructor; cbn [base set_base clusterNow].
  - intros j Hj. change (getsub (set_base s0 b) j) with (getsub s0 j). rewrite Hcc, Hc.
    destruct (Nat.eq_dec j i) as [->|Hne].
    + (* the thread has just entered the chain *)
      rewrite Hp' in Hj. injection Hj as ->.
      destruct (enters_chain _ _ _ _ _ _ Hst Hp Hn Hp') as [->| ->]; [|exfalso; eapply not_spawned_chain; eauto].
      assert (NoChain : forall k, nth_error (thr (base s)) k <> Some SChain).
      { intros k Hk. destruct (reachable_inv _ _ R) as (n & I & _).
        assert (i = k) by (eapply two_winners; eauto). subst k. congruence. }
      pose proof (B NoChain) as Heq.
      assert (Hf : clusterCtx (base s) = false).
      { destruct (clusterCtx (base s)) eqn:E; [|reflexivity]. exfalso.
        destruct (reachable_ccinv _ _ R E) as (_ & Hall). destruct (Hall _ _ Hp). congruence. }
      rewrite Hi. cbn. rewrite Heq, Hf. auto.
    + rewrite (Hs j Hne). apply A. apply Old; auto.
  - intros N. rewrite Hcc, Hc. apply B. intros j Hj. destruct (Nat.eq_dec j i) as [->|Hne]; [congruence|].
    apply (N j). destruct (step_thr_cases _ _ _ _ _ _ Hst Hp) as (_ & _ & _).
    (* thread j is untouched by the step *)
    destruct (own_step_rank _ _ _ _ _ _ Hst Hp) as (_ & _ & _ & Hsame). rewrite Hsame; [exact Hj|exact Hne|eapply nth_error_lt; eauto].
Qed.

(** the abstract step at the end of the chain *)
Lemma invK_lift_chain_end c s s0 s' i a : reachable (c_base c) (base s) -> nth_error (thr (base s)) i = Some SChain ->
  base s0 = base s ->
  (a = 0 /\ clusterNow s0 = cfg_cluster (c_base c)) \/ (a = 1 /\ clusterNow s0 = false) \/
  (a = 2 /\ clusterNow s0 = true /\ cfg_cluster (c_base c) = true) ->
  lift c (EStep i a) s0 = Some s' -> invK c s -> invK c s'.
Proof.
  intros R Hp Hb Ha H [A B]. apply lift_spec in H. destruct H as (b & Hst & ->). rewrite Hb in Hst.
  destruct (A i Hp) as (Hf & _).
  destruct (step_thr_cases _ _ _ _ _ _ Hst Hp) as (p' & Hp' & Hoth).
  assert (Gone : forall j, nth_error (thr b) j <> Some SChain).
  { intros j Hj. destruct (Nat.eq_dec j i) as [->|Hne].
    - rewrite Hp' in Hj. injection Hj as ->. cbn [step] in Hst. rewrite Hp in Hst. cbn [step_thread] in Hst.
      destruct Ha as [(-> & _)|[(-> & _)|(-> & _)]]; injection Hst as <-; cbn in Hp';
        rewrite nth_error_upd_eq in Hp' by (eapply nth_error_lt; eauto); discriminate.
    - destruct (Hoth j _ Hne Hj) as [H|H]; [|discriminate]. assert (i = j) by (eapply one_in_chain; eauto). congruence. }
  constructor; cbn [base set_base clusterNow].
  - intros j Hj. exfalso. eapply Gone; eauto.
  - intros _. cbn [step] in Hst. rewrite Hp in Hst. cbn [step_thread] in Hst.
    destruct Ha as [(-> & Hc)|[(-> & Hc)|(-> & Hc & Hcl)]]; injection Hst as <-; cbn; rewrite Hc; congruence.
Qed.

Lemma invK_lift_env c s s' e : (forall i alt, e <> EStep i alt) -> lift c e s = Some s' -> invK c s -> invK c s'.
Proof.
  intros He H [A B]. apply lift_spec in H. destruct H as (b & Hst & ->).
  pose proof (env_step_thr _ _ _ _ Hst He) as Ht.
  assert (Hcc : clusterCtx b = clusterCtx (base s)).
  { destruct e as [i alt| | |dt]; [exfalso; eapply He; reflexivity| | |]; cbn [step] in Hst;
      repeat match type of Hst with (if ?x then _ else _) = Some _ => destruct x; try discriminate end; injection Hst as <-; reflexivity. }
  constructor; cbn [base set_base clusterNow]; rewrite Ht, Hcc; [exact A|exact B].
Qed.

Lemma invK_step c e s s' : reachable2 c s -> invK c s -> step2 c e s = Some s' -> invK c s'.
Proof.
  intros R2 K H. pose proof (refines _ _ R2) as R. pose proof (reachable2_inv _ _ R2) as I.
  destruct e as [i alt|j xalt| | |dt]; cbn [step2] in H.
  - destruct (nth_error (thr (base s)) i) as [p|] eqn:Hp; [|discriminate].
    assert (Out : region p = false -> lift c (EStep i alt) s = Some s' -> invK c s').
    { intros Hr Hl. refine (invK_lift_other c s s s' i alt p R Hp _ eq_refl eq_refl (fun _ _ => eq_refl) _ Hl K).
      - intros ->. discriminate Hr.
      - eapply sub_idle_outside; eauto. }
    destruct p; try (apply Out; [reflexivity|exact H]); clear Out.
    + (* SChain *)
      pose proof (k_in _ _ K i Hp) as (Hf & Hnow).
      unfold chain_step in H. destruct (getsub s i) as [|k|k|k [|]] eqn:Es; cbn [pos] in Hnow.
      * destruct (links c) eqn:El.
        -- refine (invK_lift_chain_end c s s s' i 0 R Hp eq_refl _ H K). left. split; [reflexivity|].
           rewrite Hnow, <- links_cluster, El. reflexivity.
        -- injection H as <-. eapply invK_stutter_chain; eauto. cbn [clusterNow setsub set_subs]. rewrite getsub_setsub_eq. exact Hnow.
      * unfold acquire in H. destruct (alock s); [discriminate|]. injection H as <-.
        eapply invK_stutter_chain; eauto. change (clusterNow s = existsb is_cluster_link (firstn (pos (getsub (setsub s i (AWork k)) i)) (links c))).
        rewrite getsub_setsub_eq. exact Hnow.
      * destruct alt as [|[p|p|]]; try discriminate; injection H as <-; (eapply invK_stutter_chain; eauto);
          cbn [clusterNow setsub set_subs]; rewrite getsub_setsub_eq; exact Hnow.
      * assert (Hk : (k < length (links c))%nat) by (eapply (l_pos _ _ I); eauto; rewrite Es; reflexivity).
        set (s2 := if is_cluster_link (nth k (links c) LMetrics) then set_clusterNow (set_alock s None) true else set_alock s None) in H.
        assert (Hn2 : clusterNow s2 = existsb is_cluster_link (firstn (S k) (links c))).
        { rewrite (existsb_firstn_S _ _ _ LMetrics Hk), <- Hnow. subst s2. destruct (is_cluster_link _); cbn; [rewrite orb_true_r|rewrite orb_false_r]; reflexivity. }
        assert (Hb2 : base s2 = base s) by (subst s2; destruct (is_cluster_link _); reflexivity).
        destruct (Nat.ltb_spec (S k) (length (links c))).
        -- injection H as <-. eapply invK_stutter_chain; eauto. cbn [clusterNow setsub set_subs]. rewrite getsub_setsub_eq. exact Hn2.
        -- refine (invK_lift_chain_end c s (setsub s2 i Idle) s' i 0 R Hp Hb2 _ H K). left. split; [reflexivity|].
           cbn [clusterNow setsub set_subs]. rewrite Hn2, firstn_all2 by lia. apply links_cluster.
      * refine (invK_lift_chain_end c s (setsub (set_alock s None) i Idle) s' i _ R Hp eq_refl _ H K).
        destruct (existsb is_cluster_link (firstn k (links c))) eqn:Ex.
        -- right. right. split; [reflexivity|]. split; [exact Hnow|]. rewrite <- links_cluster. eapply existsb_firstn_le; eauto.
        -- right. left. split; [reflexivity|exact Hnow].
    + (* TLeaveReq *)
      assert (St : forall s1, base s1 = base s -> clusterNow s1 = clusterNow s -> (forall j, j <> i -> getsub s1 j = getsub s j) -> invK c s1).
      { intros s1 Hb Hc Hs. eapply invK_stutter_other; eauto. intros j Hj. apply Hs. intros ->. congruence. }
      unfold leave_step in H. destruct (getsub s i) as [|k|k|k ok] eqn:Es.
      * injection H as <-. apply St; auto. intros j Hj. apply getsub_setsub_neq. congruence.
      * unfold acquire in H. destruct (alock s); [discriminate|]. injection H as <-. apply St; auto.
        intros j Hj. apply (getsub_setsub_neq s). congruence.
      * destruct alt as [|[p|p|]]; try discriminate; injection H as <-; (apply St; auto); intros j Hj; apply getsub_setsub_neq; congruence.
      * refine (invK_lift_other c s _ s' i 0 (TLeaveReq w d) R Hp _ _ _ _ _ H K).
        -- discriminate.
        -- destruct ok; reflexivity.
        -- destruct ok; reflexivity.
        -- intros j Hj. destruct ok; (rewrite getsub_setsub_neq by congruence); reflexivity.
        -- destruct ok; apply getsub_setsub_eq.
  - unfold ext_step in H. destruct (nth_error (ext s) j) as [[| | | |]|]; try discriminate.
    + injection H as <-. apply (invK_stutter_other c s); [reflexivity|reflexivity|intros; reflexivity|exact K].
    + destruct (alock s); [discriminate|]. injection H as <-. apply (invK_stutter_other c s); [reflexivity|reflexivity|intros; reflexivity|exact K].
    + destruct xalt; [|discriminate]. injection H as <-. apply (invK_stutter_other c s); [reflexivity|reflexivity|intros; reflexivity|exact K].
    + injection H as <-. apply (invK_stutter_other c s); [reflexivity|reflexivity|intros; reflexivity|exact K].
  - eapply invK_lift_env; eauto. intros; discriminate.
  - destruct (leaveHelper s); [|discriminate]. eapply invK_lift_env; eauto. intros; discriminate.
  - eapply invK_lift_env; eauto. intros; discriminate.
Qed.

Lemma invK_init c ths m : invK c (init2 ths m).
Proof.
  constructor; cbn; [|reflexivity]. intros i Hi. rewrite nth_error_map in Hi.
  destruct (nth_error ths i); cbn in Hi; discriminate.
Qed.

Lemma reachable2_run_prefix c ths m evs : forallb env_pc ths = true -> reachable2 c (run2 c evs (init2 ths m)).
Proof. intros H. exists ths, m, evs. auto. Qed.

Lemma invK_run c ths m : forallb env_pc ths = true -> forall evs, invK c (run2 c evs (init2 ths m)).
Proof.
  intros He evs. induction evs as [|e evs IH] using rev_ind; [apply invK_init|].
  unfold run2. rewrite fold_left_app. cbn. fold (run2 c evs (init2 ths m)).
  unfold step_or_stay2. destruct (step2 c e (run2 c evs (init2 ths m))) eqn:E; [|exact IH].
  eapply invK_step; eauto. apply reachable2_run_prefix. exact He.
Qed.

Lemma reachable2_invK c s : reachable2 c s -> invK c s.
Proof. intros (ths & m & evs & He & <-). apply invK_run. exact He. Qed.

(** whenever no thread is inside the start-up chain, the field s.clusterContext has its final value ... *)
Theorem cluster_field_settled c s : reachable2 c s -> (forall i, nth_error (thr (base s)) i <> Some SChain) ->
  clusterNow s = clusterCtx (base s).
Proof. intros R. apply (k_out _ _ (reachable2_invK _ _ R)). Qed.

(** ... in particular whenever a stop (Stop, the guard's stop(false), Start's failure path) stands at its unsynchronised
    read `if s.clusterContext != nil`: the Start that got through has left its critical section *)
Theorem cluster_read_consistent c s i w d : reachable2 c s -> nth_error (thr (base s)) i = Some (TReadCluster w d) ->
  clusterNow s = clusterCtx (base s).
Proof.
  intros R Hp. apply (cluster_field_settled c s R). intros j Hj.
  pose proof (refines _ _ R) as Rb. destruct (reachable_inv _ _ Rb) as (n & I & _).
  (* the reader passed its switch having seen `start`: the status is stop; the chain thread holds the lock with status start *)
  destruct (start_holds_lock _ _ _ _ Rb Hj eq_refl) as (_ & Hst).
  pose proof (i_facts _ _ I _ _ Hp) as (Hc & _).
  assert (Hin : In (i, false, Started) (lin (base s))) by (eapply (claim_in _ _ _ _ _ _ Hc); [reflexivity|cbn; auto]).
  pose proof (after_eff_entry _ _ (i_wf _ _ I) Hin) as Hs. rewrite <- (i_status _ _ I) in Hs. congruence.
Qed.
