(** Proofs about the lock view of Start / Stop / ActorOf (System/LockOrder.v): for EVERY population of
    programs that respect the lock hierarchy and EVERY interleaving — mutual exclusion, acyclicity of the
    wait-for relation, and deadlock freedom; the programs of system.go respect the hierarchy; the seeded
    lock-order inversion does not and deadlocks. *)
From Coq Require Import List NArith Bool Lia Arith.
From Coq Require Import ZifyN ZifyNat ZifyBool.
From Vivid Require Import System.LockOrder.
Import ListNotations.
Local Open Scope N_scope.

(** ------------------------------------------------------------------ lists *)

Lemma nth_error_upd_eq {A} (l : list A) i x : (i < length l)%nat -> nth_error (upd l i x) i = Some x.
Proof. revert i. induction l; intros [|i] H; cbn in *; try lia; auto. apply IHl. lia. Qed.

Lemma nth_error_upd_neq {A} (l : list A) i j x : i <> j -> nth_error (upd l i x) j = nth_error l j.
Proof. revert i j. induction l; intros [|i] [|j] H; cbn; auto; try congruence. Qed.

Lemma nth_error_lt {A} (l : list A) i x : nth_error l i = Some x -> (i < length l)%nat.
Proof. intros H. apply nth_error_Some. congruence. Qed.

Lemma nth_upd_cases {A} (l : list A) i x j q :
  (i < length l)%nat ->
  nth_error (upd l i x) j = Some q -> (j = i /\ q = x) \/ (j <> i /\ nth_error l j = Some q).
Proof.
  intros Hi H. destruct (Nat.eq_dec j i) as [->|Hn].
  - rewrite nth_error_upd_eq in H by auto. left. split; congruence.
  - rewrite nth_error_upd_neq in H by auto. right. auto.
Qed.

Lemma exists_max (l : list N) : l <> [] -> exists m, In m l /\ forall x, In x l -> x <= m.
Proof.
  induction l as [|a l IH]; [congruence|]. intros _. destruct l as [|b l].
  - exists a. split; [left; reflexivity|]. intros x [->|[]]. lia.
  - destruct IH as [m [Hin Hmax]]; [discriminate|].
    destruct (N.leb_spec a m).
    + exists m. split; [right; exact Hin|]. intros x [->|Hx]; [lia|auto].
    + exists a. split; [left; reflexivity|]. intros x [->|Hx]; [lia|]. specialize (Hmax x Hx). lia.
Qed.

Lemma forallb_false_exists {A} (f : A -> bool) (l : list A) :
  forallb f l = false -> exists x, In x l /\ f x = false.
Proof.
  induction l as [|a l IH]; cbn; [discriminate|]. destruct (f a) eqn:E; cbn.
  - intros H. destruct (IH H) as [x [Hx Hf]]. exists x. auto.
  - intros _. exists a. auto.
Qed.

(** ------------------------------------------------------------------ held sets *)

Lemma holds_In t l : holds t l = true <-> In l (held t).
Proof.
  unfold holds. rewrite existsb_exists. split.
  - intros [x [Hx He]]. apply N.eqb_eq in He. subst. exact Hx.
  - intros H. exists l. split; [exact H|apply N.eqb_refl].
Qed.

Lemma In_remove1 l h x : In x (remove1 l h) -> In x h.
Proof.
  induction h as [|a h IH]; cbn; [tauto|]. destruct (N.eqb a l); cbn; [auto|]. intros [->|H]; auto.
Qed.

Lemma free_spec ts l : free ts l = true <-> forall t, In t ts -> holds t l = false.
Proof.
  unfold free. rewrite forallb_forall. split; intros H t Ht; specialize (H t Ht).
  - now apply negb_true_iff in H.
  - now apply negb_true_iff.
Qed.

(** ------------------------------------------------------------------ one step *)

Lemma step_thread_cases env ts t t' :
  step_thread env ts t = Some t' ->
  (exists l r, todo t = Acq l :: r /\ env = false /\ free ts l = true /\ t' = {| held := l :: held t; todo := r |}) \/
  (exists l r, todo t = Rel l :: r /\ env = false /\ t' = {| held := remove1 l (held t); todo := r |}) \/
  (exists r, todo t = Wait :: r /\ env = true /\ t' = {| held := held t; todo := r |}) \/
  (exists r, todo t = Work :: r /\ env = false /\ t' = {| held := held t; todo := r |}).
Proof.
  unfold step_thread. destruct (todo t) as [|[l|l| |] r]; [discriminate| | | |].
  - destruct env; cbn; [discriminate|]. destruct (free ts l) eqn:F; [|discriminate].
    intros H. injection H as <-. left. exists l, r. auto.
  - destruct env; [discriminate|]. intros H. injection H as <-. right. left. exists l, r. auto.
  - destruct env; [|discriminate]. intros H. injection H as <-. right. right. left. exists r. auto.
  - destruct env; [discriminate|]. intros H. injection H as <-. right. right. right. exists r. auto.
Qed.

(** the invariant: every thread's remaining program respects the hierarchy from what it holds now, and no lock
    is held by two threads *)
Definition inv (s : list thread) : Prop :=
  (forall i t, nth_error s i = Some t -> ordered (held t) (todo t) = true) /\
  (forall i j ti tj l, nth_error s i = Some ti -> nth_error s j = Some tj ->
                       holds ti l = true -> holds tj l = true -> i = j).

Lemma inv_upd env s i t t' :
  inv s -> nth_error s i = Some t -> step_thread env s t = Some t' -> inv (upd s i t').
Proof.
  intros [Ho Hm] Hi Hs. pose proof (nth_error_lt _ _ _ Hi) as Hlt.
  pose proof (Ho i t Hi) as Hot.
  assert (Hheld : forall x, holds t' x = true ->
                            holds t x = true \/ (forall u, In u s -> holds u x = false)).
  { intros x Hx. apply step_thread_cases in Hs.
    destruct Hs as [[l [r [Ht [_ [Hf ->]]]]]|[[l [r [Ht [_ ->]]]]|[[r [Ht [_ ->]]]|[r [Ht [_ ->]]]]]].
    - apply holds_In in Hx. cbn in Hx. destruct Hx as [<-|Hx].
      + right. apply free_spec. exact Hf.
      + left. apply holds_In. exact Hx.
    - left. apply holds_In. apply holds_In in Hx. cbn in Hx. eapply In_remove1; eauto.
    - left. exact Hx.
    - left. exact Hx. }
  split.
  - intros k q Hk. apply nth_upd_cases in Hk; [|exact Hlt]. destruct Hk as [[-> ->]|[_ Hk]]; [|eauto].
    apply step_thread_cases in Hs.
    destruct Hs as [[l [r [Ht [_ [_ ->]]]]]|[[l [r [Ht [_ ->]]]]|[[r [Ht [_ ->]]]|[r [Ht [_ ->]]]]]];
      rewrite Ht in Hot; cbn [ordered held todo] in *.
    + apply andb_true_iff in Hot. tauto.
    + apply andb_true_iff in Hot. tauto.
    + destruct (held t); [exact Hot|discriminate].
    + exact Hot.
  - intros a b ta tb l Ha Hb Hla Hlb.
    apply nth_upd_cases in Ha; [|exact Hlt]. apply nth_upd_cases in Hb; [|exact Hlt].
    destruct Ha as [[-> ->]|[Hna Ha]], Hb as [[-> ->]|[Hnb Hb]]; auto.
    + destruct (Hheld l Hla) as [H|H]; [eapply Hm; eauto|].
      rewrite (H tb) in Hlb; [discriminate|]. eapply nth_error_In; eauto.
    + destruct (Hheld l Hlb) as [H|H]; [eapply Hm; eauto|].
      rewrite (H ta) in Hla; [discriminate|]. eapply nth_error_In; eauto.
    + eapply Hm; eauto.
Qed.

Lemma inv_step e s s' : inv s -> step e s = Some s' -> inv s'.
Proof.
  intros Hi. destruct e as [i|i]; cbn; destruct (nth_error s i) as [t|] eqn:Hn; try discriminate;
    match goal with |- context [step_thread ?b s t] => destruct (step_thread b s t) as [t'|] eqn:Hs end;
    try discriminate; intros H; injection H as <-; eapply inv_upd; eauto.
Qed.

Lemma inv_run evs s : inv s -> inv (run evs s).
Proof.
  revert s. induction evs as [|e evs IH]; intros s H; cbn; [exact H|]. apply IH.
  unfold step_or_stay. destruct (step e s) eqn:E; [eapply inv_step; eauto|exact H].
Qed.

Lemma inv_init progs : forallb (ordered []) progs = true -> inv (init progs).
Proof.
  intros H. unfold init. split.
  - intros i t Hn. rewrite nth_error_map in Hn. destruct (nth_error progs i) as [p|] eqn:E; [|discriminate].
    injection Hn as <-. cbn. rewrite forallb_forall in H. apply H. eapply nth_error_In; eauto.
  - intros i j ti tj l Hi _ Hl _. rewrite nth_error_map in Hi. destruct (nth_error progs i); [|discriminate].
    injection Hi as <-. discriminate.
Qed.

Lemma reachable_inv progs s : forallb (ordered []) progs = true -> reachable progs s -> inv s.
Proof. intros H [evs <-]. apply inv_run. apply inv_init. exact H. Qed.

(** ------------------------------------------------------------------ mutual exclusion, acyclicity *)

Theorem lo_mutex progs s i j ti tj l :
  forallb (ordered []) progs = true -> reachable progs s ->
  nth_error s i = Some ti -> nth_error s j = Some tj -> holds ti l = true -> holds tj l = true -> i = j.
Proof. intros H Hr. destruct (reachable_inv _ _ H Hr) as [_ Hm]. apply Hm. Qed.

(** a thread standing in front of [Acq l'] holds only locks of strictly lower rank: along "waits for the holder
    of" the rank of the wanted lock strictly increases, so the wait-for relation has no cycle *)
Theorem lo_acyclic progs s i t l' r l :
  forallb (ordered []) progs = true -> reachable progs s ->
  nth_error s i = Some t -> todo t = Acq l' :: r -> holds t l = true -> l < l'.
Proof.
  intros H Hr Hn Ht Hl. destruct (reachable_inv _ _ H Hr) as [Ho _]. specialize (Ho i t Hn).
  rewrite Ht in Ho. cbn [ordered] in Ho. apply andb_true_iff in Ho. destruct Ho as [Ho _].
  rewrite forallb_forall in Ho. apply holds_In in Hl. specialize (Ho l Hl). lia.
Qed.

(** a thread that waits for the environment, or has finished, holds nothing *)
Theorem lo_wait_holds_nothing progs s i t :
  forallb (ordered []) progs = true -> reachable progs s ->
  nth_error s i = Some t -> wants_cpu t = false -> held t = [].
Proof.
  intros H Hr Hn Hw. destruct (reachable_inv _ _ H Hr) as [Ho _]. specialize (Ho i t Hn).
  unfold wants_cpu in Hw. destruct (todo t) as [|[l|l| |] r]; try discriminate; cbn [ordered] in Ho;
    destruct (held t); auto; discriminate.
Qed.

(** ------------------------------------------------------------------ deadlock freedom *)

Definition wanted (t : thread) : list N := match todo t with Acq l :: _ => [l] | _ => [] end.

Lemma progress_inv s : inv s -> existsb wants_cpu s = true -> existsb (enabled s) s = true.
Proof.
  intros [Ho Hm] Hw. destruct (existsb (enabled s) s) eqn:E; [reflexivity|exfalso].
  assert (Hall : forall t, In t s -> enabled s t = false).
  { intros t Ht. destruct (enabled s t) eqn:Et; [|reflexivity].
    assert (existsb (enabled s) s = true) by (apply existsb_exists; eauto). congruence. }
  assert (HoIn : forall t, In t s -> ordered (held t) (todo t) = true).
  { intros t Ht. destruct (In_nth_error _ _ Ht) as [i Hi]. eauto. }
  apply existsb_exists in Hw. destruct Hw as [t0 [Hin0 Hw0]].
  assert (HW : flat_map wanted s <> []).
  { pose proof (Hall t0 Hin0) as He. unfold wants_cpu in Hw0. unfold enabled in He.
    destruct (todo t0) as [|[l|l| |] r] eqn:Ht0; try discriminate.
    intros Hnil. assert (In l (flat_map wanted s)).
    { apply in_flat_map. exists t0. split; [exact Hin0|]. unfold wanted. rewrite Ht0. left. reflexivity. }
    rewrite Hnil in H. contradiction. }
  destruct (exists_max _ HW) as [m [Hmin Hmax]].
  apply in_flat_map in Hmin. destruct Hmin as [t [Hint Hwt]].
  unfold wanted in Hwt. destruct (todo t) as [|[l|l| |] r] eqn:Ht; try contradiction.
  destruct Hwt as [->|[]].
  pose proof (Hall t Hint) as He. unfold enabled in He. rewrite Ht in He.
  unfold free in He. apply forallb_false_exists in He. destruct He as [t' [Hin' Hh']].
  apply negb_false_iff in Hh'.
  pose proof (HoIn t' Hin') as Ho'. pose proof (Hall t' Hin') as He'. unfold enabled in He'.
  apply holds_In in Hh'.
  destruct (todo t') as [|[l'|l'| |] r'] eqn:Ht'; cbn [ordered] in Ho'; try discriminate.
  - destruct (held t'); [contradiction|discriminate].
  - apply andb_true_iff in Ho'. destruct Ho' as [Ho' _]. rewrite forallb_forall in Ho'.
    specialize (Ho' m Hh').
    assert (In l' (flat_map wanted s)).
    { apply in_flat_map. exists t'. split; [exact Hin'|]. unfold wanted. rewrite Ht'. left. reflexivity. }
    specialize (Hmax l' H). lia.
  - destruct (held t'); [contradiction|discriminate].
Qed.

Lemma enabled_step s i t :
  nth_error s i = Some t -> enabled s t = true -> exists s', step (EStep i) s = Some s'.
Proof.
  intros Hn He. cbn. rewrite Hn. unfold enabled in He. unfold step_thread.
  destruct (todo t) as [|[l|l| |] r]; try discriminate; cbn; try rewrite He; eauto.
Qed.

(** THE lock-hierarchy theorem: programs that respect the hierarchy never deadlock — in every reachable state
    in which some thread wants to run (is neither finished nor waiting for the environment), some thread can
    execute its next operation *)
Theorem lo_progress progs s :
  forallb (ordered []) progs = true -> reachable progs s ->
  (exists i t, nth_error s i = Some t /\ wants_cpu t = true) ->
  exists j s', step (EStep j) s = Some s'.
Proof.
  intros H Hr [i [t [Hn Hw]]]. pose proof (reachable_inv _ _ H Hr) as Hi.
  assert (existsb wants_cpu s = true) by (apply existsb_exists; exists t; split; [eapply nth_error_In; eauto|exact Hw]).
  pose proof (progress_inv s Hi H0) as He. apply existsb_exists in He. destruct He as [u [Hu He]].
  destruct (In_nth_error _ _ Hu) as [j Hj]. exists j. eapply enabled_step; eauto.
Qed.

(** ------------------------------------------------------------------ the programs of system.go *)

Lemma chain_ordered k rest :
  ordered [statusLock] (chain k ++ rest) = ordered [statusLock] rest.
Proof. induction k as [|k IH]; [reflexivity|]. cbn [chain app]. rewrite <- IH. reflexivity. Qed.

Lemma stop_prog_ordered e c : ordered [] (stop_prog e c) = true.
Proof. destruct e, c; reflexivity. Qed.

Theorem prog_ordered sh : ordered [] (prog_of sh) = true.
Proof.
  destruct sh as [|k|k e c|e c|e c| |]; try reflexivity.
  - change (ordered [statusLock] (chain k ++ [Rel statusLock; Work]) = true). rewrite chain_ordered. reflexivity.
  - change (ordered [statusLock] (chain k ++ [Rel statusLock] ++ stop_prog e c) = true). rewrite chain_ordered.
    change (ordered [] (stop_prog e c) = true). apply stop_prog_ordered.
  - apply stop_prog_ordered.
  - change (ordered [] (stop_prog e c) = true). apply stop_prog_ordered.
Qed.

Lemma progs_ordered shapes : forallb (ordered []) (map prog_of shapes) = true.
Proof. apply forallb_forall. intros p Hp. apply in_map_iff in Hp. destruct Hp as [sh [<- _]]. apply prog_ordered. Qed.

Theorem c07_lock_mutex shapes s i j ti tj l :
  reachable (map prog_of shapes) s ->
  nth_error s i = Some ti -> nth_error s j = Some tj -> holds ti l = true -> holds tj l = true -> i = j.
Proof. intros Hr. eapply lo_mutex; eauto. apply progs_ordered. Qed.

Theorem c07_lock_acyclic shapes s i t l' r l :
  reachable (map prog_of shapes) s ->
  nth_error s i = Some t -> todo t = Acq l' :: r -> holds t l = true -> l < l'.
Proof. intros Hr. eapply lo_acyclic; eauto. apply progs_ordered. Qed.

(** whoever stands in front of statusLock holds nothing — in particular not actorOfLock *)
Theorem c07_status_waiter_holds_nothing shapes s i t r :
  reachable (map prog_of shapes) s ->
  nth_error s i = Some t -> todo t = Acq statusLock :: r -> held t = [].
Proof.
  intros Hr Hn Ht. destruct (held t) as [|l h] eqn:Hh; [reflexivity|exfalso].
  assert (holds t l = true) by (apply holds_In; rewrite Hh; left; reflexivity).
  pose proof (c07_lock_acyclic shapes s i t statusLock r l Hr Hn Ht H). unfold statusLock in *. lia.
Qed.

Theorem c07_lock_progress shapes s :
  reachable (map prog_of shapes) s ->
  (exists i t, nth_error s i = Some t /\ wants_cpu t = true) ->
  exists j s', step (EStep j) s = Some s'.
Proof. intros Hr. apply (lo_progress (map prog_of shapes)); [apply progs_ordered|exact Hr]. Qed.

(** ------------------------------------------------------------------ sharpness: the seeded inversion *)

Definition mutant_progs : list (list op) := [prog_of (ShStart 1); stop_mutant].
Definition mutant_schedule : list ev := [EStep 0; EStep 1; EStep 0; EStep 0].
Definition mutant_dead : list thread := run mutant_schedule (init mutant_progs).

Lemma mutant_not_ordered : ordered [] stop_mutant = false.
Proof. reflexivity. Qed.

Lemma mutant_deadlock :
  reachable mutant_progs mutant_dead /\
  (forall t, In t mutant_dead -> wants_cpu t = true) /\
  (forall e, step e mutant_dead = None) /\
  (exists t0 t1 r0 r1,
      nth_error mutant_dead 0 = Some t0 /\ nth_error mutant_dead 1 = Some t1 /\
      held t0 = [statusLock] /\ todo t0 = Acq actorOfLock :: r0 /\
      held t1 = [actorOfLock] /\ todo t1 = Acq statusLock :: r1).
Proof.
  split; [exists mutant_schedule; reflexivity|]. split; [|split].
  - intros t [<-|[<-|[]]]; reflexivity.
  - intros [[|[|i]]|[|[|i]]]; try reflexivity; cbn; destruct i; reflexivity.
  - do 4 eexists. repeat split; reflexivity.
Qed.

(** ------------------------------------------------------------------ examples (non-vacuity) *)

(** Start (metrics: one chain ActorOf) holds statusLock and stands in front of actorOfLock, which an external
    System.ActorOf caller holds; a Stop stands in front of statusLock: three threads want to run, the state is
    reachable, and the ActorOf caller can go on *)
Definition ex_shapes : list shape := [ShStart 1; ShActorOf; ShStop true false].
Definition ex_state : list thread := run [EStep 0; EStep 0; EStep 0; EStep 1] (init (map prog_of ex_shapes)).

Lemma ex_state_facts :
  reachable (map prog_of ex_shapes) ex_state /\
  (exists t0 r0, nth_error ex_state 0 = Some t0 /\ held t0 = [statusLock] /\ todo t0 = Acq actorOfLock :: r0) /\
  step (EStep 0) ex_state = None /\ step (EStep 2) ex_state = None /\
  exists s', step (EStep 1) ex_state = Some s'.
Proof.
  split; [eexists; reflexivity|]. split; [do 2 eexists; repeat split; reflexivity|].
  split; [reflexivity|]. split; [reflexivity|]. eexists. reflexivity.
Qed.
