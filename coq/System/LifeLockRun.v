(** Replay entry point of the merged Start/Stop + lock machine (System/LifeLock.v).

    Kind 4 - lock-step trace of the instrumented real code under the controlled scheduler, replayed on the MERGED machine:
      input  (4 (cluster timeout metrics remoting singletons) threads m events)
        thread  (0) Start() | (1) Stop() | (1 d) Stop(d ticks) | (2) cancel of the parent context
        m       number of external System.ActorOf callers
        event   (0 i alt)  life-cycle thread i runs from its scheduling point to its next one (alt: branch of the select /
                           of root creation / of Context.ActorOf inside the step)
                (1 j alt)  external System.ActorOf caller j runs from its scheduling point to its next one (alt: outcome of
                           its Context.ActorOf: 0 normal, 1 child orphaned under the killing root, 2 child survives the root)
                (2 i)      the timer of thread i's select fires (the clock is advanced to its deadline)
                (3)        the actor tree has terminated (guardClosedSignal closed)
                (4)        the cluster leave has completed
      output ((label status hasCtx ctxDone spawned holder-of-statusLock holder-of-actorOfLock s.clusterContext!=nil) per event ... ,
              per-thread result (life-cycle threads, then external callers), verdict)
        holder: 0 = free, 1+i = life-cycle thread i, 1001+j = external caller j
    Scheduling points of the real code: the ones of kind 1 (LifecycleRun.v) plus, inside the start-up chain and inside
    Leave(), every actorOfLock.Lock() (label 15); `if system.options.Metrics != nil` is the entry of the chain (label 4),
    `s.clusterContext.Leave` the entry of Leave (label 6).  Context.ActorOf and the deferred Unlock are not scheduling points.

    Every other kind is answered by LifecycleRun.run_syslife. *)
From Coq Require Import List NArith Bool.
From Vivid Require Import Base.Tm System.Lifecycle System.LifeLock.
From Vivid Require System.LifecycleRun.
Import ListNotations.
Local Open Scope N_scope.

(** is the thread parked (at a scheduling point of the instrumented code) in this state? *)
Definition yield2 (s : st2) (i : nat) : bool :=
  match nth_error (thr (base s)) i with
  | Some SChain | Some (TLeaveReq _ _) => match getsub s i with Idle | AAcq _ => true | _ => false end
  | Some p => LifecycleRun.yield_pc p
  | None => true
  end.

Fixpoint settle2 (fuel : nat) (c : cfg2) (i : nat) (alt : N) (s : st2) : st2 :=
  match fuel with
  | O => s
  | S f => if yield2 s i then s else match step2 c (E2Life i alt) s with Some s' => settle2 f c i alt s' | None => s end
  end.

Definition macro2 (c : cfg2) (i : nat) (alt : N) (s : st2) : option st2 :=
  match step2 c (E2Life i alt) s with Some s' => Some (settle2 8 c i alt s') | None => None end.

Definition xyield (x : xpc) : bool := match x with XWork | XRel => false | _ => true end.

(** [bad]: a step inside the macro step was not enabled (the observed outcome of Context.ActorOf is impossible here) *)
Fixpoint xsettle (fuel : nat) (c : cfg2) (j : nat) (alt : N) (s : st2) : option st2 :=
  match fuel with
  | O => Some s
  | S f =>
      match nth_error (ext s) j with
      | Some x => if xyield x then Some s else match step2 c (E2Ext j alt) s with Some s' => xsettle f c j alt s' | None => None end
      | None => Some s
      end
  end.

Definition xmacro (c : cfg2) (j : nat) (alt : N) (s : st2) : option st2 :=
  match step2 c (E2Ext j alt) s with Some s' => xsettle 3 c j alt s' | None => None end.

Definition label2 (s : st2) (i : nat) : N :=
  match nth_error (thr (base s)) i with
  | Some SChain => match getsub s i with Idle => 4 | AAcq _ => 15 | _ => 98 end
  | Some (TLeaveReq _ _) => match getsub s i with Idle => 6 | AAcq _ => 15 | _ => 98 end
  | Some p => LifecycleRun.label_code p
  | None => 99
  end.

Definition xlabel (x : xpc) : N := match x with XSpawned => 16 | XAcq => 15 | XDone => 0 | _ => 98 end.

Definition owner_code (o : option owner) : N :=
  match o with
  | None => 0
  | Some (OLife i) => 1 + N.of_nat i
  | Some (OExt j) => 1001 + N.of_nat j
  end.

Definition proj2 (s : st2) : list tm :=
  LifecycleRun.proj (base s) ++
  [TN (owner_code (match lock (base s) with Some i => Some (OLife i) | None => None end)); TN (owner_code (alock s));
   tbool (clusterNow s)].

Inductive rev2 : Type := R2Macro (i : nat) (alt : N) | R2Ext (j : nat) (alt : N) | R2Fire (i : nat) | R2Tree | R2Leave.

Definition get_rev2 (t : tm) : option rev2 :=
  match t with
  | TL [TN 0; TN i; TN alt] => Some (R2Macro (N.to_nat i) alt)
  | TL [TN 1; TN j; TN alt] => Some (R2Ext (N.to_nat j) alt)
  | TL [TN 2; TN i] => Some (R2Fire (N.to_nat i))
  | TL [TN 3] => Some R2Tree
  | TL [TN 4] => Some R2Leave
  | _ => None
  end.

Definition apply_rev2 (c : cfg2) (e : rev2) (s : st2) : option (N * st2) :=
  match e with
  | R2Macro i alt =>
      match nth_error (thr (base s)) i with
      | Some _ => match macro2 c i alt s with Some s' => Some (label2 s i, s') | None => None end
      | None => None
      end
  | R2Ext j alt =>
      match nth_error (ext s) j with
      | Some x => match xmacro c j alt s with Some s' => Some (xlabel x, s') | None => None end
      | None => None
      end
  | R2Fire i =>
      match nth_error (thr (base s)) i with
      | Some (TSelect _ dl) => Some (90, if dl <=? now (base s) then s else set_base s (set_now (base s) dl))
      | Some _ => Some (90, s)
      | None => None
      end
  | R2Tree => match step2 c E2Tree s with Some s' => Some (91, s') | None => None end
  | R2Leave => match step2 c E2Leave s with Some s' => Some (92, s') | None => None end
  end.

Fixpoint replay2 (c : cfg2) (evs : list rev2) (k : N) (s : st2) : list tm * st2 :=
  match evs with
  | [] => ([], s)
  | e :: r =>
      match apply_rev2 c e s with
      | Some (lab, s') => let (out, sf) := replay2 c r (k + 1) s' in (TL (TN lab :: proj2 s') :: out, sf)
      | None => ([TL [TN 99; TN k]], s)
      end
  end.

Definition xresult (x : xpc) : tm := match x with XDone => TL [TN 0; TN 4; TN 0] | _ => TL [TN 1; TN (xlabel x)] end.

Definition life_result (s : st2) (i : nat) (p : pc) : tm :=
  match p with
  | Done _ _ => LifecycleRun.thread_result p
  | _ => TL [TN 1; TN (label2 s i)]
  end.

Fixpoint life_results (s : st2) (i : nat) (l : list pc) : list tm :=
  match l with
  | [] => []
  | p :: r => life_result s i p :: life_results s (S i) r
  end.

Definition xdone (x : xpc) : bool := match x with XDone => true | _ => false end.

(** 0 = every thread finished; 1 = only the guard goroutine is left, waiting for a cancellation that has not happened
    (by design); 2 = something else is unfinished *)
Definition verdict2 (s : st2) : N :=
  if negb (forallb xdone (ext s)) then 2 else LifecycleRun.verdict (base s).

Definition run_syslife2 (t : tm) : tm :=
  match t with
  | TL [TN 4; TL [TN cl; TN tmo; TN me; TN re; TN si]; ths; TN m; evs] =>
      match get_list LifecycleRun.get_thread ths, get_list get_rev2 evs with
      | Some ths, Some evs =>
          let c := {| c_base := {| cfg_cluster := negb (cl =? 0); cfg_timeout := tmo |};
                      c_metrics := negb (me =? 0); c_remoting := negb (re =? 0); c_singletons := negb (si =? 0) |} in
          let (out, sf) := replay2 c evs 0 (init2 ths (N.to_nat (N.min m 64))) in
          TL [TL out; TL (life_results sf 0 (thr (base sf)) ++ map xresult (ext sf)); TN (verdict2 sf)]
      | _, _ => tm_err 4
      end
  | _ => LifecycleRun.run_syslife t
  end.
