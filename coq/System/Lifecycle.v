(** Micro-step model of System.Start / System.Stop / stop and the context-guard goroutine of
    internal/actor/system.go (as it is in /repo now: the guard goroutine calls s.stop(false) WITHOUT taking
    statusLock first; Start runs its status switch AND the whole start-up chain - root creation included -
    inside ONE statusLock critical section, the failure-path s.Stop(...) and the `go` statement come after the
    deferred Unlock).

    One step = one access to state shared between goroutines:
      statusLock.Lock / the switch on s.status under the lock / the deferred Unlock,
      the assignment system.Context = NewContext(...) of the first chain link (system_chains.go; may fail),
      the rest of the start-up chain (metrics / remoting / cluster: may fail, may set clusterContext),
      (in Start both chain steps are taken while the thread still holds statusLock)
      the `go` statement creating the context-guard goroutine,
      the unsynchronised reads `s.clusterContext != nil` and `s.Context != nil` in stop,
      clusterContext.Leave (request + blocking wait on leaveWait: NO timeout in the code),
      Context.Kill(root, poison), s.cancel(), the select { <-guardClosedSignal | <-time.After(timeout) },
      scheduler.Stop(), `<-s.options.Context.Done()` of the guard goroutine.

    Threads: any number of Start() callers, Stop(timeout...) callers, external cancellations of the
    context the system was created with; the guard goroutine is created by the one Start that gets through.
    Environment events: [ETreeDone] (the actor tree has terminated and the guard actor closed
    guardClosedSignal - enabled only after Kill(root) was issued; termination of the tree itself is C06's
    concern, and a schedule that never contains it models a tree that never terminates, which exercises the
    timeout branch), [ELeaveDone] (the cluster node published ClusterLeaveCompletedEvent), [ETick dt]
    (virtual time).

    Ghost state (not present in the code, only recorded): [lin] - the linearisation log: one entry per
    execution of the status switch, newest first, (thread, is it Start's switch?, the status it saw);
    [skipped] - the effective stop read s.Context == nil; [spawned] - number of `go` statements executed;
    the kind of call and its return value are kept in the final pc [Done k r]. *)
From Coq Require Import List NArith Bool.
Import ListNotations.
Local Open Scope N_scope.

Inductive stat : Type := Ready | Started | Stopped.

(** return values: nil, the four sentinel errors, and ErrorActorSystemStartFailed.With(<result of s.Stop>) *)
Inductive res : Type :=
| RNil | RAlreadyStarted | RAlreadyStopped | RNotStarted | RStopFailed
| RStartFailed (inner : res).

(** who runs stop(): the API call Stop(timeout...), the guard goroutine (stop(false)), Start's failure path (s.Stop(StopTimeout)) *)
Inductive who : Type := ByStop | ByGuard | ByStart.

Inductive kind : Type := KStart | KStop | KGuard | KCancel.

Inductive pc : Type :=
| Spawned (k : pc)                       (* goroutine / call created, has not run yet *)
(* Start() *)
| SLock | SCheck
| SSpawnRoot                             (* system.Context, err = NewContext(...)                      - lock held *)
| SChain                                 (* initializeMetrics; initializeRemoting; initializeCluster   - lock held *)
| SUnlock (r : res)                      (* deferred Unlock; r = RNil: the chain succeeded, otherwise the state error *)
| SUnlockFail                            (* deferred Unlock with startErr <> nil; then s.Stop(StopTimeout) *)
| SGo                                    (* go func() { <-ctx.Done(); _ = s.stop(false) }() ; return nil *)
(* stop(checkLog, timeout...) ; d = the timeout argument, None = s.options.StopTimeout *)
| TLock (w : who) (d : option N) | TCheck (w : who) (d : option N) | TUnlock (w : who) (d : option N) (r : res)
| TReadCluster (w : who) (d : option N)  (* if s.clusterContext != nil *)
| TLeaveReq (w : who) (d : option N)     (* Leave(): spawn the helper actor that sends LeaveRequest *)
| TLeaveWait (w : who) (d : option N)    (* <-c.leaveWait *)
| TReadCtx (w : who) (d : option N)      (* if s.Context != nil *)
| TKill (w : who) (d : option N)         (* s.Context.Kill(root, true, ...) *)
| TCancel (w : who) (d : option N)       (* s.cancel() ; then time.After(stopTimeout) is armed on entry of the select *)
| TSelect (w : who) (deadline : N)
| TSchedStop (w : who)                   (* s.scheduler.Stop() ; return nil *)
(* guard goroutine *)
| GWait                                  (* <-s.options.Context.Done() *)
(* external cancellation of the parent context *)
| XCancel
| Done (k : kind) (r : res).

Record cfg : Type := {
  cfg_cluster : bool;       (* cluster options present: a successful chain sets clusterContext *)
  cfg_timeout : N;          (* s.options.StopTimeout in ticks *)
}.

Record st : Type := {
  status : stat;
  lock : option nat;        (* holder of statusLock *)
  hasCtx : bool;            (* s.Context != nil *)
  clusterCtx : bool;        (* s.clusterContext != nil *)
  ctxDone : bool;           (* s.options.Context is cancelled *)
  kills : N;                (* number of Kill(root) issued *)
  guardClosed : bool;       (* guardClosedSignal is closed *)
  leaveReq : bool;
  leaveDone : bool;
  schedStopped : bool;
  now : N;
  lin : list (nat * bool * stat);   (* ghost, newest first *)
  skipped : bool;                     (* ghost *)
  spawned : N;                        (* ghost *)
  thr : list pc;
}.

Definition set_thr (s : st) (t : list pc) : st :=
  {| status := status s; lock := lock s; hasCtx := hasCtx s; clusterCtx := clusterCtx s; ctxDone := ctxDone s; kills := kills s;
     guardClosed := guardClosed s; leaveReq := leaveReq s; leaveDone := leaveDone s; schedStopped := schedStopped s; now := now s;
     lin := lin s; skipped := skipped s; spawned := spawned s; thr := t |}.
Definition set_lock (s : st) (l : option nat) : st :=
  {| status := status s; lock := l; hasCtx := hasCtx s; clusterCtx := clusterCtx s; ctxDone := ctxDone s; kills := kills s;
     guardClosed := guardClosed s; leaveReq := leaveReq s; leaveDone := leaveDone s; schedStopped := schedStopped s; now := now s;
     lin := lin s; skipped := skipped s; spawned := spawned s; thr := thr s |}.
(** the switch under the lock: record the linearisation entry, possibly move the status *)
Definition set_check (s : st) (i : nat) (is_start : bool) (st' : stat) : st :=
  {| status := st'; lock := lock s; hasCtx := hasCtx s; clusterCtx := clusterCtx s; ctxDone := ctxDone s; kills := kills s;
     guardClosed := guardClosed s; leaveReq := leaveReq s; leaveDone := leaveDone s; schedStopped := schedStopped s; now := now s;
     lin := (i, is_start, status s) :: lin s; skipped := skipped s; spawned := spawned s; thr := thr s |}.
Definition set_hasCtx (s : st) : st :=
  {| status := status s; lock := lock s; hasCtx := true; clusterCtx := clusterCtx s; ctxDone := ctxDone s; kills := kills s;
     guardClosed := guardClosed s; leaveReq := leaveReq s; leaveDone := leaveDone s; schedStopped := schedStopped s; now := now s;
     lin := lin s; skipped := skipped s; spawned := spawned s; thr := thr s |}.
Definition set_clusterCtx (s : st) (b : bool) : st :=
  {| status := status s; lock := lock s; hasCtx := hasCtx s; clusterCtx := b; ctxDone := ctxDone s; kills := kills s;
     guardClosed := guardClosed s; leaveReq := leaveReq s; leaveDone := leaveDone s; schedStopped := schedStopped s; now := now s;
     lin := lin s; skipped := skipped s; spawned := spawned s; thr := thr s |}.
Definition set_ctxDone (s : st) : st :=
  {| status := status s; lock := lock s; hasCtx := hasCtx s; clusterCtx := clusterCtx s; ctxDone := true; kills := kills s;
     guardClosed := guardClosed s; leaveReq := leaveReq s; leaveDone := leaveDone s; schedStopped := schedStopped s; now := now s;
     lin := lin s; skipped := skipped s; spawned := spawned s; thr := thr s |}.
Definition set_kill (s : st) : st :=
  {| status := status s; lock := lock s; hasCtx := hasCtx s; clusterCtx := clusterCtx s; ctxDone := ctxDone s; kills := kills s + 1;
     guardClosed := guardClosed s; leaveReq := leaveReq s; leaveDone := leaveDone s; schedStopped := schedStopped s; now := now s;
     lin := lin s; skipped := skipped s; spawned := spawned s; thr := thr s |}.
Definition set_guardClosed (s : st) : st :=
  {| status := status s; lock := lock s; hasCtx := hasCtx s; clusterCtx := clusterCtx s; ctxDone := ctxDone s; kills := kills s;
     guardClosed := true; leaveReq := leaveReq s; leaveDone := leaveDone s; schedStopped := schedStopped s; now := now s;
     lin := lin s; skipped := skipped s; spawned := spawned s; thr := thr s |}.
Definition set_leaveReq (s : st) : st :=
  {| status := status s; lock := lock s; hasCtx := hasCtx s; clusterCtx := clusterCtx s; ctxDone := ctxDone s; kills := kills s;
     guardClosed := guardClosed s; leaveReq := true; leaveDone := leaveDone s; schedStopped := schedStopped s; now := now s;
     lin := lin s; skipped := skipped s; spawned := spawned s; thr := thr s |}.
Definition set_leaveDone (s : st) : st :=
  {| status := status s; lock := lock s; hasCtx := hasCtx s; clusterCtx := clusterCtx s; ctxDone := ctxDone s; kills := kills s;
     guardClosed := guardClosed s; leaveReq := leaveReq s; leaveDone := true; schedStopped := schedStopped s; now := now s;
     lin := lin s; skipped := skipped s; spawned := spawned s; thr := thr s |}.
Definition set_schedStopped (s : st) : st :=
  {| status := status s; lock := lock s; hasCtx := hasCtx s; clusterCtx := clusterCtx s; ctxDone := ctxDone s; kills := kills s;
     guardClosed := guardClosed s; leaveReq := leaveReq s; leaveDone := leaveDone s; schedStopped := true; now := now s;
     lin := lin s; skipped := skipped s; spawned := spawned s; thr := thr s |}.
Definition set_now (s : st) (t : N) : st :=
  {| status := status s; lock := lock s; hasCtx := hasCtx s; clusterCtx := clusterCtx s; ctxDone := ctxDone s; kills := kills s;
     guardClosed := guardClosed s; leaveReq := leaveReq s; leaveDone := leaveDone s; schedStopped := schedStopped s; now := t;
     lin := lin s; skipped := skipped s; spawned := spawned s; thr := thr s |}.
Definition set_skipped (s : st) : st :=
  {| status := status s; lock := lock s; hasCtx := hasCtx s; clusterCtx := clusterCtx s; ctxDone := ctxDone s; kills := kills s;
     guardClosed := guardClosed s; leaveReq := leaveReq s; leaveDone := leaveDone s; schedStopped := schedStopped s; now := now s;
     lin := lin s; skipped := true; spawned := spawned s; thr := thr s |}.
Definition set_spawned (s : st) : st :=
  {| status := status s; lock := lock s; hasCtx := hasCtx s; clusterCtx := clusterCtx s; ctxDone := ctxDone s; kills := kills s;
     guardClosed := guardClosed s; leaveReq := leaveReq s; leaveDone := leaveDone s; schedStopped := schedStopped s; now := now s;
     lin := lin s; skipped := skipped s; spawned := spawned s + 1; thr := thr s ++ [Spawned GWait] |}.

Fixpoint upd {A} (l : list A) (i : nat) (x : A) : list A :=
  match l, i with
  | [], _ => []
  | _ :: r, O => x :: r
  | y :: r, S i' => y :: upd r i' x
  end.

Definition goto (s : st) (i : nat) (q : pc) : st := set_thr s (upd (thr s) i q).

Definition kind_of (w : who) : kind := match w with ByStop => KStop | ByGuard => KGuard | ByStart => KStart end.
(** what the caller of stop() returns *)
Definition finish (w : who) (r : res) : pc :=
  Done (kind_of w) (match w with ByStart => RStartFailed r | _ => r end).

Definition timeout_of (c : cfg) (d : option N) : N := match d with Some t => t | None => cfg_timeout c end.

Inductive ev : Type :=
| EStep (i : nat) (alt : N)      (* thread i takes its next step; alt selects the branch where the step has one *)
| ETreeDone
| ELeaveDone
| ETick (dt : N).

Definition step_thread (c : cfg) (i : nat) (alt : N) (s : st) (p : pc) : option st :=
  match p with
  | Done _ _ => None
  | Spawned k => Some (goto s i k)
  (* ---- Start ---- *)
  | SLock => match lock s with None => Some (goto (set_lock s (Some i)) i SCheck) | Some _ => None end
  | SCheck =>
      match status s with
      | Started => Some (goto (set_check s i true Started) i (SUnlock RAlreadyStarted))
      | Stopped => Some (goto (set_check s i true Stopped) i (SUnlock RAlreadyStopped))
      | Ready => Some (goto (set_check s i true Started) i SSpawnRoot)
      end
  | SSpawnRoot =>
      match alt with
      | 0 => Some (goto (set_hasCtx s) i SChain)
      | 1 => Some (goto s i SUnlockFail)               (* NewContext failed (e.g. invalid advertise address): system.Context stays nil *)
      | _ => None
      end
  | SChain =>
      match alt with
      | 0 => Some (goto (set_clusterCtx s (cfg_cluster c)) i (SUnlock RNil))      (* chain succeeded *)
      | 1 => Some (goto s i SUnlockFail)                                          (* failed before clusterContext was assigned *)
      | 2 => Some (goto (set_clusterCtx s (cfg_cluster c)) i SUnlockFail)         (* failed after it was assigned *)
      | _ => None
      end
  | SUnlock r =>
      match r with
      | RNil => Some (goto (set_lock s None) i SGo)
      | _ => Some (goto (set_lock s None) i (Done KStart r))
      end
  | SUnlockFail => Some (goto (set_lock s None) i (TLock ByStart None))
  | SGo => Some (goto (set_spawned s) i (Done KStart RNil))
  (* ---- stop ---- *)
  | TLock w d => match lock s with None => Some (goto (set_lock s (Some i)) i (TCheck w d)) | Some _ => None end
  | TCheck w d =>
      match status s with
      | Ready => Some (goto (set_check s i false Ready) i (TUnlock w d RNotStarted))
      | Stopped => Some (goto (set_check s i false Stopped) i (TUnlock w d RAlreadyStopped))
      | Started => Some (goto (set_check s i false Stopped) i (TUnlock w d RNil))
      end
  | TUnlock w d r =>
      match r with
      | RNil => Some (goto (set_lock s None) i (TReadCluster w d))
      | _ => Some (goto (set_lock s None) i (finish w r))
      end
  | TReadCluster w d => if clusterCtx s then Some (goto s i (TLeaveReq w d)) else Some (goto s i (TReadCtx w d))
  | TLeaveReq w d => Some (goto (set_leaveReq s) i (TLeaveWait w d))
  | TLeaveWait w d => if leaveDone s then Some (goto s i (TReadCtx w d)) else None
  | TReadCtx w d => if hasCtx s then Some (goto s i (TKill w d)) else Some (goto (set_skipped s) i (TSchedStop w))
  | TKill w d => Some (goto (set_kill s) i (TCancel w d))
  | TCancel w d => Some (goto (set_ctxDone s) i (TSelect w (now s + timeout_of c d)))
  | TSelect w dl =>
      match alt with
      | 0 => if guardClosed s then Some (goto s i (TSchedStop w)) else None
      | 1 => if dl <=? now s then Some (goto s i (finish w RStopFailed)) else None
      | _ => None
      end
  | TSchedStop w => Some (goto (set_schedStopped s) i (finish w RNil))
  (* ---- guard goroutine, external cancel ---- *)
  | GWait => if ctxDone s then Some (goto s i (TLock ByGuard None)) else None
  | XCancel => Some (goto (set_ctxDone s) i (Done KCancel RNil))
  end.

Definition step (c : cfg) (e : ev) (s : st) : option st :=
  match e with
  | EStep i alt => match nth_error (thr s) i with Some p => step_thread c i alt s p | None => None end
  | ETreeDone => if (0 <? kills s) && negb (guardClosed s) then Some (set_guardClosed s) else None
  | ELeaveDone => if leaveReq s && negb (leaveDone s) then Some (set_leaveDone s) else None
  | ETick dt => Some (set_now s (now s + dt))
  end.

Definition init (ths : list pc) : st :=
  {| status := Ready; lock := None; hasCtx := false; clusterCtx := false; ctxDone := false; kills := 0; guardClosed := false;
     leaveReq := false; leaveDone := false; schedStopped := false; now := 0; lin := []; skipped := false; spawned := 0;
     thr := map Spawned ths |}.

(** an event that is not enabled is skipped *)
Definition step_or_stay (c : cfg) (s : st) (e : ev) : st := match step c e s with Some s' => s' | None => s end.
Definition run (c : cfg) (evs : list ev) (s : st) : st := fold_left (step_or_stay c) evs s.

(** what a client may start: Start(), Stop(), Stop(d), cancel of the context given to NewSystem *)
Definition env_pc (p : pc) : bool :=
  match p with SLock | TLock ByStop _ | XCancel => true | _ => false end.

Definition reachable (c : cfg) (s : st) : Prop :=
  exists ths evs, forallb env_pc ths = true /\ run c evs (init ths) = s.

(** ------------------------------------------------------------------------------------------------
    Derived notions used by the statements of C07 (definitions only). *)

Definition is_done (p : pc) : bool := match p with Done _ _ => true | _ => false end.

(** the status after a linearisation log (newest first) *)
Definition next_status (s : stat) (is_start : bool) : stat :=
  match s, is_start with
  | Ready, true => Started
  | Started, false => Stopped
  | s, _ => s
  end.
Fixpoint status_after (l : list (nat * bool * stat)) : stat :=
  match l with
  | [] => Ready
  | (_, k, _) :: r => next_status (status_after r) k
  end.
(** every entry saw the status produced by the entries before it *)
Fixpoint lin_wf (l : list (nat * bool * stat)) : Prop :=
  match l with
  | [] => True
  | (_, _, seen) :: r => seen = status_after r /\ lin_wf r
  end.

(** the return value as a function of the status seen at the linearisation point (the only freedom:
    the effective Stop returns nil or stop-failed; the first Start returns nil or start-failed(inner)) *)
Definition start_res_ok (seen : stat) (r : res) : Prop :=
  match seen with
  | Ready => r = RNil \/ exists inner, r = RStartFailed inner
  | Started => r = RAlreadyStarted
  | Stopped => r = RAlreadyStopped
  end.
Definition stop_res_ok (seen : stat) (r : res) : Prop :=
  match seen with
  | Ready => r = RNotStarted
  | Started => r = RNil \/ r = RStopFailed
  | Stopped => r = RAlreadyStopped
  end.

(** the pcs at which a thread holds statusLock *)
Definition holder_pc (p : pc) : bool :=
  match p with SCheck | SSpawnRoot | SChain | SUnlock _ | SUnlockFail | TCheck _ _ | TUnlock _ _ _ => true | _ => false end.
Definition lock_pc (p : pc) : bool := match p with SLock | TLock _ _ => true | _ => false end.

(** a thread that waits for the environment only *)
Definition env_wait (s : st) (p : pc) : Prop :=
  match p with
  | GWait => ctxDone s = false
  | TLeaveWait _ _ => leaveDone s = false /\ leaveReq s = true
  | TSelect _ dl => guardClosed s = false /\ now s < dl /\ 0 < kills s
  | _ => False
  end.

(** strictly decreasing measure of a thread's remaining own steps; [SGo] also pays for the goroutine it
    creates (rank (Spawned GWait) = 13), so that the sum over all threads decreases at every thread step *)
Fixpoint rank (p : pc) : nat :=
  match p with
  | Done _ _ => 0
  | TSchedStop _ => 1
  | TSelect _ _ => 2
  | TCancel _ _ => 3
  | TKill _ _ => 4
  | TReadCtx _ _ => 5
  | TLeaveWait _ _ => 6
  | TLeaveReq _ _ => 7
  | TReadCluster _ _ => 8
  | TUnlock _ _ _ => 9
  | TCheck _ _ => 10
  | TLock _ _ => 11
  | GWait => 12
  | SUnlockFail => 12
  | SGo => 14
  | SUnlock _ => 15
  | SChain => 16
  | SSpawnRoot => 17
  | SCheck => 18
  | SLock => 19
  | XCancel => 1
  | Spawned k => S (rank k)
  end.
Definition total_rank (s : st) : nat := fold_right Nat.add 0%nat (map rank (thr s)).

(** number of thread steps that actually happen when the events are applied in order *)
Fixpoint thread_steps (c : cfg) (evs : list ev) (s : st) : nat :=
  match evs with
  | [] => 0
  | e :: r =>
      match step c e s with
      | Some s' => (match e with EStep _ _ => 1 | _ => 0 end + thread_steps c r s')%nat
      | None => thread_steps c r s
      end
  end.

(** k consecutive default-branch steps of thread j *)
Fixpoint steps_of (c : cfg) (j : nat) (k : nat) (s : st) : option st :=
  match k with
  | O => Some s
  | S k' => match step c (EStep j 0) s with Some s' => steps_of c j k' s' | None => None end
  end.

(** no thread can step, whatever the clock *)
Definition quiescent (c : cfg) (s : st) : Prop :=
  forall i alt dt, step c (EStep i alt) (set_now s (now s + dt)) = None.

(** threads of the guard goroutine family *)
Definition guard_pc (p : pc) : bool :=
  match p with
  | Spawned GWait | GWait | TLock ByGuard _ | TCheck ByGuard _ | TUnlock ByGuard _ _ | TReadCluster ByGuard _ | TLeaveReq ByGuard _
  | TLeaveWait ByGuard _ | TReadCtx ByGuard _ | TKill ByGuard _ | TCancel ByGuard _ | TSelect ByGuard _ | TSchedStop ByGuard
  | Done KGuard _ => true
  | _ => false
  end.

(** ------------------------------------------------------------------------------------------------
    Call-level specification used by the real-time differential check: the possible return-value vectors
    of a multiset of calls = the vectors obtained by ordering the linearisation points (every call has one:
    its status switch; a first Start whose chain fails has a second one: the switch of its inner Stop; the
    guard goroutine has one once the context is cancelled) and applying [start_res_ok] / [stop_res_ok]. *)

Inductive call : Type :=
| CStart
| CStop (short : bool)     (* short = the timeout may expire before the tree has terminated *)
| CCancel.

Record scen : Type := {
  sc_prefix : nat;         (* the first sc_prefix calls are issued one after the other (each after the previous one returned);
                              the remaining calls are released together once those have returned *)
  sc_start_fails : bool;   (* the start-up chain of this system fails (e.g. remoting cannot bind) *)
  sc_blocks : bool;        (* the actor tree does not terminate within any of the timeouts used *)
}.

(** result codes on the wire: 0 nil, 1 already-started, 2 already-stopped, 3 not-started, 4 stop-failed, 10+x start-failed(x) *)
Fixpoint res_code (r : res) : N :=
  match r with
  | RNil => 0 | RAlreadyStarted => 1 | RAlreadyStopped => 2 | RNotStarted => 3 | RStopFailed => 4
  | RStartFailed i => 10 + res_code i
  end.

(** linearisation points still to come: (call index, point) *)
Inductive point : Type := PStart | PStop (short : bool) | PCancel | PInner.

(** allowed results of the effective stop *)
Definition eff_results (sc : scen) (short : bool) : list res :=
  if sc_blocks sc then [RStopFailed] else if short then [RNil; RStopFailed] else [RNil].

Definition stop_results (sc : scen) (seen : stat) (short : bool) : list res :=
  match seen with
  | Ready => [RNotStarted]
  | Stopped => [RAlreadyStopped]
  | Started => eff_results sc short
  end.

(** abstract state of the search: stat, context cancelled?, guard goroutine exists? , guard already ran? *)
Record astate : Type := { a_status : stat; a_cancel : bool; a_guard : bool; a_guard_ran : bool }.

Definition set_nth_res (l : list (option res)) (k : nat) (r : res) : list (option res) := upd l k (Some r).

(** [search fuel sc pend a acc obs]: pend = per call, the points it still has to pass (in order; [] = returned);
    acc = results so far. Explores every admissible next point. Returns true iff some completion yields [obs]. *)
Fixpoint all_returned (pend : list (list point)) : bool :=
  match pend with [] => true | [] :: r => all_returned r | _ => false end.

Fixpoint matches (acc : list (option res)) (obs : list N) : bool :=
  match acc, obs with
  | [], [] => true
  | Some r :: a, o :: b => (res_code r =? o) && matches a b
  | _, _ => false
  end.

(** the indices of calls that may take their next point now: while a call of the sequential prefix has not
    returned, only that call; afterwards every call with a pending point *)
Fixpoint first_pending (pend : list (list point)) (k : nat) : option nat :=
  match pend with
  | [] => None
  | [] :: r => first_pending r (S k)
  | _ :: _ => Some k
  end.
Fixpoint all_pending (pend : list (list point)) (k : nat) : list nat :=
  match pend with
  | [] => []
  | [] :: r => all_pending r (S k)
  | _ :: r => k :: all_pending r (S k)
  end.

Definition exists_in {A} (l : list A) (f : A -> bool) : bool := existsb f l.

Fixpoint search (fuel : nat) (sc : scen) (pend : list (list point)) (a : astate) (acc : list (option res)) (obs : list N) : bool :=
  match fuel with
  | O => false
  | S fuel' =>
    (all_returned pend && matches acc obs)
    ||
    (* the guard goroutine's stop(false), once it exists and the context is cancelled *)
    (a_guard a && a_cancel a && negb (a_guard_ran a) &&
       search fuel' sc pend
         {| a_status := next_status (a_status a) false; a_cancel := true; a_guard := true; a_guard_ran := true |} acc obs)
    ||
    exists_in (match first_pending pend 0 with
               | Some k => if Nat.ltb k (sc_prefix sc) then [k] else all_pending pend 0
               | None => []
               end)
      (fun k =>
         match nth_error pend k with
         | Some (pt :: rest) =>
             match pt with
             | PStart =>
                 match a_status a with
                 | Ready =>
                     if sc_start_fails sc then
                       search fuel' sc (upd pend k (PInner :: rest))
                         {| a_status := Started; a_cancel := a_cancel a; a_guard := a_guard a; a_guard_ran := a_guard_ran a |} acc obs
                     else
                       search fuel' sc (upd pend k rest)
                         {| a_status := Started; a_cancel := a_cancel a; a_guard := true; a_guard_ran := a_guard_ran a |}
                         (set_nth_res acc k RNil) obs
                 | Started => search fuel' sc (upd pend k rest) a (set_nth_res acc k RAlreadyStarted) obs
                 | Stopped => search fuel' sc (upd pend k rest) a (set_nth_res acc k RAlreadyStopped) obs
                 end
             | PInner =>
                 exists_in (stop_results sc (a_status a) false)
                   (fun r => search fuel' sc (upd pend k rest)
                      {| a_status := next_status (a_status a) false;
                         a_cancel := a_cancel a || match a_status a with Started => true | _ => false end;
                         a_guard := a_guard a; a_guard_ran := a_guard_ran a |}
                      (set_nth_res acc k (RStartFailed r)) obs)
             | PStop short =>
                 exists_in (stop_results sc (a_status a) short)
                   (fun r => search fuel' sc (upd pend k rest)
                      {| a_status := next_status (a_status a) false;
                         a_cancel := a_cancel a || match a_status a with Started => true | _ => false end;
                         a_guard := a_guard a; a_guard_ran := a_guard_ran a |}
                      (set_nth_res acc k r) obs)
             | PCancel =>
                 search fuel' sc (upd pend k rest)
                   {| a_status := a_status a; a_cancel := true; a_guard := a_guard a; a_guard_ran := a_guard_ran a |}
                   (set_nth_res acc k RNil) obs
             end
         | _ => false
         end)
  end.

Definition points_of (cl : call) : list point :=
  match cl with CStart => [PStart] | CStop sh => [PStop sh] | CCancel => [PCancel] end.

(** is the observed vector of return codes (one per call, in call order) possible? *)
Definition admissible (sc : scen) (calls : list call) (obs : list N) : bool :=
  search (2 * length calls + 3) sc (map points_of calls)
         {| a_status := Ready; a_cancel := false; a_guard := false; a_guard_ran := false |}
         (map (fun _ => None) calls) obs.
