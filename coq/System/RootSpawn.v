(** System/RootSpawn.v - System.ActorOf racing the root's OnKill (the Kill(root) of System.stop).

    The root is the only actor whose ActorOf is called from arbitrary goroutines (System.ActorOf; every other actor
    spawns from its own handler, on its own mailbox goroutine).  internal/actor/context.go, Context.ActorOf, on the root:

      A0   status := atomic.LoadInt32(&c.state); if status == killed { return ErrorActorDeaded }
      A1   NewContext; appendActorContext; c.children[path] = ref            (under childrenLock)
           tell OnLaunch; publish ActorSpawnedEvent
      A3   the final check that decides whether the new child must be killed at once
             repaired code (/repo 6438ab6):  if atomic.LoadInt32(&c.state) != running { c.Kill(child) }    [reread = true]
             code before:                     if status == killing { c.Kill(child) }   (value read at A0)     [reread = false]

    and the root's handling of OnKill on its own mailbox goroutine (onKill / doKill / onKilled / checkAndMarkKilled):

      RIdle     the OnKill has not been taken from the mailbox yet
      RCollect  CAS running -> killing done; next: for child := range c.Children() (a snapshot under childrenLock) { Kill(child) }
      RWait     one OnKilled(child) after the other: removeChild; when the table is empty: CAS killing -> killed
      RDead     killed (the guard actor closes guardClosedSignal)

    A child that has been sent a kill terminates and its OnKilled removes it from the root's table ([EDie]; termination
    of a single killed actor is C06's concern).  Any number of callers, any interleaving; the OnKill may be taken at any
    moment ([ERoot] at RIdle is always enabled: the most general Start/Stop environment).

    Proved (RootSpawnProofs.v), for the repaired code: every registered child is sent a kill; the root never waits for a
    child nobody kills; in every state in which nothing can move any more, the root - once told to die - is dead and
    every actor whose ActorOf succeeded has terminated.  For the stale-read variant both fail (witnesses). *)
From Coq Require Import List NArith Bool Arith.
Import ListNotations.

Inductive rstate : Type := RRunning | RKilling | RKilled.

Inductive apc : Type :=
| A0
| A1 (st0 : rstate)
| A3 (st0 : rstate) (ch : nat)
| ADone (res : option nat).       (* Some child: the reference ActorOf returned; None: ErrorActorDeaded *)

Inductive rpc : Type := RIdle | RCollect | RWait | RDead.

Record rs : Type := {
  rst : rstate;             (* the root's state word *)
  rp : rpc;                 (* the root's OnKill handling *)
  children : list nat;      (* the root's children table *)
  killSent : list nat;      (* children that have been sent a kill *)
  fresh : nat;
  callers : list apc;
}.

Definition rstate_eqb (a b : rstate) : bool :=
  match a, b with RRunning, RRunning | RKilling, RKilling | RKilled, RKilled => true | _, _ => false end.

Fixpoint upd {A} (l : list A) (i : nat) (x : A) : list A :=
  match l, i with
  | [], _ => []
  | _ :: r, O => x :: r
  | y :: r, S i' => y :: upd r i' x
  end.

Definition set_callers (s : rs) (l : list apc) : rs :=
  {| rst := rst s; rp := rp s; children := children s; killSent := killSent s; fresh := fresh s; callers := l |}.

Definition mem (x : nat) (l : list nat) : bool := existsb (Nat.eqb x) l.
Definition remove_all (x : nat) (l : list nat) : list nat := filter (fun y => negb (Nat.eqb x y)) l.

Inductive rsev : Type :=
| ECall (j : nat)       (* caller j takes its next step *)
| ERoot                 (* the root's mailbox goroutine takes its next step *)
| EDie (ch : nat).      (* child ch, which has been sent a kill, terminates; the root handles its OnKilled: removeChild *)

Definition step_caller (reread : bool) (j : nat) (s : rs) : option rs :=
  match nth_error (callers s) j with
  | Some A0 =>
      match rst s with
      | RKilled => Some (set_callers s (upd (callers s) j (ADone None)))
      | st0 => Some (set_callers s (upd (callers s) j (A1 st0)))
      end
  | Some (A1 st0) =>
      Some {| rst := rst s; rp := rp s; children := fresh s :: children s; killSent := killSent s; fresh := S (fresh s);
              callers := upd (callers s) j (A3 st0 (fresh s)) |}
  | Some (A3 st0 ch) =>
      let kill := if reread then negb (rstate_eqb (rst s) RRunning) else rstate_eqb st0 RKilling in
      Some {| rst := rst s; rp := rp s; children := children s; killSent := if kill then ch :: killSent s else killSent s;
              fresh := fresh s; callers := upd (callers s) j (ADone (Some ch)) |}
  | _ => None
  end.

Definition step_root (s : rs) : option rs :=
  match rp s with
  | RIdle => Some {| rst := RKilling; rp := RCollect; children := children s; killSent := killSent s; fresh := fresh s; callers := callers s |}
  | RCollect => Some {| rst := rst s; rp := RWait; children := children s; killSent := children s ++ killSent s; fresh := fresh s; callers := callers s |}
  | RWait =>
      match children s with
      | [] => Some {| rst := RKilled; rp := RDead; children := []; killSent := killSent s; fresh := fresh s; callers := callers s |}
      | _ :: _ => None
      end
  | RDead => None
  end.

Definition step_die (ch : nat) (s : rs) : option rs :=
  if mem ch (killSent s) && mem ch (children s)
  then Some {| rst := rst s; rp := rp s; children := remove_all ch (children s); killSent := killSent s; fresh := fresh s; callers := callers s |}
  else None.

Definition rstep (reread : bool) (e : rsev) (s : rs) : option rs :=
  match e with
  | ECall j => step_caller reread j s
  | ERoot => step_root s
  | EDie ch => step_die ch s
  end.

Fixpoint rep_a0 (n : nat) : list apc := match n with O => [] | S k => A0 :: rep_a0 k end.

Definition rinit (n : nat) : rs :=
  {| rst := RRunning; rp := RIdle; children := []; killSent := []; fresh := 0; callers := rep_a0 n |}.

Definition rstep_or_stay (reread : bool) (s : rs) (e : rsev) : rs := match rstep reread e s with Some s' => s' | None => s end.
Definition rrun (reread : bool) (evs : list rsev) (s : rs) : rs := fold_left (rstep_or_stay reread) evs s.
Definition rreachable (reread : bool) (s : rs) : Prop := exists n evs, rrun reread evs (rinit n) = s.

Definition adone (p : apc) : bool := match p with ADone _ => true | _ => false end.
(** nothing can move any more *)
Definition rquiescent (reread : bool) (s : rs) : Prop := forall e, rstep reread e s = None.
